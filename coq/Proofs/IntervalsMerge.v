(* C13, merge_labeled_intervals: np.unique as sorted union, the common refinement, labels, duration conservation,
   the alignment error, and the refutation for annotations with gaps. *)
From Coq Require Import List Bool Arith ZArith QArith Qminmax Qabs Lia Lqa.
From ME Require Import Model.Prelude Model.Intervals Proofs.IntervalsBase.
Import ListNotations.
Open Scope Q_scope.

(* ---------------------------------------------------------------------------------------- *)
(* sort_uniq = the strictly increasing list with the same elements (up to ==)                *)
(* ---------------------------------------------------------------------------------------- *)
Fixpoint ssorted (l : list Q) : Prop :=
  match l with [] => True | x :: r => Forall (fun y => x < y) r /\ ssorted r end.
Definition InQ (x : Q) (l : list Q) : Prop := exists y, In y l /\ x == y.

Lemma InQ_cons x a l : InQ x (a :: l) <-> x == a \/ InQ x l.
Proof.
  unfold InQ. split.
  - intros [y [[<-|hy] e]]; [left; exact e|right; exists y; auto].
  - intros [e|[y [hy e]]]; [exists a; split; [left; reflexivity|exact e]|exists y; split; [right; exact hy|exact e]].
Qed.
Lemma InQ_nil x : ~ InQ x [].
Proof. intros [y [[] _]]. Qed.
Lemma InQ_app x l1 l2 : InQ x (l1 ++ l2) <-> InQ x l1 \/ InQ x l2.
Proof.
  unfold InQ. split.
  - intros [y [hy e]]. apply in_app_or in hy. destruct hy; [left|right]; exists y; auto.
  - intros [[y [hy e]]|[y [hy e]]]; exists y; split; auto; apply in_or_app; auto.
Qed.

Lemma ins_uniq_spec x : forall l, ssorted l ->
  ssorted (ins_uniq x l) /\ forall z, InQ z (ins_uniq x l) <-> z == x \/ InQ z l.
Proof.
  induction l as [|y r IH]; intros hs.
  - cbn. split; [split; [constructor|exact I]|]. intros z. rewrite InQ_cons. tauto.
  - cbn [ins_uniq]. destruct hs as [h1 h2]. destruct (qltb x y) eqn:E1; qb.
    + split.
      * cbn. split; [|split; assumption]. constructor; [exact E1|].
        eapply Forall_impl; [|exact h1]. cbn. intros w hw. lra.
      * intros z. rewrite InQ_cons. tauto.
    + destruct (Qeq_bool x y) eqn:E2; qb.
      * split; [cbn; split; assumption|]. intros z. rewrite !InQ_cons. split; [tauto|].
        intros [e|[e|h]]; [left; rewrite e; exact E2|left; exact e|right; exact h].
      * destruct (IH h2) as [g1 g2]. split.
        -- cbn. split; [|exact g1]. apply Forall_forall. intros w hw.
           assert (hq : InQ w (ins_uniq x r)) by (exists w; split; [exact hw|reflexivity]).
           apply g2 in hq. destruct hq as [e|[w' [hw' e]]].
           ++ assert (y < x) by (destruct (Qlt_le_dec y x) as [g|g]; [exact g|exfalso; apply E2; lra]). lra.
           ++ rewrite Forall_forall in h1. specialize (h1 _ hw'). lra.
        -- intros z. rewrite !InQ_cons, g2. tauto.
Qed.
Lemma sort_uniq_spec : forall l, ssorted (sort_uniq l) /\ forall z, InQ z (sort_uniq l) <-> InQ z l.
Proof.
  induction l as [|x l [h1 h2]]; cbn.
  - split; [exact I|tauto].
  - destruct (ins_uniq_spec x _ h1) as [g1 g2]. split; [exact g1|].
    intros z. rewrite g2, InQ_cons, h2. tauto.
Qed.

(* two strictly increasing lists with the same elements coincide *)
Lemma ssorted_unique : forall a b, ssorted a -> ssorted b -> (forall z, InQ z a <-> InQ z b) -> Forall2 Qeq a b.
Proof.
  induction a as [|x a IH]; intros b ha hb hiff.
  - destruct b as [|y b]; [constructor|]. exfalso. apply (InQ_nil y). apply hiff. apply InQ_cons. left. reflexivity.
  - destruct b as [|y b].
    + exfalso. apply (InQ_nil x). apply hiff. apply InQ_cons. left. reflexivity.
    + destruct ha as [ha1 ha2], hb as [hb1 hb2].
      assert (hlow_a : forall z, InQ z a -> x < z).
      { intros z [w [hw e]]. rewrite Forall_forall in ha1. specialize (ha1 _ hw). lra. }
      assert (hlow_b : forall z, InQ z b -> y < z).
      { intros z [w [hw e]]. rewrite Forall_forall in hb1. specialize (hb1 _ hw). lra. }
      assert (exy : x == y).
      { assert (h1 : InQ x (y :: b)) by (apply hiff; apply InQ_cons; left; reflexivity).
        assert (h2 : InQ y (x :: a)) by (apply hiff; apply InQ_cons; left; reflexivity).
        apply InQ_cons in h1. apply InQ_cons in h2.
        destruct h1 as [e|h1]; [exact e|]. destruct h2 as [e|h2]; [symmetry; exact e|].
        pose proof (hlow_b _ h1). pose proof (hlow_a _ h2). lra. }
      constructor; [exact exy|]. apply IH; auto.
      intros z. split; intros hz.
      * assert (h : InQ z (y :: b)) by (apply hiff; apply InQ_cons; right; exact hz).
        apply InQ_cons in h. destruct h as [e|h]; [|exact h]. pose proof (hlow_a _ hz). lra.
      * assert (h : InQ z (x :: a)) by (apply hiff; apply InQ_cons; right; exact hz).
        apply InQ_cons in h. destruct h as [e|h]; [|exact h]. pose proof (hlow_b _ hz). lra.
Qed.

Lemma ssorted_hd_le x r z : ssorted (x :: r) -> In z (x :: r) -> x <= z.
Proof. intros [h _] [<-|hz]; [lra|]. rewrite Forall_forall in h. specialize (h _ hz). lra. Qed.
Lemma ssorted_le_last : forall l d z, ssorted l -> In z l -> z <= last l d.
Proof.
  induction l as [|x r IH]; intros d z hs hz; [destruct hz|].
  destruct r as [|y r'].
  - destruct hz as [<-|[]]. cbn. lra.
  - change (last (x :: y :: r') d) with (last (y :: r') d). destruct hs as [h1 h2]. destruct hz as [<-|hz].
    + rewrite Forall_forall in h1.
      assert (hin : In y (y :: r')) by (left; reflexivity).
      pose proof (h1 _ hin). pose proof (IH d y h2 hin). lra.
    + apply IH; assumption.
Qed.

(* ---------------------------------------------------------------------------------------- *)
(* adjacent pairs                                                                            *)
(* ---------------------------------------------------------------------------------------- *)
Lemma adjacent_pairs_cons2 a b r : adjacent_pairs (a :: b :: r) = (a, b) :: adjacent_pairs (b :: r).
Proof. reflexivity. Qed.
Lemma adjacent_pairs_one a : adjacent_pairs [a] = [].
Proof. reflexivity. Qed.

Lemma adjacent_between : forall tb t0 t1, ssorted tb -> In (t0, t1) (adjacent_pairs tb) ->
  t0 < t1 /\ In t0 tb /\ In t1 tb /\ forall z, In z tb -> z <= t0 \/ t1 <= z.
Proof.
  induction tb as [|a tb IH]; intros t0 t1 hs hin; [destruct hin|].
  destruct tb as [|b r]; [destruct hin|]. rewrite adjacent_pairs_cons2 in hin.
  destruct hs as [h1 h2]. destruct hin as [e|hin].
  - injection e as <- <-. inversion h1; subst. split; [assumption|]. split; [left; reflexivity|]. split; [right; left; reflexivity|].
    intros z [<-|hz]; [left; lra|]. right. apply (ssorted_hd_le b r z h2 hz).
  - destruct (IH t0 t1 h2 hin) as [g1 [g2 [g3 g4]]]. split; [exact g1|]. split; [right; exact g2|]. split; [right; exact g3|].
    intros z [<-|hz]; [|apply g4; exact hz]. left. rewrite Forall_forall in h1. specialize (h1 _ g2). lra.
Qed.

Lemma telescope : forall r a, qsum (map (fun o : iv => snd o - fst o) (adjacent_pairs (a :: r))) == last (a :: r) a - a.
Proof.
  induction r as [|b r IH]; intros a.
  - cbn. lra.
  - rewrite adjacent_pairs_cons2. cbn [map qsum fold_right fst snd].
    change (fold_right Qplus 0 (map (fun o : iv => snd o - fst o) (adjacent_pairs (b :: r))))
      with (qsum (map (fun o : iv => snd o - fst o) (adjacent_pairs (b :: r)))).
    rewrite IH. change (last (a :: b :: r) a) with (last (b :: r) a).
    assert (e : last (b :: r) a = last (b :: r) b).
    { clear. revert b. induction r as [|c r IHr]; intros b; [reflexivity|].
      change (last (b :: c :: r) a) with (last (c :: r) a). change (last (b :: c :: r) b) with (last (c :: r) b).
      rewrite IHr. clear. revert c. induction r as [|e r IHr]; intros c; [reflexivity|].
      change (last (c :: e :: r) c) with (last (e :: r) c). change (last (c :: e :: r) b) with (last (e :: r) b).
      destruct r as [|f r]; [reflexivity|].
      change (last (e :: f :: r) c) with (last (f :: r) c). change (last (e :: f :: r) b) with (last (f :: r) b).
      clear. revert f. induction r as [|g r IHr]; intros f; [reflexivity|].
      change (last (f :: g :: r) c) with (last (g :: r) c). change (last (f :: g :: r) b) with (last (g :: r) b). apply IHr. }
    rewrite e. lra.
Qed.

Lemma label_with_ext {L} (c c' : iv -> Q -> bool) : forall ivs (labs : list L) t t',
  Forall (fun v => c v t = c' v t') ivs -> label_with c ivs labs t = label_with c' ivs labs t'.
Proof.
  induction ivs as [|v ivs IH]; intros labs t t' H; [reflexivity|].
  destruct labs as [|l labs]; [reflexivity|]. inversion H; subst. cbn. rewrite (IH labs t t') by assumption.
  rewrite H2. reflexivity.
Qed.
Lemma Forall2_len {A B} (R : A -> B -> Prop) l1 l2 : Forall2 R l1 l2 -> length l1 = length l2.
Proof. induction 1; cbn; congruence. Qed.
Lemma Forall2_impl_In {A B} (R S : A -> B -> Prop) l1 l2 :
  (forall a b, In a l1 -> R a b -> S a b) -> Forall2 R l1 l2 -> Forall2 S l1 l2.
Proof.
  intros H h2. induction h2; constructor.
  - apply H; [left; reflexivity|assumption].
  - apply IHh2. intros a b ha. apply H. right. exact ha.
Qed.

(* ---------------------------------------------------------------------------------------- *)
(* mapM                                                                                      *)
(* ---------------------------------------------------------------------------------------- *)
Lemma mapM_ok {A B} (f : A -> res B) : forall l r, mapM f l = Ok r -> Forall2 (fun x y => f x = Ok y) l r.
Proof.
  induction l as [|x l IH]; intros r H; cbn in H.
  - injection H as <-. constructor.
  - destruct (f x) as [y|e] eqn:E; [|discriminate]. destruct (mapM f l) as [r'|e]; [|discriminate].
    injection H as <-. constructor; [exact E|apply IH; reflexivity].
Qed.
Lemma mapM_raise {A B} (f : A -> res B) : forall l e, mapM f l = Raise e -> exists x, In x l /\ f x = Raise e.
Proof.
  induction l as [|x l IH]; intros e H; cbn in H; [discriminate|].
  destruct (f x) as [y|e'] eqn:E.
  - destruct (mapM f l) as [r'|e'] eqn:E2; [discriminate|]. injection H as <-.
    destruct (IH _ eq_refl) as [z [hz hf]]. exists z. split; [right; exact hz|exact hf].
  - injection H as <-. exists x. split; [left; reflexivity|exact E].
Qed.
Lemma mapM_all_ok {A B} (f : A -> res B) : forall l, (forall x, In x l -> exists y, f x = Ok y) -> exists r, mapM f l = Ok r.
Proof.
  induction l as [|x l IH]; intros H; cbn; [eexists; reflexivity|].
  destruct (H x (or_introl eq_refl)) as [y ->]. destruct IH as [r ->]; [intros z hz; apply H; right; exact hz|].
  eexists; reflexivity.
Qed.

(* ---------------------------------------------------------------------------------------- *)
(* merge_pick = label of the LAST row whose start is <= t0                                    *)
(* ---------------------------------------------------------------------------------------- *)
Definition c_start (v : iv) (t : Q) : bool := Qle_bool (fst v) t.

Lemma last_idx_lt {A} (p : A -> bool) : forall l k, last_idx p l = Some k -> (k < length l)%nat.
Proof.
  induction l as [|x l IH]; intros k H; cbn in H; [discriminate|].
  destruct (last_idx p l) as [j|]; [injection H as <-; cbn; specialize (IH j eq_refl); lia|].
  destruct (p x); [injection H as <-; cbn; lia|discriminate].
Qed.
Lemma last_idx_label_with {L} t0 : forall (ivs : list iv) (labs : list L), length labs = length ivs ->
  match last_idx (fun v => Qle_bool (fst v) t0) ivs with Some k => nth_error labs k | None => None end
  = label_with c_start ivs labs t0.
Proof.
  induction ivs as [|v r IH]; intros labs hl; [reflexivity|].
  destruct labs as [|l ls]; [discriminate|]. cbn in hl. cbn [last_idx label_with].
  specialize (IH ls ltac:(lia)).
  destruct (last_idx (fun v => Qle_bool (fst v) t0) r) as [k|] eqn:E.
  - cbn [nth_error]. rewrite <- IH.
    pose proof (last_idx_lt _ _ _ E) as hk.
    destruct (nth_error ls k) eqn:E2; [reflexivity|]. apply nth_error_None in E2. unfold iv in *. lia.
  - rewrite <- IH. unfold c_start. destruct (Qle_bool (fst v) t0); reflexivity.
Qed.
Lemma merge_pick_label_with {L} (ivs : list iv) (labs : list L) t0 : length labs = length ivs ->
  merge_pick ivs labs t0 = match label_with c_start ivs labs t0 with Some l => Ok l | None => Raise IndexError end.
Proof.
  intros hl. unfold merge_pick. rewrite hl, Nat.eqb_refl. cbn [negb].
  rewrite <- (last_idx_label_with t0 ivs labs hl).
  destruct (last_idx _ _) as [k|]; [|reflexivity]. destruct (nth_error labs k); reflexivity.
Qed.
Lemma merge_pick_raises {L} (ivs : list iv) (labs : list L) t0 e : merge_pick ivs labs t0 = Raise e -> e = IndexError.
Proof.
  unfold merge_pick. destruct (negb _); [congruence|]. destruct (last_idx _ _) as [k|]; [|congruence].
  destruct (nth_error labs k); congruence.
Qed.

(* for an ordered annotation the picked label is the label of the interval containing t0, whenever there is one *)
Lemma label_at_c_start {L} : forall (ivs : list iv) (labs : list L) t l,
  ordered ivs -> label_at ivs labs t = Some l -> label_with c_start ivs labs t = Some l.
Proof.
  induction ivs as [|v r IH]; intros labs t l ho H; [discriminate|].
  destruct labs as [|l0 ls]; [discriminate|]. unfold label_at in H. cbn [label_with] in *.
  destruct (label_with in_ho r ls t) as [x|] eqn:E.
  - injection H as <-. rewrite (IH ls t x); [reflexivity|cbn in ho; tauto|exact E].
  - destruct (in_ho v t) eqn:E2; [|discriminate]. injection H as <-. unfold in_ho in E2. qb.
    rewrite label_with_none.
    + unfold c_start. assert (e : Qle_bool (fst v) t = true) by (apply qleb_true; assumption). rewrite e. reflexivity.
    + cbn in ho. destruct ho as [_ [hall _]]. eapply Forall_impl; [|exact hall]. cbn. intros w hw.
      unfold c_start. apply qleb_false. lra.
Qed.
(* if some row starts at or before t0 a label is picked *)
Lemma label_with_c_start_some {L} : forall (ivs : list iv) (labs : list L) t v, length labs = length ivs ->
  In v ivs -> fst v <= t -> exists l, label_with c_start ivs labs t = Some l.
Proof.
  induction ivs as [|w r IH]; intros labs t v hl hv hle; [destruct hv|].
  destruct labs as [|l0 ls]; [discriminate|]. cbn in hl. cbn [label_with].
  destruct (label_with c_start r ls t) as [x|] eqn:E; [eexists; reflexivity|].
  destruct hv as [<-|hv].
  - unfold c_start. assert (e : Qle_bool (fst w) t = true) by (apply qleb_true; assumption). rewrite e. eexists; reflexivity.
  - destruct (IH ls t v ltac:(lia) hv hle) as [x hx]. congruence.
Qed.

(* ---------------------------------------------------------------------------------------- *)
(* the theorems                                                                              *)
(* ---------------------------------------------------------------------------------------- *)
Section Merge.
Context {L : Type}.
Variable d : iv.

Definition aligned (xi yi : list iv) : Prop :=
  fst (hd d xi) == fst (hd d yi) /\ snd (last xi d) == snd (last yi d).
Definition boundaries (xi yi : list iv) : list Q := sort_uniq (flat (xi ++ yi)).

Lemma last_indep {A} : forall (l : list A) d1 d2, l <> [] -> last l d1 = last l d2.
Proof.
  induction l as [|x l IH]; intros d1 d2 hne; [congruence|]. destruct l as [|y l]; [reflexivity|].
  change (last (x :: y :: l) d1) with (last (y :: l) d1). change (last (x :: y :: l) d2) with (last (y :: l) d2).
  apply IH. discriminate.
Qed.

Lemma merge_unfold (xi : list iv) (xl : list L) (yi : list iv) (yl : list L) : xi <> [] -> yi <> [] ->
  merge_labeled_intervals xi xl yi yl =
  if negb (Qeq_bool (fst (hd d xi)) (fst (hd d yi))) || negb (Qeq_bool (snd (last xi d)) (snd (last yi d)))
  then Raise ValueError
  else labs <- mapM (fun o => a <- merge_pick xi xl (fst o) ;; b <- merge_pick yi yl (fst o) ;; Ok (a, b))
                    (adjacent_pairs (boundaries xi yi)) ;;
       Ok (adjacent_pairs (boundaries xi yi), map fst labs, map snd labs).
Proof.
  intros hx hy. destruct xi as [|x0 rx]; [congruence|]. destruct yi as [|y0 ry]; [congruence|].
  unfold merge_labeled_intervals. cbn [hd].
  rewrite (last_indep (x0 :: rx) x0 d) by discriminate. rewrite (last_indep (y0 :: ry) y0 d) by discriminate.
  reflexivity.
Qed.

(* ValueError exactly when the spans differ *)
Theorem merge_span_error (xi : list iv) (xl : list L) (yi : list iv) (yl : list L) : xi <> [] -> yi <> [] ->
  (merge_labeled_intervals xi xl yi yl = Raise ValueError <-> ~ aligned xi yi).
Proof.
  intros hx hy. rewrite (merge_unfold xi xl yi yl hx hy). unfold aligned.
  destruct (Qeq_bool (fst (hd d xi)) (fst (hd d yi))) eqn:E1; destruct (Qeq_bool (snd (last xi d)) (snd (last yi d))) eqn:E2;
    cbn [negb orb]; qb.
  2-4: split; [intros _; tauto|reflexivity].
  split; [|tauto]. intros H. exfalso.
  destruct (mapM _ _) as [labs|e] eqn:E; cbn in H; [discriminate|]. injection H as ->.
  destruct (mapM_raise _ _ _ E) as [o [_ ho]].
  destruct (merge_pick xi xl (fst o)) as [a|e] eqn:Ea; cbn in ho.
  - destruct (merge_pick yi yl (fst o)) as [b|e] eqn:Eb; cbn in ho; [discriminate|].
    injection ho as ->. apply merge_pick_raises in Eb. discriminate.
  - injection ho as ->. apply merge_pick_raises in Ea. discriminate.
Qed.
(* empty inputs raise IndexError *)
Theorem merge_empty_error (xi : list iv) (xl : list L) (yi : list iv) (yl : list L) :
  xi = [] \/ yi = [] -> merge_labeled_intervals xi xl yi yl = Raise IndexError.
Proof. intros [-> | ->]; [reflexivity|]. destruct xi; reflexivity. Qed.

(* facts on the boundary list of two ordered aligned annotations *)
Lemma boundaries_facts (xi yi : list iv) : ordered xi -> ordered yi -> xi <> [] -> yi <> [] -> aligned xi yi ->
  let tb := boundaries xi yi in
  ssorted tb /\ (forall z, InQ z tb <-> InQ z (flat xi) \/ InQ z (flat yi)) /\
  (forall z, In z tb -> fst (hd d xi) <= z /\ z <= snd (last xi d)) /\
  InQ (fst (hd d xi)) tb /\ InQ (snd (last xi d)) tb.
Proof.
  intros hox hoy hx hy [ha1 ha2]. cbv zeta. unfold boundaries.
  destruct (sort_uniq_spec (flat (xi ++ yi))) as [hs hiff].
  assert (hiff' : forall z, InQ z (sort_uniq (flat (xi ++ yi))) <-> InQ z (flat xi) \/ InQ z (flat yi)).
  { intros z. rewrite hiff. unfold flat. rewrite flat_map_app. apply InQ_app. }
  assert (hbx : forall z, InQ z (flat xi) -> fst (hd d xi) <= z /\ z <= snd (last xi d)).
  { intros z [w [hw e]]. apply in_flat in hw. destruct hw as [v [hv hor]].
    destruct (ordered_last_ge xi v d hox hv) as [g1 g2].
    pose proof (ordered_in _ _ hox hv) as hv2.
    destruct xi as [|x0 rx]; [congruence|]. cbn [hd].
    assert (fst x0 <= fst v).
    { destruct hv as [<-|hv]; [lra|]. pose proof (ordered_le_all _ _ hox) as hall. rewrite Forall_forall in hall.
      specialize (hall _ hv). lra. }
    destruct hor as [->| ->]; lra. }
  assert (hby : forall z, InQ z (flat yi) -> fst (hd d yi) <= z /\ z <= snd (last yi d)).
  { intros z [w [hw e]]. apply in_flat in hw. destruct hw as [v [hv hor]].
    destruct (ordered_last_ge yi v d hoy hv) as [g1 g2].
    pose proof (ordered_in _ _ hoy hv) as hv2.
    destruct yi as [|y0 ry]; [congruence|]. cbn [hd].
    assert (fst y0 <= fst v).
    { destruct hv as [<-|hv]; [lra|]. pose proof (ordered_le_all _ _ hoy) as hall. rewrite Forall_forall in hall.
      specialize (hall _ hv). lra. }
    destruct hor as [->| ->]; lra. }
  split; [exact hs|]. split; [exact hiff'|]. split; [|split].
  - intros z hz. assert (hq : InQ z (sort_uniq (flat (xi ++ yi)))) by (exists z; split; [exact hz|reflexivity]).
    apply hiff' in hq. destruct hq as [hq|hq]; [apply hbx; exact hq|]. destruct (hby _ hq). lra.
  - apply hiff'. left. destruct xi as [|x0 rx]; [congruence|]. exists (fst x0). split; [cbn; auto|reflexivity].
  - apply hiff'. left. exists (snd (last xi d)). split; [|reflexivity]. apply in_flat. exists (last xi d). split; [|auto].
    destruct (@exists_last _ xi hx) as [l' [a ea]]. rewrite ea, last_last. apply in_or_app. right. left. reflexivity.
Qed.

(* no exception for ordered, aligned, non-empty annotations with one label per row *)
Theorem merge_ok (xi : list iv) (xl : list L) (yi : list iv) (yl : list L) :
  ordered xi -> ordered yi -> xi <> [] -> yi <> [] -> aligned xi yi ->
  length xl = length xi -> length yl = length yi ->
  exists lx ly, merge_labeled_intervals xi xl yi yl = Ok (adjacent_pairs (boundaries xi yi), lx, ly).
Proof.
  intros hox hoy hx hy hal hlx hly. rewrite (merge_unfold xi xl yi yl hx hy).
  destruct hal as [ha1 ha2].
  assert (e1 : Qeq_bool (fst (hd d xi)) (fst (hd d yi)) = true) by (apply qeqb_true; exact ha1).
  assert (e2 : Qeq_bool (snd (last xi d)) (snd (last yi d)) = true) by (apply qeqb_true; exact ha2).
  rewrite e1, e2. cbn [negb orb].
  destruct (boundaries_facts xi yi hox hoy hx hy (conj ha1 ha2)) as [hs [hiff [hb _]]].
  match goal with |- context [mapM ?f ?l] => destruct (mapM_all_ok f l) as [labs ->] end.
  - intros [t0 t1] hin. destruct (adjacent_between _ _ _ hs hin) as [_ [hin0 _]]. cbn [fst].
    destruct (hb _ hin0) as [hlo _].
    rewrite (merge_pick_label_with xi xl t0 hlx), (merge_pick_label_with yi yl t0 hly).
    destruct xi as [|x0 rx]; [congruence|]. destruct yi as [|y0 ry]; [congruence|]. cbn [hd] in *.
    destruct (label_with_c_start_some (x0 :: rx) xl t0 x0 hlx (or_introl eq_refl) hlo) as [a ->].
    destruct (label_with_c_start_some (y0 :: ry) yl t0 y0 hly (or_introl eq_refl) ltac:(lra)) as [b ->].
    cbn. eexists; reflexivity.
  - cbn. eexists; eexists; reflexivity.
Qed.

(* the common refinement: rows = consecutive pairs of the sorted union of both boundary sets; every row has positive
   duration, lies between two consecutive boundaries (no boundary of either annotation strictly inside), and carries for
   each annotation the label of the interval containing its start -- hence the label of every instant of the row *)
Theorem merge_is_common_refinement (xi : list iv) (xl : list L) (yi : list iv) (yl : list L) out lx ly :
  ordered xi -> ordered yi -> xi <> [] -> yi <> [] -> length xl = length xi -> length yl = length yi ->
  merge_labeled_intervals xi xl yi yl = Ok (out, lx, ly) ->
  let tb := boundaries xi yi in
  out = adjacent_pairs tb /\ ssorted tb /\ (forall z, InQ z tb <-> InQ z (flat xi) \/ InQ z (flat yi)) /\
  length lx = length out /\ length ly = length out /\
  (forall o, In o out -> fst o < snd o /\ forall z, InQ z (flat xi) \/ InQ z (flat yi) -> z <= fst o \/ snd o <= z) /\
  Forall2 (fun o ab => (forall l t, fst o <= t -> t < snd o -> label_at xi xl t = Some l -> fst ab = l) /\
                       (forall l t, fst o <= t -> t < snd o -> label_at yi yl t = Some l -> snd ab = l))
          out (combine lx ly).
Proof.
  intros hox hoy hx hy hlx hly H. cbv zeta.
  assert (hal : aligned xi yi).
  { destruct (Qeq_bool (fst (hd d xi)) (fst (hd d yi))) eqn:E1; destruct (Qeq_bool (snd (last xi d)) (snd (last yi d))) eqn:E2.
    1: qb; split; assumption.
    all: rewrite (merge_unfold xi xl yi yl hx hy), E1, E2 in H; discriminate. }
  destruct (boundaries_facts xi yi hox hoy hx hy hal) as [hs [hiff _]].
  rewrite (merge_unfold xi xl yi yl hx hy) in H. destruct hal as [ha1 ha2].
  assert (e1 : Qeq_bool (fst (hd d xi)) (fst (hd d yi)) = true) by (apply qeqb_true; exact ha1).
  assert (e2 : Qeq_bool (snd (last xi d)) (snd (last yi d)) = true) by (apply qeqb_true; exact ha2).
  rewrite e1, e2 in H. cbn [negb orb] in H.
  destruct (mapM _ _) as [labs|e] eqn:E; cbn in H; [|discriminate]. injection H as <- <- <-.
  pose proof (mapM_ok _ _ _ E) as hf2.
  assert (hlen : length labs = length (adjacent_pairs (boundaries xi yi))) by (symmetry; eapply Forall2_len; exact hf2).
  assert (hbetween : forall o, In o (adjacent_pairs (boundaries xi yi)) ->
            fst o < snd o /\ forall z, InQ z (flat xi) \/ InQ z (flat yi) -> z <= fst o \/ snd o <= z).
  { intros [t0 t1] hin. destruct (adjacent_between _ _ _ hs hin) as [g1 [_ [_ g4]]]. split; [exact g1|].
    intros z hz. apply hiff in hz. destruct hz as [w [hw e]]. cbn [fst snd]. destruct (g4 _ hw); [left|right]; lra. }
  split; [reflexivity|]. split; [exact hs|]. split; [exact hiff|].
  split; [rewrite map_length; exact hlen|]. split; [rewrite map_length; exact hlen|]. split; [exact hbetween|].
  assert (ecomb : combine (map fst labs) (map snd labs) = labs).
  { clear. induction labs as [|[a b] r IH]; [reflexivity|]. cbn. rewrite IH. reflexivity. }
  rewrite ecomb.
  (* per row *)
  assert (hconst : forall (ivs : list iv) (labs0 : list L) o t, (forall z, InQ z (flat ivs) -> z <= fst o \/ snd o <= z) ->
             fst o <= t -> t < snd o -> label_at ivs labs0 t = label_at ivs labs0 (fst o)).
  { intros ivs labs0 o t hz h1 h2. unfold label_at.
    apply label_with_ext. apply Forall_forall. intros v hv. unfold in_ho.
    assert (hs1 : fst v <= fst o \/ snd o <= fst v) by (apply hz; exists (fst v); split; [apply in_flat; exists v; auto|reflexivity]).
    assert (hs2 : snd v <= fst o \/ snd o <= snd v) by (apply hz; exists (snd v); split; [apply in_flat; exists v; auto|reflexivity]).
    destruct (Qle_bool (fst v) (fst o)) eqn:E1, (qltb (fst o) (snd v)) eqn:E2; cbn [andb]; qb.
    - apply andb_true_iff. split; [apply qleb_true|apply qltb_true]; lra.
    - apply andb_false_iff. right. apply qltb_false. lra.
    - apply andb_false_iff. left. apply qleb_false. lra.
    - apply andb_false_iff. left. apply qleb_false. lra. }
  eapply Forall2_impl_In; [|exact hf2]. cbn beta. intros o ab hino hpick.
  destruct (hbetween o hino) as [_ hz].
  rewrite (merge_pick_label_with xi xl (fst o) hlx), (merge_pick_label_with yi yl (fst o) hly) in hpick.
  destruct (label_with c_start xi xl (fst o)) as [a|] eqn:Ea; cbn in hpick; [|discriminate].
  destruct (label_with c_start yi yl (fst o)) as [b|] eqn:Eb; cbn in hpick; [|discriminate].
  injection hpick as <-. cbn [fst snd]. split.
  - intros l t h1 h2 hlab. rewrite (hconst xi xl o t) in hlab by (try intros z hzz; auto).
    apply (label_at_c_start _ _ _ _ hox) in hlab. congruence.
  - intros l t h1 h2 hlab. rewrite (hconst yi yl o t) in hlab by (try intros z hzz; auto).
    apply (label_at_c_start _ _ _ _ hoy) in hlab. congruence.
Qed.

(* total duration is conserved: the rows sum to the common span *)
Theorem merge_total_duration (xi : list iv) (xl : list L) (yi : list iv) (yl : list L) out lx ly :
  ordered xi -> ordered yi -> xi <> [] -> yi <> [] ->
  merge_labeled_intervals xi xl yi yl = Ok (out, lx, ly) ->
  qsum (map (fun o => snd o - fst o) out) == snd (last xi d) - fst (hd d xi).
Proof.
  intros hox hoy hx hy H.
  assert (hal : aligned xi yi).
  { destruct (Qeq_bool (fst (hd d xi)) (fst (hd d yi))) eqn:E1; destruct (Qeq_bool (snd (last xi d)) (snd (last yi d))) eqn:E2.
    1: qb; split; assumption.
    all: rewrite (merge_unfold xi xl yi yl hx hy), E1, E2 in H; discriminate. }
  destruct (boundaries_facts xi yi hox hoy hx hy hal) as [hs [hiff [hb [hlo hhi]]]].
  rewrite (merge_unfold xi xl yi yl hx hy) in H. destruct hal as [ha1 ha2].
  assert (e1 : Qeq_bool (fst (hd d xi)) (fst (hd d yi)) = true) by (apply qeqb_true; exact ha1).
  assert (e2 : Qeq_bool (snd (last xi d)) (snd (last yi d)) = true) by (apply qeqb_true; exact ha2).
  rewrite e1, e2 in H. cbn [negb orb] in H.
  destruct (mapM _ _) as [labs|e] eqn:E; cbn in H; [|discriminate]. injection H as <- _ _.
  destruct (boundaries xi yi) as [|t0 tr] eqn:Etb.
  - exfalso. apply (InQ_nil _ hlo).
  - rewrite telescope.
    destruct hlo as [y1 [hy1 ey1]]. destruct hhi as [y2 [hy2 ey2]].
    pose proof (ssorted_hd_le _ _ _ hs hy1) as g1.
    pose proof (ssorted_le_last _ t0 _ hs hy2) as g2.
    assert (hin0 : In t0 (t0 :: tr)) by (left; reflexivity).
    assert (hinl : In (last (t0 :: tr) t0) (t0 :: tr)).
    { destruct (@exists_last _ (t0 :: tr)) as [l' [a ea]]; [discriminate|]. rewrite ea, last_last. apply in_or_app. right. left. reflexivity. }
    destruct (hb _ hin0). destruct (hb _ hinl). lra.
Qed.
End Merge.

(* ---------------------------------------------------------------------------------------- *)
(* examples and the refutation                                                               *)
(* ---------------------------------------------------------------------------------------- *)
Example merge_example :
  merge_labeled_intervals [(0, 1); (1, 3)] [1; 2]%nat [(0, 2); (2, 3)] [11; 12]%nat
  = Ok ([(0, 1); (1, 2); (2, 3)], [1; 2; 2]%nat, [11; 11; 12]%nat).
Proof. vm_compute. reflexivity. Qed.

(* An annotation with an internal gap: the output row lying in the gap is given the label of the PRECEDING interval
   although the annotation has no label there.
   util.merge_labeled_intervals(np.array([[0.,1.],[2.,3.]]), ['a','b'], np.array([[0.,3.]]), ['c'])
     -> [[0,1],[1,2],[2,3]], ['a','a','b'], ['c','c','c'] *)
Theorem merge_gap_label_refuted :
  exists (xi : list iv) (xl : list nat) (yi : list iv) (yl : list nat) out lx ly o l,
    valid_ivs xi /\ valid_ivs yi /\ length xl = length xi /\ length yl = length yi /\
    merge_labeled_intervals xi xl yi yl = Ok (out, lx, ly) /\
    In (o, l) (combine out lx) /\ (forall t, fst o <= t -> t < snd o -> label_at xi xl t = None).
Proof.
  exists [(0, 1); (2, 3)], [1; 2]%nat, [(0, 3)], [11]%nat, [(0, 1); (1, 2); (2, 3)], [1; 1; 2]%nat, [11; 11; 11]%nat, (1, 2), 1%nat.
  split; [unfold valid_ivs; cbn; repeat split; repeat constructor; cbn; lra|].
  split; [unfold valid_ivs; cbn; repeat split; repeat constructor; cbn; lra|].
  split; [reflexivity|]. split; [reflexivity|]. split; [vm_compute; reflexivity|]. split; [cbn; auto|].
  cbn [fst snd]. intros t h1 h2. unfold label_at. cbn [label_with]. unfold in_ho; cbn [fst snd].
  assert (e1 : Qle_bool 2 t = false) by (apply qleb_false; lra).
  assert (e2 : qltb t 1 = false) by (apply qltb_false; lra).
  rewrite e1, e2, andb_false_r. reflexivity.
Qed.

Print Assumptions merge_span_error.
Print Assumptions merge_ok.
Print Assumptions merge_is_common_refinement.
Print Assumptions merge_total_duration.
Print Assumptions merge_gap_label_refuted.
Print Assumptions merge_empty_error.
