(* Ties of the wrappers of mir_eval/io.py built on load_delimited (programs of Gen/IOGen.v, language Model/IoExp.v) to the
   hand-written models of Model/IO.v, for all file contents / delimiters / comment expressions: load_events,
   load_labeled_events, load_time_series, load_key, load_tempo. load_delimited is an opaque callee instantiated by the
   model's IO.load_delimited (itself tied in Proofs/IOTie.v), the validators by the model's validators; what is tied here:
   which converters / delimiter / comment are passed, the np.array conversions, try / except ValueError -> warnings.warn
   (content returned unchanged, the warning recorded), the one-line and weight checks and their exception classes. *)
From Coq Require Import String.
From Coq Require Import List Bool Arith ZArith QArith Lia.
From ME Require Import Model.Prelude Model.Regex Model.Key Model.IO Model.IoExp Gen.IOGen Model.IoExpInst Proofs.IOProps.
Import ListNotations.
Close Scope Q_scope.
Local Open Scope string_scope.
Local Open Scope list_scope.

Section Tie.
Variable num : Type.
Variable conv convv : str -> option num.
Variable val : num -> xval.
Notation pv := (pv num).
Notation run_block := (run_block num).
Notation exec := (exec num conv convv val (io_sigs num) (io_ext num conv val)).
Notation mk := (Build_st num).

(* ---- typed columns of load_delimited's result ---- *)
Definition col_ok (c : cv) (col : list (value num)) : Prop := Forall (has_type num c) col.
Lemma zipcons_typed : forall convs r T, Forall2 (has_type num) convs r -> Forall2 col_ok convs T ->
  Forall2 col_ok convs (zipcons r T).
Proof.
  intros convs r T H. revert T. induction H as [|c v convs r Hv H IH]; intros T HT; inversion HT; subst; cbn; constructor.
  - constructor; assumption.
  - apply IH. assumption.
Qed.
Lemma repeat_typed : forall convs, Forall2 col_ok convs (repeat [] (length convs)).
Proof. induction convs; cbn; constructor; [constructor|assumption]. Qed.
Lemma transpose_typed : forall convs rows, Forall (Forall2 (has_type num) convs) rows ->
  Forall2 col_ok convs (transpose (length convs) rows).
Proof.
  intros convs rows H. induction H as [|r rows Hr _ IH]; unfold transpose; cbn [fold_right].
  - apply repeat_typed.
  - apply zipcons_typed; assumption.
Qed.
Lemma load_rows_typed : forall convs d cm ls k rows,
  load_rows num conv convs d cm k ls = ROk rows -> Forall (Forall2 (has_type num) convs) rows.
Proof.
  intros convs d cm. induction ls as [|l ls IH]; intros k rows H; cbn [load_rows] in H.
  - injection H as <-. constructor.
  - destruct (is_comment cm l); [eapply IH; eassumption|].
    destruct (re_split d _ (pystrip l)) as [data|]; [|discriminate].
    destruct (Nat.eqb (length convs) (length data)) eqn:El; cbn [negb] in H; [|discriminate].
    destruct (convert_row num conv convs data) as [vs|] eqn:Ec; [|discriminate].
    destruct (load_rows num conv convs d cm (S k) ls) as [vss| |] eqn:E; try discriminate.
    injection H as <-. constructor; [|eapply IH; eassumption].
    apply Nat.eqb_eq in El. pose proof (convert_row_shape num conv convs data vs Ec) as S.
    rewrite (convert_row_length num conv convs data vs (eq_sym El) Ec) in S. rewrite firstn_all in S. exact S.
Qed.
Lemma zipcons_len : forall {A} (r : list A) T m, Forall (fun c => length c = m) T -> Forall (fun c => length c = S m) (zipcons r T).
Proof. intros A r T m H. revert r. induction H as [|c T Hc H IH]; intros [|y r]; cbn; constructor; [cbn; congruence|auto]. Qed.
Lemma transpose_col_len : forall {A} n (rows : list (list A)), Forall (fun c => length c = length rows) (transpose n rows).
Proof.
  intros A n rows. induction rows as [|r rows IH]; unfold transpose; cbn [fold_right length].
  - induction n; cbn; constructor; auto.
  - apply zipcons_len. exact IH.
Qed.
Theorem load_delimited_typed : forall convs d cm text r,
  load_delimited num conv convs d cm text = ROk r ->
  exists cols m, r = pack num (length convs) cols /\ Forall2 col_ok convs cols /\ Forall (fun c => length c = m) cols.
Proof.
  intros convs d cm text r H. unfold load_delimited in H.
  assert (H' : match load_rows num conv convs d cm 1 (lines text) with
               | ROk rows => ROk (pack num (length convs) (transpose (length convs) rows))
               | RaiseAt r e => RaiseAt r e | RaiseNoRow e => RaiseNoRow e end = ROk r) by (destruct d; [exact H|exact H|discriminate]).
  destruct (load_rows num conv convs d cm 1 (lines text)) as [rows| |] eqn:E; try discriminate.
  injection H' as <-. exists (transpose (length convs) rows), (length rows). split; [reflexivity|]. split.
  - apply transpose_typed. eapply load_rows_typed; eassumption.
  - apply transpose_col_len.
Qed.
Lemma float_col : forall col, col_ok CFloat col -> col = map VNum (nums num col).
Proof. intros col H. symmetry. apply nums_all. exact H. Qed.
Lemma str_col : forall col, col_ok CStr col -> col = map VStr (strs num col).
Proof. intros col H. symmetry. apply strs_all. exact H. Qed.
Lemma nums_VNum : forall xs, nums num (map VNum xs) = xs.
Proof. induction xs as [|x xs IH]; [reflexivity|]. cbn. f_equal. exact IH. Qed.
Lemma strs_VStr : forall xs, strs num (map (@VStr num) xs) = xs.
Proof. induction xs as [|x xs IH]; [reflexivity|]. cbn. f_equal. exact IH. Qed.
Lemma emb_nums : forall xs, map (emb_value num) (map VNum xs) = map (PNum num) xs.
Proof. intros. rewrite map_map. reflexivity. Qed.
Lemma emb_strs : forall xs, map (emb_value num) (map (@VStr num) xs) = map (PStr num) xs.
Proof. intros. rewrite map_map. reflexivity. Qed.
Lemma omap_get_num : forall xs, omap (get_num num) (map (PNum num) xs) = Some xs.
Proof. induction xs as [|x xs IH]; [reflexivity|]. cbn. rewrite IH. reflexivity. Qed.
Lemma np_array_vec : forall xs, np_array num (map (PNum num) xs) = OK (PArr num xs).
Proof. intros. unfold np_array. rewrite omap_get_num. reflexivity. Qed.
Lemma get_comment_emb : forall cm, get_comment num (emb_comment num cm) = Some cm.
Proof. destruct cm; reflexivity. Qed.

Lemma run_block_cons_eq : forall s r st res, exec s st = res ->
  run_block exec (s :: r) st = match res with SNorm _ s' => run_block exec r s' | o => o end.
Proof. intros; subst. unfold IoExp.run_block. destruct (exec s st); reflexivity. Qed.
Lemma norm0S : forall n, norm_idx 0 (S n) = Some 0%nat.
Proof. intros. unfold norm_idx. replace (0 <? Z.of_nat (S n))%Z with true by (symmetry; apply Z.ltb_lt; lia). reflexivity. Qed.
Ltac step tac := erewrite run_block_cons_eq by (cbn; tac; rewrite ?norm0S; cbn; reflexivity); cbv beta iota.

Lemma sig_ld : lookup_sig num (io_sigs num) "load_delimited" =
  Some [("filename", None); ("converters", None); ("delimiter", Some (PStr num [92;115;43])); ("comment", Some (PStr num [35]))].
Proof. vm_compute. reflexivity. Qed.
Lemma sig_ve : lookup_sig num (io_sigs num) "util.validate_events" = Some [("events", None); ("max_time", Some (PQ num 30000%Q))].
Proof. vm_compute. reflexivity. Qed.
Lemma sig_vi : lookup_sig num (io_sigs num) "util.validate_intervals" = Some [("intervals", None)].
Proof. vm_compute. reflexivity. Qed.
Lemma sig_vk : lookup_sig num (io_sigs num) "key.validate_key" = Some [("key", None)].
Proof. vm_compute. reflexivity. Qed.
Lemma sig_vt : lookup_sig num (io_sigs num) "tempo.validate_tempi" = Some [("tempi", None); ("reference", Some (PBool num true))].
Proof. vm_compute. reflexivity. Qed.

Local Arguments load_delimited : simpl never.
Local Arguments Z.of_nat : simpl never.
Local Arguments Z.eqb : simpl never.
Local Arguments xle : simpl never.
Local Arguments IO.validate_events : simpl never.
Local Arguments IO.validate_intervals : simpl never.
Local Arguments IO.validate_tempi : simpl never.
Local Arguments Key.validate_key : simpl never.
Local Arguments io_sigs : simpl never.
Local Arguments emb_comment : simpl never.
Local Arguments get_comment : simpl never.
Local Arguments transpose : simpl never.
Local Arguments nums : simpl never.
Local Arguments strs : simpl never.

Lemma comment_bound : forall cm, match emb_comment num cm with PUnbound _ => @EXN pv OtherExn (XRows []) | _ => OK (emb_comment num cm) end
  = OK (emb_comment num cm).
Proof. destruct cm; reflexivity. Qed.
Ltac calld := rewrite sig_ld; cbn; rewrite comment_bound; cbn; rewrite get_comment_emb.
Ltac start f args :=
  unfold io_run, run_fun; change (Nat.eqb (length args) (length (f_params f))) with true; cbv iota; unfold exec_block;
  let b := eval vm_compute in (f_body f) in change (f_body f) with b;
  let e := eval cbv in (map fst (f_params f)) in change (init_env num f args) with (combine e args ++ map (fun x => (x, PUnbound num)) (f_locals f));
  let l := eval cbv in (f_locals f) in change (f_locals f) with l;
  cbn [combine map app].

Definition args3 text d cm : list pv := [PPath num text; PSrc num (PDelim d); emb_comment num cm].

Theorem load_events_tie : forall text d cm,
  io_run num conv convv val gen_load_events (args3 text d cm)
  = emb_wres num (PArr num) (load_events num conv val d cm text).
Proof.
  intros text d cm. unfold args3, load_events, with_cols. start gen_load_events [PPath num text; PSrc num (PDelim d); emb_comment num cm].
  destruct (load_delimited num conv [CFloat] d cm text) as [r|row e|e] eqn:E.
  2:{ step ltac:(calld; rewrite E; cbn). reflexivity. }
  2:{ step ltac:(calld; rewrite E; cbn). reflexivity. }
  destruct (load_delimited_typed _ _ _ _ _ E) as (cols & m & -> & HT & HM).
  inversion HT as [|? c ? ? Hc HT']; subst. inversion HT'; subst. cbn [pack length Nat.eqb].
  pose proof (float_col c Hc) as Hx. set (xs := nums num c) in *. clearbody xs. subst c. cbn [pack length Nat.eqb] in E.
  step ltac:(calld; rewrite E; cbn; unfold emb_col; rewrite ?emb_nums, ?emb_strs).
  step ltac:(rewrite np_array_vec; cbn).
  destruct (validate_events (map val xs)) as [w|] eqn:EV.
  - step ltac:(rewrite sig_ve; cbn; rewrite EV; cbn). step idtac. reflexivity.
  - step ltac:(rewrite sig_ve; cbn; rewrite EV; cbn). step idtac. reflexivity.
Qed.

Lemma omap_deep_strs : forall f h ls, omap (deep num (S f) h) (map (PStr num) ls) = Some (map (PStr num) ls).
Proof. induction ls as [|l ls IH]; [reflexivity|]. cbn [map omap]. rewrite IH. reflexivity. Qed.
Lemma deep_strs : forall f h ls, deep num (S (S f)) h (PList num (map (PStr num) ls)) = Some (PList num (map (PStr num) ls)).
Proof. intros. change (deep num (S (S f)) h (PList num (map (PStr num) ls))) with (option_map (PList num) (omap (deep num (S f) h) (map (PStr num) ls))).
  rewrite omap_deep_strs. reflexivity. Qed.

Lemma deep_tup_eq : forall f h l, deep num (S f) h (PTup num l) = option_map (PTup num) (omap (deep num f h) l).
Proof. reflexivity. Qed.
Ltac cols2 HT a b Ha Hb :=
  inversion HT as [|? a ? ? Ha HT1]; subst; inversion HT1 as [|? b ? ? Hb HT2]; subst; inversion HT2; subst.
Ltac cols3 HT a b c Ha Hb Hc :=
  inversion HT as [|? a ? ? Ha HT1]; subst; inversion HT1 as [|? b ? ? Hb HT2]; subst;
  inversion HT2 as [|? c ? ? Hc HT3]; subst; inversion HT3; subst.
Ltac as_nums c Hc xs := let Hx := fresh in pose proof (float_col c Hc) as Hx; set (xs := nums num c) in *; clearbody xs; subst c.
Ltac as_strs c Hc xs := let Hx := fresh in pose proof (str_col c Hc) as Hx; set (xs := strs num c) in *; clearbody xs; subst c.
Ltac errs E := step ltac:(calld; rewrite E; cbn); reflexivity.
Ltac ldstep E := step ltac:(calld; rewrite E; cbn; unfold emb_col; rewrite ?emb_nums, ?emb_strs; cbn).

Theorem load_labeled_events_tie : forall text d cm,
  io_run num conv convv val gen_load_labeled_events (args3 text d cm)
  = emb_wres num (fun r => PTup num [PArr num (fst r); PList num (map (PStr num) (snd r))]) (load_labeled_events num conv val d cm text).
Proof.
  intros text d cm. unfold args3, load_labeled_events, with_cols. start gen_load_labeled_events [PPath num text; PSrc num (PDelim d); emb_comment num cm].
  destruct (load_delimited num conv [CFloat; CStr] d cm text) as [r|row e|e] eqn:E; [|errs E|errs E].
  destruct (load_delimited_typed _ _ _ _ _ E) as (cols & m & -> & HT & HM).
  cols2 HT a b Ha Hb. cbn [pack length Nat.eqb] in *. as_nums a Ha xs. as_strs b Hb ls. rewrite ?nums_VNum, ?strs_VStr.
  ldstep E.
  step ltac:(rewrite np_array_vec; cbn).
  destruct (validate_events (map val xs)) as [w|] eqn:EV.
  - step ltac:(rewrite sig_ve; cbn; rewrite EV; cbn). step idtac. unfold deep_fuel. cbn [s_heap s_warn]. 
    rewrite deep_tup_eq. cbn [omap]. change (deep num 7 [] (PArr num xs)) with (Some (PArr num xs)). rewrite deep_strs. reflexivity.
  - step ltac:(rewrite sig_ve; cbn; rewrite EV; cbn). step idtac. unfold deep_fuel. cbn [s_heap s_warn]. 
    rewrite deep_tup_eq. cbn [omap]. change (deep num 7 [] (PArr num xs)) with (Some (PArr num xs)). rewrite deep_strs. reflexivity.
Qed.

Theorem load_time_series_tie : forall text d cm,
  io_run num conv convv val gen_load_time_series (args3 text d cm)
  = emb_wres num (fun r => PTup num [PArr num (fst r); PArr num (snd r)]) (load_time_series num conv d cm text).
Proof.
  intros text d cm. unfold args3, load_time_series, with_cols. start gen_load_time_series [PPath num text; PSrc num (PDelim d); emb_comment num cm].
  destruct (load_delimited num conv [CFloat; CFloat] d cm text) as [r|row e|e] eqn:E; [|errs E|errs E].
  destruct (load_delimited_typed _ _ _ _ _ E) as (cols & m & -> & HT & HM).
  cols2 HT a b Ha Hb. cbn [pack length Nat.eqb] in *. as_nums a Ha xs. as_nums b Hb ys. 
  ldstep E.
  step ltac:(rewrite np_array_vec; cbn).
  step ltac:(rewrite np_array_vec; cbn).
  step idtac. reflexivity.
Qed.

Lemma zeqb_nat1 : forall a, Z.eqb (Z.of_nat a) 1 = Nat.eqb a 1.
Proof. intros. destruct (Nat.eqb_spec a 1); [subst; reflexivity|]. apply Z.eqb_neq. lia. Qed.

Theorem load_key_tie : forall text d cm,
  io_run num conv convv val gen_load_key (args3 text d cm)
  = emb_wres num (PStr num) (load_key num conv d cm text).
Proof.
  intros text d cm. unfold args3, load_key, with_cols. start gen_load_key [PPath num text; PSrc num (PDelim d); emb_comment num cm].
  destruct (load_delimited num conv [CStr; CStr] d cm text) as [r|row e|e] eqn:E; [|errs E|errs E].
  destruct (load_delimited_typed _ _ _ _ _ E) as (cols & m & -> & HT & HM).
  cols2 HT a b Ha Hb. cbn [pack length Nat.eqb] in *. as_strs a Ha ss. as_strs b Hb ms. rewrite ?strs_VStr.
  ldstep E.
  destruct ss as [|s [|s2 ss]].
  - step ltac:(rewrite zeqb_nat1; cbn). reflexivity.
  - step ltac:(rewrite zeqb_nat1; cbn).
    destruct ms as [|mo ms].
    + step idtac. reflexivity.
    + step idtac. step ltac:(rewrite app_nil_r).
      destruct (validate_key (s ++ 32 :: mo)) as [u|ex] eqn:EK.
      * step ltac:(rewrite sig_vk; cbn; rewrite EK; cbn). step idtac. reflexivity.
      * destruct ex; (step ltac:(rewrite sig_vk; cbn; rewrite EK; cbn)); try reflexivity; step idtac; reflexivity.
  - step ltac:(rewrite zeqb_nat1; cbn). reflexivity.
Qed.

Lemma as_vec_nums : forall xs, as_vec num (PList num (map (PNum num) xs)) = Some xs.
Proof. intros. cbn. apply omap_get_num. Qed.

Theorem load_tempo_tie : forall text d cm,
  io_run num conv convv val gen_load_tempo (args3 text d cm)
  = emb_wres num (fun r => PTup num [PArr num (fst r); PNum num (snd r)]) (load_tempo num conv val d cm text).
Proof.
  intros text d cm. unfold args3, load_tempo, with_cols. start gen_load_tempo [PPath num text; PSrc num (PDelim d); emb_comment num cm].
  destruct (load_delimited num conv [CFloat; CFloat; CFloat] d cm text) as [r|row e|e] eqn:E; [|errs E|errs E].
  destruct (load_delimited_typed _ _ _ _ _ E) as (cols & m & -> & HT & HM).
  cols3 HT a b c Ha Hb Hc. cbn [pack length Nat.eqb] in *. as_nums a Ha xs. as_nums b Hb ys. as_nums c Hc wts.
  ldstep E.
  destruct xs as [|x [|x2 xs]].
  - step ltac:(rewrite zeqb_nat1; cbn). reflexivity.
  - step ltac:(rewrite zeqb_nat1; cbn). cbn [length Nat.eqb negb].
    destruct wts as [|w wts].
    + step idtac. reflexivity.
    + step idtac.
      step ltac:(rewrite (omap_get_num ys); cbn).
      change xzero with (Fin (inject_Z 0)). change (Fin 1%Q) with (Fin (inject_Z 1)).
      destruct (xle (Fin (inject_Z 0)) (val w)) eqn:E0; destruct (xle (val w) (Fin (inject_Z 1))) eqn:E1;
        cbn [app map]; destruct (validate_tempi (val x :: map val ys)) as [wn|] eqn:EV; cbn [andb];
        step ltac:(rewrite sig_vt; cbn; rewrite EV; cbn);
        step ltac:(rewrite ?E0, ?E1; cbn; rewrite ?E0, ?E1; cbn); try reflexivity;
        step idtac; reflexivity.
  - step ltac:(rewrite zeqb_nat1; cbn). reflexivity.
Qed.
End Tie.

Check load_events_tie. Check load_labeled_events_tie. Check load_time_series_tie. Check load_key_tie. Check load_tempo_tie.
Print Assumptions load_events_tie. Print Assumptions load_labeled_events_tie. Print Assumptions load_time_series_tie.
Print Assumptions load_key_tie. Print Assumptions load_tempo_tie.
