(* Numeric tie between the R-valued formulas of Proofs/SegmentEntropy.v (mi, nmi, nce, vmeasure) and the floating-point
   outputs of mir_eval.segment.mutual_information / nce / vmeasure, certified INSIDE Coq case by case.

   Reflection: on a concrete table every formula is an integer combination of logarithms of integers.  The builders below
   compute, from the table of nat counts, that combination in the normal form  sum_p z_p * ln p  over PRIMES p (the integers
   are factored by a self-checking trial division), so that
     * a quantity that is mathematically 0 (independent labellings, a single class, identical annotations ...) is detected
       exactly (empty normal form) -- needed because the code's guards `z > 0`, `max(sqrt(..), 1e-10)` and the 0/0 of the
       F-measure are decided by exact zeros, which interval arithmetic cannot see;
     * every other quantity is a tiny closed expression (at most one ln per prime below the number of frames) on which the
       `interval` tactic closes  Rabs (formula - float) <= 1/10^9  in milliseconds.
   The general lemmas  mi_e_ok, nmi_e_ok, su_e_ok, so_e_ok, f_e_ok  say  <formula of SegmentEntropy> = ev <built expression>
   for every table; the strict positivity of a normaliser that is not exactly 0 is a side condition (`sides`) which the case
   tactic also discharges by `interval`.
   Uses Reals + Interval: the standard axioms of the real numbers and of the primitive machine numbers. *)
From Coq Require Import List Arith Lia Reals Lra Bool ZArith PArith.
From ME Require Import Model.Prelude Model.SegmentCluster Proofs.SegmentClusterProps Proofs.SegmentEntropy Proofs.SegmentEntropyBounds.
From Interval Require Import Tactic.
Import ListNotations.
Local Open Scope R_scope.

(* ================================================================================================== *)
(* 1. integer combinations of logarithms                                                                *)
(* ================================================================================================== *)
Definition lnf := list (Z * positive).
Fixpoint evl (l : lnf) : R := match l with [] => 0 | zp :: l' => IZR (fst zp) * ln (IZR (Zpos (snd zp))) + evl l' end.

Lemma evl_app l1 l2 : evl (l1 ++ l2) = evl l1 + evl l2.
Proof. induction l1 as [|zp l1 IH]; cbn [evl app]; [lra|]. rewrite IH. lra. Qed.

Definition scale (k : Z) (l : lnf) : lnf := map (fun zp => ((k * fst zp)%Z, snd zp)) l.
Lemma evl_scale k l : evl (scale k l) = IZR k * evl l.
Proof. unfold scale. induction l as [|zp l IH]; cbn [evl map fst snd]; [lra|]. rewrite IH, mult_IZR. lra. Qed.

Lemma IZR_pos_lt p : 0 < IZR (Zpos p).
Proof. apply (IZR_lt 0). lia. Qed.
Lemma ln_0 : ln 0 = 0.
Proof. unfold ln. destruct (Rlt_dec 0 0) as [H|_]; [destruct (Rlt_irrefl 0 H)|reflexivity]. Qed.

(* trial division; its result is only used when the product of the factors is the number (checked, not proved) *)
Fixpoint factor_aux (fuel : nat) (n d : positive) : list positive :=
  match fuel with
  | O => [n]
  | S f => if (n =? 1)%positive then []
           else if (n <? d * d)%positive then [n]
           else if (Z.pos n mod Z.pos d =? 0)%Z then d :: factor_aux f (Z.to_pos (Z.pos n / Z.pos d)) d
           else factor_aux f n (Pos.succ d)
  end.
Definition factor (n : positive) : list positive := factor_aux (Pos.to_nat n + 2) n 2.
Definition prodp (l : list positive) : positive := fold_right Pos.mul 1%positive l.
Lemma evl_factors z fs : evl (map (fun q => (z, q)) fs) = IZR z * ln (IZR (Zpos (prodp fs))).
Proof. induction fs as [|q fs IH]; cbn [map evl prodp fold_right fst snd].
  - rewrite ln_1. lra.
  - fold (prodp fs). rewrite IH, Pos2Z.inj_mul, mult_IZR, ln_mult by apply IZR_pos_lt. lra. Qed.
Definition expand1 (z : Z) (p : positive) : lnf :=
  let fs := factor p in if (prodp fs =? p)%positive then map (fun q => (z, q)) fs else [(z, p)].
Lemma evl_expand1 z p : evl (expand1 z p) = IZR z * ln (IZR (Zpos p)).
Proof. unfold expand1. destruct (Pos.eqb_spec (prodp (factor p)) p) as [E|_].
  - rewrite evl_factors, E. reflexivity.
  - cbn [evl fst snd]. lra. Qed.

(* collecting equal bases *)
Fixpoint ins (z : Z) (p : positive) (l : lnf) : lnf :=
  match l with
  | [] => [(z, p)]
  | zp :: l' => if (p =? snd zp)%positive then ((z + fst zp)%Z, snd zp) :: l' else zp :: ins z p l'
  end.
Lemma evl_ins z p l : evl (ins z p l) = IZR z * ln (IZR (Zpos p)) + evl l.
Proof. induction l as [|zp l IH]; cbn [ins evl fst snd]; [lra|].
  destruct (Pos.eqb_spec p (snd zp)) as [E|_]; cbn [evl fst snd].
  - rewrite plus_IZR, E. lra.
  - rewrite IH. lra. Qed.
Definition ins_all (a acc : lnf) : lnf := fold_right (fun zp acc => ins (fst zp) (snd zp) acc) acc a.
Lemma evl_ins_all a acc : evl (ins_all a acc) = evl a + evl acc.
Proof. induction a as [|zp a IH]; cbn [ins_all fold_right evl]; [lra|]. fold (ins_all a acc). rewrite evl_ins, IH. lra. Qed.
Definition collect (l : lnf) : lnf := fold_right (fun zp acc => ins_all (expand1 (fst zp) (snd zp)) acc) [] l.
Lemma evl_collect l : evl (collect l) = evl l.
Proof. induction l as [|zp l IH]; cbn [collect fold_right evl]; [reflexivity|]. fold (collect l). rewrite evl_ins_all, evl_expand1, IH. reflexivity. Qed.
Definition nz (l : lnf) : lnf := filter (fun zp => negb (fst zp =? 0)%Z) l.
Lemma evl_nz l : evl (nz l) = evl l.
Proof. induction l as [|zp l IH]; cbn [nz filter evl]; [reflexivity|]. fold (nz l).
  destruct (Z.eqb_spec (fst zp) 0) as [E|_]; cbn [negb evl]; rewrite IH; [rewrite E; lra|reflexivity]. Qed.
(* normal form: primes only, each once, no zero coefficient; [] iff the value is 0 *)
Definition nf (l : lnf) : lnf := nz (collect l).
Lemma evl_nf l : evl (nf l) = evl l.
Proof. unfold nf. rewrite evl_nz. apply evl_collect. Qed.

(* z * ln k for a count k (nothing for k = 0: the code never takes the logarithm of an empty cell) *)
Definition tm (z : Z) (k : nat) : lnf := match k with O => [] | S _ => [(z, Pos.of_nat k)] end.
Lemma evl_tm z k : evl (tm z k) = IZR z * ln (INR k).
Proof. destruct k as [|k]; cbn [tm evl fst snd].
  - cbn [INR]. rewrite ln_0. lra.
  - rewrite (INR_IZR_INZ (S k)). cbn [Z.of_nat]. rewrite Pos.of_nat_succ. lra. Qed.

Fixpoint lsum (f : nat -> lnf) (n : nat) : lnf := match n with O => [] | S k => lsum f k ++ f k end.
Lemma evl_lsum f n : evl (lsum f n) = rsum (fun i => evl (f i)) n.
Proof. induction n as [|n IH]; cbn [lsum rsum evl]; [reflexivity|]. rewrite evl_app, IH. reflexivity. Qed.

(* ================================================================================================== *)
(* 2. the quantities of a table                                                                          *)
(* ================================================================================================== *)
Definition ra (T : tabfn) (nc i : nat) : nat := nsumf (fun j => T i j) nc.
Definition cb (T : tabfn) (nr j : nat) : nat := nsumf (fun i => T i j) nr.
Definition tot (T : tabfn) (nr nc : nat) : nat := nsumf (fun i => ra T nc i) nr.
Lemma INR_ra T nc i : INR (ra T nc i) = rowsum T nc i.
Proof. apply INR_nsumf. Qed.
Lemma INR_cb T nr j : INR (cb T nr j) = colsum T nr j.
Proof. apply INR_nsumf. Qed.
Lemma INR_tot T nr nc : INR (tot T nr nc) = total T nr nc.
Proof. unfold tot, total. rewrite INR_nsumf. apply rsum_ext. intros i _. apply INR_ra. Qed.
Lemma tot_swap T nr nc : tot (swap T) nc nr = tot T nr nc.
Proof. apply INR_eq. rewrite !INR_tot. apply total_swap. Qed.
Lemma tot_pos T nr nc : (0 < tot T nr nc)%nat -> 0 < total T nr nc.
Proof. intros H. rewrite <- INR_tot. apply lt_0_INR. exact H. Qed.

(* N * MI *)
Definition q_mi (T : tabfn) (nr nc : nat) : lnf :=
  let N := tot T nr nc in
  lsum (fun i => lsum (fun j => let c := Z.of_nat (T i j) in
    tm c (T i j) ++ tm c N ++ tm (- c) (ra T nc i) ++ tm (- c) (cb T nr j)) nc) nr.
Lemma mi_q T nr nc : (0 < tot T nr nc)%nat -> mi T nr nc = evl (q_mi T nr nc) / INR (tot T nr nc).
Proof. intros HN. assert (HT := tot_pos T nr nc HN). rewrite mi_unfold. unfold q_mi. cbv zeta. rewrite evl_lsum, <- rsum_div.
  apply rsum_ext. intros i Hi. rewrite evl_lsum, <- rsum_div. apply rsum_ext. intros j Hj.
  rewrite mi_cell_form by first [exact HT|apply cell_le_rowsum; exact Hj|apply cell_le_colsum; exact Hi].
  rewrite !evl_app, !evl_tm, opp_IZR, <- INR_IZR_INZ, INR_ra, INR_cb, INR_tot. field. lra. Qed.

(* N * H(rows), the entropy of the reference labelling in nats *)
Definition q_h (T : tabfn) (nr nc : nat) : lnf :=
  let N := tot T nr nc in lsum (fun i => let a := ra T nc i in tm (- Z.of_nat a) a ++ tm (Z.of_nat a) N) nr.
Lemma hrow_q T nr nc : (0 < tot T nr nc)%nat -> hrow T nr nc = evl (q_h T nr nc) / INR (tot T nr nc).
Proof. intros HN. assert (HT := tot_pos T nr nc HN). unfold hrow, q_h. cbv zeta. rewrite evl_lsum, <- rsum_opp, <- rsum_div.
  apply rsum_ext. intros i _. rewrite !evl_app, !evl_tm, opp_IZR, <- INR_IZR_INZ, INR_ra, INR_tot. field. lra. Qed.

(* N * H(rows | columns) *)
Definition q_c (T : tabfn) (nr nc : nat) : lnf :=
  lsum (fun i => lsum (fun j => let c := Z.of_nat (T i j) in tm c (cb T nr j) ++ tm (- c) (T i j)) nc) nr.
Lemma condent_q T nr nc : condent T nr nc = evl (q_c T nr nc) / INR (tot T nr nc).
Proof. unfold condent, q_c. rewrite INR_tot. f_equal. rewrite evl_lsum. apply rsum_ext. intros i _. rewrite evl_lsum. apply rsum_ext. intros j _.
  cbv zeta. rewrite !evl_app, !evl_tm, opp_IZR, <- INR_IZR_INZ, INR_cb. unfold cellH. cbn [evl]. ring. Qed.

(* ================================================================================================== *)
(* 3. closed expressions                                                                                 *)
(* ================================================================================================== *)
Inductive rexp := EZ (z : Z) | EL (l : lnf) | EAdd (a b : rexp) | EMul (a b : rexp) | EDiv (a b : rexp) | ESqrt (a : rexp).
Fixpoint ev (e : rexp) : R :=
  match e with
  | EZ z => IZR z | EL l => evl l | EAdd a b => ev a + ev b | EMul a b => ev a * ev b | EDiv a b => ev a / ev b | ESqrt a => sqrt (ev a)
  end.
Definition is0 (e : rexp) : bool := match e with EZ 0 => true | _ => false end.
Lemma is0_ev e : is0 e = true -> ev e = 0.
Proof. destruct e as [[| |]| | | | |]; try discriminate. reflexivity. Qed.
Definition lexp (l : lnf) : rexp := match nf l with [] => EZ 0 | l' => EL l' end.
Lemma ev_lexp l : ev (lexp l) = evl l.
Proof. unfold lexp. rewrite <- (evl_nf l). destruct (nf l); reflexivity. Qed.
(* x / N, exact 0 kept exact *)
Definition over_n (e : rexp) (N : nat) : rexp := if is0 e then EZ 0 else EDiv e (EZ (Z.of_nat N)).
Lemma ev_over_n e N : ev (over_n e N) = ev e / INR N.
Proof. unfold over_n. destruct (is0 e) eqn:E; cbn [ev]; [rewrite (is0_ev e E); unfold Rdiv; ring|rewrite <- INR_IZR_INZ; reflexivity]. Qed.

Fixpoint sides (l : list (rexp * rexp)) : Prop := match l with [] => True | ab :: l' => ev (fst ab) < ev (snd ab) /\ sides l' end.
Lemma sides_app l1 l2 : sides (l1 ++ l2) <-> sides l1 /\ sides l2.
Proof. induction l1 as [|ab l1 IH]; cbn [sides app]; tauto. Qed.

(* ---- MI ---- *)
Definition mi_e (T : tabfn) (nr nc : nat) : rexp := over_n (lexp (q_mi T nr nc)) (tot T nr nc).
Theorem mi_e_ok T nr nc : (0 < tot T nr nc)%nat -> mi T nr nc = ev (mi_e T nr nc).
Proof. intros HN. unfold mi_e. rewrite ev_over_n, ev_lexp. apply mi_q. exact HN. Qed.

(* ---- entropies and NMI ---- *)
Definition h_e (T : tabfn) (nr nc : nat) : rexp := over_n (lexp (q_h T nr nc)) (tot T nr nc).
Lemma h_e_ok T nr nc : (0 < tot T nr nc)%nat -> hrow T nr nc = ev (h_e T nr nc).
Proof. intros HN. unfold h_e. rewrite ev_over_n, ev_lexp. apply hrow_q. exact HN. Qed.
Definition tenth10 : rexp := EDiv (EZ 1) (EZ 10000000000).
Definition nmi_special (nr nc : nat) : bool := ((nr =? nc)%nat && (nc =? 1)%nat || (nr =? nc)%nat && (nc =? 0)%nat)%bool.
Definition nmi_degenerate (T : tabfn) (nr nc : nat) : bool := is0 (h_e T nr nc) || is0 (h_e (swap T) nc nr).
Definition nmi_e (T : tabfn) (nr nc : nat) : rexp :=
  if nmi_special nr nc then EZ 1
  else if nmi_degenerate T nr nc then EDiv (mi_e T nr nc) tenth10
  else EDiv (mi_e T nr nc) (ESqrt (EMul (h_e T nr nc) (h_e (swap T) nc nr))).
Definition nmi_side (T : tabfn) (nr nc : nat) : list (rexp * rexp) :=
  if nmi_special nr nc then [] else if nmi_degenerate T nr nc then [] else [(tenth10, ESqrt (EMul (h_e T nr nc) (h_e (swap T) nc nr)))].
Theorem nmi_e_ok T nr nc : (0 < tot T nr nc)%nat -> sides (nmi_side T nr nc) -> nmi T nr nc (tot T nr nc) = ev (nmi_e T nr nc).
Proof. intros HN HS. unfold nmi, nmi_e, nmi_side, nmi_special in *. destruct (_ || _)%bool; [reflexivity|]. cbv zeta.
  assert (HN' : (0 < tot (swap T) nc nr)%nat) by (rewrite tot_swap; exact HN).
  rewrite entropy_rows, entropy_cols by lia. rewrite (h_e_ok T nr nc HN), (h_e_ok (swap T) nc nr HN'), (mi_e_ok T nr nc HN).
  unfold nmi_degenerate in *. destruct (is0 (h_e T nr nc) || is0 (h_e (swap T) nc nr))%bool eqn:D.
  - cbn [ev tenth10]. f_equal.
    assert (E : ev (h_e T nr nc) * ev (h_e (swap T) nc nr) = 0).
    { apply orb_true_iff in D. destruct D as [D|D]; rewrite (is0_ev _ D); ring. }
    rewrite E, sqrt_0. apply Rmax_right. lra.
  - cbn [sides fst snd] in HS. destruct HS as [HS _]. cbn [ev]. f_equal. apply Rmax_left. cbn [ev tenth10] in HS. lra. Qed.

(* ---- the NCE / V-measure scores ---- *)
(* N * normaliser in nats:  N H(ref)  or  N ln #ref *)
Definition z_l (T : tabfn) (nr nc : nat) (marginal : bool) : lnf :=
  if marginal then q_h T nr nc else tm (Z.of_nat (tot T nr nc)) nr.
Definition su_e (T : tabfn) (nr nc : nat) (marginal : bool) : rexp :=
  let z := lexp (z_l T nr nc marginal) in
  if is0 z then EZ 0
  else let d := lexp (z_l T nr nc marginal ++ scale (-1) (q_c T nr nc)) in
       if is0 d then EZ 0 else EDiv d z.
Definition su_side (T : tabfn) (nr nc : nat) (marginal : bool) : list (rexp * rexp) :=
  let z := lexp (z_l T nr nc marginal) in if is0 z then [] else [(EZ 0, z)].
Lemma z_ref_q T nr nc marginal : (0 < tot T nr nc)%nat ->
  z_ref T nr nc (INR (tot T nr nc)) marginal = evl (z_l T nr nc marginal) / INR (tot T nr nc) / ln 2.
Proof. intros HN. assert (HT := tot_pos T nr nc HN). assert (L2 := ln2_pos). destruct marginal.
  - rewrite INR_tot at 1. rewrite z_ref_marginal_eq by exact HT. rewrite (hrow_q T nr nc HN). reflexivity.
  - unfold z_ref, z_l. rewrite evl_tm, <- INR_IZR_INZ, INR_tot. field. lra. Qed.
Theorem su_e_ok T nr nc marginal : (0 < tot T nr nc)%nat -> sides (su_side T nr nc marginal) ->
  score_under T nr nc (INR (tot T nr nc)) marginal = ev (su_e T nr nc marginal).
Proof. intros HN HS. assert (HT := tot_pos T nr nc HN). assert (L2 := ln2_pos).
  unfold score_under. rewrite (z_ref_q T nr nc marginal HN).
  assert (Etge : true_given_est T nr nc (INR (tot T nr nc)) = condent T nr nc / ln 2) by (rewrite INR_tot; apply true_given_est_eq; exact HT).
  rewrite Etge, condent_q. clear Etge.
  unfold su_e, su_side in *. cbv zeta in *. set (Z := evl (z_l T nr nc marginal)). set (N := INR (tot T nr nc)).
  assert (HNp : 0 < N) by (unfold N; rewrite INR_tot; exact HT).
  destruct (is0 (lexp (z_l T nr nc marginal))) eqn:Ez.
  - apply is0_ev in Ez. rewrite ev_lexp in Ez. fold Z in Ez. rewrite Ez.
    destruct (Rlt_dec 0 (0 / N / ln 2)) as [H|_]; [|reflexivity]. unfold Rdiv in H. rewrite !Rmult_0_l in H. lra.
  - cbn [sides fst snd ev] in HS. destruct HS as [HZ _]. rewrite ev_lexp in HZ. fold Z in HZ.
    assert (Hz : 0 < Z / N / ln 2) by (apply Rdiv_lt_0_compat; [apply Rdiv_lt_0_compat|]; assumption).
    destruct (Rlt_dec 0 (Z / N / ln 2)) as [_|H]; [|contradiction].
    assert (E : 1 - evl (q_c T nr nc) / N / ln 2 / (Z / N / ln 2) = (Z - evl (q_c T nr nc)) / Z) by (field; lra).
    rewrite E. clear E.
    assert (Ed : ev (lexp (z_l T nr nc marginal ++ scale (-1) (q_c T nr nc))) = Z - evl (q_c T nr nc)).
    { rewrite ev_lexp, evl_app, evl_scale. fold Z. lra. }
    destruct (is0 (lexp (z_l T nr nc marginal ++ scale (-1) (q_c T nr nc)))) eqn:Edz.
    + apply is0_ev in Edz. rewrite Ed in Edz. rewrite Edz. cbn [ev]. unfold Rdiv. ring.
    + cbn [ev]. rewrite Ed, ev_lexp. reflexivity. Qed.

Definition so_e (T : tabfn) (nr nc : nat) (marginal : bool) : rexp := su_e (swap T) nc nr marginal.
Definition so_side (T : tabfn) (nr nc : nat) (marginal : bool) : list (rexp * rexp) := su_side (swap T) nc nr marginal.
Theorem so_e_ok T nr nc marginal : (0 < tot T nr nc)%nat -> sides (so_side T nr nc marginal) ->
  score_over T nr nc (INR (tot T nr nc)) marginal = ev (so_e T nr nc marginal).
Proof. intros HN HS. unfold so_e, so_side in *. rewrite <- (tot_swap T nr nc) in HN. rewrite <- su_e_ok by assumption.
  rewrite tot_swap. reflexivity. Qed.

(* ---- util.f_measure ---- *)
Lemma f_measure_R_eq p r beta : f_measure_R p r beta = (1 + beta ^ 2) * p * r / (beta ^ 2 * p + r).
Proof. unfold f_measure_R. destruct (Req_EM_T p 0) as [Ep|_]; [|reflexivity]. destruct (Req_EM_T r 0) as [Er|_]; [|reflexivity].
  rewrite Ep, Er. unfold Rdiv. ring. Qed.
Definition f_e (o u : rexp) (bn bd : Z) : rexp :=
  if (is0 o || is0 u)%bool then EZ 0
  else let b2 := EMul (EDiv (EZ bn) (EZ bd)) (EDiv (EZ bn) (EZ bd)) in
       EDiv (EMul (EMul (EAdd (EZ 1) b2) o) u) (EAdd (EMul b2 o) u).
Theorem f_e_ok o u bn bd : f_measure_R (ev o) (ev u) (IZR bn / IZR bd) = ev (f_e o u bn bd).
Proof. rewrite f_measure_R_eq. unfold f_e. destruct (is0 o || is0 u)%bool eqn:D.
  - apply orb_true_iff in D. destruct D as [D|D]; rewrite (is0_ev _ D); cbn [ev]; unfold Rdiv; ring.
  - cbn [ev]. cbn [pow]. rewrite Rmult_1_r. reflexivity. Qed.

(* ================================================================================================== *)
(* 4. closeness statements as used by the generated case files                                           *)
(* ================================================================================================== *)
Definition close (tol x v : R) : Prop := Rabs (x - v) <= tol.

Lemma mi_close T nr nc e v tol : (0 <? tot T nr nc)%nat = true -> mi_e T nr nc = e -> close tol (ev e) v -> close tol (mi T nr nc) v.
Proof. intros HN <- H. apply Nat.ltb_lt in HN. rewrite mi_e_ok by exact HN. exact H. Qed.
Lemma nmi_close T nr nc N s e v tol : (0 <? N)%nat = true -> tot T nr nc = N -> nmi_side T nr nc = s -> sides s -> nmi_e T nr nc = e ->
  close tol (ev e) v -> close tol (nmi T nr nc N) v.
Proof. intros HN <- <- HS <- H. apply Nat.ltb_lt in HN. rewrite nmi_e_ok by assumption. exact H. Qed.
Lemma under_close T nr nc N m s e v tol : (0 <? N)%nat = true -> tot T nr nc = N -> su_side T nr nc m = s -> sides s -> su_e T nr nc m = e ->
  close tol (ev e) v -> close tol (score_under T nr nc (INR N) m) v.
Proof. intros HN <- <- HS <- H. apply Nat.ltb_lt in HN. rewrite su_e_ok by assumption. exact H. Qed.
Lemma over_close T nr nc N m s e v tol : (0 <? N)%nat = true -> tot T nr nc = N -> so_side T nr nc m = s -> sides s -> so_e T nr nc m = e ->
  close tol (ev e) v -> close tol (score_over T nr nc (INR N) m) v.
Proof. intros HN <- <- HS <- H. apply Nat.ltb_lt in HN. rewrite so_e_ok by assumption. exact H. Qed.
Lemma f_close T nr nc N m bn bd s e v tol : (0 <? N)%nat = true -> tot T nr nc = N ->
  so_side T nr nc m ++ su_side T nr nc m = s -> sides s -> f_e (so_e T nr nc m) (su_e T nr nc m) bn bd = e ->
  close tol (ev e) v -> close tol (f_measure_R (score_over T nr nc (INR N) m) (score_under T nr nc (INR N) m) (IZR bn / IZR bd)) v.
Proof. intros HN <- <- HS <- H. apply Nat.ltb_lt in HN. apply sides_app in HS. destruct HS as [H1 H2].
  rewrite so_e_ok, su_e_ok by assumption. rewrite f_e_ok. exact H. Qed.

(* what one sampled case asserts: the table of the two frame-index sequences, and the nine scores *)
Section CaseStatement.
Variables (yr ye : list nat).
Let T : tabfn := tab_fn (contingency_tab yr ye).
Let nr := length (uniq yr).
Let nc := length (uniq ye).
Let N := length yr.
Definition st_tab (t : list (list nat)) : Prop := length yr = length ye /\ contingency_tab yr ye = t.
Definition st_mi (tol v : R) : Prop := close tol (mi_of yr ye) v.
Definition st_nmi (tol v : R) : Prop := close tol (nmi T nr nc N) v.
Definition st_over (bn bd : Z) (m : bool) (tol v : R) : Prop := close tol (fst (fst (nce T nr nc (INR N) (IZR bn / IZR bd) m))) v.
Definition st_under (bn bd : Z) (m : bool) (tol v : R) : Prop := close tol (snd (fst (nce T nr nc (INR N) (IZR bn / IZR bd) m))) v.
Definition st_f (bn bd : Z) (m : bool) (tol v : R) : Prop := close tol (snd (nce T nr nc (INR N) (IZR bn / IZR bd) m)) v.
Definition st_vp (bn bd : Z) (tol v : R) : Prop := close tol (fst (fst (vmeasure T nr nc (INR N) (IZR bn / IZR bd)))) v.
Definition st_vr (bn bd : Z) (tol v : R) : Prop := close tol (snd (fst (vmeasure T nr nc (INR N) (IZR bn / IZR bd)))) v.
Definition st_vf (bn bd : Z) (tol v : R) : Prop := close tol (snd (vmeasure T nr nc (INR N) (IZR bn / IZR bd))) v.
(* is the NMI denominator the 1e-10 clamp (exactly one labelling with a single class)? *)
Definition st_nmi_clamped : bool := negb (nmi_special nr nc) && nmi_degenerate T nr nc.
End CaseStatement.

(* machine floats first; the software floats only when that enclosure is too wide *)
Ltac num_interval := first [interval with (i_prec 53) | interval with (i_prec 120)].
Ltac num_sides := cbn [sides ev evl fst snd tenth10]; repeat split; num_interval.
Ltac num_final := unfold close; cbn [ev evl fst snd tenth10]; num_interval.
Ltac num_eq := vm_compute; reflexivity.
Ltac seg_num :=
  lazymatch goal with
  | |- _ /\ _ => split; seg_num
  | |- st_nmi_clamped _ _ = true => vm_compute; reflexivity
  | |- st_tab _ _ _ => split; vm_compute; reflexivity
  | |- st_mi _ _ _ _ => unfold st_mi, mi_of; eapply mi_close; [num_eq|num_eq|num_final]
  | |- st_nmi _ _ _ _ => unfold st_nmi; eapply nmi_close; [num_eq|num_eq|num_eq|num_sides|num_eq|num_final]
  | |- st_over _ _ _ _ _ _ _ => unfold st_over, nce; cbn [fst snd]; eapply over_close; [num_eq|num_eq|num_eq|num_sides|num_eq|num_final]
  | |- st_under _ _ _ _ _ _ _ => unfold st_under, nce; cbn [fst snd]; eapply under_close; [num_eq|num_eq|num_eq|num_sides|num_eq|num_final]
  | |- st_f _ _ _ _ _ _ _ => unfold st_f, nce; cbn [fst snd]; eapply f_close; [num_eq|num_eq|num_eq|num_sides|num_eq|num_final]
  | |- st_vp _ _ _ _ _ _ => unfold st_vp, vmeasure, nce; cbn [fst snd]; eapply over_close; [num_eq|num_eq|num_eq|num_sides|num_eq|num_final]
  | |- st_vr _ _ _ _ _ _ => unfold st_vr, vmeasure, nce; cbn [fst snd]; eapply under_close; [num_eq|num_eq|num_eq|num_sides|num_eq|num_final]
  | |- st_vf _ _ _ _ _ _ => unfold st_vf, vmeasure, nce; cbn [fst snd]; eapply f_close; [num_eq|num_eq|num_eq|num_sides|num_eq|num_final]
  end.

(* ================================================================================================== *)
(* 5. examples: a correct value is accepted, a value off by 1e-6 is not                                  *)
(* ================================================================================================== *)
Example ex_mi : st_mi [0; 0; 1; 1; 2; 2]%nat [0; 1; 1; 1; 0; 0]%nat (1 / 10 ^ 9) (IZR 4162209845443573 / IZR 9007199254740992).
Proof. seg_num. Qed.
Example ex_mi_wrong : ~ st_mi [0; 0; 1; 1; 2; 2]%nat [0; 1; 1; 1; 0; 0]%nat (1 / 10 ^ 9) (IZR 4162209845443573 / IZR 9007199254740992 + 1 / 10 ^ 6).
Proof. unfold st_mi, mi_of, close. rewrite mi_e_ok by (apply Nat.ltb_lt; vm_compute; reflexivity).
  match goal with |- context [ev ?e] => let e' := eval vm_compute in e in replace e with e' by (vm_compute; reflexivity) end.
  cbn [ev evl fst snd]. apply Rlt_not_le. interval. Qed.
Example ex_all : let yr := [0; 0; 1; 1; 2; 2; 2]%nat in let ye := [0; 1; 1; 1; 0; 0; 1]%nat in
  st_tab yr ye [[1; 1]; [0; 2]; [2; 1]]%nat /\
  st_nmi yr ye (1 / 10 ^ 9) (IZR 2225294305322177 / IZR 9007199254740992) /\
  st_over yr ye 1 2 false (1 / 10 ^ 9) (IZR 180555139440383 / IZR 562949953421312) /\
  st_vf yr ye 1 2 (1 / 10 ^ 9) (IZR 5012813814288449 / IZR 18014398509481984).
Proof. cbv zeta. seg_num. Qed.

Print Assumptions ex_mi.
Print Assumptions mi_e_ok.
Print Assumptions nmi_e_ok.
Print Assumptions su_e_ok.
Print Assumptions so_e_ok.
Print Assumptions f_e_ok.
