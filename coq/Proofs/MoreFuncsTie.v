(* More vector ties (programs of Gen/VecFuncs.v; meaning: Model/VecExp.v):
     alignment.absolute_error / percentage_correct / percentage_correct_segments = Model.Alignment (all inputs; the
     validator alignment.validate is the opaque call X_alignment_validate, instantiated by Model.Alignment.validate).
   karaoke_perceptual_metric (scipy skewnorm) has no model and is not translated. *)
From Coq Require Import String.
From Coq Require Import List Bool Arith ZArith QArith Qabs Qminmax Qround Lia ZifyBool Lqa.
From ME Require Import Model.Prelude Model.VecExp.
From ME Require Model.Alignment.
From ME Require Import Gen.VecFuncs Proofs.VecFuncsTie.
Import ListNotations.
Open Scope Q_scope.

Definition of_oq (o : option Q) (py : bool) : val := match o with Some d => VS (SF py (Fin d)) | None => VNone end.
Ltac ev_cbv ::=
  cbv [run_tree ev ev_list scalars obind ebind ebind2 pure_only argn nth_error ret chk bc app rev
       v_bin v_cmp v_logic v_un v_red v_astype v_pyfloat v_pybool v_mask v_where v_list v_item list_bools list_qs
       s_bin s_cmp s_py s_x s_fin s_truth as_qs xbin xadd xsub xmul xdivx xneg xscale qbin zbin q_un
       option_map andb orb negb v_isnone v_slice v_itemz concat_qs of_oq].
Definition alignment_ext (f : extfn) (vs : list val) : out unit :=
  match f, vs with
  | X_alignment_validate, [VQ r; VQ e] => lift_unit (Alignment.validate r e)
  | _, _ => UNM
  end.
Lemma align_validate_len r e u : Alignment.validate r e = Ok u -> length e = length r /\ (length r =? 0)%nat = false.
Proof.
  unfold Alignment.validate. destruct (length r =? 0)%nat eqn:E0; [discriminate|].
  destruct (length e =? length r)%nat eqn:E1; [|discriminate]. intros _. split; [now apply Nat.eqb_eq|reflexivity].
Qed.
Lemma vmedian_align : vmedian = Alignment.qmedian. Proof. reflexivity. Qed.
Lemma xmedian_ne l : (length l =? 0)%nat = false -> xmedian l = Fin (vmedian l).
Proof. destruct l; [discriminate|reflexivity]. Qed.
Definition lift_q2 (r : res (Q * Q)) : out (list xval) := match r with Ok (a, b) => OK [Fin a; Fin b] | Raise e => EXN e end.

Lemma is_nil_len {A} (l : list A) : Melody.is_nil l = (length l =? 0)%nat. Proof. destruct l; reflexivity. Qed.
(* the deviations array has the length of the (validated, non-empty) timestamps *)
Ltac dev_nonempty Le N0 :=
  rewrite ?map_combine; cbn [fst snd];
  match goal with |- context [xmedian ?D] => idtac | |- context [Melody.is_nil ?D] => idtac end;
  repeat match goal with
  | |- context [Melody.is_nil (vmap2 ?f ?a ?b)] =>
      let H := fresh in
      assert (H : Melody.is_nil (vmap2 f a b) = false) by (rewrite is_nil_len, vmap2_length, ?map_length, Le, Nat.min_id; exact N0);
      rewrite H; clear H
  | |- context [xmedian (vmap2 ?f ?a ?b)] =>
      rewrite (xmedian_ne (vmap2 f a b)) by (rewrite vmap2_length, ?map_length, Le, Nat.min_id; exact N0)
  end.

Theorem absolute_error_tie : forall r e : list Q,
  out_eq (vrun_x gen_absolute_error alignment_ext [VQ r; VQ e]) (lift_q2 (Alignment.absolute_error r e)).
Proof.
  intros. start gen_absolute_error. cbv [alignment_ext].
  unfold Alignment.absolute_error, Alignment.deviations, Alignment.qmean, Alignment.qnat, lift_q2.
  destruct (Alignment.validate r e) as [[]|x] eqn:V; simp; [|reflexivity].
  destruct (align_validate_len _ _ _ V) as [Le N0]. lens. norm. dev_nonempty Le N0. finish.
Qed.
Lemma count_filter_map {A} (f : A -> bool) l : length (filter (fun b => b) (map f l)) = length (filter f l).
Proof. induction l; cbn; [reflexivity|]. destruct (f a); cbn; now rewrite IHl. Qed.
Theorem percentage_correct_tie : forall (r e : list Q) (w : Q) (py : bool),
  out_eq (vrun_x gen_percentage_correct alignment_ext [VQ r; VQ e; VS (SF py (Fin w))]) (lift_q (Alignment.percentage_correct r e w)).
Proof.
  intros. start gen_percentage_correct. cbv [alignment_ext].
  unfold Alignment.percentage_correct, Alignment.deviations, Alignment.count_within, Alignment.qnat.
  destruct (Alignment.validate r e) as [[]|x] eqn:V; simp; [|reflexivity].
  destruct (align_validate_len _ _ _ V) as [Le N0]. lens. unfold vcount. rewrite ?count_filter_map. norm. dev_nonempty Le N0.
  rewrite ?vmap2_length, ?map_length, ?Le, ?Nat.min_id. finish.
Qed.

(* ---------- percentage_correct_segments ---------- *)
Lemma removelast_length' {A} (l : list A) : length (removelast l) = (length l - 1)%nat.
Proof. induction l as [|x l _] using rev_ind; [reflexivity|]. rewrite removelast_last, app_length. cbn. lia. Qed.
Lemma tl_length' {A} (l : list A) : length (tl l) = (length l - 1)%nat.
Proof. destruct l; cbn; lia. Qed.
Lemma vslice_tl {A} (l : list A) : vslice (Some 1%Z) None l = tl l.
Proof.
  unfold vslice, slice_bound. change (1 <? 0)%Z with false. cbv iota. change (Z.to_nat 1) with 1%nat.
  destruct l as [|x l]; [reflexivity|]. cbn [length]. replace (Nat.min (S (length l)) 1) with 1%nat by lia.
  cbn [skipn tl]. replace (S (length l) - 1)%nat with (length l) by lia. apply firstn_all.
Qed.
Lemma vslice_removelast {A} (l : list A) : vslice None (Some (-1)%Z) l = removelast l.
Proof.
  unfold vslice, slice_bound. change (-1 <? 0)%Z with true. cbv iota. cbn [skipn]. rewrite Nat.sub_0_r.
  replace (Z.to_nat (Z.max 0 (-1 + Z.of_nat (length l)))) with (length l - 1)%nat by lia.
  induction l as [|x l _] using rev_ind; [reflexivity|]. rewrite removelast_last, app_length. cbn [length].
  replace (length l + 1 - 1)%nat with (length l) by lia. rewrite firstn_app, Nat.sub_diag, firstn_all. cbn [firstn]. now rewrite app_nil_r.
Qed.
Lemma nth_last (l : list Q) d : nth (Z.to_nat (Z.of_nat (length l) + -1)) l d = last l d.
Proof.
  induction l as [|x l _] using rev_ind; [reflexivity|]. rewrite last_last, app_length. cbn [length].
  replace (Z.to_nat (Z.of_nat (length l + 1) + -1)) with (length l) by lia. rewrite app_nth2, Nat.sub_diag by lia. reflexivity.
Qed.
Lemma qmax_or0 l : match qmax_list l with Some m => m | None => 0 end = Alignment.qmaxl l.
Proof. destruct l; reflexivity. Qed.
(* the model's overlaps as element-wise NumPy operations *)
Lemma overlaps_vmap2 : forall rs re es ee,
  Alignment.overlaps rs re es ee = vmap2 (fun x y => Qmax (x - y) 0) (vmap2 Qmin re ee) (vmap2 Qmax rs es).
Proof.
  assert (R : forall (f : Q -> Q -> Q) (X : list Q), vmap2 f X [] = []) by (intros f X; destruct X; reflexivity).
  induction rs as [|a rs IH]; intros re es ee.
  - cbn [Alignment.overlaps vmap2]. now rewrite R.
  - destruct re as [|b re]; [reflexivity|]. destruct es as [|c es]; [cbn [Alignment.overlaps vmap2]; now rewrite R|].
    destruct ee as [|d ee]; [reflexivity|]. cbn [Alignment.overlaps vmap2]. unfold Alignment.overlap at 1. now rewrite IH.
Qed.
Lemma vis_nil_len {A} (l : list A) : is_nil l = (length l =? 0)%nat. Proof. destruct l; reflexivity. Qed.
Lemma qleb_false a b : qleb a b = false -> b < a.
Proof. unfold qleb. intros H. apply Qnot_le_lt. intros L. apply Qle_bool_iff in L. congruence. Qed.
Lemma qleb_true a b : qleb a b = true -> a <= b. Proof. apply Qle_bool_iff. Qed.
Lemma qltb_false a b : qltb a b = false -> b <= a.
Proof. unfold qltb. intros H. apply negb_false_iff in H. now apply Qle_bool_iff. Qed.
Ltac q_contra ::=
  exfalso;
  repeat match goal with
  | H : qltb _ _ = true |- _ => apply qltb_true in H
  | H : qltb _ _ = false |- _ => apply qltb_false in H
  | H : qeqb _ _ = true |- _ => apply qeqb_true in H
  | H : qleb _ _ = false |- _ => apply qleb_false in H
  | H : qleb _ _ = true |- _ => apply qleb_true in H
  end; lra.
Ltac len ::=
  cbn [length];
  repeat first [ rewrite map_length | rewrite vmap2_length | rewrite app_length | rewrite removelast_length' | rewrite tl_length'
               | rewrite vselect_length by len ];
  cbn [length];
  repeat match goal with H : length _ = length _ |- _ => rewrite H end;
  rewrite ?Nat.min_id; lia.
Lemma pos_len n : (0 <? n)%nat = negb (n =? 0)%nat. Proof. destruct n; reflexivity. Qed.
Lemma last_ok n : (0 <=? Z.of_nat n + -1)%Z = negb (n =? 0)%nat. Proof. destruct n; [reflexivity|]. cbn [Nat.eqb negb]. lia. Qed.
Lemma nth0_hd (l : list Q) d : nth 0 l d = hd d l. Proof. destruct l; reflexivity. Qed.
Theorem percentage_correct_segments_tie : forall (r e : list Q) (d : option Q) (py : bool),
  out_eq (vrun_x gen_percentage_correct_segments alignment_ext [VQ r; VQ e; of_oq d py])
         (lift_q (Alignment.percentage_correct_segments r e d)).
Proof.
  intros.
  destruct d as [d|]; start gen_percentage_correct_segments; cbv [alignment_ext]; unfold Alignment.percentage_correct_segments;
    (destruct (Alignment.validate r e) as [[]|x] eqn:V; simp; [|reflexivity]);
    destruct (align_validate_len _ _ _ V) as [Le N0].
  all: unfold vcat; cbn [app]; rewrite ?app_nil_r, ?vslice_tl, ?vslice_removelast, ?nth_last, ?qmax_or0, ?overlaps_vmap2.
  all: rewrite ?vis_nil_len, ?pos_len, ?last_ok, ?Le, ?N0; cbn [negb]; lens; norm.
  all: rewrite ?nth0_hd; repeat (split_atom; simp); first [leaf | q_contra].
Qed.

Print Assumptions absolute_error_tie.
Print Assumptions percentage_correct_tie.
Print Assumptions percentage_correct_segments_tie.
