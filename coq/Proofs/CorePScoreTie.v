(* mir_eval.beat.p_score tied to Beat.p_score by TRANSLATION - part 1: the data-level facts about the NumPy
   primitives of Model/PScoreExp.v that the program tie (CorePScoreTie2.v) needs.

     correlate_numpy_*     the index convention of [correlate_full] on the values observed on real NumPy
     scatter_ind           the fancy-index store of 1.0 into np.zeros(L) at in-range bins gives the indicator train
     flatnonzero_occupied  np.flatnonzero of the indicator train = Beat.occupied of the bins
     corr_window_count     sum of the Python slice [s:e] of np.correlate(ref_train, est_train, "full") of two
                           indicator trains = Beat.count_pairs over the occupied bins, lags s-mid .. e-1-mid
                           (the slice normalised by py_norm exactly as Beat.corr_window_sum does) *)
From Coq Require Import String.
From Coq Require Import List Bool Arith ZArith QArith Qabs Qminmax Qround Lia Lqa Sorting.Sorted Permutation FinFun.
From ME Require Import Model.Prelude Model.BeatExp Model.PScoreExp.
From ME Require Model.Beat Proofs.BeatProps.
Import ListNotations.
Open Scope Q_scope.

(* ---------- np.correlate(a, v, "full"): values observed on NumPy 2.5 ---------- *)
Example correlate_numpy_1 : Forall2 Qeq (correlate_full [1; 2; 3] [0; 1; 1#2]) [1#2; 2; 7#2; 3; 0].
Proof. vm_compute. repeat constructor. Qed.
Example correlate_numpy_2 : correlate_full [1; 2; 3; 4] [1; 10] = [10; 21; 32; 43; 4].
Proof. vm_compute. reflexivity. Qed.
Example correlate_numpy_3 : correlate_full [1; 10] [1; 2; 3; 4] = [4; 43; 32; 21; 10].
Proof. vm_compute. reflexivity. Qed.
Example correlate_numpy_4 : correlate_full [1; 0; 0; 1; 0] [0; 1; 0; 0; 0] = [0; 0; 0; 1; 0; 0; 1; 0; 0].
Proof. vm_compute. reflexivity. Qed.

(* ---------- integer ranges ---------- *)
Fixpoint zfrom (a : Z) (n : nat) : list Z := match n with O => [] | S k => a :: zfrom (a + 1) k end.
Lemma zfrom_map a n : map (fun i => (a + Z.of_nat i)%Z) (seq 0 n) = zfrom a n.
Proof.
  revert a. induction n as [|n IH]; intros a; [reflexivity|]. cbn [seq map zfrom]. f_equal; [lia|].
  rewrite <- seq_shift, map_map, <- IH. apply map_ext. intros i. lia.
Qed.
Lemma zrange_zfrom a b : zrange a b = zfrom a (Z.to_nat (b - a)).
Proof. unfold zrange. apply zfrom_map. Qed.
Lemma zfrom_length a n : length (zfrom a n) = n.
Proof. revert a. induction n; intros; cbn [zfrom length]; auto. Qed.
Lemma zfrom_In a n x : In x (zfrom a n) <-> (a <= x < a + Z.of_nat n)%Z.
Proof.
  revert a. induction n as [|n IH]; intros a; cbn [zfrom In]; [lia|]. rewrite IH. lia.
Qed.
Lemma zfrom_sorted a n : StronglySorted Z.lt (zfrom a n).
Proof.
  revert a. induction n as [|n IH]; intros a; cbn [zfrom]; constructor; [apply IH|].
  apply Forall_forall. intros x Hx. apply zfrom_In in Hx. lia.
Qed.
Lemma zfrom_skipn k : forall a n, skipn k (zfrom a n) = zfrom (a + Z.of_nat k) (n - k).
Proof.
  induction k as [|k IH]; intros a n.
  - cbn [skipn]. rewrite Nat.sub_0_r. f_equal. lia.
  - destruct n as [|n]; [reflexivity|]. cbn [zfrom skipn Nat.sub]. rewrite IH. f_equal. lia.
Qed.
Lemma zfrom_firstn k : forall a n, firstn k (zfrom a n) = zfrom a (Nat.min k n).
Proof.
  induction k as [|k IH]; intros a n; [reflexivity|].
  destruct n as [|n]; [reflexivity|]. cbn [zfrom firstn Nat.min]. rewrite IH. reflexivity.
Qed.

(* ---------- strictly increasing lists ---------- *)
Lemma ss_ext : forall l1 l2, StronglySorted Z.lt l1 -> StronglySorted Z.lt l2 ->
  (forall x, In x l1 <-> In x l2) -> l1 = l2.
Proof.
  induction l1 as [|a l1 IH]; intros l2 H1 H2 Hin.
  - destruct l2 as [|b l2]; [reflexivity|]. exfalso. apply (Hin b). left; reflexivity.
  - destruct l2 as [|b l2]; [exfalso; apply (Hin a); left; reflexivity|].
    inversion H1 as [|? ? S1 F1]; subst. inversion H2 as [|? ? S2 F2]; subst.
    rewrite Forall_forall in F1, F2.
    assert (a = b) as ->.
    { destruct (Z.eq_dec a b) as [|Hne]; [assumption|]. exfalso.
      assert (In a (b :: l2)) as Ha by (apply Hin; left; reflexivity).
      assert (In b (a :: l1)) as Hb by (apply Hin; left; reflexivity).
      destruct Ha as [Ha|Ha]; [congruence|]. destruct Hb as [Hb|Hb]; [congruence|].
      apply F2 in Ha. apply F1 in Hb. lia. }
    f_equal. apply IH; [assumption|assumption|]. intros x. split; intros Hx.
    + assert (In x (b :: l2)) as [E|Hx'] by (apply Hin; right; exact Hx); [|exact Hx'].
      apply F1 in Hx. lia.
    + assert (In x (b :: l1)) as [E|Hx'] by (apply Hin; right; exact Hx); [|exact Hx'].
      apply F2 in Hx. lia.
Qed.
Lemma ss_filter (p : Z -> bool) l : StronglySorted Z.lt l -> StronglySorted Z.lt (filter p l).
Proof.
  induction 1 as [|a l S IH F]; cbn [filter]; [constructor|].
  destruct (p a); [|exact IH]. constructor; [exact IH|].
  rewrite Forall_forall in *. intros x Hx. apply filter_In in Hx. apply F. tauto.
Qed.
Lemma ss_nodup l : StronglySorted Z.lt l -> NoDup l.
Proof.
  induction 1 as [|a l S IH F]; constructor; [|exact IH].
  intros Hin. rewrite Forall_forall in F. apply F in Hin. lia.
Qed.

(* ---------- Beat.occupied ---------- *)
Lemma zins_In x l y : In y (Beat.zins x l) <-> y = x \/ In y l.
Proof.
  induction l as [|z t IH]; cbn [Beat.zins In]; [intuition|].
  destruct (x <? z)%Z eqn:E1; [cbn [In]; intuition|].
  destruct (x =? z)%Z eqn:E2; [apply Z.eqb_eq in E2; subst; cbn [In]; intuition|].
  cbn [In]. rewrite IH. intuition.
Qed.
Lemma zins_sorted x l : StronglySorted Z.lt l -> StronglySorted Z.lt (Beat.zins x l).
Proof.
  induction 1 as [|z t S IH F]; cbn [Beat.zins]; [repeat constructor|].
  rewrite Forall_forall in F.
  destruct (x <? z)%Z eqn:E1.
  - apply Z.ltb_lt in E1. constructor; [constructor; [exact S|apply Forall_forall; exact F]|].
    apply Forall_forall. intros y [<-|Hy]; [exact E1|]. apply F in Hy. lia.
  - apply Z.ltb_ge in E1. destruct (x =? z)%Z eqn:E2.
    + constructor; [exact S|apply Forall_forall; exact F].
    + apply Z.eqb_neq in E2. constructor; [exact IH|]. apply Forall_forall. intros y Hy.
      apply zins_In in Hy. destruct Hy as [->|Hy]; [lia|apply F; exact Hy].
Qed.
Lemma occupied_gen b : forall acc, StronglySorted Z.lt acc ->
  StronglySorted Z.lt (fold_left (fun acc x => Beat.zins x acc) b acc) /\
  forall y, In y (fold_left (fun acc x => Beat.zins x acc) b acc) <-> In y b \/ In y acc.
Proof.
  induction b as [|x b IH]; intros acc S; cbn [fold_left In]; [intuition|].
  destruct (IH (Beat.zins x acc) (zins_sorted x acc S)) as [S' I']. split; [exact S'|].
  intros y. rewrite I', zins_In. intuition.
Qed.
Lemma occupied_sorted b : StronglySorted Z.lt (Beat.occupied b).
Proof. apply (occupied_gen b []). constructor. Qed.
Lemma occupied_In b y : In y (Beat.occupied b) <-> In y b.
Proof. unfold Beat.occupied. destruct (occupied_gen b [] ltac:(constructor)) as [_ H]. rewrite H. cbn [In]. intuition. Qed.

(* ---------- indicator trains ---------- *)
Definition memz (i : Z) (S : list Z) : bool := existsb (Z.eqb i) S.
Definition ind (S : list Z) (i : Z) : Q := if memz i S then 1 else 0.
Definition train (S : list Z) (L : nat) : list Q := map (ind S) (zfrom 0 L).
Lemma memz_In i S : memz i S = true <-> In i S.
Proof.
  unfold memz. rewrite existsb_exists. split.
  - intros (x & Hx & E). apply Z.eqb_eq in E. subst. exact Hx.
  - intros H. exists i. split; [exact H|apply Z.eqb_refl].
Qed.
Lemma memz_ext S S' : (forall x, In x S <-> In x S') -> forall i, memz i S = memz i S'.
Proof. intros H i. apply eq_true_iff_eq. rewrite !memz_In. apply H. Qed.
Lemma train_ext S S' L : (forall x, In x S <-> In x S') -> train S L = train S' L.
Proof. intros H. unfold train. apply map_ext. intros i. unfold ind. rewrite (memz_ext S S' H). reflexivity. Qed.
Lemma train_length S L : length (train S L) = L.
Proof. unfold train. rewrite map_length. apply zfrom_length. Qed.
Lemma zeros_train L : repeat 0 L = train [] L.
Proof.
  unfold train. assert (forall a, repeat 0 L = map (ind []) (zfrom a L)) as H; [|apply H].
  induction L as [|L IH]; intros a; [reflexivity|].
  cbn [repeat zfrom map]. rewrite <- IH. reflexivity.
Qed.
Lemma set_nth_map_zfrom (f : Z -> Q) v : forall L a n,
  set_nth (map f (zfrom a L)) n v = map (fun i => if (i =? a + Z.of_nat n)%Z then v else f i) (zfrom a L).
Proof.
  induction L as [|L IH]; intros a n; [destruct n; reflexivity|].
  destruct n as [|n]; cbn [zfrom map set_nth].
  - replace (a =? a + Z.of_nat 0)%Z with true by (symmetry; apply Z.eqb_eq; lia). f_equal.
    apply map_ext_in. intros i Hi. apply zfrom_In in Hi.
    replace (i =? a + Z.of_nat 0)%Z with false by (symmetry; apply Z.eqb_neq; lia). reflexivity.
  - replace (a =? a + Z.of_nat (S n))%Z with false by (symmetry; apply Z.eqb_neq; lia). f_equal.
    rewrite IH. apply map_ext. intros i. replace (a + 1 + Z.of_nat n)%Z with (a + Z.of_nat (S n))%Z by lia. reflexivity.
Qed.
Lemma norm_idx_in z n : (0 <= z < Z.of_nat n)%Z -> norm_idx z n = Some (Z.to_nat z).
Proof.
  intros H. destruct z as [|p|p]; cbn [norm_idx]; [| |lia].
  - replace (0 <? n)%nat with true by (symmetry; apply Nat.ltb_lt; lia). reflexivity.
  - replace (Pos.to_nat p <? n)%nat with true by (symmetry; apply Nat.ltb_lt; lia). reflexivity.
Qed.
(* reference_train = np.zeros(L); reference_train[idx] = 1.0 with every index in range *)
Lemma scatter_train L : forall idx S, Forall (fun z => (0 <= z < Z.of_nat L)%Z) idx ->
  exists S', scatter (train S L) idx 1 = Some (train S' L) /\ forall x, In x S' <-> In x idx \/ In x S.
Proof.
  induction idx as [|z idx IH]; intros S F; cbn [scatter].
  - exists S. split; [reflexivity|]. cbn [In]. intuition.
  - inversion F as [|? ? Hz F']; subst. rewrite train_length, (norm_idx_in z L Hz).
    assert (set_nth (train S L) (Z.to_nat z) 1 = train (z :: S) L) as ->.
    { unfold train. rewrite set_nth_map_zfrom. apply map_ext. intros i. unfold ind, memz. cbn [existsb].
      replace (0 + Z.of_nat (Z.to_nat z))%Z with z by lia. destruct (i =? z)%Z; reflexivity. }
    destruct (IH (z :: S) F') as (S' & E & HS'). exists S'. split; [exact E|].
    intros x. rewrite HS'. cbn [In]. intuition.
Qed.
Lemma scatter_ind L idx : Forall (fun z => (0 <= z < Z.of_nat L)%Z) idx ->
  scatter (repeat 0 L) idx 1 = Some (train idx L).
Proof.
  intros F. rewrite zeros_train. destruct (scatter_train L idx [] F) as (S' & E & HS'). rewrite E. f_equal.
  apply train_ext. intros x. rewrite HS'. cbn [In]. intuition.
Qed.

(* ---------- np.flatnonzero of a train ---------- *)
Lemma nz_from_zfrom (p : Z -> bool) : forall n a, nz_from a (map p (zfrom a n)) = filter p (zfrom a n).
Proof.
  induction n as [|n IH]; intros a; [reflexivity|]. cbn [zfrom map nz_from filter].
  rewrite IH. destruct (p a); reflexivity.
Qed.
Lemma ind_nonzero S i : negb (qeqb (ind S i) 0) = memz i S.
Proof. unfold ind. destruct (memz i S); reflexivity. Qed.
Lemma flatnonzero_train S L : nz_from 0 (map (fun q => negb (qeqb q 0)) (train S L)) = filter (fun i => memz i S) (zfrom 0 L).
Proof.
  unfold train. rewrite map_map. rewrite (map_ext _ (fun i => memz i S)) by (intros; apply ind_nonzero).
  apply nz_from_zfrom.
Qed.
Lemma flatnonzero_occupied S L : Forall (fun z => (0 <= z < Z.of_nat L)%Z) S ->
  nz_from 0 (map (fun q => negb (qeqb q 0)) (train S L)) = Beat.occupied S.
Proof.
  intros F. rewrite flatnonzero_train. apply ss_ext.
  - apply ss_filter, zfrom_sorted.
  - apply occupied_sorted.
  - intros x. rewrite filter_In, occupied_In, memz_In, zfrom_In. rewrite Forall_forall in F. split; [tauto|].
    intros H. split; [|exact H]. apply F in H. lia.
Qed.

(* ---------- counting ---------- *)
Lemma qsum_count {A} (p : A -> bool) l : qsum (map (fun x => b2q (p x)) l) == Beat.qnat (length (filter p l)).
Proof.
  induction l as [|x t IH]; [reflexivity|]. cbn [map qsum fold_right filter].
  change (fold_right Qplus 0 (map (fun x => b2q (p x)) t)) with (qsum (map (fun x => b2q (p x)) t)). rewrite IH.
  destruct (p x); cbn [length b2q]; [rewrite BeatProps.qnat_S|]; ring.
Qed.
Lemma qsum_count2 {A B} (p : A * B -> bool) (la : list A) (lb : list B) :
  qsum (map (fun a => qsum (map (fun b => b2q (p (a, b))) lb)) la) == Beat.qnat (length (filter p (list_prod la lb))).
Proof.
  induction la as [|a la IH]; [reflexivity|]. cbn [map qsum fold_right list_prod].
  change (fold_right Qplus 0 (map (fun a => qsum (map (fun b => b2q (p (a, b))) lb)) la))
    with (qsum (map (fun a => qsum (map (fun b => b2q (p (a, b))) lb)) la)).
  rewrite IH, filter_app, app_length, BeatProps.qnat_plus.
  apply Qplus_comp; [|reflexivity].
  rewrite <- (qsum_count p (map (fun y => (a, y)) lb)), map_map. reflexivity.
Qed.
Lemma nodup_app {A} (a b : list A) : NoDup a -> NoDup b -> (forall x, In x a -> ~ In x b) -> NoDup (a ++ b).
Proof.
  induction 1 as [|x a Hx Ha IH]; intros Hb D; [exact Hb|]. cbn [app]. constructor.
  - rewrite in_app_iff. intros [H|H]; [contradiction|]. apply (D x); [left; reflexivity|exact H].
  - apply IH; [exact Hb|]. intros y Hy. apply D. right. exact Hy.
Qed.
Lemma nodup_prod {A B} (la : list A) (lb : list B) : NoDup la -> NoDup lb -> NoDup (list_prod la lb).
Proof.
  induction 1 as [|a la Ha Hla IH]; intros Hb; [constructor|]. cbn [list_prod]. apply nodup_app.
  - apply Injective_map_NoDup; [|exact Hb]. intros x y E. congruence.
  - apply IH. exact Hb.
  - intros [x y] H1 H2. apply in_map_iff in H1. destruct H1 as (y' & E & _). inversion E; subst.
    apply in_prod_iff in H2. tauto.
Qed.

(* ---------- nthq, py_slice over ranges ---------- *)
Lemma nth_map_zfrom (f : Z -> Q) : forall L a k, (k < L)%nat -> nth k (map f (zfrom a L)) 0 = f (a + Z.of_nat k)%Z.
Proof.
  induction L as [|L IH]; intros a k H; [lia|]. destruct k as [|k]; cbn [zfrom map nth].
  - f_equal. lia.
  - rewrite IH by lia. f_equal. lia.
Qed.
Lemma nthq_train S L i : Forall (fun z => (0 <= z < Z.of_nat L)%Z) S -> nthq (train S L) i = ind S i.
Proof.
  intros F. unfold nthq. rewrite Forall_forall in F.
  assert (forall j, ~ (0 <= j < Z.of_nat L)%Z -> ind S j = 0) as Hout.
  { intros j Hj. unfold ind. destruct (memz j S) eqn:E; [|reflexivity]. apply memz_In, F in E. lia. }
  destruct (i <? 0)%Z eqn:E.
  - apply Z.ltb_lt in E. symmetry. apply Hout. lia.
  - apply Z.ltb_ge in E. destruct (Nat.lt_ge_cases (Z.to_nat i) L) as [Hl|Hg].
    + unfold train. rewrite nth_map_zfrom by exact Hl. f_equal. lia.
    + rewrite nth_overflow by (rewrite train_length; exact Hg). symmetry. apply Hout. lia.
Qed.
Lemma py_norm_range n x : (0 <= n)%Z -> (0 <= py_norm n x <= n)%Z.
Proof. intros H. unfold py_norm. destruct (x <? 0)%Z eqn:E; [apply Z.ltb_lt in E|apply Z.ltb_ge in E]; lia. Qed.
Lemma py_slice_map_range {A} (F : Z -> A) (N : nat) s e :
  py_slice s e (map F (zfrom 0 N)) =
  map F (zfrom (py_norm (Z.of_nat N) s) (Z.to_nat (py_norm (Z.of_nat N) e - py_norm (Z.of_nat N) s))).
Proof.
  unfold py_slice. rewrite map_length, zfrom_length.
  pose proof (py_norm_range (Z.of_nat N) s ltac:(lia)) as Hs. pose proof (py_norm_range (Z.of_nat N) e ltac:(lia)) as He.
  set (s' := py_norm (Z.of_nat N) s) in *. set (e' := py_norm (Z.of_nat N) e) in *.
  rewrite skipn_map, firstn_map, zfrom_skipn, zfrom_firstn. f_equal. f_equal; lia.
Qed.

(* ---------- the window sum of the full correlation of two indicator trains ---------- *)
Definition in_range (L : nat) (S : list Z) : Prop := Forall (fun z => (0 <= z < Z.of_nat L)%Z) S.
Lemma ind_mul R E i n : ind R i * ind E n == b2q (memz i R && memz n E).
Proof. unfold ind. destruct (memz i R), (memz n E); reflexivity. Qed.
Lemma qsum_ext_eq {A} (f g : A -> Q) l : (forall x, f x == g x) -> qsum (map f l) == qsum (map g l).
Proof. intros H. induction l as [|x t IH]; [reflexivity|]. cbn [map qsum fold_right]. apply Qplus_comp; [apply H|exact IH]. Qed.

Theorem corr_window_count : forall (mid : nat) (R E : list Z) (s e : Z),
  in_range (S mid) R -> in_range (S mid) E ->
  let n := (2 * Z.of_nat mid + 1)%Z in
  qsum (py_slice s e (correlate_full (train R (S mid)) (train E (S mid)))) ==
  Beat.qnat (Beat.count_pairs (py_norm n s - Z.of_nat mid) (py_norm n e - 1 - Z.of_nat mid) (Beat.occupied R) (Beat.occupied E)).
Proof.
  intros mid R E s e HR HE n.
  unfold correlate_full. rewrite !train_length.
  replace (Z.of_nat (S mid + S mid - 1)) with n by (unfold n; lia).
  rewrite zrange_zfrom. replace (Z.to_nat (n - 0)) with (Z.to_nat n) by (f_equal; lia).
  replace n with (Z.of_nat (Z.to_nat n)) at 2 3 4 by (unfold n; lia).
  rewrite py_slice_map_range. replace (Z.of_nat (Z.to_nat n)) with n by (unfold n; lia).
  pose proof (py_norm_range n s ltac:(unfold n; lia)) as Hs. pose proof (py_norm_range n e ltac:(unfold n; lia)) as He.
  set (s' := py_norm n s) in *. set (e' := py_norm n e) in *.
  set (J := zfrom s' (Z.to_nat (e' - s'))).
  set (P1 := fun jn : Z * Z => memz (snd jn + fst jn - Z.of_nat mid) R && memz (snd jn) E).
  transitivity (qsum (map (fun j => qsum (map (fun k => b2q (P1 (j, k))) (zfrom 0 (S mid)))) J)).
  { apply qsum_ext_eq. intros j. unfold corr_at. rewrite train_length, zrange_zfrom.
    replace (Z.to_nat (Z.of_nat (S mid) - 0)) with (S mid) by lia.
    apply qsum_ext_eq. intros k. rewrite (nthq_train R (S mid)) by exact HR. rewrite (nthq_train E (S mid)) by exact HE.
    rewrite ind_mul. unfold P1. cbn [fst snd]. replace (Z.of_nat (S mid) - 1)%Z with (Z.of_nat mid) by lia. reflexivity. }
  rewrite qsum_count2. unfold Beat.count_pairs.
  set (P2 := fun ij : Z * Z => ((s' - Z.of_nat mid <=? fst ij - snd ij) && (fst ij - snd ij <=? e' - 1 - Z.of_nat mid))%Z).
  set (g := fun jn : Z * Z => ((snd jn + fst jn - Z.of_nat mid)%Z, snd jn)).
  assert (Permutation (map g (filter P1 (list_prod J (zfrom 0 (S mid))))) (filter P2 (list_prod (Beat.occupied R) (Beat.occupied E)))) as HP.
  { apply NoDup_Permutation.
    - apply Injective_map_NoDup.
      + intros [j k] [j' k'] Eq. unfold g in Eq. cbn [fst snd] in Eq. inversion Eq. f_equal; lia.
      + apply NoDup_filter, nodup_prod; apply ss_nodup, zfrom_sorted.
    - apply NoDup_filter, nodup_prod; apply ss_nodup, occupied_sorted.
    - intros [i k]. rewrite in_map_iff, filter_In, in_prod_iff, !occupied_In. unfold P2. cbn [fst snd].
      rewrite andb_true_iff, !Z.leb_le. split.
      + intros ([j k'] & Eg & Hin). unfold g in Eg. cbn [fst snd] in Eg. inversion Eg; subst. clear Eg.
        apply filter_In in Hin. destruct Hin as [Hin HP1]. apply in_prod_iff in Hin. destruct Hin as [Hj Hk].
        unfold J in Hj. apply zfrom_In in Hj. unfold P1 in HP1. cbn [fst snd] in HP1.
        apply andb_true_iff in HP1. destruct HP1 as [H1 H2]. apply memz_In in H1, H2.
        split; [tauto|]. lia.
      + intros [[Hi Hk] Hlag]. exists ((i - k + Z.of_nat mid)%Z, k). split.
        * unfold g. cbn [fst snd]. f_equal. lia.
        * apply filter_In. split.
          -- apply in_prod_iff. split.
             ++ unfold J. apply zfrom_In. lia.
             ++ apply zfrom_In. unfold in_range in HE. rewrite Forall_forall in HE. apply HE in Hk. lia.
          -- unfold P1. cbn [fst snd]. apply andb_true_iff. split; apply memz_In; [|exact Hk].
             replace (k + (i - k + Z.of_nat mid) - Z.of_nat mid)%Z with i by lia. exact Hi. }
  apply Permutation_length in HP. rewrite map_length in HP. rewrite HP. reflexivity.
Qed.
Print Assumptions corr_window_count.
