(* C14, validator level.  For every validator: the DOCUMENTED CONVENTION as a separate predicate (written from the
   docstrings, not from the code), `..._iff_convention : validate x = Ok tt <-> conv x = true` and
   `..._raises_ValueError : validate x = Raise e -> e = ValueError` (InvalidChord for chord labels).
   Part 1: the shape-level models of Model/Validators.v.  Part 2: the same statements about the list-level models of the
   other files (EventMetrics, Intervals, Transcription, SegmentCluster, Hierarchy, Multipitch, Melody, Key, ChordScore,
   Beat, Tempo, Pattern, Alignment, Separation), mostly by proving that they coincide with the shape-level model on
   well-shaped arrays.
   Where the documented equivalence is FALSE the `_refuted` witness and the corrected statement are proved:
     - util.validate_frequencies(allow_negatives=False) accepts negative frequencies        (frequencies_..._refuted)
     - multipitch.validate inherits it                                                       (multipitch_..._refuted)
     - hierarchy.validate_hier_intervals never looks at a single-level hierarchy             (hierarchy_..._refuted)
     - separation.validate raises numpy's AxisError, not ValueError, on a non-empty 1-d array (separation_..._refuted)
     - 0-d arrays are rejected with TypeError (len(): segment.validate_boundary, hierarchy.validate_hier_intervals) or IndexError
       (.shape[0]: melody.validate_voicing / validate, transcription.validate, transcription_velocity.validate), not ValueError
       (validate_boundary_0d_raises_TypeError, boundary_raises_ValueError_refuted, validate_hier_0d_raises_TypeError,
        hierarchy_raises_ValueError_refuted, notes_0d / velocities_0d / voicing_0d / melody_0d_raises_IndexError, *_raise_kind) *)
From Coq Require Import List Bool Arith ZArith QArith Qabs Qminmax Lia Lqa Sorted.
From ME Require Import Model.Prelude Model.Regex Model.ChordParse Model.Validators Gen.ChordRe Gen.KeyTable.
From ME Require Import Proofs.RegexLang Proofs.ChordRegex.
From ME Require Model.EventMetrics Model.Intervals Model.Transcription Model.SegmentCluster Model.Hierarchy Model.Multipitch
  Model.Melody Model.Key Model.ChordScore Model.Beat Model.Tempo Model.Pattern Model.Alignment Model.Separation.
Import ListNotations.
Open Scope Q_scope.

(* ------------------------------------------------------------------------------------------------------------ *)
(* generic facts                                                                                                 *)
(* ------------------------------------------------------------------------------------------------------------ *)
Lemma existsb_forallb {A} (p : A -> bool) l : existsb p l = negb (forallb (fun x => negb (p x)) l).
Proof. induction l as [|x l IH]; cbn; [reflexivity|]. rewrite IH. destruct (p x); reflexivity. Qed.
Lemma forallb_ext' {A} (p q : A -> bool) l : (forall x, p x = q x) -> forallb p l = forallb q l.
Proof. intros H. induction l as [|x l IH]; cbn; [reflexivity|]. rewrite H, IH. reflexivity. Qed.
Lemma existsb_ext' {A} (p q : A -> bool) l : (forall x, p x = q x) -> existsb p l = existsb q l.
Proof. intros H. induction l as [|x l IH]; cbn; [reflexivity|]. rewrite H, IH. reflexivity. Qed.
Lemma qltb_negb a b : qltb a b = negb (qleb b a). Proof. reflexivity. Qed.
Lemma qleb_negb a b : qleb a b = negb (qltb b a). Proof. unfold qltb, qleb. rewrite negb_involutive. reflexivity. Qed.
Lemma qleb_iff a b : qleb a b = true <-> a <= b. Proof. apply Qle_bool_iff. Qed.
Lemma qltb_iff a b : qltb a b = true <-> a < b.
Proof.
  unfold qltb. rewrite negb_true_iff. split; intros H.
  - apply Qnot_le_lt. intros L. apply Qle_bool_iff in L. congruence.
  - destruct (Qle_bool b a) eqn:E; [|reflexivity]. apply Qle_bool_iff in E. lra.
Qed.
Lemma bind_ok {A} (r : res unit) (k : unit -> res A) v : (x <- r ;; k x) = Ok v <-> r = Ok tt /\ k tt = Ok v.
Proof. destruct r as [[]|e]; cbn; split; [auto|tauto|discriminate|intros [H _]; discriminate]. Qed.
Lemma bind_raise {A} (r : res unit) (k : unit -> res A) e :
  (x <- r ;; k x) = Raise e -> r = Raise e \/ (r = Ok tt /\ k tt = Raise e).
Proof. destruct r as [[]|e']; cbn; intros H; [right; auto|left; congruence]. Qed.
Lemma ite_ok (b : bool) (k : res unit) : (if b then Raise ValueError else k) = Ok tt <-> b = false /\ k = Ok tt.
Proof. destruct b; split; [discriminate|intros [H _]; discriminate|auto|tauto]. Qed.
Lemma ite_raise (b : bool) (k : res unit) e :
  (if b then Raise ValueError else k) = Raise e -> e = ValueError \/ k = Raise e.
Proof. destruct b; intros H; [left; congruence|right; exact H]. Qed.
Definition only_VE (r : res unit) : Prop := forall e, r = Raise e -> e = ValueError.
Lemma only_VE_ok : only_VE (Ok tt). Proof. intros e H; discriminate. Qed.
Lemma only_VE_raise : only_VE (Raise ValueError). Proof. intros e H; congruence. Qed.
Lemma only_VE_ite (b : bool) k : only_VE k -> only_VE (if b then Raise ValueError else k).
Proof. intros H. destruct b; [apply only_VE_raise|exact H]. Qed.
Lemma only_VE_bind (r : res unit) (k : unit -> res unit) : only_VE r -> only_VE (k tt) -> only_VE (x <- r ;; k x).
Proof. intros Hr Hk e H. destruct r as [[]|e']; cbn in H; [apply Hk; exact H|apply Hr; exact H]. Qed.
Lemma unit_res_cases (r : res unit) : only_VE r -> r = Ok tt \/ r = Raise ValueError.
Proof. intros H. destruct r as [[]|e]; [left; reflexivity|right; rewrite (H e eq_refl); reflexivity]. Qed.

Lemma rows2_flat2 ivs : rows2 (flat2 ivs) = ivs.
Proof. induction ivs as [|[a b] t IH]; cbn; [reflexivity|]. unfold flat2 in IH. rewrite IH. reflexivity. Qed.
Lemma existsb_flat2 (p : Q -> bool) ivs : existsb p (flat2 ivs) = existsb (fun iv => p (fst iv) || p (snd iv)) ivs.
Proof. induction ivs as [|[a b] t IH]; cbn; [reflexivity|]. unfold flat2 in IH. rewrite IH. rewrite orb_assoc. reflexivity. Qed.
Lemma forallb_flat2 (p : Q -> bool) ivs : forallb p (flat2 ivs) = forallb (fun iv => p (fst iv) && p (snd iv)) ivs.
Proof. induction ivs as [|[a b] t IH]; cbn; [reflexivity|]. unfold flat2 in IH. rewrite IH. rewrite andb_assoc. reflexivity. Qed.

(* ------------------------------------------------------------------------------------------------------------ *)
(* 1. util.validate_events                                                                                       *)
(*    docstring: 'Check that a 1-d event location ndarray is well-formed'; 'If an event is found above [max_time], *)
(*    a ValueError will be raised'; 'Events should be in increasing order' (equal neighbours are accepted).        *)
(* ------------------------------------------------------------------------------------------------------------ *)
Definition conv_events (max_time : Q) (a : arr) : bool :=
  (ndim a =? 1)%nat && forallb (fun t => qleb t max_time) (data a) && nondecreasing (data a).

Theorem events_iff_convention : forall mx a, validate_events_arr mx a = Ok tt <-> conv_events mx a = true.
Proof.
  intros mx a. unfold validate_events_arr, conv_events. rewrite existsb_forallb.
  rewrite (forallb_ext' (fun x => negb (qltb mx x)) (fun t => qleb t mx)) by (intros x; symmetry; apply qleb_negb).
  destruct (forallb _ (data a)), (ndim a =? 1)%nat, (nondecreasing (data a)); cbn; split; congruence.
Qed.
Theorem events_raises_ValueError : forall mx a e, validate_events_arr mx a = Raise e -> e = ValueError.
Proof. intros mx a. unfold validate_events_arr. repeat apply only_VE_ite. apply only_VE_ok. Qed.

(* the order convention as a statement about the list *)
Lemma nondecreasing_Sorted l : nondecreasing l = true <-> Sorted Qle l.
Proof.
  induction l as [|a [|b t] IH].
  - split; [constructor|reflexivity].
  - split; [repeat constructor|reflexivity].
  - change (nondecreasing (a :: b :: t)) with (qleb a b && nondecreasing (b :: t)). rewrite andb_true_iff, IH, qleb_iff.
    split.
    + intros [H1 H2]. constructor; [exact H2|constructor; exact H1].
    + intros H. inversion H as [|x y Hs Hh]; subst. inversion Hh; subst. auto.
Qed.
(* single-fault consequences: each conjunct of the convention violated alone raises ValueError *)
Corollary events_2d_rejected : forall mx a, ndim a <> 1%nat -> validate_events_arr mx a = Raise ValueError.
Proof.
  intros mx a H. destruct (unit_res_cases _ (events_raises_ValueError mx a)) as [E|E]; [|exact E].
  apply events_iff_convention in E. unfold conv_events in E. apply Nat.eqb_neq in H. rewrite H in E. discriminate.
Qed.
Corollary events_too_large_rejected : forall mx a t, In t (data a) -> mx < t -> validate_events_arr mx a = Raise ValueError.
Proof.
  intros mx a t Hin Hlt. destruct (unit_res_cases _ (events_raises_ValueError mx a)) as [E|E]; [|exact E].
  apply events_iff_convention in E. unfold conv_events in E. rewrite !andb_true_iff in E. destruct E as [[_ E] _].
  rewrite forallb_forall in E. specialize (E t Hin). apply qleb_iff in E. lra.
Qed.
Corollary events_unsorted_rejected : forall mx a, ~ Sorted Qle (data a) -> validate_events_arr mx a = Raise ValueError.
Proof.
  intros mx a H. destruct (unit_res_cases _ (events_raises_ValueError mx a)) as [E|E]; [|exact E].
  apply events_iff_convention in E. unfold conv_events in E. rewrite !andb_true_iff in E. destruct E as [_ E].
  apply nondecreasing_Sorted in E. contradiction.
Qed.
Example events_degenerate_accepted :
  forallb (fun a => match validate_events_arr 30000 a with Ok _ => true | _ => false end)
          [arr1 []; arr1 [2]; arr1 [1; 1; 2]; arr1 [2; 2; 2]; arr1 [0; 30000]] = true.
Proof. vm_compute. reflexivity. Qed.

(* ------------------------------------------------------------------------------------------------------------ *)
(* 2. util.validate_intervals                                                                                    *)
(*    docstring: 'Check that an (n, 2) interval ndarray is well-formed'; messages 'Negative interval times found', *)
(*    'All interval durations must be strictly positive'.                                                          *)
(* ------------------------------------------------------------------------------------------------------------ *)
Definition conv_intervals (a : arr) : bool :=
  is_n_by_2 a && forallb (fun x => qleb 0 x) (data a) && forallb (fun iv => qltb (fst iv) (snd iv)) (rows a).

Theorem intervals_iff_convention : forall a, validate_intervals_arr a = Ok tt <-> conv_intervals a = true.
Proof.
  intros a. unfold validate_intervals_arr, conv_intervals. rewrite !existsb_forallb.
  rewrite (forallb_ext' (fun x => negb (qltb x 0)) (fun x => qleb 0 x)) by (intros x; symmetry; apply qleb_negb).
  rewrite (forallb_ext' (fun iv => negb (qleb (snd iv) (fst iv))) (fun iv => qltb (fst iv) (snd iv))) by reflexivity.
  destruct (is_n_by_2 a), (forallb _ (data a)), (forallb _ (rows a)); cbn; split; congruence.
Qed.
Theorem intervals_raises_ValueError : forall a e, validate_intervals_arr a = Raise e -> e = ValueError.
Proof. intros a. unfold validate_intervals_arr. repeat apply only_VE_ite. apply only_VE_ok. Qed.
Corollary intervals_not_n_by_2_rejected : forall a, is_n_by_2 a = false -> validate_intervals_arr a = Raise ValueError.
Proof. intros a H. unfold validate_intervals_arr. rewrite H. reflexivity. Qed.
Example intervals_shape_faults :
  map (fun a => tag (validate_intervals_arr a))
      [mkarr 2 [1; 3]%nat [0; 1; 2]; mkarr 1 [2]%nat [0; 1]; mkarr 3 [1; 1; 2]%nat [0; 1]; mkarr 2 [2; 1]%nat [0; 1];
       arr2 [(0, 1); (1, 1)]; arr2 [(-1, 1)]; arr2 [(2, 1)]; arr2 []; arr2 [(0, 1); (0, 1)]]
  = [1; 1; 1; 1; 1; 1; 1; 0; 0]%nat.
Proof. vm_compute. reflexivity. Qed.

(* the convention on rows *)
Definition conv_ivs (ivs : list (Q * Q)) : bool :=
  forallb (fun iv => qleb 0 (fst iv) && qleb 0 (snd iv)) ivs && forallb (fun iv => qltb (fst iv) (snd iv)) ivs.
Lemma is_n_by_2_arr2 ivs : is_n_by_2 (arr2 ivs) = true. Proof. reflexivity. Qed.
Lemma rows_arr2 ivs : rows (arr2 ivs) = ivs. Proof. apply rows2_flat2. Qed.
Lemma conv_intervals_arr2 ivs : conv_intervals (arr2 ivs) = conv_ivs ivs.
Proof. unfold conv_intervals, conv_ivs. rewrite is_n_by_2_arr2, rows_arr2. cbn [data arr2]. rewrite forallb_flat2. reflexivity. Qed.
Lemma conv_ivs_spec ivs : conv_ivs ivs = true <-> Forall (fun iv => 0 <= fst iv /\ fst iv < snd iv) ivs.
Proof.
  unfold conv_ivs. rewrite andb_true_iff, !forallb_forall, Forall_forall. split.
  - intros [H1 H2] iv Hin. specialize (H1 iv Hin). specialize (H2 iv Hin). apply andb_true_iff in H1. destruct H1 as [H1 _].
    apply qleb_iff in H1. apply qltb_iff in H2. auto.
  - intros H. split; intros iv Hin; destruct (H iv Hin) as [H1 H2].
    + apply andb_true_iff. split; apply qleb_iff; lra.
    + apply qltb_iff. exact H2.
Qed.

(* ------------------------------------------------------------------------------------------------------------ *)
(* 3. util.validate_frequencies                                                                                  *)
(*    docstring: '1-d frequency ndarray'; 'If a frequency is found above [max_freq] ... / below [min_freq], a      *)
(*    ValueError will be raised'; 'allow_negatives: Whether or not to allow negative frequency values'.            *)
(*    Documented convention: without allow_negatives every value lies in [min_freq, max_freq]; with it, |f| does.  *)
(* ------------------------------------------------------------------------------------------------------------ *)
Definition conv_frequencies (mx mn : Q) (allow_negatives : bool) (a : arr) : bool :=
  (ndim a =? 1)%nat &&
  forallb (fun f => let g := if allow_negatives then Qabs f else f in qleb mn g && qleb g mx) (data a).
(* what the code checks: the magnitude, whatever the flag *)
Definition conv_frequencies_abs (mx mn : Q) (a : arr) : bool :=
  (ndim a =? 1)%nat && forallb (fun f => qleb mn (Qabs f) && qleb (Qabs f) mx) (data a).

Lemma Qabs_Qabs x : Qabs (Qabs x) == Qabs x. Proof. apply Qabs_pos. apply Qabs_nonneg. Qed.
Lemma qleb_compat a b c d : a == c -> b == d -> qleb a b = qleb c d.
Proof.
  intros H1 H2. unfold qleb. destruct (Qle_bool a b) eqn:E1, (Qle_bool c d) eqn:E2; try reflexivity.
  - apply Qle_bool_iff in E1. assert (c <= d) by lra. apply Qle_bool_iff in H. congruence.
  - apply Qle_bool_iff in E2. assert (a <= b) by lra. apply Qle_bool_iff in H. congruence.
Qed.
Lemma freq_checks_abs mx mn (allow : bool) l :
  let f := if allow then map Qabs l else l in
  negb (existsb (fun x => qltb mx (Qabs x)) f) && negb (existsb (fun x => qltb (Qabs x) mn) f)
  = forallb (fun f => qleb mn (Qabs f) && qleb (Qabs f) mx) l.
Proof.
  cbn zeta. rewrite !existsb_forallb, !negb_involutive. destruct allow.
  - induction l as [|x t IH]; cbn; [reflexivity|].
    rewrite (qleb_compat mn (Qabs x) mn (Qabs (Qabs x))), (qleb_compat (Qabs x) mx (Qabs (Qabs x)) mx)
      by (try reflexivity; symmetry; apply Qabs_Qabs).
    rewrite <- IH. unfold qltb, qleb. rewrite !negb_involutive.
    destruct (Qle_bool (Qabs (Qabs x)) mx), (Qle_bool mn (Qabs (Qabs x))), (forallb _ (map Qabs t)), (forallb _ (map Qabs t));
      reflexivity.
  - induction l as [|x t IH]; cbn; [reflexivity|]. rewrite <- IH. unfold qltb, qleb. rewrite !negb_involutive.
    destruct (Qle_bool (Qabs x) mx), (Qle_bool mn (Qabs x)), (forallb (fun x0 => negb (negb (Qle_bool (Qabs x0) mx))) t),
      (forallb (fun x0 => negb (negb (Qle_bool mn (Qabs x0)))) t); reflexivity.
Qed.

(* corrected statement: the validator is exactly the magnitude convention *)
Theorem frequencies_iff_magnitude_convention : forall mx mn allow a,
  validate_frequencies_arr mx mn allow a = Ok tt <-> conv_frequencies_abs mx mn a = true.
Proof.
  intros mx mn allow a. unfold validate_frequencies_arr, conv_frequencies_abs.
  rewrite <- (freq_checks_abs mx mn allow (data a)). cbn zeta.
  destruct (existsb (fun x => qltb mx (Qabs x)) _), (existsb (fun x => qltb (Qabs x) mn) _), (ndim a =? 1)%nat;
    cbn; split; congruence.
Qed.
Theorem frequencies_raises_ValueError : forall mx mn allow a e, validate_frequencies_arr mx mn allow a = Raise e -> e = ValueError.
Proof. intros mx mn allow a. unfold validate_frequencies_arr. cbn zeta. repeat apply only_VE_ite. apply only_VE_ok. Qed.
(* with allow_negatives=True the documented convention IS the magnitude convention *)
Theorem frequencies_iff_convention_allow : forall mx mn a,
  validate_frequencies_arr mx mn true a = Ok tt <-> conv_frequencies mx mn true a = true.
Proof. intros. rewrite frequencies_iff_magnitude_convention. reflexivity. Qed.
(* the documented equivalence for allow_negatives=False is false: -100 Hz passes a [20, 5000] check *)
Theorem frequencies_iff_convention_refuted : exists mx mn a,
  validate_frequencies_arr mx mn false a = Ok tt /\ conv_frequencies mx mn false a = false.
Proof. exists 5000, 20, (arr1 [-100]). split; vm_compute; reflexivity. Qed.
(* what does hold without the flag: valid input is accepted; on non-negative data the equivalence holds *)
Theorem frequencies_convention_accepted : forall mx mn a, 0 <= mn ->
  conv_frequencies mx mn false a = true -> validate_frequencies_arr mx mn false a = Ok tt.
Proof.
  intros mx mn a Hmn H. apply frequencies_iff_magnitude_convention. unfold conv_frequencies in H. unfold conv_frequencies_abs.
  apply andb_true_iff in H. destruct H as [H1 H2]. rewrite H1. cbn. rewrite forallb_forall in *. intros f Hin.
  specialize (H2 f Hin). cbn zeta in H2. apply andb_true_iff in H2. destruct H2 as [Ha Hb]. apply qleb_iff in Ha, Hb.
  assert (E : Qabs f == f) by (apply Qabs_pos; lra).
  rewrite (qleb_compat mn (Qabs f) mn f), (qleb_compat (Qabs f) mx f mx) by (try reflexivity; exact E).
  apply andb_true_iff. split; apply qleb_iff; assumption.
Qed.
Theorem frequencies_iff_convention_nonneg : forall mx mn a, Forall (fun f => 0 <= f) (data a) ->
  (validate_frequencies_arr mx mn false a = Ok tt <-> conv_frequencies mx mn false a = true).
Proof.
  intros mx mn a Hpos. rewrite frequencies_iff_magnitude_convention. unfold conv_frequencies, conv_frequencies_abs.
  assert (E : forallb (fun f => qleb mn (Qabs f) && qleb (Qabs f) mx) (data a)
              = forallb (fun f => let g := f in qleb mn g && qleb g mx) (data a)).
  { induction (data a) as [|x t IH]; cbn; [reflexivity|]. inversion Hpos; subst. rewrite IH by assumption.
    assert (Ex : Qabs x == x) by (apply Qabs_pos; assumption).
    rewrite (qleb_compat mn (Qabs x) mn x), (qleb_compat (Qabs x) mx x mx) by (try reflexivity; exact Ex). reflexivity. }
  rewrite E. reflexivity.
Qed.
Example frequencies_faults :
  map (fun a => tag (validate_frequencies_arr 5000 20 false a))
      [arr1 []; arr1 [20; 5000]; arr1 [5000 + (1#64)]; arr1 [20 - (1#64)]; arr1 [0]; arr1 [-440]; arr1 [-6000];
       mkarr 2 [1; 2]%nat [440; 220]]
  = [0; 0; 1; 1; 1; 0; 1; 1]%nat.
Proof. vm_compute. reflexivity. Qed.

(* ------------------------------------------------------------------------------------------------------------ *)
(* 4. chord.validate (label lists) and chord.validate_chord_label                                                *)
(*    docstring: 'reference_labels : list, len=n ... estimated_labels : list, len=n'; 'valid chord labels'         *)
(*    = the documented Harte syntax (Proofs/ChordRegex.v: validate_label s = Ok tt <-> lang harte s).               *)
(* ------------------------------------------------------------------------------------------------------------ *)
Definition conv_chord_labels (r e : list str) : Prop :=
  length r = length e /\ Forall (lang harte) r /\ Forall (lang harte) e.

Lemma validate_labels_ok l : validate_labels l = Ok tt <-> Forall (lang harte) l.
Proof.
  induction l as [|s t IH]; cbn; [split; [constructor|reflexivity]|].
  rewrite bind_ok, IH, validate_label_iff_harte. split; [intros [A B]; constructor; assumption|intros H; inversion H; auto].
Qed.
Lemma validate_labels_raise l e : validate_labels l = Raise e -> e = InvalidChord /\ Exists (fun s => ~ lang harte s) l.
Proof.
  induction l as [|s t IH]; cbn; [discriminate|]. intros H. apply bind_raise in H. destruct H as [H|[Hs H]].
  - destruct (validate_label_total s) as [E|E]; rewrite E in H; [discriminate|]. split; [congruence|].
    constructor. intros L. apply validate_label_iff_harte in L. congruence.
  - destruct (IH H) as [A B]. split; [exact A|right; exact B].
Qed.
Theorem chord_labels_iff_convention : forall r e, chord_validate r e = Ok tt <-> conv_chord_labels r e.
Proof.
  intros r e. unfold chord_validate, conv_chord_labels. destruct (length r =? length e)%nat eqn:E; cbn.
  - apply Nat.eqb_eq in E. rewrite bind_ok, !validate_labels_ok. tauto.
  - apply Nat.eqb_neq in E. split; [discriminate|tauto].
Qed.
(* unequal lengths -> ValueError (checked first); otherwise the first malformed label -> InvalidChordException *)
Theorem chord_labels_raise_kind : forall r e x, chord_validate r e = Raise x ->
  (x = ValueError /\ length r <> length e) \/
  (x = InvalidChord /\ length r = length e /\ Exists (fun s => ~ lang harte s) (r ++ e)).
Proof.
  intros r e x. unfold chord_validate. destruct (length r =? length e)%nat eqn:E; cbn; intros H.
  - right. apply Nat.eqb_eq in E. apply bind_raise in H. destruct H as [H|[_ H]]; apply validate_labels_raise in H;
      destruct H as [A B]; (split; [exact A|split; [exact E|apply Exists_app; auto]]).
  - left. apply Nat.eqb_neq in E. split; congruence.
Qed.
Theorem chord_label_raises_InvalidChord : forall s e, validate_label s = Raise e -> e = InvalidChord.
Proof. intros s e H. destruct (validate_label_total s) as [E|E]; rewrite E in H; congruence. Qed.
Example chord_labels_faults :
  map (fun p => tag (chord_validate (fst p) (snd p)))
      [([], []); ([[67]], [[71]]); ([[67]; [67]], [[67]]); ([[72]], []); ([[72]], [[67]]); ([[67]], [[67; 58]])]%nat
  = [0; 0; 1; 1; 2; 2]%nat.
Proof. vm_compute. reflexivity. Qed.

(* ------------------------------------------------------------------------------------------------------------ *)
(* 5. the chord-interval checks of directional_hamming_distance / overseg / underseg / seg                        *)
(*    docstring: both arguments 'np.ndarray, shape=(n, 2)' chord intervals; 'Chord Intervals must not overlap'.     *)
(* ------------------------------------------------------------------------------------------------------------ *)
Fixpoint non_overlapping (ivs : list (Q * Q)) : bool :=
  match ivs with a :: ((b :: _) as t) => qleb (snd a) (fst b) && non_overlapping t | _ => true end.
Definition conv_chord_intervals (ref est : arr) : bool :=
  conv_intervals est && conv_intervals ref && non_overlapping (rows ref).
Lemma overlaps_non_overlapping ivs : overlaps ivs = negb (non_overlapping ivs).
Proof.
  induction ivs as [|a [|b t] IH]; try reflexivity.
  change (overlaps (a :: b :: t)) with (qltb (fst b) (snd a) || overlaps (b :: t)).
  change (non_overlapping (a :: b :: t)) with (qleb (snd a) (fst b) && non_overlapping (b :: t)).
  rewrite IH, negb_andb. reflexivity.
Qed.
Theorem chord_intervals_iff_convention : forall ref est, dhd_checks ref est = Ok tt <-> conv_chord_intervals ref est = true.
Proof.
  intros ref est. unfold dhd_checks, conv_chord_intervals. rewrite !bind_ok, !intervals_iff_convention, overlaps_non_overlapping.
  destruct (conv_intervals est), (conv_intervals ref), (non_overlapping (rows ref)); cbn; split; intuition congruence.
Qed.
Theorem chord_intervals_raises_ValueError : forall ref est e, dhd_checks ref est = Raise e -> e = ValueError.
Proof.
  intros ref est. unfold dhd_checks. apply only_VE_bind; [exact (intervals_raises_ValueError est)|].
  apply only_VE_bind; [exact (intervals_raises_ValueError ref)|]. apply only_VE_ite, only_VE_ok.
Qed.
(* seg checks both directions: both annotations must be non-overlapping *)
Theorem chord_seg_iff_convention : forall ref est,
  seg_checks ref est = Ok tt <-> conv_chord_intervals ref est = true /\ conv_chord_intervals est ref = true.
Proof. intros. unfold seg_checks. rewrite bind_ok, !chord_intervals_iff_convention. tauto. Qed.
Theorem chord_seg_raises_ValueError : forall ref est e, seg_checks ref est = Raise e -> e = ValueError.
Proof. intros ref est. unfold seg_checks. apply only_VE_bind; [exact (chord_intervals_raises_ValueError est ref)|exact (chord_intervals_raises_ValueError ref est)]. Qed.
(* directional: overseg(ref, est) alone never looks for overlaps in the ESTIMATE (only seg / underseg do) *)
Example overseg_ignores_estimate_overlap :
  overseg_checks (arr2 [(0, 2); (2, 4)]) (arr2 [(0, 3); (2, 4)]) = Ok tt /\
  underseg_checks (arr2 [(0, 2); (2, 4)]) (arr2 [(0, 3); (2, 4)]) = Raise ValueError.
Proof. split; vm_compute; reflexivity. Qed.
(* the whole function: the only other exception is the IndexError of an empty reference *)
Theorem dhd_outcome_kind : forall ref est e, dhd_outcome ref est = Raise e -> e = ValueError \/ (e = IndexError /\ rows ref = []).
Proof.
  intros ref est e. unfold dhd_outcome. intros H. apply bind_raise in H. destruct H as [H|[_ H]].
  - left. eapply chord_intervals_raises_ValueError; eassumption.
  - right. destruct (rows ref); [split; [congruence|reflexivity]|discriminate].
Qed.

(* ------------------------------------------------------------------------------------------------------------ *)
(* 6. beat.validate / onset.validate;  7. segment.validate_boundary                                               *)
(* ------------------------------------------------------------------------------------------------------------ *)
Definition conv_event_pair (ref est : arr) : bool := conv_events EV_MAX_TIME ref && conv_events EV_MAX_TIME est.
Theorem event_pair_iff_convention : forall ref est, events_validate_arr ref est = Ok tt <-> conv_event_pair ref est = true.
Proof. intros. unfold events_validate_arr, conv_event_pair. rewrite bind_ok, !events_iff_convention, andb_true_iff. tauto. Qed.
Theorem event_pair_raises_ValueError : forall ref est e, events_validate_arr ref est = Raise e -> e = ValueError.
Proof. intros ref est. unfold events_validate_arr. apply only_VE_bind; [exact (events_raises_ValueError _ ref)|exact (events_raises_ValueError _ est)]. Qed.

(* len(a) / a.shape[0] of a sized array; an n-by-2 array is sized *)
Lemma arr_len_sized a : shape a <> [] -> arr_len a = Ok (shape0 a).
Proof. unfold arr_len, shape0. destruct (shape a); [congruence|reflexivity]. Qed.
Lemma arr_len_0d a : shape a = [] -> arr_len a = Raise TypeError.
Proof. unfold arr_len. now intros ->. Qed.
Lemma arr_shape0_sized a : shape a <> [] -> arr_shape0 a = Ok (shape0 a).
Proof. unfold arr_shape0, shape0. destruct (shape a); [congruence|reflexivity]. Qed.
Lemma arr_shape0_0d a : shape a = [] -> arr_shape0 a = Raise IndexError.
Proof. unfold arr_shape0. now intros ->. Qed.
Lemma n_by_2_sized a : is_n_by_2 a = true -> shape a <> [].
Proof. unfold is_n_by_2. intros H E. rewrite E in H. cbn in H. now rewrite andb_false_r in H. Qed.
Lemma conv_intervals_sized a : conv_intervals a = true -> shape a <> [].
Proof. unfold conv_intervals. rewrite !andb_true_iff. intros [[H _] _]. now apply n_by_2_sized. Qed.
Lemma validate_intervals_0d a : shape a = [] -> validate_intervals_arr a = Raise ValueError.
Proof. intros E. apply intervals_not_n_by_2_rejected. destruct (is_n_by_2 a) eqn:H; [|reflexivity]. now apply n_by_2_sized in H. Qed.

(* transcription.validate_intervals (no len()): ValueError only *)
Theorem pair_iff_convention : forall ref est, validate_pair_arr ref est = Ok tt <-> conv_intervals ref && conv_intervals est = true.
Proof. intros. unfold validate_pair_arr. rewrite bind_ok, !intervals_iff_convention, andb_true_iff. tauto. Qed.
Theorem pair_raises_ValueError : forall ref est e, validate_pair_arr ref est = Raise e -> e = ValueError.
Proof. intros ref est. unfold validate_pair_arr. apply only_VE_bind; [exact (intervals_raises_ValueError ref)|exact (intervals_raises_ValueError est)]. Qed.
Lemma boundary_sized ref est : shape ref <> [] -> shape est <> [] -> validate_boundary_arr ref est = validate_pair_arr ref est.
Proof. intros Hr He. unfold validate_boundary_arr. now rewrite (arr_len_sized _ Hr), (arr_len_sized _ He). Qed.

Definition conv_boundary (ref est : arr) : bool := conv_intervals ref && conv_intervals est.
Theorem boundary_iff_convention : forall ref est, validate_boundary_arr ref est = Ok tt <-> conv_boundary ref est = true.
Proof.
  intros. unfold conv_boundary. rewrite <- pair_iff_convention. unfold validate_boundary_arr, arr_len.
  destruct (shape ref) eqn:Er; cbn [bind].
  - split; [discriminate|]. unfold validate_pair_arr. now rewrite (validate_intervals_0d ref Er).
  - destruct (shape est) eqn:Ee; cbn [bind]; [|tauto].
    split; [discriminate|]. unfold validate_pair_arr. rewrite (validate_intervals_0d est Ee). destruct (validate_intervals_arr ref) as [[]|]; discriminate.
Qed.
(* segment.validate_boundary takes len() of both arrays before validating them: on a 0-d array (which the convention
   excludes) the exception is TypeError, not ValueError; on sized arrays every rejection is a ValueError *)
Theorem boundary_raises_ValueError : forall ref est e, shape ref <> [] -> shape est <> [] ->
  validate_boundary_arr ref est = Raise e -> e = ValueError.
Proof. intros ref est e Hr He. rewrite (boundary_sized _ _ Hr He). apply pair_raises_ValueError. Qed.
Theorem boundary_raise_kind : forall ref est e, validate_boundary_arr ref est = Raise e ->
  e = ValueError \/ (e = TypeError /\ (shape ref = [] \/ shape est = [])).
Proof.
  intros ref est e. unfold validate_boundary_arr, arr_len.
  destruct (shape ref); cbn [bind]; [intros [= <-]; right; auto|].
  destruct (shape est); cbn [bind]; [intros [= <-]; right; auto|]. intros H. left. eapply pair_raises_ValueError; eassumption.
Qed.
Theorem validate_boundary_0d_raises_TypeError : forall ref est, shape ref = [] \/ shape est = [] ->
  validate_boundary_arr ref est = Raise TypeError.
Proof.
  intros ref est H. unfold validate_boundary_arr, arr_len. destruct (shape ref); [reflexivity|]. destruct H as [H|H]; [discriminate|].
  now rewrite H.
Qed.
(* witness: segment.validate_boundary(np.array(3.0), np.array([[0., 1.]]), False) raises TypeError: len() of unsized object;
   the 0-d array is malformed input, and it is NOT rejected with ValueError *)
Theorem boundary_raises_ValueError_refuted : exists ref est,
  wf_arr ref = true /\ wf_arr est = true /\ conv_intervals est = true /\ validate_boundary_arr ref est = Raise TypeError.
Proof. exists (mkarr 0 [] [3]), (arr2 [(0, 1)]). repeat split; vm_compute; reflexivity. Qed.

(* ------------------------------------------------------------------------------------------------------------ *)
(* 8. segment.validate_structure                                                                                  *)
(*    docstring: intervals shape=(n, 2) with labels shape=(n,); messages 'Number of intervals does not match       *)
(*    number of labels', 'Segment intervals do not start at 0', 'End times do not match' (closeness = np.allclose;   *)
(*    start / end are only compared for non-empty annotations).                                                     *)
(* ------------------------------------------------------------------------------------------------------------ *)
Definition starts_at_0 (a : arr) : bool := match qmin_list (data a) with Some m => allclose m 0 | None => true end.
Definition end_together (r e : arr) : bool :=
  match qmax_list (data r), qmax_list (data e) with Some a, Some b => allclose a b | _, _ => true end.
Definition conv_labeled (a : arr) (nlabels : nat) : bool := conv_intervals a && (shape0 a =? nlabels)%nat && starts_at_0 a.
Definition conv_segmentation (ri : arr) (nrl : nat) (ei : arr) (nel : nat) : bool :=
  conv_labeled ri nrl && conv_labeled ei nel && end_together ri ei.

Lemma validate_one_iff a n : validate_one_arr a n = Ok tt <-> conv_labeled a n = true.
Proof.
  unfold validate_one_arr, conv_labeled, starts_at_0. rewrite bind_ok, intervals_iff_convention.
  destruct (conv_intervals a), (shape0 a =? n)%nat, (qmin_list (data a)) as [m|]; cbn;
    try destruct (allclose m 0); split; intuition congruence.
Qed.
Lemma validate_one_VE a n : only_VE (validate_one_arr a n).
Proof.
  unfold validate_one_arr. apply only_VE_bind; [exact (intervals_raises_ValueError a)|]. apply only_VE_ite.
  destruct (qmin_list (data a)) as [m|]; [destruct (allclose m 0); [apply only_VE_ok|apply only_VE_raise]|apply only_VE_ok].
Qed.
Theorem segmentation_iff_convention : forall ri nrl ei nel,
  validate_structure_arr ri nrl ei nel = Ok tt <-> conv_segmentation ri nrl ei nel = true.
Proof.
  intros. unfold validate_structure_arr, conv_segmentation, end_together. rewrite !bind_ok, !validate_one_iff.
  destruct (conv_labeled ri nrl), (conv_labeled ei nel), (qmax_list (data ri)) as [x|], (qmax_list (data ei)) as [y|]; cbn;
    try destruct (allclose x y); split; intuition congruence.
Qed.
Theorem segmentation_raises_ValueError : forall ri nrl ei nel e, validate_structure_arr ri nrl ei nel = Raise e -> e = ValueError.
Proof.
  intros ri nrl ei nel. unfold validate_structure_arr. apply only_VE_bind; [apply validate_one_VE|].
  apply only_VE_bind; [apply validate_one_VE|].
  destruct (qmax_list (data ri)) as [x|], (qmax_list (data ei)) as [y|]; try apply only_VE_ok.
  destruct (allclose x y); [apply only_VE_ok|apply only_VE_raise].
Qed.
Example segmentation_faults :
  let S := fun ri (nrl : nat) ei (nel : nat) => tag (validate_structure_arr (arr2 ri) nrl (arr2 ei) nel) in
  [S [] 0%nat [] 0%nat; S [] 0%nat [(0, 4)] 1%nat; S [(0, 4)] 1%nat [(0, 2); (2, 4)] 2%nat;
   S [(0, 4)] 2%nat [(0, 4)] 1%nat; S [(1#2, 4)] 1%nat [(0, 4)] 1%nat; S [(0, 4)] 1%nat [(0, 5)] 1%nat;
   S [(0, 4)] 1%nat [(0, 2); (2, 2)] 2%nat; S [(0, 4)] 1%nat [(1, 5)] 1%nat]
  = [0; 0; 0; 1; 1; 1; 1; 1]%nat.
Proof. vm_compute. reflexivity. Qed.

(* ------------------------------------------------------------------------------------------------------------ *)
(* 9. hierarchy.validate_hier_intervals                                                                           *)
(*    docstring Raises: 'If any segmentation does not span the full duration of the top-level segmentation.         *)
(*    If any segmentation does not start at 0.'                                                                     *)
(* ------------------------------------------------------------------------------------------------------------ *)
(* what the code enforces: the top level is a sized array (len() is taken of it) and every DEEPER level is consistent with
   the top level *)
Definition sized (a : arr) : bool := match shape a with [] => false | _ => true end.
Lemma sized_iff a : sized a = true <-> shape a <> [].
Proof. unfold sized. destruct (shape a); split; congruence. Qed.
Definition conv_hierarchy (H : list arr) : bool :=
  match H with
  | [] => false
  | top :: rest => sized top && forallb (fun l => conv_segmentation top (shape0 top) l (shape0 l)) rest
  end.
(* the documented convention: EVERY level (the top one included) is a well-formed segmentation starting at 0, and all
   levels end with the top level *)
Definition conv_hierarchy_documented (H : list arr) : bool :=
  match H with
  | [] => false
  | top :: rest => conv_intervals top && starts_at_0 top &&
                   forallb (fun l => conv_intervals l && starts_at_0 l && end_together top l) rest
  end.
Lemma conv_segmentation_sized top n l m : conv_segmentation top n l m = true -> shape l <> [].
Proof. unfold conv_segmentation, conv_labeled. rewrite !andb_true_iff. intros [[_ [[H _] _]] _]. now apply conv_intervals_sized. Qed.
Lemma validate_levels_iff top rest :
  validate_levels_arr top rest = Ok tt <-> forallb (fun l => conv_segmentation top (shape0 top) l (shape0 l)) rest = true.
Proof.
  induction rest as [|l t IH]; cbn [validate_levels_arr forallb]; [tauto|]. rewrite andb_true_iff, <- IH.
  destruct (shape l) eqn:E.
  - rewrite (arr_len_0d l E). cbn [bind]. split; [discriminate|]. intros [H _]. apply conv_segmentation_sized in H. congruence.
  - assert (S : shape l <> []) by congruence. rewrite (arr_len_sized l S). cbn [bind]. rewrite bind_ok, segmentation_iff_convention. tauto.
Qed.
Theorem hierarchy_iff_convention : forall H, validate_hier_arr H = Ok tt <-> conv_hierarchy H = true.
Proof.
  intros [|top rest]; cbn [validate_hier_arr conv_hierarchy]; [split; discriminate|].
  rewrite andb_true_iff, <- validate_levels_iff. unfold arr_len, sized. destruct (shape top); cbn [bind]; [split; [discriminate|intros [? _]; discriminate]|tauto].
Qed.
(* kinds of rejection: ValueError; IndexError for an empty list; TypeError when some level is a 0-d array *)
Theorem hierarchy_raise_kind : forall H e, validate_hier_arr H = Raise e ->
  e = ValueError \/ (e = IndexError /\ H = []) \/ (e = TypeError /\ exists a, In a H /\ shape a = []).
Proof.
  intros [|top rest] e; cbn [validate_hier_arr]; intros Hr; [right; left; split; congruence|].
  unfold arr_len in Hr at 1. destruct (shape top) as [|n0 s0] eqn:Et; cbn [bind] in Hr.
  { injection Hr as <-. right; right. split; [reflexivity|]. exists top. split; [left; reflexivity|exact Et]. }
  clear Et. assert (G : e = ValueError \/ (e = TypeError /\ exists a, In a rest /\ shape a = [])).
  { revert Hr. induction rest as [|l t IH]; cbn [validate_levels_arr]; [discriminate|]. intros Hr.
    unfold arr_len in Hr at 1. destruct (shape l) as [|n1 s1] eqn:El; cbn [bind] in Hr.
    - injection Hr as <-. right. split; [reflexivity|]. exists l. split; [left; reflexivity|exact El].
    - apply bind_raise in Hr. destruct Hr as [Hr|[_ Hr]].
      + left. eapply segmentation_raises_ValueError; eassumption.
      + destruct (IH Hr) as [G|[G (a & Ia & Sa)]]; [left; exact G|right]. split; [exact G|]. exists a. split; [right; exact Ia|exact Sa]. }
  destruct G as [G|[G (a & Ia & Sa)]]; [left; exact G|right; right]. split; [exact G|]. exists a. split; [right; exact Ia|exact Sa].
Qed.
Theorem hierarchy_raises_ValueError_sized : forall H e, H <> [] -> Forall (fun a => shape a <> []) H ->
  validate_hier_arr H = Raise e -> e = ValueError.
Proof.
  intros H e Hn Hs Hr. apply hierarchy_raise_kind in Hr. destruct Hr as [Hr|[[_ Hr]|[_ (a & Ia & Sa)]]]; [exact Hr|congruence|].
  rewrite Forall_forall in Hs. now apply Hs in Ia.
Qed.
(* a single-level hierarchy is never examined beyond len() of its only level ... *)
Theorem hierarchy_single_level_not_validated : forall a, shape a <> [] -> validate_hier_arr [a] = Ok tt.
Proof. intros a Ha. cbn [validate_hier_arr]. rewrite (arr_len_sized _ Ha). reflexivity. Qed.
(* ... and a 0-d array anywhere in the list is rejected with TypeError (from len() in util.generate_labels), not ValueError,
   unless an earlier level was already rejected: hierarchy.validate_hier_intervals([np.array(3.0)]) raises
   TypeError: len() of unsized object *)
Theorem validate_hier_0d_raises_TypeError : forall top rest, shape top = [] -> validate_hier_arr (top :: rest) = Raise TypeError.
Proof. intros top rest E. cbn [validate_hier_arr]. now rewrite (arr_len_0d _ E). Qed.
Theorem validate_hier_level_0d_raises_TypeError : forall top l rest, shape top <> [] -> shape l = [] ->
  validate_hier_arr (top :: l :: rest) = Raise TypeError.
Proof. intros top l rest Ht El. cbn [validate_hier_arr validate_levels_arr]. now rewrite (arr_len_sized _ Ht), (arr_len_0d _ El). Qed.
Theorem hierarchy_raises_ValueError_refuted : exists H, Forall (fun a => wf_arr a = true) H /\ validate_hier_arr H = Raise TypeError.
Proof. exists [mkarr 0 [] [3]]. split; [repeat constructor|reflexivity]. Qed.
(* ... so the documented convention is NOT what is enforced: a one-level 'hierarchy' with a zero-duration segment that
   does not start at 0 (even one that is not n-by-2) passes *)
Theorem hierarchy_iff_documented_refuted : exists H,
  validate_hier_arr H = Ok tt /\ conv_hierarchy_documented H = false.
Proof. exists [arr2 [(1, 1)]]. split; vm_compute; reflexivity. Qed.
(* corrected statement: with at least two levels the validator implies the documented convention; the documented
   convention always implies acceptance *)
Lemma conv_labeled_self a : conv_labeled a (shape0 a) = conv_intervals a && starts_at_0 a.
Proof. unfold conv_labeled. rewrite Nat.eqb_refl, andb_true_r. reflexivity. Qed.
Theorem hierarchy_documented_accepted : forall H, conv_hierarchy_documented H = true -> validate_hier_arr H = Ok tt.
Proof.
  intros [|top rest]; cbn [conv_hierarchy_documented]; [discriminate|]. intros Hc. apply hierarchy_iff_convention. cbn [conv_hierarchy].
  rewrite !andb_true_iff in Hc. destruct Hc as [[Ht Hs] Hr]. rewrite andb_true_iff. split; [apply sized_iff, conv_intervals_sized, Ht|].
  rewrite forallb_forall in *. intros l Hin. specialize (Hr l Hin).
  rewrite !andb_true_iff in Hr. destruct Hr as [[Hl Hls] He]. unfold conv_segmentation. rewrite !conv_labeled_self, Ht, Hs, Hl, Hls, He.
  reflexivity.
Qed.
Theorem hierarchy_two_levels_iff_documented : forall top l rest,
  validate_hier_arr (top :: l :: rest) = Ok tt <-> conv_hierarchy_documented (top :: l :: rest) = true.
Proof.
  intros top l rest. split; [|apply hierarchy_documented_accepted]. intros Hv. apply hierarchy_iff_convention in Hv.
  cbn [conv_hierarchy] in Hv. rewrite andb_true_iff in Hv. destruct Hv as [_ Hv].
  cbn in Hv |- *. rewrite andb_true_iff in Hv. destruct Hv as [H1 H2]. unfold conv_segmentation in H1.
  rewrite !conv_labeled_self, !andb_true_iff in H1. destruct H1 as [[[Ht Hs] [Hl Hls]] He]. rewrite Ht, Hs, Hl, Hls, He. cbn.
  rewrite forallb_forall in *. intros x Hin. specialize (H2 x Hin). unfold conv_segmentation in H2.
  rewrite !conv_labeled_self, !andb_true_iff in H2. destruct H2 as [[_ [Hx Hxs]] Hxe]. rewrite Hx, Hxs, Hxe. reflexivity.
Qed.

(* ------------------------------------------------------------------------------------------------------------ *)
(* 10. multipitch.validate                                                                                        *)
(*    docstring: 'ref_time : np.ndarray reference time stamps in seconds; ref_freqs : list of np.ndarray reference   *)
(*    frequencies in Hz' (one array per time stamp); MAX_TIME, MAX_FREQ, MIN_FREQ module constants.                  *)
(* ------------------------------------------------------------------------------------------------------------ *)
Definition conv_multipitch_with (cf : arr -> bool) (rt : arr) (rf : list arr) (et : arr) (ef : list arr) : bool :=
  conv_events MP_MAX_TIME rt && conv_events MP_MAX_TIME et && (asize rt =? length rf)%nat && (asize et =? length ef)%nat
  && forallb cf rf && forallb cf ef.
Definition conv_multipitch := conv_multipitch_with (conv_frequencies MP_MAX_FREQ MP_MIN_FREQ false).        (* documented *)
Definition conv_multipitch_abs := conv_multipitch_with (conv_frequencies_abs MP_MAX_FREQ MP_MIN_FREQ).      (* enforced *)
Lemma all_freqs_iff fs : validate_all_freqs_arr fs = Ok tt <-> forallb (conv_frequencies_abs MP_MAX_FREQ MP_MIN_FREQ) fs = true.
Proof.
  induction fs as [|f t IH]; cbn; [tauto|]. rewrite bind_ok, IH, frequencies_iff_magnitude_convention, andb_true_iff. tauto.
Qed.
Lemma all_freqs_VE fs : only_VE (validate_all_freqs_arr fs).
Proof.
  induction fs as [|f t IH]; cbn; [apply only_VE_ok|]. apply only_VE_bind; [|exact IH]. intros e. apply frequencies_raises_ValueError.
Qed.
Theorem multipitch_iff_magnitude_convention : forall rt rf et ef,
  multipitch_validate_arr rt rf et ef = Ok tt <-> conv_multipitch_abs rt rf et ef = true.
Proof.
  intros. unfold multipitch_validate_arr, conv_multipitch_abs, conv_multipitch_with. rewrite !bind_ok, !events_iff_convention.
  destruct (conv_events MP_MAX_TIME rt) eqn:E1; [|cbn; split; intuition congruence].
  destruct (conv_events MP_MAX_TIME et) eqn:E2; [|cbn; split; intuition congruence].
  unfold conv_events in E1, E2. rewrite !andb_true_iff in E1, E2. destruct E1 as [[E1 _] _], E2 as [[E2 _] _]. rewrite E1, E2. cbn.
  destruct (asize rt =? length rf)%nat; [|cbn; split; intuition congruence].
  destruct (asize et =? length ef)%nat; [|cbn; split; intuition congruence]. cbn.
  rewrite bind_ok, !all_freqs_iff, andb_true_iff. tauto.
Qed.
Theorem multipitch_raises_ValueError : forall rt rf et ef e, multipitch_validate_arr rt rf et ef = Raise e -> e = ValueError.
Proof.
  intros rt rf et ef. unfold multipitch_validate_arr. apply only_VE_bind; [exact (events_raises_ValueError _ rt)|].
  apply only_VE_bind; [exact (events_raises_ValueError _ et)|]. repeat apply only_VE_ite. apply only_VE_bind; apply all_freqs_VE.
Qed.
(* the documented convention is not what is enforced: a negative reference frequency passes *)
Theorem multipitch_iff_convention_refuted : exists rt rf et ef,
  multipitch_validate_arr rt rf et ef = Ok tt /\ conv_multipitch rt rf et ef = false.
Proof. exists (arr1 [0]), [arr1 [-100]], (arr1 [0]), [arr1 [-200]]. split; vm_compute; reflexivity. Qed.
Lemma forallb_impl {A} (p q : A -> bool) l : (forall x, p x = true -> q x = true) -> forallb p l = true -> forallb q l = true.
Proof. intros H. rewrite !forallb_forall. intros Hp x Hin. apply H, Hp, Hin. Qed.
Theorem multipitch_convention_accepted : forall rt rf et ef,
  conv_multipitch rt rf et ef = true -> multipitch_validate_arr rt rf et ef = Ok tt.
Proof.
  intros rt rf et ef H. apply multipitch_iff_magnitude_convention. unfold conv_multipitch, conv_multipitch_abs, conv_multipitch_with in *.
  rewrite !andb_true_iff in *. destruct H as [[[[[A B] C] D] E] F].
  assert (I : forall a, conv_frequencies MP_MAX_FREQ MP_MIN_FREQ false a = true -> conv_frequencies_abs MP_MAX_FREQ MP_MIN_FREQ a = true).
  { intros a Ha. apply frequencies_iff_magnitude_convention with (allow := false). apply frequencies_convention_accepted; [|exact Ha].
    unfold MP_MIN_FREQ. lra. }
  repeat split; try assumption; eapply forallb_impl; eauto.
Qed.

(* ------------------------------------------------------------------------------------------------------------ *)
(* 11. transcription.validate / transcription_velocity.validate                                                   *)
(*    docstring: intervals shape=(n,2), pitches shape=(n,) 'in Hertz'; messages 'have different lengths',           *)
(*    'non-positive pitch value', velocities 'must have the same length', 'must be positive' (zero is accepted).     *)
(* ------------------------------------------------------------------------------------------------------------ *)
Definition conv_notes (ri : arr) (rp : list Q) (ei : arr) (ep : list Q) : bool :=
  conv_intervals ri && conv_intervals ei && (shape0 ri =? length rp)%nat && (shape0 ei =? length ep)%nat
  && forallb (fun p => qltb 0 p) rp && forallb (fun p => qltb 0 p) ep.
Theorem notes_iff_convention : forall ri rp ei ep, transcription_validate_arr ri rp ei ep = Ok tt <-> conv_notes ri rp ei ep = true.
Proof.
  intros. unfold transcription_validate_arr, conv_notes. rewrite !bind_ok, !intervals_iff_convention, !existsb_forallb.
  change (fun x : Q => negb (qleb x 0)) with (fun p : Q => qltb 0 p).
  destruct (conv_intervals ri), (conv_intervals ei), (shape0 ri =? length rp)%nat, (shape0 ei =? length ep)%nat,
    (forallb (fun p => qltb 0 p) rp), (forallb (fun p => qltb 0 p) ep); cbn; split; intuition congruence.
Qed.
Theorem notes_raises_ValueError : forall ri rp ei ep e, transcription_validate_arr ri rp ei ep = Raise e -> e = ValueError.
Proof.
  intros ri rp ei ep. unfold transcription_validate_arr. apply only_VE_bind; [exact (intervals_raises_ValueError ri)|].
  apply only_VE_bind; [exact (intervals_raises_ValueError ei)|]. repeat apply only_VE_ite. apply only_VE_ok.
Qed.
Definition conv_velocities (ri : arr) (rp rv : list Q) (ei : arr) (ep ev : list Q) : bool :=
  conv_notes ri rp ei ep && (length rv =? length rp)%nat && (length ev =? length ep)%nat
  && forallb (fun v => qleb 0 v) rv && forallb (fun v => qleb 0 v) ev.
Theorem velocities_iff_convention : forall ri rp rv ei ep ev,
  velocity_validate_arr ri rp rv ei ep ev = Ok tt <-> conv_velocities ri rp rv ei ep ev = true.
Proof.
  intros. unfold velocity_validate_arr, conv_velocities. rewrite bind_ok, notes_iff_convention, !existsb_forallb.
  rewrite !(forallb_ext' (fun x => negb (qltb x 0)) (fun v => qleb 0 v)) by (intros x; symmetry; apply qleb_negb).
  destruct (conv_notes ri rp ei ep), (length rv =? length rp)%nat, (length ev =? length ep)%nat,
    (forallb (fun v => qleb 0 v) rv), (forallb (fun v => qleb 0 v) ev); cbn; split; intuition congruence.
Qed.
Theorem velocities_raises_ValueError : forall ri rp rv ei ep ev e, velocity_validate_arr ri rp rv ei ep ev = Raise e -> e = ValueError.
Proof.
  intros ri rp rv ei ep ev. unfold velocity_validate_arr. apply only_VE_bind; [intros e; apply notes_raises_ValueError|].
  repeat apply only_VE_ite. apply only_VE_ok.
Qed.

(* ============================================================================================================ *)
(* PART 2: the validator models of the other files                                                                *)
(* ============================================================================================================ *)
Module EM := ME.Model.EventMetrics.
Module IV := ME.Model.Intervals.
Module TR := ME.Model.Transcription.
Module SC := ME.Model.SegmentCluster.
Module HI := ME.Model.Hierarchy.
Module MP := ME.Model.Multipitch.
Module ML := ME.Model.Melody.
Module KY := ME.Model.Key.
Module CS := ME.Model.ChordScore.
Module BT := ME.Model.Beat.
Module TP := ME.Model.Tempo.
Module PT := ME.Model.Pattern.
Module AL := ME.Model.Alignment.
Module SP := ME.Model.Separation.

(* ---------------------------------------------------------------- events: EventMetrics, Beat, Multipitch *)
Lemma em_nondecreasing l : EM.nondecreasing l = nondecreasing l.
Proof.
  unfold EM.nondecreasing. induction l as [|a [|b t] IH]; try reflexivity.
  change (nondecreasing (a :: b :: t)) with (qleb a b && nondecreasing (b :: t)). rewrite <- IH. cbn. rewrite <- qleb_negb. reflexivity.
Qed.
Lemma mp_nondecreasing l : MP.nondecreasing l = nondecreasing l.
Proof. reflexivity. Qed.   (* the two fixpoints are syntactically the same *)
Lemma em_validate_events_arr mx l : EM.validate_events mx l = validate_events_arr mx (arr1 l).
Proof. unfold EM.validate_events, validate_events_arr. cbn [data ndim arr1]. rewrite em_nondecreasing. reflexivity. Qed.
Lemma bt_validate_events_arr l : BT.validate_events l = validate_events_arr EV_MAX_TIME (arr1 l).
Proof.
  unfold BT.validate_events, validate_events_arr. cbn [data ndim arr1]. change BT.nondecreasing with EM.nondecreasing.
  rewrite em_nondecreasing. reflexivity.
Qed.
Lemma mp_validate_events_arr mx l : MP.validate_events l mx = validate_events_arr mx (arr1 l).
Proof. unfold MP.validate_events, validate_events_arr. cbn [data ndim arr1]. rewrite mp_nondecreasing. reflexivity. Qed.

Theorem EventMetrics_validate_events_iff_convention : forall mx l, EM.validate_events mx l = Ok tt <-> conv_events mx (arr1 l) = true.
Proof. intros. rewrite em_validate_events_arr. apply events_iff_convention. Qed.
Theorem EventMetrics_validate_events_raises_ValueError : forall mx l e, EM.validate_events mx l = Raise e -> e = ValueError.
Proof. intros mx l e. rewrite em_validate_events_arr. apply events_raises_ValueError. Qed.
Theorem Beat_validate_events_iff_convention : forall l, BT.validate_events l = Ok tt <-> conv_events 30000 (arr1 l) = true.
Proof. intros. rewrite bt_validate_events_arr. apply events_iff_convention. Qed.
Theorem Beat_validate_iff_convention : forall r e, BT.validate r e = Ok tt <-> conv_event_pair (arr1 r) (arr1 e) = true.
Proof. intros. unfold BT.validate. rewrite !bt_validate_events_arr. apply event_pair_iff_convention. Qed.
Theorem Beat_validate_raises_ValueError : forall r e x, BT.validate r e = Raise x -> x = ValueError.
Proof. intros r e x. unfold BT.validate. rewrite !bt_validate_events_arr. apply event_pair_raises_ValueError. Qed.
Theorem Multipitch_validate_events_iff_convention : forall mx l, MP.validate_events l mx = Ok tt <-> conv_events mx (arr1 l) = true.
Proof. intros. rewrite mp_validate_events_arr. apply events_iff_convention. Qed.
Theorem Multipitch_validate_events_raises_ValueError : forall mx l e, MP.validate_events l mx = Raise e -> e = ValueError.
Proof. intros mx l e. rewrite mp_validate_events_arr. apply events_raises_ValueError. Qed.

(* ---------------------------------------------------------------- intervals: EventMetrics, Intervals, Transcription, SegmentCluster *)
Lemma em_validate_intervals_arr ivs : EM.validate_intervals ivs = validate_intervals_arr (arr2 ivs).
Proof.
  unfold EM.validate_intervals, validate_intervals_arr. rewrite is_n_by_2_arr2, rows_arr2. cbn [data arr2 negb].
  rewrite existsb_flat2. reflexivity.
Qed.
Lemma iv_validate_intervals_arr ivs : IV.validate_intervals ivs = validate_intervals_arr (arr2 ivs).
Proof. rewrite <- em_validate_intervals_arr. reflexivity. Qed.
Lemma tr_validate_ivs_arr ivs : TR.validate_ivs ivs = validate_intervals_arr (arr2 ivs).
Proof. rewrite <- em_validate_intervals_arr. reflexivity. Qed.
Lemma sc_validate_intervals_arr ivs : SC.validate_intervals ivs = validate_intervals_arr (arr2 ivs).
Proof. unfold SC.validate_intervals, validate_intervals_arr. rewrite is_n_by_2_arr2, rows_arr2. reflexivity. Qed.

Theorem EventMetrics_validate_intervals_iff_convention : forall ivs, EM.validate_intervals ivs = Ok tt <-> conv_ivs ivs = true.
Proof. intros. rewrite em_validate_intervals_arr, <- conv_intervals_arr2. apply intervals_iff_convention. Qed.
Theorem Intervals_validate_intervals_iff_convention : forall ivs, IV.validate_intervals ivs = Ok tt <-> conv_ivs ivs = true.
Proof. intros. rewrite iv_validate_intervals_arr, <- conv_intervals_arr2. apply intervals_iff_convention. Qed.
Theorem Transcription_validate_ivs_iff_convention : forall ivs, TR.validate_ivs ivs = Ok tt <-> conv_ivs ivs = true.
Proof. intros. rewrite tr_validate_ivs_arr, <- conv_intervals_arr2. apply intervals_iff_convention. Qed.
Theorem SegmentCluster_validate_intervals_iff_convention : forall ivs, SC.validate_intervals ivs = Ok tt <-> conv_ivs ivs = true.
Proof. intros. rewrite sc_validate_intervals_arr, <- conv_intervals_arr2. apply intervals_iff_convention. Qed.
Theorem list_validate_intervals_raise_ValueError : forall ivs e,
  (EM.validate_intervals ivs = Raise e -> e = ValueError) /\ (IV.validate_intervals ivs = Raise e -> e = ValueError) /\
  (TR.validate_ivs ivs = Raise e -> e = ValueError) /\ (SC.validate_intervals ivs = Raise e -> e = ValueError).
Proof.
  intros ivs e. rewrite em_validate_intervals_arr, iv_validate_intervals_arr, tr_validate_ivs_arr, sc_validate_intervals_arr.
  repeat split; apply intervals_raises_ValueError.
Qed.
Lemma em_validate_boundary_arr r e : EM.validate_boundary r e = validate_boundary_arr (arr2 r) (arr2 e).
Proof. unfold EM.validate_boundary, validate_boundary_arr. rewrite !em_validate_intervals_arr. reflexivity. Qed.
Theorem EventMetrics_validate_boundary_iff_convention : forall r e,
  EM.validate_boundary r e = Ok tt <-> conv_ivs r && conv_ivs e = true.
Proof. intros. rewrite em_validate_boundary_arr, boundary_iff_convention. unfold conv_boundary. rewrite !conv_intervals_arr2. tauto. Qed.
Theorem EventMetrics_validate_boundary_raises_ValueError : forall r e x, EM.validate_boundary r e = Raise x -> x = ValueError.
Proof. intros r e x. rewrite em_validate_boundary_arr. apply boundary_raises_ValueError; discriminate. Qed.

(* ---------------------------------------------------------------- SegmentCluster.validate_structure *)
Lemma sc_validate_one_arr iv n : SC.validate_one iv n = validate_one_arr (arr2 iv) n.
Proof. unfold SC.validate_one, validate_one_arr. rewrite sc_validate_intervals_arr. reflexivity. Qed.
Lemma sc_validate_structure_arr ri nrl ei nel : SC.validate_structure ri nrl ei nel = validate_structure_arr (arr2 ri) nrl (arr2 ei) nel.
Proof. unfold SC.validate_structure, validate_structure_arr. rewrite !sc_validate_one_arr. reflexivity. Qed.
Theorem SegmentCluster_validate_structure_iff_convention : forall ri nrl ei nel,
  SC.validate_structure ri nrl ei nel = Ok tt <-> conv_segmentation (arr2 ri) nrl (arr2 ei) nel = true.
Proof. intros. rewrite sc_validate_structure_arr. apply segmentation_iff_convention. Qed.
Theorem SegmentCluster_validate_structure_raises_ValueError : forall ri nrl ei nel e,
  SC.validate_structure ri nrl ei nel = Raise e -> e = ValueError.
Proof. intros ri nrl ei nel e. rewrite sc_validate_structure_arr. apply segmentation_raises_ValueError. Qed.

(* ---------------------------------------------------------------- Hierarchy.validate_hier *)
Lemma hi_valid_intervals iv : HI.valid_intervals iv = conv_ivs iv.
Proof.
  unfold HI.valid_intervals, conv_ivs. rewrite !existsb_forallb, !negb_involutive. f_equal.
  apply forallb_ext'. intros p. rewrite negb_orb, <- !qleb_negb. reflexivity.
Qed.
Lemma hi_vs_one iv : HI.vs_one iv = conv_labeled (arr2 iv) (length iv).
Proof.
  unfold HI.vs_one, conv_labeled. rewrite hi_valid_intervals, conv_intervals_arr2. cbn [shape0 shape arr2 nth].
  rewrite Nat.eqb_refl, andb_true_r. reflexivity.
Qed.
Lemma hi_validate_structure_arr top lvl :
  HI.validate_structure top lvl = validate_structure_arr (arr2 top) (length top) (arr2 lvl) (length lvl).
Proof.
  destruct (unit_res_cases _ (segmentation_raises_ValueError (arr2 top) (length top) (arr2 lvl) (length lvl))) as [E|E]; rewrite E.
  - apply segmentation_iff_convention in E. unfold HI.validate_structure. rewrite !hi_vs_one. unfold conv_segmentation in E.
    unfold end_together in E. cbn [data arr2] in E. change HI.ends with flat2. change HI.allclose with allclose. rewrite E. reflexivity.
  - unfold HI.validate_structure. rewrite !hi_vs_one. change HI.ends with flat2. change HI.allclose with allclose.
    destruct (conv_labeled (arr2 top) (length top) && conv_labeled (arr2 lvl) (length lvl)
              && match qmax_list (flat2 top), qmax_list (flat2 lvl) with Some a, Some b => allclose a b | _, _ => true end) eqn:C;
      [|reflexivity].
    assert (V : validate_structure_arr (arr2 top) (length top) (arr2 lvl) (length lvl) = Ok tt)
      by (apply segmentation_iff_convention; exact C). congruence.
Qed.
Lemma hi_validate_levels_arr top rest : HI.validate_levels top rest = validate_levels_arr (arr2 top) (map arr2 rest).
Proof. induction rest as [|l t IH]; cbn; [reflexivity|]. rewrite hi_validate_structure_arr, IH. reflexivity. Qed.
Lemma hi_validate_hier_arr H : HI.validate_hier H = validate_hier_arr (map arr2 H).
Proof. destruct H as [|top rest]; cbn; [reflexivity|apply hi_validate_levels_arr]. Qed.
Theorem Hierarchy_validate_hier_iff_convention : forall H, HI.validate_hier H = Ok tt <-> conv_hierarchy (map arr2 H) = true.
Proof. intros. rewrite hi_validate_hier_arr. apply hierarchy_iff_convention. Qed.
Theorem Hierarchy_validate_hier_raise_kind : forall H e, HI.validate_hier H = Raise e -> e = ValueError \/ (e = IndexError /\ H = []).
Proof.
  intros H e. rewrite hi_validate_hier_arr. intros Hr. apply hierarchy_raise_kind in Hr.
  destruct Hr as [Hr|[[Hr Hn]|[_ (a & Ia & Sa)]]]; [auto|right|exfalso].
  - split; [exact Hr|]. destruct H; [reflexivity|discriminate].
  - apply in_map_iff in Ia. destruct Ia as (x & <- & _). discriminate.
Qed.
Theorem Hierarchy_single_level_not_validated : forall top, HI.validate_hier [top] = Ok tt.
Proof. reflexivity. Qed.

(* ---------------------------------------------------------------- Multipitch.validate_frequencies / validate *)
Lemma mp_validate_frequencies_arr f mx mn : MP.validate_frequencies f mx mn = validate_frequencies_arr mx mn false (arr1 f).
Proof.
  unfold MP.validate_frequencies, validate_frequencies_arr. cbn [data ndim arr1].
  destruct (existsb (fun x => qltb mx (Qabs x)) f), (existsb (fun x => qltb (Qabs x) mn) f); reflexivity.
Qed.
Lemma mp_validate_all_freqs_arr fs : MP.validate_all_freqs fs = validate_all_freqs_arr (map arr1 fs).
Proof. induction fs as [|f t IH]; cbn; [reflexivity|]. rewrite mp_validate_frequencies_arr, IH. reflexivity. Qed.
Lemma mp_validate_arr rt rf et ef : MP.validate rt rf et ef = multipitch_validate_arr (arr1 rt) (map arr1 rf) (arr1 et) (map arr1 ef).
Proof.
  unfold MP.validate, multipitch_validate_arr. rewrite !mp_validate_events_arr, !mp_validate_all_freqs_arr.
  cbn [ndim arr1 asize data Nat.eqb negb]. rewrite !map_length. reflexivity.
Qed.
Theorem Multipitch_validate_frequencies_iff_magnitude_convention : forall f mx mn,
  MP.validate_frequencies f mx mn = Ok tt <-> conv_frequencies_abs mx mn (arr1 f) = true.
Proof. intros. rewrite mp_validate_frequencies_arr. apply frequencies_iff_magnitude_convention. Qed.
Theorem Multipitch_validate_frequencies_iff_convention_refuted : exists f mx mn,
  MP.validate_frequencies f mx mn = Ok tt /\ conv_frequencies mx mn false (arr1 f) = false.
Proof. exists [-100], 5000, 20. split; vm_compute; reflexivity. Qed.
Theorem Multipitch_validate_iff_magnitude_convention : forall rt rf et ef,
  MP.validate rt rf et ef = Ok tt <-> conv_multipitch_abs (arr1 rt) (map arr1 rf) (arr1 et) (map arr1 ef) = true.
Proof. intros. rewrite mp_validate_arr. apply multipitch_iff_magnitude_convention. Qed.
Theorem Multipitch_validate_iff_convention_refuted : exists rt rf et ef,
  MP.validate rt rf et ef = Ok tt /\ conv_multipitch (arr1 rt) (map arr1 rf) (arr1 et) (map arr1 ef) = false.
Proof. exists [0], [[-100]], [0], [[-200]]. split; vm_compute; reflexivity. Qed.
Theorem Multipitch_validate_convention_accepted : forall rt rf et ef,
  conv_multipitch (arr1 rt) (map arr1 rf) (arr1 et) (map arr1 ef) = true -> MP.validate rt rf et ef = Ok tt.
Proof. intros. rewrite mp_validate_arr. apply multipitch_convention_accepted. assumption. Qed.
Theorem Multipitch_validate_raises_ValueError : forall rt rf et ef e, MP.validate rt rf et ef = Raise e -> e = ValueError.
Proof. intros rt rf et ef e. rewrite mp_validate_arr. apply multipitch_raises_ValueError. Qed.

(* ---------------------------------------------------------------- Melody.validate_voicing / validate *)
(* docstring: 'voicing arrays ... same length', 'Voicing arrays must be between 0 and 1'; validate: 'All voicing and
   frequency arrays must have the same length' *)
Definition in_unit (x : Q) : bool := qleb 0 x && qleb x 1.
Definition conv_voicing (rv ev : list Q) : bool := (length rv =? length ev)%nat && forallb in_unit rv && forallb in_unit ev.
Definition conv_melody (rv rc ev ec : list Q) : bool :=
  (length rv =? length rc)%nat && (length ev =? length ec)%nat && (length rc =? length ec)%nat.
Lemma voicing_bad_in_unit v : ML.voicing_bad v = negb (forallb in_unit v).
Proof.
  unfold ML.voicing_bad. rewrite existsb_forallb. f_equal. apply forallb_ext'. intros x. unfold in_unit.
  rewrite negb_orb, <- !qleb_negb. reflexivity.
Qed.
Theorem Melody_validate_voicing_iff_convention : forall rv ev, ML.validate_voicing rv ev = Ok tt <-> conv_voicing rv ev = true.
Proof.
  intros. unfold ML.validate_voicing, conv_voicing. rewrite !voicing_bad_in_unit.
  destruct (length rv =? length ev)%nat, (forallb in_unit rv), (forallb in_unit ev); cbn; split; congruence.
Qed.
Theorem Melody_validate_voicing_raises_ValueError : forall rv ev e, ML.validate_voicing rv ev = Raise e -> e = ValueError.
Proof. intros rv ev. unfold ML.validate_voicing. repeat apply only_VE_ite. apply only_VE_ok. Qed.
Theorem Melody_validate_iff_convention : forall rv rc ev ec, ML.validate rv rc ev ec = Ok tt <-> conv_melody rv rc ev ec = true.
Proof.
  intros. unfold ML.validate, conv_melody.
  destruct (length rv =? length rc)%nat, (length ev =? length ec)%nat, (length rc =? length ec)%nat; cbn; split; congruence.
Qed.
Theorem Melody_validate_raises_ValueError : forall rv rc ev ec e, ML.validate rv rc ev ec = Raise e -> e = ValueError.
Proof. intros rv rc ev ec. unfold ML.validate. apply only_VE_ite, only_VE_ok. Qed.

(* ---------------------------------------------------------------- Transcription.validate / vel_validate *)
Lemma existsb_map {A B} (f : A -> B) (p : B -> bool) l : existsb p (map f l) = existsb (fun x => p (f x)) l.
Proof. induction l as [|x t IH]; cbn; [reflexivity|]. rewrite IH. reflexivity. Qed.
Lemma tr_validate_arr ri rp ei ep :
  TR.validate ri rp ei ep = transcription_validate_arr (arr2 ri) (map fst rp) (arr2 ei) (map fst ep).
Proof.
  unfold TR.validate, TR.validate_intervals2, transcription_validate_arr. rewrite !tr_validate_ivs_arr, !existsb_map, !map_length.
  cbn [shape0 shape arr2 nth]. destruct (validate_intervals_arr (arr2 ri)) as [[]|]; cbn; [|reflexivity].
  destruct (validate_intervals_arr (arr2 ei)) as [[]|]; reflexivity.
Qed.
Lemma tr_vel_validate_arr ri rp rv ei ep ev :
  TR.vel_validate ri rp rv ei ep ev = velocity_validate_arr (arr2 ri) (map fst rp) rv (arr2 ei) (map fst ep) ev.
Proof. unfold TR.vel_validate, velocity_validate_arr. rewrite tr_validate_arr, !map_length. reflexivity. Qed.
Theorem Transcription_validate_iff_convention : forall ri rp ei ep,
  TR.validate ri rp ei ep = Ok tt <-> conv_notes (arr2 ri) (map fst rp) (arr2 ei) (map fst ep) = true.
Proof. intros. rewrite tr_validate_arr. apply notes_iff_convention. Qed.
Theorem Transcription_validate_raises_ValueError : forall ri rp ei ep e, TR.validate ri rp ei ep = Raise e -> e = ValueError.
Proof. intros ri rp ei ep e. rewrite tr_validate_arr. apply notes_raises_ValueError. Qed.
Theorem Transcription_vel_validate_iff_convention : forall ri rp rv ei ep ev,
  TR.vel_validate ri rp rv ei ep ev = Ok tt <-> conv_velocities (arr2 ri) (map fst rp) rv (arr2 ei) (map fst ep) ev = true.
Proof. intros. rewrite tr_vel_validate_arr. apply velocities_iff_convention. Qed.
Theorem Transcription_vel_validate_raises_ValueError : forall ri rp rv ei ep ev e,
  TR.vel_validate ri rp rv ei ep ev = Raise e -> e = ValueError.
Proof. intros ri rp rv ei ep ev e. rewrite tr_vel_validate_arr. apply velocities_raises_ValueError. Qed.

(* ---------------------------------------------------------------- Key.validate_key / validate *)
(* docstring: 'Check that a key is well-formatted, e.g. in the form C# major.  The Key can be X if it is not possible to
   categorize the Key and mode can be other'.  Convention: the string is X (any case), or two whitespace-separated words, a
   tonic of the table other than X and one of the documented modes. *)
Close Scope Q_scope.
Definition conv_key (key : str) : bool :=
  KY.is_x key ||
  match KY.split_ws key with
  | [k; mode] => negb (KY.is_x k) && KY.in_table (lower k) && existsb (seqb mode) KEY_MODES
  | _ => false
  end.
Lemma is_x_one_token key : KY.is_x key = true -> KY.split_ws key = [key].
Proof.
  unfold KY.is_x, lower, KY.s_x. destruct key as [|c [|d t]]; cbn [map seqb]; try discriminate.
  - rewrite andb_true_r. intros H. apply Nat.eqb_eq in H.
    assert (C : c = 88 \/ c = 120).
    { destruct ((65 <=? c) && (c <=? 90)) eqn:E; [left|right; exact H].
      apply andb_true_iff in E. destruct E as [E1 E2]. apply Nat.leb_le in E1, E2. lia. }
    destruct C; subst; reflexivity.
  - rewrite andb_false_r. discriminate.
Qed.
Theorem Key_validate_key_iff_convention : forall key, KY.validate_key key = Ok tt <-> conv_key key = true.
Proof.
  intros key. unfold KY.validate_key, conv_key. destruct (KY.is_x key) eqn:X.
  - rewrite (is_x_one_token key X). cbn. split; reflexivity.
  - cbn [negb andb orb]. rewrite andb_false_r. cbn [negb]. rewrite andb_true_r.
    destruct (KY.split_ws key) as [|k [|mode [|z t]]]; try (cbn; split; discriminate).
    cbn [bind two length Nat.eqb negb andb].
    destruct (KY.is_x k), (KY.in_table (lower k)), (existsb (seqb mode) KEY_MODES); cbn [negb andb]; split; congruence.
Qed.
Theorem Key_validate_key_raises_ValueError : forall key e, KY.validate_key key = Raise e -> e = ValueError.
Proof.
  intros key e. unfold KY.validate_key. destruct (negb _ && negb _); [congruence|]. destruct (negb (KY.is_x key)); [|discriminate].
  destruct (KY.split_ws key) as [|k [|mode [|z t]]]; try (cbn; congruence).
  cbn [bind two].
  destruct (KY.is_x k), (KY.in_table (lower k)), (existsb (seqb mode) KEY_MODES); cbn [negb]; congruence.
Qed.
Theorem Key_validate_iff_convention : forall r e, KY.validate r e = Ok tt <-> conv_key r && conv_key e = true.
Proof. intros. unfold KY.validate. rewrite bind_ok, !Key_validate_key_iff_convention, andb_true_iff. tauto. Qed.
Theorem Key_validate_raises_ValueError : forall r e x, KY.validate r e = Raise x -> x = ValueError.
Proof. intros r e. unfold KY.validate. apply only_VE_bind; intros x; apply Key_validate_key_raises_ValueError. Qed.
Example key_faults :
  map (fun k => tag (KY.validate_key k))
      [[67; 32; 109; 97; 106; 111; 114]; [88]; [120]; [67]; []; [72; 32; 109; 97; 106; 111; 114]; [67; 32; 109; 97; 106];
       [88; 32; 109; 97; 106; 111; 114]; [67; 32; 109; 97; 106; 111; 114; 32; 120]]
  = [0; 0; 0; 1; 1; 1; 1; 1; 1].
Proof. vm_compute. reflexivity. Qed.
Open Scope Q_scope.

(* ---------------------------------------------------------------- ChordScore.wa_q (chord.weighted_accuracy) *)
(* docstring: comparisons shape=(n,), weights shape=(n,) 'non-negative'; messages 'weights and comparisons should be of the
   same length', 'Weights should all be positive' (zero weights are accepted) *)
Definition conv_weights (c w : list Q) : bool := (length w =? length c)%nat && forallb (fun x => qleb 0 x) w.
Theorem weighted_accuracy_scored_iff_convention : forall c w, (exists v, CS.wa_q c w = Ok v) <-> conv_weights c w = true.
Proof.
  intros c w. unfold CS.wa_q, conv_weights. rewrite existsb_forallb.
  rewrite (forallb_ext' (fun x => negb (qltb x 0)) (fun x => qleb 0 x)) by (intros x; symmetry; apply qleb_negb).
  destruct (Nat.eqb (length w) (length c)); cbn; [|split; [intros [v H]; discriminate|discriminate]].
  destruct (forallb (fun x => qleb 0 x) w); cbn; [|split; [intros [v H]; discriminate|discriminate]].
  split; [reflexivity|intros _]. destruct (qeqb (qsum w) 0); [eexists; reflexivity|].
  destruct (CS.wa_keep c w); [eexists; reflexivity|]. destruct (qeqb _ 0); eexists; reflexivity.
Qed.
Theorem weighted_accuracy_raises_ValueError : forall c w e, CS.wa_q c w = Raise e -> e = ValueError.
Proof.
  intros c w e. unfold CS.wa_q. destruct (negb _); [congruence|]. destruct (existsb _ w); [congruence|].
  destruct (qeqb (qsum w) 0); [discriminate|]. destruct (CS.wa_keep c w); [discriminate|]. destruct (qeqb _ 0); discriminate.
Qed.

(* ---------------------------------------------------------------- Tempo.validate_tempi / validate *)
(* docstring: 'Check that there are two non-negative tempi.  For a reference value, at least one tempo has to be greater than
   zero.'; validate: 'Reference weight must lie in range [0, 1]' *)
Definition nonneg_fin (x : xval) : bool := match x with Fin q => qleb 0 q | _ => false end.
Definition pos_fin (x : xval) : bool := match x with Fin q => qltb 0 q | _ => false end.
Definition conv_tempi (t : list xval) (reference : bool) : bool :=
  (length t =? 2)%nat && forallb nonneg_fin t && (negb reference || existsb pos_fin t).
Definition conv_tempo (r : list xval) (w : Q) (e : list xval) : bool :=
  conv_tempi r true && conv_tempi e false && qleb 0 w && qleb w 1.
Lemma qltb_false a b : qltb a b = false <-> b <= a.
Proof. unfold qltb. rewrite negb_false_iff. apply Qle_bool_iff. Qed.
Lemma qleb_false a b : qleb a b = false <-> b < a.
Proof. rewrite qleb_negb, negb_false_iff. apply qltb_iff. Qed.
Lemma qeqb_true a b : qeqb a b = true <-> a == b. Proof. apply Qeq_bool_iff. Qed.
Lemma qeqb_false a b : qeqb a b = false <-> ~ a == b.
Proof.
  unfold qeqb. split.
  - intros H E. apply Qeq_bool_iff in E. congruence.
  - intros H. destruct (Qeq_bool a b) eqn:E; [apply Qeq_bool_iff in E; contradiction|reflexivity].
Qed.
Lemma q_sign q :
  (qltb q 0 = true /\ qleb 0 q = false /\ qeqb q 0 = false /\ qltb 0 q = false) \/
  (qltb q 0 = false /\ qleb 0 q = true /\ qeqb q 0 = true /\ qltb 0 q = false) \/
  (qltb q 0 = false /\ qleb 0 q = true /\ qeqb q 0 = false /\ qltb 0 q = true).
Proof.
  destruct (Q_dec q 0) as [[L|G]|E].
  - left. rewrite qltb_iff, qleb_false, qeqb_false, qltb_false. repeat split; lra.
  - right; right. rewrite qltb_false, qleb_iff, qeqb_false, qltb_iff. repeat split; lra.
  - right; left. rewrite qltb_false, qleb_iff, qeqb_true, qltb_false. repeat split; lra.
Qed.
Theorem Tempo_validate_tempi_iff_convention : forall t reference,
  (exists qs, TP.validate_tempi t reference = Ok qs) <-> conv_tempi t reference = true.
Proof.
  intros t reference. unfold TP.validate_tempi, conv_tempi.
  destruct t as [|a [|b [|c t']]]; cbn [length Nat.eqb negb andb]; try (split; [intros [qs H]; discriminate|discriminate]).
  destruct a as [q1| | |], b as [q2| | |]; cbn; try (split; [intros [qs H]; discriminate|discriminate]);
    try (rewrite andb_false_r; cbn; split; [intros [qs H]; discriminate|discriminate]).
  destruct (q_sign q1) as [(A1 & A2 & A3 & A4)|[(A1 & A2 & A3 & A4)|(A1 & A2 & A3 & A4)]],
           (q_sign q2) as [(B1 & B2 & B3 & B4)|[(B1 & B2 & B3 & B4)|(B1 & B2 & B3 & B4)]];
    rewrite A1, A2, A3, A4, B1, B2, B3, B4; destruct reference; cbn;
    (split; [intros [qs H]; first [discriminate|reflexivity]|intros H; first [discriminate|eexists; reflexivity]]).
Qed.
Theorem Tempo_validate_tempi_raises_ValueError : forall t reference e, TP.validate_tempi t reference = Raise e -> e = ValueError.
Proof.
  intros t reference e. unfold TP.validate_tempi. destruct (negb _); [congruence|]. destruct (TP.all_fin t); [|congruence].
  destruct (existsb _ l); [congruence|]. destruct (reference && _); [congruence|discriminate].
Qed.
Theorem Tempo_validate_iff_convention : forall r w e, (exists v, TP.validate r w e = Ok v) <-> conv_tempo r w e = true.
Proof.
  intros r w e. unfold TP.validate, conv_tempo. rewrite !andb_true_iff, <- !Tempo_validate_tempi_iff_convention. split.
  - intros [v H]. destruct (TP.validate_tempi r true) as [qr|] eqn:R; cbn in H; [|discriminate].
    destruct (TP.validate_tempi e false) as [qe|] eqn:E; cbn in H; [|discriminate].
    destruct (qltb w 0 || qltb 1 w) eqn:W; [discriminate|]. apply orb_false_iff in W. destruct W as [W1 W2].
    rewrite !qleb_negb, W1, W2. repeat split; eexists; reflexivity.
  - intros [[[[qr R] [qe E]] W1] W2]. rewrite R, E. cbn. rewrite qleb_negb in W1, W2. apply negb_true_iff in W1, W2.
    rewrite W1, W2. eexists; reflexivity.
Qed.
Theorem Tempo_validate_raises_ValueError : forall r w e x, TP.validate r w e = Raise x -> x = ValueError.
Proof.
  intros r w e x. unfold TP.validate. destruct (TP.validate_tempi r true) eqn:R; cbn; [|intros H; inversion H; subst; eapply Tempo_validate_tempi_raises_ValueError; eassumption].
  destruct (TP.validate_tempi e false) eqn:E; cbn; [|intros H; inversion H; subst; eapply Tempo_validate_tempi_raises_ValueError; eassumption].
  destruct (qltb w 0 || qltb 1 w); [congruence|discriminate].
Qed.

(* ---------------------------------------------------------------- Pattern.validate_raw / validate *)
(* docstring: patterns 'in the format returned by load_patterns' = list of patterns, each a non-empty list of occurrences,
   each a list of (onset, midi) pairs; messages 'Each pattern must contain at least one occurrence',
   'The (onset, midi) tuple must contain exactly 2 elements' *)
Definition conv_pattern_list (ps : list (list (list PT.rnote))) : bool :=
  forallb (fun p => negb (PT.is_nil p) && forallb (forallb (fun om => (length om =? 2)%nat)) p) ps.
Definition conv_patterns (ref est : list (list (list PT.rnote))) : bool := conv_pattern_list ref && conv_pattern_list est.
Theorem Pattern_validate_raw_iff_convention : forall ref est, PT.validate_raw ref est = Ok tt <-> conv_patterns ref est = true.
Proof.
  intros. unfold PT.validate_raw, conv_patterns, conv_pattern_list, PT.rnote in *. rewrite forallb_app.
  destruct (forallb _ ref && forallb _ est); split; congruence.
Qed.
Theorem Pattern_validate_raw_raises_ValueError : forall ref est e, PT.validate_raw ref est = Raise e -> e = ValueError.
Proof. intros ref est e. unfold PT.validate_raw. destruct (forallb _ _); [discriminate|congruence]. Qed.
Theorem Pattern_validate_iff_convention : forall ref est,
  PT.validate ref est = Ok tt <-> forallb (fun p => negb (PT.is_nil p)) ref && forallb (fun p => negb (PT.is_nil p)) est = true.
Proof.
  intros. unfold PT.validate, PT.pattern, PT.occ, PT.note in *. rewrite existsb_forallb, forallb_app.
  destruct (forallb _ ref), (forallb _ est); cbn; split; congruence.
Qed.
Theorem Pattern_validate_raises_ValueError : forall ref est e, PT.validate ref est = Raise e -> e = ValueError.
Proof. intros ref est e. unfold PT.validate. destruct (existsb _ _); [congruence|discriminate]. Qed.

(* ---------------------------------------------------------------- Alignment.validate / validate_in *)
(* docstring / messages: numpy arrays, one-dimensional, reference not empty, same number of timestamps, monotonically
   increasing (equal neighbours accepted), not below 0 *)
Definition conv_alignment_lists (ref est : list Q) : bool :=
  negb (length ref =? 0)%nat && (length est =? length ref)%nat && nondecreasing ref && nondecreasing est
  && forallb (fun t => qleb 0 t) ref && forallb (fun t => qleb 0 t) est.
Definition conv_alignment (ref est : AL.tsin) : bool :=
  match ref, est with AL.Nd 1 r, AL.Nd 1 e => conv_alignment_lists r e | _, _ => false end.
Lemma diffs_nondecreasing l : forallb (fun d => qleb 0 d) (AL.diffs l) = nondecreasing l.
Proof.
  induction l as [|a [|b t] IH]; try reflexivity.
  change (AL.diffs (a :: b :: t)) with ((b - a) :: AL.diffs (b :: t)).
  change (nondecreasing (a :: b :: t)) with (qleb a b && nondecreasing (b :: t)). cbn [forallb]. rewrite IH. f_equal.
  unfold qleb. destruct (Qle_bool 0 (b - a)) eqn:A, (Qle_bool a b) eqn:B; try reflexivity.
  - apply Qle_bool_iff in A. assert (H : a <= b) by lra. apply Qle_bool_iff in H. congruence.
  - apply Qle_bool_iff in B. assert (H : 0 <= b - a) by lra. apply Qle_bool_iff in H. congruence.
Qed.
Theorem Alignment_validate_iff_convention : forall ref est, AL.validate ref est = Ok tt <-> conv_alignment_lists ref est = true.
Proof.
  intros. unfold AL.validate, conv_alignment_lists. rewrite !diffs_nondecreasing.
  destruct (length ref =? 0)%nat, (length est =? length ref)%nat, (nondecreasing ref), (nondecreasing est),
    (forallb (fun t => qleb 0 t) ref), (forallb (fun t => qleb 0 t) est); cbn; split; congruence.
Qed.
Theorem Alignment_validate_raises_ValueError : forall ref est e, AL.validate ref est = Raise e -> e = ValueError.
Proof. intros ref est. unfold AL.validate. repeat apply only_VE_ite. apply only_VE_ok. Qed.
Theorem Alignment_validate_in_iff_convention : forall ref est, (exists v, AL.validate_in ref est = Ok v) <-> conv_alignment ref est = true.
Proof.
  intros ref est. unfold AL.validate_in, conv_alignment.
  destruct ref as [|[|[|n]] r]; try (cbn; split; [intros [v H]; discriminate|discriminate]).
  destruct est as [|[|[|m]] e]; try (cbn; split; [intros [v H]; discriminate|discriminate]).
  rewrite <- Alignment_validate_iff_convention. destruct (AL.validate r e) as [[]|x]; cbn; split;
    [intros _; reflexivity|intros _; eexists; reflexivity|intros [v H]; discriminate|discriminate].
Qed.
Theorem Alignment_validate_in_raises_ValueError : forall ref est e, AL.validate_in ref est = Raise e -> e = ValueError.
Proof.
  intros ref est e. unfold AL.validate_in. destruct ref as [|[|[|n]] r]; try (cbn; congruence).
  destruct est as [|[|[|m]] x]; try (cbn; congruence). destruct (AL.validate r x) as [[]|y] eqn:V; cbn; [discriminate|].
  intros H. inversion H; subst. eapply Alignment_validate_raises_ValueError; eassumption.
Qed.

(* ---------------------------------------------------------------- Separation.validate *)
(* docstring: 'reference_sources : np.ndarray, shape=(nsrc, nsampl)' (3 dimensions for images); messages: the shapes should
   match, at most 3 dimensions, no silent source (only examined for non-empty arrays), at most MAX_SOURCES sources. *)
Definition conv_sources (mx : nat) (rs es : list nat) (rsil esil : bool) : bool :=
  SP.shape_eqb rs es && negb (3 <? length rs)%nat && negb (3 <? length es)%nat
  && ((SP.size_of rs =? 0)%nat || (negb (length rs <? 2)%nat && negb rsil))
  && ((SP.size_of es =? 0)%nat || (negb (length es <? 2)%nat && negb esil))
  && (hd 0%nat es <=? mx)%nat && (hd 0%nat rs <=? mx)%nat.
Theorem Separation_validate_iff_convention : forall mx rs es rsil esil,
  (exists w, SP.validate mx rs es rsil esil = Ok w) <-> conv_sources mx rs es rsil esil = true.
Proof.
  intros mx rs es rsil esil. unfold SP.validate, SP.validate_detail, conv_sources.
  destruct (SP.shape_eqb rs es); cbn [negb andb]; [|split; [intros [w H]; discriminate|discriminate]].
  destruct (3 <? length rs)%nat; cbn [negb andb orb]; [split; [intros [w H]; discriminate|discriminate]|].
  destruct (3 <? length es)%nat; cbn [negb andb orb]; [split; [intros [w H]; discriminate|discriminate]|].
  destruct (SP.size_of rs =? 0)%nat eqn:RE, (length rs <? 2)%nat eqn:RL, rsil,
           (SP.size_of es =? 0)%nat eqn:EE, (length es <? 2)%nat eqn:EL, esil; cbn [negb andb orb];
    try solve [split; [intros [w H]; discriminate|discriminate]];
    (destruct rs as [|r0 rt]; [cbn in RE, RL; try discriminate|]); (destruct es as [|e0 et]; [cbn in EE, EL; try discriminate|]);
    cbn [hd]; rewrite (Nat.ltb_antisym e0 mx), (Nat.ltb_antisym r0 mx); destruct (e0 <=? mx)%nat, (r0 <=? mx)%nat; cbn [negb andb orb];
    (split; [intros [w H]; first [discriminate|reflexivity]|intros H; first [discriminate|eexists; reflexivity]]).
Qed.
(* every raise is a ValueError EXCEPT numpy's AxisError for a non-empty array with fewer than two dimensions *)
Theorem Separation_validate_raise_kind : forall mx rs es rsil esil e,
  SP.validate mx rs es rsil esil = Raise e -> e = ValueError \/ e = OtherExn.
Proof.
  intros mx rs es rsil esil e. unfold SP.validate. destruct (SP.validate_detail mx rs es rsil esil) as [[]|w]; intros H;
    inversion H; auto.
Qed.
Theorem Separation_validate_raises_only_ValueError_refuted : exists mx rs es rsil esil e,
  SP.validate mx rs es rsil esil = Raise e /\ e <> ValueError.
Proof. exists 100%nat, [8%nat], [8%nat], false, false, OtherExn. split; [vm_compute; reflexivity|discriminate]. Qed.
(* corrected: on arrays that are empty or have at least two dimensions every raise is a ValueError *)
Theorem Separation_validate_raises_ValueError_2d : forall mx rs es rsil esil e,
  ((SP.size_of rs =? 0) || negb (length rs <? 2) = true)%nat -> ((SP.size_of es =? 0) || negb (length es <? 2) = true)%nat ->
  SP.validate mx rs es rsil esil = Raise e -> e = ValueError.
Proof.
  intros mx rs es rsil esil e Hr He. unfold SP.validate, SP.validate_detail.
  destruct (SP.shape_eqb rs es); cbn [negb]; [|congruence].
  destruct ((3 <? length rs) || (3 <? length es))%nat; [congruence|].
  destruct (SP.size_of rs =? 0)%nat eqn:RE, (length rs <? 2)%nat eqn:RL; cbn in Hr; try discriminate; cbn [negb andb];
    destruct (SP.size_of es =? 0)%nat eqn:EE, (length es <? 2)%nat eqn:EL; cbn in He; try discriminate; cbn [negb andb];
    destruct rsil, esil; try congruence;
    (destruct rs as [|r0 rt]; [cbn in RE, RL; try discriminate|]); (destruct es as [|e0 et]; [cbn in EE, EL; try discriminate|]);
    destruct ((mx <? e0) || (mx <? r0))%nat; congruence.
Qed.

(* ------------------------------------------------------------------------------------------------------------ *)
(* Part 3: pitch / velocity / voicing / frequency arrays OF ANY SHAPE (transcription_validate_nd, velocity_validate_nd,  *)
(* melody_validate_voicing_nd, melody_validate_nd).  On 1-d arrays they are the models above; on a 0-d array the code    *)
(* reads `.shape[0]` of an empty shape tuple and raises IndexError, not ValueError.                                       *)
(* ------------------------------------------------------------------------------------------------------------ *)
Lemma notes_nd_arr1 ri rp ei ep : transcription_validate_nd ri (arr1 rp) ei (arr1 ep) = transcription_validate_arr ri rp ei ep.
Proof. reflexivity. Qed.
Lemma velocities_nd_arr1 ri rp rv ei ep ev :
  velocity_validate_nd ri (arr1 rp) (arr1 rv) ei (arr1 ep) (arr1 ev) = velocity_validate_arr ri rp rv ei ep ev.
Proof. reflexivity. Qed.
Lemma voicing_nd_arr1 rv ev : melody_validate_voicing_nd (arr1 rv) (arr1 ev) = ML.validate_voicing rv ev.
Proof.
  unfold melody_validate_voicing_nd, ML.validate_voicing, ML.voicing_bad. cbn [arr_shape0 arr1 shape data bind].
  change voicing_out_of_range with (fun x => qltb x 0 || qltb 1 x).
  destruct (length rv =? length ev)%nat; cbn [negb]; [|reflexivity]. destruct (existsb _ rv); reflexivity.
Qed.
Lemma melody_nd_arr1 rv rc ev ec : melody_validate_nd (arr1 rv) (arr1 rc) (arr1 ev) (arr1 ec) = ML.validate rv rc ev ec.
Proof.
  unfold melody_validate_nd, ML.validate. cbn [arr_shape0 arr1 shape bind].
  destruct (length rv =? length rc)%nat, (length ev =? length ec)%nat, (length rc =? length ec)%nat; reflexivity.
Qed.

Theorem notes_nd_raise_kind : forall ri rp ei ep e, transcription_validate_nd ri rp ei ep = Raise e ->
  e = ValueError \/ (e = IndexError /\ (shape rp = [] \/ shape ep = [])).
Proof.
  intros ri rp ei ep e. unfold transcription_validate_nd, arr_shape0.
  destruct (validate_intervals_arr ri) as [[]|x] eqn:V1; cbn [bind]; [|intros [= <-]; left; eapply intervals_raises_ValueError; eassumption].
  destruct (validate_intervals_arr ei) as [[]|x] eqn:V2; cbn [bind]; [|intros [= <-]; left; eapply intervals_raises_ValueError; eassumption].
  destruct (shape rp); cbn [bind]; [intros [= <-]; right; auto|].
  destruct (negb _); [intros [= <-]; left; reflexivity|].
  destruct (shape ep); cbn [bind]; [intros [= <-]; right; auto|].
  repeat (destruct (_ : bool); [intros [= <-]; left; reflexivity|]). discriminate.
Qed.
Theorem velocities_nd_raise_kind : forall ri rp rv ei ep ev e, velocity_validate_nd ri rp rv ei ep ev = Raise e ->
  e = ValueError \/ (e = IndexError /\ (shape rp = [] \/ shape ep = [] \/ shape rv = [] \/ shape ev = [])).
Proof.
  intros ri rp rv ei ep ev e. unfold velocity_validate_nd.
  destruct (transcription_validate_nd ri rp ei ep) as [[]|x] eqn:V; cbn [bind].
  - unfold arr_shape0. destruct (shape rv); cbn [bind]; [intros [= <-]; right; auto|].
    destruct (negb _); [intros [= <-]; left; reflexivity|].
    destruct (shape ev); cbn [bind]; [intros [= <-]; right; auto 6|].
    repeat (destruct (_ : bool); [intros [= <-]; left; reflexivity|]). discriminate.
  - intros [= <-]. apply notes_nd_raise_kind in V. destruct V as [V|[V [S|S]]]; [left; exact V|right; auto|right; auto].
Qed.
Theorem voicing_nd_raise_kind : forall rv ev e, melody_validate_voicing_nd rv ev = Raise e ->
  e = ValueError \/ (e = IndexError /\ (shape rv = [] \/ shape ev = [])).
Proof.
  intros rv ev e. unfold melody_validate_voicing_nd, arr_shape0.
  destruct (shape rv); cbn [bind]; [intros [= <-]; right; auto|]. destruct (shape ev); cbn [bind]; [intros [= <-]; right; auto|].
  repeat (destruct (_ : bool); [intros [= <-]; left; reflexivity|]). discriminate.
Qed.
Theorem melody_nd_raise_kind : forall rv rc ev ec e, melody_validate_nd rv rc ev ec = Raise e ->
  e = ValueError \/ (e = IndexError /\ (shape rv = [] \/ shape rc = [] \/ shape ev = [] \/ shape ec = [])).
Proof.
  intros rv rc ev ec e. unfold melody_validate_nd, arr_shape0.
  destruct (shape rv); cbn [bind]; [intros [= <-]; right; auto|]. destruct (shape rc); cbn [bind]; [intros [= <-]; right; auto|].
  destruct (negb _); [intros [= <-]; left; reflexivity|].
  destruct (shape ev); cbn [bind]; [intros [= <-]; right; auto 6|]. destruct (shape ec); cbn [bind]; [intros [= <-]; right; auto 6|].
  repeat (destruct (_ : bool); [intros [= <-]; left; reflexivity|]). discriminate.
Qed.
(* witnesses (each observed on the implementation):
     transcription.validate(np.array([[0., 1.]]), np.array(3.0), np.array([[0., 1.]]), np.array([220.]))           IndexError
     transcription_velocity.validate(iv, np.array([220.]), np.array(3.0), iv, np.array([220.]), np.array([1.]))      IndexError
     melody.validate_voicing(np.array(0.5), np.array(0.5))                                                           IndexError
     melody.validate(np.array(0.5), np.array([1.]), np.array([1.]), np.array([1.]))                                  IndexError *)
Definition arr0 (x : Q) : arr := mkarr 0 [] [x].
Theorem notes_0d_raises_IndexError :
  transcription_validate_nd (arr2 [(0, 1)]) (arr0 3) (arr2 [(0, 1)]) (arr1 [220]) = Raise IndexError /\ wf_arr (arr0 3) = true.
Proof. split; vm_compute; reflexivity. Qed.
Theorem velocities_0d_raises_IndexError :
  velocity_validate_nd (arr2 [(0, 1)]) (arr1 [220]) (arr0 3) (arr2 [(0, 1)]) (arr1 [220]) (arr1 [1]) = Raise IndexError.
Proof. vm_compute; reflexivity. Qed.
Theorem voicing_0d_raises_IndexError : melody_validate_voicing_nd (arr0 (1#2)) (arr0 (1#2)) = Raise IndexError.
Proof. reflexivity. Qed.
Theorem melody_0d_raises_IndexError : melody_validate_nd (arr0 (1#2)) (arr1 [1]) (arr1 [1]) (arr1 [1]) = Raise IndexError.
Proof. reflexivity. Qed.
