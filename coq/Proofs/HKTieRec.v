(* _bipartite_match, step 3 of the tie: the nested closure `recurse` (Gen/MatchGen.v: gen_bipartite_match_recurse), run in the
   heap evaluator with the frame of the enclosing function, equals Model/Matching.recurse: for every fuel the program
   reports FUEL or returns the model's boolean and leaves the heap representing the model's state, for every model fuel >= it. *)
From Coq Require Import String.
From Coq Require Import List Bool Arith ZArith Lia.
From ME Require Import Model.Prelude Model.Dict Model.Matching Model.HeapPy Gen.MatchGen Model.HeapPyMatch Proofs.HeapPyLemmas
  Proofs.HKRecurse Proofs.HKLayering Proofs.HKCorrect Proofs.HKTotal Proofs.MatchTieHK.
Import ListNotations.
Local Open Scope nat_scope.
Local Arguments hget : simpl never.
Local Arguments hset : simpl never.
Local Arguments for_loop : simpl never.
Local Arguments while_loop : simpl never.
Local Arguments comp_loop : simpl never.
Local Arguments Z.of_nat : simpl never.
Local Arguments Z.to_nat : simpl never.
Local Arguments Z.leb : simpl never.
Local Arguments as_key : simpl never.
Local Arguments dget : simpl never.
Local Arguments dset : simpl never.
Local Arguments dmem : simpl never.
Local Arguments ddel : simpl never.
Local Arguments map_vals : simpl never.
Local Arguments run : simpl never.

Definition rec_name : string := "_bipartite_match.recurse".
Definition benv (vg : val) aM vu vv vP vU vD vL vN vX vR : env := bm_env vg aM vu vv [vP; vU; vD; vL; vN; vX; vR].
Definition renv (o : frame) (v vL vu vpu : val) : env :=
  mkEnv [("v", v); ("L", vL); ("u", vu); ("pu", vpu)]%string (Some o).
Definition pu_val (aU : nat) (p : pu) : val := match p with Free => VRef aU | Via w => VNat w end.
Definition pred_obj (aU : nat) (pred : dict pu) : obj := ODict (map_vals (pu_val aU) pred).
Definition mobj (m : matching) : obj := ODict (map_vals VNat m).
Lemma mobj_eq m : matching_obj m = mobj m. Proof. reflexivity. Qed.

Lemma dl_rep_ddel h dr G k : dl_rep h dr G -> dl_rep h (ddel dr k) (ddel G k).
Proof. intros H. induction H as [|[k1 a] [k2 L] dr G [E1 E2] H IH]; [constructor|]. cbn in E1. subst k2.
  unfold ddel; fold (@ddel nat); fold (@ddel (list nat)). destruct (Nat.eqb k k1); [exact IH|]. constructor; [split; auto|exact IH]. Qed.
Lemma dl_rep_dset h dr G k a L : dl_rep h dr G -> hget h a = Some (OList (nats_val L)) -> dl_rep h (dset dr k a) (dset G k L).
Proof. intros H Ha. induction H as [|[k1 a1] [k2 L2] dr G [E1 E2] H IH]; [constructor; [split; auto|constructor]|]. cbn in E1. subst k2.
  unfold dset; fold (@dset nat); fold (@dset (list nat)). destruct (Nat.eqb k k1); constructor; auto; split; auto. Qed.
Lemma map_snd_ddel_incl {V} (d : dict V) k : incl (map snd (ddel d k)) (map snd d).
Proof. induction d as [|[k' v'] t IH]; [apply incl_refl|]. unfold ddel; fold (@ddel V). destruct (Nat.eqb k k'); cbn [map snd].
  - now apply incl_tl. - apply incl_cons; [now left|now apply incl_tl]. Qed.

Ltac hrw := repeat match goal with
  | H : hget ?h ?a = _ |- context [hget ?h ?a] => rewrite H
  | H : dmem ?d ?k = _ |- context [dmem ?d ?k] => rewrite H
  | H : dget ?d ?k = _ |- context [dget ?d ?k] => rewrite H end.
Ltac step := repeat (progress (ev; hsimp; hrw; rewrite ?as_key_nat, ?dmem_map_vals, ?dget_map_vals)).

Section Rec.
Variable ext : string -> heap -> list val -> out (heap * val).
Variables (vg vu0 vv0 vL0 vN0 vX0 : val) (aM aP aU aD : nat).
Hypothesis Hord : aM < aP /\ aP < aU /\ aU < aD.
Definition oframe : frame := e_loc (benv vg aM vu0 vv0 (VRef aP) (VRef aU) (VRef aD) vL0 vN0 vX0 (VClos rec_name)).
Definition RS (h : heap) (st : state) : Prop :=
  let '(preds, pred, m) := st in
  hget h aM = Some (mobj m) /\ hget h aD = Some (pred_obj aU pred) /\
  exists pr, hget h aP = Some (refs_obj pr) /\ dl_rep h pr preds /\ Forall (fun r => aD < r) (map snd pr).
Definition frame_ok (h h' : heap) : Prop :=
  length h' = length h /\ forall x, x <> aM -> x <> aP -> x <> aD -> hget h' x = hget h x.
Definition rec_run (n : nat) (h : heap) (v : nat) : out (heap * val) := run match_funs ext n rec_name h (Some oframe) [VNat v].
Definition rec_for : stmt :=
  match f_body gen_bipartite_match_recurse with SIf _ [_; _; s] _ :: _ => s | _ => SPass end.
Definition rec_clos (n : nat) := fun g h o a => run match_funs ext n g h (Some o) a.


Lemma RS_hset_frame h pr preds a o : dl_rep h pr preds -> Forall (fun r => aD < r) (map snd pr) -> a <= aD ->
  dl_rep (hset h a o) pr preds.
Proof. intros HR HF Ha. eapply dl_rep_frame; [exact HR|]. intros b Hb. rewrite Forall_forall in HF. apply HF in Hb.
  apply hget_hset_other. lia. Qed.

Definition try_res (n : nat) (v : nat) (Ls : list nat) (st : state) (h : heap) (res : sres) (o : frame) (r : nat) : Prop :=
  (res = SFuel /\ n <= length (st_preds st)) \/
  (exists h' st', res = SRet h' (VBool true) /\ (forall f', n <= f' -> try_us (recurse f') v Ls st = (st', true)) /\ RS h' st' /\ frame_ok h h') \/
  (exists h' st' vu' vpu', res = SNorm h' (renv o (VNat v) (VRef r) vu' vpu') /\
     (forall f', n <= f' -> try_us (recurse f') v Ls st = (st', false)) /\ RS h' st' /\ frame_ok h h').

Definition rec_spec_n (n : nat) : Prop := forall v st h, RS h st ->
  (rec_run n h v = FUEL /\ n <= length (st_preds st)) \/
  exists h' st' b, rec_run n h v = OK (h', VBool b) /\ (forall f', n <= f' -> recurse f' v st = (st', b)) /\ RS h' st' /\ frame_ok h h'.

Lemma frame_ok_refl h : frame_ok h h. Proof. split; auto. Qed.
Lemma frame_ok_trans h1 h2 h3 : frame_ok h1 h2 -> frame_ok h2 h3 -> frame_ok h1 h3.
Proof. intros [L1 F1] [L2 F2]. split; [congruence|]. intros x A B C. rewrite F2, F1; auto. Qed.

Lemma try_us_tie n (IHn : rec_spec_n n) r v Lfull : aD < r ->
  forall Ls vu' vpu' h st, RS h st -> hget h r = Some (OList (nats_val Lfull)) ->
  try_res n v Ls st h
    (for_loop (loop_step ext (rec_clos n) n rec_for) (Some r) (nats_val Lfull) (nats_val Ls) h (renv oframe (VNat v) (VRef r) vu' vpu'))
    oframe r.
Proof.
  intros Hr. induction Ls as [|u t IH]; intros vu' vpu' h [[preds pred] m] HS Hh.
  - right; right. exists h, (preds, pred, m), vu', vpu'. unfold for_loop. cbn [nats_val map unchanged]. rewrite Hh. cbn [obj_elems].
    rewrite list_veqb_nats. split; [reflexivity|]. split; [reflexivity|]. split; [exact HS|apply frame_ok_refl].
  - pose proof HS as (HM & HD & pr & HP & HR & HF).
    pose proof (hget_lt _ _ _ HM) as LM. pose proof (hget_lt _ _ _ HD) as LD. pose proof (hget_lt _ _ _ HP) as LP. pose proof (hget_lt _ _ _ Hh) as Lr.
    cbn [nats_val map]. unfold for_loop; fold for_loop. cbn [unchanged]. rewrite Hh. cbn [obj_elems]. rewrite list_veqb_nats.
    unfold renv, oframe, benv, bm_env. step. destruct (dget pred u) as [p|] eqn:Ed.
    + assert (Em : dmem pred u = true) by (unfold dmem; now rewrite Ed). step. destruct p as [|w]; step.
      * (* Free *) rewrite Nat.eqb_refl. step. right; left. eexists; exists (preds, ddel pred u, dset m v u). split; [reflexivity|].
        split; [intros f' Hf; cbn [try_us]; rewrite Ed; reflexivity|]. split.
        -- unfold RS. hsimp. unfold mobj, pred_obj. rewrite <- dset_map_vals, <- ddel_map_vals. split; [reflexivity|]. split; [reflexivity|].
           exists pr. split; [exact HP|]. split; [|exact HF]. apply RS_hset_frame; [|exact HF|lia]. apply RS_hset_frame; [exact HR|exact HF|lia].
        -- split; [hlen; reflexivity|]. intros x A B C. hsimp. reflexivity.
      * (* Via w *)
        rewrite ddel_map_vals. set (h1 := hset h aD (ODict (map_vals (pu_val aU) (ddel pred u)))).
        match goal with |- context [rec_clos n rec_name h1 ?o [VNat w]] => change (rec_clos n rec_name h1 o [VNat w]) with (rec_run n h1 w) end.
        assert (RS1 : RS h1 (preds, ddel pred u, m)).
        { unfold RS, h1. hsimp. split; [exact HM|]. split; [reflexivity|]. exists pr. split; [exact HP|]. split; [|exact HF].
          apply RS_hset_frame; [exact HR|exact HF|lia]. }
        assert (F1 : frame_ok h h1) by (unfold h1; split; [hlen; reflexivity|intros x A B C; hsimp; reflexivity]).
        destruct (IHn w _ h1 RS1) as [[EF EB] | (h2 & [[preds2 pred2] m2] & b & E2 & M2 & RS2 & F2)].
        -- rewrite EF. left. split; [reflexivity|exact EB].
        -- rewrite E2. pose proof RS2 as (HM2 & HD2 & pr2 & HP2 & HR2 & HF2).
           pose proof (hget_lt _ _ _ HM2) as LM2. destruct b; step.
           ++ right; left. eexists; exists (preds2, pred2, dset m2 v u). split; [reflexivity|].
              split; [intros f' Hf; cbn [try_us]; rewrite Ed, (M2 f' Hf); reflexivity|]. split.
              ** unfold RS. hsimp. split; [unfold mobj; now rewrite <- dset_map_vals|]. split; [exact HD2|].
                 exists pr2. split; [exact HP2|]. split; [|exact HF2]. apply RS_hset_frame; [exact HR2|exact HF2|lia].
              ** eapply frame_ok_trans; [exact F1|]. eapply frame_ok_trans; [exact F2|].
                 split; [hlen; reflexivity|intros x A B C; hsimp; reflexivity].
           ++ assert (Hh2 : hget h2 r = Some (OList (nats_val Lfull))).
              { destruct F2 as [_ F2]. destruct F1 as [_ F1]. rewrite F2, F1 by lia. exact Hh. }
              destruct (IH (VNat u) (VNat w) h2 _ RS2 Hh2) as [[EF2 EB2] | [(h3 & st3 & E3 & M3 & RS3 & F3) | (h3 & st3 & vu3 & vpu3 & E3 & M3 & RS3 & F3)]].
              ** left. split; [exact EF2|]. pose proof (recurse_len n w (preds, ddel pred u, m)) as RL. rewrite (M2 n (le_n _)) in RL.
                 unfold st_preds in *. cbn [fst] in *. lia.
              ** right; left. exists h3, st3. split; [exact E3|]. split; [|split; [exact RS3|]].
                 --- intros f' Hf. cbn [try_us]. rewrite Ed, (M2 f' Hf). apply M3; exact Hf.
                 --- eapply frame_ok_trans; [exact F1|]. eapply frame_ok_trans; [exact F2|exact F3].
              ** right; right. exists h3, st3, vu3, vpu3. split; [exact E3|]. split; [|split; [exact RS3|]].
                 --- intros f' Hf. cbn [try_us]. rewrite Ed, (M2 f' Hf). apply M3; exact Hf.
                 --- eapply frame_ok_trans; [exact F1|]. eapply frame_ok_trans; [exact F2|exact F3].
    + (* u not in pred *) assert (Em : dmem pred u = false) by (unfold dmem; now rewrite Ed). step.
      destruct (IH (VNat u) vpu' h _ HS Hh) as [[EF2 EB2] | [(h3 & st3 & E3 & M3 & RS3 & F3) | (h3 & st3 & vu3 & vpu3 & E3 & M3 & RS3 & F3)]].
      * left. split; [exact EF2|exact EB2].
      * right; left. exists h3, st3. split; [exact E3|]. split; [|split; [exact RS3|exact F3]].
        intros f' Hf. cbn [try_us]. rewrite Ed. apply M3; exact Hf.
      * right; right. exists h3, st3, vu3, vpu3. split; [exact E3|]. split; [|split; [exact RS3|exact F3]].
        intros f' Hf. cbn [try_us]. rewrite Ed. apply M3; exact Hf.
Qed.

Lemma dl_rep_get_some h dr G k a : dl_rep h dr G -> dget dr k = Some a -> exists L, dget G k = Some L /\ hget h a = Some (OList (nats_val L)).
Proof. intros H E. pose proof (dl_rep_get h dr G k H) as X. rewrite E in X. exact X. Qed.
Lemma dl_rep_get_none h dr G k : dl_rep h dr G -> dget dr k = None -> dget G k = None.
Proof. intros H E. pose proof (dl_rep_get h dr G k H) as X. rewrite E in X. exact X. Qed.

Theorem recurse_tie : forall n, rec_spec_n n.
Proof.
  induction n as [|n IHn]; intros v [[preds pred] m] h HS.
  - left. split; [reflexivity|lia].
  - pose proof HS as (HM & HD & pr & HP & HR & HF).
    pose proof (hget_lt _ _ _ HM) as LM. pose proof (hget_lt _ _ _ HD) as LD. pose proof (hget_lt _ _ _ HP) as LP.
    unfold rec_run, run; fold run. cbn [lookup_fun match_funs String.eqb Ascii.eqb Bool.eqb rec_name].
    fold (rec_clos n). unfold oframe, benv, bm_env. step. unfold refs_obj. step. destruct (dget pr v) as [r|] eqn:Er.
    + assert (Em : dmem pr v = true) by (unfold dmem; now rewrite Er).
      destruct (dl_rep_get_some _ _ _ _ _ HR Er) as (L & EL & Hh).
      assert (Hr : aD < r) by (rewrite Forall_forall in HF; apply HF; eapply dget_In_snd; eauto).
      step. rewrite ddel_map_vals.
      set (h1 := hset h aP (ODict (map_vals VRef (ddel pr v)))).
      assert (RS1 : RS h1 (ddel preds v, pred, m)).
      { unfold RS, h1. hsimp. split; [exact HM|]. split; [exact HD|]. exists (ddel pr v). split; [reflexivity|]. split.
        - apply dl_rep_ddel. apply RS_hset_frame; [exact HR|exact HF|lia].
        - rewrite Forall_forall in *. intros x Hx. apply HF. eapply map_snd_ddel_incl; eauto. }
      assert (F1 : frame_ok h h1) by (unfold h1; split; [hlen; reflexivity|intros x A B C; hsimp; reflexivity]).
      assert (Hh1 : hget h1 r = Some (OList (nats_val L))) by (unfold h1; hsimp; exact Hh).
      rewrite ?Hh1. step.
      match goal with |- context [for_loop ?f ?s ?al ?els ?hh ?en] => set (FL := for_loop f s al els hh en) end.
      assert (T : try_res n v L (ddel preds v, pred, m) h1 FL oframe r) by exact (try_us_tie n IHn r v L Hr L VUnbound VUnbound h1 _ RS1 Hh1).
      clearbody FL. destruct T as [[-> EB] | [(h3 & st3 & -> & M3 & RS3 & F3) | (h3 & st3 & vu3 & vpu3 & -> & M3 & RS3 & F3)]].
      * left. split; [reflexivity|]. pose proof (ddel_length_lt preds v L EL). unfold st_preds in *. cbn [fst] in *. lia.
      * right. exists h3, st3, true. split; [reflexivity|]. split; [|split; [exact RS3|eapply frame_ok_trans; eauto]].
        intros [|f'] Hf; [lia|]. cbn [recurse]. rewrite EL. apply M3. lia.
      * right. unfold renv, oframe, benv, bm_env. step. exists h3, st3, false. split; [reflexivity|]. split; [|split; [exact RS3|eapply frame_ok_trans; eauto]].
        intros [|f'] Hf; [lia|]. cbn [recurse]. rewrite EL. apply M3. lia.
    + assert (Em : dmem pr v = false) by (unfold dmem; now rewrite Er). step.
      right. exists h, (preds, pred, m), false. split; [reflexivity|]. split; [|split; [exact HS|apply frame_ok_refl]].
      intros [|f'] Hf; [lia|]. cbn [recurse]. rewrite (dl_rep_get_none _ _ _ _ HR Er). reflexivity.
Qed.
End Rec.
