(* Basic facts about the heap, the dict operations under a map of the values, and the representation of a
   dict of lists of non-negative integers ({k: [..]} with the lists as separate heap objects). *)
From Coq Require Import String.
From Coq Require Import List Bool Arith ZArith QArith Lia.
From ME Require Import Model.Prelude Model.Dict Model.HeapPy Model.HeapPyMatch.
Import ListNotations.
Local Open Scope nat_scope.

(* ---------------------------------------------------------------- heap *)
Lemma hget_alloc_old (h : heap) o a : a < length h -> hget (h ++ [o]) a = hget h a.
Proof. intros H. unfold hget. now rewrite nth_error_app1. Qed.
Lemma hget_alloc_new (h : heap) o : hget (h ++ [o]) (length h) = Some o.
Proof. unfold hget. rewrite nth_error_app2 by lia. now rewrite Nat.sub_diag. Qed.
Lemma length_alloc (h : heap) (o : obj) : length (h ++ [o]) = S (length h).
Proof. rewrite app_length. simpl. lia. Qed.
Lemma set_nth_length {A} (l : list A) i v : length (set_nth l i v) = length l.
Proof. revert i; induction l as [|x t IH]; intros [|i]; simpl; auto. Qed.
Lemma length_hset h a o : length (hset h a o) = length h.
Proof. apply set_nth_length. Qed.
Lemma hget_hset_same h a o : a < length h -> hget (hset h a o) a = Some o.
Proof. unfold hget, hset. revert a; induction h as [|x t IH]; intros [|a] H; simpl in *; try lia; auto. apply IH; lia. Qed.
Lemma hget_hset_other h a b o : a <> b -> hget (hset h a o) b = hget h b.
Proof. unfold hget, hset. revert a b; induction h as [|x t IH]; intros [|a] [|b] H; simpl; auto; try congruence. Qed.
Lemma hget_lt h a o : hget h a = Some o -> a < length h.
Proof. intros H. apply nth_error_Some. unfold hget in H. congruence. Qed.

(* ---------------------------------------------------------------- numbers / keys *)
Lemma as_key_nat n : as_key (VNat n) = Some n.
Proof. unfold as_key, VNat. destruct (Z.leb_spec 0 (Z.of_nat n)); [now rewrite Nat2Z.id | lia]. Qed.
Lemma veqb_nat n : veqb (VNat n) (VNat n) = true.
Proof. unfold VNat; simpl. apply Z.eqb_refl. Qed.
Lemma list_veqb_nats l : list_veqb (nats_val l) (nats_val l) = true.
Proof. induction l; simpl; auto. rewrite Z.eqb_refl. exact IHl. Qed.
Lemma read_nats_nats l : read_nats (nats_val l) = Some l.
Proof. unfold read_nats, nats_val. induction l as [|x t IH]; [reflexivity|]. cbn [map omap]. rewrite as_key_nat, IH. reflexivity. Qed.
Lemma nats_val_app a b : nats_val (a ++ b) = nats_val a ++ nats_val b.
Proof. apply map_app. Qed.

(* ---------------------------------------------------------------- dicts under a map of the values *)
Section MapVals.
Context {A B : Type} (f : A -> B).
Definition map_vals (d : dict A) : dict B := map (fun e => (fst e, f (snd e))) d.
Lemma dget_map_vals d k : dget (map_vals d) k = option_map f (dget d k).
Proof. induction d as [|[k' v] t IH]; simpl; auto. destruct (Nat.eqb k k'); auto. Qed.
Lemma dmem_map_vals d k : dmem (map_vals d) k = dmem d k.
Proof. unfold dmem. rewrite dget_map_vals. destruct (dget d k); reflexivity. Qed.
Lemma dset_map_vals d k v : dset (map_vals d) k (f v) = map_vals (dset d k v).
Proof. induction d as [|[k' v'] t IH]; simpl; auto. destruct (Nat.eqb k k'); simpl; auto. now rewrite IH. Qed.
Lemma ddel_map_vals d k : ddel (map_vals d) k = map_vals (ddel d k).
Proof. induction d as [|[k' v'] t IH]; simpl; auto. destruct (Nat.eqb k k'); simpl; auto. now rewrite IH. Qed.
Lemma keys_map_vals d : keys (map_vals d) = keys d.
Proof. unfold keys, map_vals. rewrite map_map. reflexivity. Qed.
End MapVals.

Lemma dset_new {V} (d : dict V) k v : dget d k = None -> dset d k v = d ++ [(k, v)].
Proof. induction d as [|[k' v'] t IH]; simpl; auto. destruct (Nat.eqb k k'); [discriminate|]. intros H. now rewrite IH. Qed.

(* ---------------------------------------------------------------- {k: [..]}: a dict of addresses of lists *)
Definition dl_rep (h : heap) (dr : dict nat) (G : dict (list nat)) : Prop :=
  Forall2 (fun kr kl => fst kr = fst kl /\ hget h (snd kr) = Some (OList (nats_val (snd kl)))) dr G.
Definition refs_obj (dr : dict nat) : obj := ODict (map_vals VRef dr).

Lemma dl_rep_frame h h' dr G : dl_rep h dr G -> (forall a, In a (map snd dr) -> hget h' a = hget h a) -> dl_rep h' dr G.
Proof. intros H. induction H as [|[k a] [k' L] dr G [E1 E2] H IH]; intros F; constructor.
  - split; [exact E1|]. simpl in *. rewrite F by now left. exact E2.
  - apply IH. intros a' Ha. apply F. now right. Qed.
Lemma dl_rep_get h dr G k : dl_rep h dr G ->
  match dget dr k with
  | Some a => exists L, dget G k = Some L /\ hget h a = Some (OList (nats_val L))
  | None => dget G k = None end.
Proof. intros H. induction H as [|[k1 a] [k2 L] dr G [E1 E2] H IH]; simpl in *; auto. subst k2.
  destruct (Nat.eqb k k1); [exists L; auto| exact IH]. Qed.
Lemma dl_rep_lt h dr G : dl_rep h dr G -> forall a, In a (map snd dr) -> a < length h.
Proof. intros H. induction H as [|[k1 a] [k2 L] dr G [E1 E2] H IH]; simpl; [tauto|]. intros a' [<-|Ha]; [eapply hget_lt; eauto|auto]. Qed.
Lemma dl_rep_keys h dr G : dl_rep h dr G -> keys dr = keys G.
Proof. intros H. induction H as [|[k1 a] [k2 L] dr G [E1 E2] H IH]; simpl in *; congruence. Qed.
Lemma dget_In_snd {V} (d : dict V) k v : dget d k = Some v -> In v (map snd d).
Proof. intros H. apply dget_In in H. change v with (snd (k, v)). now apply in_map. Qed.
(* append x to the list of key k *)
Lemma dl_rep_append h dr G k a L x : dl_rep h dr G -> NoDup (map snd dr) -> dget dr k = Some a -> dget G k = Some L ->
  dl_rep (hset h a (OList (nats_val (L ++ [x])))) dr (dset G k (L ++ [x])).
Proof. intros H. induction H as [|[k1 a1] [k2 L2] dr G [E1 E2] H IH]; simpl in *; [discriminate|]. subst k2.
  intros ND Hd Hg. inversion ND as [|? ? Hn ND']; subst. destruct (Nat.eqb k k1) eqn:E.
  - injection Hd as <-. injection Hg as <-. constructor.
    + split; [now apply Nat.eqb_eq in E|]. simpl. apply hget_hset_same. eapply hget_lt; eauto.
    + eapply dl_rep_frame; [exact H|]. intros a' Ha. apply hget_hset_other. intros ->. tauto.
  - constructor.
    + split; [reflexivity|]. simpl. rewrite hget_hset_other; [exact E2|]. intros ->. apply Hn. eapply dget_In_snd; eauto.
    + apply IH; auto. Qed.
(* a new key k whose list [x] is at a *)
Lemma dl_rep_new h h' dr G k a l : dl_rep h dr G -> dget dr k = None ->
  (forall b, In b (map snd dr) -> hget h' b = hget h b) -> hget h' a = Some (OList (nats_val l)) ->
  dl_rep h' (dset dr k a) (dset G k l).
Proof. intros H Hn F Ha. pose proof (dl_rep_get h dr G k H) as Hg. rewrite Hn in Hg.
  rewrite (dset_new dr k a Hn), (dset_new G k l Hg). apply Forall2_app; [eapply dl_rep_frame; eauto|].
  constructor; [|constructor]. split; auto. Qed.
Lemma dl_rep_read h dr G : dl_rep h dr G ->
  omap (fun kv : nat * val => match read_list h (snd kv) with Some l => Some (fst kv, l) | None => None end) (map_vals VRef dr) = Some G.
Proof. intros H. induction H as [|[k1 a] [k2 L] dr G [E1 E2] H IH]; simpl in *; auto. subst k2.
  rewrite E2, read_nats_nats, IH. reflexivity. Qed.
