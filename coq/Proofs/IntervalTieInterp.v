(* util.intervals_to_samples, util.interpolate_intervals and util.sort_labeled_intervals tied to Model/Intervals.v by
   TRANSLATION (see IntervalTie.v for the conventions). *)
From Coq Require Import String.
From Coq Require Import List Bool Arith ZArith QArith Qabs Qminmax Qround Lia Lqa.
From ME Require Import Model.Prelude Model.IvExp Gen.IntervalGen.
From ME Require Model.Intervals.
From ME Require Import Proofs.IntervalTie.
Import ListNotations.
Open Scope Q_scope.
Local Arguments qltb : simpl never.
Local Arguments qleb : simpl never.
Local Arguments qeqb : simpl never.
Local Arguments Z.ltb !_ !_.
Local Arguments Z.leb !_ !_.
Local Arguments Z.eqb !_ !_.
Local Arguments Nat.eqb !_ !_.
Local Arguments iv_sigs : simpl never.
Local Arguments zrange : simpl never.
Local Arguments Intervals.flat : simpl never.
Local Arguments qmax_list : simpl never.
Local Arguments Z.of_nat : simpl never.
Local Arguments Qfloor : simpl never.
Local Arguments Qdiv : simpl never.
Local Arguments Qmult : simpl never.
Local Arguments Qplus : simpl never.
Local Arguments inject_Z : simpl never.
Local Arguments qtrunc : simpl never.
Local Arguments xdiv : simpl never.

Definition flist (l : list Q) : val := VList true (map (fun q => VFlt true (Fin q)) l).
Definition res_labels (r : res (list val)) : out val := match r with Ok l => OK (VList true l) | Raise e => EXN e end.
Definition res_samples (r : res (list Q * list val)) : out val :=
  match r with Ok (g, l) => OK (VTup [flist g; VList true l]) | Raise e => EXN e end.

Lemma qtrunc_Z z : qtrunc (inject_Z z) = z.
Proof.
  unfold qtrunc. destruct (qltb (inject_Z z) 0); [unfold Qceiling; rewrite <- inject_Z_opp, Qfloor_Z; lia|apply Qfloor_Z].
Qed.
Lemma grid_eq n off size :
  map (fun x : Q => x + off) (map (fun x : Q => x * size) (map inject_Z (zrange 0 n))) = Intervals.sample_grid n off size.
Proof.
  unfold Intervals.sample_grid, zrange. rewrite Z.sub_0_r, !map_map. apply map_ext. intros k. rewrite Z.add_0_l. reflexivity.
Qed.

Lemma sig_interp : lookup_sig iv_sigs "interpolate_intervals"
  = Some [("intervals", None); ("labels", None); ("time_points", None); ("fill_value", Some VNone)]%string.
Proof. vm_compute. reflexivity. Qed.
Theorem intervals_to_samples_tie_ext : forall ext ivs labs offv offset p size fill,
  (forall grid, ext "interpolate_intervals"%string [VMat ivs; VList false labs; flist grid; fill]
                = res_labels (Intervals.interpolate_intervals ivs labs grid fill)) ->
  fin_of offv = Some offset -> bound fill ->
  run_fun iv_sigs ext gen_intervals_to_samples [VMat ivs; VList false labs; offv; VFlt p (Fin size); fill]
  = res_samples (Intervals.intervals_to_samples ivs labs offset size fill).
Proof.
  intros ext ivs labs offv offset p size fill Hext Hoff Hfill.
  unfold run_fun, Intervals.intervals_to_samples, Intervals.num_samples. cbn.
  destruct (qmax_list (Intervals.flat ivs)) as [mx|]; cbn; [|reflexivity].
  unfold xdiv. destruct (qeqb size 0) eqn:Es; cbn.
  - destruct (qeqb mx 0); cbn; [reflexivity|]. destruct (qltb 0 mx); reflexivity.
  - rewrite qtrunc_Z. cbn.
    assert (Hb : (match offv with VUnbound => EXN OtherExn | _ => OK offv end) = OK offv)
      by (destruct offv; try reflexivity; discriminate).
    rewrite Hb. cbn. rewrite Hoff. cbn. rewrite grid_eq, sig_interp.
    destruct fill; try kill_unbound Hfill; cbn; fold (flist (Intervals.sample_grid (Qfloor (mx / size)) offset size));
      rewrite Hext; unfold Intervals.intervals_to_samples_on;
      destruct (Intervals.interpolate_intervals ivs labs _ _); reflexivity.
Qed.

Print Assumptions intervals_to_samples_tie_ext.
(* ================================================================== interpolate_intervals *)
Local Arguments qltb : simpl never.
Local Arguments qleb : simpl never.
Local Arguments qeqb : simpl never.
Local Arguments Z.ltb !_ !_.
Local Arguments Z.leb !_ !_.
Local Arguments Z.eqb !_ !_.
Local Arguments Nat.eqb !_ !_.
Local Arguments iv_sigs : simpl never.
Local Arguments Z.of_nat : simpl never.
Local Arguments py_slice : simpl never.
Local Arguments py_set_slice : simpl never.
Local Arguments list_rep : simpl never.
Local Arguments Intervals.decreases : simpl never.
Local Arguments Intervals.ss_left : simpl never.
Local Arguments Intervals.ss_right : simpl never.
Local Arguments for_loop : simpl never.
Local Arguments get_col : simpl never.
Local Arguments Z.sub : simpl never.

Lemma len_removelast_tl' {A} : forall l : list A, length (tl l) = length (removelast l).
Proof. induction l as [|x t IH]; [reflexivity|]. destruct t as [|y t']; [reflexivity|]. cbn [removelast length tl] in *. rewrite <- IH. reflexivity. Qed.
Lemma firstn_removelast' {A} : forall l : list A, firstn (length l - 1) l = removelast l.
Proof.
  induction l as [|x t IH]; [reflexivity|]. destruct t as [|y t']; [reflexivity|].
  cbn [length Nat.sub] in *. rewrite Nat.sub_0_r in *. cbn [firstn]. rewrite IH. reflexivity.
Qed.
Lemma py_slice_tl' {A} (l : list A) : py_slice (Some 1%Z) None l = tl l.
Proof. change 1%Z with (Z.of_nat 1). rewrite py_slice_from. destruct l; reflexivity. Qed.
Lemma py_slice_init' {A} (l : list A) : py_slice None (Some (-1)%Z) l = removelast l.
Proof.
  unfold py_slice, py_norm. change (-1 <? 0)%Z with true. cbv iota. cbn [Z.to_nat skipn]. rewrite Z.sub_0_r.
  destruct l as [|x t]; [reflexivity|].
  replace (Z.to_nat (Z.max (-1 + Z.of_nat (length (x :: t))) 0)) with (length (x :: t) - 1)%nat by (cbn [length]; lia).
  apply firstn_removelast'.
Qed.
Lemma decreases_any : forall ts,
  existsb (fun b : bool => b) (vmap2 (fun x y : Q => qltb x y) (tl ts) (removelast ts)) = Intervals.decreases ts.
Proof.
  intros [|a ts]; [reflexivity|]. revert a. induction ts as [|b t IH]; intros a; [reflexivity|].
  change (Intervals.decreases (a :: b :: t)) with (qltb b a || Intervals.decreases (b :: t)).
  rewrite <- IH. cbn [tl]. change (removelast (a :: b :: t)) with (a :: removelast (b :: t)).
  cbn [vmap2 existsb]. reflexivity.
Qed.
Lemma list_rep_one {A} (x : A) n : list_rep [x] (Z.of_nat n) = repeat x n.
Proof. unfold list_rep. rewrite Nat2Z.id. induction n as [|n IH]; [reflexivity|]. cbn [repeat concat app]. rewrite IH. reflexivity. Qed.
Lemma list_rep_diff {A} (x : A) a b : list_rep [x] (Z.of_nat b - Z.of_nat a) = repeat x (b - a).
Proof.
  destruct (Nat.le_gt_cases a b) as [H|H].
  - replace (Z.of_nat b - Z.of_nat a)%Z with (Z.of_nat (b - a)) by lia. apply list_rep_one.
  - replace (b - a)%nat with 0%nat by lia. unfold list_rep. replace (Z.to_nat (Z.of_nat b - Z.of_nat a)) with 0%nat by lia. reflexivity.
Qed.
Lemma py_set_slice_nat {A} (a b : nat) (v l : list A) : (a <= length l)%nat -> (b <= length l)%nat ->
  py_set_slice (Z.of_nat a) (Z.of_nat b) v l = firstn a l ++ v ++ skipn (Nat.max a b) l.
Proof.
  intros Ha Hb. unfold py_set_slice, py_norm.
  replace (Z.of_nat a <? 0)%Z with false by (symmetry; apply Z.ltb_ge; lia).
  replace (Z.of_nat b <? 0)%Z with false by (symmetry; apply Z.ltb_ge; lia).
  rewrite !Z.min_l by lia. rewrite !Nat2Z.id. reflexivity.
Qed.
Lemma prefix_len_le p : forall ts, (Intervals.prefix_len p ts <= length ts)%nat.
Proof. induction ts as [|t r IH]; [apply Nat.le_refl|]. cbn [Intervals.prefix_len length]. destruct (p t); lia. Qed.
Lemma set_slice_length {L} a b (lab : L) l : (a <= length l)%nat -> (b <= length l)%nat ->
  length (Intervals.set_slice a b lab l) = length l.
Proof. intros Ha Hb. unfold Intervals.set_slice. rewrite !app_length, firstn_length, repeat_length, skipn_length. lia. Qed.
Lemma zip3 (f g : Q * Q -> val) : forall ivs labs fuel, (Nat.min (length ivs) (length labs) <= fuel)%nat ->
  zipn [map f ivs; map g ivs; labs] fuel = map (fun vl : (Q * Q) * val => [f (fst vl); g (fst vl); snd vl]) (combine ivs labs).
Proof.
  induction ivs as [|v ivs IH]; intros labs fuel Hf.
  - destruct fuel; reflexivity.
  - destruct labs as [|lb labs]; [destruct fuel; reflexivity|].
    destruct fuel as [|fuel]; [cbn [length Nat.min] in Hf; lia|].
    cbn [zipn map existsb orb hd tl combine fst snd]. f_equal. apply IH. cbn [length Nat.min] in Hf. lia.
Qed.
Lemma min_len3 (a b c : list val) : min_len [a; b; c] = Nat.min (Nat.min (length a) (length b)) (length c).
Proof. reflexivity. Qed.

Local Arguments zipn : simpl never.
Local Arguments min_len : simpl never.
Definition ii_env (ivs : list (Q*Q)) (labv : val) (ts : list Q) (fill al st en s e lb : val) : env :=
  [("intervals", VMat ivs); ("labels", labv); ("time_points", VArrQ ts); ("fill_value", fill);
   ("aligned_labels", al); ("starts", st); ("ends", en); ("start", s); ("end", e); ("lab", lb)]%string.
Definition ii_loop := nth 5 (f_body gen_interpolate_intervals) SPass.
Definition ii_body : list stmt := match ii_loop with SFor _ _ b => b | _ => [] end.
Definition ii_tgt := TTuple ["start"; "end"; "lab"]%string.
Definition ii_row (ts : list Q) (vl : (Q * Q) * val) : val :=
  VTup [VInt false (Z.of_nat (Intervals.ss_left ts (fst (fst vl)))); VInt false (Z.of_nat (Intervals.ss_right ts (snd (fst vl)))); snd vl].

Lemma ii_loop_run : forall ext ivs labv ts fill st en l acc s e lb,
  Forall (fun vl => bound (snd vl)) l -> length acc = length ts ->
  exists s' e' lb',
  for_loop (for_step (run_block (exec iv_sigs ext)) ii_tgt ii_body) (map (ii_row ts) l)
    (ii_env ivs labv ts fill (VList true acc) st en s e lb)
  = SNorm (ii_env ivs labv ts fill
             (VList true (fold_left (fun acc vl => Intervals.set_slice (Intervals.ss_left ts (fst (fst vl)))
                                                     (Intervals.ss_right ts (snd (fst vl))) (snd vl) acc) l acc))
             st en s' e' lb').
Proof.
  intros ext ivs labv ts fill st en l. induction l as [|vl l IH]; intros acc s e lb Hb Hlen.
  - eexists _, _, _. reflexivity.
  - inversion Hb as [|? ? Hb1 Hb2]; subst. cbn [map fold_left]. unfold for_loop; fold for_loop.
    set (a := Intervals.ss_left ts (fst (fst vl))). set (b := Intervals.ss_right ts (snd (fst vl))).
    assert (Ha : (a <= length acc)%nat) by (rewrite Hlen; apply prefix_len_le).
    assert (Hbb : (b <= length acc)%nat) by (rewrite Hlen; apply prefix_len_le).
    assert (Es : for_step (run_block (exec iv_sigs ext)) ii_tgt ii_body (ii_row ts vl)
                   (ii_env ivs labv ts fill (VList true acc) st en s e lb)
                 = SNorm (ii_env ivs labv ts fill (VList true (Intervals.set_slice a b (snd vl) acc)) st en
                            (VInt false (Z.of_nat a)) (VInt false (Z.of_nat b)) (snd vl))).
    { unfold for_step, ii_row, ii_body, ii_tgt. fold a. fold b. cbn.
      destruct (snd vl) eqn:Ev; try (exfalso; apply Hb1; reflexivity); cbn;
        rewrite list_rep_diff, py_set_slice_nat by assumption; reflexivity. }
    rewrite Es. apply IH; [exact Hb2|]. rewrite set_slice_length by assumption. exact Hlen.
Qed.

Definition ii_prefix := firstn 5 (f_body gen_interpolate_intervals).
Definition ii_ret := nth 6 (f_body gen_interpolate_intervals) SPass.
Lemma ii_body_split : f_body gen_interpolate_intervals = ii_prefix ++ [ii_loop; ii_ret].
Proof. reflexivity. Qed.
Lemma run_block_app' f : forall a b en,
  run_block f (a ++ b) en = match run_block f a en with SNorm en' => run_block f b en' | o => o end.
Proof.
  induction a as [|s a IH]; intros b en; [reflexivity|]. cbn [app]. rewrite !run_block_cons.
  destruct (f s en); try reflexivity. apply IH.
Qed.
(* the time points as the caller may pass them: an array, or a list of floats *)
Definition tp_ok (tpv : val) (ts : list Q) : Prop :=
  tpv = VArrQ ts \/ exists own py, tpv = VList own (map (fun q => VFlt py (Fin q)) ts).
Lemma all_fins_map py ts : all_fins (map (fun q => VFlt py (Fin q)) ts) = Some ts.
Proof. induction ts as [|t r IH]; [reflexivity|]. cbn [map all_fins]. rewrite IH. reflexivity. Qed.

Lemma ii_prefix_run : forall ext ivs own labs tpv ts fill, tp_ok tpv ts -> bound fill ->
  run_block (exec iv_sigs ext) ii_prefix
    [("intervals", VMat ivs); ("labels", VList own labs); ("time_points", tpv); ("fill_value", fill);
     ("aligned_labels", VUnbound); ("starts", VUnbound); ("ends", VUnbound); ("start", VUnbound); ("end", VUnbound);
     ("lab", VUnbound)]%string
  = if Intervals.decreases ts then SExn ValueError
    else SNorm (ii_env ivs (VList own labs) ts fill (VList true (repeat fill (length ts)))
                  (VArrZ (map (fun v => Z.of_nat (Intervals.ss_left ts v)) (map fst ivs)))
                  (VArrZ (map (fun v => Z.of_nat (Intervals.ss_right ts v)) (map snd ivs))) VUnbound VUnbound VUnbound).
Proof.
  intros ext ivs own labs tpv ts fill Htp Hfill. unfold ii_prefix.
  assert (E0 : exec iv_sigs ext (nth 0 (f_body gen_interpolate_intervals) SPass)
            [("intervals", VMat ivs); ("labels", VList own labs); ("time_points", tpv); ("fill_value", fill);
             ("aligned_labels", VUnbound); ("starts", VUnbound); ("ends", VUnbound); ("start", VUnbound); ("end", VUnbound);
             ("lab", VUnbound)]%string
          = SNorm (ii_env ivs (VList own labs) ts fill VUnbound VUnbound VUnbound VUnbound VUnbound VUnbound)).
  { destruct Htp as [->|(o & py & ->)]; cbn; [reflexivity|]. rewrite all_fins_map. reflexivity. }
  cbn [firstn f_body gen_interpolate_intervals]. cbn [nth f_body gen_interpolate_intervals] in E0.
  rewrite run_block_cons, E0. cbn.
  rewrite py_slice_tl', py_slice_init', len_removelast_tl', Nat.eqb_refl. cbn.
  rewrite decreases_any. destruct (Intervals.decreases ts) eqn:Ed; cbn; [reflexivity|].
  destruct fill; try kill_unbound Hfill; cbn; rewrite list_rep_one;
    repeat (rewrite ?get_col_0, ?get_col_1, ?Ed; cbn); reflexivity.
Qed.

Lemma ii_loop_exec : forall ext ivs own labs ts fill acc,
  exec iv_sigs ext ii_loop
    (ii_env ivs (VList own labs) ts fill (VList true acc)
       (VArrZ (map (fun v => Z.of_nat (Intervals.ss_left ts v)) (map fst ivs)))
       (VArrZ (map (fun v => Z.of_nat (Intervals.ss_right ts v)) (map snd ivs))) VUnbound VUnbound VUnbound)
  = for_loop (for_step (run_block (exec iv_sigs ext)) ii_tgt ii_body) (map (ii_row ts) (combine ivs labs))
      (ii_env ivs (VList own labs) ts fill (VList true acc)
         (VArrZ (map (fun v => Z.of_nat (Intervals.ss_left ts v)) (map fst ivs)))
         (VArrZ (map (fun v => Z.of_nat (Intervals.ss_right ts v)) (map snd ivs))) VUnbound VUnbound VUnbound).
Proof.
  intros. unfold ii_loop. cbn. rewrite !map_map.
  rewrite (zip3 (fun v : Q * Q => VInt false (Z.of_nat (Intervals.ss_left ts (fst v))))
                (fun v : Q * Q => VInt false (Z.of_nat (Intervals.ss_right ts (snd v))))).
  - rewrite map_map. reflexivity.
  - rewrite min_len3, !map_length. lia.
Qed.
Lemma Forall_combine_snd {A B} (P : B -> Prop) : forall (a : list A) (b : list B), Forall P b -> Forall (fun x => P (snd x)) (combine a b).
Proof.
  induction a as [|x a IH]; intros b Hb; [constructor|]. destruct b as [|y b]; [constructor|].
  inversion Hb; subst. constructor; [assumption|apply IH; assumption].
Qed.

Theorem interpolate_intervals_tie : forall ext ivs own labs tpv ts fill,
  tp_ok tpv ts -> bound fill -> Forall bound labs ->
  run_fun iv_sigs ext gen_interpolate_intervals [VMat ivs; VList own labs; tpv; fill]
  = res_labels (Intervals.interpolate_intervals ivs labs ts fill).
Proof.
  intros ext ivs own labs tpv ts fill Htp Hfill Hlabs.
  unfold run_fun, exec_block. rewrite ii_body_split.
  change (Nat.eqb _ _) with true. cbv iota.
  change (init_env gen_interpolate_intervals [VMat ivs; VList own labs; tpv; fill])
    with [("intervals", VMat ivs); ("labels", VList own labs); ("time_points", tpv); ("fill_value", fill);
          ("aligned_labels", VUnbound); ("starts", VUnbound); ("ends", VUnbound); ("start", VUnbound); ("end", VUnbound);
          ("lab", VUnbound)]%string.
  rewrite run_block_app', (ii_prefix_run ext ivs own labs tpv ts fill Htp Hfill).
  unfold Intervals.interpolate_intervals. destruct (Intervals.decreases ts); [reflexivity|].
  rewrite run_block_cons, ii_loop_exec.
  destruct (ii_loop_run ext ivs (VList own labs) ts fill
              (VArrZ (map (fun v => Z.of_nat (Intervals.ss_left ts v)) (map fst ivs)))
              (VArrZ (map (fun v => Z.of_nat (Intervals.ss_right ts v)) (map snd ivs)))
              (combine ivs labs) (repeat fill (length ts)) VUnbound VUnbound VUnbound) as (s' & e' & lb' & E).
  { apply Forall_combine_snd. exact Hlabs. }
  { apply repeat_length. }
  rewrite E. reflexivity.
Qed.
Print Assumptions interpolate_intervals_tie.

(* the chain intervals_to_samples -> interpolate_intervals closed over the TRANSLATED callee *)
Definition noext (f : string) (vs : list val) : out val := UNM.
Definition prog_ext (f : string) (vs : list val) : out val :=
  if String.eqb f "interpolate_intervals" then run_fun iv_sigs noext gen_interpolate_intervals vs else UNM.
Theorem intervals_to_samples_tie : forall ivs labs offv offset p size fill,
  fin_of offv = Some offset -> bound fill -> Forall bound labs ->
  run_fun iv_sigs prog_ext gen_intervals_to_samples [VMat ivs; VList false labs; offv; VFlt p (Fin size); fill]
  = res_samples (Intervals.intervals_to_samples ivs labs offset size fill).
Proof.
  intros ivs labs offv offset p size fill Hoff Hfill Hlabs.
  apply intervals_to_samples_tie_ext; try assumption.
  intros grid. unfold prog_ext. cbn [String.eqb Ascii.eqb Bool.eqb].
  apply interpolate_intervals_tie; try assumption. right. exists true, true. reflexivity.
Qed.
Print Assumptions intervals_to_samples_tie.
