(* C12, merge_labeled_intervals of a re-cut annotation: the merged rows of the cut annotation are the old merged rows
   with at most one row cut in two pieces carrying the same two labels (none when the cutting point already is a
   boundary of either annotation), times up to ==; hence every weighted accuracy computed from them is unchanged. *)
From Coq Require Import List Bool Arith ZArith QArith Qminmax Qabs Lia Lqa Morphisms.
From ME Require Import Model.Prelude Model.Intervals Model.ChordScore Proofs.ChordScoreProps.
From ME Require Import Proofs.IntervalsBase Proofs.IntervalsMerge Proofs.IntervalsBoundaries Proofs.SplitBase.
Import ListNotations.
Open Scope Q_scope.

(* ---------------------------------------------------------------------------------------- *)
(* refinement of a row list: every row kept (times up to ==) or cut at a strictly interior point *)
(* ---------------------------------------------------------------------------------------- *)
Inductive refines {B} : list (iv * B) -> list (iv * B) -> Prop :=
| rf_nil : refines [] []
| rf_keep v v' x r r' : pair_eq v v' -> refines r r' -> refines ((v, x) :: r) ((v', x) :: r')
| rf_cut v v1 v2 x r r' : fst v1 == fst v -> snd v1 == fst v2 -> snd v2 == snd v -> fst v < fst v2 -> fst v2 < snd v ->
    refines r r' -> refines ((v, x) :: r) ((v1, x) :: (v2, x) :: r').

(* the same on bare interval lists, remembering a fact P (old start) (cutting point) *)
Inductive iv_refines (P : Q -> Q -> Prop) : list iv -> list iv -> Prop :=
| ir_nil : iv_refines P [] []
| ir_keep v v' r r' : pair_eq v v' -> iv_refines P r r' -> iv_refines P (v :: r) (v' :: r')
| ir_cut v v1 v2 r r' : fst v1 == fst v -> snd v1 == fst v2 -> snd v2 == snd v -> fst v < fst v2 -> fst v2 < snd v ->
    P (fst v) (fst v2) -> iv_refines P r r' -> iv_refines P (v :: r) (v1 :: v2 :: r').

Lemma pair_eq_refl v : pair_eq v v.
Proof. split; reflexivity. Qed.
Lemma iv_refines_refl (P : Q -> Q -> Prop) l : iv_refines P l l.
Proof. induction l; constructor; [apply pair_eq_refl|assumption]. Qed.
Lemma iv_refines_app (P : Q -> Q -> Prop) a a' b b' : iv_refines P a a' -> iv_refines P b b' -> iv_refines P (a ++ b) (a' ++ b').
Proof. intros h1 h2. induction h1; cbn [app]; [exact h2|constructor; assumption|econstructor; eassumption]. Qed.
Lemma iv_refines_Qeq_r (P : Q -> Q -> Prop) : (forall t x y, x == y -> P t x -> P t y) ->
  forall l l1, iv_refines P l l1 -> forall l2, Forall2 pair_eq l2 l1 -> iv_refines P l l2.
Proof.
  intros hP l l1 h. induction h as [|v v' r r' hv h IH|v v1 v2 r r' e1 e2 e3 g1 g2 hp h IH]; intros l2 hf.
  - inversion hf; subst. constructor.
  - inversion hf as [|w ? l2' ? hw hf']; subst. constructor; [|apply IH; exact hf'].
    destruct hv, hw. split; lra.
  - inversion hf as [|w1 ? l2' ? hw1 hf']; subst. inversion hf' as [|w2 ? l2'' ? hw2 hf'']; subst.
    destruct hw1 as [a1 a2], hw2 as [b1 b2].
    apply ir_cut; try lra; [|apply IH; exact hf''].
    apply (hP _ (fst v2)); [lra|exact hp].
Qed.

(* ---------------------------------------------------------------------------------------- *)
(* inserting a point into a strictly increasing list                                          *)
(* ---------------------------------------------------------------------------------------- *)
Lemma ins_uniq_cases m : forall tb, ssorted tb -> (exists lo, In lo tb /\ lo <= m) -> (exists hi, In hi tb /\ m <= hi) ->
  (InQ m tb /\ ins_uniq m tb = tb) \/
  (exists pre t0 t1 post, tb = pre ++ t0 :: t1 :: post /\ t0 < m /\ m < t1 /\ ins_uniq m tb = pre ++ t0 :: m :: t1 :: post).
Proof.
  induction tb as [|y r IH]; intros hs [lo [hlo hlom]] [hi [hhi hmhi]]; [destruct hlo|].
  cbn [ins_uniq]. destruct (qltb m y) eqn:E1; qb.
  - exfalso. pose proof (ssorted_hd_le y r lo hs hlo). lra.
  - destruct (Qeq_bool m y) eqn:E2; qb.
    + left. split; [exists y; split; [left; reflexivity|exact E2]|reflexivity].
    + assert (hym : y < m) by (destruct (Qlt_le_dec y m) as [g|g]; [exact g|exfalso; apply E2; lra]).
      destruct hs as [hs1 hs2].
      assert (hhi' : In hi r) by (destruct hhi as [<-|g]; [lra|exact g]).
      destruct r as [|y2 r2]; [destruct hhi'|].
      destruct (Qlt_le_dec m y2) as [g|g].
      * right. exists [], y, y2, r2. cbn [app ins_uniq].
        assert (e : qltb m y2 = true) by (apply qltb_true; exact g). rewrite e. auto.
      * destruct (IH hs2) as [[h1 h2]|[pre [t0 [t1 [post [h1 [h2 [h3 h4]]]]]]]].
        -- exists y2. split; [left; reflexivity|exact g].
        -- exists hi. split; assumption.
        -- left. split; [destruct h1 as [w [hw ew]]; exists w; split; [right; exact hw|exact ew]|]. rewrite h2. reflexivity.
        -- right. exists (y :: pre), t0, t1, post. rewrite h4, h1. auto.
Qed.

Lemma adjacent_pairs_app : forall pre x y post,
  adjacent_pairs (pre ++ x :: y :: post) = adjacent_pairs (pre ++ [x]) ++ (x, y) :: adjacent_pairs (y :: post).
Proof.
  induction pre as [|z pre IH]; intros x y post; [reflexivity|].
  destruct pre as [|w pre'].
  - cbn [app]. rewrite !adjacent_pairs_cons2. reflexivity.
  - specialize (IH x y post). cbn [app] in *. rewrite !adjacent_pairs_cons2. rewrite IH. reflexivity.
Qed.

Lemma ssorted_app_inv : forall pre t0 t1 post, ssorted (pre ++ t0 :: t1 :: post) ->
  (forall z, In z pre -> z < t0) /\ t0 < t1 /\ (forall z, In z post -> t1 < z).
Proof.
  induction pre as [|w pre IH]; intros t0 t1 post hs.
  - cbn [app] in hs. destruct hs as [h1 [h2 _]]. split; [intros z []|]. inversion h1; subst. split; [assumption|].
    intros z hz. rewrite Forall_forall in h2. auto.
  - cbn [app] in hs. destruct hs as [h1 h2]. destruct (IH _ _ _ h2) as [g1 [g2 g3]].
    split; [|split; assumption]. intros z [<-|hz]; [|auto].
    rewrite Forall_forall in h1. apply h1. apply in_or_app. right. left. reflexivity.
Qed.

(* the fact remembered at a cut: no element of tb lies in (t0, m] *)
Definition no_start_between (tb : list Q) (t0 mm : Q) : Prop := forall z, InQ z tb -> (z <= t0 <-> z <= mm).

Lemma adjacent_ins_refines m tb : ssorted tb -> (exists lo, In lo tb /\ lo <= m) -> (exists hi, In hi tb /\ m <= hi) ->
  iv_refines (no_start_between tb) (adjacent_pairs tb) (adjacent_pairs (ins_uniq m tb)).
Proof.
  intros hs hlo hhi. destruct (ins_uniq_cases m tb hs hlo hhi) as [[_ e]|[pre [t0 [t1 [post [e [h1 [h2 e2]]]]]]]].
  - rewrite e. apply iv_refines_refl.
  - rewrite e2. rewrite e at 2. rewrite (adjacent_pairs_app pre t0 t1 post), (adjacent_pairs_app pre t0 m (t1 :: post)).
    rewrite adjacent_pairs_cons2. apply iv_refines_app; [apply iv_refines_refl|].
    apply ir_cut; cbn [fst snd]; try reflexivity; try assumption; [|apply iv_refines_refl].
    rewrite e in hs. destruct (ssorted_app_inv _ _ _ _ hs) as [g1 [g2 g3]].
    intros z [w [hw ew]]. rewrite e in hw. apply in_app_or in hw. destruct hw as [hw|[<-|[<-|hw]]].
    + specialize (g1 _ hw). split; intros _; lra.
    + split; intros _; lra.
    + split; intros g; lra.
    + specialize (g3 _ hw). split; intros g; lra.
Qed.

(* ---------------------------------------------------------------------------------------- *)
(* mapM over a refined list                                                                   *)
(* ---------------------------------------------------------------------------------------- *)
Lemma mapM_refines {B} (f f' : iv -> res B) (P : Q -> Q -> Prop) out out' : iv_refines P out out' ->
  (forall o o', fst o == fst o' -> f' o' = f o) -> (forall o o', P (fst o) (fst o') -> f' o' = f o) ->
  match mapM f out with
  | Raise e => mapM f' out' = Raise e
  | Ok labs => exists labs', mapM f' out' = Ok labs' /\ refines (combine out labs) (combine out' labs') /\
                             length labs = length out /\ length labs' = length out'
  end.
Proof.
  intros h hq hp. induction h as [|v v' r r' hv h IH|v v1 v2 r r' e1 e2 e3 g1 g2 hpp h IH].
  - cbn. exists []. repeat split. constructor.
  - cbn [mapM]. rewrite (hq v v') by (destruct hv; assumption).
    destruct (f v) as [x|e]; [|reflexivity].
    destruct (mapM f r) as [labs|e]; [|rewrite IH; reflexivity].
    destruct IH as [labs' [-> [hr [l1 l2]]]]. exists (x :: labs'). split; [reflexivity|]. split; [|cbn; split; congruence].
    cbn [combine]. constructor; assumption.
  - cbn [mapM]. rewrite (hq v v1) by (symmetry; exact e1). rewrite (hp v v2) by exact hpp.
    destruct (f v) as [x|e]; [|reflexivity].
    destruct (mapM f r) as [labs|e]; [|rewrite IH; reflexivity].
    destruct IH as [labs' [-> [hr [l1 l2]]]]. exists (x :: x :: labs'). split; [reflexivity|]. split; [|cbn; split; congruence].
    cbn [combine]. apply rf_cut; assumption.
Qed.

(* ---------------------------------------------------------------------------------------- *)
(* merge_pick                                                                                 *)
(* ---------------------------------------------------------------------------------------- *)
Lemma last_idx_ext {A} (p q : A -> bool) : forall l, (forall x, In x l -> p x = q x) -> last_idx p l = last_idx q l.
Proof.
  induction l as [|x l IH]; intros H; [reflexivity|]. cbn. rewrite IH by (intros y hy; apply H; right; exact hy).
  rewrite (H x) by (left; reflexivity). reflexivity.
Qed.
Lemma qleb_iff_eq a b a' b' : (a <= b <-> a' <= b') -> Qle_bool a b = Qle_bool a' b'.
Proof.
  intros H. destruct (Qle_bool a b) eqn:E1, (Qle_bool a' b') eqn:E2; try reflexivity; qb.
  - apply H in E1. lra.
  - apply H in E2. lra.
Qed.
Lemma merge_pick_ext {L} (ivs : list iv) (labs : list L) t t' :
  (forall v, In v ivs -> (fst v <= t <-> fst v <= t')) -> merge_pick ivs labs t = merge_pick ivs labs t'.
Proof.
  intros H. unfold merge_pick. destruct (negb _); [reflexivity|].
  match goal with |- match ?x with _ => _ end = match ?y with _ => _ end => assert (e : x = y); [|rewrite e; reflexivity] end.
  apply last_idx_ext. intros v hv. apply qleb_iff_eq. apply H. exact hv.
Qed.

(* picking in the cut annotation = picking in the original, at every time *)
Lemma merge_pick_dup {L} p a m b s pl (l : L) sl t : length p = length pl -> length s = length sl -> a <= m ->
  merge_pick (p ++ (a, m) :: (m, b) :: s) (pl ++ l :: l :: sl) t = merge_pick (p ++ (a, b) :: s) (pl ++ l :: sl) t.
Proof.
  intros h1 h2 ham.
  rewrite !merge_pick_label_with by (rewrite !app_length; cbn [length]; lia).
  match goal with |- match ?x with _ => _ end = match ?y with _ => _ end => assert (e : x = y); [|rewrite e; reflexivity] end.
  apply label_with_dup; [exact h1|].
  unfold c_start; cbn [fst]. destruct (Qle_bool a t) eqn:E1, (Qle_bool m t) eqn:E2; try reflexivity. qb. lra.
Qed.

(* ---------------------------------------------------------------------------------------- *)
(* shape of a list with a duplicated row                                                      *)
(* ---------------------------------------------------------------------------------------- *)
Lemma last_app_cons {A} : forall (p : list A) x s d, last (p ++ x :: s) d = last (x :: s) d.
Proof.
  induction p as [|y p IH]; intros x s d; [reflexivity|]. cbn [app].
  rewrite <- (IH x s d). destruct (p ++ x :: s) eqn:E; [destruct p; discriminate|reflexivity].
Qed.
Lemma hd_dup (d : iv) p a m b s : fst (hd d (p ++ (a, m) :: (m, b) :: s)) = fst (hd d (p ++ (a, b) :: s)).
Proof. destruct p; reflexivity. Qed.
Lemma last_dup (d : iv) p a m b s : snd (last (p ++ (a, m) :: (m, b) :: s) d) = snd (last (p ++ (a, b) :: s) d).
Proof. rewrite !last_app_cons. destruct s; reflexivity. Qed.
Lemma flat_dup2 p a m b s : flat (p ++ (a, m) :: (m, b) :: s) = flat p ++ a :: m :: m :: b :: flat s.
Proof. rewrite flat_app. reflexivity. Qed.
Lemma flat_dup1 p a b s : flat (p ++ (a, b) :: s) = flat p ++ a :: b :: flat s.
Proof. rewrite flat_app. reflexivity. Qed.
Lemma InQ_flat_dup0 p a m b s z :
  InQ z (flat (p ++ (a, m) :: (m, b) :: s)) <-> z == m \/ InQ z (flat (p ++ (a, b) :: s)).
Proof. rewrite flat_dup2, flat_dup1. rewrite !InQ_app, !InQ_cons. tauto. Qed.
Lemma InQ_flat_dup p a m b s (y : list iv) z :
  InQ z (flat ((p ++ (a, m) :: (m, b) :: s) ++ y)) <-> z == m \/ InQ z (flat ((p ++ (a, b) :: s) ++ y)).
Proof. rewrite !(flat_app _ y), !InQ_app, InQ_flat_dup0. tauto. Qed.
Lemma InQ_flat_dup_r p a m b s (x : list iv) z :
  InQ z (flat (x ++ (p ++ (a, m) :: (m, b) :: s))) <-> z == m \/ InQ z (flat (x ++ (p ++ (a, b) :: s))).
Proof. rewrite !(flat_app x), !InQ_app, InQ_flat_dup0. tauto. Qed.

Lemma combine_fst_snd {A B} (l : list (A * B)) : combine (map fst l) (map snd l) = l.
Proof. induction l as [|[a b] r IH]; [reflexivity|]. cbn. rewrite IH. reflexivity. Qed.

(* ---------------------------------------------------------------------------------------- *)
(* the core: two pairs of annotations with the same picks, the same span, boundary sets that    *)
(* differ by the point m lying inside the common span                                         *)
(* ---------------------------------------------------------------------------------------- *)
(* outcome of the cut merge in terms of the outcome of the original merge *)
Definition merge_refined {L} (r r' : res (list iv * list L * list L)) : Prop :=
  match r with
  | Raise e => r' = Raise e
  | Ok (out, lx, ly) =>
      exists out' lx' ly', r' = Ok (out', lx', ly') /\
        length lx = length out /\ length ly = length out /\ length lx' = length out' /\ length ly' = length out' /\
        refines (combine out (combine lx ly)) (combine out' (combine lx' ly'))
  end.

Section Core.
Context {L : Type}.
Variable d : iv.

Lemma merge_core (xi : list iv) (xl : list L) yi yl xi' (xl' : list L) yi' yl' m :
  xi <> [] -> yi <> [] -> xi' <> [] -> yi' <> [] ->
  fst (hd d xi') = fst (hd d xi) -> snd (last xi' d) = snd (last xi d) ->
  fst (hd d yi') = fst (hd d yi) -> snd (last yi' d) = snd (last yi d) ->
  (forall t, merge_pick xi' xl' t = merge_pick xi xl t) -> (forall t, merge_pick yi' yl' t = merge_pick yi yl t) ->
  (forall z, InQ z (flat (xi' ++ yi')) <-> z == m \/ InQ z (flat (xi ++ yi))) ->
  (exists lo, InQ lo (flat (xi ++ yi)) /\ lo <= m) -> (exists hi, InQ hi (flat (xi ++ yi)) /\ m <= hi) ->
  merge_refined (merge_labeled_intervals xi xl yi yl) (merge_labeled_intervals xi' xl' yi' yl').
Proof.
  intros nx ny nx' ny' ex1 ex2 ey1 ey2 px py hmem [lo [hlo hlom]] [hi [hhi hmhi]].
  rewrite (merge_unfold d xi xl yi yl nx ny), (merge_unfold d xi' xl' yi' yl' nx' ny'). rewrite ex1, ex2, ey1, ey2.
  unfold merge_refined.
  destruct (negb (Qeq_bool (fst (hd d xi)) (fst (hd d yi))) || negb (Qeq_bool (snd (last xi d)) (snd (last yi d)))); [reflexivity|].
  unfold boundaries. set (tb := sort_uniq (flat (xi ++ yi))). set (tb' := sort_uniq (flat (xi' ++ yi'))).
  destruct (sort_uniq_spec (flat (xi ++ yi))) as [hs hiff]. destruct (sort_uniq_spec (flat (xi' ++ yi'))) as [hs' hiff'].
  fold tb in hs, hiff. fold tb' in hs', hiff'.
  assert (hlo' : exists lo, In lo tb /\ lo <= m).
  { apply hiff in hlo. destruct hlo as [w [hw ew]]. exists w. split; [exact hw|lra]. }
  assert (hhi' : exists hi, In hi tb /\ m <= hi).
  { apply hiff in hhi. destruct hhi as [w [hw ew]]. exists w. split; [exact hw|lra]. }
  destruct (ins_uniq_spec m tb hs) as [hs2 hiff2].
  assert (hq : Forall2 Qeq tb' (ins_uniq m tb)).
  { apply ssorted_unique; [exact hs'|exact hs2|]. intros z. rewrite hiff', hmem, hiff2, hiff. tauto. }
  assert (hr : iv_refines (no_start_between tb) (adjacent_pairs tb) (adjacent_pairs tb')).
  { apply (iv_refines_Qeq_r (no_start_between tb)) with (l1 := adjacent_pairs (ins_uniq m tb)).
    - intros t x y exy hP z hz. rewrite (hP z hz). split; intros; lra.
    - apply adjacent_ins_refines; assumption.
    - apply adjacent_pairs_Qeq. exact hq. }
  set (f := fun o : (Q * Q)%type => a <- merge_pick xi xl (fst o) ;; b <- merge_pick yi yl (fst o) ;; Ok (a, b)).
  set (f' := fun o : (Q * Q)%type => a <- merge_pick xi' xl' (fst o) ;; b <- merge_pick yi' yl' (fst o) ;; Ok (a, b)).
  assert (hext : forall t t', (forall z, InQ z tb -> (z <= t <-> z <= t')) -> forall o o', fst o = t -> fst o' = t' -> f' o' = f o).
  { intros t t' H o o' <- <-. unfold f, f'. rewrite px, py.
    rewrite (merge_pick_ext xi xl (fst o') (fst o)), (merge_pick_ext yi yl (fst o') (fst o)); [reflexivity| |].
    - intros v hv. symmetry. apply H. apply hiff. exists (fst v). split; [|reflexivity].
      apply in_flat. exists v. split; [apply in_or_app; right; exact hv|left; reflexivity].
    - intros v hv. symmetry. apply H. apply hiff. exists (fst v). split; [|reflexivity].
      apply in_flat. exists v. split; [apply in_or_app; left; exact hv|left; reflexivity]. }
  assert (hq1 : forall o o' : iv, fst o == fst o' -> f' o' = f o).
  { intros o o' e. apply (hext (fst o) (fst o')); [|reflexivity|reflexivity]. intros z _. rewrite e. tauto. }
  assert (hq2 : forall o o' : iv, no_start_between tb (fst o) (fst o') -> f' o' = f o).
  { intros o o' hP. apply (hext (fst o) (fst o')); [exact hP|reflexivity|reflexivity]. }
  pose proof (mapM_refines f f' _ _ _ hr hq1 hq2) as hm.
  unfold iv in hm |- *. revert hm. destruct (mapM f (adjacent_pairs tb)) as [labs|e]; intros hm.
  - destruct hm as [labs' [-> [hrr [l1 l2]]]].
    cbn [bind]. exists (adjacent_pairs tb'), (map fst labs'), (map snd labs'). split; [reflexivity|].
    rewrite !map_length. repeat (split; [assumption|]). rewrite !combine_fst_snd. exact hrr.
  - cbn [bind]. rewrite hm. reflexivity.
Qed.
End Core.

(* ---------------------------------------------------------------------------------------- *)
(* cutting a row of the first / of the second annotation (decomposition form, a <= m <= b)     *)
(* ---------------------------------------------------------------------------------------- *)
Section MergeSplit.
Context {L : Type}.

Lemma merge_dup_x p a m b s pl (l : L) sl yi (yl : list L) : length p = length pl -> length s = length sl -> a <= m -> m <= b ->
  merge_refined (merge_labeled_intervals (p ++ (a, b) :: s) (pl ++ l :: sl) yi yl)
                (merge_labeled_intervals (p ++ (a, m) :: (m, b) :: s) (pl ++ l :: l :: sl) yi yl).
Proof.
  intros h1 h2 ham hmb. destruct yi as [|y0 yr].
  - rewrite !merge_empty_error by (right; reflexivity). reflexivity.
  - apply (merge_core (0, 0)) with (m := m); try (destruct p; discriminate); try discriminate; try reflexivity.
    + apply hd_dup.
    + apply last_dup.
    + intros t. apply merge_pick_dup; assumption.
    + intros z. apply InQ_flat_dup.
    + exists a. split; [|exact ham]. exists a. split; [|reflexivity]. rewrite !flat_app. cbn [flat flat_map fst snd app].
      apply in_or_app. left. apply in_or_app. right. left. reflexivity.
    + exists b. split; [|exact hmb]. exists b. split; [|reflexivity]. rewrite !flat_app. cbn [flat flat_map fst snd app].
      apply in_or_app. left. apply in_or_app. right. right. left. reflexivity.
Qed.
Lemma merge_dup_y p a m b s pl (l : L) sl xi (xl : list L) : length p = length pl -> length s = length sl -> a <= m -> m <= b ->
  merge_refined (merge_labeled_intervals xi xl (p ++ (a, b) :: s) (pl ++ l :: sl))
                (merge_labeled_intervals xi xl (p ++ (a, m) :: (m, b) :: s) (pl ++ l :: l :: sl)).
Proof.
  intros h1 h2 ham hmb. destruct xi as [|x0 xr].
  - rewrite !merge_empty_error by (left; reflexivity). reflexivity.
  - apply (merge_core (0, 0)) with (m := m); try (destruct p; discriminate); try discriminate; try reflexivity.
    + apply hd_dup.
    + apply last_dup.
    + intros t. apply merge_pick_dup; assumption.
    + intros z. apply InQ_flat_dup_r.
    + exists a. split; [|exact ham]. exists a. split; [|reflexivity]. rewrite flat_app, flat_dup1.
      apply in_or_app. right. apply in_or_app. right. left. reflexivity.
    + exists b. split; [|exact hmb]. exists b. split; [|reflexivity]. rewrite flat_app, flat_dup1.
      apply in_or_app. right. apply in_or_app. right. right. left. reflexivity.
Qed.

(* the statements on split_at *)
Theorem merge_split_ref i m (ri : list iv) (rl : list L) ei el : length rl = length ri -> cuttable i m ri ->
  merge_refined (merge_labeled_intervals ri rl ei el)
                (merge_labeled_intervals (fst (split_at i m ri rl)) (snd (split_at i m ri rl)) ei el).
Proof.
  intros hl hc. destruct (split_decomp i m ri rl hl hc) as (p & a & b & s & pl & l & sl & -> & -> & hp & _ & h1 & h2 & e1 & e2).
  unfold split_at; cbn [fst snd]. rewrite e1, e2. apply merge_dup_x; try lra; [exact hp|].
  rewrite !app_length in hl. cbn [length] in hl. lia.
Qed.
Theorem merge_split_est i m (ri : list iv) (rl : list L) ei el : length el = length ei -> cuttable i m ei ->
  merge_refined (merge_labeled_intervals ri rl ei el)
                (merge_labeled_intervals ri rl (fst (split_at i m ei el)) (snd (split_at i m ei el))).
Proof.
  intros hl hc. destruct (split_decomp i m ei el hl hc) as (p & a & b & s & pl & l & sl & -> & -> & hp & _ & h1 & h2 & e1 & e2).
  unfold split_at; cbn [fst snd]. rewrite e1, e2. apply merge_dup_y; try lra; [exact hp|].
  rewrite !app_length in hl. cbn [length] in hl. lia.
Qed.
End MergeSplit.

(* ---------------------------------------------------------------------------------------- *)
(* weighted accuracy over refined rows                                                        *)
(* ---------------------------------------------------------------------------------------- *)
Definition dur (v : iv) : Q := Qabs (snd v - fst v).

Section WaRefines.
Context {B : Type}.
Variable c : B -> Q.
Definition cs (rows : list (iv * B)) : list Q := map (fun r => c (snd r)) rows.
Definition ws (rows : list (iv * B)) : list Q := map (fun r => dur (fst r)) rows.

Lemma dur_pair_eq v v' : pair_eq v v' -> dur v == dur v'.
Proof. intros [e1 e2]. unfold dur. rewrite e1, e2. reflexivity. Qed.
Lemma dur_cut v v1 v2 : fst v1 == fst v -> snd v1 == fst v2 -> snd v2 == snd v -> fst v < fst v2 -> fst v2 < snd v ->
  dur v == dur v1 + dur v2 /\ 0 <= dur v1 /\ 0 <= dur v2.
Proof.
  intros e1 e2 e3 g1 g2. unfold dur. rewrite !Qabs_pos by lra. repeat split; lra.
Qed.
Lemma dur_nonneg v : 0 <= dur v.
Proof. apply Qabs_nonneg. Qed.

Lemma ws_nonneg rows : existsb negw (ws rows) = false.
Proof.
  apply noneg_forall. unfold ws. rewrite Forall_map. apply Forall_forall. intros r _. apply dur_nonneg.
Qed.

Lemma refines_facts rows rows' : refines rows rows' ->
  qsum (ws rows) == qsum (ws rows') /\ cmp_num (cs rows) (ws rows) == cmp_num (cs rows') (ws rows') /\
  cmp_den (cs rows) (ws rows) == cmp_den (cs rows') (ws rows') /\
  (wa_keep (cs rows) (ws rows) = [] <-> wa_keep (cs rows') (ws rows') = []).
Proof.
  induction 1 as [|v v' x r r' hv h [i1 [i2 [i3 i4]]]|v v1 v2 x r r' e1 e2 e3 g1 g2 h [i1 [i2 [i3 i4]]]].
  - repeat split; reflexivity || tauto.
  - unfold cs, ws in *. cbn [map fst snd cmp_num cmp_den wa_keep]. rewrite !qsum_cons.
    pose proof (dur_pair_eq _ _ hv) as ed. unfold wa_valid.
    destruct (Qle_bool 0 (c x)); (split; [lra|]); (split; [try rewrite ed; lra|]); (split; [lra|]).
    + split; discriminate.
    + exact i4.
  - unfold cs, ws in *. cbn [map fst snd cmp_num cmp_den wa_keep]. rewrite !qsum_cons.
    destruct (dur_cut v v1 v2 e1 e2 e3 g1 g2) as [ed _]. unfold wa_valid.
    destruct (Qle_bool 0 (c x)); (split; [lra|]); (split; [try rewrite ed; lra|]); (split; [lra|]).
    + split; discriminate.
    + exact i4.
Qed.

Theorem wa_q_refines rows rows' : refines rows rows' -> req (wa_q (cs rows) (ws rows)) (wa_q (cs rows') (ws rows')).
Proof.
  intros h. destruct (refines_facts rows rows' h) as [i1 [i2 [i3 i4]]].
  apply wa_q_congr.
  - unfold cs, ws. rewrite !map_length, !Nat.eqb_refl. reflexivity.
  - rewrite !ws_nonneg. reflexivity.
  - rewrite i1. tauto.
  - exact i4.
  - rewrite !keep_total, i3. tauto.
  - intros _. rewrite !wa_score_eq, !keep_num, !keep_total, i2, i3. reflexivity.
Qed.
End WaRefines.

Lemma map_fst_combine {A B} : forall (l : list A) (l' : list B), length l' = length l -> map fst (combine l l') = l.
Proof. induction l as [|x l IH]; intros [|y l'] H; try discriminate; [reflexivity|]. cbn. rewrite IH by (cbn in H; lia). reflexivity. Qed.
Lemma map_snd_combine {A B} : forall (l : list A) (l' : list B), length l' = length l -> map snd (combine l l') = l'.
Proof. induction l as [|x l IH]; intros [|y l'] H; try discriminate; [reflexivity|]. cbn. rewrite IH by (cbn in H; lia). reflexivity. Qed.

(* the comparisons and weights chord.evaluate derives from a merge result *)
Definition comparisons {L} (cmp : L -> L -> Z) (lx ly : list L) : list Z := map (fun p => cmp (fst p) (snd p)) (combine lx ly).
Definition durations_of (out : list iv) : list Q := map dur out.

Lemma cs_ws_of_merge {L} (cmp : L -> L -> Z) out (lx ly : list L) : length lx = length out -> length ly = length out ->
  cs (fun p => inject_Z (cmp (fst p) (snd p))) (combine out (combine lx ly)) = map inject_Z (comparisons cmp lx ly) /\
  ws (combine out (combine lx ly)) = durations_of out.
Proof.
  intros h1 h2. unfold cs, ws, comparisons, durations_of. split.
  - rewrite map_map. rewrite <- (map_map snd (fun p : L * L => inject_Z (cmp (fst p) (snd p)))).
    rewrite map_snd_combine by (rewrite combine_length; lia). reflexivity.
  - rewrite <- (map_map fst dur). rewrite map_fst_combine by (rewrite combine_length; lia). reflexivity.
Qed.

(* For ANY comparison function on label pairs: the weighted accuracy computed from the merged rows of the cut annotation
   equals the one computed from the merged rows of the original annotation (same exception or == scores). *)
Theorem wa_merge_refined_invariant {L} (cmp : L -> L -> Z) (r r' : res (list iv * list L * list L)) out lx ly out' lx' ly' :
  merge_refined r r' -> r = Ok (out, lx, ly) -> r' = Ok (out', lx', ly') ->
  req (wa (comparisons cmp lx' ly') (durations_of out')) (wa (comparisons cmp lx ly) (durations_of out)).
Proof.
  intros hm -> e. cbn in hm. destruct hm as (o2 & a2 & b2 & e2 & h1 & h2 & h3 & h4 & hr). rewrite e in e2. injection e2 as <- <- <-.
  destruct (cs_ws_of_merge cmp out lx ly h1 h2) as [c1 w1]. destruct (cs_ws_of_merge cmp out' lx' ly' h3 h4) as [c2 w2].
  unfold wa. rewrite <- c1, <- w1, <- c2, <- w2.
  pose proof (wa_q_refines (fun p : L * L => inject_Z (cmp (fst p) (snd p))) _ _ hr) as H.
  destruct (wa_q (cs _ (combine out (combine lx ly))) _) as [[]|], (wa_q (cs _ (combine out' (combine lx' ly'))) _) as [[]|];
    cbn in *; try tauto; try (symmetry; exact H); try congruence.
Qed.

Theorem wa_merge_split_invariant {L} (cmp : L -> L -> Z) i m (ri : list iv) (rl : list L) ei el out lx ly :
  length rl = length ri -> length el = length ei ->
  merge_labeled_intervals ri rl ei el = Ok (out, lx, ly) ->
  (cuttable i m ri ->
   exists out' lx' ly', merge_labeled_intervals (fst (split_at i m ri rl)) (snd (split_at i m ri rl)) ei el = Ok (out', lx', ly') /\
     req (wa (comparisons cmp lx' ly') (durations_of out')) (wa (comparisons cmp lx ly) (durations_of out))) /\
  (cuttable i m ei ->
   exists out' lx' ly', merge_labeled_intervals ri rl (fst (split_at i m ei el)) (snd (split_at i m ei el)) = Ok (out', lx', ly') /\
     req (wa (comparisons cmp lx' ly') (durations_of out')) (wa (comparisons cmp lx ly) (durations_of out))).
Proof.
  intros h1 h2 H. split; intros hc.
  - pose proof (merge_split_ref i m ri rl ei el h1 hc) as hm. pose proof hm as hm2. rewrite H in hm2. cbn in hm2.
    destruct hm2 as (o2 & a2 & b2 & e2 & _). exists o2, a2, b2. split; [exact e2|].
    eapply wa_merge_refined_invariant; [exact hm|exact H|exact e2].
  - pose proof (merge_split_est i m ri rl ei el h2 hc) as hm. pose proof hm as hm2. rewrite H in hm2. cbn in hm2.
    destruct hm2 as (o2 & a2 & b2 & e2 & _). exists o2, a2, b2. split; [exact e2|].
    eapply wa_merge_refined_invariant; [exact hm|exact H|exact e2].
Qed.

(* the hypotheses are satisfiable: cutting at a point that is NOT a boundary of the other annotation cuts a merged row,
   cutting at a boundary of the other annotation leaves the merged rows as they are *)
Example merge_split_example :
  merge_labeled_intervals [(0, 2); (2, 3)] [1; 2]%nat [(0, 1); (1, 3)] [11; 12]%nat
    = Ok ([(0, 1); (1, 2); (2, 3)], [1; 1; 2]%nat, [11; 12; 12]%nat) /\
  merge_labeled_intervals (fst (split_at 0 (1 # 2) [(0, 2); (2, 3)] [1; 2]%nat)) (snd (split_at 0 (1 # 2) [(0, 2); (2, 3)] [1; 2]%nat))
                          [(0, 1); (1, 3)] [11; 12]%nat
    = Ok ([(0, 1 # 2); (1 # 2, 1); (1, 2); (2, 3)], [1; 1; 1; 2]%nat, [11; 11; 12; 12]%nat) /\
  merge_labeled_intervals (fst (split_at 0 1 [(0, 2); (2, 3)] [1; 2]%nat)) (snd (split_at 0 1 [(0, 2); (2, 3)] [1; 2]%nat))
                          [(0, 1); (1, 3)] [11; 12]%nat
    = Ok ([(0, 1); (1, 2); (2, 3)], [1; 1; 2]%nat, [11; 12; 12]%nat).
Proof. repeat split; vm_compute; reflexivity. Qed.

Print Assumptions merge_split_ref.
Print Assumptions merge_split_est.
Print Assumptions wa_q_refines.
Print Assumptions wa_merge_refined_invariant.
Print Assumptions wa_merge_split_invariant.
