(* Tie of mir_eval/io.py::load_patterns (Gen/IOGen.v, language Model/IoExp.v) to IO.load_patterns for ALL file contents:
     load_patterns_tie : io_run gen_load_patterns [PPath text] = (emb_rres emb_pats (IO.load_patterns conv text), [])
   The three Python lists pattern_list / pattern / occurrence live in the heap of Model/IoExp.v and are shared by reference
   (pattern.append(occurrence), pattern_list.append(pattern)). Invariant [Inv h p o pl pat occ]: cell 0 lists references to
   closed pattern cells, cell p references to closed occurrence cells, cell o holds the current pairs; every closed cell avoids
   {0, p, o} (so the appends to these three cells never change what is reachable from a closed cell: [frame] lemmas), and the
   lists bound after a header are freshly allocated. The two flushes are heap updates [flush_occ] / [flush_pat]; their order
   matters exactly when a pattern has a single occurrence (seeded C20-b2 / C20-c1). The returned reference is resolved through
   the heap ([closed_deep]). *)
From Coq Require Import String.
From Coq Require Import List Bool Arith ZArith QArith Lia.
From ME Require Import Model.Prelude Model.Regex Model.ChordParse Model.Key Model.IO Model.IoExp Gen.IOGen Model.IoExpInst Proofs.IOProps.
Import ListNotations.
Close Scope Q_scope.
Local Open Scope string_scope.
Local Open Scope list_scope.

Definition pt_body : list stmt := f_body gen_load_patterns.
Definition pt_with : list stmt := match nth 3 pt_body SPass with SWith _ _ b => b | _ => [] end.
Definition pt_loop : list stmt := match nth 0 pt_with SPass with SFor _ _ b => b | _ => [] end.

Section Tie.
Variable num : Type.
Variable conv convv : str -> option num.
Variable val : num -> xval.
Notation pv := (pv num).
Notation heap := (heap num).

(* ------------------------------------------------------------------ heap facts *)
Lemma nth_set_other : forall {A} (h : list A) i v r, i <> r -> nth_error (set_nth h i v) r = nth_error h r.
Proof. induction h as [|x h IH]; intros [|i] v [|r] H; cbn; try reflexivity; try congruence. apply IH. congruence. Qed.
Lemma nth_set_same : forall {A} (h : list A) i v, i < length h -> nth_error (set_nth h i v) i = Some v.
Proof. induction h as [|x h IH]; intros [|i] v H; cbn in *; try lia; [reflexivity|]. apply IH. lia. Qed.
Lemma len_set : forall {A} (h : list A) i v, length (set_nth h i v) = length h.
Proof. induction h as [|x h IH]; intros [|i] v; cbn; try reflexivity. f_equal. apply IH. Qed.
Lemma nth_app_new : forall {A} (h : list A) l, nth_error (h ++ [l]) (length h) = Some l.
Proof. intros. rewrite nth_error_app2 by lia. rewrite Nat.sub_diag. reflexivity. Qed.
Lemma nth_lt : forall {A} (h : list A) r x, nth_error h r = Some x -> r < length h.
Proof. intros. apply nth_error_Some. congruence. Qed.

Definition emb_pair (xy : num * num) : pv := PTup num [PNum num (fst xy); PNum num (snd xy)].
Definition emb_occ (occ : list (num * num)) : pv := PList num (map emb_pair occ).
Definition emb_pat (pat : list (list (num * num))) : pv := PList num (map emb_occ pat).
Definition emb_pats (pl : list (list (list (num * num)))) : pv := PList num (map emb_pat pl).

Definition occ_av (h : heap) (X : list nat) (r : nat) (occ : list (num * num)) : Prop :=
  nth_error h r = Some (map emb_pair occ) /\ ~ In r X.
Definition pat_av (h : heap) (X : list nat) (r : nat) (pat : list (list (num * num))) : Prop :=
  exists orefs, nth_error h r = Some (map (PRef num) orefs) /\ ~ In r X /\ Forall2 (occ_av h X) orefs pat.
Definition Inv (h : heap) (p o : nat) pl pat occ : Prop :=
  (exists prefs, nth_error h 0 = Some (map (PRef num) prefs) /\ Forall2 (pat_av h [0; p; o]) prefs pl) /\
  (exists orefs, nth_error h p = Some (map (PRef num) orefs) /\ Forall2 (occ_av h [0; p; o]) orefs pat) /\
  nth_error h o = Some (map emb_pair occ) /\ p <> 0 /\ o <> 0 /\ o <> p.
(* all closed: what is reachable from pattern_list *)
Definition Closed (h : heap) pl : Prop :=
  exists prefs, nth_error h 0 = Some (map (PRef num) prefs) /\ Forall2 (pat_av h [0]) prefs pl.

Definition frame (h : heap) (X : list nat) (h' : heap) (X' : list nat) : Prop :=
  forall r, r < length h -> ~ In r X -> nth_error h' r = nth_error h r /\ ~ In r X'.
Lemma occ_av_frame : forall h X h' X', frame h X h' X' -> forall r occ, occ_av h X r occ -> occ_av h' X' r occ.
Proof. intros h X h' X' F r occ [H1 H2]. destruct (F r (nth_lt _ _ _ H1) H2) as [E N]. split; [congruence|exact N]. Qed.
Lemma occs_av_frame : forall h X h' X', frame h X h' X' -> forall orefs pat,
  Forall2 (occ_av h X) orefs pat -> Forall2 (occ_av h' X') orefs pat.
Proof. intros h X h' X' F orefs pat H. induction H; constructor; [eapply occ_av_frame; eassumption|assumption]. Qed.
Lemma pat_av_frame : forall h X h' X', frame h X h' X' -> forall r pat, pat_av h X r pat -> pat_av h' X' r pat.
Proof.
  intros h X h' X' F r pat (orefs & H1 & H2 & H3). destruct (F r (nth_lt _ _ _ H1) H2) as [E N].
  exists orefs. split; [congruence|]. split; [exact N|]. eapply occs_av_frame; eassumption.
Qed.
Lemma pats_av_frame : forall h X h' X', frame h X h' X' -> forall prefs pl,
  Forall2 (pat_av h X) prefs pl -> Forall2 (pat_av h' X') prefs pl.
Proof. intros h X h' X' F prefs pl H. induction H; constructor; [eapply pat_av_frame; eassumption|assumption]. Qed.

Lemma nonempty_map : forall {A B} (f : A -> B) l, nonempty (map f l) = nonempty l.
Proof. destruct l; reflexivity. Qed.
Lemma Forall2_nonempty : forall {A B} (P : A -> B -> Prop) l m, Forall2 P l m -> nonempty l = nonempty m.
Proof. intros A B P l m H. destruct H; reflexivity. Qed.
Lemma Forall2_snoc : forall {A B} (P : A -> B -> Prop) l m x y, Forall2 P l m -> P x y -> Forall2 P (l ++ [x]) (m ++ [y]).
Proof. intros. apply Forall2_app; [assumption|]. constructor; [assumption|constructor]. Qed.

(* the two flushes of the 'pattern' header / of the end of the file, as heap updates *)
Definition flush_occ (h : heap) (p o : nat) (cp co : list pv) : heap :=
  if nonempty co then set_nth h p (cp ++ [PRef num o]) else h.
Definition cp_after (o : nat) (cp co : list pv) : list pv := if nonempty co then cp ++ [PRef num o] else cp.
Definition flush_pat (h : heap) (p : nat) (c0 cp1 : list pv) : heap :=
  if nonempty cp1 then set_nth h 0 (c0 ++ [PRef num p]) else h.

Lemma not_in3 : forall (r a b c : nat), ~ In r [a; b; c] -> r <> a /\ r <> b /\ r <> c.
Proof. intros r a b c H. cbn in H. repeat split; intro; subst; tauto. Qed.

Lemma inv_flush_occ : forall h p o pl pat occ cp,
  Inv h p o pl pat occ -> nth_error h p = Some cp ->
  let h1 := flush_occ h p o cp (map emb_pair occ) in
  length h1 = length h /\ frame h [0; p; o] h1 [0; p] /\ nth_error h1 0 = nth_error h 0 /\ nth_error h1 o = nth_error h o /\
  exists orefs1, nth_error h1 p = Some (map (PRef num) orefs1) /\ cp_after o cp (map emb_pair occ) = map (PRef num) orefs1 /\
                 Forall2 (occ_av h1 [0; p]) orefs1 (close_occ pat occ).
Proof.
  intros h p o pl pat occ cp (HP & (orefs & Hp & Ho) & Hocc & Np & No & Nop) Hcp h1.
  assert (Ecp : cp = map (PRef num) orefs) by congruence. subst cp.
  assert (Lp : p < length h) by (eapply nth_lt; eassumption).
  subst h1. unfold flush_occ, cp_after, close_occ in *. rewrite !nonempty_map in *.
  destruct (nonempty occ) eqn:En.
  - assert (F : frame h [0; p; o] (set_nth h p (map (PRef num) orefs ++ [PRef num o])) [0; p]).
    { intros r Hr Hn. apply not_in3 in Hn as (A & B & C). split; [apply nth_set_other; congruence|]. cbn. intros [|[|[]]]; congruence. }
    split; [apply len_set|]. split; [exact F|]. split; [apply nth_set_other; congruence|]. split; [apply nth_set_other; congruence|].
    exists (orefs ++ [o]). split; [rewrite nth_set_same by exact Lp; rewrite map_app; reflexivity|]. split; [rewrite map_app; reflexivity|].
    apply Forall2_snoc; [eapply occs_av_frame; eassumption|].
    split; [rewrite nth_set_other by congruence; exact Hocc|]. cbn. intros [|[|[]]]; congruence.
  - assert (F : frame h [0; p; o] h [0; p]).
    { intros r Hr Hn. apply not_in3 in Hn as (A & B & C). split; [reflexivity|]. cbn. intros [|[|[]]]; congruence. }
    split; [reflexivity|]. split; [exact F|]. split; [reflexivity|]. split; [reflexivity|].
    exists orefs. split; [exact Hp|]. split; [reflexivity|]. eapply occs_av_frame; eassumption.
Qed.

Lemma frame_weaken : forall h X h' X' X'', frame h X h' X' -> (forall r, In r X'' -> In r X') -> frame h X h' X''.
Proof. intros h X h' X' X'' F I r Hr Hn. destruct (F r Hr Hn) as [E N]. split; [exact E|]. intro Hi. apply N, I, Hi. Qed.
Lemma frame_alloc : forall h X h1 X1 t X2, frame h X h1 X1 -> length h1 = length h ->
  (forall r, In r X2 -> In r X1 \/ length h <= r) -> frame h X (h1 ++ t) X2.
Proof.
  intros h X h1 X1 t X2 F L I r Hr Hn. destruct (F r Hr Hn) as [E N]. split.
  - rewrite nth_error_app1 by lia. exact E.
  - intro Hi. destruct (I r Hi) as [A|A]; [exact (N A)|lia].
Qed.
Lemma frame_id : forall h X, frame h X h X.
Proof. intros h X r Hr Hn. split; [reflexivity|exact Hn]. Qed.

Lemma inv_occ_header : forall h p o pl pat occ cp,
  Inv h p o pl pat occ -> nth_error h p = Some cp ->
  Inv (flush_occ h p o cp (map emb_pair occ) ++ [[]]) p (length h) pl (close_occ pat occ) [].
Proof.
  intros h p o pl pat occ cp HI Hcp.
  destruct (inv_flush_occ h p o pl pat occ cp HI Hcp) as (L & F & E0 & Eo & orefs1 & Hp1 & _ & Ho1).
  destruct HI as ((prefs & H0 & HP) & _ & Hocc & Np & No & Nop).
  set (h1 := flush_occ h p o cp (map emb_pair occ)) in *.
  assert (Lp : p < length h) by (eapply nth_lt; eassumption).
  assert (L0 : 0 < length h) by (eapply nth_lt; eassumption).
  assert (I3 : forall r, In r [0; p; length h] -> In r [0; p] \/ length h <= r).
  { cbn. intros r [A|[A|[A|[]]]]; subst; auto. }
  split; [|split; [|split; [|repeat split]]].
  - exists prefs. split; [rewrite nth_error_app1 by lia; congruence|].
    eapply pats_av_frame; [|exact HP]. eapply frame_alloc; eassumption.
  - exists orefs1. split; [rewrite nth_error_app1 by lia; exact Hp1|].
    eapply occs_av_frame; [|exact Ho1]. eapply frame_alloc; [apply frame_id|reflexivity|]. rewrite L. exact I3.
  - rewrite <- L. apply nth_app_new.
  - exact Np.
  - lia.
  - lia.
Qed.

Lemma inv_flush_both : forall h p o pl pat occ cp c0,
  Inv h p o pl pat occ -> nth_error h p = Some cp -> nth_error h 0 = Some c0 ->
  let h2 := flush_pat (flush_occ h p o cp (map emb_pair occ)) p c0 (cp_after o cp (map emb_pair occ)) in
  Closed h2 (close_pat pl (close_occ pat occ)) /\ length h2 = length h.
Proof.
  intros h p o pl pat occ cp c0 HI Hcp Hc0 h2.
  destruct (inv_flush_occ h p o pl pat occ cp HI Hcp) as (L & F & E0 & Eo & orefs1 & Hp1 & Ecp & Ho1).
  destruct HI as ((prefs & H0 & HP) & _ & Hocc & Np & No & Nop).
  set (h1 := flush_occ h p o cp (map emb_pair occ)) in *.
  assert (Ec0 : c0 = map (PRef num) prefs) by congruence. subst c0.
  assert (L0 : 0 < length h1) by (rewrite L; eapply nth_lt; eassumption).
  subst h2. unfold flush_pat, close_pat. rewrite Ecp, nonempty_map, (Forall2_nonempty _ _ _ Ho1).
  destruct (nonempty (close_occ pat occ)) eqn:En.
  - split; [|rewrite len_set; exact L].
    assert (F2 : frame h [0; p; o] (set_nth h1 0 (map (PRef num) prefs ++ [PRef num p])) [0]).
    { intros r Hr Hn. destruct (F r Hr Hn) as [E N]. apply not_in3 in Hn as (A & B & C).
      split; [rewrite nth_set_other by congruence; exact E|]. cbn. intros [|[]]; congruence. }
    exists (prefs ++ [p]). split; [rewrite nth_set_same by exact L0; rewrite map_app; reflexivity|].
    apply Forall2_snoc; [eapply pats_av_frame; eassumption|].
    exists orefs1. split; [rewrite nth_set_other by congruence; exact Hp1|]. split; [cbn; intros [|[]]; congruence|].
    eapply occs_av_frame; [|exact Ho1].
    intros r Hr Hn. split; [apply nth_set_other; intro; subst; apply Hn; cbn; auto|]. cbn. intros [|[]]. subst. apply Hn. cbn. auto.
  - split; [|exact L]. exists prefs. split; [congruence|].
    eapply pats_av_frame; [|exact HP]. eapply frame_weaken; [exact F|]. cbn. intros r [|[]]; auto.
Qed.

Lemma closed_alloc2 : forall h pl, Closed h pl ->
  Inv ((h ++ [[]]) ++ [[]]) (S (length h)) (length h) pl [] [].
Proof.
  intros h pl (prefs & H0 & HP).
  assert (L0 : 0 < length h) by (eapply nth_lt; eassumption).
  split; [|split; [|split; [|repeat split]]].
  - exists prefs. split; [rewrite !nth_error_app1 by (rewrite ?app_length; cbn; lia); exact H0|].
    eapply pats_av_frame; [|exact HP].
    intros r Hr Hn. split; [rewrite !nth_error_app1 by (rewrite ?app_length; cbn; lia); reflexivity|].
    cbn. intros [A|[A|[A|[]]]]; try lia. subst. apply Hn. cbn. auto.
  - exists []. split; [|constructor]. replace (S (length h)) with (length (h ++ [[]])) by (rewrite app_length; cbn; lia). apply nth_app_new.
  - rewrite nth_error_app1 by (rewrite app_length; cbn; lia). apply nth_app_new.
  - lia.
  - lia.
  - lia.
Qed.

Lemma inv_data : forall h p o pl pat occ xy,
  Inv h p o pl pat occ -> Inv (set_nth h o (map emb_pair occ ++ [emb_pair xy])) p o pl pat (occ ++ [xy]).
Proof.
  intros h p o pl pat occ xy ((prefs & H0 & HP) & (orefs & Hp & Ho) & Hocc & Np & No & Nop).
  assert (F : frame h [0; p; o] (set_nth h o (map emb_pair occ ++ [emb_pair xy])) [0; p; o]).
  { intros r Hr Hn. split; [|exact Hn]. apply not_in3 in Hn as (A & B & C). apply nth_set_other. congruence. }
  split; [|split; [|split; [|repeat split; assumption]]].
  - exists prefs. split; [rewrite nth_set_other by congruence; exact H0|]. eapply pats_av_frame; eassumption.
  - exists orefs. split; [rewrite nth_set_other by congruence; exact Hp|]. eapply occs_av_frame; eassumption.
  - rewrite nth_set_same by (eapply nth_lt; eassumption). rewrite map_app. reflexivity.
Qed.

(* resolving the returned reference through the heap *)
Lemma omap_refs : forall {A} (g : pv -> option pv) (P : nat -> A -> Prop) (F : A -> pv),
  (forall r x, P r x -> g (PRef num r) = Some (F x)) ->
  forall refs xs, Forall2 P refs xs -> omap g (map (PRef num) refs) = Some (map F xs).
Proof. intros A g P F H refs xs H2. induction H2 as [|r x refs xs Hr _ IH]; [reflexivity|]. cbn [map omap]. rewrite (H _ _ Hr), IH. reflexivity. Qed.
Lemma deep_ref_eq : forall f h n, deep num (S f) h (PRef num n) =
  match nth_error h n with Some l => option_map (PList num) (omap (deep num f h) l) | None => None end.
Proof. reflexivity. Qed.
Lemma omap_deep_pairs : forall f h occ, omap (deep num (S (S f)) h) (map emb_pair occ) = Some (map emb_pair occ).
Proof. induction occ as [|xy occ IH]; [reflexivity|]. cbn [map omap]. rewrite IH. reflexivity. Qed.
Lemma deep_occ : forall f h X r occ, occ_av h X r occ -> deep num (S (S (S f))) h (PRef num r) = Some (emb_occ occ).
Proof. intros f h X r occ [H _]. rewrite deep_ref_eq, H, omap_deep_pairs. reflexivity. Qed.
Lemma deep_pat : forall f h X r pat, pat_av h X r pat -> deep num (S (S (S (S f)))) h (PRef num r) = Some (emb_pat pat).
Proof.
  intros f h X r pat (orefs & H & _ & HO). rewrite deep_ref_eq, H.
  rewrite (omap_refs _ (occ_av h X) emb_occ (fun r x Hx => deep_occ f h X r x Hx) _ _ HO). reflexivity.
Qed.
Lemma closed_deep : forall h pl, Closed h pl -> deep num deep_fuel h (PRef num 0) = Some (emb_pats pl).
Proof.
  intros h pl (prefs & H & HP). unfold deep_fuel. rewrite deep_ref_eq, H.
  rewrite (omap_refs _ (pat_av h [0]) emb_pat (fun r x Hx => deep_pat 3 h [0] r x Hx) _ _ HP). reflexivity.
Qed.

(* ------------------------------------------------------------------ execution *)
Notation run_block := (run_block num).
Notation exec := (exec num conv convv val (io_sigs num) (io_ext num conv val)).
Notation for_loop := (for_loop num).
Notation for_step := (for_step num).
Notation mk := (Build_st num).

Definition pt_env text (p o : nat) (row line sv om : pv) : env num :=
  [("filename", PPath num text); ("pattern_list", PRef num 0); ("pattern", PRef num p); ("occurrence", PRef num o);
   ("input_file", PFile num text); ("row", row); ("line", line); ("string_values", sv); ("onset_midi", om)].

Local Arguments lines : simpl never.
Local Arguments IO.contains : simpl never.
Local Arguments split_on : simpl never.
Local Arguments patterns_loop : simpl never.
Local Arguments Z.sub : simpl never.
Local Arguments Z.add : simpl never.
Local Arguments Z.of_nat : simpl never.
Local Arguments Z.to_nat : simpl never.
Local Arguments Z.eqb : simpl never.
Local Arguments norm_idx : simpl never.
Local Arguments IoExp.for_loop : simpl never.
Local Arguments io_sigs : simpl never.
Local Arguments nth_error {A} !l !n : simpl nomatch.
Local Arguments set_nth : simpl never.

Lemma run_block_cons_eq : forall s r st res, exec s st = res ->
  run_block exec (s :: r) st = match res with SNorm _ s' => run_block exec r s' | o => o end.
Proof. intros; subst. unfold IoExp.run_block. destruct (exec s st); reflexivity. Qed.
Ltac stepH H tac := erewrite run_block_cons_eq in H by (cbn; tac; cbn; reflexivity); cbv beta iota in H.
Ltac step tac := erewrite run_block_cons_eq by (cbn; tac; cbn; reflexivity); cbv beta iota.
Lemma for_loop_cons : forall step v t s,
  for_loop step (v :: t) s = match step v s with SNorm _ s' | SCnt _ s' => for_loop step t s' | r => r end.
Proof. reflexivity. Qed.
Lemma zeqb_nat2 : forall a, Z.eqb (Z.of_nat a) 2 = Nat.eqb a 2.
Proof. intros. destruct (Nat.eqb_spec a 2); [subst; reflexivity|]. apply Z.eqb_neq. lia. Qed.

Lemma exec_if_occ : forall text p o row line sv om h co cp,
  nth_error h o = Some co -> nth_error h p = Some cp ->
  exec (SIf (ECmp CNe (ELoc "occurrence") (EList [])) [SAppend "pattern" (ELoc "occurrence")] [])
       (mk (pt_env text p o row line sv om) h [])
  = SNorm num (mk (pt_env text p o row line sv om) (flush_occ h p o cp co) []).
Proof.
  intros text p o row line sv om h co cp Ho Hp. unfold flush_occ. cbn. rewrite Ho. destruct co as [|c co]; cbn; [reflexivity|].
  rewrite Hp. reflexivity.
Qed.
Lemma exec_if_pat : forall text p o row line sv om h cp c0,
  nth_error h p = Some cp -> nth_error h 0 = Some c0 ->
  exec (SIf (ECmp CNe (ELoc "pattern") (EList [])) [SAppend "pattern_list" (ELoc "pattern")] [])
       (mk (pt_env text p o row line sv om) h [])
  = SNorm num (mk (pt_env text p o row line sv om) (flush_pat h p c0 cp) []).
Proof.
  intros text p o row line sv om h cp c0 Hp H0. unfold flush_pat. cbn. rewrite Hp. destruct cp as [|c cp]; cbn; [reflexivity|].
  rewrite H0. reflexivity.
Qed.

Lemma exec_if_in : forall needle line A B st, lookup num "line" (s_env num st) = Some (PStr num line) ->
  exec (SIf (EIn (EStr needle) (ELoc "line")) A B) st = run_block exec (if IO.contains needle line then A else B) st.
Proof.
  intros needle line A B st H. cbn [IoExp.exec eval]. unfold get_loc. rewrite H. cbn [obind contains_op lift_e truth].
  destruct (IO.contains needle line); reflexivity.
Qed.
Lemma exec_if_in_pt : forall needle A B text p o row line sv om h,
  exec (SIf (EIn (EStr needle) (ELoc "line")) A B) (mk (pt_env text p o row (PStr num line) sv om) h [])
  = run_block exec (if IO.contains needle line then A else B) (mk (pt_env text p o row (PStr num line) sv om) h []).
Proof. intros. apply exec_if_in. reflexivity. Qed.
Lemma run_block_nil : forall st, run_block exec [] st = SNorm num st.
Proof. reflexivity. Qed.
Lemma pt_step : forall text k line p o row0 line0 sv0 om0 h pl pat occ R,
  Inv h p o pl pat occ ->
  R = for_step (run_block exec) ["row"; "line"] pt_loop (PTup num [PInt num (Z.of_nat k); PStr num line])
        (mk (pt_env text p o row0 line0 sv0 om0) h []) ->
  if IO.contains s_pattern line then
    exists h' p' o', R = SCnt num (mk (pt_env text p' o' (PInt num (Z.of_nat k)) (PStr num line) sv0 om0) h' [])
                     /\ Inv h' p' o' (close_pat pl (close_occ pat occ)) [] []
  else if IO.contains s_occurrence line then
    exists h' o', R = SCnt num (mk (pt_env text p o' (PInt num (Z.of_nat k)) (PStr num line) sv0 om0) h' [])
                  /\ Inv h' p o' pl (close_occ pat occ) []
  else match split_on c_comma line with
       | [a; b] =>
           match conv a with
           | None => R = SExn num ValueError (XRows []) []
           | Some x => match conv b with
                       | None => R = SExn num ValueError (XRows []) []
                       | Some y => exists h' sv' om',
                           R = SNorm num (mk (pt_env text p o (PInt num (Z.of_nat k)) (PStr num line) sv' om') h' [])
                           /\ Inv h' p o pl pat (occ ++ [(x, y)])
                       end
           end
       | _ => R = SExn num ValueError (XRows [Z.of_nat k]) []
       end.
Proof.
  intros text k line p o row0 line0 sv0 om0 h pl pat occ R HI HR.
  unfold for_step in HR. cbn [bind_target unpack elems lift_e s_heap s_warn set_all] in HR.
  unfold pt_env in HR. cbn [set1 update s_env s_heap s_warn String.eqb Ascii.eqb Bool.eqb option_map] in HR.
  fold (pt_env text p o (PInt num (Z.of_nat k)) (PStr num line) sv0 om0) in HR.
  let b := eval vm_compute in pt_loop in change pt_loop with b in HR.
  pose proof HI as ((prefs & H0 & HP) & (orefs & Hp & Ho) & Hocc & Np & No & Nop).
  destruct (IO.contains s_pattern line) eqn:Ec1.
  - unfold s_pattern in Ec1.
    rewrite (run_block_cons_eq _ _ _ _ (exec_if_in_pt _ _ _ _ _ _ _ _ _ _ _)) in HR. rewrite Ec1 in HR.
    rewrite (run_block_cons_eq _ _ _ _ (exec_if_occ _ _ _ _ _ _ _ _ _ _ Hocc Hp)) in HR. cbv beta iota in HR.
    destruct (inv_flush_occ h p o pl pat occ _ HI Hp) as (L & F & E0 & Eo & orefs1 & Hp1 & Ecp & Ho1).
    rewrite <- Ecp in Hp1. rewrite <- E0 in H0.
    rewrite (run_block_cons_eq _ _ _ _ (exec_if_pat _ _ _ _ _ _ _ _ _ _ Hp1 H0)) in HR. cbv beta iota in HR.
    destruct (inv_flush_both h p o pl pat occ _ _ HI Hp ltac:(rewrite <- H0; symmetry; exact E0)) as (HC & L2).
    set (h2 := flush_pat _ _ _ _) in *.
    unfold pt_env in HR. stepH HR idtac. stepH HR idtac. stepH HR idtac.
    rewrite app_length in HR. cbn [length] in HR. rewrite Nat.add_1_r in HR.
    exists ((h2 ++ [[]]) ++ [[]]), (S (length h2)), (length h2). split; [exact HR|]. apply closed_alloc2. exact HC.
  - unfold s_pattern in Ec1.
    rewrite (run_block_cons_eq _ _ _ _ (exec_if_in_pt _ _ _ _ _ _ _ _ _ _ _)) in HR. rewrite Ec1, run_block_nil in HR. cbv beta iota in HR.
    destruct (IO.contains s_occurrence line) eqn:Ec2.
    + unfold s_occurrence in Ec2.
      rewrite (run_block_cons_eq _ _ _ _ (exec_if_in_pt _ _ _ _ _ _ _ _ _ _ _)) in HR. rewrite Ec2 in HR.
      rewrite (run_block_cons_eq _ _ _ _ (exec_if_occ _ _ _ _ _ _ _ _ _ _ Hocc Hp)) in HR. cbv beta iota in HR.
      destruct (inv_flush_occ h p o pl pat occ _ HI Hp) as (L & _).
      pose proof (inv_occ_header h p o pl pat occ _ HI Hp) as HI'.
      set (h1 := flush_occ _ _ _ _ _) in *.
      unfold pt_env in HR. stepH HR idtac. stepH HR idtac.
      exists (h1 ++ [[]]), (length h1). split; [exact HR|]. rewrite L. exact HI'.
    + unfold s_occurrence in Ec2.
      rewrite (run_block_cons_eq _ _ _ _ (exec_if_in_pt _ _ _ _ _ _ _ _ _ _ _)) in HR. rewrite Ec2, run_block_nil in HR. cbv beta iota in HR.
      unfold pt_env in HR.
      stepH HR idtac.
      destruct (split_on c_comma line) as [|a [|b [|c rest]]] eqn:Es; unfold c_comma in Es; rewrite Es in HR.
      * stepH HR ltac:(rewrite zeqb_nat2). exact HR.
      * stepH HR ltac:(rewrite zeqb_nat2). exact HR.
      * stepH HR ltac:(rewrite zeqb_nat2).
        destruct (conv a) as [x|] eqn:Ea.
        2:{ stepH HR ltac:(change (norm_idx 0 2) with (Some 0%nat); cbn; rewrite Ea). exact HR. }
        destruct (conv b) as [y|] eqn:Eb.
        2:{ stepH HR ltac:(change (norm_idx 0 2) with (Some 0%nat); change (norm_idx 1 2) with (Some 1%nat); cbn; rewrite Ea, Eb). exact HR. }
        stepH HR ltac:(change (norm_idx 0 2) with (Some 0%nat); change (norm_idx 1 2) with (Some 1%nat); cbn; rewrite Ea, Eb).
        stepH HR ltac:(rewrite Hocc).
        eexists _, _, _. split; [exact HR|]. apply (inv_data h p o pl pat occ (x, y) HI).
      * stepH HR ltac:(rewrite zeqb_nat2, map_length). exact HR.
Qed.

Lemma patterns_loop_cons : forall row line rest pl pat occ,
  patterns_loop num conv row (line :: rest) pl pat occ =
  if IO.contains s_pattern line then patterns_loop num conv (S row) rest (close_pat pl (close_occ pat occ)) [] []
  else if IO.contains s_occurrence line then patterns_loop num conv (S row) rest pl (close_occ pat occ) []
  else match split_on c_comma line with
       | [a; b] =>
           match conv a with
           | None => RaiseNoRow ValueError
           | Some x => match conv b with
                       | None => RaiseNoRow ValueError
                       | Some y => patterns_loop num conv (S row) rest pl pat (occ ++ [(x, y)])
                       end
           end
       | _ => RaiseAt row ValueError
       end.
Proof. reflexivity. Qed.

Lemma pt_loop_tie : forall text ls k h p o pl pat occ row0 line0 sv0 om0,
  Inv h p o pl pat occ ->
  match patterns_loop num conv k ls pl pat occ with
  | ROk res => exists h' p' o' pl' pat' occ' row' line' sv' om',
      for_loop (for_step (run_block exec) ["row"; "line"] pt_loop) (enum_from num (Z.of_nat k) (map (PStr num) ls))
        (mk (pt_env text p o row0 line0 sv0 om0) h [])
      = SNorm num (mk (pt_env text p' o' row' line' sv' om') h' [])
      /\ Inv h' p' o' pl' pat' occ' /\ res = close_pat pl' (close_occ pat' occ')
  | RaiseAt r e =>
      for_loop (for_step (run_block exec) ["row"; "line"] pt_loop) (enum_from num (Z.of_nat k) (map (PStr num) ls))
        (mk (pt_env text p o row0 line0 sv0 om0) h [])
      = SExn num e (XRows [Z.of_nat r]) []
  | RaiseNoRow e =>
      for_loop (for_step (run_block exec) ["row"; "line"] pt_loop) (enum_from num (Z.of_nat k) (map (PStr num) ls))
        (mk (pt_env text p o row0 line0 sv0 om0) h [])
      = SExn num e (XRows []) []
  end.
Proof.
  intros text. induction ls as [|line ls IH]; intros k h p o pl pat occ row0 line0 sv0 om0 HI.
  - change (patterns_loop num conv k [] pl pat occ) with (ROk (close_pat pl (close_occ pat occ))). cbv beta iota.
    exists h, p, o, pl, pat, occ, row0, line0, sv0, om0. split; [reflexivity|]. split; [exact HI|reflexivity].
  - rewrite patterns_loop_cons. cbn [map enum_from]. rewrite !for_loop_cons.
    replace (Z.of_nat k + 1)%Z with (Z.of_nat (S k)) by lia.
    pose proof (pt_step text k line p o row0 line0 sv0 om0 h pl pat occ _ HI eq_refl) as OS.
    destruct (IO.contains s_pattern line).
    { destruct OS as (h' & p' & o' & OS & HI'). rewrite OS. apply IH. exact HI'. }
    destruct (IO.contains s_occurrence line).
    { destruct OS as (h' & o' & OS & HI'). rewrite OS. apply IH. exact HI'. }
    destruct (split_on c_comma line) as [|a [|b [|c rest]]]; try (rewrite OS; reflexivity).
    destruct (conv a) as [x|]; [|rewrite OS; reflexivity].
    destruct (conv b) as [y|]; [|rewrite OS; reflexivity].
    destruct OS as (h' & sv' & om' & OS & HI'). rewrite OS. apply IH. exact HI'.
Qed.

Lemma sig_open : lookup_sig num (io_sigs num) "_open" = Some [("file_or_str", None); ("mode", None)].
Proof. vm_compute. reflexivity. Qed.
Lemma inv_init : Inv [[]; []; []] 1 2 [] [] [].
Proof.
  split; [exists []; split; [reflexivity|constructor]|]. split; [exists []; split; [reflexivity|constructor]|].
  split; [reflexivity|]. repeat split; lia.
Qed.

Theorem load_patterns_tie : forall text,
  io_run num conv convv val gen_load_patterns [PPath num text]
  = (emb_rres num emb_pats (load_patterns num conv text), []).
Proof.
  intros text. unfold io_run, run_fun. change (Nat.eqb _ _) with true. cbv iota. unfold exec_block.
  let b := eval vm_compute in (f_body gen_load_patterns) in change (f_body gen_load_patterns) with b.
  let b := eval vm_compute in (init_env num gen_load_patterns [PPath num text]) in
    change (init_env num gen_load_patterns [PPath num text]) with b.
  step idtac. step idtac. step idtac.
  set (U := PUnbound num).
  match goal with |- context [run_block exec (SWith ?x ?e ?body :: _) (mk ?en ?h ?w)] =>
    assert (EW : exec (SWith x e body) (mk en h w) = run_block exec body (mk (pt_env text 1 2 U U U U) h w))
      by (cbn [IoExp.exec eval]; unfold get_loc; cbn [lookup String.eqb Ascii.eqb Bool.eqb obind]; rewrite sig_open; reflexivity) end.
  rewrite (run_block_cons_eq _ _ _ _ EW). clear EW.
  pose proof (pt_loop_tie text (lines text) 1 _ 1 2 [] [] [] U U U U inv_init) as OL.
  change (Z.of_nat 1) with 1%Z in OL.
  let b := eval vm_compute in pt_loop in change pt_loop with b in OL.
  unfold load_patterns.
  destruct (patterns_loop num conv 1 (lines text) [] [] []) as [res|r e|e].
  - destruct OL as (h' & p' & o' & pl' & pat' & occ' & row' & line' & sv' & om' & OL & HI & ->).
    step ltac:(rewrite OL).
    pose proof HI as ((prefs & H0 & HP) & (orefs & Hp & Ho) & Hocc & Np & No & Nop).
    rewrite (run_block_cons_eq _ _ _ _ (exec_if_occ _ _ _ _ _ _ _ _ _ _ Hocc Hp)). cbv beta iota.
    destruct (inv_flush_occ h' p' o' pl' pat' occ' _ HI Hp) as (L & F & E0 & Eo & orefs1 & Hp1 & Ecp & Ho1).
    rewrite <- Ecp in Hp1. rewrite <- E0 in H0.
    rewrite (run_block_cons_eq _ _ _ _ (exec_if_pat _ _ _ _ _ _ _ _ _ _ Hp1 H0)). cbv beta iota.
    destruct (inv_flush_both h' p' o' pl' pat' occ' _ _ HI Hp ltac:(rewrite <- H0; symmetry; exact E0)) as (HC & L2).
    rewrite run_block_nil. cbv beta iota.
    unfold pt_env. step idtac. cbn [s_heap s_warn]. rewrite (closed_deep _ _ HC). reflexivity.
  - step ltac:(rewrite OL). reflexivity.
  - step ltac:(rewrite OL). reflexivity.
Qed.
End Tie.
Check load_patterns_tie.
Print Assumptions load_patterns_tie.
