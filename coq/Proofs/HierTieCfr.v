(* The internals of mir_eval/hierarchy.py tied to the model by TRANSLATION, part 2: _compare_frame_rankings (whole body).
   [compare_frame_rankings_tie]: for EVERY function np.argsort may be ([argsort_ok]: a permutation of the indices that sorts
   the reference; satisfiable: [stable_argsort_ok]), with _count_inversions = the model's (tied in HierTie.v), the generated
   program returns (inversions, float(normalizer)) of Model.Hierarchy.cfr for all equally long non-negative integer arrays and
   both modes, the (0, 0.0) special case included; [compare_frame_rankings_short_tie]: IndexError when est is shorter.
   Method: the model's body on any sorted arrangement ([cfr_of], [cfr_of_spec] = the proof of HierarchyRank.cfr_spec), np.unique's
   first-occurrence indices on a sorted array = prefix sums of the counts ([positions_starts]), the two loops by induction. *)
From Coq Require Import String.
From Coq Require Import List Bool Arith ZArith QArith Lia Permutation.
From ME Require Import Model.Prelude Model.Events Model.Hierarchy Model.HierExp Gen.HierGen.
From ME Require Import Proofs.HierarchyInv Proofs.HierarchyRank Proofs.HierTie.
Import ListNotations.
Local Open Scope nat_scope.

(* ================================================================= pure facts ================================= *)
(* a list of naturals in non-decreasing order *)
Fixpoint nsorted (l : list nat) : Prop :=
  match l with [] => True | x :: t => (forall y, In y t -> x <= y) /\ nsorted t end.

(* np.unique(return_index=True) on a sorted array: the first occurrence of v is the number of smaller entries *)
Lemma first_index_sorted v rs : nsorted rs -> In v rs -> first_index v rs = lsum (fun x => b2n (x <? v)) rs.
Proof.
  induction rs as [|x rs IH]; intros HS Hv; [destruct Hv|]. destruct HS as [H1 H2]. cbn [first_index]. rewrite lsum_cons.
  destruct (x =? v) eqn:E.
  - apply Nat.eqb_eq in E. subst x. rewrite Nat.ltb_irrefl. cbn [b2n]. symmetry. apply lsum_zero.
    intros y Hy. specialize (H1 y Hy). destruct (y <? v) eqn:E; [apply Nat.ltb_lt in E; lia|reflexivity].
  - apply Nat.eqb_neq in E. destruct Hv as [Hv|Hv]; [contradiction|]. specialize (H1 v Hv).
    assert (Hlt : x <? v = true) by (apply Nat.ltb_lt; lia). rewrite Hlt. cbn [b2n]. rewrite (IH H2 Hv). reflexivity.
Qed.

(* the break points: start of every level, then the total *)
Fixpoint starts (st : nat) (u : wl) : list nat :=
  match u with [] => [st] | (v, c) :: t => st :: starts (st + c) t end.
Fixpoint tuples (st : nat) (u : wl) : list (nat * nat * nat * nat) :=
  match u with [] => [] | (v, c) :: t => (v, c, st, st + c) :: tuples (st + c) t end.
Definition t_v (t : nat * nat * nat * nat) : nat := fst (fst (fst t)).
Definition t_c (t : nat * nat * nat * nat) : nat := snd (fst (fst t)).
Definition t_s (t : nat * nat * nat * nat) : nat := snd (fst t).
Definition t_e (t : nat * nat * nat * nat) : nat := snd t.

Lemma sum_lt_cons w c t v : sum_lt ((w, c) :: t) v = (if w <? v then c else 0) + sum_lt t v.
Proof. reflexivity. Qed.
Lemma starts_sum_lt u : incr u -> forall st,
  map (fun p => st + sum_lt u (fst p)) u ++ [st + lsum snd u] = starts st u.
Proof.
  induction u as [|[v c] t IH]; intros Hu st; [cbn; f_equal; lia|].
  assert (Ht : incr t) by (eapply incr_tail; eassumption).
  cbn [map app starts fst]. rewrite sum_lt_cons, Nat.ltb_irrefl.
  assert (Hz : sum_lt t v = 0).
  { apply lsum_zero. intros p Hp. apply (incr_lb _ _ Hu) in Hp. cbn [fst] in Hp.
    destruct (fst p <? v) eqn:E; [apply Nat.ltb_lt in E; lia|reflexivity]. }
  rewrite Hz. f_equal; [lia|]. rewrite <- (IH Ht (st + c)). rewrite lsum_cons. cbn [snd]. f_equal; [|f_equal; lia].
  apply map_ext_in. intros p Hp. rewrite sum_lt_cons. apply (incr_lb _ _ Hu) in Hp. cbn [fst] in Hp.
  apply Nat.ltb_lt in Hp. rewrite Hp. lia.
Qed.
Lemma lsum_snd_uc_insert x u : lsum snd (uc_insert x u) = S (lsum snd u).
Proof.
  induction u as [|[v c] t IH]; cbn [uc_insert]; [reflexivity|]. destruct (x <? v); [reflexivity|].
  destruct (x =? v); [reflexivity|]. rewrite !lsum_cons, IH. cbn [snd]. lia.
Qed.
Lemma lsum_snd_ucounts l : lsum snd (ucounts l) = length l.
Proof. induction l as [|x l IH]; [reflexivity|]. cbn [ucounts fold_right length]. fold (ucounts l). rewrite lsum_snd_uc_insert, IH. reflexivity. Qed.
(* positions (as np.unique returns them) followed by len(ref_sorted) *)
Lemma positions_starts rs : nsorted rs ->
  map (fun p => first_index (fst p) rs) (ucounts rs) ++ [length rs] = starts 0 (ucounts rs).
Proof.
  intros HS. rewrite <- (starts_sum_lt (ucounts rs) (incr_ucounts rs) 0). cbn [Nat.add]. rewrite lsum_snd_ucounts. f_equal.
  apply map_ext_in. intros p Hp. rewrite sum_lt_ucounts. apply first_index_sorted; [exact HS|].
  apply ucounts_keys. apply in_map. exact Hp.
Qed.
Lemma starts_length st u : length (starts st u) = S (length u).
Proof. revert st. induction u as [|[v c] t IH]; intros st; [reflexivity|]. cbn [starts length]. rewrite IH. reflexivity. Qed.
Lemma starts_firstn u : forall st, firstn (length u) (starts st u) = map t_s (tuples st u).
Proof. induction u as [|[v c] t IH]; intros st; [reflexivity|]. cbn [length starts firstn tuples map]. rewrite IH. reflexivity. Qed.
Lemma starts_tl u : forall st, skipn 1 (starts st u) = map t_e (tuples st u).
Proof.
  induction u as [|[v c] t IH]; intros st; [reflexivity|]. cbn [starts skipn tuples map]. unfold t_e at 1. cbn [snd].
  specialize (IH (st + c)). destruct t as [|[v' c'] t']; [reflexivity|]. cbn [starts skipn] in *. rewrite IH. reflexivity.
Qed.
Lemma tuples_v u : forall st, map fst u = map t_v (tuples st u).
Proof. induction u as [|[v c] t IH]; intros st; [reflexivity|]. cbn [map tuples]. rewrite <- IH. reflexivity. Qed.
Lemma tuples_c u : forall st, map snd u = map t_c (tuples st u).
Proof. induction u as [|[v c] t IH]; intros st; [reflexivity|]. cbn [map tuples]. rewrite <- IH. reflexivity. Qed.
Lemma with_pos_tuples u : forall st, with_pos st u = map (fun t => (t_v t, (t_s t, t_e t))) (tuples st u).
Proof. induction u as [|[v c] t IH]; intros st; [reflexivity|]. cbn [with_pos tuples map]. rewrite IH. reflexivity. Qed.
Lemma tuples_keys u : forall st t, In t (tuples st u) -> In (t_v t, t_c t) u.
Proof.
  induction u as [|[v c] r IH]; intros st t H; [destruct H|]. cbn [tuples] in H. destruct H as [<-|H]; [left; reflexivity|].
  right. eapply IH. exact H.
Qed.
Lemma transpose4 {T} (f1 f2 f3 f4 : T -> pv) l :
  transpose_min [map f1 l; map f2 l; map f3 l; map f4 l] = map (fun t => [f1 t; f2 t; f3 t; f4 t]) l.
Proof. induction l as [|x l IH]; [reflexivity|]. cbn [map transpose_min combine] in *. rewrite IH. reflexivity. Qed.

(* defaultdict with distinct integer keys *)
Lemma dset_fresh items k v : (forall p, In p items -> fst p <> k) -> dset items k v = items ++ [(k, v)].
Proof.
  induction items as [|[k' w] t IH]; intros H; [reflexivity|]. cbn [dset app].
  destruct (k' =? k)%Z eqn:E; [apply Z.eqb_eq in E; exfalso; apply (H (k', w)); [left; reflexivity|exact E]|].
  rewrite IH; [reflexivity|]. intros p Hp. apply H. now right.
Qed.
Lemma dget_map {T} (key : T -> nat) (val : T -> pv) l k :
  dget (map (fun t => (Z.of_nat (key t), val t)) l) (Z.of_nat k)
  = match find (fun t => key t =? k) l with Some t => Some (val t) | None => None end.
Proof.
  induction l as [|t l IH]; [reflexivity|]. cbn [map dget find]. rewrite zeqb_nat. destruct (key t =? k); [reflexivity|exact IH].
Qed.
Lemma find_map_key {T} (key : T -> nat) (f : T -> nat * (nat * nat)) l k : (forall t, fst (f t) = key t) ->
  find (fun p => fst p =? k) (map f l) = match find (fun t => key t =? k) l with Some t => Some (f t) | None => None end.
Proof. intros H. induction l as [|t l IH]; [reflexivity|]. cbn [map find]. rewrite H. destruct (key t =? k); [reflexivity|exact IH]. Qed.

(* sum([...]) over naturals *)
Lemma sum_vals_nat {T} (g : T -> nat) l : forall z, sum_vals (VInt z) (map (fun t => zn (g t)) l) = OK (VInt (z + Z.of_nat (lsum g l))).
Proof.
  induction l as [|t l IH]; intros z; [cbn; f_equal; f_equal; lia|]. cbn [map sum_vals]. cbn [zn num_op zarith option_map of_opt obind].
  rewrite IH. rewrite lsum_cons. f_equal. f_equal. lia.
Qed.
Lemma qeqb_zq_nat n : qeqb (zq (Z.of_nat n)) (zq 0) = (n =? 0).
Proof.
  unfold qeqb, zq. destruct (Nat.eqb_spec n 0) as [->|Hn]; [reflexivity|].
  apply not_true_is_false. rewrite Qeq_bool_iff. unfold Qeq, inject_Z. cbn. lia.
Qed.

(* ---------- the body of the model's cfr on ANY sorted arrangement of the (ref, est) pairs ---------- *)
Definition cfr_of (rs es : list nat) (tr : bool) : nat * nat :=
  let u := ucounts rs in
  let index := with_pos 0 u in
  let lp := level_pairs tr (map fst u) in
  let normalizer := lsum (fun ij => dd_count u (fst ij) * dd_count u (snd ij)) lp in
  if normalizer =? 0 then (0, 0)
  else (lsum (fun ij => count_inversions (take_slice (dd_slice index (fst ij)) es) (take_slice (dd_slice index (snd ij)) es)) lp,
        normalizer).
Lemma cfr_as_cfr_of ref est tr :
  cfr ref est tr = cfr_of (map fst (sort_by_ref (combine ref est))) (map snd (sort_by_ref (combine ref est))) tr.
Proof. reflexivity. Qed.
(* the proof of HierarchyRank.cfr_spec uses of the sort only that its result is sorted and a permutation *)
Lemma cfr_of_spec S P tr : ssorted S -> Permutation S P ->
  cfr_of (map fst S) (map snd S) tr = (rank_inv tr P, rank_norm tr P).
Proof.
  intros HS HP. unfold cfr_of.
  set (u := ucounts (map fst S)). set (lp := level_pairs tr (map fst u)).
  assert (Hn : lsum (fun ij => dd_count u (fst ij) * dd_count u (snd ij)) lp = rank_norm tr P).
  { rewrite (lsum_ext _ (fun ij => dsum (fun p q => at_levels (fst ij) (snd ij) p q * 1) S)) by (intros ij; apply norm_levels).
    unfold lp, u. rewrite fold_levels. unfold rank_norm. rewrite pair_count_dsum, (dsum_perm _ _ _ HP).
    apply dsum_ext_in. intros; lia. }
  assert (Hi : lsum (fun ij => count_inversions (take_slice (dd_slice (with_pos 0 u) (fst ij)) (map snd S))
                                                (take_slice (dd_slice (with_pos 0 u) (snd ij)) (map snd S))) lp = rank_inv tr P).
  { rewrite (lsum_ext _ (fun ij => dsum (fun p q => at_levels (fst ij) (snd ij) p q * b2n (snd q <=? snd p)) S)).
    2:{ intros ij. unfold u. rewrite !slice_level by exact HS. apply ci_levels. }
    unfold lp, u. rewrite fold_levels. unfold rank_inv. rewrite pair_count_dsum, (dsum_perm _ _ _ HP).
    apply dsum_ext_in. intros p q _ _. destruct (lvl_rel tr (fst p) (fst q)); destruct (snd q <=? snd p); reflexivity. }
  rewrite Hn, Hi. destruct (rank_norm tr P =? 0) eqn:E; [|reflexivity].
  apply Nat.eqb_eq in E. pose proof (rank_inv_le_norm tr P) as Hle. rewrite E in *. f_equal. lia.
Qed.
Corollary cfr_of_cfr S ref est tr : ssorted S -> Permutation S (combine ref est) ->
  cfr_of (map fst S) (map snd S) tr = cfr ref est tr.
Proof. intros HS HP. rewrite (cfr_of_spec S _ tr HS HP), cfr_spec. reflexivity. Qed.

(* ---------- what np.argsort may return ---------- *)
Definition argsort_ok (argsort : list nat -> list nat) : Prop :=
  forall l, Permutation (argsort l) (seq 0 (length l)) /\ nsorted (map (fun i => nth i l 0) (argsort l)).
Lemma ssorted_of_nsorted (f g : nat -> nat) idx : nsorted (map f idx) -> ssorted (map (fun i => (f i, g i)) idx).
Proof.
  induction idx as [|i idx IH]; intros H; [exact I|]. destruct H as [H1 H2]. cbn [map ssorted]. split; [|apply IH; exact H2].
  intros y Hy. apply in_map_iff in Hy. destruct Hy as [j [<- Hj]]. cbn [fst]. apply H1. apply in_map. exact Hj.
Qed.
Lemma combine_maps {A B C} (f : A -> B) (g : A -> C) l : combine (map f l) (map g l) = map (fun x => (f x, g x)) l.
Proof. induction l as [|x l IH]; [reflexivity|]. cbn [map combine]. rewrite IH. reflexivity. Qed.
Lemma fancy_ok l idx : (forall i, In i idx -> i < length l) -> fancy l idx = OK (map (fun i => nth i l 0) idx).
Proof.
  intros H. unfold fancy. replace (forallb (fun i => i <? length l) idx) with true; [reflexivity|].
  symmetry. apply forallb_forall. intros i Hi. apply Nat.ltb_lt. apply H. exact Hi.
Qed.
Lemma fancy_short l idx n : Permutation idx (seq 0 n) -> length l < n -> fancy l idx = EXN IndexError.
Proof.
  intros HP Hl. unfold fancy. replace (forallb (fun i => i <? length l) idx) with false; [reflexivity|].
  symmetry. apply not_true_is_false. intros Hf. rewrite forallb_forall in Hf.
  assert (Hin : In (length l) idx) by (apply (Permutation_in _ (Permutation_sym HP)); apply in_seq; lia).
  specialize (Hf _ Hin). apply Nat.ltb_lt in Hf. lia.
Qed.

(* ================================================================= the program ================================= *)
Local Arguments builtin argsort f args kws : simpl nomatch.
Local Arguments read_loc x en : simpl nomatch.
Local Arguments bin_op op a b : simpl nomatch.
Local Arguments num_op op a b : simpl nomatch.
Local Arguments cmp_op op a b : simpl nomatch.
Local Arguments truth v : simpl nomatch.
Local Arguments get_item a i : simpl nomatch.
Local Arguments set_item a i v : simpl nomatch.
Local Arguments iter_elems v : simpl nomatch.
Local Arguments Z.of_nat : simpl never.
Local Arguments for_loop : simpl never.
Local Arguments while_loop : simpl never.
Local Arguments for_step : simpl never.
Local Arguments concatM : simpl never.
Local Arguments qeqb : simpl never.
Local Arguments qleb : simpl never.
Local Arguments qltb : simpl never.
Local Arguments inject_Z : simpl never.
Local Arguments zq : simpl never.
Local Arguments Z.add : simpl never.
Local Arguments Z.sub : simpl never.
Local Arguments Z.mul : simpl never.
Local Arguments Z.ltb : simpl never.
Local Arguments Z.leb : simpl never.
Local Arguments Z.eqb : simpl never.
Local Arguments norm_idx : simpl never.
Local Arguments py_slice : simpl never.
Local Arguments uq_counts : simpl never.
Local Arguments hier_sigs : simpl never.
Local Arguments Nat.ltb : simpl never.
Local Arguments Nat.leb : simpl never.
Local Arguments fancy : simpl never.
Local Arguments transpose_min : simpl never.
Local Arguments dset : simpl never.
Local Arguments dget : simpl never.
Local Arguments starts : simpl never.
Local Arguments tuples : simpl never.
Local Arguments first_index : simpl never.
Local Arguments level_pairs : simpl never.
Local Arguments sum_vals : simpl never.
Local Arguments count_inversions : simpl never.
Local Arguments dd_count : simpl never.
Local Arguments dd_slice : simpl never.
Local Arguments with_pos : simpl never.

Section Cfr.
Variable argsort : list nat -> list nat.
Variable fuel : nat.
Variable ext : string -> list pv -> out pv.
Hypothesis Hargsort : argsort_ok argsort.
Hypothesis Hext : forall x y, ext "_count_inversions" [VNVec x; VNVec y] = OK (zn (count_inversions x y)).
Local Notation runx := (run_fun argsort fuel hier_sigs ext).
Local Notation execx := (exec argsort fuel hier_sigs ext).

Definition cfr_body := f_body gen__compare_frame_rankings.
Definition cfr_pre : list stmt := firstn 8 cfr_body.
Definition cfr_loop1 : stmt := nth 8 cfr_body SPass.
Definition cfr_mid : list stmt := firstn 5 (skipn 9 cfr_body).
Definition cfr_loop2 : stmt := nth 14 cfr_body SPass.
Definition cfr_post : list stmt := skipn 15 cfr_body.
Lemma cfr_split : cfr_body = cfr_pre ++ cfr_loop1 :: cfr_mid ++ cfr_loop2 :: cfr_post.
Proof. reflexivity. Qed.
Lemma get_item_fancy l idx : get_item (VNVec l) (VNVec idx) = (r <~ fancy l idx ;; OK (VNVec r)).
Proof. reflexivity. Qed.

Definition cfr_names : list string := map fst (f_params gen__compare_frame_rankings) ++ f_locals gen__compare_frame_rankings.
Definition cenv (vs : list pv) : env := combine cfr_names vs.
Definition cfr_it1 : exp := match cfr_loop1 with SFor _ it _ => it | _ => ENone end.
Definition cfr_body1 : list stmt := match cfr_loop1 with SFor _ _ b => b | _ => [] end.
Lemma cfr_loop1_eq : cfr_loop1 = SFor ["level"; "cnt"; "start"; "end"]%string cfr_it1 cfr_body1.
Proof. reflexivity. Qed.
Definition cfr_body2 : list stmt := match cfr_loop2 with SFor _ _ b => b | _ => [] end.
Lemma cfr_loop2_eq : cfr_loop2 = SFor ["level_1"; "level_2"]%string (ELoc "level_pairs") cfr_body2.
Proof. reflexivity. Qed.
Lemma exec_for xs it body en :
  execx (SFor xs it body) en
  = lift_e (eval argsort hier_sigs ext en it) (fun v => lift_e (iter_elems v) (fun els =>
      for_loop (for_step (run_block execx) xs body) els en)).
Proof. reflexivity. Qed.
Lemma for_loop_cons step v t en :
  for_loop step (v :: t) en = match step v en with SNorm en' | SCnt en' => for_loop step t en' | r => r end.
Proof. reflexivity. Qed.
Lemma for_loop_nil step en : for_loop step [] en = SNorm en. Proof. reflexivity. Qed.

Definition vt4 (t : nat * nat * nat * nat) : pv := VTup [zn (t_v t); zn (t_c t); zn (t_s t); zn (t_e t)].
Definition fI (t : nat * nat * nat * nat) : Z * pv := (Z.of_nat (t_v t), VSlice (Some (Z.of_nat (t_s t))) (Some (Z.of_nat (t_e t)))).
Definition fR (t : nat * nat * nat * nat) : Z * pv := (Z.of_nat (t_v t), zn (t_c t)).

Lemma cfr_loop1_spec a0 a1 a2 a3 a4 a5 a6 a7 a8 d1 d2 b0 b1 b2 b3 b4 b5 : forall T I R vl vc vs ve,
  NoDup (map t_v T) ->
  (forall p t, In p I -> In t T -> fst p <> Z.of_nat (t_v t)) ->
  (forall p t, In p R -> In t T -> fst p <> Z.of_nat (t_v t)) ->
  exists vl' vc' vs' ve',
    for_loop (for_step (run_block execx) ["level"; "cnt"; "start"; "end"]%string cfr_body1) (map vt4 T)
      (cenv [a0; a1; a2; a3; a4; a5; a6; a7; a8; VDDict d1 I; VDDict d2 R; vl; vc; vs; ve; b0; b1; b2; b3; b4; b5])
    = SNorm (cenv [a0; a1; a2; a3; a4; a5; a6; a7; a8; VDDict d1 (I ++ map fI T); VDDict d2 (R ++ map fR T);
                   vl'; vc'; vs'; ve'; b0; b1; b2; b3; b4; b5]).
Proof.
  induction T as [|t T IH]; intros I R vl vc vs ve ND HI HR.
  - exists vl, vc, vs, ve. rewrite for_loop_nil, !app_nil_r. reflexivity.
  - cbn [map]. rewrite for_loop_cons. inversion ND as [|? ? Hnt ND']; subst.
    unfold for_step at 1. unfold cfr_body1. cbn. unfold builtin. cbn.
    rewrite (dset_fresh I) by (intros p Hp; apply (HI p t Hp); left; reflexivity).
    rewrite (dset_fresh R) by (intros p Hp; apply (HR p t Hp); left; reflexivity).
    destruct (IH (I ++ [fI t]) (R ++ [fR t]) (zn (t_v t)) (zn (t_c t)) (zn (t_s t)) (zn (t_e t)) ND') as (vl' & vc' & vs' & ve' & E).
    + intros p t' Hp Ht'. apply in_app_iff in Hp. destruct Hp as [Hp|[<-|[]]]; [apply (HI p t' Hp); right; exact Ht'|].
      cbn [fI fst]. intros Heq. apply Nat2Z.inj in Heq. apply Hnt. rewrite Heq. apply in_map. exact Ht'.
    + intros p t' Hp Ht'. apply in_app_iff in Hp. destruct Hp as [Hp|[<-|[]]]; [apply (HR p t' Hp); right; exact Ht'|].
      cbn [fR fst]. intros Heq. apply Nat2Z.inj in Heq. apply Hnt. rewrite Heq. apply in_map. exact Ht'.
    + exists vl', vc', vs', ve'. rewrite <- !app_assoc in E. cbn [app] in E. exact E.
Qed.

(* what the two dictionaries answer *)
Definition tfind (T : list (nat * nat * nat * nat)) (k : nat) := find (fun t => t_v t =? k) T.
Definition cnt (T : list (nat * nat * nat * nat)) (k : nat) : nat := match tfind T k with Some t => t_c t | None => 0 end.
Definition lo (T : list (nat * nat * nat * nat)) (k : nat) : option Z := match tfind T k with Some t => Some (Z.of_nat (t_s t)) | None => None end.
Definition hi (T : list (nat * nat * nat * nat)) (k : nat) : option Z := match tfind T k with Some t => Some (Z.of_nat (t_e t)) | None => Some 0%Z end.
Lemma refmap_get T k : match dget (map fR T) (Z.of_nat k) with Some v => v | None => VInt 0 end = zn (cnt T k).
Proof. unfold fR, cnt, tfind. rewrite (dget_map t_v (fun t => zn (t_c t))). destruct (find _ T); reflexivity. Qed.
Lemma index_get T k : match dget (map fI T) (Z.of_nat k) with Some v => v | None => VSlice None (Some 0%Z) end = VSlice (lo T k) (hi T k).
Proof. unfold fI, lo, hi, tfind. rewrite (dget_map t_v (fun t => VSlice (Some (Z.of_nat (t_s t))) (Some (Z.of_nat (t_e t))))). destruct (find _ T); reflexivity. Qed.
Lemma cnt_dd_count u k st : cnt (tuples st u) k = dd_count u k.
Proof.
  unfold cnt, tfind, dd_count. revert st. induction u as [|[v c] t IH]; intros st; [reflexivity|].
  change (tuples st ((v, c) :: t)) with ((v, c, st, st + c) :: tuples (st + c) t). cbn [find fst snd t_v]. unfold t_v at 1. cbn [fst].
  destruct (v =? k); [reflexivity|apply IH].
Qed.
Lemma slice_dd_slice {A} u k (es : list A) : forall st,
  py_slice (lo (tuples st u) k) (hi (tuples st u) k) es = take_slice (dd_slice (with_pos st u) k) es.
Proof.
  unfold lo, hi, tfind, dd_slice. induction u as [|[v c] t IH]; intros st.
  - change (tuples st []) with (@nil (nat * nat * nat * nat)). change (with_pos st []) with (@nil (nat * (nat * nat))). cbn [find].
    change 0%Z with (Z.of_nat 0). rewrite py_slice_to. reflexivity.
  - change (tuples st ((v, c) :: t)) with ((v, c, st, st + c) :: tuples (st + c) t).
    change (with_pos st ((v, c) :: t)) with ((v, (st, st + c)) :: with_pos (st + c) t). cbn [find fst snd]. unfold t_v at 1 3. cbn [fst].
    destruct (v =? k); [|apply IH]. unfold t_s, t_e. cbn [fst snd]. rewrite py_slice_nat. reflexivity.
Qed.

(* the right-hand side of  normalizer = float(sum([ref_map[i] * ref_map[j] for (i, j) in lcounter])) *)
Definition cfr_norm_exp : exp := match nth 11 cfr_body SPass with SAssign _ e => e | _ => ENone end.
Lemma cfr_norm_eval en lp T :
  lookup "lcounter" en = Some (VList (map v_npair lp)) -> lookup "ref_map" en = Some (VDDict (VInt 0) (map fR T)) ->
  eval argsort hier_sigs ext en cfr_norm_exp = OK (VFloat (zq (Z.of_nat (lsum (fun ij => cnt T (fst ij) * cnt T (snd ij)) lp)))).
Proof.
  intros H1 H2. unfold cfr_norm_exp. cbn. unfold read_loc at 1. rewrite H1. cbn. rewrite map_map.
  rewrite (map_ext _ (fun ij => OK [zn (cnt T (fst ij) * cnt T (snd ij))])).
  2:{ intros ij. cbn. unfold read_loc. cbn. rewrite H2. cbn. rewrite !refmap_get. cbn. rewrite <- Nat2Z.inj_mul. reflexivity. }
  rewrite (concatM_single (fun ij => zn (cnt T (fst ij) * cnt T (snd ij)))). cbn. unfold builtin. cbn. rewrite sum_vals_nat. cbn. reflexivity.
Qed.

Lemma sig_ci : lookup_sig hier_sigs "_count_inversions" = Some [("a"%string, None); ("b"%string, None)].
Proof. reflexivity. Qed.
Lemma cfr_loop2_spec a0 a1 a2 a3 a4 es a6 a7 a8 T a10 a11 a12 a13 a14 a15 a16 a17 : forall lp z vl1 vl2,
  exists vl1' vl2',
    for_loop (for_step (run_block execx) ["level_1"; "level_2"]%string cfr_body2) (map v_npair lp)
      (cenv [a0; a1; a2; a3; a4; VNVec es; a6; a7; a8; VDDict (VSlice None (Some 0%Z)) (map fI T); a10; a11; a12; a13; a14; a15; a16; a17;
             VInt z; vl1; vl2])
    = SNorm (cenv [a0; a1; a2; a3; a4; VNVec es; a6; a7; a8; VDDict (VSlice None (Some 0%Z)) (map fI T); a10; a11; a12; a13; a14; a15; a16; a17;
                   VInt (z + Z.of_nat (lsum (fun ij => count_inversions (py_slice (lo T (fst ij)) (hi T (fst ij)) es)
                                                                         (py_slice (lo T (snd ij)) (hi T (snd ij)) es)) lp));
                   vl1'; vl2']).
Proof.
  induction lp as [|ij lp IH]; intros z vl1 vl2.
  - exists vl1, vl2. rewrite for_loop_nil. cbn [lsum fold_right]. replace (z + Z.of_nat 0)%Z with z by lia. reflexivity.
  - cbn [map]. rewrite for_loop_cons. unfold for_step at 1. unfold cfr_body2. cbn. unfold call. rewrite sig_ci. cbn.
    rewrite !index_get. cbn. rewrite Hext. cbn.
    destruct (IH (z + Z.of_nat (count_inversions (py_slice (lo T (fst ij)) (hi T (fst ij)) es) (py_slice (lo T (snd ij)) (hi T (snd ij)) es)))%Z
                 (zn (fst ij)) (zn (snd ij))) as (vl1' & vl2' & E).
    exists vl1', vl2'. refine (eq_trans E _).
    match goal with |- context [(?x + Z.of_nat ?A + Z.of_nat ?B)%Z] => replace (x + Z.of_nat A + Z.of_nat B)%Z with (x + Z.of_nat (A + B))%Z by lia end.
    reflexivity.
Qed.

Lemma py_slice_m1 {A} (l : list A) : py_slice None (Some (-1)%Z) l = firstn (length l - 1) l.
Proof.
  unfold py_slice, slice_lo, slice_hi, norm_bound. cbn [skipn]. rewrite Nat.sub_0_r.
  replace (-1 <? 0)%Z with true by reflexivity. f_equal. lia.
Qed.
Lemma cfr_it1_eval en u :
  lookup "levels" en = Some (VNVec (map fst u)) -> lookup "counts" en = Some (VNVec (map snd u)) ->
  lookup "positions" en = Some (VList (map zn (starts 0 u))) ->
  eval argsort hier_sigs ext en cfr_it1 = OK (VList (map vt4 (tuples 0 u))).
Proof.
  intros H1 H2 H3. unfold cfr_it1. cbn. unfold read_loc. rewrite H1, H2, H3. cbn. unfold builtin. cbn.
  rewrite py_slice_m1, map_length, starts_length. replace (S (length u) - 1) with (length u) by lia.
  change 1%Z with (Z.of_nat 1). rewrite py_slice_from.
  rewrite firstn_map, skipn_map, starts_firstn, starts_tl, (tuples_v u 0), (tuples_c u 0), !map_map.
  rewrite (transpose4 (fun t => zn (t_v t)) (fun t => zn (t_c t)) (fun t => zn (t_s t)) (fun t => zn (t_e t))), map_map. reflexivity.
Qed.
Definition cfr_folded : list stmt :=
  cfr_pre ++ [SFor ["level"; "cnt"; "start"; "end"]%string cfr_it1 cfr_body1; cfr_level_pairs_stmt; nth 10 cfr_body SPass;
              SAssign "normalizer" cfr_norm_exp; nth 12 cfr_body SPass; nth 13 cfr_body SPass;
              SFor ["level_1"; "level_2"]%string (ELoc "level_pairs") cfr_body2; nth 15 cfr_body SPass].
Lemma cfr_folded_eq : cfr_body = cfr_folded. Proof. reflexivity. Qed.
Local Arguments cfr_it1 : simpl never.
Local Arguments cfr_body1 : simpl never.
Local Arguments cfr_body2 : simpl never.
Local Arguments cfr_norm_exp : simpl never.
Local Arguments cfr_level_pairs_stmt : simpl never.
Local Arguments lsum : simpl never.

Theorem compare_frame_rankings_tie : forall ref est tr, length ref = length est ->
  runx gen__compare_frame_rankings [VNVec ref; VNVec est; VBool tr]
  = OK (VTup [zn (fst (cfr ref est tr)); VFloat (zq (Z.of_nat (snd (cfr ref est tr))))]).
Proof.
  intros ref est tr HL. destruct (Hargsort ref) as [Hperm Hsorted].
  set (idx := argsort ref) in *.
  assert (Hidx : forall i, In i idx -> i < length ref).
  { intros i Hi. apply (Permutation_in _ Hperm) in Hi. apply in_seq in Hi. lia. }
  set (rs := map (fun i => nth i ref 0) idx) in *. set (es := map (fun i => nth i est 0) idx).
  (* the model on this arrangement *)
  assert (Hmodel : cfr ref est tr = cfr_of rs es tr).
  { symmetry. set (S := map (fun i => (nth i ref 0, nth i est 0)) idx).
    assert (E1 : rs = map fst S) by (unfold rs, S; rewrite map_map; reflexivity).
    assert (E2 : es = map snd S) by (unfold es, S; rewrite map_map; reflexivity).
    rewrite E1, E2. apply cfr_of_cfr.
    - unfold S. apply ssorted_of_nsorted. exact Hsorted.
    - rewrite (combine_as_map ref est HL). unfold S. apply Permutation_map. exact Hperm. }
  rewrite Hmodel. unfold cfr_of. set (u := ucounts rs).
  unfold run_fun. cbn [length f_params gen__compare_frame_rankings Nat.eqb].
  change (f_body _) with cfr_body. rewrite cfr_folded_eq. unfold exec_block, cfr_folded, cfr_pre.
  cbn. unfold builtin. cbn. fold idx. rewrite (fancy_ok ref idx Hidx). cbn.
  rewrite (fancy_ok est idx) by (rewrite <- HL; exact Hidx). cbn. fold rs es. change uq_counts with ucounts. fold u.
  replace (map zn (map (fun p => first_index (fst p) rs) u) ++ [zn (length rs)]) with (map zn (starts 0 u)).
  2:{ unfold u. rewrite <- (positions_starts rs Hsorted), map_app. reflexivity. }
  rewrite (cfr_it1_eval _ u) by reflexivity. cbn.
  set (T := tuples 0 u).
  assert (HND : NoDup (map t_v T)).
  { unfold T. rewrite <- (tuples_v u 0). apply sinc_NoDup, incr_sinc. apply incr_ucounts. }
  destruct (cfr_loop1_spec (VNVec ref) (VNVec est) (VBool tr) (VNVec idx) (VNVec rs) (VNVec es) (VNVec (map fst u))
              (VList (map zn (starts 0 u))) (VNVec (map snd u)) (VSlice None (Some 0%Z)) (VInt 0)
              VUnbound VUnbound VUnbound VUnbound VUnbound VUnbound T [] [] VUnbound VUnbound VUnbound VUnbound HND)
    as (vl & vc & vs & ve & E1); [intros p t []|intros p t []|].
  unfold cenv, cfr_names in E1. cbn [combine map fst app f_params f_locals gen__compare_frame_rankings] in E1.
  rewrite E1. clear E1. cbn [app].
  rewrite (cfr_level_pairs_stmt_partial argsort fuel ext _ tr (map fst u)) by reflexivity. cbn.
  set (lp := level_pairs tr (map fst u)).
  rewrite (cfr_norm_eval _ lp T) by reflexivity. cbn.
  assert (Hcnt : lsum (fun ij => cnt T (fst ij) * cnt T (snd ij)) lp = lsum (fun ij => dd_count u (fst ij) * dd_count u (snd ij)) lp).
  { apply lsum_ext. intros ij. unfold T. rewrite !cnt_dd_count. reflexivity. }
  rewrite Hcnt. set (N := lsum (fun ij => dd_count u (fst ij) * dd_count u (snd ij)) lp).
  rewrite qeqb_zq_nat. destruct (N =? 0) eqn:EN; cbn; [reflexivity|].
  destruct (cfr_loop2_spec (VNVec ref) (VNVec est) (VBool tr) (VNVec idx) (VNVec rs) es (VNVec (map fst u))
              (VList (map zn (starts 0 u))) (VNVec (map snd u)) T (VDDict (VInt 0) (map fR T)) vl vc vs ve
              (VList (map v_npair lp)) (VList (map v_npair lp)) (VFloat (zq (Z.of_nat N))) lp 0%Z VUnbound VUnbound)
    as (vl1 & vl2 & E2).
  unfold cenv, cfr_names in E2. cbn [combine map fst app f_params f_locals gen__compare_frame_rankings] in E2.
  rewrite E2. clear E2. cbn.
  rewrite (lsum_ext _ (fun ij => count_inversions (take_slice (dd_slice (with_pos 0 u) (fst ij)) es)
                                                  (take_slice (dd_slice (with_pos 0 u) (snd ij)) es))).
  2:{ intros ij. unfold T. rewrite !slice_dd_slice. reflexivity. }
  reflexivity.
Qed.
End Cfr.

(* est shorter than ref: est[idx] raises *)
Theorem compare_frame_rankings_short_tie : forall argsort fuel ext, argsort_ok argsort ->
  forall ref est tr, length est < length ref ->
  run_fun argsort fuel hier_sigs ext gen__compare_frame_rankings [VNVec ref; VNVec est; VBool tr] = EXN IndexError.
Proof.
  intros argsort fuel ext Hargsort ref est tr HL. destruct (Hargsort ref) as [Hperm _].
  assert (Hidx : forall i, In i (argsort ref) -> i < length ref).
  { intros i Hi. apply (Permutation_in _ Hperm) in Hi. apply in_seq in Hi. lia. }
  unfold run_fun. cbn [length f_params gen__compare_frame_rankings Nat.eqb].
  change (f_body _) with cfr_body. rewrite cfr_folded_eq. unfold exec_block, cfr_folded, cfr_pre.
  cbn. unfold builtin. cbn. rewrite (fancy_ok ref _ Hidx). cbn.
  rewrite (fancy_short est _ (length ref) Hperm HL). reflexivity.
Qed.

(* ---------- the hypothesis on np.argsort is satisfiable: the stable sort of the indices ---------- *)
Definition stable_argsort (l : list nat) : list nat := map snd (sort_by_ref (combine l (seq 0 (length l)))).
Lemma map_snd_combine {A B} (l : list A) (l' : list B) : length l = length l' -> map snd (combine l l') = l'.
Proof. revert l'. induction l as [|x l IH]; intros [|y l'] H; try discriminate; [reflexivity|]. cbn [combine map snd]. rewrite IH by (cbn in H; lia). reflexivity. Qed.
Lemma in_combine_seq (l : list nat) : forall s x i, In (x, i) (combine l (seq s (length l))) -> s <= i /\ x = nth (i - s) l 0.
Proof.
  induction l as [|y l IH]; intros s x i H; [destruct H|]. cbn [length seq combine] in H. destruct H as [H|H].
  - inversion H; subst. rewrite Nat.sub_diag. split; [lia|reflexivity].
  - apply IH in H. destruct H as [H1 H2]. split; [lia|]. replace (i - s) with (S (i - S s)) by lia. exact H2.
Qed.
Lemma nsorted_fst S : ssorted S -> nsorted (map fst S).
Proof.
  induction S as [|p S IH]; intros H; [exact I|]. destruct H as [H1 H2]. cbn [map nsorted]. split; [|apply IH; exact H2].
  intros y Hy. apply in_map_iff in Hy. destruct Hy as [q [<- Hq]]. apply H1. exact Hq.
Qed.
Lemma stable_argsort_ok : argsort_ok stable_argsort.
Proof.
  intros l. unfold stable_argsort. set (C := combine l (seq 0 (length l))). split.
  - rewrite (Permutation_map snd (sort_by_ref_perm C)). unfold C. rewrite map_snd_combine by (rewrite seq_length; reflexivity). reflexivity.
  - rewrite map_map. rewrite (map_ext_in _ fst).
    + apply nsorted_fst, ssorted_sort.
    + intros [x i] Hp. apply (Permutation_in _ (sort_by_ref_perm C)) in Hp. unfold C in Hp. apply in_combine_seq in Hp.
      destruct Hp as [_ Hx]. cbn [fst snd]. rewrite Nat.sub_0_r in Hx. symmetry. exact Hx.
Qed.
Corollary compare_frame_rankings_tie_stable : forall fuel ext,
  (forall x y, ext "_count_inversions"%string [VNVec x; VNVec y] = OK (zn (count_inversions x y))) ->
  forall ref est tr, length ref = length est ->
  run_fun stable_argsort fuel hier_sigs ext gen__compare_frame_rankings [VNVec ref; VNVec est; VBool tr]
  = OK (VTup [zn (fst (cfr ref est tr)); VFloat (zq (Z.of_nat (snd (cfr ref est tr))))]).
Proof. intros fuel ext Hext. apply compare_frame_rankings_tie; [apply stable_argsort_ok|exact Hext]. Qed.

Check compare_frame_rankings_tie.
Print Assumptions compare_frame_rankings_tie.
Check compare_frame_rankings_short_tie.
Print Assumptions compare_frame_rankings_short_tie.
Check stable_argsort_ok.
Print Assumptions compare_frame_rankings_tie_stable.
