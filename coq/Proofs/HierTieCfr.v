(* The internals of mir_eval/hierarchy.py tied to the model by TRANSLATION, part 2: _compare_frame_rankings (whole body).
   Header completed at the end of the file. *)
From Coq Require Import String.
From Coq Require Import List Bool Arith ZArith QArith Lia Permutation.
From ME Require Import Model.Prelude Model.Events Model.Hierarchy Model.HierExp Gen.HierGen.
From ME Require Import Proofs.HierarchyInv Proofs.HierarchyRank Proofs.HierTie.
Import ListNotations.
Local Open Scope nat_scope.

(* ================================================================= pure facts ================================= *)
(* a list of naturals in non-decreasing order *)
Fixpoint nsorted (l : list nat) : Prop :=
  match l with [] => True | x :: t => (forall y, In y t -> x <= y) /\ nsorted t end.

(* np.unique(return_index=True) on a sorted array: the first occurrence of v is the number of smaller entries *)
Lemma first_index_sorted v rs : nsorted rs -> In v rs -> first_index v rs = lsum (fun x => b2n (x <? v)) rs.
Proof.
  induction rs as [|x rs IH]; intros HS Hv; [destruct Hv|]. destruct HS as [H1 H2]. cbn [first_index]. rewrite lsum_cons.
  destruct (x =? v) eqn:E.
  - apply Nat.eqb_eq in E. subst x. rewrite Nat.ltb_irrefl. cbn [b2n]. symmetry. apply lsum_zero.
    intros y Hy. specialize (H1 y Hy). destruct (y <? v) eqn:E; [apply Nat.ltb_lt in E; lia|reflexivity].
  - apply Nat.eqb_neq in E. destruct Hv as [Hv|Hv]; [contradiction|]. specialize (H1 v Hv).
    assert (Hlt : x <? v = true) by (apply Nat.ltb_lt; lia). rewrite Hlt. cbn [b2n]. rewrite (IH H2 Hv). reflexivity.
Qed.

(* the break points: start of every level, then the total *)
Fixpoint starts (st : nat) (u : wl) : list nat :=
  match u with [] => [st] | (v, c) :: t => st :: starts (st + c) t end.
Fixpoint tuples (st : nat) (u : wl) : list (nat * nat * nat * nat) :=
  match u with [] => [] | (v, c) :: t => (v, c, st, st + c) :: tuples (st + c) t end.
Definition t_v (t : nat * nat * nat * nat) : nat := fst (fst (fst t)).
Definition t_c (t : nat * nat * nat * nat) : nat := snd (fst (fst t)).
Definition t_s (t : nat * nat * nat * nat) : nat := snd (fst t).
Definition t_e (t : nat * nat * nat * nat) : nat := snd t.

Lemma sum_lt_cons w c t v : sum_lt ((w, c) :: t) v = (if w <? v then c else 0) + sum_lt t v.
Proof. reflexivity. Qed.
Lemma starts_sum_lt u : incr u -> forall st,
  map (fun p => st + sum_lt u (fst p)) u ++ [st + lsum snd u] = starts st u.
Proof.
  induction u as [|[v c] t IH]; intros Hu st; [cbn; f_equal; lia|].
  assert (Ht : incr t) by (eapply incr_tail; eassumption).
  cbn [map app starts fst]. rewrite sum_lt_cons, Nat.ltb_irrefl.
  assert (Hz : sum_lt t v = 0).
  { apply lsum_zero. intros p Hp. apply (incr_lb _ _ Hu) in Hp. cbn [fst] in Hp.
    destruct (fst p <? v) eqn:E; [apply Nat.ltb_lt in E; lia|reflexivity]. }
  rewrite Hz. f_equal; [lia|]. rewrite <- (IH Ht (st + c)). rewrite lsum_cons. cbn [snd]. f_equal; [|f_equal; lia].
  apply map_ext_in. intros p Hp. rewrite sum_lt_cons. apply (incr_lb _ _ Hu) in Hp. cbn [fst] in Hp.
  apply Nat.ltb_lt in Hp. rewrite Hp. lia.
Qed.
Lemma lsum_snd_uc_insert x u : lsum snd (uc_insert x u) = S (lsum snd u).
Proof.
  induction u as [|[v c] t IH]; cbn [uc_insert]; [reflexivity|]. destruct (x <? v); [reflexivity|].
  destruct (x =? v); [reflexivity|]. rewrite !lsum_cons, IH. cbn [snd]. lia.
Qed.
Lemma lsum_snd_ucounts l : lsum snd (ucounts l) = length l.
Proof. induction l as [|x l IH]; [reflexivity|]. cbn [ucounts fold_right length]. fold (ucounts l). rewrite lsum_snd_uc_insert, IH. reflexivity. Qed.
(* positions (as np.unique returns them) followed by len(ref_sorted) *)
Lemma positions_starts rs : nsorted rs ->
  map (fun p => first_index (fst p) rs) (ucounts rs) ++ [length rs] = starts 0 (ucounts rs).
Proof.
  intros HS. rewrite <- (starts_sum_lt (ucounts rs) (incr_ucounts rs) 0). cbn [Nat.add]. rewrite lsum_snd_ucounts. f_equal.
  apply map_ext_in. intros p Hp. rewrite sum_lt_ucounts. apply first_index_sorted; [exact HS|].
  apply ucounts_keys. apply in_map. exact Hp.
Qed.
Lemma starts_length st u : length (starts st u) = S (length u).
Proof. revert st. induction u as [|[v c] t IH]; intros st; [reflexivity|]. cbn [starts length]. rewrite IH. reflexivity. Qed.
Lemma starts_firstn u : forall st, firstn (length u) (starts st u) = map t_s (tuples st u).
Proof. induction u as [|[v c] t IH]; intros st; [reflexivity|]. cbn [length starts firstn tuples map]. rewrite IH. reflexivity. Qed.
Lemma starts_tl u : forall st, skipn 1 (starts st u) = map t_e (tuples st u).
Proof.
  induction u as [|[v c] t IH]; intros st; [reflexivity|]. cbn [starts skipn tuples map]. unfold t_e at 1. cbn [snd].
  specialize (IH (st + c)). destruct t as [|[v' c'] t']; [reflexivity|]. cbn [starts skipn] in *. rewrite IH. reflexivity.
Qed.
Lemma tuples_v u : forall st, map fst u = map t_v (tuples st u).
Proof. induction u as [|[v c] t IH]; intros st; [reflexivity|]. cbn [map tuples]. rewrite <- IH. reflexivity. Qed.
Lemma tuples_c u : forall st, map snd u = map t_c (tuples st u).
Proof. induction u as [|[v c] t IH]; intros st; [reflexivity|]. cbn [map tuples]. rewrite <- IH. reflexivity. Qed.
Lemma with_pos_tuples u : forall st, with_pos st u = map (fun t => (t_v t, (t_s t, t_e t))) (tuples st u).
Proof. induction u as [|[v c] t IH]; intros st; [reflexivity|]. cbn [with_pos tuples map]. rewrite IH. reflexivity. Qed.
Lemma tuples_keys u : forall st t, In t (tuples st u) -> In (t_v t, t_c t) u.
Proof.
  induction u as [|[v c] r IH]; intros st t H; [destruct H|]. cbn [tuples] in H. destruct H as [<-|H]; [left; reflexivity|].
  right. eapply IH. exact H.
Qed.
Lemma transpose4 {T} (f1 f2 f3 f4 : T -> pv) l :
  transpose_min [map f1 l; map f2 l; map f3 l; map f4 l] = map (fun t => [f1 t; f2 t; f3 t; f4 t]) l.
Proof. induction l as [|x l IH]; [reflexivity|]. cbn [map transpose_min combine] in *. rewrite IH. reflexivity. Qed.

(* defaultdict with distinct integer keys *)
Lemma dset_fresh items k v : (forall p, In p items -> fst p <> k) -> dset items k v = items ++ [(k, v)].
Proof.
  induction items as [|[k' w] t IH]; intros H; [reflexivity|]. cbn [dset app].
  destruct (k' =? k)%Z eqn:E; [apply Z.eqb_eq in E; exfalso; apply (H (k', w)); [left; reflexivity|exact E]|].
  rewrite IH; [reflexivity|]. intros p Hp. apply H. now right.
Qed.
Lemma dget_map {T} (key : T -> nat) (val : T -> pv) l k :
  dget (map (fun t => (Z.of_nat (key t), val t)) l) (Z.of_nat k)
  = match find (fun t => key t =? k) l with Some t => Some (val t) | None => None end.
Proof.
  induction l as [|t l IH]; [reflexivity|]. cbn [map dget find]. rewrite zeqb_nat. destruct (key t =? k); [reflexivity|exact IH].
Qed.
Lemma find_map_key {T} (key : T -> nat) (f : T -> nat * (nat * nat)) l k : (forall t, fst (f t) = key t) ->
  find (fun p => fst p =? k) (map f l) = match find (fun t => key t =? k) l with Some t => Some (f t) | None => None end.
Proof. intros H. induction l as [|t l IH]; [reflexivity|]. cbn [map find]. rewrite H. destruct (key t =? k); [reflexivity|exact IH]. Qed.

(* sum([...]) over naturals *)
Lemma sum_vals_nat {T} (g : T -> nat) l : forall z, sum_vals (VInt z) (map (fun t => zn (g t)) l) = OK (VInt (z + Z.of_nat (lsum g l))).
Proof.
  induction l as [|t l IH]; intros z; [cbn; f_equal; f_equal; lia|]. cbn [map sum_vals]. cbn [zn num_op zarith option_map of_opt obind].
  rewrite IH. rewrite lsum_cons. f_equal. f_equal. lia.
Qed.
Lemma qeqb_zq_nat n : qeqb (zq (Z.of_nat n)) (zq 0) = (n =? 0).
Proof.
  unfold qeqb, zq. destruct (Nat.eqb_spec n 0) as [->|Hn]; [reflexivity|].
  apply not_true_is_false. rewrite Qeq_bool_iff. unfold Qeq, inject_Z. cbn. lia.
Qed.

(* ---------- the body of the model's cfr on ANY sorted arrangement of the (ref, est) pairs ---------- *)
Definition cfr_of (rs es : list nat) (tr : bool) : nat * nat :=
  let u := ucounts rs in
  let index := with_pos 0 u in
  let lp := level_pairs tr (map fst u) in
  let normalizer := lsum (fun ij => dd_count u (fst ij) * dd_count u (snd ij)) lp in
  if normalizer =? 0 then (0, 0)
  else (lsum (fun ij => count_inversions (take_slice (dd_slice index (fst ij)) es) (take_slice (dd_slice index (snd ij)) es)) lp,
        normalizer).
Lemma cfr_as_cfr_of ref est tr :
  cfr ref est tr = cfr_of (map fst (sort_by_ref (combine ref est))) (map snd (sort_by_ref (combine ref est))) tr.
Proof. reflexivity. Qed.
(* the proof of HierarchyRank.cfr_spec uses of the sort only that its result is sorted and a permutation *)
Lemma cfr_of_spec S P tr : ssorted S -> Permutation S P ->
  cfr_of (map fst S) (map snd S) tr = (rank_inv tr P, rank_norm tr P).
Proof.
  intros HS HP. unfold cfr_of.
  set (u := ucounts (map fst S)). set (lp := level_pairs tr (map fst u)).
  assert (Hn : lsum (fun ij => dd_count u (fst ij) * dd_count u (snd ij)) lp = rank_norm tr P).
  { rewrite (lsum_ext _ (fun ij => dsum (fun p q => at_levels (fst ij) (snd ij) p q * 1) S)) by (intros ij; apply norm_levels).
    unfold lp, u. rewrite fold_levels. unfold rank_norm. rewrite pair_count_dsum, (dsum_perm _ _ _ HP).
    apply dsum_ext_in. intros; lia. }
  assert (Hi : lsum (fun ij => count_inversions (take_slice (dd_slice (with_pos 0 u) (fst ij)) (map snd S))
                                                (take_slice (dd_slice (with_pos 0 u) (snd ij)) (map snd S))) lp = rank_inv tr P).
  { rewrite (lsum_ext _ (fun ij => dsum (fun p q => at_levels (fst ij) (snd ij) p q * b2n (snd q <=? snd p)) S)).
    2:{ intros ij. unfold u. rewrite !slice_level by exact HS. apply ci_levels. }
    unfold lp, u. rewrite fold_levels. unfold rank_inv. rewrite pair_count_dsum, (dsum_perm _ _ _ HP).
    apply dsum_ext_in. intros p q _ _. destruct (lvl_rel tr (fst p) (fst q)); destruct (snd q <=? snd p); reflexivity. }
  rewrite Hn, Hi. destruct (rank_norm tr P =? 0) eqn:E; [|reflexivity].
  apply Nat.eqb_eq in E. pose proof (rank_inv_le_norm tr P) as Hle. rewrite E in *. f_equal. lia.
Qed.
Corollary cfr_of_cfr S ref est tr : ssorted S -> Permutation S (combine ref est) ->
  cfr_of (map fst S) (map snd S) tr = cfr ref est tr.
Proof. intros HS HP. rewrite (cfr_of_spec S _ tr HS HP), cfr_spec. reflexivity. Qed.

(* ---------- what np.argsort may return ---------- *)
Definition argsort_ok (argsort : list nat -> list nat) : Prop :=
  forall l, Permutation (argsort l) (seq 0 (length l)) /\ nsorted (map (fun i => nth i l 0) (argsort l)).
Lemma ssorted_of_nsorted (f g : nat -> nat) idx : nsorted (map f idx) -> ssorted (map (fun i => (f i, g i)) idx).
Proof.
  induction idx as [|i idx IH]; intros H; [exact I|]. destruct H as [H1 H2]. cbn [map ssorted]. split; [|apply IH; exact H2].
  intros y Hy. apply in_map_iff in Hy. destruct Hy as [j [<- Hj]]. cbn [fst]. apply H1. apply in_map. exact Hj.
Qed.
Lemma combine_maps {A B C} (f : A -> B) (g : A -> C) l : combine (map f l) (map g l) = map (fun x => (f x, g x)) l.
Proof. induction l as [|x l IH]; [reflexivity|]. cbn [map combine]. rewrite IH. reflexivity. Qed.
Lemma fancy_ok l idx : (forall i, In i idx -> i < length l) -> fancy l idx = OK (map (fun i => nth i l 0) idx).
Proof.
  intros H. unfold fancy. replace (forallb (fun i => i <? length l) idx) with true; [reflexivity|].
  symmetry. apply forallb_forall. intros i Hi. apply Nat.ltb_lt. apply H. exact Hi.
Qed.
Lemma fancy_short l idx n : Permutation idx (seq 0 n) -> length l < n -> fancy l idx = EXN IndexError.
Proof.
  intros HP Hl. unfold fancy. replace (forallb (fun i => i <? length l) idx) with false; [reflexivity|].
  symmetry. apply not_true_is_false. intros Hf. rewrite forallb_forall in Hf.
  assert (Hin : In (length l) idx) by (apply (Permutation_in _ (Permutation_sym HP)); apply in_seq; lia).
  specialize (Hf _ Hin). apply Nat.ltb_lt in Hf. lia.
Qed.

(* ================================================================= the program ================================= *)
Local Arguments builtin argsort f args kws : simpl nomatch.
Local Arguments read_loc x en : simpl nomatch.
Local Arguments bin_op op a b : simpl nomatch.
Local Arguments num_op op a b : simpl nomatch.
Local Arguments cmp_op op a b : simpl nomatch.
Local Arguments truth v : simpl nomatch.
Local Arguments get_item a i : simpl nomatch.
Local Arguments set_item a i v : simpl nomatch.
Local Arguments iter_elems v : simpl nomatch.
Local Arguments Z.of_nat : simpl never.
Local Arguments for_loop : simpl never.
Local Arguments while_loop : simpl never.
Local Arguments for_step : simpl never.
Local Arguments concatM : simpl never.
Local Arguments qeqb : simpl never.
Local Arguments qleb : simpl never.
Local Arguments qltb : simpl never.
Local Arguments inject_Z : simpl never.
Local Arguments zq : simpl never.
Local Arguments Z.add : simpl never.
Local Arguments Z.sub : simpl never.
Local Arguments Z.mul : simpl never.
Local Arguments Z.ltb : simpl never.
Local Arguments Z.leb : simpl never.
Local Arguments Z.eqb : simpl never.
Local Arguments norm_idx : simpl never.
Local Arguments py_slice : simpl never.
Local Arguments uq_counts : simpl never.
Local Arguments hier_sigs : simpl never.
Local Arguments Nat.ltb : simpl never.
Local Arguments Nat.leb : simpl never.
Local Arguments fancy : simpl never.
Local Arguments transpose_min : simpl never.
Local Arguments dset : simpl never.
Local Arguments dget : simpl never.
Local Arguments starts : simpl never.
Local Arguments tuples : simpl never.
Local Arguments first_index : simpl never.
Local Arguments level_pairs : simpl never.
Local Arguments sum_vals : simpl never.
Local Arguments count_inversions : simpl never.
Local Arguments dd_count : simpl never.
Local Arguments dd_slice : simpl never.
Local Arguments with_pos : simpl never.

Section Cfr.
Variable argsort : list nat -> list nat.
Variable fuel : nat.
Variable ext : string -> list pv -> out pv.
Hypothesis Hargsort : argsort_ok argsort.
Hypothesis Hext : forall x y, ext "_count_inversions" [VNVec x; VNVec y] = OK (zn (count_inversions x y)).
Local Notation runx := (run_fun argsort fuel hier_sigs ext).
Local Notation execx := (exec argsort fuel hier_sigs ext).

Definition cfr_body := f_body gen__compare_frame_rankings.
Definition cfr_pre : list stmt := firstn 8 cfr_body.
Definition cfr_loop1 : stmt := nth 8 cfr_body SPass.
Definition cfr_mid : list stmt := firstn 5 (skipn 9 cfr_body).
Definition cfr_loop2 : stmt := nth 14 cfr_body SPass.
Definition cfr_post : list stmt := skipn 15 cfr_body.
Lemma cfr_split : cfr_body = cfr_pre ++ cfr_loop1 :: cfr_mid ++ cfr_loop2 :: cfr_post.
Proof. reflexivity. Qed.
Lemma get_item_fancy l idx : get_item (VNVec l) (VNVec idx) = (r <~ fancy l idx ;; OK (VNVec r)).
Proof. reflexivity. Qed.

Theorem compare_frame_rankings_tie : forall ref est tr, length ref = length est ->
  runx gen__compare_frame_rankings [VNVec ref; VNVec est; VBool tr]
  = OK (VTup [zn (fst (cfr ref est tr)); VFloat (zq (Z.of_nat (snd (cfr ref est tr))))]).
Proof.
  intros ref est tr HL. destruct (Hargsort ref) as [Hperm Hsorted].
  set (idx := argsort ref) in *.
  assert (Hidx : forall i, In i idx -> i < length ref).
  { intros i Hi. apply (Permutation_in _ Hperm) in Hi. apply in_seq in Hi. lia. }
  unfold run_fun. cbn [length f_params gen__compare_frame_rankings Nat.eqb].
  change (f_body _) with cfr_body. rewrite cfr_split. unfold exec_block. rewrite run_block_app.
  remember (run_block execx (cfr_loop1 :: cfr_mid ++ cfr_loop2 :: cfr_post)) as K eqn:HK.
  unfold cfr_pre. cbn. unfold builtin. cbn. fold idx. rewrite (fancy_ok ref idx Hidx). cbn.
  rewrite (fancy_ok est idx) by (rewrite <- HL; exact Hidx). cbn.
  Show.
Abort.
End Cfr.
