(* C19, part 3: the framewise plan of bss_eval_sources_framewise / bss_eval_images_framewise. *)
From Coq Require Import List Bool Arith ZArith QArith Lia.
From ME Require Import Model.Prelude Model.Separation Proofs.SeparationPerm.
Import ListNotations.

(* ------------------------------------------------------------------------------------------------------------ *)
(* number of windows                                                                                             *)
(* ------------------------------------------------------------------------------------------------------------ *)
Lemma nwin_of_zero_hop nsampl window : nwin_of nsampl window 0 = Raise ZeroDivisionError.
Proof. reflexivity. Qed.

Lemma nwin_of_spec nsampl window hop : (0 < hop)%nat ->
  exists nw, nwin_of nsampl window hop = Ok nw /\
    (nw * Z.of_nat hop <= Z.of_nat nsampl - Z.of_nat window + Z.of_nat hop < (nw + 1) * Z.of_nat hop)%Z.
Proof.
  intros H. unfold nwin_of. destruct (hop =? 0)%nat eqn:E; [apply Nat.eqb_eq in E; lia|].
  eexists; split; [reflexivity|].
  set (a := (Z.of_nat nsampl - Z.of_nat window + Z.of_nat hop)%Z). set (h := Z.of_nat hop).
  assert (Hh : (0 < h)%Z) by (unfold h; lia).
  pose proof (Z.div_mod a h ltac:(lia)) as D. pose proof (Z.mod_pos_bound a h Hh) as B. nia.
Qed.

(* nwin counts exactly the windows [k*hop, k*hop + window) that lie inside the signal *)
Lemma nwin_counts_windows nsampl window hop nw : (0 < hop)%nat -> nwin_of nsampl window hop = Ok nw ->
  forall k, (Z.of_nat k < nw)%Z <-> (k * hop + window <= nsampl)%nat.
Proof.
  intros H E k. destruct (nwin_of_spec nsampl window hop H) as (nw' & E' & B). rewrite E in E'; inversion E'; subst nw'.
  split; intros Hk; nia.
Qed.

(* ------------------------------------------------------------------------------------------------------------ *)
(* mapM, column tables                                                                                           *)
(* ------------------------------------------------------------------------------------------------------------ *)
Lemma mapM_ok {A B} (f : A -> res B) : forall l ys, mapM f l = Ok ys -> Forall2 (fun x y => f x = Ok y) l ys.
Proof.
  induction l as [|x t IH]; cbn; intros ys H; [inversion H; constructor|].
  destruct (f x) eqn:Fx; cbn in H; [|discriminate].
  destruct (mapM f t) eqn:Ft; cbn in H; [|discriminate]. inversion H; subst. constructor; auto.
Qed.
Lemma mapM_all_ok {A B} (f : A -> res B) : forall l, (forall x, In x l -> exists y, f x = Ok y) -> exists ys, mapM f l = Ok ys.
Proof.
  induction l as [|x t IH]; intros H; cbn; [eauto|].
  destruct (H x (or_introl eq_refl)) as (y & ->). destruct (IH (fun z Hz => H z (or_intror Hz))) as (ys & ->).
  cbn. eauto.
Qed.
Lemma Forall2_nth_seq_gen {B} (P : nat -> B -> Prop) d : forall n a ys, Forall2 P (seq a n) ys ->
  length ys = n /\ forall k, (k < n)%nat -> P (a + k)%nat (nth k ys d).
Proof.
  induction n; intros a ys H; cbn in H; inversion H; subst.
  - split; [reflexivity | intros; lia].
  - destruct (IHn _ _ H4) as (L & G). split; [cbn; lia|].
    intros [|k] Hk; cbn; [now rewrite Nat.add_0_r|].
    replace (a + S k)%nat with (S a + k)%nat by lia. apply G; lia.
Qed.
Lemma Forall2_nth_seq {B} (P : nat -> B -> Prop) n ys d : Forall2 P (seq 0 n) ys ->
  length ys = n /\ forall k, (k < n)%nat -> P k (nth k ys d).
Proof. intros H. destruct (Forall2_nth_seq_gen P d n 0%nat ys H) as (L & G). split; auto. Qed.

Lemma column_tables_entry arity nsrc cols m s k : (m < arity)%nat -> (s < nsrc)%nat -> (k < length cols)%nat ->
  nth k (nth s (nth m (column_tables arity nsrc cols) []) []) NaN = nth s (nth m (nth k cols []) []) NaN.
Proof.
  intros Hm Hs Hk. unfold column_tables.
  rewrite (nth_map_lt _ _ _ _ 0%nat) by (now rewrite seq_length). rewrite seq_nth by auto.
  rewrite (nth_map_lt _ _ _ _ 0%nat) by (now rewrite seq_length). rewrite seq_nth by auto.
  rewrite (nth_map_lt _ _ _ _ []) by auto. reflexivity.
Qed.
Lemma column_tables_shape arity nsrc cols :
  length (column_tables arity nsrc cols) = arity /\
  forall m, (m < arity)%nat -> length (nth m (column_tables arity nsrc cols) []) = nsrc /\
    forall s, (s < nsrc)%nat -> length (nth s (nth m (column_tables arity nsrc cols) []) []) = length cols.
Proof.
  unfold column_tables. split; [now rewrite map_length, seq_length|]. intros m Hm.
  rewrite (nth_map_lt _ _ _ _ 0%nat) by (now rewrite seq_length). rewrite seq_nth by auto.
  split; [now rewrite map_length, seq_length|]. intros s Hs.
  rewrite (nth_map_lt _ _ _ _ 0%nat) by (now rewrite seq_length). now rewrite map_length.
Qed.

Lemma nan_result_entry arity nsrc m s : (m < arity)%nat -> (s < nsrc)%nat -> nth s (nth m (nan_result arity nsrc) []) NaN = NaN.
Proof.
  intros Hm Hs. unfold nan_result.
  assert (E : nth m (repeat (repeat NaN nsrc) arity) [] = repeat NaN nsrc).
  { apply (repeat_spec arity). apply nth_In. now rewrite repeat_length. }
  rewrite E. apply (repeat_spec nsrc). apply nth_In. now rewrite repeat_length.
Qed.

(* ------------------------------------------------------------------------------------------------------------ *)
(* the plan                                                                                                      *)
(* ------------------------------------------------------------------------------------------------------------ *)
(* hop = 0: the division raises *)
Lemma framewise_plan_zero_hop arity nsrc nsampl window sil fk fglob :
  framewise_plan arity nsrc nsampl window 0 sil fk fglob = Raise ZeroDivisionError.
Proof. reflexivity. Qed.

Theorem framewise_plan_spec : forall arity nsrc nsampl window hop sil fk fglob,
  (0 < hop)%nat ->
  exists nw,
    (* number of windows: floor((nsampl - window + hop) / hop), exactly the windows that fit *)
    nwin_of nsampl window hop = Ok nw /\
    (nw * Z.of_nat hop <= Z.of_nat nsampl - Z.of_nat window + Z.of_nat hop < (nw + 1) * Z.of_nat hop)%Z /\
    (forall k, (Z.of_nat k < nw)%Z <-> (k * hop + window <= nsampl)%nat) /\
    (* fewer than two windows: the global result with a trailing axis *)
    ((nw < 2)%Z -> framewise_plan arity nsrc nsampl window hop sil fk fglob = (r <- fglob ;; Ok (expand_last r))) /\
    (* otherwise: one column per window; NaN in EVERY output for a silent window, else the per-window result *)
    ((2 <= nw)%Z ->
     (forall k, (k < Z.to_nat nw)%nat -> sil k = false -> exists r, fk k = Ok r /\ shape_result arity nsrc r = true) ->
     exists tables,
       framewise_plan arity nsrc nsampl window hop sil fk fglob = Ok tables /\
       length tables = arity /\
       forall m, (m < arity)%nat ->
         length (nth m tables []) = nsrc /\
         forall s, (s < nsrc)%nat ->
           length (nth s (nth m tables []) []) = Z.to_nat nw /\
           forall k, (k < Z.to_nat nw)%nat ->
             nth k (nth s (nth m tables []) []) NaN =
             if sil k then NaN else match fk k with Ok r => nth s (nth m r []) NaN | Raise _ => NaN end).
Proof.
  intros arity nsrc nsampl window hop sil fk fglob Hh.
  destruct (nwin_of_spec nsampl window hop Hh) as (nw & E & B). exists nw.
  split; [exact E|]. split; [exact B|]. split; [apply nwin_counts_windows; auto|].
  unfold framewise_plan. rewrite E. cbn [bind]. split.
  - intros Hlt. apply Z.ltb_lt in Hlt. rewrite Hlt. reflexivity.
  - intros Hge Hwin. assert (Hnlt : (nw <? 2)%Z = false) by (apply Z.ltb_ge; lia). rewrite Hnlt.
    destruct (mapM_all_ok (window_result arity nsrc sil fk) (seq 0 (Z.to_nat nw))) as (cols & Hc).
    { intros k Hk. apply in_seq in Hk. unfold window_result. destruct (sil k) eqn:Sk; [eauto|].
      destruct (Hwin k ltac:(lia) Sk) as (r & -> & Hs). cbn. rewrite Hs. eauto. }
    rewrite Hc. cbn [bind]. eexists; split; [reflexivity|].
    apply mapM_ok in Hc. apply (Forall2_nth_seq _ _ _ []) in Hc as (Lc & Hcols).
    destruct (column_tables_shape arity nsrc cols) as (S1 & S2). split; [exact S1|].
    intros m Hm. destruct (S2 m Hm) as (S3 & S4). split; [exact S3|].
    intros s Hs. split; [rewrite (S4 s Hs); exact Lc|].
    intros k Hk. rewrite column_tables_entry;
      [|assumption|assumption|exact (eq_ind_r (fun n => (k < n)%nat) Hk Lc)].
    specialize (Hcols k Hk). unfold window_result in Hcols.
    destruct (sil k) eqn:Sk.
    + inversion Hcols as [Hr].
      transitivity (nth s (nth m (nan_result arity nsrc) []) NaN); [|apply nan_result_entry; auto].
      do 2 f_equal. symmetry; exact Hr.
    + destruct (fk k) as [r|e]; cbn in Hcols; [|discriminate].
      destruct (shape_result arity nsrc r); [|discriminate]. inversion Hcols; subst. reflexivity.
Qed.

(* an error in a window that is evaluated is propagated *)
Lemma framewise_plan_window_error arity nsrc nsampl window hop sil fk fglob nw k e :
  nwin_of nsampl window hop = Ok nw -> (2 <= nw)%Z -> (k < Z.to_nat nw)%nat -> sil k = false -> fk k = Raise e ->
  exists e', framewise_plan arity nsrc nsampl window hop sil fk fglob = Raise e'.
Proof.
  intros E Hge Hk Sk Fk. unfold framewise_plan. rewrite E. cbn [bind].
  assert (Hnlt : (nw <? 2)%Z = false) by (apply Z.ltb_ge; lia). rewrite Hnlt.
  destruct (mapM _ _) as [cols|e'] eqn:M; cbn; [|eauto].
  exfalso. apply mapM_ok in M. apply (Forall2_nth_seq _ _ _ []) in M as (_ & M). specialize (M k Hk).
  unfold window_result in M. rewrite Sk, Fk in M. discriminate.
Qed.

(* arity of whatever is returned *)
Theorem framewise_plan_arity : forall arity nsrc nsampl window hop sil fk fglob t,
  (forall r, fglob = Ok r -> length r = arity) ->
  framewise_plan arity nsrc nsampl window hop sil fk fglob = Ok t -> length t = arity.
Proof.
  intros arity nsrc nsampl window hop sil fk fglob t Hg. unfold framewise_plan.
  destruct (nwin_of nsampl window hop) as [nw|]; cbn [bind]; [|discriminate].
  destruct (nw <? 2)%Z.
  - destruct fglob as [r|]; cbn; [|discriminate]. intros H; inversion H. unfold expand_last. rewrite map_length. auto.
  - destruct (mapM _ _); cbn; [|discriminate]. intros H; inversion H. apply column_tables_shape.
Qed.

(* ------------------------------------------------------------------------------------------------------------ *)
(* signal level                                                                                                  *)
(* ------------------------------------------------------------------------------------------------------------ *)
Section Sig.
  Variable S : Type.
  Variable shape : S -> list nat.
  Variable silent : S -> bool.
  Variable slice : nat -> nat -> S -> S.
  Variable arity max_sources : nat.
  Variable f : S -> S -> bool -> res result.       (* the non-framewise function *)

  Let fw := framewise S shape silent slice arity max_sources f.

  (* invalid input: validate's exception *)
  Lemma framewise_invalid ref est window hop cp e :
    validate max_sources (shape ref) (shape est) (silent ref) (silent est) = Raise e -> fw ref est window hop cp = Raise e.
  Proof. intros H. unfold fw, framewise, framewise_sig. rewrite H. reflexivity. Qed.

  (* valid empty input: `arity` empty arrays *)
  Lemma framewise_empty ref est window hop cp w :
    validate max_sources (shape ref) (shape est) (silent ref) (silent est) = Ok w ->
    size_of (shape ref) = 0%nat \/ size_of (shape est) = 0%nat ->
    fw ref est window hop cp = Ok (repeat [] arity).
  Proof.
    intros H E. unfold fw, framewise, framewise_sig. rewrite H. cbn [bind].
    destruct E as [E|E]; rewrite E; cbn; [reflexivity|]. now rewrite orb_true_r.
  Qed.

  (* valid non-empty input: the plan, with window k evaluated by f on the slices [k*hop, k*hop+window) *)
  Lemma framewise_nonempty ref est window hop cp w :
    validate max_sources (shape ref) (shape est) (silent ref) (silent est) = Ok w ->
    size_of (shape ref) <> 0%nat -> size_of (shape est) <> 0%nat ->
    fw ref est window hop cp =
    framewise_plan arity (nth 0 (shape ref) 0%nat) (nth 1 (shape ref) 0%nat) window hop
      (fun k => silent (slice (k * hop) (k * hop + window) ref) || silent (slice (k * hop) (k * hop + window) est))
      (fun k => f (slice (k * hop) (k * hop + window) ref) (slice (k * hop) (k * hop + window) est) cp)
      (f ref est cp).
  Proof.
    intros H E1 E2. unfold fw, framewise, framewise_sig. rewrite H. cbn [bind].
    apply Nat.eqb_neq in E1, E2. rewrite E1, E2. reflexivity.
  Qed.

  (* results of the documented arity for ALL inputs, including empty ones *)
  Theorem framewise_arity : forall ref est window hop cp t,
    (forall a b c r, f a b c = Ok r -> length r = arity) ->
    fw ref est window hop cp = Ok t -> length t = arity.
  Proof.
    intros ref est window hop cp t Hf. unfold fw, framewise, framewise_sig.
    destruct (validate _ _ _ _ _); cbn [bind]; [|discriminate].
    destruct (_ || _).
    - intros H; inversion H. apply repeat_length.
    - apply framewise_plan_arity. intros r; apply Hf.
  Qed.
End Sig.

(* the two instances *)
Corollary framewise_sources_arity : forall mx f ref est window hop cp t,
  (forall a b c r, f a b c = Ok r -> length r = 4%nat) ->
  framewise_sources mx f ref est window hop cp = Ok t -> length t = 4%nat.
Proof. intros mx f. apply framewise_arity. Qed.
Corollary framewise_images_arity : forall mx f ref est window hop cp t,
  (forall a b c r, f a b c = Ok r -> length r = 5%nat) ->
  framewise_images mx f ref est window hop cp = Ok t -> length t = 5%nat.
Proof. intros mx f. apply framewise_arity. Qed.

(* every window of the plan has exactly `window` samples *)
Lemma slice_samples_length {A} a b (x : list (list A)) n :
  Forall (fun row => length row = n) x -> (a <= b)%nat -> (b <= n)%nat ->
  Forall (fun row => length row = (b - a)%nat) (slice_samples a b x).
Proof.
  intros F H1 H2. unfold slice_samples. apply Forall_forall. intros r Hr.
  apply in_map_iff in Hr as (row & <- & Hrow). rewrite Forall_forall in F.
  rewrite firstn_length, skipn_length, (F row Hrow). lia.
Qed.

(* satisfiability of the hypotheses of framewise_plan_spec: 12 samples, window 4, hop 4, middle window silent *)
Example framewise_plan_example :
  framewise_plan 4 1 12 4 4 (fun k => Nat.eqb k 1)
    (fun k => Ok [[Fin (inject_Z (Z.of_nat k))]; [PInf]; [Fin 7]; [Fin 0]]) (Raise ValueError)
  = Ok [[[Fin 0; NaN; Fin 2]]; [[PInf; NaN; PInf]]; [[Fin 7; NaN; Fin 7]]; [[Fin 0; NaN; Fin 0]]].
Proof. reflexivity. Qed.
