(* Properties of Model.Alignment (mir_eval.alignment): absolute errors are non-negative, percentage_correct and
   percentage_correct_segments lie in [0, 1], percentage_correct is monotone in the window, a perfect estimate has zero
   error and pc = pcs = 1, PCS (MIREX mode) is invariant under shifting all timestamps, and the published definitions. *)
From Coq Require Import List Bool Arith ZArith QArith Qabs Qminmax Lia Lqa Permutation Sorted.
From ME Require Import Model.Prelude Proofs.EventsSpec Model.Alignment.
Import ListNotations.
Open Scope Q_scope.

(* ------------------------------------------------------------------------------------------ *)
(* arithmetic helpers                                                                          *)
(* ------------------------------------------------------------------------------------------ *)
Lemma qnat_pos n : (0 < n)%nat -> 0 < qnat n.
Proof. intros H. unfold qnat. change 0 with (inject_Z 0). rewrite <- Zlt_Qlt. lia. Qed.
Lemma qnat_nonneg n : 0 <= qnat n.
Proof. unfold qnat. change 0 with (inject_Z 0). rewrite <- Zle_Qle. lia. Qed.
Lemma qnat_le n m : (n <= m)%nat -> qnat n <= qnat m.
Proof. intros H. unfold qnat. rewrite <- Zle_Qle. lia. Qed.

Lemma qsum_nonneg l : (forall x, In x l -> 0 <= x) -> 0 <= qsum l.
Proof. unfold qsum. induction l as [|a t IH]; cbn [fold_right]; intros H; [lra|].
  assert (0 <= a) by (apply H; now left). assert (0 <= fold_right Qplus 0 t) by (apply IH; intros; apply H; now right). lra. Qed.
Lemma qsum_zero l : (forall x, In x l -> x == 0) -> qsum l == 0.
Proof. unfold qsum. induction l as [|a t IH]; cbn [fold_right]; intros H; [reflexivity|].
  rewrite (H a) by now left. rewrite IH; [ring|]. intros; apply H; now right. Qed.

Lemma Qdiv_nonneg a b : 0 <= a -> 0 < b -> 0 <= a / b.
Proof. intros Ha Hb. apply Qle_shift_div_l; [exact Hb|]. lra. Qed.
Lemma Qdiv_le_1 a b : a <= b -> 0 < b -> a / b <= 1.
Proof. intros Ha Hb. apply Qle_shift_div_r; [exact Hb|]. lra. Qed.
Lemma Qdiv_le_num a b c : a <= b -> 0 < c -> a / c <= b / c.
Proof. intros H Hc. unfold Qdiv. apply Qmult_le_compat_r; [exact H|]. apply Qlt_le_weak, Qinv_lt_0_compat, Hc. Qed.
Lemma Qdiv_same a b : a == b -> 0 < b -> a / b == 1.
Proof. intros E Hb. rewrite E. field. lra. Qed.

(* ------------------------------------------------------------------------------------------ *)
(* validation                                                                                  *)
(* ------------------------------------------------------------------------------------------ *)
Definition mono (l : list Q) : Prop := forallb (fun d => qleb 0 d) (diffs l) = true.
Definition nonneg (l : list Q) : Prop := forallb (fun t => qleb 0 t) l = true.

Lemma validate_inv ref est : validate ref est = Ok tt ->
  ref <> [] /\ length est = length ref /\ mono ref /\ mono est /\ nonneg ref /\ nonneg est.
Proof. unfold validate, mono, nonneg. destruct (length ref =? 0)%nat eqn:L0; [discriminate|].
  destruct (length est =? length ref)%nat eqn:L; cbn [negb]; [|discriminate].
  destruct (forallb _ (diffs ref)); cbn [negb]; [|discriminate].
  destruct (forallb _ (diffs est)); cbn [negb]; [|discriminate].
  destruct (forallb _ ref); cbn [negb]; [|discriminate].
  destruct (forallb _ est); cbn [negb]; [|discriminate]. intros _.
  apply Nat.eqb_neq in L0. apply Nat.eqb_eq in L. repeat split; auto. intros ->. now apply L0. Qed.
Lemma validate_ok ref est : ref <> [] -> length est = length ref -> mono ref -> mono est -> nonneg ref -> nonneg est ->
  validate ref est = Ok tt.
Proof. unfold validate, mono, nonneg. intros N L M1 M2 P1 P2.
  destruct (length ref =? 0)%nat eqn:L0. { apply Nat.eqb_eq in L0. destruct ref; [contradiction|discriminate]. }
  rewrite L, Nat.eqb_refl, M1, M2, P1, P2. reflexivity. Qed.
Lemma validate_unit ref est u : validate ref est = Ok u -> validate ref est = Ok tt.
Proof. now destruct u. Qed.

Lemma mono_cons a b t : mono (a :: b :: t) <-> a <= b /\ mono (b :: t).
Proof. unfold mono. cbn [diffs forallb]. rewrite andb_true_iff, qleb_true. split; intros [H1 H2]; (split; [lra|exact H2]). Qed.
Lemma mono_tl a t : mono (a :: t) -> mono t.
Proof. destruct t as [|b t]; [reflexivity|]. intros H. now apply mono_cons in H. Qed.
Lemma nonneg_In l x : nonneg l -> In x l -> 0 <= x.
Proof. unfold nonneg. rewrite forallb_forall. intros H Hi. now apply qleb_true, H. Qed.

Lemma mono_hd_le_last a t : mono (a :: t) -> a <= last (a :: t) 0.
Proof. revert a. induction t as [|b t IH]; intros a H; [cbn; lra|].
  apply mono_cons in H. destruct H as [Hab H]. specialize (IH b H).
  change (last (a :: b :: t) 0) with (last (b :: t) 0). lra. Qed.
Lemma mono_In_le_last a t x : mono (a :: t) -> In x (a :: t) -> x <= last (a :: t) 0.
Proof. revert a. induction t as [|b t IH]; intros a H Hi.
  - destruct Hi as [<-|[]]. cbn. lra.
  - destruct Hi as [<-|Hi]; [now apply mono_hd_le_last|].
    change (last (a :: b :: t) 0) with (last (b :: t) 0). apply IH; [now apply mono_cons in H|exact Hi]. Qed.
Lemma mono_app_last l d : mono l -> (forall x, In x l -> x <= d) -> mono (l ++ [d]).
Proof. induction l as [|a t IH]; intros M H; [reflexivity|]. destruct t as [|b t].
  - cbn [app]. apply mono_cons. split; [apply H; now left|reflexivity].
  - change ((a :: b :: t) ++ [d]) with (a :: b :: (t ++ [d])). apply mono_cons. apply mono_cons in M. split; [tauto|].
    apply IH; [tauto|]. intros x Hx. apply H. now right. Qed.

Lemma qmaxl_ge l x : In x l -> x <= qmaxl l.
Proof. destruct l as [|a t]; [intros []|]. unfold qmaxl.
  assert (G : forall t acc, acc <= fold_left Qmax t acc /\ forall y, In y t -> y <= fold_left Qmax t acc).
  { clear. induction t as [|b t IH]; intros acc; cbn [fold_left]; [split; [lra|intros y []]|].
    destruct (IH (Qmax acc b)) as [I1 I2]. pose proof (Q.le_max_l acc b). pose proof (Q.le_max_r acc b).
    split; [lra|]. intros y [<-|Hy]; [lra|now apply I2]. }
  destruct (G t a) as [G1 G2]. intros [<-|Hx]; [exact G1|now apply G2]. Qed.

(* ------------------------------------------------------------------------------------------ *)
(* deviations, mean, median                                                                    *)
(* ------------------------------------------------------------------------------------------ *)
Lemma deviations_length ref est : length est = length ref -> length (deviations ref est) = length ref.
Proof. intros L. unfold deviations. rewrite map_length, combine_length, L. apply Nat.min_id. Qed.
Lemma deviations_nonneg ref est x : In x (deviations ref est) -> 0 <= x.
Proof. unfold deviations. rewrite in_map_iff. intros (re & <- & _). apply Qabs_nonneg. Qed.
Lemma deviations_self ref x : In x (deviations ref ref) -> x == 0.
Proof. unfold deviations. rewrite in_map_iff. intros ([a b] & <- & Hi).
  assert (a = b). { clear -Hi. induction ref as [|c t IH]; [destruct Hi|]. destruct Hi as [E|Hi]; [congruence|auto]. }
  subst b. cbn [fst snd]. assert (E : a - a == 0) by ring. rewrite E. reflexivity. Qed.

Lemma qinsert_perm x l : Permutation (x :: l) (qinsert x l).
Proof. induction l as [|y t IH]; cbn [qinsert]; [reflexivity|]. destruct (qleb x y); [reflexivity|].
  rewrite perm_swap. now apply perm_skip. Qed.
Lemma qsort_perm l : Permutation l (qsort l).
Proof. induction l as [|x t IH]; cbn [qsort fold_right]; [reflexivity|].
  rewrite <- qinsert_perm. now apply perm_skip. Qed.
Lemma qinsert_sorted x l : StronglySorted Qle l -> StronglySorted Qle (qinsert x l).
Proof. induction l as [|y t IH]; intros S; cbn [qinsert]; [repeat constructor|].
  apply StronglySorted_inv in S. destruct S as [St Hy]. destruct (qleb x y) eqn:E.
  - apply qleb_true in E. constructor; [now constructor|]. constructor; [exact E|].
    eapply Forall_impl; [|exact Hy]. intros z Hz. cbn in *. lra.
  - apply qleb_false in E. constructor; [now apply IH|].
    eapply Permutation_Forall; [apply qinsert_perm|]. constructor; [lra|exact Hy]. Qed.
Lemma qsort_sorted l : StronglySorted Qle (qsort l).
Proof. induction l as [|x t IH]; cbn [qsort fold_right]; [constructor|]. now apply qinsert_sorted. Qed.

Lemma nth_prop (P : Q -> Prop) (s : list Q) i : (forall x, In x s -> P x) -> P 0 -> P (nth i s 0).
Proof. intros H H0. destruct (nth_in_or_default i s 0) as [Hi|E]; [auto|now rewrite E]. Qed.
Lemma qmedian_prop (P : Q -> Prop) l :
  (forall x, In x l -> P x) -> P 0 -> (forall a b, P a -> P b -> P ((a + b) / 2)) -> P (qmedian l).
Proof. intros H H0 Hm. unfold qmedian.
  assert (Hs : forall x, In x (qsort l) -> P x).
  { intros x Hx. apply H. eapply Permutation_in; [symmetry; apply qsort_perm|exact Hx]. }
  destruct (Nat.even (length l)); [apply Hm|]; now apply nth_prop. Qed.

(* ------------------------------------------------------------------------------------------ *)
(* absolute_error                                                                              *)
(* ------------------------------------------------------------------------------------------ *)
Lemma absolute_error_inv ref est med mean : absolute_error ref est = Ok (med, mean) ->
  validate ref est = Ok tt /\ med = qmedian (deviations ref est) /\ mean = qmean (deviations ref est).
Proof. unfold absolute_error. destruct (validate ref est) as [[]|] eqn:V; [|discriminate]. cbn [bind].
  intros H. injection H as <- <-. auto. Qed.

(* C01 *)
Theorem abs_error_nonneg ref est med mean : absolute_error ref est = Ok (med, mean) -> 0 <= med /\ 0 <= mean.
Proof. intros H. apply absolute_error_inv in H. destruct H as (V & -> & ->).
  destruct (validate_inv _ _ V) as (N & L & _). split.
  - apply (qmedian_prop (fun x => 0 <= x)); [apply deviations_nonneg|lra|].
    intros a b Ha Hb. apply Qdiv_nonneg; lra.
  - unfold qmean. apply Qdiv_nonneg; [apply qsum_nonneg, deviations_nonneg|].
    apply qnat_pos. rewrite (deviations_length _ _ L). destruct ref; [contradiction|cbn; lia]. Qed.

(* C04: mean absolute error and median absolute error (middle element of the sorted deviations, or the mean of the two
   middle elements) *)
Theorem abs_error_def ref est med mean : absolute_error ref est = Ok (med, mean) ->
  let d := map (fun re => Qabs (fst re - snd re)) (combine ref est) in
  let n := length ref in
  length d = n /\ mean = qsum d / qnat n /\
  exists s, Permutation d s /\ StronglySorted Qle s /\
    med = if Nat.even n then (nth (n / 2 - 1) s 0 + nth (n / 2) s 0) / 2 else nth (n / 2) s 0.
Proof. intros H d n. apply absolute_error_inv in H. destruct H as (V & -> & ->).
  destruct (validate_inv _ _ V) as (N & L & _). pose proof (deviations_length _ _ L) as Ld.
  split; [exact Ld|]. split; [unfold qmean; now rewrite Ld|].
  exists (qsort (deviations ref est)). split; [apply qsort_perm|]. split; [apply qsort_sorted|].
  unfold qmedian. now rewrite Ld. Qed.

(* ------------------------------------------------------------------------------------------ *)
(* percentage_correct                                                                          *)
(* ------------------------------------------------------------------------------------------ *)
Lemma pc_inv ref est w v : percentage_correct ref est w = Ok v ->
  validate ref est = Ok tt /\ v = qnat (count_within w (deviations ref est)) / qnat (length (deviations ref est)).
Proof. unfold percentage_correct. destruct (validate ref est) as [[]|] eqn:V; [|discriminate]. cbn [bind].
  intros H. injection H as <-. auto. Qed.
Lemma count_within_le w d : (count_within w d <= length d)%nat.
Proof. unfold count_within. induction d as [|x t IH]; cbn [filter length]; [lia|]. destruct (qleb x w); cbn [length]; lia. Qed.
Lemma count_within_mono w w' d : w <= w' -> (count_within w d <= count_within w' d)%nat.
Proof. intros Hw. unfold count_within. induction d as [|x t IH]; cbn [filter]; [lia|].
  destruct (qleb x w) eqn:E.
  - apply qleb_true in E. assert (E' : qleb x w' = true) by (apply qleb_true; lra). rewrite E'. cbn [length]. lia.
  - destruct (qleb x w'); cbn [length]; lia. Qed.
Lemma dev_len_pos ref est : validate ref est = Ok tt -> 0 < qnat (length (deviations ref est)).
Proof. intros V. destruct (validate_inv _ _ V) as (N & L & _). apply qnat_pos.
  rewrite (deviations_length _ _ L). destruct ref; [contradiction|cbn; lia]. Qed.

(* C01 *)
Theorem pc_range ref est w v : percentage_correct ref est w = Ok v -> 0 <= v <= 1.
Proof. intros H. apply pc_inv in H. destruct H as (V & ->). pose proof (dev_len_pos _ _ V) as Hn. split.
  - apply Qdiv_nonneg; [apply qnat_nonneg|exact Hn].
  - apply Qdiv_le_1; [apply qnat_le, count_within_le|exact Hn]. Qed.

(* C07: widening the window never lowers the score *)
Theorem pc_window_mono ref est w w' v v' : w <= w' ->
  percentage_correct ref est w = Ok v -> percentage_correct ref est w' = Ok v' -> v <= v'.
Proof. intros Hw H H'. apply pc_inv in H, H'. destruct H as (V & ->). destruct H' as (_ & ->).
  apply Qdiv_le_num; [apply qnat_le, count_within_mono, Hw|apply dev_len_pos, V]. Qed.
Example pc_window_mono_ex : percentage_correct [1; 2] [1; (5#2)] (1#4) = Ok (qnat 1 / qnat 2)
                            /\ percentage_correct [1; 2] [1; (5#2)] (1#2) = Ok (qnat 2 / qnat 2).
Proof. split; reflexivity. Qed.

(* C04: the fraction of timestamps whose estimate lies within `window` of the reference *)
Theorem pc_def ref est w v : percentage_correct ref est w = Ok v ->
  v = qnat (length (filter (fun re => Qle_bool (Qabs (fst re - snd re)) w) (combine ref est))) / qnat (length ref).
Proof. intros H. apply pc_inv in H. destruct H as (V & ->). destruct (validate_inv _ _ V) as (_ & L & _).
  rewrite (deviations_length _ _ L). f_equal. f_equal. unfold count_within, deviations.
  generalize (combine ref est). intros l. induction l as [|x t IH]; [reflexivity|]. cbn [map filter].
  unfold qleb at 1. destruct (Qle_bool (Qabs (fst x - snd x)) w); cbn [length]; now rewrite IH. Qed.

(* ------------------------------------------------------------------------------------------ *)
(* percentage_correct_segments                                                                 *)
(* ------------------------------------------------------------------------------------------ *)
Lemma overlap_nonneg a b c d : 0 <= overlap a b c d.
Proof. unfold overlap. apply Q.le_max_r. Qed.
Lemma overlap_le a b c d : a <= b -> overlap a b c d <= b - a.
Proof. intros H. unfold overlap. apply Q.max_lub; [|lra].
  pose proof (Q.le_min_l b d). pose proof (Q.le_max_l a c). lra. Qed.
Lemma overlap_self a b : a <= b -> overlap a b a b == b - a.
Proof. intros H. unfold overlap. rewrite Q.min_id, Q.max_id. apply Q.max_l. lra. Qed.
Lemma overlaps_nonneg rs re es ee x : In x (overlaps rs re es ee) -> 0 <= x.
Proof. revert re es ee. induction rs as [|a rs IH]; intros [|b re] [|c es] [|d ee]; cbn [overlaps In]; try tauto.
  intros [<-|Hi]; [apply overlap_nonneg|eauto]. Qed.

(* sum of the overlaps with the segments between consecutive entries of a monotone list R: at most last R - first R *)
Lemma overlaps_tele a t es ee : mono (a :: t) ->
  qsum (overlaps (removelast (a :: t)) t es ee) <= last (a :: t) 0 - a.
Proof. revert a es ee. induction t as [|b t IH]; intros a es ee M; [cbn; lra|].
  change (removelast (a :: b :: t)) with (a :: removelast (b :: t)).
  change (last (a :: b :: t) 0) with (last (b :: t) 0).
  apply mono_cons in M. destruct M as [Hab M].
  destruct es as [|c es], ee as [|d ee]; cbn [overlaps qsum fold_right];
    try (pose proof (mono_hd_le_last b t M); lra).
  pose proof (overlap_le a b c d Hab). specialize (IH b es ee M). unfold qsum in IH. lra. Qed.
Lemma overlaps_tele_self a t : mono (a :: t) ->
  qsum (overlaps (removelast (a :: t)) t (removelast (a :: t)) t) == last (a :: t) 0 - a.
Proof. revert a. induction t as [|b t IH]; intros a M; [cbn; ring|].
  change (removelast (a :: b :: t)) with (a :: removelast (b :: t)).
  change (last (a :: b :: t) 0) with (last (b :: t) 0).
  apply mono_cons in M. destruct M as [Hab M]. cbn [overlaps qsum fold_right].
  rewrite (overlap_self a b Hab). specialize (IH b M). unfold qsum in IH. rewrite IH. ring. Qed.

Lemma removelast_cons_app (a : Q) l d : removelast (a :: l ++ [d]) = a :: l.
Proof. change (a :: l ++ [d]) with ((a :: l) ++ [d]). apply removelast_last. Qed.
Lemma last_cons_app (a : Q) l d : last (a :: l ++ [d]) 0 = d.
Proof. change (a :: l ++ [d]) with ((a :: l) ++ [d]). apply last_last. Qed.

Lemma ext_mono ref d : mono ref -> nonneg ref -> qltb d (qmaxl ref) = false -> 0 <= d -> mono (0 :: ref ++ [d]).
Proof. intros M P Hd Hd0. apply qltb_false in Hd. destruct ref as [|a t].
  - cbn [app]. apply mono_cons. split; [exact Hd0|reflexivity].
  - change ((a :: t) ++ [d]) with (a :: (t ++ [d])). apply mono_cons. split; [apply (nonneg_In (a :: t)); [exact P|now left]|].
    change (a :: t ++ [d]) with ((a :: t) ++ [d]). apply mono_app_last; [exact M|].
    intros x Hx. pose proof (qmaxl_ge _ _ Hx). lra. Qed.

Definition mirex_overlaps (ref est : list Q) : list Q := overlaps (removelast ref) (tl ref) (removelast est) (tl est).
Definition dur_overlaps (ref est : list Q) (d : Q) : list Q := overlaps (0 :: ref) (ref ++ [d]) (0 :: est) (est ++ [d]).

Lemma pcs_inv ref est dur v : percentage_correct_segments ref est dur = Ok v ->
  validate ref est = Ok tt /\
  match dur with
  | Some d => 0 < d /\ qltb d (qmaxl ref) = false /\ qltb d (qmaxl est) = false /\ v = qsum (dur_overlaps ref est d) / d
  | None => 0 < last ref 0 - hd 0 ref /\ v = qsum (mirex_overlaps ref est) / (last ref 0 - hd 0 ref)
  end.
Proof. unfold percentage_correct_segments. destruct (validate ref est) as [[]|] eqn:V; [|discriminate]. cbn [bind].
  destruct dur as [d|].
  - destruct (qleb d 0) eqn:D0; [discriminate|]. destruct (qltb d (qmaxl ref)) eqn:D1; [discriminate|].
    destruct (qltb d (qmaxl est)) eqn:D2; [discriminate|]. intros H. injection H as <-.
    apply qleb_false in D0. auto.
  - destruct (qleb (last ref 0 - hd 0 ref) 0) eqn:D0; [discriminate|]. intros H. injection H as <-.
    apply qleb_false in D0. auto. Qed.

(* C01 *)
Theorem pcs_range ref est dur v : percentage_correct_segments ref est dur = Ok v -> 0 <= v <= 1.
Proof. intros H. apply pcs_inv in H. destruct H as (V & H). destruct (validate_inv _ _ V) as (N & L & M1 & M2 & P1 & P2).
  destruct dur as [d|].
  - destruct H as (Hd & D1 & D2 & ->). split.
    + apply Qdiv_nonneg; [apply qsum_nonneg, overlaps_nonneg|exact Hd].
    + apply Qdiv_le_1; [|exact Hd]. unfold dur_overlaps.
      pose proof (overlaps_tele 0 (ref ++ [d]) (0 :: est) (est ++ [d]) (ext_mono ref d M1 P1 D1 (Qlt_le_weak _ _ Hd))) as T.
      rewrite removelast_cons_app, last_cons_app in T. lra.
  - destruct H as (Hd & ->). split.
    + apply Qdiv_nonneg; [apply qsum_nonneg, overlaps_nonneg|exact Hd].
    + apply Qdiv_le_1; [|exact Hd]. unfold mirex_overlaps. destruct ref as [|a t]; [contradiction|].
      cbn [tl hd]. apply overlaps_tele, M1. Qed.

(* C04: overlap of the segments induced by consecutive timestamps, divided by the total duration.
   MIREX mode (duration = None): segments (t_i, t_{i+1}), i < N - 1, total = last reference - first reference;
   duration mode: segments (0, t_1), (t_1, t_2), ..., (t_N, duration), total = duration. *)
Lemma overlaps_nth rs re es ee : length re = length rs -> length es = length rs -> length ee = length rs ->
  overlaps rs re es ee = map (fun i => Qmax (Qmin (nth i re 0) (nth i ee 0) - Qmax (nth i rs 0) (nth i es 0)) 0) (seq 0 (length rs)).
Proof. revert re es ee. induction rs as [|a rs IH]; intros [|b re] [|c es] [|d ee]; cbn [length]; try discriminate; [reflexivity|].
  intros L1 L2 L3. cbn [overlaps seq map nth]. f_equal. rewrite <- seq_shift, map_map. apply IH; lia. Qed.
Lemma removelast_length {A} (l : list A) : length (removelast l) = (length l - 1)%nat.
Proof. induction l as [|a [|b t] IH]; [reflexivity|reflexivity|]. change (removelast (a :: b :: t)) with (a :: removelast (b :: t)).
  cbn [length] in *. lia. Qed.
Lemma tl_length {A} (l : list A) : length (tl l) = (length l - 1)%nat.
Proof. destruct l; cbn; lia. Qed.
Lemma nth_removelast (l : list Q) i : (i < length l - 1)%nat -> nth i (removelast l) 0 = nth i l 0.
Proof. revert i. induction l as [|a [|b t] IH]; intros i Hi; [cbn in Hi; lia|cbn in Hi; lia|].
  change (removelast (a :: b :: t)) with (a :: removelast (b :: t)). destruct i; [reflexivity|].
  cbn [nth]. apply IH. cbn [length] in *. lia. Qed.
Lemma nth_tl (l : list Q) i : nth i (tl l) 0 = nth (S i) l 0.
Proof. destruct l; [now destruct i|reflexivity]. Qed.

Lemma last_nth (l : list Q) : last l 0 = nth (length l - 1) l 0.
Proof. induction l as [|a [|b t] IH]; [reflexivity|reflexivity|].
  change (last (a :: b :: t) 0) with (last (b :: t) 0). rewrite IH.
  replace (length (a :: b :: t) - 1)%nat with (S (length (b :: t) - 1)) by (cbn [length]; lia). reflexivity. Qed.

Theorem pcs_def ref est dur v : percentage_correct_segments ref est dur = Ok v ->
  let n := length ref in
  match dur with
  | None =>
      v = qsum (map (fun i => Qmax (Qmin (nth (S i) ref 0) (nth (S i) est 0) - Qmax (nth i ref 0) (nth i est 0)) 0) (seq 0 (n - 1)))
          / (nth (n - 1) ref 0 - nth 0 ref 0)
  | Some d =>
      v = qsum (map (fun i => Qmax (Qmin (nth i (ref ++ [d]) 0) (nth i (est ++ [d]) 0) - Qmax (nth i (0 :: ref) 0) (nth i (0 :: est) 0)) 0)
                    (seq 0 (n + 1))) / d
  end.
Proof. intros H n. apply pcs_inv in H. destruct H as (V & H). destruct (validate_inv _ _ V) as (N & L & _).
  destruct dur as [d|].
  - destruct H as (_ & _ & _ & ->). f_equal. f_equal. unfold dur_overlaps.
    rewrite overlaps_nth by (cbn [length]; rewrite ?app_length; cbn [length]; lia).
    cbn [length]. replace (S (length ref)) with (n + 1)%nat by (unfold n; lia). reflexivity.
  - destruct H as (_ & ->). rewrite last_nth. replace (hd 0 ref) with (nth 0 ref 0) by now destruct ref.
    f_equal. f_equal. unfold mirex_overlaps.
    rewrite overlaps_nth by (rewrite ?removelast_length, ?tl_length; lia).
    rewrite removelast_length. apply map_ext_in. intros i Hi. apply in_seq in Hi.
    rewrite !nth_tl, !nth_removelast by lia. reflexivity. Qed.

(* ------------------------------------------------------------------------------------------ *)
(* C02: a perfect estimate                                                                     *)
(* ------------------------------------------------------------------------------------------ *)
Theorem alignment_self ref w : validate ref ref = Ok tt -> 0 <= w ->
  (exists med mean, absolute_error ref ref = Ok (med, mean) /\ med == 0 /\ mean == 0)
  /\ (exists v, percentage_correct ref ref w = Ok v /\ v == 1)
  /\ (0 < last ref 0 - hd 0 ref -> exists v, percentage_correct_segments ref ref None = Ok v /\ v == 1)
  /\ (forall d, 0 < d -> qmaxl ref <= d -> exists v, percentage_correct_segments ref ref (Some d) = Ok v /\ v == 1).
Proof. intros V Hw. destruct (validate_inv _ _ V) as (N & L & M & _ & P & _). repeat split.
  - unfold absolute_error. rewrite V. cbn [bind]. eexists _, _. split; [reflexivity|]. split.
    + apply (qmedian_prop (fun x => x == 0)); [apply deviations_self|reflexivity|].
      intros a b -> ->. reflexivity.
    + unfold qmean. rewrite (qsum_zero _ (deviations_self ref)). apply Qdiv_0_num. reflexivity.
  - unfold percentage_correct. rewrite V. cbn [bind]. eexists. split; [reflexivity|].
    apply Qdiv_same; [|apply dev_len_pos, V]. unfold count_within.
    assert (E : filter (fun x => qleb x w) (deviations ref ref) = deviations ref ref).
    { pose proof (deviations_self ref) as Z. induction (deviations ref ref) as [|x t IH]; [reflexivity|]. cbn [filter].
      assert (Hx : qleb x w = true) by (apply qleb_true; rewrite (Z x) by (now left); exact Hw).
      rewrite Hx. f_equal. apply IH. intros y Hy. apply Z. now right. }
    now rewrite E.
  - intros Hd. unfold percentage_correct_segments. rewrite V. cbn [bind].
    destruct (qleb (last ref 0 - hd 0 ref) 0) eqn:D; [apply qleb_true in D; lra|].
    eexists. split; [reflexivity|]. apply Qdiv_same; [|exact Hd].
    destruct ref as [|a t]; [contradiction|]. cbn [tl hd]. apply overlaps_tele_self, M.
  - intros d Hd Hmax. unfold percentage_correct_segments. rewrite V. cbn [bind].
    destruct (qleb d 0) eqn:D; [apply qleb_true in D; lra|].
    assert (D1 : qltb d (qmaxl ref) = false) by (apply qltb_false; exact Hmax). rewrite D1.
    eexists. split; [reflexivity|]. apply Qdiv_same; [|exact Hd].
    pose proof (overlaps_tele_self 0 (ref ++ [d]) (ext_mono ref d M P D1 (Qlt_le_weak _ _ Hd))) as T.
    rewrite removelast_cons_app, last_cons_app in T. rewrite T. ring. Qed.
Example alignment_self_ex : validate [1; 2; 4] [1; 2; 4] = Ok tt /\ 0 < last [1; 2; 4] 0 - hd 0 [1; 2; 4].
Proof. split; [reflexivity|]. cbn. lra. Qed.

(* ------------------------------------------------------------------------------------------ *)
(* C08: shifting all timestamps leaves PCS (MIREX mode) unchanged                               *)
(* ------------------------------------------------------------------------------------------ *)
Definition shift (s : Q) (l : list Q) : list Q := map (fun t => t + s) l.

Lemma Qmin_shift a b s : Qmin (a + s) (b + s) == Qmin a b + s.
Proof. destruct (Q.min_spec a b) as [[H ->]|[H ->]].
  - apply Q.min_l. lra.
  - apply Q.min_r. lra. Qed.
Lemma Qmax_shift a b s : Qmax (a + s) (b + s) == Qmax a b + s.
Proof. destruct (Q.max_spec a b) as [[H ->]|[H ->]].
  - apply Q.max_r. lra.
  - apply Q.max_l. lra. Qed.
Lemma overlap_shift a b c d s : overlap (a + s) (b + s) (c + s) (d + s) == overlap a b c d.
Proof. unfold overlap. rewrite Qmin_shift, Qmax_shift.
  assert (E : Qmin b d + s - (Qmax a c + s) == Qmin b d - Qmax a c) by ring. now rewrite E. Qed.
Lemma shift_removelast s l : removelast (shift s l) = shift s (removelast l).
Proof. induction l as [|a [|b t] IH]; [reflexivity|reflexivity|].
  change (removelast (a :: b :: t)) with (a :: removelast (b :: t)).
  change (removelast (shift s (a :: b :: t))) with ((a + s) :: removelast (shift s (b :: t))). now rewrite IH. Qed.
Lemma shift_tl s l : tl (shift s l) = shift s (tl l).
Proof. now destruct l. Qed.
Lemma overlaps_shift s rs re es ee :
  qsum (overlaps (shift s rs) (shift s re) (shift s es) (shift s ee)) == qsum (overlaps rs re es ee).
Proof. revert re es ee. induction rs as [|a rs IH]; intros [|b re] [|c es] [|d ee]; try reflexivity.
  cbn [shift map overlaps qsum fold_right]. rewrite overlap_shift. specialize (IH re es ee). unfold qsum, shift in IH.
  now rewrite IH. Qed.
Lemma last_shift s a t : last (shift s (a :: t)) 0 == last (a :: t) 0 + s.
Proof. revert a. induction t as [|b t IH]; intros a; [cbn; reflexivity|].
  change (last (shift s (a :: b :: t)) 0) with (last (shift s (b :: t)) 0). now rewrite IH. Qed.

Theorem pcs_shift s ref est v v' :
  percentage_correct_segments (shift s ref) (shift s est) None = Ok v' ->
  percentage_correct_segments ref est None = Ok v -> v' == v.
Proof. intros H' H. apply pcs_inv in H, H'. destruct H as (V & Hd & ->). destruct H' as (V' & Hd' & ->).
  destruct (validate_inv _ _ V) as (N & _). unfold mirex_overlaps.
  rewrite !shift_removelast, !shift_tl, overlaps_shift.
  destruct ref as [|a t]; [contradiction|].
  assert (E : last (shift s (a :: t)) 0 - hd 0 (shift s (a :: t)) == last (a :: t) 0 - hd 0 (a :: t)).
  { rewrite last_shift. cbn [shift map hd]. ring. }
  rewrite E. reflexivity. Qed.
Example pcs_shift_ex : percentage_correct_segments (shift 3 [1; 2; 4]) (shift 3 [1; 3; 4]) None = Ok (qsum [1; 1] / (7 - 4))
                       /\ percentage_correct_segments [1; 2; 4] [1; 3; 4] None = Ok (qsum [1; 1] / (4 - 1)).
Proof. split; vm_compute; reflexivity. Qed.
(* the shifted input must itself be valid: timestamps may not become negative *)
Example pcs_shift_negative : percentage_correct_segments (shift (-2) [1; 2; 4]) (shift (-2) [1; 3; 4]) None = Raise ValueError.
Proof. reflexivity. Qed.

Print Assumptions abs_error_nonneg.
Print Assumptions abs_error_def.
Print Assumptions pc_range.
Print Assumptions pc_window_mono.
Print Assumptions pc_def.
Print Assumptions pcs_range.
Print Assumptions pcs_def.
Print Assumptions alignment_self.
Print Assumptions pcs_shift.
