(* C14, metric level: "valid input is always scored; the metric raises ValueError exactly when its validator does".
   For every metric model  m = (_ <- validator ;; computation)  the three clauses of [valid_first]:
      m = Raise ValueError  <->  validator = Raise ValueError
      (exists v, m = Ok v)  <->  validator = Ok tt
      m = Raise e -> e = ValueError
   HONESTY NOTE ON FUEL.  The matching-based models (beat / onset F-measure, segment.detection, the transcription scores,
   multipitch) compute the size of a maximum matching with the fuel-bounded transcription of util._bipartite_match:
     - EventMetrics / Transcription return `Ok None` when the fuel runs out: `exists v, m = Ok v` then includes v = None
       (the theorems say "a result is returned", not "the result is Some");
     - Multipitch.metrics turns the same situation into `Raise OtherExn`: there the statement is [valid_first_fuel]
       (valid input gives a result OR the fuel exception; the exception is never a ValueError).
   No fuel exhaustion has been observed in any correspondence run; it is not excluded by proof here.
   Also proved: the places where a public function does NOT validate first (melody.voicing_recall / voicing_false_alarm). *)
From Coq Require Import List Bool Arith ZArith QArith Qabs Qminmax Lia Lqa.
From ME Require Import Model.Prelude Model.ChordParse Model.Validators Proofs.ValidatorsProps.
From ME Require Model.Matching Model.Events.
From ME Require Proofs.MaxMatching Proofs.TranscriptionProps Proofs.MelodyProps Proofs.KeyProps Proofs.HierarchyGauc Proofs.HierarchyLca
  Proofs.HierarchyProps Proofs.MultipitchProps Proofs.SegmentClusterProps.
Import ListNotations.
Open Scope Q_scope.

Definition valid_first {A} (metric : res A) (validator : res unit) : Prop :=
  (metric = Raise ValueError <-> validator = Raise ValueError) /\
  ((exists v, metric = Ok v) <-> validator = Ok tt) /\
  (forall e, metric = Raise e -> e = ValueError).
(* the variant for models that report exhausted matcher fuel as an exception *)
Definition valid_first_fuel {A} (metric : res A) (validator : res unit) : Prop :=
  (metric = Raise ValueError <-> validator = Raise ValueError) /\
  (validator = Ok tt -> (exists v, metric = Ok v) \/ metric = Raise OtherExn) /\
  ((exists v, metric = Ok v) -> validator = Ok tt) /\
  (forall e, metric = Raise e -> e = ValueError \/ (e = OtherExn /\ validator = Ok tt)).

Lemma valid_first_bind {A} (V : res unit) (k : unit -> res A) :
  only_VE V -> (V = Ok tt -> exists v, k tt = Ok v) -> valid_first (x <- V ;; k x) V.
Proof.
  intros HV Hk. destruct V as [[]|e]; cbn [bind].
  - destruct (Hk eq_refl) as [v Ev]. rewrite Ev. repeat split; try discriminate; eauto.
  - pose proof (HV e eq_refl) as ->. repeat split; try discriminate; try reflexivity.
    + intros [v H]; discriminate.
    + intros e' H. congruence.
Qed.
Lemma valid_first_ext {A} (m : res A) V V' : V = V' -> valid_first m V -> valid_first m V'.
Proof. intros ->. exact (fun H => H). Qed.
Lemma bind_assoc_unit {A} (a b : res unit) (k : res A) : (_ <- a ;; _ <- b ;; k) = (_ <- (_ <- a ;; b) ;; k).
Proof. destruct a as [[]|]; reflexivity. Qed.

(* ------------------------------------------------------------------------------------------------------------ *)
(* beat.f_measure, onset.f_measure, segment.detection, segment.deviation (Model/EventMetrics.v)                   *)
(* ------------------------------------------------------------------------------------------------------------ *)
Lemma em_pair_validator ref est :
  (_ <- EM.validate_events EM.MAX_TIME ref ;; EM.validate_events EM.MAX_TIME est) = events_validate_arr (arr1 ref) (arr1 est).
Proof. unfold events_validate_arr. rewrite !em_validate_events_arr. reflexivity. Qed.
Theorem beat_f_measure_valid_first : forall ref est w,
  valid_first (EM.beat_f_measure_v ref est w) (events_validate_arr (arr1 ref) (arr1 est)).
Proof.
  intros. unfold EM.beat_f_measure_v. rewrite bind_assoc_unit, em_pair_validator.
  apply valid_first_bind; [intros e; apply event_pair_raises_ValueError|intros _; eexists; reflexivity].
Qed.
Theorem onset_f_measure_valid_first : forall ref est w,
  valid_first (EM.onset_f_measure_v ref est w) (events_validate_arr (arr1 ref) (arr1 est)).
Proof.
  intros. unfold EM.onset_f_measure_v. rewrite bind_assoc_unit, em_pair_validator.
  apply valid_first_bind; [intros e; apply event_pair_raises_ValueError|intros _; eexists; reflexivity].
Qed.
Theorem detection_valid_first : forall ref est w beta trim,
  valid_first (EM.detection ref est w beta trim) (validate_boundary_arr (arr2 ref) (arr2 est)).
Proof.
  intros. unfold EM.detection. rewrite em_validate_boundary_arr.
  apply valid_first_bind; [intros e; apply boundary_raises_ValueError; discriminate|intros _; eexists; reflexivity].
Qed.
Theorem deviation_valid_first : forall ref est trim,
  valid_first (EM.deviation ref est trim) (validate_boundary_arr (arr2 ref) (arr2 est)).
Proof.
  intros. unfold EM.deviation. rewrite em_validate_boundary_arr.
  apply valid_first_bind; [intros e; apply boundary_raises_ValueError; discriminate|intros _; eexists; reflexivity].
Qed.
(* in terms of the documented convention *)
Corollary beat_f_measure_scored_iff_convention : forall ref est w,
  (exists v, EM.beat_f_measure_v ref est w = Ok v) <-> conv_event_pair (arr1 ref) (arr1 est) = true.
Proof. intros. destruct (beat_f_measure_valid_first ref est w) as (_ & H & _). rewrite H. apply event_pair_iff_convention. Qed.
Corollary detection_scored_iff_convention : forall ref est w beta trim,
  (exists v, EM.detection ref est w beta trim = Ok v) <-> conv_boundary (arr2 ref) (arr2 est) = true.
Proof. intros. destruct (detection_valid_first ref est w beta trim) as (_ & H & _). rewrite H. apply boundary_iff_convention. Qed.

(* ------------------------------------------------------------------------------------------------------------ *)
(* chord.weighted_accuracy (Model/ChordScore.v): stated in ValidatorsProps                                         *)
(*   weighted_accuracy_scored_iff_convention, weighted_accuracy_raises_ValueError                                  *)
(* ------------------------------------------------------------------------------------------------------------ *)

(* ------------------------------------------------------------------------------------------------------------ *)
(* key.weighted_score / evaluate                                                                                  *)
(* ------------------------------------------------------------------------------------------------------------ *)
Theorem key_weighted_score_valid_first : forall r e, valid_first (KY.weighted_score r e) (KY.validate r e).
Proof.
  intros r e. unfold KY.weighted_score. apply valid_first_bind; [intros x; apply Key_validate_raises_ValueError|].
  intros V. unfold KY.validate in V. apply bind_ok in V. destruct V as [Vr Ve].
  destruct (KeyProps.validated_split_ok r Vr) as [pr ->]. destruct (KeyProps.validated_split_ok e Ve) as [pe ->].
  eexists; reflexivity.
Qed.
Theorem key_evaluate_valid_first : forall r e, valid_first (KY.evaluate r e) (KY.validate r e).
Proof.
  intros r e. destruct (key_weighted_score_valid_first r e) as (H1 & H2 & H3). unfold KY.evaluate.
  destruct (KY.weighted_score r e) as [s|x] eqn:E; cbn [bind].
  - repeat split; try discriminate.
    + intros H. apply H1 in H. discriminate.
    + intros _. apply H2. eexists; reflexivity.
    + intros _. eexists; reflexivity.
  - repeat split.
    + intros H. apply H1. congruence.
    + intros H. apply H1 in H. congruence.
    + intros [v H]; discriminate.
    + intros H. apply H2 in H. destruct H; discriminate.
    + intros x' H. apply H3. congruence.
Qed.

(* ------------------------------------------------------------------------------------------------------------ *)
(* melody: voicing_measures, raw_pitch_accuracy, raw_chroma_accuracy, overall_accuracy                            *)
(* ------------------------------------------------------------------------------------------------------------ *)
Definition melody_validators (rv rc ev ec : list Q) : res unit := _ <- ML.validate_voicing rv ev ;; ML.validate rv rc ev ec.
Lemma melody_validators_cases rv rc ev ec :
  (MelodyProps.melody_valid rv rc ev ec = true /\ melody_validators rv rc ev ec = Ok tt) \/
  (MelodyProps.melody_valid rv rc ev ec = false /\ melody_validators rv rc ev ec = Raise ValueError).
Proof.
  unfold melody_validators. destruct (MelodyProps.melody_valid rv rc ev ec) eqn:V.
  - left. split; [reflexivity|]. destruct (MelodyProps.validators_ok _ _ _ _ V) as [-> ->]. reflexivity.
  - right. split; [reflexivity|]. apply MelodyProps.validators_raise. exact V.
Qed.
Lemma valid_first_of_cases {A} (m : res A) (V : res unit) :
  (V = Ok tt /\ exists v, m = Ok v) \/ (V = Raise ValueError /\ m = Raise ValueError) -> valid_first m V.
Proof.
  intros [[-> [v ->]]|[-> ->]]; repeat split; try discriminate; try reflexivity; eauto.
  - intros [v H]; discriminate.
  - intros e H. congruence.
Qed.
Theorem raw_pitch_accuracy_valid_first : forall rv rc ev ec tol,
  valid_first (ML.raw_pitch_accuracy rv rc ev ec tol) (melody_validators rv rc ev ec).
Proof.
  intros. apply valid_first_of_cases. destruct (melody_validators_cases rv rc ev ec) as [[V E]|[V E]]; rewrite E.
  - left. split; [reflexivity|]. destruct (MelodyProps.rpa_def rv rc ev ec tol V) as [q [Hq _]]. eauto.
  - right. split; [reflexivity|]. apply (MelodyProps.pitch_measures_raise rv rc ev ec tol V).
Qed.
Theorem raw_chroma_accuracy_valid_first : forall rv rc ev ec tol,
  valid_first (ML.raw_chroma_accuracy rv rc ev ec tol) (melody_validators rv rc ev ec).
Proof.
  intros. apply valid_first_of_cases. destruct (melody_validators_cases rv rc ev ec) as [[V E]|[V E]]; rewrite E.
  - left. split; [reflexivity|]. destruct (MelodyProps.rca_def rv rc ev ec tol V) as [q [Hq _]]. eauto.
  - right. split; [reflexivity|]. apply (MelodyProps.pitch_measures_raise rv rc ev ec tol V).
Qed.
Theorem overall_accuracy_valid_first : forall rv rc ev ec tol,
  valid_first (ML.overall_accuracy rv rc ev ec tol) (melody_validators rv rc ev ec).
Proof.
  intros. apply valid_first_of_cases. destruct (melody_validators_cases rv rc ev ec) as [[V E]|[V E]]; rewrite E.
  - left. split; [reflexivity|]. destruct (MelodyProps.oa_def rv rc ev ec tol V) as [q [Hq _]]. eauto.
  - right. split; [reflexivity|]. apply (MelodyProps.pitch_measures_raise rv rc ev ec tol V).
Qed.
(* voicing_measures = validate_voicing, then the two rates; equal lengths make the element-wise product defined *)
Lemma np_mul_same_length a b : length a = length b -> exists p, ML.np_mul a b = Ok p.
Proof. intros H. unfold ML.np_mul. apply Nat.eqb_eq in H. rewrite H. eexists; reflexivity. Qed.
Lemma voicing_rate_total ind d rv ev : length rv = length ev -> exists q, ML.voicing_rate ind d rv ev = Ok q.
Proof.
  intros H. unfold ML.voicing_rate. destruct (ML.is_nil rv || ML.is_nil ev); [eexists; reflexivity|].
  destruct (qeqb (qsum (map ind rv)) 0); [eexists; reflexivity|].
  destruct (np_mul_same_length ev (map ind rv)) as [p ->]; [rewrite map_length; congruence|]. eexists; reflexivity.
Qed.
Theorem voicing_measures_valid_first : forall rv ev, valid_first (ML.voicing_measures rv ev) (ML.validate_voicing rv ev).
Proof.
  intros rv ev. unfold ML.voicing_measures. apply valid_first_bind; [intros e; apply Melody_validate_voicing_raises_ValueError|].
  intros V. apply Melody_validate_voicing_iff_convention in V. unfold conv_voicing in V. rewrite !andb_true_iff in V.
  destruct V as [[L _] _]. apply Nat.eqb_eq in L.
  destruct (voicing_rate_total ML.voiced_ind 1 rv ev L) as [r Hr]. destruct (voicing_rate_total ML.unvoiced_ind 0 rv ev L) as [f Hf].
  unfold ML.voicing_recall, ML.voicing_false_alarm. rewrite Hr, Hf. eexists; reflexivity.
Qed.
(* melody.voicing_recall and melody.voicing_false_alarm do NOT call validate_voicing (only voicing_measures does):
   an out-of-range voicing array is scored - the value can leave [0, 1] *)
Theorem voicing_recall_validates_first_refuted : exists rv ev q,
  ML.validate_voicing rv ev = Raise ValueError /\ ML.voicing_recall rv ev = Ok q /\ 1 < q.
Proof. exists [1], [3 # 2], (3 # 2). repeat split; vm_compute; reflexivity. Qed.
Theorem voicing_false_alarm_validates_first_refuted : exists rv ev q,
  ML.validate_voicing rv ev = Raise ValueError /\ ML.voicing_false_alarm rv ev = Ok q /\ q < 0.
Proof. exists [0], [-(1 # 2)], (-(1 # 2)). repeat split; vm_compute; reflexivity. Qed.

(* ------------------------------------------------------------------------------------------------------------ *)
(* transcription: onset_precision_recall_f1, offset_precision_recall_f1, precision_recall_f1_overlap              *)
(* (results are `option`: None = matcher fuel exhausted)                                                          *)
(* ------------------------------------------------------------------------------------------------------------ *)
Lemma tr_pair_validator ref est : TR.validate_intervals2 ref est = validate_boundary_arr (arr2 ref) (arr2 est).
Proof. unfold TR.validate_intervals2, validate_boundary_arr. rewrite !tr_validate_ivs_arr. reflexivity. Qed.
Theorem onset_prf_valid_first : forall ref est tol strict beta,
  valid_first (TR.onset_precision_recall_f1 ref est tol strict beta) (validate_boundary_arr (arr2 ref) (arr2 est)).
Proof.
  intros. unfold TR.onset_precision_recall_f1. rewrite tr_pair_validator.
  apply valid_first_bind; [intros e; apply boundary_raises_ValueError; discriminate|]. intros _.
  destruct ((length ref =? 0)%nat || (length est =? 0)%nat); eexists; reflexivity.
Qed.
Theorem offset_prf_valid_first : forall ref est ratio mintol strict beta,
  valid_first (TR.offset_precision_recall_f1 ref est ratio mintol strict beta) (validate_boundary_arr (arr2 ref) (arr2 est)).
Proof.
  intros. unfold TR.offset_precision_recall_f1. rewrite tr_pair_validator.
  apply valid_first_bind; [intros e; apply boundary_raises_ValueError; discriminate|]. intros V.
  destruct ((length ref =? 0)%nat || (length est =? 0)%nat); [eexists; reflexivity|].
  unfold TR.match_note_offsets. unfold validate_boundary_arr in V. apply bind_ok in V. destruct V as [Vr _].
  rewrite tr_validate_ivs_arr, Vr. eexists; reflexivity.
Qed.

(* matched index pairs are in range, hence the overlap ratios of the matched notes are defined *)
Lemma ratios_total ref est m :
  (forall i j, In (i, j) m -> (i < length ref)%nat /\ (j < length est)%nat) -> exists rs, TR.ratios ref est m = Ok rs.
Proof.
  induction m as [|[i j] t IH]; intros H; cbn [TR.ratios]; [eexists; reflexivity|].
  destruct (H i j (or_introl eq_refl)) as [Hi Hj].
  destruct (nth_error ref i) as [r|] eqn:Er; [|apply nth_error_None in Er; lia].
  destruct (nth_error est j) as [e|] eqn:Ee; [|apply nth_error_None in Ee; lia].
  destruct IH as [rs ->]; [intros a b Hin; apply H; right; exact Hin|]. eexists; reflexivity.
Qed.
Lemma match_pred_in_range {A B} (p : A -> B -> bool) ref est l :
  TR.match_pred p ref est = Some l -> forall i j, In (i, j) l -> (i < length ref)%nat /\ (j < length est)%nat.
Proof.
  intros H i j Hin. destruct (TranscriptionProps.match_pred_correct p ref est l H) as [(_ & _ & Hok) _].
  specialize (Hok i j Hin). apply TranscriptionProps.hitrel_bound in Hok. tauto.
Qed.
Lemma zip_notes_length ints ps : length ints = length ps -> length (TR.zip_notes ints ps) = length ints.
Proof. intros H. unfold TR.zip_notes, TR.note, TR.pitch, TR.ivl in *. rewrite combine_length, map_length. lia. Qed.
Lemma zip_notes_fst ints ps : length ints = length ps -> map fst (TR.zip_notes ints ps) = ints.
Proof.
  unfold TR.zip_notes. revert ps. induction ints as [|a t IH]; intros [|p ps] H; cbn in *; try discriminate; [reflexivity|].
  f_equal. apply IH. lia.
Qed.
Theorem prf_overlap_valid_first : forall ri rp ei ep otol ptol ratio mintol strict beta,
  valid_first (TR.precision_recall_f1_overlap ri rp ei ep otol ptol ratio mintol strict beta)
              (transcription_validate_arr (arr2 ri) (map fst rp) (arr2 ei) (map fst ep)).
Proof.
  intros. unfold TR.precision_recall_f1_overlap. rewrite tr_validate_arr.
  apply valid_first_bind; [intros e; apply notes_raises_ValueError|]. intros V.
  destruct ((length rp =? 0)%nat || (length ep =? 0)%nat); [eexists; reflexivity|].
  apply notes_iff_convention in V. unfold conv_notes in V. rewrite !andb_true_iff in V.
  destruct V as [[[[[Vri Vei] Lr] Le] _] _]. cbn [shape0 shape arr2 nth] in Lr, Le. rewrite map_length in Lr, Le.
  apply Nat.eqb_eq in Lr, Le.
  assert (Vr : TR.validate_ivs ri = Ok tt) by (rewrite tr_validate_ivs_arr; apply intervals_iff_convention; exact Vri).
  unfold TR.match_notes. rewrite (zip_notes_fst ri rp Lr).
  replace (match ratio with Some _ => TR.validate_ivs ri | None => Ok tt end) with (@Ok unit tt) by (destruct ratio; congruence).
  cbn [bind].
  destruct (TR.match_pred _ (TR.zip_notes ri rp) (TR.zip_notes ei ep)) as [m|] eqn:M; [|eexists; reflexivity].
  unfold TR.average_overlap_ratio.
  destruct (ratios_total ri ei m) as [rs ->].
  { intros i j Hin. pose proof (match_pred_in_range _ _ _ _ M i j Hin) as Hb.
    rewrite (zip_notes_length ri rp Lr), (zip_notes_length ei ep Le) in Hb. exact Hb. }
  cbn [bind]. destruct (TR.prf_of (length m) (length rp) (length ep) beta) as [[p r] f]. eexists; reflexivity.
Qed.

(* ------------------------------------------------------------------------------------------------------------ *)
(* multipitch.metrics (exhausted matcher fuel is an exception in this model)                                       *)
(* ------------------------------------------------------------------------------------------------------------ *)
Lemma cntp_raise_kind w chroma ref est e : MP.compute_num_true_positives w chroma ref est = Raise e -> e = OtherExn.
Proof.
  revert est. induction ref as [|r ref' IH]; intros est; cbn [MP.compute_num_true_positives]; [discriminate|].
  destruct est as [|x est']; [discriminate|]. destruct (MP.tp_frame chroma w r x); [|congruence].
  destruct (MP.compute_num_true_positives w chroma ref' est') eqn:E; cbn [bind]; [discriminate|].
  intros H. inversion H; subst. eapply IH; eassumption.
Qed.
Lemma resample_total {A} times (freqs : list (list A)) targets :
  length times = length freqs -> exists out, MP.resample_multipitch times freqs targets = Ok out.
Proof.
  intros H. unfold MP.resample_multipitch. destruct targets; [eexists; reflexivity|]. destruct times; [eexists; reflexivity|].
  apply Nat.eqb_eq in H. rewrite H. eexists; reflexivity.
Qed.
Lemma vff_ok {A} (v : A) : valid_first_fuel (Ok v) (Ok tt).
Proof.
  unfold valid_first_fuel. split; [split; discriminate|]. split; [intros _; left; eexists; reflexivity|].
  split; [reflexivity|discriminate].
Qed.
Lemma vff_fuel {A} : valid_first_fuel (@Raise A OtherExn) (Ok tt).
Proof.
  unfold valid_first_fuel. split; [split; discriminate|]. split; [intros _; right; reflexivity|].
  split; [reflexivity|]. intros e H. right. split; [congruence|reflexivity].
Qed.
Lemma vff_raise {A} : valid_first_fuel (@Raise A ValueError) (Raise ValueError).
Proof.
  unfold valid_first_fuel. split; [split; reflexivity|]. split; [discriminate|].
  split; [intros [v H]; discriminate|]. intros e H. left. congruence.
Qed.
Theorem multipitch_metrics_valid_first : forall hz w rt rf et ef,
  valid_first_fuel (MP.metrics hz w rt rf et ef) (MP.validate rt rf et ef).
Proof.
  intros. unfold MP.metrics, MP.metrics_trace.
  destruct (MP.validate rt rf et ef) as [[]|x] eqn:V; cbn [bind].
  - destruct (MultipitchProps.validate_inv rt rf et ef V) as (L1 & L2 & _).
    assert (R : exists out, (if MP.resample_needed et rt then MP.resample_multipitch et ef rt else Ok ef) = Ok out).
    { destruct (MP.resample_needed et rt); [apply resample_total; exact L2|eexists; reflexivity]. }
    destruct R as [out ->]. cbn [bind].
    destruct (MP.compute_num_true_positives w false _ _) as [tp|x1] eqn:E1; cbn [bind].
    + destruct (MP.compute_num_true_positives w true _ _) as [tpc|x2] eqn:E2; cbn [bind].
      * apply vff_ok.
      * apply cntp_raise_kind in E2. subst x2. apply vff_fuel.
    + apply cntp_raise_kind in E1. subst x1. apply vff_fuel.
  - pose proof (Multipitch_validate_raises_ValueError rt rf et ef x V) as ->. apply vff_raise.
Qed.
Corollary multipitch_metrics_ValueError_iff_magnitude_convention : forall hz w rt rf et ef,
  MP.metrics hz w rt rf et ef = Raise ValueError <-> conv_multipitch_abs (arr1 rt) (map arr1 rf) (arr1 et) (map arr1 ef) = false.
Proof.
  intros. destruct (multipitch_metrics_valid_first hz w rt rf et ef) as (H & _). rewrite H.
  pose proof (Multipitch_validate_iff_magnitude_convention rt rf et ef) as I.
  destruct (MP.validate rt rf et ef) as [[]|x] eqn:V.
  - split; [discriminate|]. intros C. destruct I as [I _]. rewrite (I eq_refl) in C. discriminate.
  - rewrite (Multipitch_validate_raises_ValueError rt rf et ef x V). split; [intros _|reflexivity].
    destruct (conv_multipitch_abs _ _ _ _); [|reflexivity]. destruct I as [_ I]. specialize (I eq_refl). discriminate.
Qed.

(* ------------------------------------------------------------------------------------------------------------ *)
(* hierarchy.tmeasure (from Proofs/HierarchyProps.v: hier_param_validation_iff, tmeasure_index_error_iff and       *)
(* Proofs/HierarchyLca.v: tmeasure_total) and lmeasure                                                             *)
(* ------------------------------------------------------------------------------------------------------------ *)
(* ValueError <=> bad parameters, or an annotation rejected by validate_hier_intervals, or annotations that do not have
   the same number of frames (inputs_rejected); the only other exception is the IndexError of an empty list of levels;
   everything else is scored *)
Theorem tmeasure_valid_first : forall ref est tr window fs beta,
  (HI.tmeasure ref est tr window fs beta = Raise ValueError <->
     HierarchyLca.bad_params window fs \/ HierarchyProps.inputs_rejected ref est fs) /\
  (forall e, HI.tmeasure ref est tr window fs beta = Raise e -> e = ValueError \/ (e = IndexError /\ (ref = [] \/ est = []))) /\
  (~ HierarchyLca.bad_params window fs -> ~ HierarchyProps.inputs_rejected ref est fs -> ref <> [] -> est <> [] ->
     exists v, HI.tmeasure ref est tr window fs beta = Ok v).
Proof.
  intros. split; [apply HierarchyProps.hier_param_validation_iff|].
  assert (D : forall e : exn, e = ValueError \/ e <> ValueError) by (intros []; (left; reflexivity) || (right; discriminate)).
  split.
  - intros e H. destruct (D e) as [->|Hne]; [left; reflexivity|right].
    destruct (HierarchyProps.tmeasure_index_error_iff ref est tr window fs beta e H Hne) as (E & _ & C).
    split; [exact E|]. destruct C as [C|[_ C]]; auto.
  - intros Hb Hr Hn1 Hn2. destruct (HI.tmeasure ref est tr window fs beta) as [v|e] eqn:E; [eauto|exfalso].
    destruct (D e) as [->|Hne].
    + apply HierarchyProps.hier_param_validation_iff in E. tauto.
    + destruct (HierarchyProps.tmeasure_index_error_iff ref est tr window fs beta e E Hne) as (_ & _ & C).
      destruct C as [C|[_ C]]; contradiction.
Qed.
(* the validators of tmeasure in the shape-level model: a rejected annotation is a ValueError of the metric *)
Theorem tmeasure_validator_raises : forall ref est tr window fs beta,
  validate_hier_arr (map arr2 ref) = Raise ValueError \/
  (validate_hier_arr (map arr2 ref) = Ok tt /\ validate_hier_arr (map arr2 est) = Raise ValueError) ->
  HI.tmeasure ref est tr window fs beta = Raise ValueError.
Proof.
  intros ref est tr window fs beta H. rewrite <- !hi_validate_hier_arr in H. unfold HI.tmeasure.
  destruct (qleb fs 0); [reflexivity|]. destruct (HI.window_frames window fs) as [wf|x] eqn:W; cbn [bind].
  - destruct H as [H|[H1 H2]]; [rewrite H; reflexivity|rewrite H1, H2; reflexivity].
  - unfold HI.window_frames in W. destruct window as [w0|]; [|discriminate]. destruct (qltb w0 fs); inversion W. reflexivity.
Qed.
Theorem lmeasure_validator_raises : forall ref est fs beta,
  (fs <= 0 \/ validate_hier_arr (map arr2 (HI.lh_intervals ref)) = Raise ValueError \/
   (validate_hier_arr (map arr2 (HI.lh_intervals ref)) = Ok tt /\ validate_hier_arr (map arr2 (HI.lh_intervals est)) = Raise ValueError)) ->
  HI.lmeasure ref est fs beta = Raise ValueError.
Proof.
  intros ref est fs beta H. rewrite <- !hi_validate_hier_arr in H. unfold HI.lmeasure.
  destruct (qleb fs 0) eqn:F; [reflexivity|]. destruct H as [H|[H|[H1 H2]]].
  - apply Qle_bool_iff in H. unfold qleb in F. congruence.
  - rewrite H. reflexivity.
  - rewrite H1, H2. reflexivity.
Qed.

(* ------------------------------------------------------------------------------------------------------------ *)
(* segment: pairwise, rand_index, ari (Model/SegmentCluster.v public wrappers) - PARTIAL                          *)
(* the validator part is complete; totality on valid input is proved for pairwise / rand_index under the model's    *)
(* side condition that both annotations were sampled to the same number of frames, and for all three on empty       *)
(* annotations.  Missing: ari_idx's two `Raise ZeroDivisionError` branches are not proved unreachable here.         *)
(* ------------------------------------------------------------------------------------------------------------ *)
Theorem segment_wrappers_validator_raises_partial : forall ri nrl ei nel yr ye beta,
  validate_structure_arr (arr2 ri) nrl (arr2 ei) nel = Raise ValueError ->
  SC.pairwise_full ri nrl ei nel yr ye beta = Raise ValueError /\ SC.rand_index_full ri nrl ei nel yr ye = Raise ValueError /\
  SC.ari_full ri nrl ei nel yr ye = Raise ValueError.
Proof.
  intros ri nrl ei nel yr ye beta H. rewrite <- sc_validate_structure_arr in H.
  unfold SC.pairwise_full, SC.rand_index_full, SC.ari_full. rewrite H. auto.
Qed.
Theorem segment_wrappers_ValueError_only_from_validator_partial : forall ri nrl ei nel yr ye beta,
  length yr = length ye ->
  (SC.pairwise_full ri nrl ei nel yr ye beta = Raise ValueError <-> validate_structure_arr (arr2 ri) nrl (arr2 ei) nel = Raise ValueError) /\
  ((exists v, SC.pairwise_full ri nrl ei nel yr ye beta = Ok v) <-> validate_structure_arr (arr2 ri) nrl (arr2 ei) nel = Ok tt).
Proof.
  intros ri nrl ei nel yr ye beta L. rewrite <- sc_validate_structure_arr. unfold SC.pairwise_full, SC.pairwise_pub.
  destruct (SC.validate_structure ri nrl ei nel) as [[]|x] eqn:V; cbn [bind].
  - assert (T : exists v, (if SC.is_empty ri || SC.is_empty ei then Ok (Fin 0, Fin 0, Fin 0) else SC.pairwise_idx yr ye beta) = Ok v).
    { destruct (SC.is_empty ri || SC.is_empty ei); [eexists; reflexivity|].
      rewrite (SegmentClusterProps.pairwise_idx_eq yr ye beta L). eexists; reflexivity. }
    destruct T as [v ->]. split; split; try discriminate; eauto.
  - rewrite (SegmentCluster_validate_structure_raises_ValueError ri nrl ei nel x V). split; split; try discriminate; auto.
    intros [v H]; discriminate.
Qed.
Theorem segment_wrappers_empty_scored : forall ri nrl ei nel yr ye beta,
  validate_structure_arr (arr2 ri) nrl (arr2 ei) nel = Ok tt -> (ri = [] \/ ei = []) ->
  SC.pairwise_full ri nrl ei nel yr ye beta = Ok (Fin 0, Fin 0, Fin 0) /\ SC.rand_index_full ri nrl ei nel yr ye = Ok (Fin 0) /\
  SC.ari_full ri nrl ei nel yr ye = Ok 0.
Proof.
  intros ri nrl ei nel yr ye beta V E. rewrite <- sc_validate_structure_arr in V.
  unfold SC.pairwise_full, SC.rand_index_full, SC.ari_full. rewrite V. cbn [bind].
  assert (Em : SC.is_empty ri || SC.is_empty ei = true) by (destruct E as [-> | ->]; [reflexivity|apply orb_true_r]).
  unfold SC.pairwise_pub, SC.rand_index_pub, SC.ari_pub. rewrite Em. auto.
Qed.

(* ------------------------------------------------------------------------------------------------------------ *)
(* examples: the hypotheses are satisfiable, both outcomes occur                                                  *)
(* ------------------------------------------------------------------------------------------------------------ *)
Example valid_first_examples :
  tag (EM.beat_f_measure_v [1; 2] [1; 2] (7#100)) = 0%nat /\ tag (EM.beat_f_measure_v [2; 1] [1; 2] (7#100)) = 1%nat /\
  tag (EM.beat_f_measure_v [] [] (7#100)) = 0%nat /\ tag (EM.detection [(0, 1)] [(0, 1); (1, 1)] (1#2) 1 false) = 1%nat /\
  tag (EM.detection [] [(0, 1)] (1#2) 1 false) = 0%nat /\
  tag (TR.onset_precision_recall_f1 [] [] (1#20) false 1) = 0%nat /\ tag (TR.onset_precision_recall_f1 [(1, 1)] [] (1#20) false 1) = 1%nat /\
  tag (ML.voicing_measures [1; 0] [1]) = 1%nat /\ tag (ML.voicing_measures [] []) = 0%nat.
Proof. repeat split; vm_compute; reflexivity. Qed.

(* ------------------------------------------------------------------------------------------------------------ *)
(* transcription_velocity.precision_recall_f1_overlap                                                             *)
(* ------------------------------------------------------------------------------------------------------------ *)
Lemma matched_vel_total rv ev m :
  (forall i j, In (i, j) m -> (i < length rv)%nat /\ (j < length ev)%nat) -> exists ps, TR.matched_vel rv ev m = Ok ps.
Proof.
  induction m as [|[i j] t IH]; intros H; cbn [TR.matched_vel]; [eexists; reflexivity|].
  destruct (H i j (or_introl eq_refl)) as [Hi Hj].
  destruct (nth_error rv i) as [r|] eqn:Er; [|apply nth_error_None in Er; lia].
  destruct (nth_error ev j) as [e|] eqn:Ee; [|apply nth_error_None in Ee; lia].
  destruct IH as [ps ->]; [intros a b Hin; apply H; right; exact Hin|]. eexists; reflexivity.
Qed.
Lemma filter2_In {A B} (f : B -> bool) (l : list A) (k : list B) x : In x (TR.filter2 f l k) -> In x l.
Proof.
  revert k. induction l as [|a t IH]; intros [|b k] H; cbn in H; try contradiction.
  destruct (f b); [destruct H as [->|H]; [left; reflexivity|right; eapply IH; exact H]|right; eapply IH; exact H].
Qed.
Lemma qmin_list_some (l : list Q) : l <> [] -> exists m, qmin_list l = Some m.
Proof. destruct l; [congruence|]. intros _. eexists; reflexivity. Qed.
Lemma qmax_list_some (l : list Q) : l <> [] -> exists m, qmax_list l = Some m.
Proof. destruct l; [congruence|]. intros _. eexists; reflexivity. Qed.
Lemma vel_filter_total ref_v est_v vtol m : ref_v <> [] ->
  (forall i j, In (i, j) m -> (i < length ref_v)%nat /\ (j < length est_v)%nat) ->
  exists m', TR.vel_filter ref_v est_v vtol m = Ok m' /\ forall x, In x m' -> In x m.
Proof.
  intros Hne Hr. unfold TR.vel_filter. destruct (qmin_list_some ref_v Hne) as [vmin ->]. destruct (qmax_list_some ref_v Hne) as [vmax ->].
  destruct m as [|p t]; [exists []; split; [reflexivity|intros x []]|].
  destruct (matched_vel_total (map (fun v => (v - vmin) / Qmax 1 (vmax - vmin)) ref_v) est_v (p :: t)) as [ps ->].
  { intros i j Hin. rewrite map_length. apply Hr. exact Hin. }
  cbn [bind]. destruct (TR.lstsq_line ps) as [slope icpt]. eexists. split; [reflexivity|]. intros x. apply filter2_In.
Qed.
Theorem velocity_prf_overlap_valid_first : forall ri rp rv ei ep ev otol ptol ratio mintol strict vtol beta,
  valid_first (TR.vel_precision_recall_f1_overlap ri rp rv ei ep ev otol ptol ratio mintol strict vtol beta)
              (velocity_validate_arr (arr2 ri) (map fst rp) rv (arr2 ei) (map fst ep) ev).
Proof.
  intros. unfold TR.vel_precision_recall_f1_overlap. rewrite tr_vel_validate_arr.
  apply valid_first_bind; [intros e; apply velocities_raises_ValueError|]. intros V.
  destruct ((length rp =? 0)%nat || (length ep =? 0)%nat) eqn:Em; [eexists; reflexivity|].
  apply orb_false_iff in Em. destruct Em as [Er Ee]. apply Nat.eqb_neq in Er, Ee.
  apply velocities_iff_convention in V. unfold conv_velocities, conv_notes in V. rewrite !andb_true_iff in V.
  destruct V as [[[[[[[[[Vri Vei] Lr] Le] _] _] Lrv] Lev] _] _]. cbn [shape0 shape arr2 nth] in Lr, Le. rewrite !map_length in *.
  apply Nat.eqb_eq in Lr, Le, Lrv, Lev. unfold TR.pitch, TR.ivl in *.
  assert (Vr : TR.validate_ivs ri = Ok tt) by (rewrite tr_validate_ivs_arr; apply intervals_iff_convention; exact Vri).
  unfold TR.vel_match_notes, TR.match_notes, TR.obind. rewrite (zip_notes_fst ri rp Lr).
  replace (match ratio with Some _ => TR.validate_ivs ri | None => Ok tt end) with (@Ok unit tt) by (destruct ratio; congruence).
  cbn [bind].
  destruct (TR.match_pred _ (TR.zip_notes ri rp) (TR.zip_notes ei ep)) as [m|] eqn:M; [|eexists; reflexivity].
  assert (Hb : forall i j, In (i, j) m -> (i < length ri)%nat /\ (j < length ei)%nat).
  { intros i j Hin. pose proof (match_pred_in_range _ _ _ _ M i j Hin) as Hb.
    rewrite (zip_notes_length ri rp Lr), (zip_notes_length ei ep Le) in Hb. exact Hb. }
  destruct (vel_filter_total rv ev vtol m) as [m' [-> Hsub]].
  { intros ->. cbn in Lrv. lia. }
  { intros i j Hin. destruct (Hb i j Hin). lia. }
  cbn [bind]. unfold TR.average_overlap_ratio.
  destruct (ratios_total ri ei m') as [rs ->]; [intros i j Hin; apply Hb, Hsub, Hin|].
  cbn [bind]. destruct (TR.prf_of (length m') (length rp) (length ep) beta) as [[p r] f]. eexists; reflexivity.
Qed.
