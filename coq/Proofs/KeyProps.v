(* Properties of key.weighted_score (Model/Key.v) on the finite domain of well-formed key strings built
   from the translated table: every tonic name of KEY_TO_SEMITONE in three spellings (as in the table,
   capitalised, upper case) x every mode of validate_key's list, plus "x" and "X". Facts about the table
   are proved by computation over it. *)
From Coq Require Import List Bool Arith NArith ZArith QArith Lia.
From ME Require Import Model.Prelude Model.ChordParse Gen.KeyTable Model.Key.
Import ListNotations.
Close Scope Q_scope.

(* ---------- the finite domain ---------- *)
Definition tonic_names : list str :=
  map fst (filter (fun p => match snd p with Some _ => true | None => false end) KEY_TO_SEMITONE).
Definition up1 (c : nat) : nat := if (97 <=? c) && (c <=? 122) then c - 32 else c.
Definition spellings (t : str) : list str := [t; match t with c :: r => up1 c :: r | [] => [] end; map up1 t].
Definition tonics : list str := flat_map spellings tonic_names.          (* "c#", "C#", "db", "Db", "DB", ... *)
Definition mk (t m : str) : str := t ++ 32 :: m.                          (* t + " " + m *)
Definition xs : list str := [[120]; [88]].                                (* "x", "X" *)
Definition keys : list str := xs ++ flat_map (fun t => map (mk t) KEY_MODES) tonics.
(* KEY_TO_SEMITONE[t.lower()] *)
Definition sem (t : str) : option Z := match lookup (lower t) KEY_TO_SEMITONE with Some v => v | None => None end.
Definition in12 (a : Z) : bool := (0 <=? a)%Z && (a <? 12)%Z.

Example domain_size : (length tonic_names, length tonics, length KEY_MODES, length keys) = (17, 51, 3, 155).
Proof. vm_compute. reflexivity. Qed.

(* ---------- Leibniz-reflecting boolean equalities ---------- *)
Lemma seqb_eq a b : seqb a b = true -> a = b.
Proof.
  revert b. induction a as [|x a IH]; intros [|y b] H; cbn [seqb] in H; try discriminate; auto.
  apply andb_true_iff in H. destruct H as [H1 H2]. apply Nat.eqb_eq in H1. f_equal; auto.
Qed.
Lemma seqb_refl a : seqb a a = true.
Proof. induction a as [|x a IH]; cbn [seqb]; auto. rewrite Nat.eqb_refl, IH. reflexivity. Qed.
Definition q_same (a b : Q) : bool := Z.eqb (Qnum a) (Qnum b) && Pos.eqb (Qden a) (Qden b).
Lemma q_same_eq a b : q_same a b = true -> a = b.
Proof.
  destruct a as [n d], b as [n' d']. unfold q_same. cbn [Qnum Qden]. intros H.
  apply andb_true_iff in H. destruct H as [H1 H2]. apply Z.eqb_eq in H1. apply Pos.eqb_eq in H2. congruence.
Qed.
Definition rq_is (r : res Q) (q : Q) : bool := match r with Ok x => q_same x q | Raise _ => false end.
Lemma rq_is_eq r q : rq_is r q = true -> r = Ok q.
Proof. destruct r as [x|e]; cbn [rq_is]; intros H; [|discriminate]. apply q_same_eq in H. congruence. Qed.
Definition rq_same (a b : res Q) : bool :=
  match a, b with Ok x, Ok y => q_same x y | Raise e, Raise f => exn_eqb e f | _, _ => false end.
Lemma rq_same_eq a b : rq_same a b = true -> a = b.
Proof.
  destruct a as [x|e], b as [y|f]; cbn [rq_same]; intros H; try discriminate.
  - apply q_same_eq in H. congruence.
  - destruct e, f; cbn in H; try discriminate; reflexivity.
Qed.
Lemma forallb_pairs {A B} (f : A -> B -> bool) la lb :
  forallb (fun a => forallb (f a) lb) la = true -> forall a b, In a la -> In b lb -> f a b = true.
Proof.
  intros H a b Ha Hb. rewrite forallb_forall in H. specialize (H a Ha). rewrite forallb_forall in H. exact (H b Hb).
Qed.

Definition score_values : list Q := [1; 1 # 2; 3 # 10; 1 # 5; 0]%Q.

(* ---------- key_self ---------- *)
Lemma chk_self_all : forallb (fun r => rq_is (weighted_score r r) 1%Q) keys = true.
Proof. vm_compute. reflexivity. Qed.
Theorem key_self : forall r, In r keys -> weighted_score r r = Ok 1%Q.
Proof. intros r Hr. apply rq_is_eq. exact (proj1 (forallb_forall _ _) chk_self_all r Hr). Qed.

(* ---------- structure: a key string is seen only through (semitone, mode) ---------- *)
Lemma keys_valid_all : forallb (fun r => match validate_key r with Ok _ => true | Raise _ => false end) keys = true.
Proof. vm_compute. reflexivity. Qed.
Lemma keys_valid : forall r, In r keys -> validate_key r = Ok tt.
Proof.
  intros r Hr. pose proof (proj1 (forallb_forall _ _) keys_valid_all r Hr) as H. cbn beta in H.
  destruct (validate_key r) as [[]|]; [reflexivity|discriminate].
Qed.
Lemma ws_valid r e : validate_key r = Ok tt -> validate_key e = Ok tt ->
  weighted_score r e = (pr <- split_key_string r ;; pe <- split_key_string e ;; Ok (score_parts pr pe)).
Proof. intros Hr He. unfold weighted_score, validate. rewrite Hr. cbn [bind]. rewrite He. reflexivity. Qed.

Definition sk_same (a : res (option Z * option str)) (k : option Z) (m : str) : bool :=
  match a with Ok (k', Some m') => oz_eqb k' k && seqb m' m | _ => false end.
Lemma sk_same_eq a k m : sk_same a k m = true -> a = Ok (k, Some m).
Proof.
  destruct a as [[k' [m'|]]|]; cbn [sk_same]; intros H; try discriminate.
  apply andb_true_iff in H. destruct H as [H1 H2]. apply seqb_eq in H2. subst.
  destruct k' as [x|], k as [y|]; cbn [oz_eqb] in H1; try discriminate; auto.
  apply Z.eqb_eq in H1. subst. reflexivity.
Qed.
Definition chk_sks (t m : str) : bool :=
  match sem t with Some a => in12 a && sk_same (split_key_string (mk t m)) (Some a) m | None => false end.
Lemma chk_sks_all : forallb (fun t => forallb (chk_sks t) KEY_MODES) tonics = true.
Proof. vm_compute. reflexivity. Qed.
Lemma in_keys t m : In t tonics -> In m KEY_MODES -> In (mk t m) keys.
Proof.
  intros Ht Hm. unfold keys. apply in_or_app. right. apply in_flat_map. exists t. split; [exact Ht|].
  apply in_map. exact Hm.
Qed.
(* split_key_string on a domain string: the table semitone of the tonic (in 0..11) and the mode *)
Lemma sks_mk : forall t m, In t tonics -> In m KEY_MODES ->
  exists a, sem t = Some a /\ (0 <= a < 12)%Z /\ split_key_string (mk t m) = Ok (Some a, Some m).
Proof.
  intros t m Ht Hm. pose proof (forallb_pairs _ _ _ chk_sks_all t m Ht Hm) as H. unfold chk_sks in H.
  destruct (sem t) as [a|]; [|discriminate]. apply andb_true_iff in H. destruct H as [H1 H2].
  exists a. split; [reflexivity|]. split. - unfold in12 in H1. lia. - apply sk_same_eq. exact H2.
Qed.
Definition key_val (a : Z) (m1 : str) (b : Z) (m2 : str) : Q := score_parts (Some a, Some m1) (Some b, Some m2).
Lemma ws_mk : forall t1 m1 t2 m2, In t1 tonics -> In m1 KEY_MODES -> In t2 tonics -> In m2 KEY_MODES ->
  exists a b, sem t1 = Some a /\ sem t2 = Some b /\ (0 <= a < 12)%Z /\ (0 <= b < 12)%Z /\
              weighted_score (mk t1 m1) (mk t2 m2) = Ok (key_val a m1 b m2).
Proof.
  intros t1 m1 t2 m2 Ht1 Hm1 Ht2 Hm2.
  destruct (sks_mk t1 m1 Ht1 Hm1) as (a & Sa & Ra & Ea). destruct (sks_mk t2 m2 Ht2 Hm2) as (b & Sb & Rb & Eb).
  exists a, b. repeat (split; [assumption|]).
  rewrite ws_valid by (apply keys_valid, in_keys; assumption). rewrite Ea, Eb. reflexivity.
Qed.

(* the score as a function of the interval (estimate - reference) mod 12 and the two mode strings *)
Definition key_by_delta (d : Z) (m1 m2 : str) : Q :=
  if (d =? 0)%Z && seqb m1 m2 then 1%Q
  else if seqb m2 m1 && (d =? 7)%Z then (1 # 2)%Q
  else if negb (seqb m2 m1) && seqb m1 s_major && (d =? 9)%Z then (3 # 10)%Q
  else if negb (seqb m2 m1) && seqb m1 s_minor && (d =? 3)%Z then (3 # 10)%Q
  else if negb (seqb m2 m1) && (d =? 0)%Z then (1 # 5)%Q
  else 0%Q.
Lemma delta0 a b : (0 <= a < 12)%Z -> (0 <= b < 12)%Z -> ((b - a) mod 12 =? 0)%Z = (a =? b)%Z.
Proof.
  intros Ha Hb. destruct (Z.eqb_spec a b) as [E|E].
  - subst. rewrite Z.sub_diag. reflexivity.
  - apply Z.eqb_neq. intros H. apply E.
    pose proof (Z.div_mod (b - a) 12 ltac:(lia)) as D. rewrite H in D. lia.
Qed.
Lemma key_val_delta a m1 b m2 : (0 <= a < 12)%Z -> (0 <= b < 12)%Z ->
  key_val a m1 b m2 = key_by_delta ((b - a) mod 12) m1 m2.
Proof.
  intros Ha Hb. unfold key_val, key_by_delta, score_parts, key_rel. cbn [oz_eqb om_eqb m_is].
  rewrite (delta0 a b Ha Hb). reflexivity.
Qed.

(* ---------- key_transpose ---------- *)
Theorem key_transpose : forall t1 m1 t2 m2 t1' t2' a b k,
  In t1 tonics -> In t2 tonics -> In t1' tonics -> In t2' tonics -> In m1 KEY_MODES -> In m2 KEY_MODES ->
  sem t1 = Some a -> sem t2 = Some b ->
  sem t1' = Some ((a + k) mod 12)%Z -> sem t2' = Some ((b + k) mod 12)%Z ->
  weighted_score (mk t1' m1) (mk t2' m2) = weighted_score (mk t1 m1) (mk t2 m2).
Proof.
  intros t1 m1 t2 m2 t1' t2' a b k Ht1 Ht2 Ht1' Ht2' Hm1 Hm2 Sa Sb Sa' Sb'.
  destruct (ws_mk t1 m1 t2 m2 Ht1 Hm1 Ht2 Hm2) as (a0 & b0 & Sa0 & Sb0 & Ra & Rb & E).
  destruct (ws_mk t1' m1 t2' m2 Ht1' Hm1 Ht2' Hm2) as (a1 & b1 & Sa1 & Sb1 & Ra1 & Rb1 & E1).
  rewrite E, E1. rewrite Sa in Sa0. rewrite Sb in Sb0. rewrite Sa' in Sa1. rewrite Sb' in Sb1.
  injection Sa0 as <-. injection Sb0 as <-. injection Sa1 as <-. injection Sb1 as <-.
  rewrite !key_val_delta by assumption. f_equal. f_equal.
  rewrite <- Zminus_mod. f_equal. lia.
Qed.
(* the hypotheses are satisfiable for every shift: tonic names exist for all twelve semitones *)
Example key_transpose_sat :
  forallb (fun k => existsb (fun t => match sem t with Some a => (a =? k)%Z | None => false end) tonics)
          [0;1;2;3;4;5;6;7;8;9;10;11]%Z = true.
Proof. vm_compute. reflexivity. Qed.
Example key_transpose_ex :       (* ("D major","A major") -> ("F# major","Db major"): up 4 semitones, respelt *)
  weighted_score (mk [70;35] s_major) (mk [68;98] s_major) = weighted_score (mk [68] s_major) (mk [65] s_major).
Proof. vm_compute. reflexivity. Qed.

(* ---------- key_enharmonic ---------- *)
Theorem key_enharmonic : forall t t' m e, In t tonics -> In t' tonics -> In m KEY_MODES -> In e keys ->
  sem t = sem t' ->
  weighted_score (mk t m) e = weighted_score (mk t' m) e /\ weighted_score e (mk t m) = weighted_score e (mk t' m).
Proof.
  intros t t' m e Ht Ht' Hm He HS.
  destruct (sks_mk t m Ht Hm) as (a & Sa & _ & Ea). destruct (sks_mk t' m Ht' Hm) as (a' & Sa' & _ & Ea').
  assert (a' = a) by congruence. subst a'.
  rewrite !ws_valid by (first [apply keys_valid; assumption | apply keys_valid, in_keys; assumption]).
  rewrite Ea, Ea'. split; reflexivity.
Qed.
Example key_enharmonic_ex : sem [99;35] = sem [68;98] /\ In [99;35] tonics /\ In [68;98] tonics.   (* "c#", "Db" *)
Proof. vm_compute. intuition. Qed.

(* ---------- what the code computes, for the three modes of validate_key (incl. 'other') ---------- *)
Inductive m3 := Maj3 | Min3 | Oth3.
Definition s_other : str := [111; 116; 104; 101; 114].
Definition m3_str (m : m3) : str := match m with Maj3 => s_major | Min3 => s_minor | Oth3 => s_other end.
Definition m3_eqb (a b : m3) : bool := match a, b with Maj3, Maj3 | Min3, Min3 | Oth3, Oth3 => true | _, _ => false end.
(* d = (estimated tonic - reference tonic) mod 12.
   'other' is just a third mode name: the "same mode" rules apply to other/other; the "relative" rule asks only that the
   reference is major (resp. minor) and the estimate's mode is anything else; "parallel" is any two different modes *)
Definition key_code_spec (d : Z) (rm em : m3) : Q :=
  if m3_eqb rm em then (if (d =? 0)%Z then 1%Q else if (d =? 7)%Z then (1 # 2)%Q else 0%Q)
  else match rm with
       | Maj3 => if (d =? 9)%Z then (3 # 10)%Q else if (d =? 0)%Z then (1 # 5)%Q else 0%Q
       | Min3 => if (d =? 3)%Z then (3 # 10)%Q else if (d =? 0)%Z then (1 # 5)%Q else 0%Q
       | Oth3 => if (d =? 0)%Z then (1 # 5)%Q else 0%Q end.
Definition m3s := [Maj3; Min3; Oth3].
Definition ds : list Z := [0;1;2;3;4;5;6;7;8;9;10;11]%Z.
Lemma m3_modes : map m3_str m3s = KEY_MODES.
Proof. vm_compute. reflexivity. Qed.
Lemma m3_in_modes m : In (m3_str m) KEY_MODES.
Proof. rewrite <- m3_modes. apply in_map. destruct m; cbn; auto. Qed.
Lemma modes_m3 m : In m KEY_MODES -> exists x, m = m3_str x.
Proof. rewrite <- m3_modes. intros H. apply in_map_iff in H. destruct H as (x & E & _). exists x. auto. Qed.
Lemma in_ds d : (0 <= d < 12)%Z -> In d ds.
Proof. intros H. cbn. lia. Qed.
Lemma in_m3s m : In m m3s.
Proof. destruct m; cbn; auto. Qed.
Lemma delta_code_all :
  forallb (fun d => forallb (fun p => q_same (key_by_delta d (m3_str (fst p)) (m3_str (snd p))) (key_code_spec d (fst p) (snd p)))
                            (list_prod m3s m3s)) ds = true.
Proof. vm_compute. reflexivity. Qed.
Lemma delta_code d m1 m2 : (0 <= d < 12)%Z -> key_by_delta d (m3_str m1) (m3_str m2) = key_code_spec d m1 m2.
Proof.
  intros H. apply q_same_eq.
  exact (forallb_pairs _ _ _ delta_code_all d (m1, m2) (in_ds d H) (in_prod _ _ _ _ (in_m3s m1) (in_m3s m2))).
Qed.
Theorem key_score_with_other : forall t1 t2 (m1 m2 : m3), In t1 tonics -> In t2 tonics ->
  exists a b, sem t1 = Some a /\ sem t2 = Some b /\
    weighted_score (mk t1 (m3_str m1)) (mk t2 (m3_str m2)) = Ok (key_code_spec ((b - a) mod 12) m1 m2).
Proof.
  intros t1 t2 m1 m2 H1 H2.
  destruct (ws_mk t1 (m3_str m1) t2 (m3_str m2) H1 (m3_in_modes m1) H2 (m3_in_modes m2)) as (a & b & Sa & Sb & Ra & Rb & E).
  exists a, b. split; [exact Sa|]. split; [exact Sb|]. rewrite E, key_val_delta by assumption.
  rewrite delta_code; [reflexivity|]. apply Z.mod_pos_bound. lia.
Qed.

(* ---------- key_table_def: the docstring's table, for the modes major / minor ---------- *)
Inductive mm := Major | Minor.
Definition mm_str (m : mm) : str := match m with Major => s_major | Minor => s_minor end.
Definition mm_eqb (a b : mm) : bool := match a, b with Major, Major | Minor, Minor => true | _, _ => false end.
(* written from the docstring of weighted_score; d = (estimated tonic - reference tonic) mod 12 *)
Definition key_spec (d : Z) (rm em : mm) : Q :=
  if (d =? 0)%Z && mm_eqb rm em then 1%Q                                       (* same key and mode *)
  else if (d =? 7)%Z && mm_eqb rm em then (1 # 2)%Q                            (* estimate a perfect fifth above the reference *)
  else match rm, em with
       | Major, Minor => if (d =? 9)%Z then (3 # 10)%Q                          (* relative minor of a major reference *)
                         else if (d =? 0)%Z then (1 # 5)%Q else 0%Q            (* parallel minor *)
       | Minor, Major => if (d =? 3)%Z then (3 # 10)%Q                          (* relative major of a minor reference *)
                         else if (d =? 0)%Z then (1 # 5)%Q else 0%Q            (* parallel major *)
       | _, _ => 0%Q end.
Definition emb (m : mm) : m3 := match m with Major => Maj3 | Minor => Min3 end.
Definition mms := [Major; Minor].
Lemma spec_code_all :
  forallb (fun d => forallb (fun p => q_same (key_code_spec d (emb (fst p)) (emb (snd p))) (key_spec d (fst p) (snd p)))
                            (list_prod mms mms)) ds = true.
Proof. vm_compute. reflexivity. Qed.
Theorem key_table_def : forall t1 t2 (m1 m2 : mm), In t1 tonics -> In t2 tonics ->
  exists a b, sem t1 = Some a /\ sem t2 = Some b /\
    weighted_score (mk t1 (mm_str m1)) (mk t2 (mm_str m2)) = Ok (key_spec ((b - a) mod 12) m1 m2).
Proof.
  intros t1 t2 m1 m2 H1 H2. destruct (key_score_with_other t1 t2 (emb m1) (emb m2) H1 H2) as (a & b & Sa & Sb & E).
  exists a, b. split; [exact Sa|]. split; [exact Sb|].
  replace (mm_str m1) with (m3_str (emb m1)) by (destruct m1; reflexivity).
  replace (mm_str m2) with (m3_str (emb m2)) by (destruct m2; reflexivity).
  rewrite E. f_equal. apply q_same_eq.
  assert (Hd : (0 <= (b - a) mod 12 < 12)%Z) by (apply Z.mod_pos_bound; lia).
  assert (I : In (m1, m2) (list_prod mms mms)) by (apply in_prod; [destruct m1|destruct m2]; cbn; auto).
  exact (forallb_pairs _ _ _ spec_code_all _ _ (in_ds _ Hd) I).
Qed.
(* ('C major','A other') = 0.3, ('C other','G other') = 0.5, ('C major','C other') = ('C other','C major') = 0.2,
   ('A other','C major') = 0 *)
Example key_other_examples :
  weighted_score (mk [67] s_major) (mk [65] s_other) = Ok (3 # 10)%Q /\
  weighted_score (mk [67] s_other) (mk [71] s_other) = Ok (1 # 2)%Q /\
  weighted_score (mk [67] s_major) (mk [67] s_other) = Ok (1 # 5)%Q /\
  weighted_score (mk [67] s_other) (mk [67] s_major) = Ok (1 # 5)%Q /\
  weighted_score (mk [65] s_other) (mk [67] s_major) = Ok 0%Q.
Proof. vm_compute. repeat split; reflexivity. Qed.

(* the "relative major/minor" score is also given to an estimate of mode 'other' (and "fifth" to other/other) *)
Corollary key_other_relative : forall t1 t2 a b, In t1 tonics -> In t2 tonics -> sem t1 = Some a -> sem t2 = Some b ->
  (((b - a) mod 12 = 9)%Z -> weighted_score (mk t1 s_major) (mk t2 s_other) = Ok (3 # 10)%Q) /\
  (((b - a) mod 12 = 3)%Z -> weighted_score (mk t1 s_minor) (mk t2 s_other) = Ok (3 # 10)%Q) /\
  (((b - a) mod 12 = 7)%Z -> weighted_score (mk t1 s_other) (mk t2 s_other) = Ok (1 # 2)%Q) /\
  (forall m, m <> Oth3 -> weighted_score (mk t1 s_other) (mk t2 (m3_str m)) = Ok (if (a =? b)%Z then 1 # 5 else 0)%Q).
Proof.
  intros t1 t2 a b H1 H2 Sa Sb.
  assert (K : forall m1 m2, weighted_score (mk t1 (m3_str m1)) (mk t2 (m3_str m2)) = Ok (key_code_spec ((b - a) mod 12) m1 m2)).
  { intros m1 m2. destruct (key_score_with_other t1 t2 m1 m2 H1 H2) as (a' & b' & Sa' & Sb' & E).
    rewrite Sa in Sa'. rewrite Sb in Sb'. injection Sa' as <-. injection Sb' as <-. exact E. }
  repeat split.
  - intros D. pose proof (K Maj3 Oth3) as E. cbn [m3_str] in E. rewrite E, D. reflexivity.
  - intros D. pose proof (K Min3 Oth3) as E. cbn [m3_str] in E. rewrite E, D. reflexivity.
  - intros D. pose proof (K Oth3 Oth3) as E. cbn [m3_str] in E. rewrite E, D. reflexivity.
  - intros m Hm. pose proof (K Oth3 m) as E. cbn [m3_str] in E. rewrite E. clear E.
    destruct (sks_mk t1 s_major H1 (m3_in_modes Maj3)) as (a' & Sa' & Ra & _).
    destruct (sks_mk t2 s_major H2 (m3_in_modes Maj3)) as (b' & Sb' & Rb & _).
    rewrite Sa in Sa'. rewrite Sb in Sb'. injection Sa' as <-. injection Sb' as <-.
    unfold key_code_spec. destruct m; try congruence; cbn [m3_eqb]; rewrite (delta0 a b Ra Rb); reflexivity.
Qed.

(* ---------- the uncategorised key x ---------- *)
Lemma chk_x_all :
  forallb (fun x => forallb (fun r => rq_is (weighted_score x r) (if is_x r then 1 else 0)%Q &&
                                      rq_is (weighted_score r x) (if is_x r then 1 else 0)%Q) keys) xs = true.
Proof. vm_compute. reflexivity. Qed.
Theorem key_x : forall x r, In x xs -> In r keys ->
  weighted_score x r = Ok (if is_x r then 1 else 0)%Q /\ weighted_score r x = Ok (if is_x r then 1 else 0)%Q.
Proof.
  intros x r Hx Hr. pose proof (forallb_pairs _ _ _ chk_x_all x r Hx Hr) as H. cbn beta in H.
  apply andb_true_iff in H. destruct H as [H1 H2]. split; apply rq_is_eq; assumption.
Qed.

(* ---------- key_score_in_table ---------- *)
Lemma code_spec_values d m1 m2 : In (key_code_spec d m1 m2) score_values.
Proof.
  unfold key_code_spec. destruct (m3_eqb m1 m2), m1;
  repeat match goal with |- context [if ?c then _ else _] => destruct c end; cbn; auto 10.
Qed.
Lemma keys_inv r : In r keys -> In r xs \/ exists t m, In t tonics /\ r = mk t (m3_str m).
Proof.
  unfold keys. intros H. apply in_app_or in H. destruct H as [H|H]; [left; exact H|right].
  apply in_flat_map in H. destruct H as (t & Ht & H). apply in_map_iff in H. destruct H as (m & E & Hm).
  destruct (modes_m3 m Hm) as (x & ->). exists t, x. auto.
Qed.
Theorem key_score_in_table : forall r e, In r keys -> In e keys ->
  exists s, weighted_score r e = Ok s /\ In s score_values.
Proof.
  intros r e Hr He. destruct (keys_inv r Hr) as [Xr|(t1 & m1 & Ht1 & ->)].
  - destruct (key_x r e Xr He) as [E _]. eexists. split; [exact E|]. destruct (is_x e); cbn; auto 10.
  - destruct (keys_inv e He) as [Xe|(t2 & m2 & Ht2 & ->)].
    + destruct (key_x e _ Xe Hr) as [_ E]. eexists. split; [exact E|]. destruct (is_x _); cbn; auto 10.
    + destruct (key_score_with_other t1 t2 m1 m2 Ht1 Ht2) as (a & b & _ & _ & E).
      eexists. split; [exact E|]. apply code_spec_values.
Qed.

(* after validation neither the tuple unpacking nor the table lookup of split_key_string can fail (general, not only on
   the finite domain) *)
Theorem validated_split_ok : forall r, validate_key r = Ok tt -> exists p, split_key_string r = Ok p.
Proof.
  intros r. unfold validate_key, split_key_string.
  destruct (negb (length (split_ws r) =? 2) && negb (negb (length (split_ws r) =? 0) && is_x r)); [discriminate|].
  destruct (is_x r) eqn:EX; cbn [negb].
  - intros _. cbn [bind]. unfold is_x in EX. apply seqb_eq in EX. rewrite EX.
    destruct (lookup s_x KEY_TO_SEMITONE) eqn:E; [eexists; reflexivity|]. vm_compute in E. discriminate.
  - destruct (two (split_ws r)) as [[k mode]|]; cbn [bind fst snd]; [|discriminate].
    destruct (is_x k); [discriminate|]. unfold in_table.
    destruct (lookup (lower k) KEY_TO_SEMITONE); cbn [negb]; [|discriminate]. intros _. eexists; reflexivity.
Qed.

Print Assumptions key_score_in_table. Print Assumptions key_self. Print Assumptions key_transpose.
Print Assumptions key_enharmonic. Print Assumptions key_table_def. Print Assumptions key_score_with_other.
Print Assumptions key_other_relative. Print Assumptions key_x. Print Assumptions validated_split_ok.
