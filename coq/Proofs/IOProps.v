(* C20: properties of the model of mir_eval/io.py (Model/IO.v).

   roundtrip                : a well-formed file (boolean predicate `well_formed` on the written rows, their separators and
                              the interleaved comment lines) loads back to exactly the written values, column by column, in file
                              order -- for every supported delimiter (`roundtrip_ws`, `roundtrip_comma`, `roundtrip_tab` are the
                              documented ones), last line with or without its newline, any comment expression.
                              The float parser is abstract: `conv (show x) = Some x` is the only hypothesis about it.
   comments_ignored(_lines) : comment lines do not change the result (for arbitrary text: same values / same exception, only
                              the row number in the message moves).
   wrong_columns_raise, too_few_columns_raise, unparsable_raises : the first faulty row raises ValueError carrying its
                              1-based row number (comment lines count).
   ragged_roundtrip, patterns_roundtrip : the same round trip for load_ragged_time_series and load_patterns.
   violating_content_is_warned_not_raised, load_tempo_spec, load_key_spec : the wrappers raise exactly when load_delimited does;
                              the validators only produce the warning -- except the weight / one-line tests.
   load_tempo_empty_raises_value_error, load_tempo_never_index_error, load_patterns_wrong_columns_raise,
   load_patterns_only_value_error : the two former IndexErrors (fixed in /repo by 7de24cd and f596eb3) are ValueErrors now.
   Conditions found by proving `roundtrip` (see `wf_row`): with n columns, n >= 2, the LAST token may contain the delimiter
   (but, for a `+` delimiter, not start with it); with ONE column maxsplit = 0 means "unlimited", so the single token must
   be delimiter-free (`ex_one_column_label_not_loadable`). *)
From Coq Require Import List Bool Arith ZArith QArith Lia.
From ME Require Import Model.Prelude Model.Regex Model.ChordParse Model.Key Model.IO.
Import ListNotations.
Close Scope Q_scope.

(* ---------- lines ---------- *)
Definition nonl (s : str) : bool := forallb (fun c => negb (Nat.eqb c c_nl)) s.

Lemma lines_app_nl : forall l rest, nonl l = true -> lines (l ++ c_nl :: rest) = (l ++ [c_nl]) :: lines rest.
Proof.
  induction l as [|c l IH]; intros rest H; cbn [app lines].
  - rewrite Nat.eqb_refl. reflexivity.
  - cbn [nonl forallb] in H. apply andb_true_iff in H as [Hc Hl].
    destruct (Nat.eqb c c_nl) eqn:E; [discriminate|]. rewrite (IH rest Hl). reflexivity.
Qed.

Lemma lines_single : forall l, nonl l = true -> l <> [] -> lines l = [l].
Proof.
  induction l as [|c l IH]; intros H Hne; [congruence|].
  cbn [nonl forallb] in H. apply andb_true_iff in H as [Hc Hl]. cbn [lines].
  destruct (Nat.eqb c c_nl) eqn:E; [discriminate|].
  destruct l as [|c' l']; [reflexivity|]. rewrite IH by (auto; congruence). reflexivity.
Qed.

(* ---------- strip ---------- *)
Lemma lstrip_app_all : forall p a b, forallb p a = true -> lstrip p (a ++ b) = lstrip p b.
Proof. induction a as [|x a IH]; intros b H; [reflexivity|]. cbn in H. apply andb_true_iff in H as [Hx Ha]. cbn. rewrite Hx. auto. Qed.
Lemma lstrip_all : forall p a, forallb p a = true -> lstrip p a = [].
Proof. intros p a H. rewrite <- (app_nil_r a). rewrite lstrip_app_all by assumption. reflexivity. Qed.
Lemma lstrip_head : forall p c t, p c = false -> lstrip p (c :: t) = c :: t.
Proof. intros p c t H. cbn. rewrite H. reflexivity. Qed.
Lemma forallb_rev : forall {A} (p : A -> bool) l, forallb p (rev l) = forallb p l.
Proof. intros A p l. induction l as [|x l IH]; [reflexivity|]. cbn. rewrite forallb_app, IH. cbn. rewrite andb_true_r. apply andb_comm. Qed.

Definition first_ok (p : nat -> bool) (s : str) : bool := match s with c :: _ => negb (p c) | [] => false end.
Definition last_ok (p : nat -> bool) (s : str) : bool := first_ok p (rev s).

Lemma strip_pad : forall p lp core rp,
  forallb p lp = true -> forallb p rp = true -> first_ok p core = true -> last_ok p core = true ->
  strip p (lp ++ core ++ rp) = core.
Proof.
  intros p lp core rp Hl Hr Hf Hla. unfold strip.
  rewrite lstrip_app_all by assumption.
  destruct core as [|c t]; [discriminate|]. cbn in Hf. apply negb_true_iff in Hf.
  change ((c :: t) ++ rp) with (c :: (t ++ rp)). rewrite lstrip_head by assumption.
  change (c :: t ++ rp) with ((c :: t) ++ rp). rewrite rev_app_distr.
  rewrite lstrip_app_all by (rewrite forallb_rev; assumption).
  unfold last_ok in Hla. destruct (rev (c :: t)) as [|z r] eqn:E; [discriminate|].
  cbn in Hla. apply negb_true_iff in Hla. rewrite lstrip_head by assumption.
  rewrite <- E. apply rev_involutive.
Qed.
Definition body (t0 : str) (rest : list (str * str)) : str := t0 ++ concat (map (fun st => fst st ++ snd st) rest).
Definition pfree (p : nat -> bool) (s : str) : bool := forallb (fun c => negb (p c)) s.
(* budget b suffices for k cuts; fl: it is exactly used up by them (then the last token is left alone) *)
Definition fits (b : budget) (k : nat) (fl : bool) : Prop :=
  match b with None => fl = false | Some j => if fl then j = k else k <= j end.
Lemma fits_step : forall b k fl, fits b (S k) fl -> has_budget b = true /\ fits (dec_budget b) k fl.
Proof.
  intros [[|j]|] k fl H; cbn in *; destruct fl; try lia; try (split; [reflexivity|]; cbn; lia); try discriminate; auto.
Qed.

Lemma prepend_cons : forall t h r, fold_right cons_head (h :: r) t = (t ++ h) :: r.
Proof. induction t as [|c t IH]; intros h r; [reflexivity|]. cbn [fold_right app]. rewrite IH. reflexivity. Qed.

Section Split.
Variable p : nat -> bool.

(* ---- split_run ---- *)
Lemma run_tok : forall t b inrun X, pfree p t = true -> (inrun = false \/ t <> []) ->
  split_run p b inrun (t ++ X) = fold_right cons_head (split_run p b false X) t.
Proof.
  induction t as [|c t IH]; intros b inrun X Hf Hi.
  - destruct Hi as [->|Hi]; [reflexivity|congruence].
  - cbn [pfree forallb] in Hf. apply andb_true_iff in Hf as [Hc Ht]. apply negb_true_iff in Hc.
    cbn [app split_run fold_right]. rewrite Hc, andb_false_r. cbn [andb].
    rewrite (IH b false X Ht (or_introl eq_refl)). reflexivity.
Qed.
Lemma run_skip : forall s b X, forallb p s = true -> split_run p b true (s ++ X) = split_run p b true X.
Proof.
  induction s as [|d s IH]; intros b X H; [reflexivity|]. cbn in H. apply andb_true_iff in H as [Hd Hs].
  cbn [app split_run]. rewrite Hd. cbn [andb]. auto.
Qed.
Lemma run_sep : forall s b X, nonempty s = true -> forallb p s = true -> has_budget b = true ->
  split_run p b false (s ++ X) = [] :: split_run p (dec_budget b) true X.
Proof.
  intros [|d s] b X Hn H Hb; [discriminate|]. cbn in H. apply andb_true_iff in H as [Hd Hs].
  cbn [app split_run]. rewrite Hd, Hb. cbn [andb]. rewrite run_skip by assumption. reflexivity.
Qed.
Lemma run_nobudget : forall s, split_run p (Some 0) false s = [s].
Proof. induction s as [|c s IH]; [reflexivity|]. cbn [split_run has_budget]. rewrite andb_false_r. cbn [andb]. rewrite IH. reflexivity. Qed.

Fixpoint wf_toks_run (fl : bool) (t0 : str) (rest : list (str * str)) : bool :=
  match rest with
  | [] => if fl then first_ok p t0 else nonempty t0 && pfree p t0
  | (s, t1) :: rest' => nonempty t0 && pfree p t0 && nonempty s && forallb p s && wf_toks_run fl t1 rest'
  end.

Theorem split_run_body : forall rest t0 b inrun fl,
  fits b (length rest) fl -> wf_toks_run fl t0 rest = true ->
  split_run p b inrun (body t0 rest) = t0 :: map snd rest.
Proof.
  induction rest as [|[s t1] rest IH]; intros t0 b inrun fl Hb Hwf.
  - unfold body. cbn [map concat]. cbn [wf_toks_run] in Hwf. destruct fl.
    + destruct b as [j|]; cbn in Hb; [subst j|discriminate].
      destruct t0 as [|c t]; [discriminate|]. cbn in Hwf. apply negb_true_iff in Hwf.
      cbn [app split_run has_budget]. rewrite Hwf, !andb_false_r, app_nil_r. cbn [andb]. rewrite run_nobudget. reflexivity.
    + apply andb_true_iff in Hwf as [Hn Hf]. rewrite run_tok; try assumption.
      * cbn [split_run]. rewrite prepend_cons, app_nil_r. reflexivity.
      * right. destruct t0; [discriminate|congruence].
  - cbn [wf_toks_run] in Hwf. repeat (apply andb_true_iff in Hwf as [Hwf ?]).
    unfold body. cbn [map concat fst snd]. rewrite <- !app_assoc.
    rewrite run_tok; try assumption; [|right; destruct t0; [discriminate|congruence]].
    destruct (fits_step _ _ _ Hb) as [Hbud Hb'].
    rewrite run_sep by assumption.
    change (t1 ++ concat (map (fun st => fst st ++ snd st) rest)) with (body t1 rest).
    rewrite (IH t1 (dec_budget b) true fl Hb' H). rewrite prepend_cons, app_nil_r. reflexivity.
Qed.

(* ---- split_one ---- *)
Lemma one_tok : forall t b X, pfree p t = true -> split_one p b (t ++ X) = fold_right cons_head (split_one p b X) t.
Proof.
  induction t as [|c t IH]; intros b X Hf; [reflexivity|].
  cbn [pfree forallb] in Hf. apply andb_true_iff in Hf as [Hc Ht]. apply negb_true_iff in Hc.
  cbn [app split_one fold_right]. rewrite Hc. cbn [andb]. rewrite IH by assumption. reflexivity.
Qed.
Lemma one_nobudget : forall s, split_one p (Some 0) s = [s].
Proof. induction s as [|c s IH]; [reflexivity|]. cbn [split_one has_budget]. rewrite andb_false_r, IH. reflexivity. Qed.

Fixpoint wf_toks_one (fl : bool) (t0 : str) (rest : list (str * str)) : bool :=
  match rest with
  | [] => if fl then true else pfree p t0
  | (s, t1) :: rest' => pfree p t0 && match s with [d] => p d | _ => false end && wf_toks_one fl t1 rest'
  end.

Theorem split_one_body : forall rest t0 b fl,
  fits b (length rest) fl -> wf_toks_one fl t0 rest = true ->
  split_one p b (body t0 rest) = t0 :: map snd rest.
Proof.
  induction rest as [|[s t1] rest IH]; intros t0 b fl Hb Hwf.
  - unfold body. cbn [map concat]. rewrite app_nil_r. cbn [wf_toks_one] in Hwf. destruct fl.
    + destruct b as [j|]; cbn in Hb; [subst j|discriminate]. apply one_nobudget.
    + rewrite <- (app_nil_r t0) at 1. rewrite one_tok by assumption. cbn [split_one]. rewrite prepend_cons, app_nil_r. reflexivity.
  - cbn [wf_toks_one] in Hwf. repeat (apply andb_true_iff in Hwf as [Hwf ?]).
    destruct s as [|d [|? ?]]; try discriminate.
    unfold body. cbn [map concat fst snd]. rewrite <- !app_assoc. rewrite one_tok by assumption.
    destruct (fits_step _ _ _ Hb) as [Hbud Hb'].
    cbn [app split_one]. rewrite H0, Hbud. cbn [andb].
    change (t1 ++ concat (map (fun st => fst st ++ snd st) rest)) with (body t1 rest).
    rewrite (IH t1 (dec_budget b) fl Hb' H). rewrite prepend_cons, app_nil_r. reflexivity.
Qed.
End Split.

(* ---------- transpose: column j of the result is the j-th entries of the rows, in file order ---------- *)
Lemma zipcons_length : forall {A} (r : list A) cols, length r = length cols -> length (zipcons r cols) = length cols.
Proof. induction r as [|x r IH]; intros [|c cs] H; try discriminate; [reflexivity|]. cbn. f_equal. apply IH. cbn in H. lia. Qed.
Lemma transpose_length : forall {A} n (rows : list (list A)),
  Forall (fun r => length r = n) rows -> length (@transpose A n rows) = n.
Proof.
  intros A n rows H. induction H as [|r rows Hr _ IH]; cbn [transpose fold_right].
  - apply repeat_length.
  - fold (@transpose A n rows). rewrite zipcons_length; [exact IH|]. rewrite IH. exact Hr.
Qed.
Lemma zipcons_nth : forall {A} (r : list A) cols j d, length r = length cols -> j < length r ->
  nth j (zipcons r cols) [] = nth j r d :: nth j cols [].
Proof.
  induction r as [|x r IH]; intros [|c cs] j d H Hj; try discriminate; cbn in Hj; [lia|].
  destruct j as [|j]; [reflexivity|]. cbn. apply IH; cbn in H; lia.
Qed.
Theorem transpose_nth : forall {A} n (rows : list (list A)) j d,
  Forall (fun r => length r = n) rows -> j < n ->
  nth j (transpose n rows) [] = map (fun r => nth j r d) rows.
Proof.
  intros A n rows j d H Hj. induction H as [|r rows Hr Hrows IH]; cbn [transpose fold_right map].
  - clear -Hj. revert j Hj. induction n as [|n IH]; intros j Hj; [lia|]. destruct j; [reflexivity|]. cbn. apply IH. lia.
  - fold (@transpose A n rows). rewrite (zipcons_nth r _ j d).
    + rewrite IH. reflexivity.
    + rewrite transpose_length by assumption. exact Hr.
    + lia.
Qed.

(* ---------- the documented comment marker "#" ---------- *)
Lemma prefix_match_Emp : forall s, prefix_match Emp s = false.
Proof. induction s as [|c s IH]; [reflexivity|]. cbn. exact IH. Qed.
Lemma is_comment_hash : forall l, is_comment (Some (Chr 35)) l = match l with c :: _ => Nat.eqb c 35 | [] => false end.
Proof.
  intros [|c t]; [reflexivity|]. cbn [is_comment prefix_match nullable orb deriv].
  destruct (Nat.eqb c 35); [destruct t; reflexivity|apply prefix_match_Emp].
Qed.
Lemma is_comment_none : forall l, is_comment None l = false.
Proof. reflexivity. Qed.

(* ---------- facts about load_rows / load_delimited for arbitrary text ---------- *)
Definition forget_row {A} (r : rres A) : rres A := match r with RaiseAt _ e => RaiseNoRow e | x => x end.
Definition noncomment (comment : option re) (l : str) : bool := negb (is_comment comment l).

Section Generic.
Variable num : Type.
Variable conv : str -> option num.

Lemma load_rows_app : forall convs d comment ls1 ls2 k v1,
  load_rows num conv convs d comment k ls1 = ROk v1 ->
  load_rows num conv convs d comment k (ls1 ++ ls2)
  = match load_rows num conv convs d comment (k + length ls1) ls2 with ROk v2 => ROk (v1 ++ v2) | e => e end.
Proof.
  intros convs d comment. induction ls1 as [|l ls1 IH]; intros ls2 k v1 H.
  - cbn in H. injection H as <-. cbn [app length]. rewrite Nat.add_0_r. destruct (load_rows _ _ _ _ _ _ ls2); reflexivity.
  - cbn [app load_rows length] in *. replace (k + S (length ls1)) with (S k + length ls1) by lia.
    destruct (is_comment comment l); [apply IH; assumption|].
    destruct (re_split d _ (pystrip l)) as [data|]; [|discriminate].
    destruct (negb (Nat.eqb (length convs) (length data))); [discriminate|].
    destruct (convert_row num conv convs data) as [vs|]; [|discriminate].
    destruct (load_rows num conv convs d comment (S k) ls1) as [vss| |] eqn:E; try discriminate.
    injection H as <-. rewrite (IH ls2 (S k) vss E).
    destruct (load_rows num conv convs d comment (S k + length ls1) ls2); reflexivity.
Qed.

(* comment lines can be inserted or removed anywhere: same values, same exception; only the row number named by an
   error message moves *)
Theorem comments_ignored_lines : forall convs d comment ls k k',
  forget_row (load_rows num conv convs d comment k ls)
  = forget_row (load_rows num conv convs d comment k' (filter (noncomment comment) ls)).
Proof.
  intros convs d comment. induction ls as [|l ls IH]; intros k k'; [reflexivity|].
  cbn [filter load_rows]. unfold noncomment at 1. destruct (is_comment comment l) eqn:E; cbn [negb].
  - apply IH.
  - cbn [load_rows]. rewrite E.
    destruct (re_split d _ (pystrip l)) as [data|]; [|reflexivity].
    destruct (negb (Nat.eqb (length convs) (length data))); [reflexivity|].
    destruct (convert_row num conv convs data) as [vs|]; [|reflexivity].
    specialize (IH (S k) (S k')).
    destruct (load_rows num conv convs d comment (S k) ls) as [a| |], (load_rows num conv convs d comment (S k') (filter (noncomment comment) ls)) as [b| |];
      cbn [forget_row] in *; congruence.
Qed.
Corollary comments_ignored_ok : forall convs d comment ls k k' v,
  load_rows num conv convs d comment k ls = ROk v ->
  load_rows num conv convs d comment k' (filter (noncomment comment) ls) = ROk v.
Proof.
  intros convs d comment ls k k' v H. pose proof (comments_ignored_lines convs d comment ls k k') as E. rewrite H in E.
  destruct (load_rows num conv convs d comment k' (filter (noncomment comment) ls)); cbn [forget_row] in E; congruence.
Qed.

(* shape of the result *)
Lemma convert_row_length : forall convs data vs, length data = length convs ->
  convert_row num conv convs data = Some vs -> length vs = length convs.
Proof.
  induction convs as [|c cs IH]; intros [|t ts] vs Hl H; try discriminate; cbn in H.
  - injection H as <-. reflexivity.
  - destruct (convert num conv c t); [|discriminate]. destruct (convert_row num conv cs ts) as [r|] eqn:E; [|discriminate].
    cbn in H. injection H as <-. cbn. f_equal. apply (IH ts); [cbn in Hl; lia|assumption].
Qed.
Lemma load_rows_lengths : forall convs d comment ls k rows,
  load_rows num conv convs d comment k ls = ROk rows -> Forall (fun r => length r = length convs) rows.
Proof.
  intros convs d comment. induction ls as [|l ls IH]; intros k rows H; cbn [load_rows] in H.
  - injection H as <-. constructor.
  - destruct (is_comment comment l); [eapply IH; eassumption|].
    destruct (re_split d _ (pystrip l)) as [data|]; [|discriminate].
    destruct (Nat.eqb (length convs) (length data)) eqn:El; cbn [negb] in H; [|discriminate].
    destruct (convert_row num conv convs data) as [vs|] eqn:Ec; [|discriminate].
    destruct (load_rows num conv convs d comment (S k) ls) as [vss| |] eqn:E; try discriminate.
    injection H as <-. constructor; [|eapply IH; eassumption].
    apply Nat.eqb_eq in El. eapply convert_row_length; [symmetry|]; eassumption.
Qed.
Theorem load_delimited_shape : forall convs d comment text r,
  load_delimited num conv convs d comment text = ROk r ->
  exists cols, length cols = length convs /\ r = pack num (length convs) cols.
Proof.
  intros convs d comment text r H. unfold load_delimited in H.
  assert (H' : match load_rows num conv convs d comment 1 (lines text) with
               | ROk rows => ROk (pack num (length convs) (transpose (length convs) rows))
               | RaiseAt r e => RaiseAt r e | RaiseNoRow e => RaiseNoRow e end = ROk r) by (destruct d; [exact H|exact H|discriminate]).
  destruct (load_rows num conv convs d comment 1 (lines text)) as [rows| |] eqn:E; try discriminate.
  injection H' as <-. eexists. split; [|reflexivity]. apply transpose_length. eapply load_rows_lengths; eassumption.
Qed.

(* every value of a float column is a VNum, of a str column a VStr *)
Definition has_type (c : cv) (v : value num) : Prop :=
  match c with CFloat => exists x, v = VNum x | CStr => exists s, v = VStr s end.
Lemma convert_row_shape : forall convs data vs, convert_row num conv convs data = Some vs -> Forall2 has_type (firstn (length vs) convs) vs.
Proof.
  induction convs as [|c cs IH]; intros [|t ts] vs H; cbn in H; try (injection H as <-; constructor).
  destruct (convert num conv c t) as [v|] eqn:Ev; [|discriminate]. destruct (convert_row num conv cs ts) as [r|] eqn:E; [|discriminate].
  cbn in H. injection H as <-. cbn [length firstn]. constructor; [|eapply IH; eassumption].
  destruct c; cbn in Ev |- *; [destruct (conv t); [|discriminate]|]; injection Ev as <-; eexists; reflexivity.
Qed.
Lemma nums_all : forall col, Forall (fun v => exists x, v = @VNum num x) col -> map VNum (nums num col) = col.
Proof. induction 1 as [|v col [x ->] _ IH]; [reflexivity|]. cbn. f_equal. exact IH. Qed.
Lemma strs_all : forall col, Forall (fun v => exists s, v = @VStr num s) col -> map VStr (strs num col) = col.
Proof. induction 1 as [|v col [x ->] _ IH]; [reflexivity|]. cbn. f_equal. exact IH. Qed.

Lemma convert_row_unparsable : forall convs data j tok, length data = length convs ->
  nth_error convs j = Some CFloat -> nth_error data j = Some tok -> conv tok = None ->
  convert_row num conv convs data = None.
Proof.
  induction convs as [|c cs IH]; intros [|t ts] j tok Hl Hc Ht Hn; try discriminate; destruct j as [|j]; cbn in *; try discriminate.
  - injection Hc as ->. injection Ht as ->. cbn. rewrite Hn. reflexivity.
  - destruct (convert num conv c t); [|reflexivity]. rewrite (IH ts j tok); [reflexivity|lia|assumption..].
Qed.
(* load_delimited itself raises nothing but the row-numbered ValueError (and the model's "unsupported delimiter") *)
Lemma load_rows_errors : forall convs d comment ls k,
  match load_rows num conv convs d comment k ls with
  | ROk _ => True | RaiseAt _ e => e = ValueError | RaiseNoRow e => e = OtherExn end.
Proof.
  intros convs d comment. induction ls as [|l ls IH]; intros k; cbn [load_rows]; [exact I|].
  destruct (is_comment comment l); [apply IH|].
  destruct (re_split d _ (pystrip l)) as [data|]; [|reflexivity].
  destruct (negb (Nat.eqb (length convs) (length data))); [reflexivity|].
  destruct (convert_row num conv convs data) as [vs|]; [|reflexivity].
  specialize (IH (S k)). destruct (load_rows num conv convs d comment (S k) ls); [exact I|exact IH|exact IH].
Qed.
Lemma load_delimited_errors : forall convs d comment text,
  match load_delimited num conv convs d comment text with
  | ROk _ => True | RaiseAt _ e => e = ValueError | RaiseNoRow e => e = OtherExn end.
Proof.
  intros convs d comment text. unfold load_delimited.
  pose proof (load_rows_errors convs d comment (lines text) 1) as H.
  destruct d; [| |reflexivity]; destruct (load_rows num conv convs _ comment 1 (lines text)); try exact I; exact H.
Qed.
Lemma load_rows_all_comments : forall convs d comment ls k,
  forallb (is_comment comment) ls = true -> load_rows num conv convs d comment k ls = ROk [].
Proof.
  intros convs d comment. induction ls as [|l ls IH]; intros k H; [reflexivity|].
  cbn [forallb] in H. apply andb_true_iff in H as [Hl Hls]. cbn [load_rows]. rewrite Hl. apply IH; assumption.
Qed.

(* three float columns: the result is three columns of VNum of the same length *)
Definition row3 (t : num * num * num) : list (value num) := [VNum (fst (fst t)); VNum (snd (fst t)); VNum (snd t)].
Lemma load_rows_fff : forall d comment ls k rows,
  load_rows num conv [CFloat; CFloat; CFloat] d comment k ls = ROk rows -> exists ts, rows = map row3 ts.
Proof.
  intros d comment. induction ls as [|l ls IH]; intros k rows H; cbn [load_rows] in H.
  - injection H as <-. exists []. reflexivity.
  - destruct (is_comment comment l); [eapply IH; eassumption|].
    destruct (re_split d _ (pystrip l)) as [data|]; [|discriminate].
    destruct (Nat.eqb (length [CFloat; CFloat; CFloat]) (length data)) eqn:El; cbn [negb] in H; [|discriminate].
    apply Nat.eqb_eq in El. destruct data as [|t1 [|t2 [|t3 [|? ?]]]]; try discriminate.
    cbn [convert_row convert] in H.
    destruct (conv t1) as [a|]; [|discriminate]. destruct (conv t2) as [b|]; [|discriminate].
    destruct (conv t3) as [c|]; [|discriminate]. cbn [option_map] in H.
    destruct (load_rows num conv [CFloat; CFloat; CFloat] d comment (S k) ls) as [vss| |] eqn:E; try discriminate.
    injection H as <-. destruct (IH _ _ E) as (ts & ->). exists ((a, b, c) :: ts). reflexivity.
Qed.
Lemma transpose_row3 : forall ts,
  transpose 3 (map row3 ts)
  = [map (fun t => VNum (fst (fst t))) ts; map (fun t => VNum (snd (fst t))) ts; map (fun t => VNum (snd t)) ts].
Proof. induction ts as [|t ts IH]; [reflexivity|]. cbn [map transpose fold_right]. fold (transpose 3 (map row3 ts)). rewrite IH. reflexivity. Qed.
Theorem load_delimited_fff : forall d comment text r,
  load_delimited num conv [CFloat; CFloat; CFloat] d comment text = ROk r ->
  exists ts : list (num * num * num),
    r = Cols [map (fun t => VNum (fst (fst t))) ts; map (fun t => VNum (snd (fst t))) ts; map (fun t => VNum (snd t)) ts].
Proof.
  intros d comment text r H. unfold load_delimited in H.
  assert (H' : match load_rows num conv [CFloat; CFloat; CFloat] d comment 1 (lines text) with
               | ROk rows => ROk (pack num 3 (transpose 3 rows))
               | RaiseAt r e => RaiseAt r e | RaiseNoRow e => RaiseNoRow e end = ROk r) by (destruct d; [exact H|exact H|discriminate]).
  destruct (load_rows num conv [CFloat; CFloat; CFloat] d comment 1 (lines text)) as [rows| |] eqn:E; try discriminate.
  injection H' as <-. destruct (load_rows_fff _ _ _ _ _ E) as (ts & ->). exists ts. rewrite transpose_row3. reflexivity.
Qed.
Lemma nums_map : forall {T} (f : T -> num) (l : list T), nums num (map (fun t => VNum (f t)) l) = map f l.
Proof. induction l as [|x l IH]; [reflexivity|]. cbn. f_equal. exact IH. Qed.
End Generic.

(* ---------- rows and files ---------- *)
Fixpoint forallb2 {A B} (f : A -> B -> bool) (l : list A) (m : list B) : bool :=
  match l, m with [], [] => true | a :: l', b :: m' => f a b && forallb2 f l' m' | _, _ => false end.

Definition supported (d : delim) : bool := match d with DUnsupported => false | _ => true end.
Definition blank (s : str) : bool := forallb (fun c => ws c && negb (Nat.eqb c c_nl)) s.
Definition eol (nl : bool) : str := if nl then [c_nl] else [].
Definition wf_toks (d : delim) (fl : bool) (t0 : str) (rest : list (str * str)) : bool :=
  match d with
  | DPlus k => wf_toks_run (in_class k) fl t0 rest
  | DOne k => wf_toks_one (in_class k) fl t0 rest
  | DUnsupported => false
  end.

Lemma budget_of_cols : forall k, budget_of (Z.of_nat (S k) - 1) = match k with 0 => None | _ => Some k end.
Proof.
  intros [|k]; [reflexivity|]. unfold budget_of.
  replace (Z.of_nat (S (S k)) - 1)%Z with (Z.of_nat (S k)) by lia.
  destruct (Z.of_nat (S k) =? 0)%Z eqn:E1; [apply Z.eqb_eq in E1; lia|].
  destruct (Z.of_nat (S k) <? 0)%Z eqn:E2; [apply Z.ltb_lt in E2; lia|].
  rewrite Nat2Z.id. reflexivity.
Qed.

(* the tokeniser gives back the tokens: n = 1 + number of separators columns, maxsplit = n - 1 *)
Theorem split_body : forall d t0 rest,
  wf_toks d (negb (Nat.eqb (S (length rest)) 1)) t0 rest = true ->
  re_split d (Z.of_nat (S (length rest)) - 1) (body t0 rest) = Some (t0 :: map snd rest).
Proof.
  intros d t0 rest H.
  assert (Hb : fits (match length rest with 0 => None | S _ => Some (length rest) end) (length rest) (negb (Nat.eqb (S (length rest)) 1))).
  { destruct (length rest); cbn; reflexivity. }
  destruct d as [k|k|]; cbn [wf_toks re_split] in *; [| |discriminate]; rewrite budget_of_cols; f_equal.
  - apply split_run_body with (fl := negb (Nat.eqb (S (length rest)) 1)); assumption.
  - apply split_one_body with (fl := negb (Nat.eqb (S (length rest)) 1)); assumption.
Qed.

(* a row with FEWER delimiter-free tokens than columns is cut into just those tokens *)
Theorem split_body_short : forall d t0 rest n, wf_toks d false t0 rest = true -> S (length rest) <= n ->
  re_split d (Z.of_nat n - 1) (body t0 rest) = Some (t0 :: map snd rest).
Proof.
  intros d t0 rest n H Hn. destruct n as [|n]; [lia|].
  assert (Hb : fits (match n with 0 => None | S _ => Some n end) (length rest) false).
  { destruct n; cbn; [reflexivity|lia]. }
  destruct d as [k|k|]; cbn [wf_toks re_split] in *; [| |discriminate]; rewrite budget_of_cols; f_equal.
  - apply split_run_body with (fl := false); assumption.
  - apply split_one_body with (fl := false); assumption.
Qed.

Lemma nonl_app : forall a b, nonl (a ++ b) = nonl a && nonl b.
Proof. intros. apply forallb_app. Qed.
Lemma blank_ws : forall s, blank s = true -> forallb ws s = true.
Proof. intros s H. unfold blank in H. rewrite forallb_forall in *. intros x Hx. apply H in Hx. apply andb_true_iff in Hx. tauto. Qed.
Lemma blank_nonl : forall s, blank s = true -> nonl s = true.
Proof. intros s H. unfold blank, nonl in *. rewrite forallb_forall in *. intros x Hx. apply H in Hx. apply andb_true_iff in Hx. tauto. Qed.

Section RoundTrip.
Variable num : Type.
Variable conv : str -> option num.           (* Python's float() *)
Variable show : num -> str.                  (* any rendering of a float that float() reads back, e.g. repr *)
Hypothesis conv_show : forall x, conv (show x) = Some x.

Definition show_value (v : value num) : str := match v with VNum x => show x | VStr s => s end.
Definition typed (c : cv) (v : value num) : bool :=
  match c, v with CFloat, VNum _ => true | CStr, VStr _ => true | _, _ => false end.

(* one data line as written: blanks, first value, (separator, value)*, blanks *)
Record row := mkrow { lpad : str; v0 : value num; more : list (str * value num); rpad : str }.
Inductive item := Row (r : row) (nl : bool) | Comment (l : str) (nl : bool).      (* nl: the line ends in "\n" *)
Definition row_toks (r : row) : list (str * str) := map (fun sv => (fst sv, show_value (snd sv))) (more r).
Definition row_body (r : row) : str := body (show_value (v0 r)) (row_toks r).
Definition row_values (r : row) : list (value num) := v0 r :: map snd (more r).
Definition item_line (it : item) : str :=
  match it with Row r nl => lpad r ++ row_body r ++ rpad r ++ eol nl | Comment l nl => l ++ eol nl end.
Definition render (items : list item) : str := concat (map item_line items).
Fixpoint data_rows (items : list item) : list (list (value num)) :=
  match items with [] => [] | Row r _ :: t => row_values r :: data_rows t | Comment _ _ :: t => data_rows t end.
Definition item_nl (it : item) : bool := match it with Row _ nl | Comment _ nl => nl end.

Definition wf_row (convs : list cv) (d : delim) (comment : option re) (r : row) (nl : bool) : bool :=
  forallb2 typed convs (row_values r)                                     (* one value of the column's type per column *)
  && blank (lpad r) && blank (rpad r)                                       (* blanks around the row: no newline *)
  && nonl (row_body r)                                                      (* no newline inside tokens / separators *)
  && wf_toks d (negb (Nat.eqb (length convs) 1)) (show_value (v0 r)) (row_toks r)
  && first_ok ws (row_body r) && last_ok ws (row_body r)                    (* first / last character not whitespace *)
  && negb (is_comment comment (item_line (Row r nl))).                      (* the line is not taken for a comment *)
Definition wf_item (convs : list cv) (d : delim) (comment : option re) (it : item) : bool :=
  match it with
  | Row r nl => wf_row convs d comment r nl
  | Comment l nl => nonl l && is_comment comment (l ++ eol nl) && (nl || nonempty l)
  end.
Fixpoint nl_ok (items : list item) : bool :=             (* only the last line may lack its newline *)
  match items with [] => true | it :: rest => match rest with [] => true | _ => item_nl it && nl_ok rest end end.
Definition well_formed (convs : list cv) (d : delim) (comment : option re) (items : list item) : bool :=
  supported d && forallb (wf_item convs d comment) items && nl_ok items.

Lemma forallb2_length : forall {A B} (f : A -> B -> bool) l m, forallb2 f l m = true -> length l = length m.
Proof. induction l as [|a l IH]; intros [|b m] H; try discriminate; [reflexivity|]. cbn in H. apply andb_true_iff in H as [_ H]. cbn. f_equal. auto. Qed.

Lemma convert_row_show : forall convs vals, forallb2 typed convs vals = true ->
  convert_row num conv convs (map show_value vals) = Some vals.
Proof.
  induction convs as [|c cs IH]; intros [|v vs] H; try discriminate; [reflexivity|].
  cbn in H. apply andb_true_iff in H as [Ht Hr]. cbn [map convert_row].
  destruct c, v; try discriminate; cbn [convert show_value]; [rewrite conv_show; cbn [option_map]|]; rewrite (IH vs Hr); reflexivity.
Qed.

Lemma row_toks_values : forall r, show_value (v0 r) :: map snd (row_toks r) = map show_value (row_values r).
Proof. intros r. unfold row_toks, row_values. cbn [map]. f_equal. rewrite !map_map. reflexivity. Qed.

Lemma ws_nl : ws c_nl = true. Proof. reflexivity. Qed.

Lemma wf_row_inv : forall convs d comment r nl, wf_row convs d comment r nl = true ->
  forallb2 typed convs (row_values r) = true /\ blank (lpad r) = true /\ blank (rpad r) = true /\ nonl (row_body r) = true
  /\ wf_toks d (negb (Nat.eqb (length convs) 1)) (show_value (v0 r)) (row_toks r) = true
  /\ first_ok ws (row_body r) = true /\ last_ok ws (row_body r) = true
  /\ is_comment comment (item_line (Row r nl)) = false.
Proof.
  intros convs d comment r nl H. unfold wf_row in H. repeat (apply andb_true_iff in H as [H ?]).
  apply negb_true_iff in H0. repeat split; assumption.
Qed.

Lemma row_strip : forall convs d comment r nl, wf_row convs d comment r nl = true ->
  pystrip (item_line (Row r nl)) = row_body r.
Proof.
  intros convs d comment r nl H. destruct (wf_row_inv _ _ _ _ _ H) as (Ht & Hlp & Hrp & Hnl & Hw & Hf & Hl & Hc).
  cbn [item_line]. unfold pystrip. apply strip_pad; try assumption.
  - apply blank_ws; assumption.
  - rewrite forallb_app. rewrite (blank_ws _ Hrp). destruct nl; reflexivity.
Qed.

Lemma row_split : forall convs d comment r nl, wf_row convs d comment r nl = true ->
  re_split d (Z.of_nat (length convs) - 1) (pystrip (item_line (Row r nl))) = Some (map show_value (row_values r)).
Proof.
  intros convs d comment r nl H. rewrite (row_strip _ _ _ _ _ H).
  destruct (wf_row_inv _ _ _ _ _ H) as (Ht & Hlp & Hrp & Hnl & Hw & Hf & Hla & Hc).
  apply forallb2_length in Ht. unfold row_values in Ht. cbn [length] in Ht. rewrite map_length in Ht.
  assert (Hl : length convs = S (length (row_toks r))) by (unfold row_toks; rewrite map_length; exact Ht).
  rewrite Hl in *. unfold row_body. rewrite split_body by assumption. rewrite row_toks_values. reflexivity.
Qed.

Lemma load_rows_items : forall convs d comment items k,
  forallb (wf_item convs d comment) items = true ->
  load_rows num conv convs d comment k (map item_line items) = ROk (data_rows items).
Proof.
  intros convs d comment. induction items as [|it items IH]; intros k H; [reflexivity|].
  cbn [forallb] in H. apply andb_true_iff in H as [Hit Hrest]. cbn [map load_rows].
  destruct it as [r nl|l nl]; cbn [wf_item] in Hit.
  - destruct (wf_row_inv _ _ _ _ _ Hit) as (Ht & _ & _ & _ & _ & _ & _ & Hc).
    rewrite Hc, (row_split _ _ _ _ _ Hit).
    rewrite map_length, <- (forallb2_length _ _ _ Ht), Nat.eqb_refl. cbn [negb].
    rewrite (convert_row_show _ _ Ht), (IH (S k) Hrest). reflexivity.
  - apply andb_true_iff in Hit as [Hit _]. apply andb_true_iff in Hit as [_ Hc].
    cbn [item_line]. rewrite Hc. apply IH; assumption.
Qed.

Definition line_core (it : item) : str := match it with Row r _ => lpad r ++ row_body r ++ rpad r | Comment l _ => l end.
Lemma item_line_core : forall it, item_line it = line_core it ++ eol (item_nl it).
Proof. intros [r nl|l nl]; cbn; [rewrite <- !app_assoc|]; reflexivity. Qed.
Lemma wf_item_core : forall convs d comment it, wf_item convs d comment it = true ->
  nonl (line_core it) = true /\ (item_nl it = true \/ line_core it <> []).
Proof.
  intros convs d comment [r nl|l nl] H; cbn [wf_item line_core item_nl] in *.
  - destruct (wf_row_inv _ _ _ _ _ H) as (Ht & Hlp & Hrp & Hnl & Hw & Hf & Hla & Hc). split.
    + rewrite !nonl_app. rewrite (blank_nonl _ Hlp), (blank_nonl _ Hrp), Hnl. reflexivity.
    + right. destruct (row_body r); [discriminate|]. destruct (lpad r); discriminate.
  - repeat (apply andb_true_iff in H as [H ?]). split; [assumption|].
    apply orb_true_iff in H0 as [->|Hn]; [left; reflexivity|right; destruct l; [discriminate|congruence]].
Qed.

Lemma lines_render : forall convs d comment items,
  forallb (wf_item convs d comment) items = true -> nl_ok items = true ->
  lines (render items) = map item_line items.
Proof.
  intros convs d comment. induction items as [|it items IH]; intros H Hnl; [reflexivity|].
  cbn [forallb] in H. apply andb_true_iff in H as [Hit Hrest].
  destruct (wf_item_core _ _ _ _ Hit) as [Hcore Hne].
  unfold render. cbn [map concat]. fold (render items). rewrite item_line_core.
  destruct items as [|it' items'].
  - cbn [render map concat]. rewrite app_nil_r. destruct (item_nl it) eqn:En; cbn [eol].
    + rewrite (lines_app_nl _ [] Hcore). reflexivity.
    + rewrite app_nil_r. destruct Hne as [Hne|Hne]; [discriminate|]. apply lines_single; assumption.
  - cbn [nl_ok] in Hnl. apply andb_true_iff in Hnl as [En Hnl]. rewrite En. cbn [eol].
    rewrite <- app_assoc. cbn [app]. rewrite (lines_app_nl _ _ Hcore). rewrite (IH Hrest Hnl). reflexivity.
Qed.

Theorem roundtrip : forall convs d comment items,
  well_formed convs d comment items = true ->
  load_delimited num conv convs d comment (render items)
  = ROk (pack num (length convs) (transpose (length convs) (data_rows items))).
Proof.
  intros convs d comment items H. unfold well_formed in H. repeat (apply andb_true_iff in H as [H ?]).
  unfold load_delimited. destruct d; try discriminate;
    rewrite (lines_render _ _ _ _ H1 H0), (load_rows_items _ _ _ _ 1 H1); reflexivity.
Qed.

(* ---- interleaved comment lines change nothing ---- *)
Definition is_row (it : item) : bool := match it with Row _ _ => true | Comment _ _ => false end.
Lemma nl_ok_tail : forall it items, nl_ok (it :: items) = true -> nl_ok items = true.
Proof. intros it [|it' items] H; [reflexivity|]. cbn [nl_ok] in H. apply andb_true_iff in H. tauto. Qed.
Lemma nl_ok_filter : forall f items, nl_ok items = true -> nl_ok (filter f items) = true.
Proof.
  intros f. induction items as [|it items IH]; intros H; [reflexivity|].
  pose proof (IH (nl_ok_tail _ _ H)) as IH'. cbn [filter]. destruct (f it); [|exact IH'].
  destruct (filter f items) as [|x xs] eqn:E; [reflexivity|].
  change (item_nl it && nl_ok (x :: xs) = true). rewrite IH', andb_true_r.
  destruct items as [|it' items']; [discriminate|]. cbn [nl_ok] in H. apply andb_true_iff in H. tauto.
Qed.
Lemma data_rows_filter : forall items, data_rows (filter is_row items) = data_rows items.
Proof. induction items as [|[r nl|l nl] items IH]; cbn; [reflexivity|f_equal; exact IH|exact IH]. Qed.
Lemma forallb_filter : forall {A} (p f : A -> bool) l, forallb p l = true -> forallb p (filter f l) = true.
Proof. intros A p f l H. rewrite forallb_forall in *. intros x Hx. apply filter_In in Hx. apply H. tauto. Qed.

Theorem comments_ignored : forall convs d comment items,
  well_formed convs d comment items = true ->
  load_delimited num conv convs d comment (render items)
  = load_delimited num conv convs d comment (render (filter is_row items)).
Proof.
  intros convs d comment items H. rewrite (roundtrip _ _ _ _ H).
  assert (H' : well_formed convs d comment (filter is_row items) = true).
  { unfold well_formed in *. repeat (apply andb_true_iff in H as [H ?]). rewrite H, forallb_filter, nl_ok_filter by assumption. reflexivity. }
  rewrite (roundtrip _ _ _ _ H'), data_rows_filter. reflexivity.
Qed.

(* ---- the first faulty row is reported, by its 1-based number (comment lines count) ---- *)
Lemma lines_render_app : forall convs d comment items X,
  forallb (wf_item convs d comment) items = true -> forallb item_nl items = true ->
  lines (render items ++ X) = map item_line items ++ lines X.
Proof.
  intros convs d comment. induction items as [|it items IH]; intros X H Hnl; [reflexivity|].
  cbn [forallb] in H, Hnl. apply andb_true_iff in H as [Hit Hrest]. apply andb_true_iff in Hnl as [En Hnl].
  destruct (wf_item_core _ _ _ _ Hit) as [Hcore _].
  unfold render. cbn [map concat]. fold (render items). rewrite item_line_core, En. cbn [eol].
  rewrite <- !app_assoc. cbn [app]. rewrite (lines_app_nl _ _ Hcore), (IH X Hrest Hnl). reflexivity.
Qed.

Definition row_fails (convs : list cv) (d : delim) (l : str) : Prop :=
  exists data, re_split d (Z.of_nat (length convs) - 1) (pystrip l) = Some data
               /\ (length data <> length convs \/ convert_row num conv convs data = None).

Lemma faulty_row_raises : forall convs d comment pre core rest,
  supported d = true -> forallb (wf_item convs d comment) pre = true -> forallb item_nl pre = true ->
  nonl core = true -> is_comment comment (core ++ [c_nl]) = false -> row_fails convs d (core ++ [c_nl]) ->
  load_delimited num conv convs d comment (render pre ++ core ++ c_nl :: rest) = RaiseAt (S (length pre)) ValueError.
Proof.
  intros convs d comment pre core rest Hd Hpre Hnl Hcore Hc (data & Hs & Hf).
  assert (E : load_rows num conv convs d comment 1 (lines (render pre ++ core ++ c_nl :: rest)) = RaiseAt (S (length pre)) ValueError).
  { rewrite (lines_render_app _ _ _ _ _ Hpre Hnl), (lines_app_nl _ _ Hcore).
    rewrite (load_rows_app _ _ _ _ _ _ _ 1 _ (load_rows_items _ _ _ _ 1 Hpre)).
    rewrite map_length. cbn [load_rows Nat.add]. rewrite Hc, Hs.
    destruct Hf as [Hf|Hf].
    - destruct (Nat.eqb (length convs) (length data)) eqn:El; [apply Nat.eqb_eq in El; congruence|reflexivity].
    - destruct (negb (Nat.eqb (length convs) (length data))); [reflexivity|]. rewrite Hf. reflexivity. }
  unfold load_delimited. destruct d; try discriminate; rewrite E; reflexivity.
Qed.

(* A row with the wrong number of columns raises ValueError naming the row *)
Theorem wrong_columns_raise : forall convs d comment pre core rest data,
  supported d = true -> forallb (wf_item convs d comment) pre = true -> forallb item_nl pre = true ->
  nonl core = true -> is_comment comment (core ++ [c_nl]) = false ->
  re_split d (Z.of_nat (length convs) - 1) (pystrip (core ++ [c_nl])) = Some data -> length data <> length convs ->
  load_delimited num conv convs d comment (render pre ++ core ++ c_nl :: rest) = RaiseAt (S (length pre)) ValueError.
Proof. intros. eapply faulty_row_raises; try eassumption. eexists. split; [eassumption|left; assumption]. Qed.

(* in particular: a row that lost columns (its remaining tokens delimiter-free) *)
Definition wf_short_row (d : delim) (comment : option re) (lp t0 : str) (rest : list (str * str)) (rp : str) : bool :=
  blank lp && blank rp && nonl (body t0 rest) && wf_toks d false t0 rest
  && first_ok ws (body t0 rest) && last_ok ws (body t0 rest)
  && negb (is_comment comment ((lp ++ body t0 rest ++ rp) ++ [c_nl])).
Theorem too_few_columns_raise : forall convs d comment pre lp t0 rest rp text,
  supported d = true -> forallb (wf_item convs d comment) pre = true -> forallb item_nl pre = true ->
  wf_short_row d comment lp t0 rest rp = true -> S (length rest) < length convs ->
  load_delimited num conv convs d comment (render pre ++ (lp ++ body t0 rest ++ rp) ++ c_nl :: text)
  = RaiseAt (S (length pre)) ValueError.
Proof.
  intros convs d comment pre lp t0 rest rp text Hd Hpre Hnl H Hlt.
  unfold wf_short_row in H. repeat (apply andb_true_iff in H as [H ?]). apply negb_true_iff in H0.
  apply wrong_columns_raise with (data := t0 :: map snd rest); try assumption.
  - rewrite !nonl_app, (blank_nonl _ H), (blank_nonl _ H5), H4. reflexivity.
  - rewrite <- !app_assoc. unfold pystrip. rewrite strip_pad; try assumption.
    + apply split_body_short; [assumption|lia].
    + apply blank_ws; assumption.
    + rewrite forallb_app, (blank_ws _ H5). reflexivity.
  - cbn [length]. rewrite map_length. lia.
Qed.

(* An unparsable number raises ValueError naming the row *)
Theorem unparsable_raises : forall convs d comment pre core rest data j tok,
  supported d = true -> forallb (wf_item convs d comment) pre = true -> forallb item_nl pre = true ->
  nonl core = true -> is_comment comment (core ++ [c_nl]) = false ->
  re_split d (Z.of_nat (length convs) - 1) (pystrip (core ++ [c_nl])) = Some data -> length data = length convs ->
  nth_error convs j = Some CFloat -> nth_error data j = Some tok -> conv tok = None ->
  load_delimited num conv convs d comment (render pre ++ core ++ c_nl :: rest) = RaiseAt (S (length pre)) ValueError.
Proof.
  intros. eapply faulty_row_raises; try eassumption. eexists. split; [eassumption|right].
  eapply convert_row_unparsable; eassumption.
Qed.
End RoundTrip.

(* ---------- the wrappers: content that parses is returned; the validators only decide about a warning ---------- *)
Section Wrappers.
Variable num : Type.
Variable conv : str -> option num.
Variable val : num -> xval.

Lemma shape1 : forall c1 d cm text r, load_delimited num conv [c1] d cm text = ROk r -> exists c, r = Single c.
Proof.
  intros c1 d cm text r H. apply load_delimited_shape in H as (cols & Hl & ->).
  destruct cols as [|c [|? ?]]; try discriminate. eexists; reflexivity.
Qed.
Lemma shape2 : forall c1 c2 d cm text r, load_delimited num conv [c1; c2] d cm text = ROk r -> exists a b, r = Cols [a; b].
Proof.
  intros c1 c2 d cm text r H. apply load_delimited_shape in H as (cols & Hl & ->).
  destruct cols as [|a [|b [|? ?]]]; try discriminate. do 2 eexists; reflexivity.
Qed.
Lemma shape3 : forall c1 c2 c3 d cm text r, load_delimited num conv [c1; c2; c3] d cm text = ROk r -> exists a b c, r = Cols [a; b; c].
Proof.
  intros c1 c2 c3 d cm text r H. apply load_delimited_shape in H as (cols & Hl & ->).
  destruct cols as [|a [|b [|c [|? ?]]]]; try discriminate. do 3 eexists; reflexivity.
Qed.

(* `w` is what the wrapper does when load_delimited gave `raw`: its exceptions pass through unchanged (no warning), and on
   success `post` holds of the parsed columns and the wrapper's outcome *)
Definition wrapper_spec {A} (raw : rres (ldret num)) (w : wres A) (post : ldret num -> wres A -> Prop) : Prop :=
  match raw with
  | ROk r => post r w
  | RaiseAt k e => w = (RaiseAt k e, None)
  | RaiseNoRow e => w = (RaiseNoRow e, None)
  end.

Ltac wrap shape :=
  intros d cm text; unfold wrapper_spec;
  match goal with |- match ?raw with _ => _ end =>
    destruct raw as [r| |] eqn:E; [|reflexivity|reflexivity] end.

Theorem violating_content_is_warned_not_raised : forall d cm text,
  wrapper_spec (load_delimited num conv [CFloat] d cm text) (load_events num conv val d cm text)
    (fun r w => exists c, r = Single c /\ w = (ROk (nums num c), validate_events (map val (nums num c))))
  /\ wrapper_spec (load_delimited num conv [CFloat; CStr] d cm text) (load_labeled_events num conv val d cm text)
    (fun r w => exists c l, r = Cols [c; l] /\ w = (ROk (nums num c, strs num l), validate_events (map val (nums num c))))
  /\ wrapper_spec (load_delimited num conv [CFloat; CFloat] d cm text) (load_intervals num conv val d cm text)
    (fun r w => exists a b, r = Cols [a; b] /\
       w = (ROk (combine (nums num a) (nums num b)), validate_intervals (ivals num val (nums num a) (nums num b))))
  /\ wrapper_spec (load_delimited num conv [CFloat; CFloat; CStr] d cm text) (load_labeled_intervals num conv val d cm text)
    (fun r w => exists a b l, r = Cols [a; b; l] /\
       w = (ROk (combine (nums num a) (nums num b), strs num l), validate_intervals (ivals num val (nums num a) (nums num b))))
  /\ wrapper_spec (load_delimited num conv [CFloat; CFloat; CFloat] d cm text) (load_valued_intervals num conv val d cm text)
    (fun r w => exists a b v, r = Cols [a; b; v] /\
       w = (ROk (combine (nums num a) (nums num b), nums num v), validate_intervals (ivals num val (nums num a) (nums num b))))
  /\ wrapper_spec (load_delimited num conv [CFloat; CFloat] d cm text) (load_time_series num conv d cm text)
    (fun r w => exists a b, r = Cols [a; b] /\ w = (ROk (nums num a, nums num b), None)).
Proof.
  intros d cm text. unfold wrapper_spec, load_events, load_labeled_events, load_intervals, load_labeled_intervals,
    load_valued_intervals, load_time_series, with_cols.
  repeat split.
  - destruct (load_delimited num conv [CFloat] d cm text) as [r| |] eqn:E; try reflexivity.
    destruct (shape1 _ _ _ _ _ E) as (c & ->). eexists; split; reflexivity.
  - destruct (load_delimited num conv [CFloat; CStr] d cm text) as [r| |] eqn:E; try reflexivity.
    destruct (shape2 _ _ _ _ _ _ E) as (a & b & ->). do 2 eexists; split; reflexivity.
  - destruct (load_delimited num conv [CFloat; CFloat] d cm text) as [r| |] eqn:E; try reflexivity.
    destruct (shape2 _ _ _ _ _ _ E) as (a & b & ->). do 2 eexists; split; reflexivity.
  - destruct (load_delimited num conv [CFloat; CFloat; CStr] d cm text) as [r| |] eqn:E; try reflexivity.
    destruct (shape3 _ _ _ _ _ _ _ E) as (a & b & c & ->). do 3 eexists; split; reflexivity.
  - destruct (load_delimited num conv [CFloat; CFloat; CFloat] d cm text) as [r| |] eqn:E; try reflexivity.
    destruct (shape3 _ _ _ _ _ _ _ E) as (a & b & c & ->). do 3 eexists; split; reflexivity.
  - destruct (load_delimited num conv [CFloat; CFloat] d cm text) as [r| |] eqn:E; try reflexivity.
    destruct (shape2 _ _ _ _ _ _ E) as (a & b & ->). do 2 eexists; split; reflexivity.
Qed.

(* the documented exceptions: tempo weight outside [0, 1], more than one line in a tempo / key file *)
Definition in01 (w : xval) : bool := xle xzero w && xle w (Fin 1%Q).
Theorem load_tempo_spec : forall d cm text,
  wrapper_spec (load_delimited num conv [CFloat; CFloat; CFloat] d cm text) (load_tempo num conv val d cm text)
    (fun r w => exists ts : list (num * num * num),
       r = Cols [map (fun t => VNum (fst (fst t))) ts; map (fun t => VNum (snd (fst t))) ts; map (fun t => VNum (snd t)) ts]
       /\ w = match ts with
              | [(a, b, wt)] => (if in01 (val wt) then ROk ([a; b], wt) else RaiseNoRow ValueError, validate_tempi [val a; val b])
              | _ => (RaiseNoRow ValueError, None)                       (* not exactly one line *)
              end).
Proof.
  intros d cm text. unfold wrapper_spec.
  destruct (load_delimited num conv [CFloat; CFloat; CFloat] d cm text) as [r| |] eqn:E;
    [|unfold load_tempo, with_cols; rewrite E; reflexivity..].
  destruct (load_delimited_fff _ _ _ _ _ _ E) as (ts & ->). exists ts. split; [reflexivity|].
  unfold load_tempo, with_cols. rewrite E. rewrite !nums_map, map_length.
  destruct ts as [|[[a b] wt] [|t' ts']]; try reflexivity.
  cbn. unfold in01. destruct (xle xzero (val wt) && xle (val wt) (Fin 1%Q)); reflexivity.
Qed.
Corollary load_tempo_one_row : forall d cm text a b w,
  load_delimited num conv [CFloat; CFloat; CFloat] d cm text = ROk (Cols [[VNum a]; [VNum b]; [VNum w]]) ->
  load_tempo num conv val d cm text
  = (if in01 (val w) then ROk ([a; b], w) else RaiseNoRow ValueError, validate_tempi [val a; val b]).
Proof.
  intros d cm text a b w H. unfold load_tempo, with_cols. rewrite H. cbn. unfold in01.
  destruct (xle xzero (val w) && xle (val w) (Fin 1%Q)); reflexivity.
Qed.
(* any number of data lines other than one -- none at all included -- is the documented ValueError *)
Corollary load_tempo_multi_line : forall d cm text c1 c2 c3,
  load_delimited num conv [CFloat; CFloat; CFloat] d cm text = ROk (Cols [c1; c2; c3]) -> length (nums num c1) <> 1 ->
  load_tempo num conv val d cm text = (RaiseNoRow ValueError, None).
Proof.
  intros d cm text c1 c2 c3 H Hn. unfold load_tempo, with_cols. rewrite H.
  destruct (Nat.eqb (length (nums num c1)) 1) eqn:E; [apply Nat.eqb_eq in E; congruence|reflexivity].
Qed.
Theorem load_tempo_no_data_raises_value_error : forall d cm text, supported d = true ->
  forallb (is_comment cm) (lines text) = true ->
  load_tempo num conv val d cm text = (RaiseNoRow ValueError, None).
Proof.
  intros d cm text Hd H. unfold load_tempo, with_cols, load_delimited.
  rewrite (load_rows_all_comments num conv _ d cm _ 1 H). destruct d; try discriminate; reflexivity.
Qed.
(* was IndexError before /repo 7de24cd *)
Theorem load_tempo_empty_raises_value_error : forall d, supported d = true ->
  (forall cm, load_tempo num conv val d cm [] = (RaiseNoRow ValueError, None))
  /\ load_tempo num conv val d (Some (Chr 35)) [35; 99; 10] = (RaiseNoRow ValueError, None).
Proof. intros d Hd. split; [intros cm|]; apply load_tempo_no_data_raises_value_error; try assumption; reflexivity. Qed.
Theorem load_tempo_never_index_error : forall d cm text,
  match fst (load_tempo num conv val d cm text) with ROk _ => True | RaiseAt _ e | RaiseNoRow e => e <> IndexError end.
Proof.
  intros d cm text. pose proof (load_tempo_spec d cm text) as S0. pose proof (load_delimited_errors num conv [CFloat; CFloat; CFloat] d cm text) as Er.
  unfold wrapper_spec in S0. destruct (load_delimited num conv [CFloat; CFloat; CFloat] d cm text) as [r|k e|e].
  - destruct S0 as (ts & _ & ->). destruct ts as [|[[a b] wt] [|t' ts']]; cbn; try discriminate.
    destruct (in01 (val wt)); cbn; [exact I|discriminate].
  - rewrite S0. cbn. subst e. discriminate.
  - rewrite S0. cbn. subst e. discriminate.
Qed.

Theorem load_key_spec : forall d cm text,
  wrapper_spec (load_delimited num conv [CStr; CStr] d cm text) (load_key num conv d cm text)
    (fun r w => exists c1 c2, r = Cols [c1; c2] /\
       w = match strs num c1, strs num c2 with
           | [scale], mode :: _ =>
               let ks := scale ++ 32 :: mode in
               match validate_key ks with
               | Ok _ => (ROk ks, None) | Raise ValueError => (ROk ks, Some WKey) | Raise e => (RaiseNoRow e, None) end
           | [_], [] => (RaiseNoRow IndexError, None)
           | _, _ => (RaiseNoRow ValueError, None)
           end).
Proof.
  intros d cm text. unfold wrapper_spec, load_key, with_cols.
  destruct (load_delimited num conv [CStr; CStr] d cm text) as [r| |] eqn:E; try reflexivity.
  destruct (shape2 _ _ _ _ _ _ E) as (a & b & ->). do 2 eexists; split; reflexivity.
Qed.
Corollary load_key_multi_line : forall d cm text s s' c1 c2,
  load_delimited num conv [CStr; CStr] d cm text = ROk (Cols [VStr s :: VStr s' :: c1; c2]) ->
  load_key num conv d cm text = (RaiseNoRow ValueError, None).
Proof.
  intros d cm text s s' c1 c2 H. pose proof (load_key_spec d cm text) as S. rewrite H in S. cbn [wrapper_spec] in S.
  destruct S as (x1 & x2 & E & ->). injection E as <- <-. reflexivity.
Qed.
(* validate_key only ever raises ValueError (it is the only exception the model of key.validate_key contains) *)

(* ---------- load_patterns: every error is a ValueError; a data line without exactly two fields names its row ---------- *)
Theorem load_patterns_bad_line : forall line rest row plist pattern occ,
  contains s_pattern line = false -> contains s_occurrence line = false ->
  length (split_on c_comma line) <> 2 ->
  patterns_loop num conv row (line :: rest) plist pattern occ = RaiseAt row ValueError.
Proof.
  intros line rest row plist pattern occ Hp Ho Hl. cbn [patterns_loop]. rewrite Hp, Ho.
  destruct (split_on c_comma line) as [|a [|b [|? ?]]]; try reflexivity. cbn in Hl. congruence.
Qed.
Lemma patterns_loop_only_value_error : forall ls row plist pattern occ,
  match patterns_loop num conv row ls plist pattern occ with ROk _ => True | RaiseAt _ e | RaiseNoRow e => e = ValueError end.
Proof.
  induction ls as [|line ls IH]; intros row plist pattern occ; cbn [patterns_loop]; [exact I|].
  destruct (contains s_pattern line); [apply IH|]. destruct (contains s_occurrence line); [apply IH|].
  destruct (split_on c_comma line) as [|a [|b [|? ?]]]; try reflexivity.
  destruct (conv a); [|reflexivity]. destruct (conv b); [|reflexivity]. apply IH.
Qed.
Theorem load_patterns_only_value_error : forall text,
  match load_patterns num conv text with ROk _ => True | RaiseAt _ e | RaiseNoRow e => e = ValueError end.
Proof. intros text. apply patterns_loop_only_value_error. Qed.

Definition patterns_witness : str :=      (* "pattern1\noccurrence1\n1.0\n" : the data row has no comma *)
  [112;97;116;116;101;114;110;49;10; 111;99;99;117;114;114;101;110;99;101;49;10; 49;46;48;10].
Definition patterns_witness3 : str :=     (* "pattern1\noccurrence1\n1,2,3\n" : three values *)
  [112;97;116;116;101;114;110;49;10; 111;99;99;117;114;114;101;110;99;101;49;10; 49;44;50;44;51;10].
(* were IndexError / silently accepted before /repo f596eb3; the row is the 1-based line, header lines count *)
Example load_patterns_witnesses_fixed :
  load_patterns num conv patterns_witness = RaiseAt 3 ValueError /\ load_patterns num conv patterns_witness3 = RaiseAt 3 ValueError.
Proof. split; reflexivity. Qed.
End Wrappers.

(* ---------- the documented delimiters ---------- *)
Definition d_ws : delim := DPlus CWs.            (* r"\s+", the default *)
Definition d_comma : delim := DOne (CLit 44).    (* "," *)
Definition d_tab : delim := DOne (CLit 9).       (* "\t" *)
Definition hash : option re := Some (Chr 35).    (* comment="#", the default *)

Section Documented.
Variable num : Type.
Variable conv : str -> option num.
Variable show : num -> str.
Hypothesis conv_show : forall x, conv (show x) = Some x.
Theorem roundtrip_ws : forall convs comment items, well_formed num show convs d_ws comment items = true ->
  load_delimited num conv convs d_ws comment (render num show items)
  = ROk (pack num (length convs) (transpose (length convs) (data_rows num items))).
Proof. intros. apply (roundtrip num conv show conv_show); assumption. Qed.
Theorem roundtrip_comma : forall convs comment items, well_formed num show convs d_comma comment items = true ->
  load_delimited num conv convs d_comma comment (render num show items)
  = ROk (pack num (length convs) (transpose (length convs) (data_rows num items))).
Proof. intros. apply (roundtrip num conv show conv_show); assumption. Qed.
Theorem roundtrip_tab : forall convs comment items, well_formed num show convs d_tab comment items = true ->
  load_delimited num conv convs d_tab comment (render num show items)
  = ROk (pack num (length convs) (transpose (length convs) (data_rows num items))).
Proof. intros. apply (roundtrip num conv show conv_show); assumption. Qed.
End Documented.

(* ---------- the hypotheses are satisfiable: a toy number syntax (n is written as n+1 strokes "1") ---------- *)
Definition tshow (n : nat) : str := repeat 49 (S n).
Definition tconv (s : str) : option nat := if nonempty s && forallb (Nat.eqb 49) s then Some (pred (length s)) else None.
Lemma tconv_tshow : forall n, tconv (tshow n) = Some n.
Proof.
  intros n. unfold tconv, tshow. assert (H : forall k, forallb (Nat.eqb 49) (repeat 49 k) = true) by (induction k; [reflexivity|exact IHk]).
  rewrite H, repeat_length. reflexivity.
Qed.
(*   # t t label
     1 11\t a b\tc_          (trailing blank)
     __111  1 #x             (leading blanks; no final newline)          *)
Definition ex_items : list (item nat) :=
  [ Comment nat [35;32;116;32;116;32;108;97;98;101;108] true;
    Row nat (mkrow nat [] (VNum 0) [([32], VNum 1); ([9;32], VStr [97;32;98;9;99])] [32]) true;
    Row nat (mkrow nat [32;32] (VNum 2) [([32;32], VNum 0); ([32], VStr [35;120])] []) false ].
Example ex_well_formed : well_formed nat tshow [CFloat; CFloat; CStr] d_ws hash ex_items = true.
Proof. vm_compute. reflexivity. Qed.
Example ex_roundtrip :
  load_delimited nat tconv [CFloat; CFloat; CStr] d_ws hash (render nat tshow ex_items)
  = ROk (Cols [[VNum 0; VNum 2]; [VNum 1; VNum 0]; [VStr [97;32;98;9;99]; VStr [35;120]]]).
Proof. rewrite (roundtrip_ws nat tconv tshow tconv_tshow _ _ _ ex_well_formed). reflexivity. Qed.
(*   1,11,a, b        with "," : blanks around the label's comma stay in the label *)
Definition ex_items_comma : list (item nat) :=
  [ Row nat (mkrow nat [] (VNum 0) [([44], VNum 1); ([44], VStr [97;44;32;98])] []) true ].
Example ex_well_formed_comma : well_formed nat tshow [CFloat; CFloat; CStr] d_comma hash ex_items_comma = true.
Proof. vm_compute. reflexivity. Qed.
Example ex_roundtrip_comma :
  load_delimited nat tconv [CFloat; CFloat; CStr] d_comma hash (render nat tshow ex_items_comma)
  = ROk (Cols [[VNum 0]; [VNum 1]; [VStr [97;44;32;98]]]).
Proof. rewrite (roundtrip_comma nat tconv tshow tconv_tshow _ _ _ ex_well_formed_comma). reflexivity. Qed.
(* one column: maxsplit = 0 means "no limit", so a one-column label with a blank is split and rejected *)
Example ex_one_column_label_not_loadable :
  load_delimited nat tconv [CStr] d_ws hash [97;32;98;10] = RaiseAt 1 ValueError.
Proof. vm_compute. reflexivity. Qed.

Definition ex_pre : list (item nat) := firstn 2 ex_items.
Example ex_wrong_columns :      (* third line "1 11": two columns instead of three *)
  load_delimited nat tconv [CFloat; CFloat; CStr] d_ws hash (render nat tshow ex_pre ++ [49;32;49;49] ++ c_nl :: [49;10])
  = RaiseAt 3 ValueError.
Proof.
  apply (wrong_columns_raise nat tconv tshow tconv_tshow) with (data := [[49]; [49;49]]); try reflexivity. discriminate.
Qed.
Example ex_unparsable :         (* third line "1 x1 lab": the second number is damaged *)
  load_delimited nat tconv [CFloat; CFloat; CStr] d_ws hash (render nat tshow ex_pre ++ [49;32;120;49;32;108] ++ c_nl :: [])
  = RaiseAt 3 ValueError.
Proof.
  apply (unparsable_raises nat tconv tshow tconv_tshow) with (data := [[49]; [120;49]; [108]]) (j := 1) (tok := [120;49]); reflexivity.
Qed.
(* load_ragged_time_series numbers rows from 0 (header=False): the same damaged first line is "row 0" there, "row 1" in
   load_delimited; and header=True does not skip the header line, it only shifts the numbering *)
Example ex_ragged_row_numbers :
  load_ragged_time_series nat tconv tconv d_ws false hash [120;10] = RaiseAt 0 ValueError
  /\ load_ragged_time_series nat tconv tconv d_ws true hash [120;10] = RaiseAt 1 ValueError
  /\ load_delimited nat tconv [CFloat] d_ws hash [120;10] = RaiseAt 1 ValueError.
Proof. repeat split; vm_compute; reflexivity. Qed.

(* ---------- lines of a text given line by line ---------- *)
Definition mkline (p : str * bool) : str := fst p ++ eol (snd p).
Fixpoint nl_ok' (ls : list (str * bool)) : bool :=
  match ls with [] => true | p :: rest => match rest with [] => true | _ => snd p && nl_ok' rest end end.
Definition line_ok (p : str * bool) : bool := nonl (fst p) && (snd p || nonempty (fst p)).
Lemma lines_concat : forall ls, forallb line_ok ls = true -> nl_ok' ls = true ->
  lines (concat (map mkline ls)) = map mkline ls.
Proof.
  induction ls as [|[core nl] ls IH]; intros H Hnl; [reflexivity|].
  cbn [forallb] in H. apply andb_true_iff in H as [Hp Hrest]. unfold line_ok in Hp. cbn [fst snd] in Hp.
  apply andb_true_iff in Hp as [Hcore Hne]. cbn [map concat]. unfold mkline at 1 3. cbn [fst snd].
  destruct ls as [|p' ls'].
  - cbn [map concat]. rewrite app_nil_r. destruct nl; cbn [eol].
    + rewrite (lines_app_nl _ [] Hcore). reflexivity.
    + rewrite app_nil_r. apply lines_single; [assumption|]. destruct core; [discriminate|congruence].
  - cbn [nl_ok' snd] in Hnl. apply andb_true_iff in Hnl as [-> Hnl]. cbn [eol].
    rewrite <- app_assoc. cbn [app]. rewrite (lines_app_nl _ _ Hcore), (IH Hrest Hnl). reflexivity.
Qed.

(* ---------- load_ragged_time_series ---------- *)
Section Ragged.
Variable num : Type.
Variable conv convv : str -> option num.
Variable show showv : num -> str.
Hypothesis conv_show : forall x, conv (show x) = Some x.
Hypothesis convv_showv : forall x, convv (showv x) = Some x.

Record rrow := mkrrow { r_lpad : str; r_time : num; r_vals : list (str * num); r_rpad : str }.   (* (separator, value)* *)
Inductive ritem := RRow (r : rrow) (nl : bool) | RComment (l : str) (nl : bool).
Definition r_toks (r : rrow) : list (str * str) := map (fun sv => (fst sv, showv (snd sv))) (r_vals r).
Definition r_body (r : rrow) : str := body (show (r_time r)) (r_toks r).
Definition r_core (it : ritem) : str * bool :=
  match it with RRow r nl => (r_lpad r ++ r_body r ++ r_rpad r, nl) | RComment l nl => (l, nl) end.
Definition r_render (items : list ritem) : str := concat (map mkline (map r_core items)).
Fixpoint r_data (items : list ritem) : list (num * list num) :=
  match items with [] => [] | RRow r _ :: t => (r_time r, map snd (r_vals r)) :: r_data t | RComment _ _ :: t => r_data t end.
Definition wf_ritem (d : delim) (comment : option re) (it : ritem) : bool :=
  match it with
  | RRow r nl =>
      blank (r_lpad r) && blank (r_rpad r) && nonl (r_body r)
      && wf_toks d false (show (r_time r)) (r_toks r)                 (* no maxsplit: every token is delimiter-free *)
      && first_ok ws (r_body r) && last_ok ws (r_body r)
      && negb (is_comment comment (mkline (r_core it)))
  | RComment l nl => nonl l && is_comment comment (l ++ eol nl) && (nl || nonempty l)
  end.
Definition r_well_formed (d : delim) (comment : option re) (items : list ritem) : bool :=
  supported d && forallb (wf_ritem d comment) items && nl_ok' (map r_core items).

Lemma split_body_unlimited : forall d t0 rest, wf_toks d false t0 rest = true ->
  re_split d 0 (body t0 rest) = Some (t0 :: map snd rest).
Proof.
  intros [k|k|] t0 rest H; cbn [wf_toks re_split] in *; [| |discriminate]; f_equal.
  - apply split_run_body with (fl := false); [reflexivity|exact H].
  - apply split_one_body with (fl := false); [reflexivity|exact H].
Qed.
Lemma map_opt_showv : forall vs, map_opt convv (map showv vs) = Some vs.
Proof. induction vs as [|v vs IH]; [reflexivity|]. cbn. rewrite convv_showv, IH. reflexivity. Qed.

Lemma wf_rrow_inv : forall d comment r nl, wf_ritem d comment (RRow r nl) = true ->
  blank (r_lpad r) = true /\ blank (r_rpad r) = true /\ nonl (r_body r) = true
  /\ wf_toks d false (show (r_time r)) (r_toks r) = true /\ first_ok ws (r_body r) = true /\ last_ok ws (r_body r) = true
  /\ is_comment comment (mkline (r_core (RRow r nl))) = false.
Proof.
  intros d comment r nl H. cbn [wf_ritem] in H. repeat (apply andb_true_iff in H as [H ?]).
  apply negb_true_iff in H0. repeat split; assumption.
Qed.

Lemma ragged_rows_items : forall d comment items k, forallb (wf_ritem d comment) items = true ->
  ragged_rows num conv convv d comment k (map mkline (map r_core items)) = ROk (r_data items).
Proof.
  intros d comment. induction items as [|it items IH]; intros k H; [reflexivity|].
  cbn [forallb] in H. apply andb_true_iff in H as [Hit Hrest]. cbn [map ragged_rows].
  destruct it as [r nl|l nl]; cbn [wf_ritem] in Hit.
  - destruct (wf_rrow_inv _ _ _ _ Hit) as (Hlp & Hrp & Hnl & Hw & Hf & Hla & Hc). rewrite Hc.
    assert (Es : pystrip (mkline (r_core (RRow r nl))) = r_body r).
    { unfold mkline. cbn [r_core fst snd]. rewrite <- !app_assoc. unfold pystrip. apply strip_pad; try assumption.
      - apply blank_ws; assumption.
      - rewrite forallb_app, (blank_ws _ Hrp). destruct nl; reflexivity. }
    rewrite Es. unfold r_body. rewrite (split_body_unlimited _ _ _ Hw), conv_show.
    unfold r_toks. rewrite map_map. cbn [snd]. rewrite <- (map_map snd showv), map_opt_showv.
    rewrite (IH (S k) Hrest). reflexivity.
  - apply andb_true_iff in Hit as [Hit _]. apply andb_true_iff in Hit as [_ Hc].
    unfold mkline at 1. cbn [r_core fst snd]. rewrite Hc. apply IH; assumption.
Qed.

Lemma wf_ritem_line_ok : forall d comment it, wf_ritem d comment it = true -> line_ok (r_core it) = true.
Proof.
  intros d comment [r nl|l nl] H; unfold line_ok; cbn [r_core fst snd].
  - destruct (wf_rrow_inv _ _ _ _ H) as (Hlp & Hrp & Hnl & Hw & Hf & Hla & Hc).
    rewrite !nonl_app, (blank_nonl _ Hlp), (blank_nonl _ Hrp), Hnl.
    destruct (r_body r); [discriminate|]. destruct (r_lpad r), nl; reflexivity.
  - cbn [wf_ritem] in H. repeat (apply andb_true_iff in H as [H ?]). rewrite H, H0. reflexivity.
Qed.

(* times and value rows come back exactly, in file order; `header` plays no role for a well-formed file *)
Theorem ragged_roundtrip : forall d header comment items, r_well_formed d comment items = true ->
  load_ragged_time_series num conv convv d header comment (r_render items)
  = ROk (map fst (r_data items), map snd (r_data items)).
Proof.
  intros d header comment items H. unfold r_well_formed in H. repeat (apply andb_true_iff in H as [H ?]).
  assert (Hl : forallb line_ok (map r_core items) = true).
  { rewrite forallb_forall in *. intros p Hp. apply in_map_iff in Hp as (it & <- & Hit). eapply wf_ritem_line_ok. apply H1. exact Hit. }
  unfold load_ragged_time_series, r_render. rewrite (lines_concat _ Hl H0).
  destruct d; try discriminate; rewrite (ragged_rows_items _ _ _ _ H1); reflexivity.
Qed.
End Ragged.

(* ---------- load_patterns ---------- *)
Definition addnl (core : str) : str := core ++ [c_nl].
Lemma lines_concat_nl : forall cores, forallb nonl cores = true -> lines (concat (map addnl cores)) = map addnl cores.
Proof.
  intros cores H. pose proof (lines_concat (map (fun c => (c, true)) cores)) as L.
  rewrite map_map in L. apply L.
  - rewrite forallb_forall in *. intros p Hp. apply in_map_iff in Hp as (c & <- & Hc). unfold line_ok. cbn [fst snd]. rewrite (H c Hc). reflexivity.
  - clear. induction cores as [|c [|c' cs] IH]; try reflexivity. cbn [map nl_ok' snd andb] in *. exact IH.
Qed.

Section Patterns.
Variable num : Type.
Variable conv : str -> option num.

(* a data row "pa,pb\n": float(pa) = px, float(pb + "\n") = py *)
Record prow := mkprow { pa : str; pb : str; px : num; py : num }.
Definition hasc (c : nat) (s : str) : bool := existsb (Nat.eqb c) s.
Definition prow_core (r : prow) : str := pa r ++ c_comma :: pb r.
Definition wf_prow (r : prow) : Prop :=
  nonl (prow_core r) = true /\ hasc c_comma (pa r) = false /\ hasc c_comma (pb r ++ [c_nl]) = false
  /\ contains s_pattern (addnl (prow_core r)) = false /\ contains s_occurrence (addnl (prow_core r)) = false
  /\ conv (pa r) = Some (px r) /\ conv (pb r ++ [c_nl]) = Some (py r).
(* an occurrence: a header line containing "occurrence" (and not "pattern"), then at least one data row *)
Definition occ := (str * list prow)%type.
Definition occ_cores (o : occ) : list str := fst o :: map prow_core (snd o).
Definition occ_vals (o : occ) : list (num * num) := map (fun r => (px r, py r)) (snd o).
Definition wf_occ (o : occ) : Prop :=
  nonl (fst o) = true /\ contains s_pattern (addnl (fst o)) = false /\ contains s_occurrence (addnl (fst o)) = true
  /\ snd o <> [] /\ Forall wf_prow (snd o).
(* a pattern: a header line containing "pattern", then at least one occurrence *)
Definition pat := (str * list occ)%type.
Definition pat_cores (p : pat) : list str := fst p :: concat (map occ_cores (snd p)).
Definition pat_vals (p : pat) : list (list (num * num)) := map occ_vals (snd p).
Definition wf_pat (p : pat) : Prop :=
  nonl (fst p) = true /\ contains s_pattern (addnl (fst p)) = true /\ snd p <> [] /\ Forall wf_occ (snd p).
Definition p_render (ps : list pat) : str := concat (map addnl (concat (map pat_cores ps))).

Lemma split_on_free : forall c s, hasc c s = false -> split_on c s = [s].
Proof.
  intros c. induction s as [|x s IH]; intros H; [reflexivity|]. cbn [hasc existsb] in H. apply orb_false_iff in H as [Hx Hs].
  cbn [split_on]. rewrite Nat.eqb_sym in Hx. rewrite Hx, (IH Hs). reflexivity.
Qed.
Lemma split_on_two : forall c a b, hasc c a = false -> hasc c b = false -> split_on c (a ++ c :: b) = [a; b].
Proof.
  intros c. induction a as [|x a IH]; intros b Ha Hb.
  - cbn [app split_on]. rewrite Nat.eqb_refl, (split_on_free _ _ Hb). reflexivity.
  - cbn [hasc existsb] in Ha. apply orb_false_iff in Ha as [Hx Ha]. cbn [app split_on].
    rewrite Nat.eqb_sym in Hx. rewrite Hx, (IH b Ha Hb). reflexivity.
Qed.

Lemma loop_rows : forall rows row rest plist P c, Forall wf_prow rows ->
  patterns_loop num conv row (map addnl (map prow_core rows) ++ rest) plist P c
  = patterns_loop num conv (length rows + row) rest plist P (c ++ map (fun r => (px r, py r)) rows).
Proof.
  induction rows as [|r rows IH]; intros row rest plist P c H; [cbn; rewrite app_nil_r; reflexivity|].
  inversion H as [|? ? Hr Hrows]; subst. destruct Hr as (Hnl & Ha & Hb & Hp & Ho & Hx & Hy).
  cbn [map app patterns_loop]. rewrite Hp, Ho. unfold addnl, prow_core at 1. rewrite <- app_assoc. cbn [app].
  rewrite (split_on_two _ _ _ Ha Hb), Hx, Hy, (IH _ _ _ _ _ Hrows), <- app_assoc. cbn [length]. rewrite Nat.add_succ_r. reflexivity.
Qed.
Lemma loop_occ : forall o row rest plist P c, wf_occ o ->
  patterns_loop num conv row (map addnl (occ_cores o) ++ rest) plist P c
  = patterns_loop num conv (length (occ_cores o) + row) rest plist (close_occ P c) (occ_vals o).
Proof.
  intros [h rows] row rest plist P c (Hnl & Hp & Ho & Hne & Hrows). cbn [fst snd] in *.
  unfold occ_cores. cbn [fst snd map app patterns_loop length]. rewrite Hp, Ho. rewrite (loop_rows _ _ _ _ _ _ Hrows).
  rewrite map_length, Nat.add_succ_r. reflexivity.
Qed.
Lemma close_occ_nonempty : forall (P : list (list (num * num))) c, c <> [] -> close_occ P c = P ++ [c].
Proof. intros P [|x c] H; [congruence|reflexivity]. Qed.
Lemma close_pat_nonempty : forall (L : list (list (list (num * num)))) P, P <> [] -> close_pat L P = L ++ [P].
Proof. intros L [|x P] H; [congruence|reflexivity]. Qed.

Lemma loop_occs : forall os P c, Forall wf_occ os ->
  exists P' c', (forall row rest plist, patterns_loop num conv row (map addnl (concat (map occ_cores os)) ++ rest) plist P c
                                    = patterns_loop num conv (length (concat (map occ_cores os)) + row) rest plist P' c')
                /\ close_occ P' c' = close_occ P c ++ map occ_vals os.
Proof.
  induction os as [|o os IH]; intros P c H.
  - exists P, c. split; [reflexivity|]. cbn. rewrite app_nil_r. reflexivity.
  - inversion H as [|? ? Ho Hos]; subst.
    destruct (IH (close_occ P c) (occ_vals o) Hos) as (P' & c' & Hl & Hc). exists P', c'. split.
    + intros row rest plist. cbn [map concat]. rewrite map_app, <- app_assoc, (loop_occ _ _ _ _ _ _ Ho), Hl.
      rewrite app_length. f_equal. lia.
    + rewrite Hc. rewrite close_occ_nonempty.
      * cbn [map]. rewrite <- app_assoc. reflexivity.
      * destruct Ho as (_ & _ & _ & Hne & _). unfold occ_vals. destruct (snd o); [congruence|discriminate].
Qed.
Lemma loop_pat : forall p, wf_pat p ->
  exists P' c', (forall row rest plist P c, patterns_loop num conv row (map addnl (pat_cores p) ++ rest) plist P c
                  = patterns_loop num conv (length (pat_cores p) + row) rest (close_pat plist (close_occ P c)) P' c')
                /\ close_occ P' c' = pat_vals p.
Proof.
  intros [h os] (Hnl & Hp & Hne & Hos). cbn [fst snd] in *.
  destruct (loop_occs os [] [] Hos) as (P' & c' & Hl & Hc). exists P', c'. split; [|exact Hc].
  intros row rest plist P c. unfold pat_cores. cbn [fst snd map app patterns_loop length]. rewrite Hp, Hl, Nat.add_succ_r. reflexivity.
Qed.
Lemma loop_pats : forall ps plist P c, Forall wf_pat ps ->
  exists plist' P' c', (forall row rest, patterns_loop num conv row (map addnl (concat (map pat_cores ps)) ++ rest) plist P c
                                     = patterns_loop num conv (length (concat (map pat_cores ps)) + row) rest plist' P' c')
                       /\ close_pat plist' (close_occ P' c') = close_pat plist (close_occ P c) ++ map pat_vals ps.
Proof.
  induction ps as [|p ps IH]; intros plist P c H.
  - exists plist, P, c. split; [reflexivity|]. cbn. rewrite app_nil_r. reflexivity.
  - inversion H as [|? ? Hp Hps]; subst. destruct (loop_pat p Hp) as (P1 & c1 & Hl1 & Hc1).
    destruct (IH (close_pat plist (close_occ P c)) P1 c1 Hps) as (plist' & P' & c' & Hl & Hc). exists plist', P', c'. split.
    + intros row rest. cbn [map concat]. rewrite map_app, <- app_assoc, Hl1, Hl. rewrite app_length. f_equal. lia.
    + rewrite Hc, Hc1. rewrite close_pat_nonempty.
      * cbn [map]. rewrite <- app_assoc. reflexivity.
      * destruct Hp as (_ & _ & Hne & _). unfold pat_vals. destruct (snd p); [congruence|discriminate].
Qed.

Lemma nonl_cores : forall ps, Forall wf_pat ps -> forallb nonl (concat (map pat_cores ps)) = true.
Proof.
  induction 1 as [|p ps Hp _ IH]; [reflexivity|]. cbn [map concat]. rewrite forallb_app, IH, andb_true_r.
  destruct Hp as (Hnl & _ & _ & Hos). unfold pat_cores. cbn [forallb]. rewrite Hnl. cbn [andb].
  induction Hos as [|o os Ho _ IHo]; [reflexivity|]. cbn [map concat]. rewrite forallb_app, IHo, andb_true_r.
  destruct Ho as (Hnlo & _ & _ & _ & Hrows). unfold occ_cores. cbn [forallb]. rewrite Hnlo. cbn [andb].
  induction Hrows as [|r rows Hr _ IHr]; [reflexivity|]. cbn [map forallb]. rewrite IHr, andb_true_r. apply Hr.
Qed.

(* a pattern file in the MIREX layout loads back to exactly the written (onset, midi) pairs, grouped as written *)
Theorem patterns_roundtrip : forall ps, Forall wf_pat ps ->
  load_patterns num conv (p_render ps) = ROk (map pat_vals ps).
Proof.
  intros ps H. unfold load_patterns, p_render. rewrite (lines_concat_nl _ (nonl_cores _ H)).
  destruct (loop_pats ps [] [] [] H) as (plist' & P' & c' & Hl & Hc).
  rewrite <- (app_nil_r (map addnl _)), Hl. cbn [patterns_loop]. rewrite Hc. reflexivity.
Qed.
Lemma lines_cores_app : forall cores X, forallb nonl cores = true ->
  lines (concat (map addnl cores) ++ X) = map addnl cores ++ lines X.
Proof.
  induction cores as [|c cores IH]; intros X H; [reflexivity|]. cbn [forallb] in H. apply andb_true_iff in H as [Hc Hr].
  cbn [map concat]. unfold addnl at 1. rewrite <- !app_assoc. cbn [app]. rewrite (lines_app_nl _ _ Hc), (IH X Hr). reflexivity.
Qed.
(* after any well-formed patterns, a line that is neither a header nor made of exactly two comma-separated fields raises
   ValueError naming its 1-based line number (header lines count); the rest of the file is irrelevant *)
Theorem load_patterns_wrong_columns_raise : forall ps core rest,
  Forall wf_pat ps -> nonl core = true ->
  contains s_pattern (addnl core) = false -> contains s_occurrence (addnl core) = false ->
  length (split_on c_comma (addnl core)) <> 2 ->
  load_patterns num conv (p_render ps ++ core ++ c_nl :: rest)
  = RaiseAt (S (length (concat (map pat_cores ps)))) ValueError.
Proof.
  intros ps core rest H Hnl Hp Ho Hl. unfold load_patterns, p_render.
  rewrite (lines_cores_app _ _ (nonl_cores _ H)), (lines_app_nl _ _ Hnl).
  destruct (loop_pats ps [] [] [] H) as (plist' & P' & c' & Hloop & _). rewrite Hloop, Nat.add_1_r.
  apply load_patterns_bad_line; assumption.
Qed.
(* in particular a data row without a comma *)
Corollary load_patterns_no_comma_raises : forall ps core rest,
  Forall wf_pat ps -> nonl core = true ->
  contains s_pattern (addnl core) = false -> contains s_occurrence (addnl core) = false ->
  hasc c_comma (addnl core) = false ->
  load_patterns num conv (p_render ps ++ core ++ c_nl :: rest)
  = RaiseAt (S (length (concat (map pat_cores ps)))) ValueError.
Proof.
  intros ps core rest H Hnl Hp Ho Hc. apply load_patterns_wrong_columns_raise; try assumption.
  rewrite (split_on_free _ _ Hc). discriminate.
Qed.
End Patterns.

(* satisfiability of the hypotheses of ragged_roundtrip / patterns_roundtrip (toy syntax; float() ignores blanks) *)
Definition tconv_ws (s : str) : option nat := tconv (pystrip s).
Lemma tconv_ws_tshow : forall n, tconv_ws (tshow n) = Some n.
Proof.
  intros n. unfold tconv_ws, pystrip, tshow. cbn [repeat].
  assert (E : strip ws (49 :: repeat 49 n) = 49 :: repeat 49 n).
  { pose proof (strip_pad ws [] (49 :: repeat 49 n) []) as SP. rewrite app_nil_r in SP. apply SP; try reflexivity.
    unfold last_ok. change (49 :: repeat 49 n) with (repeat 49 (S n)).
    assert (R : forall k, rev (repeat 49 k) = repeat 49 k).
    { induction k as [|k IH]; [reflexivity|]. cbn [repeat rev]. rewrite IH. clear. induction k; [reflexivity|]. cbn. f_equal. exact IHk. }
    rewrite R. reflexivity. }
  rewrite E. apply (tconv_tshow n).
Qed.
(*  # time values
    1 11 111
    11                  (a time stamp without values)          *)
Definition ex_ragged : list (ritem nat) :=
  [ RComment nat [35;32;116] true;
    RRow nat (mkrrow nat [] 0 [([32], 1); ([9], 2)] []) true;
    RRow nat (mkrrow nat [] 1 [] []) false ].
Example ex_ragged_wf : r_well_formed nat tshow tshow d_ws hash ex_ragged = true.
Proof. vm_compute. reflexivity. Qed.
Example ex_ragged_roundtrip :
  load_ragged_time_series nat tconv_ws tconv_ws d_ws false hash (r_render nat tshow tshow ex_ragged) = ROk ([0; 1], [[1; 2]; []]).
Proof. rewrite (ragged_roundtrip nat tconv_ws tconv_ws tshow tshow tconv_ws_tshow tconv_ws_tshow _ _ _ _ ex_ragged_wf). reflexivity. Qed.
(*  pattern1 / occurrence1 / "1, 11" / "11,1"  *)
Definition ex_patterns : list (pat nat) :=
  [ ([112;97;116;116;101;114;110;49], [ ([111;99;99;117;114;114;101;110;99;101;49], [ mkprow nat [49] [32;49;49] 0 1; mkprow nat [49;49] [49] 1 0 ]) ]) ].
Example ex_patterns_wf : Forall (wf_pat nat tconv_ws) ex_patterns.
Proof.
  repeat constructor; cbn; try reflexivity; try discriminate.
Qed.
Example ex_patterns_roundtrip : load_patterns nat tconv_ws (p_render nat ex_patterns) = ROk [[[(0, 1); (1, 0)]]].
Proof. rewrite (patterns_roundtrip nat tconv_ws _ ex_patterns_wf). reflexivity. Qed.
(* a fifth line "1" (no comma) after the four well-formed lines of ex_patterns, then garbage *)
Example ex_patterns_wrong_columns :
  load_patterns nat tconv_ws (p_render nat ex_patterns ++ [49] ++ c_nl :: [120; 10]) = RaiseAt 5 ValueError.
Proof. apply (load_patterns_no_comma_raises nat tconv_ws _ _ _ ex_patterns_wf); reflexivity. Qed.
