(* Shared lemmas for the interval pre-processing proofs (C13): boolean reflection on Q, min/max of lists,
   find_idx, the abstraction functions label_at / label_at_closed, time-ordered interval lists. *)
From Coq Require Import List Bool Arith ZArith QArith Qminmax Qabs Lia Lqa.
From ME Require Import Model.Prelude Model.Intervals.
Import ListNotations.
Open Scope Q_scope.

(* ---------------------------------------------------------------------------------------- *)
(* booleans on Q                                                                             *)
(* ---------------------------------------------------------------------------------------- *)
Lemma qleb_true a b : Qle_bool a b = true <-> a <= b.
Proof. apply Qle_bool_iff. Qed.
Lemma qleb_false a b : Qle_bool a b = false <-> b < a.
Proof.
  split; intro H.
  - destruct (Qlt_le_dec b a) as [h|h]; [exact h|]. apply Qle_bool_iff in h. congruence.
  - destruct (Qle_bool a b) eqn:E; [|reflexivity]. apply Qle_bool_iff in E. lra.
Qed.
Lemma qltb_true a b : qltb a b = true <-> a < b.
Proof. unfold qltb. rewrite negb_true_iff. apply qleb_false. Qed.
Lemma qltb_false a b : qltb a b = false <-> b <= a.
Proof. unfold qltb. rewrite negb_false_iff. apply qleb_true. Qed.
Lemma qeqb_true a b : Qeq_bool a b = true <-> a == b.
Proof. apply Qeq_bool_iff. Qed.
Lemma qeqb_false a b : Qeq_bool a b = false <-> ~ a == b.
Proof.
  split; intro H.
  - intro h. apply Qeq_bool_iff in h. congruence.
  - destruct (Qeq_bool a b) eqn:E; [|reflexivity]. apply Qeq_bool_iff in E. contradiction.
Qed.

Lemma qmax_cases a b : (Qmax a b == a /\ b <= a) \/ (Qmax a b == b /\ a <= b).
Proof. destruct (Q.max_spec a b) as [[h1 h2]|[h1 h2]]; [right|left]; split; auto; lra. Qed.
Lemma qmin_cases a b : (Qmin a b == a /\ a <= b) \/ (Qmin a b == b /\ b <= a).
Proof. destruct (Q.min_spec a b) as [[h1 h2]|[h1 h2]]; [left|right]; split; auto; lra. Qed.

(* eliminate every Qmax / Qmin by case analysis, leaving linear arithmetic *)
Ltac qmm :=
  repeat match goal with
  | |- context [Qmax ?a ?b] =>
      let m := fresh "m" in destruct (qmax_cases a b) as [[? ?]|[? ?]]; set (m := Qmax a b) in *; clearbody m
  | H : context [Qmax ?a ?b] |- _ =>
      let m := fresh "m" in destruct (qmax_cases a b) as [[? ?]|[? ?]]; set (m := Qmax a b) in *; clearbody m
  | |- context [Qmin ?a ?b] =>
      let m := fresh "m" in destruct (qmin_cases a b) as [[? ?]|[? ?]]; set (m := Qmin a b) in *; clearbody m
  | H : context [Qmin ?a ?b] |- _ =>
      let m := fresh "m" in destruct (qmin_cases a b) as [[? ?]|[? ?]]; set (m := Qmin a b) in *; clearbody m
  end; try lra.

(* turn boolean comparisons in the context into propositions *)
Ltac qb :=
  repeat match goal with
  | H : Qle_bool _ _ = true |- _ => apply qleb_true in H
  | H : Qle_bool _ _ = false |- _ => apply qleb_false in H
  | H : qltb _ _ = true |- _ => apply qltb_true in H
  | H : qltb _ _ = false |- _ => apply qltb_false in H
  | H : Qeq_bool _ _ = true |- _ => apply qeqb_true in H
  | H : Qeq_bool _ _ = false |- _ => apply qeqb_false in H
  | H : _ && _ = true |- _ => apply andb_true_iff in H; destruct H
  end.

(* ---------------------------------------------------------------------------------------- *)
(* qmin_list / qmax_list                                                                     *)
(* ---------------------------------------------------------------------------------------- *)
Lemma fold_min_spec : forall t x, let m := fold_left Qmin t x in
  (m == x \/ exists y, In y t /\ m == y) /\ m <= x /\ forall y, In y t -> m <= y.
Proof.
  induction t as [|a t IH]; intros x; cbn.
  - split; [left; reflexivity|]. split; [lra|]. intros y [].
  - destruct (IH (Qmin x a)) as [h1 [h2 h3]].
    split; [|split].
    + destruct h1 as [h1|[y [hy h1]]].
      * destruct (qmin_cases x a) as [[e _]|[e _]].
        -- left. rewrite h1. exact e.
        -- right. exists a. split; [left; reflexivity|]. rewrite h1. exact e.
      * right. exists y. split; [right; exact hy|exact h1].
    + pose proof (Q.le_min_l x a). lra.
    + intros y [<-|hy]; [pose proof (Q.le_min_r x a); lra|auto].
Qed.
Lemma fold_max_spec : forall t x, let m := fold_left Qmax t x in
  (m == x \/ exists y, In y t /\ m == y) /\ x <= m /\ forall y, In y t -> y <= m.
Proof.
  induction t as [|a t IH]; intros x; cbn.
  - split; [left; reflexivity|]. split; [lra|]. intros y [].
  - destruct (IH (Qmax x a)) as [h1 [h2 h3]].
    split; [|split].
    + destruct h1 as [h1|[y [hy h1]]].
      * destruct (qmax_cases x a) as [[e _]|[e _]].
        -- left. rewrite h1. exact e.
        -- right. exists a. split; [left; reflexivity|]. rewrite h1. exact e.
      * right. exists y. split; [right; exact hy|exact h1].
    + pose proof (Q.le_max_l x a). lra.
    + intros y [<-|hy]; [pose proof (Q.le_max_r x a); lra|auto].
Qed.
Lemma qmin_list_spec l m : qmin_list l = Some m -> (exists y, In y l /\ m == y) /\ forall y, In y l -> m <= y.
Proof.
  destruct l as [|x t]; cbn; [discriminate|]. intros H. injection H as <-.
  destruct (fold_min_spec t x) as [h1 [h2 h3]]. split.
  - destruct h1 as [h1|[y [hy h1]]]; [exists x|exists y]; auto.
  - intros y [<-|hy]; auto.
Qed.
Lemma qmax_list_spec l m : qmax_list l = Some m -> (exists y, In y l /\ m == y) /\ forall y, In y l -> y <= m.
Proof.
  destruct l as [|x t]; cbn; [discriminate|]. intros H. injection H as <-.
  destruct (fold_max_spec t x) as [h1 [h2 h3]]. split.
  - destruct h1 as [h1|[y [hy h1]]]; [exists x|exists y]; auto.
  - intros y [<-|hy]; auto.
Qed.
Lemma qmin_list_some l : l <> [] -> exists m, qmin_list l = Some m.
Proof. destruct l; [congruence|]. intros _. eexists. reflexivity. Qed.
Lemma qmax_list_some l : l <> [] -> exists m, qmax_list l = Some m.
Proof. destruct l; [congruence|]. intros _. eexists. reflexivity. Qed.

Lemma in_flat x (l : list iv) : In x (flat l) <-> exists v, In v l /\ (x = fst v \/ x = snd v).
Proof.
  unfold flat. rewrite in_flat_map. split.
  - intros [v [hv hx]]. exists v. split; auto. cbn in hx. intuition.
  - intros [v [hv hx]]. exists v. split; auto. cbn. intuition.
Qed.
Lemma flat_nil_iff (l : list iv) : flat l = [] <-> l = [].
Proof. destruct l; cbn; split; congruence. Qed.

(* ---------------------------------------------------------------------------------------- *)
(* find_idx                                                                                  *)
(* ---------------------------------------------------------------------------------------- *)
Lemma find_idx_some {A} (p : A -> bool) : forall l k, find_idx p l = Some k ->
  Forall (fun x => p x = false) (firstn k l) /\ exists x r, skipn k l = x :: r /\ p x = true.
Proof.
  induction l as [|a l IH]; cbn; intros k H; [discriminate|].
  destruct (p a) eqn:E.
  - injection H as <-. cbn. split; [constructor|]. exists a, l. auto.
  - destruct (find_idx p l) as [j|]; cbn in H; [|discriminate]. injection H as <-.
    destruct (IH j eq_refl) as [h1 h2]. cbn. split; [constructor; auto|exact h2].
Qed.
Lemma find_idx_none {A} (p : A -> bool) : forall l, find_idx p l = None -> Forall (fun x => p x = false) l.
Proof.
  induction l as [|a l IH]; cbn; intros H; [constructor|].
  destruct (p a) eqn:E; [discriminate|].
  destruct (find_idx p l); cbn in H; [discriminate|]. constructor; auto.
Qed.

(* ---------------------------------------------------------------------------------------- *)
(* the abstraction: label of the interval containing t (the LATER row wins)                  *)
(* ---------------------------------------------------------------------------------------- *)
Definition in_ho (v : iv) (t : Q) : bool := Qle_bool (fst v) t && qltb t (snd v).     (* [start, end)  *)
Definition in_cl (v : iv) (t : Q) : bool := Qle_bool (fst v) t && Qle_bool t (snd v).  (* [start, end]  *)

Section LabelAt.
Context {L : Type}.
Fixpoint label_with (c : iv -> Q -> bool) (ivs : list iv) (labs : list L) (t : Q) : option L :=
  match ivs, labs with
  | v :: ivs', l :: labs' =>
      match label_with c ivs' labs' t with
      | Some x => Some x
      | None => if c v t then Some l else None
      end
  | _, _ => None
  end.
Definition label_at := label_with in_ho.
Definition label_at_closed := label_with in_cl.

Variable c : iv -> Q -> bool.

Lemma label_with_none : forall ivs labs t, Forall (fun v => c v t = false) ivs -> label_with c ivs labs t = None.
Proof.
  induction ivs as [|v ivs IH]; intros labs t H; [reflexivity|].
  destruct labs as [|l labs]; [reflexivity|]. inversion H; subst. cbn. rewrite IH by assumption.
  rewrite H2. reflexivity.
Qed.
Lemma label_with_some_in : forall ivs labs t l, label_with c ivs labs t = Some l -> exists v, In v ivs /\ c v t = true.
Proof.
  induction ivs as [|v ivs IH]; intros labs t l H; [discriminate|].
  destruct labs as [|l0 labs]; [discriminate|]. cbn in H.
  destruct (label_with c ivs labs t) eqn:E.
  - destruct (IH _ _ _ E) as [w [hw hc]]. exists w. split; [right|]; assumption.
  - destruct (c v t) eqn:E2; [|discriminate]. exists v. split; [left; reflexivity|assumption].
Qed.
Lemma label_with_map (c' : iv -> Q -> bool) f : forall ivs labs t, Forall (fun v => c' (f v) t = c v t) ivs ->
  label_with c' (map f ivs) labs t = label_with c ivs labs t.
Proof.
  induction ivs as [|v ivs IH]; intros labs t H; [reflexivity|].
  destruct labs as [|l labs]; [reflexivity|]. inversion H; subst. cbn. rewrite IH by assumption.
  rewrite H2. reflexivity.
Qed.
Lemma label_with_app : forall i1 l1 i2 l2 t, length i1 = length l1 ->
  label_with c (i1 ++ i2) (l1 ++ l2) t =
  match label_with c i2 l2 t with Some x => Some x | None => label_with c i1 l1 t end.
Proof.
  induction i1 as [|v i1 IH]; intros l1 i2 l2 t H; destruct l1 as [|l l1]; try discriminate; cbn.
  - destruct (label_with c i2 l2 t); reflexivity.
  - rewrite IH by (cbn in H; lia). destruct (label_with c i2 l2 t); reflexivity.
Qed.
Lemma label_with_skipn : forall ivs k labs t, Forall (fun v => c v t = false) (firstn k ivs) ->
  label_with c (skipn k ivs) (skipn k labs) t = label_with c ivs labs t.
Proof.
  induction ivs as [|v ivs IH]; intros k labs t H.
  - rewrite skipn_nil. reflexivity.
  - destruct k as [|k]; [reflexivity|]. cbn in H. inversion H; subst.
    destruct labs as [|l labs].
    + cbn. destruct (skipn k ivs); reflexivity.
    + cbn. rewrite IH by assumption. destruct (label_with c ivs labs t); [reflexivity|]. rewrite H2. reflexivity.
Qed.
Lemma label_with_firstn : forall ivs k labs t, Forall (fun v => c v t = false) (skipn k ivs) ->
  label_with c (firstn k ivs) (firstn k labs) t = label_with c ivs labs t.
Proof.
  induction ivs as [|v ivs IH]; intros k labs t H.
  - rewrite firstn_nil. reflexivity.
  - destruct k as [|k].
    + cbn [firstn]. rewrite (label_with_none (v :: ivs) labs t H). reflexivity.
    + destruct labs as [|l labs]; [reflexivity|]. cbn. cbn in H. rewrite IH by assumption. reflexivity.
Qed.
End LabelAt.

(* ---------------------------------------------------------------------------------------- *)
(* time-ordered interval lists                                                               *)
(* ---------------------------------------------------------------------------------------- *)
(* ordered: start <= end in every row and every row ends before all later rows start (sorted, non-overlapping);
   zero-duration rows allowed.  valid_ivs: additionally strictly positive durations = what validate_intervals plus
   "time-ordered" demand of an annotation. *)
Fixpoint ordered (l : list iv) : Prop :=
  match l with
  | [] => True
  | v :: r => fst v <= snd v /\ Forall (fun w => snd v <= fst w) r /\ ordered r
  end.
Definition valid_ivs (l : list iv) : Prop := ordered l /\ Forall (fun v => fst v < snd v) l.

(* the adjacent formulation is equivalent *)
Fixpoint chain (l : list iv) : Prop :=
  match l with
  | [] => True
  | v :: r => fst v <= snd v /\ match r with [] => True | w :: _ => snd v <= fst w end /\ chain r
  end.
Lemma ordered_chain l : ordered l <-> chain l.
Proof.
  induction l as [|v r IH]; [tauto|]. cbn [ordered chain]. rewrite IH. split.
  - intros [h1 [h2 h3]]. repeat split; auto. destruct r as [|w r]; auto. inversion h2; auto.
  - intros [h1 [h2 h3]]. repeat split; auto.
    clear IH. revert v h1 h2. induction r as [|w r IHr]; intros v h1 h2; constructor.
    + exact h2.
    + cbn in h3. destruct h3 as [g1 [g2 g3]].
      assert (hw : Forall (fun x => snd w <= fst x) r) by (apply (IHr g3 w g1 g2)).
      eapply Forall_impl; [|exact hw]. cbn. intros x hx. lra.
Qed.

Lemma ordered_le_all v r : ordered (v :: r) -> Forall (fun w => fst v <= fst w /\ fst v <= snd w /\ snd v <= fst w /\ snd v <= snd w) r.
Proof.
  cbn. intros [h1 [h2 h3]]. revert h2 h3. induction r as [|w r IH]; intros h2 h3; constructor.
  - inversion h2; subst. cbn in h3. destruct h3 as [g1 _]. repeat split; lra.
  - inversion h2; subst. cbn in h3. apply IH; tauto.
Qed.
Lemma ordered_in v l : ordered l -> In v l -> fst v <= snd v.
Proof.
  induction l as [|w r IH]; cbn; [tauto|]. intros [h1 [h2 h3]] [<-|hv]; auto.
Qed.
Lemma ordered_skipn : forall k l, ordered l -> ordered (skipn k l).
Proof.
  induction k as [|k IH]; intros l H; [exact H|]. destruct l as [|v r]; [exact I|]. cbn. apply IH. cbn in H. tauto.
Qed.
Lemma Forall_firstn {A} (P : A -> Prop) : forall k l, Forall P l -> Forall P (firstn k l).
Proof.
  induction k; intros l H; [constructor|]. destruct l; [constructor|]. inversion H; subst. cbn. constructor; auto.
Qed.
Lemma Forall_skipn {A} (P : A -> Prop) : forall k l, Forall P l -> Forall P (skipn k l).
Proof.
  induction k; intros l H; [exact H|]. destruct l; [constructor|]. inversion H; subst. cbn. auto.
Qed.
Lemma ordered_firstn : forall k l, ordered l -> ordered (firstn k l).
Proof.
  induction k as [|k IH]; intros l H; [exact I|]. destruct l as [|v r]; [exact I|]. cbn in *.
  destruct H as [h1 [h2 h3]]. repeat split; auto. apply Forall_firstn; assumption.
Qed.
Lemma ordered_map_mono (g : Q -> Q) : (forall a b, a <= b -> g a <= g b) ->
  forall l, ordered l -> ordered (map (fun v => (g (fst v), g (snd v))) l).
Proof.
  intros hg. induction l as [|v r IH]; [tauto|]. cbn. intros [h1 [h2 h3]]. repeat split; auto.
  rewrite Forall_map. eapply Forall_impl; [|exact h2]. cbn. auto.
Qed.
Lemma ordered_app_one l w : ordered l -> fst w <= snd w -> Forall (fun v => snd v <= fst w) l -> ordered (l ++ [w]).
Proof.
  induction l as [|v r IH]; cbn; intros H hw hall.
  - repeat split; auto.
  - destruct H as [h1 [h2 h3]]. inversion hall; subst. repeat split; auto.
    apply Forall_app. split; auto.
Qed.

(* min / max of the flattened rows of a non-empty ordered list: first start / last end *)
Lemma ordered_min v r m : ordered (v :: r) -> qmin_list (flat (v :: r)) = Some m -> m == fst v.
Proof.
  intros ho hm. destruct (qmin_list_spec _ _ hm) as [[y [hy e]] hall].
  assert (h1 : m <= fst v) by (apply hall; cbn; auto).
  assert (h2 : fst v <= y).
  { apply in_flat in hy. destruct hy as [w [[<-|hw] hx]].
    - cbn in ho. destruct hx as [->| ->]; lra.
    - pose proof (ordered_le_all _ _ ho) as ha. rewrite Forall_forall in ha. specialize (ha _ hw).
      destruct hx as [->| ->]; lra. }
  lra.
Qed.
Lemma ordered_last_ge : forall l v d, ordered l -> In v l -> fst v <= snd (last l d) /\ snd v <= snd (last l d).
Proof.
  induction l as [|w r IH]; intros v d ho hv; [destruct hv|].
  destruct r as [|w2 r2].
  - cbn. destruct hv as [<-|[]]. cbn in ho. lra.
  - change (last (w :: w2 :: r2) d) with (last (w2 :: r2) d).
    destruct hv as [<-|hv].
    + pose proof (ordered_le_all _ _ ho) as ha. rewrite Forall_forall in ha.
      assert (hin : In (last (w2 :: r2) d) (w2 :: r2)) by (apply exists_last_in || (destruct (@exists_last _ (w2 :: r2)) as [l' [a e]]; [discriminate|]; rewrite e, last_last; apply in_or_app; right; left; reflexivity)).
      specialize (ha _ hin). lra.
    + apply IH; auto. cbn in ho |- *. tauto.
Qed.
Lemma ordered_max l d m : ordered l -> l <> [] -> qmax_list (flat l) = Some m -> m == snd (last l d).
Proof.
  intros ho hne hm. destruct (qmax_list_spec _ _ hm) as [[y [hy e]] hall].
  assert (hin : In (last l d) l).
  { destruct (@exists_last _ l hne) as [l' [a ea]]. rewrite ea, last_last. apply in_or_app. right. left. reflexivity. }
  assert (h1 : snd (last l d) <= m) by (apply hall; apply in_flat; exists (last l d); auto).
  apply in_flat in hy. destruct hy as [w [hw hx]].
  destruct (ordered_last_ge l w d ho hw) as [g1 g2].
  destruct hx as [->| ->]; lra.
Qed.
