(* Soundness of chord.encode (model in Model/ChordParse.v): the sentinels for N / X, the range and
   bitmap invariant for every other encodable label, the invariant enc_ok assumed by the comparison
   rule theorems (C11), and the strict_bass_intervals property. Facts about the generated tables
   are obtained by computation over the tables only. *)
From Coq Require Import List Bool Arith ZArith Lia.
From ME Require Import Model.Prelude Model.Regex Model.ChordParse Model.ChordCmp Gen.ChordTables.
Import ListNotations.
Open Scope Z_scope.

(* ---------- strings ---------- *)
Lemma seqb_eq : forall a b : str, seqb a b = true -> a = b.
Proof.
  induction a as [|x a IH]; destruct b as [|y b]; cbn [seqb]; intro H; try discriminate; auto.
  apply andb_true_iff in H. destruct H as [H1 H2]. apply Nat.eqb_eq in H1. f_equal; auto.
Qed.

(* ---------- facts read off the generated tables by computation ---------- *)
Lemma N_refl : seqb NO_CHORD NO_CHORD = true. Proof. vm_compute; reflexivity. Qed.
Lemma X_refl : seqb X_CHORD X_CHORD = true. Proof. vm_compute; reflexivity. Qed.
Lemma X_not_N : seqb X_CHORD NO_CHORD = false. Proof. vm_compute; reflexivity. Qed.
Lemma bitmap_length_12 : BITMAP_LENGTH = 12%nat. Proof. vm_compute; reflexivity. Qed.
Lemma qualities_len : forallb (fun row => Nat.eqb (length (snd row)) 12) QUALITIES = true.
Proof. vm_compute; reflexivity. Qed.

Lemma lookup_forallb {A} (P : A -> bool) (k : str) (l : list (str * A)) (v : A) :
  forallb (fun row => P (snd row)) l = true -> lookup k l = Some v -> P v = true.
Proof.
  induction l as [|[k' a] l IH]; cbn [lookup forallb]; intros Hf Hl; try discriminate.
  apply andb_true_iff in Hf. destruct Hf as [Hf1 Hf2]. destruct (seqb k k').
  - inversion Hl; subst. exact Hf1.
  - auto.
Qed.

Lemma quality_len q v : quality_to_bitmap q = Ok v -> length v = 12%nat.
Proof.
  unfold quality_to_bitmap. destruct (lookup q QUALITIES) as [w|] eqn:Hl; intro H; inversion H; subst.
  apply Nat.eqb_eq. exact (lookup_forallb (fun w => Nat.eqb (length w) 12) q QUALITIES v qualities_len Hl).
Qed.

(* ---------- list helpers ---------- *)
Lemma setnth_length : forall l i v, length (setnth l i v) = length l.
Proof. induction l as [|x l IH]; destruct i; intro v; cbn [setnth length]; auto. Qed.

Lemma setnth_Forall (P : Z -> Prop) : forall l i v, P v -> Forall P l -> Forall P (setnth l i v).
Proof.
  induction l as [|x l IH]; destruct i; intros v Hv Hl; cbn [setnth]; auto;
    inversion Hl; subst; constructor; auto.
Qed.

Lemma setnth_nth : forall l i v d, (i < length l)%nat -> nth i (setnth l i v) d = v.
Proof.
  induction l as [|x l IH]; destruct i; intros v d Hi; cbn [length] in Hi; cbn [setnth nth]; try lia; auto.
  apply IH. lia.
Qed.

Lemma vadd_length : forall a b n, length a = n -> length b = n -> length (vadd a b) = n.
Proof.
  induction a as [|x a IH]; destruct b as [|y b]; intros n Ha Hb; cbn [vadd length] in *; try congruence.
  destruct n as [|n]; try discriminate. f_equal. apply IH; congruence.
Qed.

Lemma zeros_length : length zeros = 12%nat.
Proof. unfold zeros. rewrite repeat_length. exact bitmap_length_12. Qed.

Lemma map01_Forall : forall l, Forall (fun x => x = 0 \/ x = 1) (map (fun x => if 0 <? x then 1 else 0) l).
Proof. induction l as [|x l IH]; cbn [map]; constructor; auto. destruct (0 <? x); auto. Qed.

(* ---------- the stages of encode ---------- *)
Lemma Ok_inj {A} (a b : A) : Ok a = Ok b -> a = b.
Proof. intro H. congruence. Qed.

Lemma pcs_range s v : pitch_class_to_semitone s = Ok v -> 0 <= v < 12.
Proof.
  unfold pitch_class_to_semitone.
  destruct (fst (fold_left _ s _)) as [[w|]|e]; intro H; inversion H.
  apply Z.mod_pos_bound. lia.
Qed.

Lemma sdb_length d m e : scale_degree_to_bitmap d m = Ok e -> length e = 12%nat.
Proof.
  unfold scale_degree_to_bitmap.
  destruct (starts c_star d);
    match goal with |- context [scale_degree_to_semitone ?x] => destruct (scale_degree_to_semitone x) as [v|ex] end;
    cbn [bind]; intro H; try discriminate H;
    apply Ok_inj in H; rewrite <- H; clear H;
    match goal with |- context [if ?c then _ else _] => destruct c end;
    rewrite ?setnth_length; apply zeros_length.
Qed.

Definition degstep (reduce : bool) (acc : res (list Z)) (d : str) : res (list Z) :=
  a <- acc ;; e <- scale_degree_to_bitmap d reduce ;; Ok (vadd a e).

Lemma fold_len reduce : forall degs acc bm,
  fold_left (degstep reduce) degs acc = Ok bm ->
  (forall a, acc = Ok a -> length a = 12%nat) -> length bm = 12%nat.
Proof.
  induction degs as [|d degs IH]; intros acc bm Hf Ha; cbn [fold_left] in Hf.
  - auto.
  - apply (IH _ _ Hf). intros a' Hs. unfold degstep in Hs.
    destruct acc as [a|ex]; cbn [bind] in Hs; try discriminate.
    destruct (scale_degree_to_bitmap d reduce) as [e|ex] eqn:He; cbn [bind] in Hs; try discriminate.
    inversion Hs; subst. apply vadd_length; [apply Ha; reflexivity | exact (sdb_length _ _ _ He)].
Qed.

(* ---------- main theorems ---------- *)
Theorem encode_N : forall r b, encode NO_CHORD r b = Ok Nenc.
Proof. intros r b. unfold encode. rewrite N_refl. reflexivity. Qed.

Theorem encode_X : forall r b, encode X_CHORD r b = Ok Xenc.
Proof. intros r b. unfold encode. rewrite X_not_N, X_refl. reflexivity. Qed.

Theorem sentinels : Nenc = (-1, [0;0;0;0;0;0;0;0;0;0;0;0], -1) /\ Xenc = (-1, [-1;-1;-1;-1;-1;-1;-1;-1;-1;-1;-1;-1], -1).
Proof. split; vm_compute; reflexivity. Qed.

Theorem encode_sound : forall s r b root bm bass,
  encode s r b = Ok (root, bm, bass) -> seqb s NO_CHORD = false -> seqb s X_CHORD = false ->
  0 <= root < 12 /\ 0 <= bass < 12 /\ length bm = 12%nat /\ Forall (fun x => x = 0 \/ x = 1) bm /\ nth (Z.to_nat bass) bm 0 = 1.
Proof.
  intros s r b root0 bm0 bass0 H HN HX. unfold encode in H. rewrite HN, HX in H.
  destruct (split s r) as [[[[rt q] ds] bs]|ex] eqn:Hs; cbn [bind] in H; try discriminate.
  destruct (pitch_class_to_semitone rt) as [rootv|ex] eqn:Hr; cbn [bind] in H; try discriminate.
  destruct (scale_degree_to_semitone bs) as [bv|ex] eqn:Hb; cbn [bind] in H; try discriminate.
  destruct (quality_to_bitmap q) as [qb|ex] eqn:Hq; cbn [bind] in H; try discriminate.
  change (fold_left _ ds (Ok (setnth qb 0%nat 1))) with (fold_left (degstep r) ds (Ok (setnth qb 0%nat 1))) in H.
  destruct (fold_left (degstep r) ds (Ok (setnth qb 0%nat 1))) as [fb|ex] eqn:Hf; cbn [bind] in H; try discriminate.
  assert (Hlen : length fb = 12%nat).
  { apply (fold_len _ _ _ _ Hf). intros a Ha. inversion Ha; subst. rewrite setnth_length. exact (quality_len _ _ Hq). }
  match type of H with (if ?c then _ else _) = _ => destruct c end; try discriminate.
  inversion H; subst. clear H.
  assert (Hbass : 0 <= bv mod 12 < 12) by (apply Z.mod_pos_bound; lia).
  split; [exact (pcs_range _ _ Hr)|]. split; [exact Hbass|].
  split; [rewrite setnth_length, map_length; exact Hlen|].
  split; [apply setnth_Forall; [right; reflexivity | apply map01_Forall]|].
  apply setnth_nth. rewrite map_length, Hlen. lia.
Qed.

Theorem encode_enc_ok : forall s r b e, encode s r b = Ok e -> enc_ok (of_enc e).
Proof.
  intros s r b e H.
  destruct (seqb s NO_CHORD) eqn:HN.
  { apply seqb_eq in HN. subst s. rewrite encode_N in H. inversion H; subst.
    left. split; [reflexivity|]. split; [reflexivity|]. left. vm_compute. reflexivity. }
  destruct (seqb s X_CHORD) eqn:HX.
  { apply seqb_eq in HX. subst s. rewrite encode_X in H. inversion H; subst.
    left. split; [reflexivity|]. split; [reflexivity|]. right. vm_compute. reflexivity. }
  destruct e as [[root0 bm0] bass0].
  destruct (encode_sound _ _ _ _ _ _ H HN HX) as [H1 [H2 [H3 [H4 H5]]]].
  right. cbn [of_enc ChordCmp.root ChordCmp.bm ChordCmp.bass]. unfold bits, nthz. auto.
Qed.

Theorem encode_strict_bass : forall s r e, encode s r true = Ok e -> encode s r false = Ok e.
Proof.
  intros s r e. unfold encode.
  destruct (seqb s NO_CHORD); [auto|]. destruct (seqb s X_CHORD); [auto|].
  destruct (split s r) as [[[[rt q] ds] bs]|ex]; cbn [bind]; [|auto].
  destruct (pitch_class_to_semitone rt) as [rootv|ex]; cbn [bind]; [|auto].
  destruct (scale_degree_to_semitone bs) as [bv|ex]; cbn [bind]; [|auto].
  destruct (quality_to_bitmap q) as [qb|ex]; cbn [bind]; [|auto].
  destruct (fold_left _ ds (Ok (setnth qb 0%nat 1))) as [fb|ex]; cbn [bind]; [|auto].
  rewrite andb_false_r, andb_true_r.
  match goal with |- (if ?c then _ else _) = _ -> _ => destruct c end; [discriminate|auto].
Qed.

Print Assumptions encode_sound.
Print Assumptions encode_enc_ok.
Print Assumptions encode_strict_bass.
