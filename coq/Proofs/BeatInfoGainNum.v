(* Numeric tie between the R-valued last step of beat.information_gain (Model/BeatEntropy.v: hist_entropy, info_gain_val,
   information_gain_R) and the floats returned by mir_eval.beat._get_entropy / information_gain, certified INSIDE Coq case by
   case, with the method of Proofs/SegmentEntropyNum.v:

     N ln 2 * hist_entropy counts = sum_c (c ln N - c ln c)               an integer combination of logarithms  (q_ent)
     score = (Nm ln K - q_m) / (Nm ln K)        for the larger of the two entropies (q_m, Nm), K = bins

   so every quantity is a prime-logarithm normal form: the spike (entropy exactly 0, score exactly 1), the uniform histogram
   (score exactly 0) and equal forward/backward entropies are recognised exactly, everything else is a tiny closed
   expression closed by `interval`.  Which entropy is the larger one is a side condition (tried both ways by the tactic).
   The nan cases (empty histogram: every error non-finite; bins = 1) and the early return 0.0 are matched exactly.
   Uses Reals + Interval. *)
From Coq Require Import List Arith Lia Reals Lra Bool ZArith PArith QArith.
From ME Require Import Model.Prelude Model.Beat Model.BeatEntropy Proofs.SegmentEntropy Proofs.SegmentEntropyBounds
  Proofs.BeatInfoGainEntropy Proofs.SegmentEntropyNum.
From Interval Require Import Tactic.
Import ListNotations.
Local Open Scope R_scope.

(* ================================================================================================== *)
(* 1. N ln 2 * H                                                                                        *)
(* ================================================================================================== *)
Lemma evl_flat_map (f : nat -> lnf) l : evl (flat_map f l) = lsumR (map (fun c => evl (f c)) l).
Proof. induction l as [|c l IH]; cbn [flat_map map lsumR evl]; [reflexivity|]. rewrite evl_app, IH. reflexivity. Qed.

Definition q_ent (counts : list nat) : lnf :=
  let N := hist_total counts in flat_map (fun c => tm (Z.of_nat c) N ++ tm (- Z.of_nat c) c) counts.
Lemma ent_q counts : (0 < hist_total counts)%nat ->
  hist_entropy counts = evl (q_ent counts) / (INR (hist_total counts) * ln 2).
Proof. intros HN. unfold hist_entropy, q_ent. cbv zeta. set (N := hist_total counts) in *.
  assert (PN : 0 < INR N) by (apply lt_0_INR; exact HN). assert (L2 := ln2_pos).
  rewrite evl_flat_map.
  rewrite (lsumR_map_ext (fun c => bin_prob N c * log2R (bin_prob N c)) (fun c => evl (tm (Z.of_nat c) N ++ tm (- Z.of_nat c) c) * (- / (INR N * ln 2))) counts).
  - rewrite lsumR_map_scal. unfold Rdiv. ring.
  - intros c _. rewrite (bin_prob_eq N c HN). rewrite evl_app, !evl_tm, opp_IZR, <- INR_IZR_INZ.
    destruct (Nat.eqb_spec c 0) as [->|Hc].
    + rewrite log2R_1. cbn [INR]. ring.
    + assert (Pc : 0 < INR c) by (apply lt_0_INR; lia). unfold log2R. rewrite (ln_div' _ _ Pc PN). field. split; lra. Qed.

(* the entropy as a closed expression *)
Definition ln2_e : rexp := EL [(1%Z, 2%positive)].
Lemma ev_ln2_e : ev ln2_e = ln 2.
Proof. cbn [ev ln2_e evl fst snd]. lra. Qed.
Definition ent_e (counts : list nat) : rexp :=
  let l := lexp (q_ent counts) in if is0 l then EZ 0 else EDiv l (EMul (EZ (Z.of_nat (hist_total counts))) ln2_e).
Theorem ent_e_ok counts : (0 < hist_total counts)%nat -> hist_entropy counts = ev (ent_e counts).
Proof. intros HN. rewrite (ent_q counts HN). unfold ent_e. cbv zeta. destruct (is0 (lexp (q_ent counts))) eqn:E.
  - apply is0_ev in E. rewrite ev_lexp in E. rewrite E. cbn [ev]. unfold Rdiv. ring.
  - cbn [ev]. rewrite ev_lexp, ev_ln2_e, <- INR_IZR_INZ. reflexivity. Qed.

(* ================================================================================================== *)
(* 2. the score                                                                                         *)
(* ================================================================================================== *)
(* (log2 K - q / (N ln 2)) / log2 K  =  (N ln K - q) / (N ln K) *)
Definition score_e (K : nat) (q : lnf) (N : nat) : rexp :=
  let d := tm (Z.of_nat N) K in
  let nu := lexp (d ++ scale (-1) q) in if is0 nu then EZ 0 else EDiv nu (lexp d).
Lemma score_e_ok K q N : (2 <= K)%nat -> (0 < N)%nat ->
  (log2R (INR K) - evl q / (INR N * ln 2)) / log2R (INR K) = ev (score_e K q N).
Proof. intros HK HN. assert (PN : 0 < INR N) by (apply lt_0_INR; exact HN). assert (L2 := ln2_pos).
  assert (LK : 0 < ln (INR K)) by (rewrite <- ln_1; apply ln_increasing; [lra|]; change 1 with (INR 1); apply lt_INR; lia).
  unfold score_e. cbv zeta.
  assert (En : ev (lexp (tm (Z.of_nat N) K ++ scale (-1) q)) = INR N * ln (INR K) - evl q).
  { rewrite ev_lexp, evl_app, evl_scale, evl_tm, <- INR_IZR_INZ. replace (IZR (-1)) with (-1) by reflexivity. ring. }
  assert (Eq : (log2R (INR K) - evl q / (INR N * ln 2)) / log2R (INR K) = (INR N * ln (INR K) - evl q) / (INR N * ln (INR K))).
  { unfold log2R. field. repeat split; lra. }
  rewrite Eq. destruct (is0 (lexp (tm (Z.of_nat N) K ++ scale (-1) q))) eqn:E.
  - apply is0_ev in E. rewrite En in E. rewrite E. cbn [ev]. unfold Rdiv. ring.
  - cbn [ev]. rewrite En, ev_lexp, evl_tm, <- INR_IZR_INZ. reflexivity. Qed.

(* g = true: the forward entropy is the larger one (or they are equal) *)
Definition hdiff (f b : list nat) (g : bool) : lnf :=
  let Nf := Z.of_nat (hist_total f) in let Nb := Z.of_nat (hist_total b) in
  if g then scale Nb (q_ent f) ++ scale (- Nf) (q_ent b) else scale Nf (q_ent b) ++ scale (- Nb) (q_ent f).
Definition ig_side (f b : list nat) (g : bool) : list (rexp * rexp) :=
  let d := lexp (hdiff f b g) in if is0 d then [] else [(EZ 0, d)].
Definition ig_e (K : nat) (f b : list nat) (g : bool) : rexp :=
  if g then score_e K (q_ent f) (hist_total f) else score_e K (q_ent b) (hist_total b).
Lemma Rmax_pick f b g : (0 < hist_total f)%nat -> (0 < hist_total b)%nat -> sides (ig_side f b g) ->
  Rmax (hist_entropy f) (hist_entropy b) = if g then hist_entropy f else hist_entropy b.
Proof. intros Hf Hb HS. rewrite (ent_q f Hf), (ent_q b Hb).
  assert (Pf : 0 < INR (hist_total f)) by (apply lt_0_INR; exact Hf). assert (Pb : 0 < INR (hist_total b)) by (apply lt_0_INR; exact Hb).
  assert (L2 := ln2_pos). set (Nf := INR (hist_total f)) in *. set (Nb := INR (hist_total b)) in *.
  set (qf := evl (q_ent f)) in *. set (qb := evl (q_ent b)) in *.
  assert (Ed : ev (lexp (hdiff f b g)) = if g then Nb * qf - Nf * qb else Nf * qb - Nb * qf).
  { rewrite ev_lexp. unfold hdiff. cbv zeta. destruct g; rewrite evl_app, !evl_scale, opp_IZR, <- !INR_IZR_INZ; fold Nf Nb qf qb; ring. }
  assert (Cmp : forall x y, (x / (Nf * ln 2) <= y / (Nb * ln 2)) <-> (Nb * x <= Nf * y)).
  { intros x y. assert (Pd1 : 0 < Nf * ln 2) by (apply Rmult_lt_0_compat; assumption). assert (Pd2 : 0 < Nb * ln 2) by (apply Rmult_lt_0_compat; assumption).
    assert (E1 : x / (Nf * ln 2) - y / (Nb * ln 2) = (Nb * x - Nf * y) / (Nf * Nb * ln 2)) by (field; repeat split; lra).
    assert (Pd3 : 0 < Nf * Nb * ln 2) by (repeat apply Rmult_lt_0_compat; assumption). assert (Pi : 0 < / (Nf * Nb * ln 2)) by (apply Rinv_0_lt_compat; exact Pd3).
    split; intros H.
    - assert (H1 : (Nb * x - Nf * y) / (Nf * Nb * ln 2) <= 0) by lra. unfold Rdiv in H1. nra.
    - assert (H1 : (Nb * x - Nf * y) / (Nf * Nb * ln 2) <= 0) by (unfold Rdiv; nra). lra. }
  unfold ig_side in HS. cbv zeta in HS. destruct (is0 (lexp (hdiff f b g))) eqn:Ez.
  - apply is0_ev in Ez. rewrite Ed in Ez. assert (Eqv : qf / (Nf * ln 2) = qb / (Nb * ln 2)).
    { apply Rle_antisym; [apply Cmp|]; destruct g; try lra.
      - assert (H : qb / (Nb * ln 2) - qf / (Nf * ln 2) = (Nf * qb - Nb * qf) / (Nf * Nb * ln 2)) by (field; repeat split; lra).
        assert (H0 : Nf * qb - Nb * qf = 0) by lra. rewrite H0 in H. unfold Rdiv in H. lra.
      - assert (H : qb / (Nb * ln 2) - qf / (Nf * ln 2) = (Nf * qb - Nb * qf) / (Nf * Nb * ln 2)) by (field; repeat split; lra).
        rewrite Ez in H. unfold Rdiv in H. lra. }
    rewrite Eqv. destruct g; apply Rmax_left; lra.
  - cbn [sides fst snd ev] in HS. destruct HS as [HS _]. rewrite Ed in HS. destruct g.
    + apply Rmax_left.
      assert (E1 : qf / (Nf * ln 2) - qb / (Nb * ln 2) = (Nb * qf - Nf * qb) / (Nf * Nb * ln 2)) by (field; repeat split; lra).
      assert (Pd3 : 0 < Nf * Nb * ln 2) by (repeat apply Rmult_lt_0_compat; assumption). assert (Pi : 0 < / (Nf * Nb * ln 2)) by (apply Rinv_0_lt_compat; exact Pd3).
      assert (0 <= (Nb * qf - Nf * qb) / (Nf * Nb * ln 2)) by (unfold Rdiv; nra). lra.
    + apply Rmax_right. apply Cmp. lra. Qed.

Theorem ig_e_ok K f b g : (2 <= K)%nat -> (0 < hist_total f)%nat -> (0 < hist_total b)%nat -> sides (ig_side f b g) ->
  info_gain_R K (hist_entropy f) (hist_entropy b) = ev (ig_e K f b g).
Proof. intros HK Hf Hb HS. unfold info_gain_R. rewrite (Rmax_pick f b g Hf Hb HS). unfold ig_e. destruct g.
  - rewrite (ent_q f Hf). apply score_e_ok; assumption.
  - rewrite (ent_q b Hb). apply score_e_ok; assumption. Qed.

(* ================================================================================================== *)
(* 3. statements about one sampled call                                                                  *)
(* ================================================================================================== *)
(* _get_entropy(ref, est, bins): its histogram is `counts` and its value is within tol of the entropy / is nan *)
Definition st_ent (ref est : list Q) (bins : nat) (counts : list nat) (tol v : R) : Prop :=
  entropy_counts ref est bins = Ok counts /\ exists h, entropy_val counts = IGfin h /\ close tol h v.
Definition st_ent_nan (ref est : list Q) (bins : nat) (counts : list nat) : Prop :=
  entropy_counts ref est bins = Ok counts /\ entropy_val counts = IGnan.
(* information_gain(ref, est, bins) *)
Definition st_counts (ref est : list Q) (bins : nat) (out : res (option (list nat * list nat))) : Prop :=
  information_gain_counts ref est bins = out.
Definition st_ig (ref est : list Q) (bins : nat) (tol v : R) : Prop :=
  exists r, information_gain_R ref est bins = Ok (IGfin r) /\ close tol r v.
Definition st_ig_nan (ref est : list Q) (bins : nat) : Prop := information_gain_R ref est bins = Ok IGnan.
Definition st_ig_exc (ref est : list Q) (bins : nat) (e : exn) : Prop := information_gain_R ref est bins = Raise e.

Lemma ent_close ref est bins counts e tol v : entropy_counts ref est bins = Ok counts -> (0 <? hist_total counts)%nat = true ->
  ent_e counts = e -> close tol (ev e) v -> st_ent ref est bins counts tol v.
Proof. intros HC HN <- H. apply Nat.ltb_lt in HN. split; [exact HC|]. exists (hist_entropy counts). split.
  - unfold entropy_val. destruct (Nat.eqb_spec (hist_total counts) 0) as [E|_]; [lia|reflexivity].
  - rewrite (ent_e_ok counts HN). exact H. Qed.
Lemma ent_nan_close ref est bins counts : entropy_counts ref est bins = Ok counts -> hist_total counts = 0%nat -> st_ent_nan ref est bins counts.
Proof. intros HC HN. split; [exact HC|]. unfold entropy_val. rewrite HN. reflexivity. Qed.

Definition ig_goal (K : nat) (f b : list nat) (tol v : R) : Prop := exists g, sides (ig_side f b g) /\ close tol (ev (ig_e K f b g)) v.
Lemma ig_goal_intro g K f b s e tol v : ig_side f b g = s -> sides s -> ig_e K f b g = e -> close tol (ev e) v -> ig_goal K f b tol v.
Proof. intros <- HS <- H. exists g. split; assumption. Qed.
(* both histograms non-empty, bins >= 2 *)
Lemma ig_close_both ref est K f b tol v : information_gain_counts ref est K = Ok (Some (f, b)) ->
  ((2 <=? K)%nat && (0 <? hist_total f)%nat && (0 <? hist_total b)%nat)%bool = true -> ig_goal K f b tol v -> st_ig ref est K tol v.
Proof. intros HC HB (g & HS & H). apply andb_true_iff in HB. destruct HB as [HB Hb]. apply andb_true_iff in HB. destruct HB as [HK Hf].
  apply Nat.leb_le in HK. apply Nat.ltb_lt in Hf. apply Nat.ltb_lt in Hb.
  exists (info_gain_R K (hist_entropy f) (hist_entropy b)). split.
  - unfold information_gain_R. rewrite HC. cbn [bind]. unfold info_gain_val, entropy_val.
    destruct (Nat.eqb_spec (hist_total b) 0) as [E|_]; [lia|]. destruct (Nat.leb_spec K 1) as [E|_]; [lia|].
    destruct (Nat.eqb_spec (hist_total f) 0) as [E|_]; [lia|]. rewrite info_gain_select_eq. reflexivity.
  - rewrite (ig_e_ok K f b g) by assumption. exact H. Qed.
(* the forward histogram is empty (nan entropy, ignored by the comparison): the backward entropy is used *)
Lemma ig_close_bwd ref est K f b e tol v : information_gain_counts ref est K = Ok (Some (f, b)) ->
  ((2 <=? K)%nat && (hist_total f =? 0)%nat && (0 <? hist_total b)%nat)%bool = true ->
  score_e K (q_ent b) (hist_total b) = e -> close tol (ev e) v -> st_ig ref est K tol v.
Proof. intros HC HB <- H. apply andb_true_iff in HB. destruct HB as [HB Hb]. apply andb_true_iff in HB. destruct HB as [HK Hf].
  apply Nat.leb_le in HK. apply Nat.eqb_eq in Hf. apply Nat.ltb_lt in Hb.
  exists ((log2R (INR K) - hist_entropy b) / log2R (INR K)). split.
  - unfold information_gain_R. rewrite HC. cbn [bind]. unfold info_gain_val, entropy_val. rewrite Hf. cbn [Nat.eqb].
    destruct (Nat.eqb_spec (hist_total b) 0) as [E|_]; [lia|]. destruct (Nat.leb_spec K 1) as [E|_]; [lia|]. reflexivity.
  - rewrite (ent_q b Hb). rewrite (score_e_ok K (q_ent b) (hist_total b) HK Hb). exact H. Qed.
(* fewer than two beats on one side: 0.0 *)
Lemma ig_close_early ref est K tol v : information_gain_counts ref est K = Ok None -> close tol 0 v -> st_ig ref est K tol v.
Proof. intros HC H. exists 0. split; [|exact H]. unfold information_gain_R. rewrite HC. reflexivity. Qed.
Lemma ig_nan_close ref est K f b : information_gain_counts ref est K = Ok (Some (f, b)) ->
  ((hist_total b =? 0)%nat || (K <=? 1)%nat)%bool = true -> st_ig_nan ref est K.
Proof. intros HC HB. unfold st_ig_nan, information_gain_R. rewrite HC. cbn [bind]. unfold info_gain_val, entropy_val.
  destruct (hist_total b =? 0)%nat; [reflexivity|]. cbn [orb] in HB. rewrite HB. reflexivity. Qed.
Lemma ig_exc_close ref est K e : information_gain_counts ref est K = Raise e -> st_ig_exc ref est K e.
Proof. intros HC. unfold st_ig_exc, information_gain_R. rewrite HC. reflexivity. Qed.

Ltac ig_g g := eapply (ig_goal_intro g); [num_eq|num_sides|num_eq|num_final].
Ltac beat_num :=
  lazymatch goal with
  | |- st_counts _ _ _ _ => unfold st_counts; vm_compute; reflexivity
  | |- st_ent _ _ _ _ _ _ => eapply ent_close; [num_eq|num_eq|num_eq|num_final]
  | |- st_ent_nan _ _ _ _ => eapply ent_nan_close; [num_eq|num_eq]
  | |- st_ig _ _ _ _ _ =>
      first [ eapply ig_close_both; [num_eq|num_eq|first [ig_g true | ig_g false]]
            | eapply ig_close_bwd; [num_eq|num_eq|num_eq|num_final]
            | eapply ig_close_early; [num_eq|unfold close; num_interval] ]
  | |- st_ig_nan _ _ _ => eapply ig_nan_close; [num_eq|num_eq]
  | |- st_ig_exc _ _ _ _ => eapply ig_exc_close; num_eq
  end.

(* ================================================================================================== *)
(* 4. examples                                                                                          *)
(* ================================================================================================== *)
(* a sequence against itself: spike histograms, entropy exactly 0 (Python: -0.0), score exactly 1 *)
Example ex_self : let r := [5; 6; 7; 8]%Q in
  st_ent r r 8 [0; 0; 0; 0; 4; 0; 0; 0]%nat (1 / 10 ^ 9) 0 /\ st_ig r r 8 (1 / 10 ^ 9) 1.
Proof. cbv zeta. split; beat_num. Qed.
(* one bin: nan *)
Example ex_one_bin : st_ig_nan [5; 6; 7]%Q [5; 6; 7]%Q 1.
Proof. beat_num. Qed.
(* early return *)
Example ex_early : st_ig [5]%Q [5; 6]%Q 41 (1 / 10 ^ 9) 0.
Proof. beat_num. Qed.

Print Assumptions ent_e_ok.
Print Assumptions ig_e_ok.
Print Assumptions ig_close_both.
