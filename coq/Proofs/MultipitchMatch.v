(* Per-frame matching of Model.Multipitch: the hit lists are characterised by a relation on indices and the
   number of true positives is the size of a maximum matching of that relation (Proofs.MaxMatching.max_size).
   Self-contained on top of Proofs.HKCorrect / Proofs.MaxMatching (does not use Proofs.EventsSpec). *)
From Coq Require Import List Bool Arith ZArith QArith Qabs Qminmax Qround Lia Lqa Sorting.Sorted.
From ME Require Import Model.Prelude Model.Dict Model.Matching Model.Events Model.Multipitch.
From ME Require Import Proofs.HKRecurse Proofs.HKCorrect Proofs.MaxMatching.
Import ListNotations.

(* ------------------------------------------------------------------ lists *)
Lemma in_combine_seq_l {A} (l : list A) : forall s i x,
  In (i, x) (combine (seq s (length l)) l) <-> (s <= i)%nat /\ nth_error l (i - s) = Some x.
Proof.
  induction l as [|a t IH]; intros s i x; cbn [length seq combine].
  - split; [intros []|]. intros [_ H]. destruct (i - s)%nat; discriminate.
  - cbn [In]. rewrite IH. split.
    + intros [H|[H1 H2]].
      * injection H as <- <-. split; [lia|]. now rewrite Nat.sub_diag.
      * split; [lia|]. replace (i - s)%nat with (S (i - S s)) by lia. exact H2.
    + intros [H1 H2]. destruct (Nat.eq_dec i s) as [->|N].
      * left. rewrite Nat.sub_diag in H2. cbn in H2. congruence.
      * right. split; [lia|]. replace (i - s)%nat with (S (i - S s)) in H2 by lia. exact H2.
Qed.
Lemma in_combine_seq_r {A} (l : list A) : forall s i x,
  In (x, i) (combine l (seq s (length l))) <-> (s <= i)%nat /\ nth_error l (i - s) = Some x.
Proof.
  induction l as [|a t IH]; intros s i x; cbn [length seq combine].
  - split; [intros []|]. intros [_ H]. destruct (i - s)%nat; discriminate.
  - cbn [In]. rewrite IH. split.
    + intros [H|[H1 H2]].
      * injection H as <- <-. split; [lia|]. now rewrite Nat.sub_diag.
      * split; [lia|]. replace (i - s)%nat with (S (i - S s)) by lia. exact H2.
    + intros [H1 H2]. destruct (Nat.eq_dec i s) as [->|N].
      * left. rewrite Nat.sub_diag in H2. cbn in H2. congruence.
      * right. split; [lia|]. replace (i - s)%nat with (S (i - S s)) in H2 by lia. exact H2.
Qed.

Lemma take_while_map_length {A B} (f : A -> B) (p : B -> bool) (l : list A) :
  length (take_while p (map f l)) = length (take_while (fun x => p (f x)) l).
Proof. induction l as [|a t IH]; cbn [map take_while]; [reflexivity|]. destruct (p (f a)); cbn [length]; auto. Qed.
Lemma firstn_take_while {A} (q : A -> bool) (l : list A) : firstn (length (take_while q l)) l = take_while q l.
Proof. induction l as [|a t IH]; cbn [take_while]; [reflexivity|]. destruct (q a); cbn [length firstn]; [now rewrite IH|reflexivity]. Qed.

(* a slice [ #take_while p , #take_while q ) of a list on which p and q are downward closed *)
Definition dclosed {A} (p : A -> bool) (y z : A) := p z = true -> p y = true.
Lemma take_while_in {A} (q : A -> bool) (l : list A) :
  StronglySorted (dclosed q) l -> forall x, In x (take_while q l) <-> In x l /\ q x = true.
Proof.
  induction 1 as [|a t Hs IH Ha]; intros x; cbn [take_while]; [cbn; tauto|].
  destruct (q a) eqn:Ea; cbn [In].
  - rewrite IH. split; [intros [->|[H1 H2]]; auto|intros [[->|H1] H2]; auto].
  - split; [intros []|]. intros [[->|H1] H2]; [congruence|].
    rewrite Forall_forall in Ha. specialize (Ha x H1 H2). congruence.
Qed.
Lemma slice_spec {A} (p q : A -> bool) (l : list A) :
  StronglySorted (fun y z => dclosed p y z /\ dclosed q y z) l ->
  forall x, In x (firstn (length (take_while q l) - length (take_while p l)) (skipn (length (take_while p l)) l))
            <-> In x l /\ p x = false /\ q x = true.
Proof.
  induction 1 as [|a t Hs IH Ha]; intros x; [cbn; tauto|].
  assert (Hq : StronglySorted (dclosed q) (a :: t)).
  { constructor.
    - clear IH Ha. induction Hs as [|b u Hs' IH' Hb]; constructor; auto.
      rewrite Forall_forall in *. intros z Hz. now apply Hb.
    - rewrite Forall_forall in *. intros z Hz. now apply Ha. }
  rewrite Forall_forall in Ha.
  cbn [take_while]. destruct (p a) eqn:Pa.
  - destruct (q a) eqn:Qa.
    + cbn [length skipn]. rewrite Nat.sub_succ, IH. cbn [In].
      split; [intros (H1 & H2 & H3); auto|]. intros ([->|H1] & H2 & H3); [congruence|auto].
    + cbn [length]. cbn [Nat.sub firstn]. split; [intros []|]. intros ([->|H1] & H2 & H3); [congruence|].
      destruct (Ha x H1) as [_ Hc]. specialize (Hc H3). congruence.
  - cbn [length skipn]. rewrite Nat.sub_0_r.
    change (if q a then a :: take_while q t else []) with (take_while q (a :: t)).
    rewrite firstn_take_while, (take_while_in q _ Hq).
    split; [intros [H1 H2]|intros (H1 & H2 & H3); auto]. repeat split; auto.
    destruct H1 as [->|H1]; [exact Pa|]. destruct (p x) eqn:Px; [|reflexivity].
    destruct (Ha x H1) as [Hc _]. specialize (Hc Px). congruence.
Qed.

(* ------------------------------------------------------------------ the order on MIDI values with nan *)
Lemma qltb_true a b : qltb a b = true <-> a < b.
Proof. unfold qltb. rewrite negb_true_iff. split.
  - intros H. destruct (Qlt_le_dec a b) as [L|L]; [exact L|]. apply Qle_bool_iff in L. congruence.
  - intros H. destruct (Qle_bool b a) eqn:E; [|reflexivity]. apply Qle_bool_iff in E. lra. Qed.
Lemma qltb_false a b : qltb a b = false <-> b <= a.
Proof. unfold qltb. rewrite negb_false_iff. apply Qle_bool_iff. Qed.
Lemma xlt_some x y : xlt (Some x) (Some y) = true <-> x < y. Proof. apply qltb_true. Qed.
Lemma xle_some x y : xle (Some x) (Some y) = true <-> x <= y.
Proof. unfold xle. cbn [xlt]. rewrite negb_true_iff. apply qltb_false. Qed.
Lemma xlt_xle_trans a b c : xlt a b = true -> xle b c = true -> xlt a c = true.
Proof.
  destruct a as [x|], b as [y|], c as [z|]; try (cbn; congruence).
  rewrite !xlt_some, xle_some. lra.
Qed.
Lemma xle_xlt_trans a b c : xle a b = true -> xlt b c = true -> xlt a c = true.
Proof.
  destruct a as [x|], b as [y|], c as [z|]; try (cbn; congruence).
  rewrite !xlt_some, xle_some. lra.
Qed.
Lemma xle_trans a b c : xle a b = true -> xle b c = true -> xle a c = true.
Proof.
  destruct a as [x|], b as [y|], c as [z|]; try (cbn; congruence).
  rewrite !xle_some. lra.
Qed.
Lemma xlt_xle a b : xlt a b = true -> xle a b = true.
Proof.
  destruct a as [x|], b as [y|]; try (cbn; congruence).
  rewrite xlt_some, xle_some. lra.
Qed.

Definition key_le (a b : mv * nat) := xle (fst a) (fst b) = true.
Lemma ins_sorted_x_in x l z : In z (ins_sorted_x x l) <-> z = x \/ In z l.
Proof. induction l as [|y t IH]; cbn [ins_sorted_x]; [cbn; intuition|].
  destruct (xlt (fst x) (fst y)); cbn [In]; [intuition|]. rewrite IH. intuition. Qed.
Lemma ins_sorted_x_sorted x l : StronglySorted key_le l -> StronglySorted key_le (ins_sorted_x x l).
Proof.
  induction 1 as [|y t Hs IH Hy]; cbn [ins_sorted_x]; [repeat constructor|].
  destruct (xlt (fst x) (fst y)) eqn:E.
  - constructor; [constructor; auto|]. constructor; [now apply xlt_xle|].
    rewrite Forall_forall in *. intros z Hz. apply xlt_xle. eapply xlt_xle_trans; [exact E|]. now apply Hy.
  - constructor; [exact IH|]. rewrite Forall_forall in *. intros z Hz. apply ins_sorted_x_in in Hz.
    destruct Hz as [->|Hz]; [|now apply Hy]. unfold key_le, xle. now rewrite E.
Qed.
Lemma sort_fold_spec l : forall acc, StronglySorted key_le acc ->
  StronglySorted key_le (fold_left (fun acc x => ins_sorted_x x acc) l acc)
  /\ forall z, In z (fold_left (fun acc x => ins_sorted_x x acc) l acc) <-> In z acc \/ In z l.
Proof.
  induction l as [|x t IH]; intros acc Hs; cbn [fold_left]; [split; [exact Hs|cbn; tauto]|].
  destruct (IH _ (ins_sorted_x_sorted x acc Hs)) as [H1 H2]. split; [exact H1|].
  intros z. rewrite H2, ins_sorted_x_in. cbn [In]. intuition.
Qed.
Lemma sort_indexed_x_spec (l : list mv) :
  StronglySorted key_le (sort_indexed_x l) /\ forall x i, In (x, i) (sort_indexed_x l) <-> nth_error l i = Some x.
Proof.
  unfold sort_indexed_x. destruct (sort_fold_spec (combine l (seq 0 (length l))) [] (SSorted_nil _)) as [H1 H2].
  split; [exact H1|]. intros x i. rewrite H2, in_combine_seq_r, Nat.sub_0_r. cbn [In]. intuition lia.
Qed.

(* ------------------------------------------------------------------ the two hit relations *)
(* raw (util._fast_hit_windows): |r - e| <= w on numbers; nan "hits" nan (sort order), nothing else *)
Definition near_raw (w : Q) (r e : mv) : Prop :=
  match r, e with Some x, Some y => y - w <= x /\ x <= y + w | None, None => True | _, _ => False end.
(* with a distance function: never on nan *)
Definition near_dist (dist : Q -> Q -> Q) (w : Q) (r e : mv) : Prop :=
  match r, e with Some x, Some y => dist x y <= w | _, _ => False end.
(* E u v : estimate index u is compatible with reference index v *)
Definition Erel (near : mv -> mv -> Prop) (ref est : list mv) (u v : nat) : Prop :=
  exists r e, nth_error ref v = Some r /\ nth_error est u = Some e /\ near r e.

Lemma near_raw_bools w r e :
  xlt r (option_map (fun e => e - w) e) = false /\ xle r (option_map (fun e => e + w) e) = true <-> near_raw w r e.
Proof.
  destruct r as [x|], e as [y|]; cbn [option_map near_raw]; try (cbn; intuition congruence).
  rewrite xle_some. cbn [xlt]. rewrite qltb_false. tauto.
Qed.

Lemma fast_hit_windows_x_spec ref est w i j :
  In (i, j) (fast_hit_windows_x ref est w) <-> Erel (near_raw w) ref est j i.
Proof.
  unfold fast_hit_windows_x, Erel. destruct (sort_indexed_x_spec ref) as [Hs Hin].
  set (si := sort_indexed_x ref) in *. rewrite in_flat_map. split.
  - intros ([j' e] & Hje & H). apply in_combine_seq_l in Hje. rewrite Nat.sub_0_r in Hje. destruct Hje as [_ Hje].
    apply in_map_iff in H. destruct H as (r & [= <- <-] & H).
    unfold searchsorted_left_x, searchsorted_right_x in H. rewrite !take_while_map_length in H.
    rewrite skipn_map, firstn_map in H. apply in_map_iff in H. destruct H as ([x i'] & Hi & H). cbn [snd] in Hi. subst i'.
    apply slice_spec in H.
    + destruct H as (H1 & H2 & H3). cbn [fst] in H2, H3. exists x, e. split; [now apply Hin|]. split; [exact Hje|].
      apply near_raw_bools. auto.
    + clear - Hs. induction Hs as [|a t Hs IH Ha]; constructor; auto. rewrite Forall_forall in *. intros z Hz.
      specialize (Ha z Hz). unfold key_le in Ha. split; intros Hp.
      * eapply xle_xlt_trans; eauto.
      * eapply xle_trans; eauto.
  - intros (r & e & Hr & He & Hn). exists (j, e). split.
    + apply in_combine_seq_l. rewrite Nat.sub_0_r. split; [lia|exact He].
    + apply in_map_iff. exists i. split; [reflexivity|].
      unfold searchsorted_left_x, searchsorted_right_x. rewrite !take_while_map_length.
      rewrite skipn_map, firstn_map. apply in_map_iff. exists (r, i). split; [reflexivity|].
      apply slice_spec.
      * clear - Hs. induction Hs as [|a t Hs IH Ha]; constructor; auto. rewrite Forall_forall in *. intros z Hz.
        specialize (Ha z Hz). unfold key_le in Ha. split; intros Hp.
        -- eapply xle_xlt_trans; eauto.
        -- eapply xle_trans; eauto.
      * split; [now apply Hin|]. cbn [fst]. now apply near_raw_bools.
Qed.

Lemma hits_by_distance_x_spec dist ref est w i j :
  In (i, j) (hits_by_distance_x dist ref est w) <-> Erel (near_dist dist w) ref est j i.
Proof.
  unfold hits_by_distance_x, Erel. rewrite in_flat_map. split.
  - intros ([i' r] & Hir & H). apply in_combine_seq_l in Hir. rewrite Nat.sub_0_r in Hir. destruct Hir as [_ Hir].
    apply in_flat_map in H. destruct H as ([j' e] & Hje & H). apply in_combine_seq_l in Hje. rewrite Nat.sub_0_r in Hje.
    destruct Hje as [_ Hje]. destruct r as [x|], e as [y|]; try destruct H.
    destruct (qleb (dist x y) w) eqn:E; [|destruct H]. destruct H as [[= <- <-]|[]].
    exists (Some x), (Some y). repeat split; auto. cbn. now apply Qle_bool_iff.
  - intros (r & e & Hr & He & Hn). exists (i, r). split; [apply in_combine_seq_l; rewrite Nat.sub_0_r; split; [lia|auto]|].
    apply in_flat_map. exists (j, e). split; [apply in_combine_seq_l; rewrite Nat.sub_0_r; split; [lia|auto]|].
    destruct r as [x|], e as [y|]; cbn in Hn; try tauto. apply Qle_bool_iff in Hn. unfold qleb. rewrite Hn. now left.
Qed.

(* ------------------------------------------------------------------ graph construction and matching size *)
Definition bg_step (G : graph) (h : nat * nat) : graph :=
  let '(r, e) := h in match dget G e with Some l => dset G e (l ++ [r]) | None => dset G e [r] end.
Lemma build_graph_fold hits : forall G, NoDup (keys G) ->
  NoDup (keys (fold_left bg_step hits G)) /\
  forall u v, edge (fold_left bg_step hits G) u v <-> edge G u v \/ In (v, u) hits.
Proof.
  induction hits as [|[r e] t IH]; intros G HG; cbn [fold_left]; [split; [exact HG|cbn; tauto]|].
  assert (HG' : NoDup (keys (bg_step G (r, e)))).
  { cbn [bg_step]. destruct (dget G e); now apply NoDup_keys_dset. }
  destruct (IH _ HG') as [H1 H2]. split; [exact H1|]. intros u v. rewrite H2. cbn [In].
  assert (Hstep : edge (bg_step G (r, e)) u v <-> edge G u v \/ (r, e) = (v, u)).
  { unfold edge, nbrs. cbn [bg_step]. destruct (Nat.eq_dec u e) as [->|N].
    - destruct (dget G e) as [l|] eqn:Eg; rewrite dget_dset_same.
      + rewrite in_app_iff. cbn [In]. split; [intros [H|[H|[]]]; auto; right; congruence|].
        intros [H|H]; auto. right. left. congruence.
      + cbn [In]. split; [intros [H|[]]; right; congruence|]. intros [[]|H]. left. congruence.
    - destruct (dget G e) as [l|] eqn:Eg; rewrite dget_dset_other by auto.
      + split; [auto|]. intros [H|H]; [exact H|]. congruence.
      + split; [auto|]. intros [H|H]; [exact H|]. congruence. }
  rewrite Hstep. tauto.
Qed.
Lemma build_graph_spec hits : NoDup (keys (build_graph hits)) /\ forall u v, edge (build_graph hits) u v <-> In (v, u) hits.
Proof.
  assert (E : build_graph hits = fold_left bg_step hits []).
  { unfold build_graph. f_equal. }
  rewrite E. destruct (build_graph_fold hits [] (NoDup_nil _)) as [H1 H2]. split; [exact H1|].
  intros u v. rewrite H2. unfold edge, nbrs. cbn. tauto.
Qed.
Lemma ins_pair_length x l : length (ins_pair x l) = S (length l).
Proof. induction l as [|y t IH]; cbn [ins_pair]; [reflexivity|]. destruct (pair_ltb x y); cbn [length]; auto. Qed.
Lemma sort_pairs_length l : length (sort_pairs l) = length l.
Proof.
  unfold sort_pairs. assert (H : forall acc, length (fold_left (fun acc x => ins_pair x acc) l acc) = (length acc + length l)%nat).
  { induction l as [|x t IH]; intros acc; cbn [fold_left length]; [lia|]. rewrite IH, ins_pair_length. lia. }
  now rewrite H.
Qed.
Lemma max_size_ext (E E' : nat -> nat -> Prop) n : (forall u v, E u v <-> E' u v) -> max_size E n -> max_size E' n.
Proof. intros H. apply (max_size_iso E E' (fun a => a) (fun a => a) (fun a => a) (fun a => a)); auto. Qed.

Theorem match_hits_max_size hits l : match_hits hits = Some l -> max_size (fun u v => In (v, u) hits) (length l).
Proof.
  unfold match_hits. destruct (bipartite_match (build_graph hits)) as [m|] eqn:Em; [|discriminate].
  intros [= <-]. rewrite sort_pairs_length. destruct (build_graph_spec hits) as [Hnd He].
  eapply max_size_ext; [exact He|]. now apply hk_max_size.
Qed.

(* the relation whose maximum matching multipitch.compute_num_true_positives counts in one frame *)
Definition frame_rel (chroma : bool) (w : Q) (ref est : list mv) : nat -> nat -> Prop :=
  Erel (if chroma then near_dist (outer_distance_mod_n 12) w else near_raw w) ref est.
Theorem tp_frame_max_size chroma w ref est n : tp_frame chroma w ref est = Some n -> max_size (frame_rel chroma w ref est) n.
Proof.
  unfold tp_frame, frame_rel. destruct chroma.
  - destruct (match_hits _) as [l|] eqn:E; [|discriminate]. intros [= <-].
    eapply max_size_ext; [|exact (match_hits_max_size _ _ E)]. intros u v. apply hits_by_distance_x_spec.
  - destruct (match_hits _) as [l|] eqn:E; [|discriminate]. intros [= <-].
    eapply max_size_ext; [|exact (match_hits_max_size _ _ E)]. intros u v. apply fast_hit_windows_x_spec.
Qed.
(* the count does not depend on the order in which the hits are listed (np.argsort's treatment of ties) *)
Theorem match_hits_size_order_independent h1 h2 l1 l2 :
  (forall p, In p h1 <-> In p h2) -> match_hits h1 = Some l1 -> match_hits h2 = Some l2 -> length l1 = length l2.
Proof.
  intros H E1 E2. apply match_hits_max_size in E1, E2. eapply max_size_unique; [exact E1|].
  eapply max_size_ext; [|exact E2]. intros u v. cbn. symmetry. apply H.
Qed.
Lemma Erel_bounds near ref est u v : Erel near ref est u v -> (u < length est /\ v < length ref)%nat.
Proof. intros (r & e & Hr & He & _). split; apply nth_error_Some; congruence. Qed.

(* ------------------------------------------------------------------ circular distance *)
Lemma qmod12_spec x : exists k : Z, qmod x 12 == x - 12 * inject_Z k /\ 0 <= qmod x 12 /\ qmod x 12 < 12.
Proof.
  exists (Qfloor (x / 12)). unfold qmod.
  pose proof (Qfloor_le (x / 12)) as H1. pose proof (Qlt_floor (x / 12)) as H2.
  rewrite inject_Z_plus in H2. change (inject_Z 1) with 1 in H2.
  assert (E : x == 12 * (x / 12)) by field.
  set (y := x / 12) in *. set (k := inject_Z (Qfloor y)) in *.
  split; [lra|]. split; lra.
Qed.
(* x and y are within w of each other up to a whole number of octaves *)
Definition circ_near (w x y : Q) : Prop := exists k : Z, Qabs (x - y + 12 * inject_Z k) <= w.
Lemma circ_near_shift w x y x' y' (i : Z) : x' - y' == x - y + 12 * inject_Z i -> (circ_near w x' y' <-> circ_near w x y).
Proof.
  intros E. split; intros [k H].
  - exists (k + i)%Z. rewrite inject_Z_plus.
    assert (E2 : x - y + 12 * (inject_Z k + inject_Z i) == x' - y' + 12 * inject_Z k) by lra. now rewrite E2.
  - exists (k - i)%Z. unfold Z.sub. rewrite inject_Z_plus, inject_Z_opp.
    assert (E2 : x' - y' + 12 * (inject_Z k + - inject_Z i) == x - y + 12 * inject_Z k) by lra. now rewrite E2.
Qed.
Lemma circ_near_sym w x y : circ_near w x y -> circ_near w y x.
Proof.
  intros [k H]. exists (- k)%Z. rewrite inject_Z_opp.
  assert (E : y - x + 12 * - inject_Z k == - (x - y + 12 * inject_Z k)) by lra. now rewrite E, Qabs_opp.
Qed.
Lemma circ_near_mono w1 w2 x y : w1 <= w2 -> circ_near w1 x y -> circ_near w2 x y.
Proof. intros Hw [k H]. exists k. lra. Qed.
Lemma abs_le_circ w x y : Qabs (x - y) <= w -> circ_near w x y.
Proof. intros H. exists 0%Z. assert (E : x - y + 12 * inject_Z 0 == x - y) by (change (inject_Z 0) with 0; lra). now rewrite E. Qed.

Lemma circ_base_le w a b : 0 <= a -> a < 12 -> 0 <= b -> b < 12 ->
  (Qmin (Qabs (a - b)) (12 - Qabs (a - b)) <= w <-> circ_near w a b).
Proof.
  intros A0 A1 B0 B1. split.
  - intros H. destruct (Q.min_spec (Qabs (a - b)) (12 - Qabs (a - b))) as [[L E]|[L E]]; rewrite E in H.
    + now apply abs_le_circ.
    + destruct (Qlt_le_dec (a - b) 0) as [N|N].
      * exists 1%Z. change (inject_Z 1) with 1. assert (E1 : Qabs (a - b) == - (a - b)) by (apply Qabs_neg; lra).
        assert (E2 : Qabs (a - b + 12 * 1) == a - b + 12 * 1) by (apply Qabs_pos; lra). lra.
      * exists (-1)%Z. change (inject_Z (-1)) with (-1). assert (E1 : Qabs (a - b) == a - b) by (apply Qabs_pos; lra).
        assert (E2 : Qabs (a - b + 12 * -1) == - (a - b + 12 * -1)) by (apply Qabs_neg; lra). lra.
  - intros [k H]. apply Q.min_le_iff.
    destruct (Z.eq_dec k 0) as [->|NZ].
    + left. assert (E : a - b + 12 * inject_Z 0 == a - b) by (change (inject_Z 0) with 0; lra). now rewrite E in H.
    + right. assert (D : Qabs (a - b) <= 12) by (apply Qabs_Qle_condition; lra).
      apply Qabs_Qle_condition in H. assert (Dl : - Qabs (a - b) <= a - b /\ a - b <= Qabs (a - b)).
      { destruct (Qlt_le_dec (a - b) 0) as [N|N].
        - assert (E1 : Qabs (a - b) == - (a - b)) by (apply Qabs_neg; lra). lra.
        - assert (E1 : Qabs (a - b) == a - b) by (apply Qabs_pos; lra). lra. }
      destruct (Z_le_gt_dec 1 k) as [G|G].
      * rewrite Zle_Qle in G. change (inject_Z 1) with 1 in G. set (K := inject_Z k) in *. lra.
      * assert (G' : (k <= -1)%Z) by lia. rewrite Zle_Qle in G'. change (inject_Z (-1)) with (-1) in G'.
        set (K := inject_Z k) in *. lra.
Qed.
Theorem outer_le_iff w x y : outer_distance_mod_n 12 x y <= w <-> circ_near w x y.
Proof.
  destruct (qmod12_spec x) as (p & Ea & A0 & A1). destruct (qmod12_spec y) as (q & Eb & B0 & B1).
  unfold outer_distance_mod_n. rewrite circ_base_le by assumption.
  apply (circ_near_shift w x y _ _ (q - p)%Z). unfold Z.sub. rewrite inject_Z_plus, inject_Z_opp. lra.
Qed.

Definition near_circ (w : Q) (r e : mv) : Prop := match r, e with Some x, Some y => circ_near w x y | _, _ => False end.
Lemma near_dist_circ w r e : near_dist (outer_distance_mod_n 12) w r e <-> near_circ w r e.
Proof. destruct r, e; cbn; try tauto. apply outer_le_iff. Qed.
Definition wrap12 (f : list mv) : list mv := map (option_map (fun x => qmod x 12)) f.
Lemma midi_to_chroma_wrap fs : midi_to_chroma fs = map wrap12 fs. Proof. reflexivity. Qed.
Lemma near_circ_wrap w r e : near_circ w (option_map (fun x => qmod x 12) r) (option_map (fun x => qmod x 12) e) <-> near_circ w r e.
Proof.
  destruct r as [x|], e as [y|]; cbn; try tauto.
  destruct (qmod12_spec x) as (p & Ea & _). destruct (qmod12_spec y) as (q & Eb & _).
  apply (circ_near_shift w x y _ _ (q - p)%Z). unfold Z.sub. rewrite inject_Z_plus, inject_Z_opp. lra.
Qed.
Lemma Erel_ext (n1 n2 : mv -> mv -> Prop) ref est u v : (forall r e, n1 r e <-> n2 r e) -> (Erel n1 ref est u v <-> Erel n2 ref est u v).
Proof. intros H. split; intros (r & e & A & B & C); exists r, e; repeat split; auto; now apply H. Qed.
Lemma Erel_wrap w ref est u v : Erel (near_circ w) (wrap12 ref) (wrap12 est) u v <-> Erel (near_circ w) ref est u v.
Proof.
  unfold Erel, wrap12, mv in *. split.
  - intros (r' & e' & A & B & C). rewrite nth_error_map in A, B.
    destruct (nth_error ref v) as [r|]; [|cbn in A; discriminate A]. destruct (nth_error est u) as [e|]; [|cbn in B; discriminate B].
    cbn [option_map] in A, B. injection A as <-. injection B as <-. exists r, e. repeat split; auto. now apply near_circ_wrap.
  - intros (r & e & A & B & C). exists (option_map (fun x => qmod x 12) r), (option_map (fun x => qmod x 12) e).
    rewrite !nth_error_map, A, B. repeat split; auto. now apply near_circ_wrap.
Qed.
(* the chroma count, whether or not the frames were wrapped to one octave beforehand (metrics wraps them) *)
Theorem tp_frame_chroma_max_size w ref est n :
  tp_frame true w ref est = Some n \/ tp_frame true w (wrap12 ref) (wrap12 est) = Some n -> max_size (Erel (near_circ w) ref est) n.
Proof.
  intros [H|H]; apply tp_frame_max_size in H; unfold frame_rel in H.
  - eapply max_size_ext; [|exact H]. intros u v. apply Erel_ext. intros r e. apply near_dist_circ.
  - eapply max_size_ext; [|exact H]. intros u v. rewrite <- Erel_wrap. apply Erel_ext. intros r e. apply near_dist_circ.
Qed.
Theorem tp_frame_raw_max_size w ref est n : tp_frame false w ref est = Some n -> max_size (Erel (near_raw w) ref est) n.
Proof. apply tp_frame_max_size. Qed.
