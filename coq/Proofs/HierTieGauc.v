(* The internals of mir_eval/hierarchy.py tied to the model by TRANSLATION, part 3: _gauc.
   [gauc_tie]: with _compare_frame_rankings = the model's cfr (tied in HierTieCfr.v), for all rectangular matrices of naturals, both
   modes and every window (None or a number of frames): ValueError exactly when the shapes differ, otherwise a float equal (Qeq: the
   program sums from the left, the model from the right) to Model.Hierarchy.gauc - window slice, removal of the query, skip rule,
   mean and the 0/0 -> 0.0 convention included. The loop over range(n): [gauc_loop_spec] / [gstep_fold]. *)
From Coq Require Import String.
From Coq Require Import List Bool Arith ZArith QArith Lia Lqa Permutation.
From ME Require Import Model.Prelude Model.Events Model.Hierarchy Model.HierExp Gen.HierGen.
From ME Require Import Proofs.HierarchyInv Proofs.HierarchyRank Proofs.HierTie Proofs.HierTieCfr.
Import ListNotations.
Local Open Scope nat_scope.

(* ================================================================= pure facts ================================= *)
(* the accumulation of the loop: (score, num_frames) *)
Definition gstep (acc : Q * nat) (p : nat * nat) : Q * nat :=
  if snd p =? 0 then acc else ((fst acc + gauc_term p)%Q, S (snd acc)).
Lemma gstep_fold terms : forall s k,
  snd (fold_left gstep terms (s, k)) = k + length (counted terms)
  /\ (fst (fold_left gstep terms (s, k)) == s + qsum (map gauc_term (counted terms)))%Q.
Proof.
  induction terms as [|p terms IH]; intros s k.
  - cbn. split; [lia|ring].
  - cbn [fold_left]. unfold gstep at 2 4. unfold counted in *. cbn [filter]. destruct (snd p =? 0); cbn [negb].
    + apply IH.
    + cbn [fst snd]. destruct (IH (s + gauc_term p)%Q (S k)) as [H1 H2]. split.
      * rewrite H1. cbn [length]. lia.
      * rewrite H2. cbn [map]. unfold qsum. cbn [fold_right]. ring.
Qed.
(* a matrix all of whose rows have the length of the first *)
Definition rect (M : list (list nat)) : Prop := forall r, In r M -> length r = snd (Hierarchy.mshape M).
Lemma rect_rows Mr Me : rect Mr -> rect Me -> length Mr = length Me ->
  snd (Hierarchy.mshape Mr) = snd (Hierarchy.mshape Me) -> forall q, length (nth q Mr []) = length (nth q Me []).
Proof.
  intros Hr He HL HS q. destruct (Nat.lt_ge_cases q (length Mr)) as [Hq|Hq].
  - rewrite (Hr (nth q Mr [])) by (apply nth_In; exact Hq). rewrite (He (nth q Me [])) by (apply nth_In; lia). exact HS.
  - rewrite !nth_overflow by lia. reflexivity.
Qed.
Lemma remove_at_length_eq {A B} i (a : list A) (b : list B) : length a = length b -> length (remove_at i a) = length (remove_at i b).
Proof. intros H. unfold remove_at. rewrite !app_length, !firstn_length, !skipn_length, H. reflexivity. Qed.
Lemma gauc_slice_length_eq Mr Me n w q : length (nth q Mr []) = length (nth q Me []) ->
  length (gauc_slice Mr n w q) = length (gauc_slice Me n w q).
Proof. intros H. unfold gauc_slice. rewrite !firstn_length, !skipn_length, H. reflexivity. Qed.
Lemma qeqb_zq_nat0 n : qeqb (zq (Z.of_nat n)) 0%Q = (n =? 0).
Proof. exact (qeqb_zq_nat n). Qed.
Lemma num_op_div_nat i N : (N =? 0) = false -> num_op Div (zn i) (VFloat (zq (Z.of_nat N))) = OK (VFloat (zq (Z.of_nat i) / zq (Z.of_nat N))%Q).
Proof. intros H. unfold num_op, zn, qarith. rewrite qeqb_zq_nat0, H. reflexivity. Qed.
Lemma zmax_sub q w : Z.max 0 (Z.of_nat q - Z.of_nat w) = Z.of_nat (q - w). Proof. lia. Qed.
Lemma zmin_nat a b : Z.min (Z.of_nat a) (Z.of_nat b) = Z.of_nat (Nat.min a b). Proof. lia. Qed.
Lemma zadd_nat a b : (Z.of_nat a + Z.of_nat b)%Z = Z.of_nat (a + b). Proof. lia. Qed.
Lemma zsucc_nat a : (Z.of_nat a + 1)%Z = Z.of_nat (S a). Proof. lia. Qed.

(* ================================================================= the program ================================= *)
Local Arguments builtin argsort f args kws : simpl nomatch.
Local Arguments read_loc x en : simpl nomatch.
Local Arguments bin_op op a b : simpl nomatch.
Local Arguments num_op op a b : simpl nomatch.
Local Arguments cmp_op op a b : simpl nomatch.
Local Arguments truth v : simpl nomatch.
Local Arguments get_item a i : simpl nomatch.
Local Arguments set_item a i v : simpl nomatch.
Local Arguments iter_elems v : simpl nomatch.
Local Arguments Z.of_nat : simpl never.
Local Arguments for_loop : simpl never.
Local Arguments for_step : simpl never.
Local Arguments Qdiv : simpl never.
Local Arguments Qmult : simpl never.
Local Arguments Qplus : simpl never.
Local Arguments Qminus : simpl never.
Local Arguments qeqb : simpl never.
Local Arguments inject_Z : simpl never.
Local Arguments zq : simpl never.
Local Arguments Z.add : simpl never.
Local Arguments Z.sub : simpl never.
Local Arguments Z.max : simpl never.
Local Arguments Z.min : simpl never.
Local Arguments Z.eqb : simpl never.
Local Arguments norm_idx : simpl never.
Local Arguments py_slice : simpl never.
Local Arguments hier_sigs : simpl never.
Local Arguments Nat.ltb : simpl never.
Local Arguments Nat.leb : simpl never.
Local Arguments Nat.min : simpl never.
Local Arguments Nat.sub : simpl never.
Local Arguments cfr : simpl never.
Local Arguments gauc_slice : simpl never.
Local Arguments remove_at : simpl never.
Local Arguments gauc_term : simpl never.

Section Gauc.
Variable argsort : list nat -> list nat.
Variable fuel : nat.
Variable ext : string -> list pv -> out pv.
Hypothesis Hext : forall r e t, length r = length e ->
  ext "_compare_frame_rankings" [VNVec r; VNVec e; VBool t]
  = OK (VTup [zn (fst (cfr r e t)); VFloat (zq (Z.of_nat (snd (cfr r e t))))]).
Local Notation runx := (run_fun argsort fuel hier_sigs ext).
Local Notation execx := (exec argsort fuel hier_sigs ext).

Definition gauc_fbody := f_body gen__gauc.
Definition gauc_names : list string := map fst (f_params gen__gauc) ++ f_locals gen__gauc.
Definition genv (vs : list pv) : env := combine gauc_names vs.
Definition gauc_body : list stmt := match nth 5 gauc_fbody SPass with SFor _ _ b => b | _ => [] end.
Definition gauc_folded : list stmt :=
  firstn 5 gauc_fbody ++ [SFor ["query"%string] (EBuiltin "range" [ELoc "n"] []) gauc_body; nth 6 gauc_fbody SPass; nth 7 gauc_fbody SPass].
Lemma gauc_folded_eq : gauc_fbody = gauc_folded. Proof. reflexivity. Qed.
Lemma sig_cfr : lookup_sig hier_sigs "_compare_frame_rankings"
  = Some [("ref"%string, None); ("est"%string, None); ("transitive"%string, Some (VBool false))].
Proof. reflexivity. Qed.

Lemma get_item_sp M q lo hi : q < length M ->
  get_item (VSp M) (VTup [zn q; VSlice (Some (Z.of_nat lo)) (Some (Z.of_nat hi))]) = OK (VSp [firstn (hi - lo) (skipn lo (nth q M []))]).
Proof. intros H. unfold get_item, zn. rewrite norm_idx_nat by exact H. rewrite py_slice_nat. reflexivity. Qed.
Lemma remove_at_py {A} i (l : list A) : py_slice None (Some (Z.of_nat i)) l ++ py_slice (Some (Z.of_nat (S i))) None l = remove_at i l.
Proof. rewrite py_slice_to, py_slice_from. reflexivity. Qed.
Lemma gauc_loop_spec Mr Me tr w :
  (forall q, length (nth q Mr []) = length (nth q Me [])) -> length Me = length Mr ->
  forall qs s k vq vres vrs ves vidx vinv vnorm, (forall q, In q qs -> q < length Mr) ->
  exists vq' vres' vrs' ves' vidx' vinv' vnorm',
    for_loop (for_step (run_block execx) ["query"%string] gauc_body) (map zn qs)
      (genv [VSp Mr; VSp Me; VBool tr; zn w; zn (length Mr); VFloat s; zn k; vq; vres; vrs; ves; vidx; vinv; vnorm])
    = SNorm (genv [VSp Mr; VSp Me; VBool tr; zn w; zn (length Mr);
                   VFloat (fst (fold_left gstep (map (gauc_query Mr Me tr (length Mr) w) qs) (s, k)));
                   zn (snd (fold_left gstep (map (gauc_query Mr Me tr (length Mr) w) qs) (s, k)));
                   vq'; vres'; vrs'; ves'; vidx'; vinv'; vnorm']).
Proof.
  intros Hrows HLen. induction qs as [|q qs IH]; intros s k vq vres vrs ves vidx vinv vnorm Hq.
  - exists vq, vres, vrs, ves, vidx, vinv, vnorm. reflexivity.
  - cbn [map]. rewrite for_loop_cons. unfold for_step at 1. unfold gauc_body at 1. cbn. unfold builtin. cbn.
    rewrite zmax_sub, zadd_nat, !zmin_nat.
    assert (Hq1 : q < length Mr) by (apply Hq; left; reflexivity).
    rewrite get_item_sp by exact Hq1. cbn. rewrite get_item_sp by lia. cbn. rewrite !app_nil_r, zmin_nat. cbn.
    rewrite !zsucc_nat, !remove_at_py. unfold call. rewrite sig_cfr. cbn.
    change (firstn (Nat.min (length Mr) (q + w) - (q - w)) (skipn (q - w) (nth q Mr []))) with (gauc_slice Mr (length Mr) w q).
    change (firstn (Nat.min (length Mr) (q + w) - (q - w)) (skipn (q - w) (nth q Me []))) with (gauc_slice Me (length Mr) w q).
    rewrite Hext by (apply remove_at_length_eq, gauc_slice_length_eq, Hrows). cbn.
    change (cfr (remove_at (Nat.min q w) (gauc_slice Mr (length Mr) w q)) (remove_at (Nat.min q w) (gauc_slice Me (length Mr) w q)) tr)
      with (gauc_query Mr Me tr (length Mr) w q).
    cbn [fold_left]. set (p := gauc_query Mr Me tr (length Mr) w q).
    rewrite (qeqb_zq_nat0 (snd p)). unfold gstep at 2 4. destruct (snd p =? 0) eqn:EN; cbn.
    + destruct (IH s k (zn q) (VSlice (Some (Z.of_nat (q - w))) (Some (Z.of_nat (Nat.min (length Mr) (q + w)))))
                  (VNVec (remove_at (Nat.min q w) (gauc_slice Mr (length Mr) w q)))
                  (VNVec (remove_at (Nat.min q w) (gauc_slice Me (length Mr) w q)))
                  (VInt (Z.of_nat (Nat.min q w))) (zn (fst p)) (VFloat (zq (Z.of_nat (snd p)))))
        as (v1 & v2 & v3 & v4 & v5 & v6 & v7 & E); [intros q' Hq'; apply Hq; right; exact Hq'|].
      exists v1, v2, v3, v4, v5, v6, v7. exact E.
    + unfold builtin. cbn. rewrite (num_op_div_nat _ _ EN). cbn. rewrite zsucc_nat.
      destruct (IH (s + gauc_term p)%Q (S k) (zn q) (VSlice (Some (Z.of_nat (q - w))) (Some (Z.of_nat (Nat.min (length Mr) (q + w)))))
                  (VNVec (remove_at (Nat.min q w) (gauc_slice Mr (length Mr) w q)))
                  (VNVec (remove_at (Nat.min q w) (gauc_slice Me (length Mr) w q)))
                  (VInt (Z.of_nat (Nat.min q w))) (zn (fst p)) (VFloat (zq (Z.of_nat (snd p)))))
        as (v1 & v2 & v3 & v4 & v5 & v6 & v7 & E); [intros q' Hq'; apply Hq; right; exact Hq'|].
      exists v1, v2, v3, v4, v5, v6, v7. exact E.
Qed.
Lemma get_item_tup0 a l : get_item (VTup (a :: l)) (VInt 0) = OK a.
Proof. unfold get_item, seq_item. change 0%Z with (Z.of_nat 0). rewrite norm_idx_nat by (cbn [length]; lia). reflexivity. Qed.
Lemma zeqb_nat0 n : (Z.of_nat n =? 0)%Z = (n =? 0). Proof. exact (zeqb_nat n 0). Qed.
Lemma num_op_div_fn x N : (N =? 0) = false -> num_op Div (VFloat x) (VFloat (zq (Z.of_nat N))) = OK (VFloat (x / zq (Z.of_nat N))%Q).
Proof. intros H. unfold num_op, zn, qarith. rewrite qeqb_zq_nat0, H. reflexivity. Qed.
Local Arguments gauc_body : simpl never.
Local Arguments gstep : simpl never.
Definition v_window (w : option nat) : pv := match w with None => VNone | Some w => zn w end.

Theorem gauc_tie : forall Mr Me tr window, rect Mr -> rect Me ->
  match gauc Mr Me tr window with
  | Raise e => runx gen__gauc [VSp Mr; VSp Me; VBool tr; v_window window] = EXN e
  | Ok m => exists q, runx gen__gauc [VSp Mr; VSp Me; VBool tr; v_window window] = OK (VFloat q) /\ (q == m)%Q
  end.
Proof.
  intros Mr Me tr window Hr He. unfold gauc, run_fun. cbn [length f_params gen__gauc Nat.eqb].
  change (f_body _) with gauc_fbody. rewrite gauc_folded_eq. unfold exec_block, gauc_folded.
  cbn. unfold builtin. cbn. rewrite !zeqb_nat, andb_true_r.
  change (match Mr with [] => 0 | r :: _ => length r end) with (snd (Hierarchy.mshape Mr)).
  change (match Me with [] => 0 | r :: _ => length r end) with (snd (Hierarchy.mshape Me)).
  destruct (negb ((length Mr =? length Me) && (snd (Hierarchy.mshape Mr) =? snd (Hierarchy.mshape Me)))) eqn:ES; cbn; [reflexivity|].
  apply negb_false_iff, andb_true_iff in ES. destruct ES as [EL EC]. apply Nat.eqb_eq in EL, EC.
  rewrite get_item_tup0. cbn.
  set (w := match window with Some w => w | None => length Mr end).
  pose proof (rect_rows Mr Me Hr He EL EC) as Hrows.
  destruct (gauc_loop_spec Mr Me tr w Hrows (eq_sym EL) (seq 0 (length Mr)) 0%Q 0 VUnbound VUnbound VUnbound VUnbound VUnbound VUnbound VUnbound)
    as (v1 & v2 & v3 & v4 & v5 & v6 & v7 & E); [intros q Hq; apply in_seq in Hq; lia|].
  set (terms := map (gauc_query Mr Me tr (length Mr) w) (seq 0 (length Mr))) in *.
  destruct (gstep_fold terms 0%Q 0) as [H1 H2]. set (fin := fold_left gstep terms (0%Q, 0)) in *.
  destruct window as [w0|]; cbn; rewrite Nat2Z.id.
  all: match goal with |- context [for_loop ?st ?els ?en] =>
         replace (for_loop st els en) with
           (SNorm (genv [VSp Mr; VSp Me; VBool tr; zn w; zn (length Mr); VFloat (fst fin); zn (snd fin); v1; v2; v3; v4; v5; v6; v7]))
           by (symmetry; exact E) end.
  all: cbn; rewrite zeqb_nat0; destruct (snd fin =? 0) eqn:EK; cbn.
  all: unfold gauc_mean; fold terms.
  1,3: apply Nat.eqb_eq in EK; rewrite EK in H1; destruct (counted terms); [|cbn in H1; lia]; eexists; split; [reflexivity|reflexivity].
  all: rewrite (num_op_div_fn _ _ EK); cbn; eexists; (split; [reflexivity|]).
  all: destruct (counted terms) as [|c0 cs] eqn:EC0; [apply Nat.eqb_neq in EK; cbn in H1; lia|].
  all: rewrite H2, H1; unfold qnat, zq; cbn [Nat.add]; unfold qsum; cbn [map fold_right length]; unfold Qdiv; ring.
Qed.
End Gauc.

Check gauc_tie.
Print Assumptions gauc_tie.
