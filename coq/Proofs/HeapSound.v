(* C15, layer 2: the MEANING of the write-site classification of layer 1 (translator/writesites.py, Model/Purity.v).

   Main theorem (caller_objects_preserved / exec_preserves_caller_objects): in the object language of Model/Heap.v, if
   every write site of every function of the program is classified local (origins of the target within {Fresh, Kwargs}),
   the loop environments are loop invariants, and no reference is loaded out of a container, then running a function
   leaves every object that existed before the call (the arguments and everything else the caller can reach) exactly
   as it was - whether the call returns, falls off its end, or raises.

   Key invariant (sound_abs): a name whose abstract origins are within {Fresh, Kwargs} holds a reference to storage
   allocated during the call (location >= next_loc of the caller's heap), or no reference at all.

   Three places where the translator's rules are NOT sound are exhibited with concrete programs (and were reproduced
   on the real translator and the real Python):
     elem_rule_unsound_refuted       an element loaded from a shallow copy of a nested container is classified Fresh
     two_pass_loop_unsound_refuted   two passes over a loop body do not reach a fixpoint for a chain of three rebinds
   which is why the theorem asks for elem_free and astable. *)
From Coq Require Import List String Bool Arith QArith Lia.
From ME Require Import Model.Prelude Model.Heap.
Import ListNotations.
Open Scope string_scope.
Open Scope list_scope.
Open Scope nat_scope.

(* ------------------------------------------------------------------------------------------------ heap facts *)
Lemma hget_app_old : forall (h : heap) o l, l < List.length h -> hget (h ++ [o]) l = hget h l.
Proof. intros h o l Hl. unfold hget. apply nth_error_app1. exact Hl. Qed.

Lemma hset_length : forall (h : heap) l o, List.length (hset h l o) = List.length h.
Proof. induction h as [|x t IH]; intros l o; cbn [hset]; [reflexivity|]. destruct l; cbn [List.length]; [reflexivity|]. now rewrite IH. Qed.

Lemma hget_hset_other : forall (h : heap) l o l', l <> l' -> hget (hset h l o) l' = hget h l'.
Proof.
  unfold hget. induction h as [|x t IH]; intros l o l' Hne; cbn [hset]; [reflexivity|].
  destruct l, l'; cbn [nth_error]; try reflexivity; [congruence|]. apply IH. congruence.
Qed.

(* h' extends h and agrees with it on every location below n0 *)
Definition ext (n0 : nat) (h h' : heap) : Prop :=
  List.length h <= List.length h' /\ forall l, l < n0 -> hget h' l = hget h l.

Lemma ext_refl : forall n0 h, ext n0 h h.
Proof. intros; split; [lia|reflexivity]. Qed.
Lemma ext_trans : forall n0 h1 h2 h3, ext n0 h1 h2 -> ext n0 h2 h3 -> ext n0 h1 h3.
Proof. intros n0 h1 h2 h3 [L1 E1] [L2 E2]. split; [lia|]. intros l Hl. now rewrite E2, E1. Qed.
Lemma ext_app : forall n0 (h : heap) o, n0 <= List.length h -> ext n0 h (h ++ [o]).
Proof. intros n0 h o Hn. split; [rewrite app_length; lia|]. intros l Hl. apply hget_app_old. lia. Qed.
Lemma ext_hset : forall n0 (h : heap) l o, n0 <= l -> ext n0 h (hset h l o).
Proof. intros n0 h l o Hn. split; [rewrite hset_length; lia|]. intros l' Hl. apply hget_hset_other. lia. Qed.
Lemma ext_weaken : forall n0 n1 h h', n0 <= n1 -> ext n1 h h' -> ext n0 h h'.
Proof. intros n0 n1 h h' Hn [L E]. split; [exact L|]. intros l Hl. apply E. lia. Qed.

(* ------------------------------------------------------------------------------------------------ environments *)
Lemma lookup_ebind_same : forall x v en, lookup (ebind x v en) x = Some v.
Proof. intros. unfold ebind. cbn [lookup]. now rewrite String.eqb_refl. Qed.
Lemma lookup_ebind_other : forall x y v en, x <> y -> lookup (ebind x v en) y = lookup en y.
Proof. intros x y v en Hne. unfold ebind. cbn [lookup]. apply String.eqb_neq in Hne. now rewrite Hne. Qed.
Lemma aget_aset_same : forall a x o, aget (aset a x o) x = o.
Proof. intros. unfold aget, aset. cbn [afind]. now rewrite String.eqb_refl. Qed.
Lemma aget_aset_other : forall a x y o, x <> y -> aget (aset a x o) y = aget a y.
Proof. intros a x y o Hne. unfold aget, aset. cbn [afind]. apply String.eqb_neq in Hne. now rewrite Hne. Qed.

Lemma origin_eqb_local : forall o o', origin_eqb o o' = true -> origin_local o = origin_local o'.
Proof. intros [] [] H; cbn in *; try reflexivity; discriminate. Qed.

Lemma local_oadd : forall o acc, local (oadd o acc) = true -> origin_local o = true /\ local acc = true.
Proof.
  intros o acc H. unfold oadd in H. destruct (existsb (origin_eqb o) acc) eqn:E.
  - split; [|exact H]. apply existsb_exists in E. destruct E as [o' [Hin He]].
    unfold local in H. rewrite forallb_forall in H. rewrite (origin_eqb_local _ _ He). auto.
  - cbn in H. now apply andb_true_iff in H.
Qed.

Lemma local_app : forall o1 o2, local (ounion o1 o2) = true -> local o1 = true /\ local o2 = true.
Proof.
  induction o1 as [|o t IH]; intros o2 H; cbn [ounion fold_right] in H; [split; [reflexivity|exact H]|].
  apply local_oadd in H. destruct H as [Ho Ht]. destruct (IH _ Ht) as [H1 H2]. split; [|exact H2].
  cbn. now rewrite Ho.
Qed.

Lemma local_aunion : forall a xs, local (aunion a xs) = true -> forall x, In x xs -> local (aget a x) = true.
Proof.
  intros a xs. unfold aunion. induction xs as [|y t IH]; cbn [fold_right]; intros H x Hin; [destruct Hin|].
  apply local_app in H. destruct H as [H1 H2]. destruct Hin as [<-|Hin]; auto.
Qed.

Lemma afind_none_notin : forall a x, ~ In x (akeys a) -> afind a x = None.
Proof.
  induction a as [|[y o] t IH]; intros x Hn; cbn [afind]; [reflexivity|].
  destruct (String.eqb y x) eqn:E.
  - apply String.eqb_eq in E. exfalso. apply Hn. now left.
  - apply IH. intro Hin. apply Hn. now right.
Qed.

Lemma aget_keymap : forall (g : var -> origins) ks x,
  aget (map (fun k => (k, g k)) ks) x = g x \/ aget (map (fun k => (k, g k)) ks) x = [Unknown].
Proof.
  intros g ks x. unfold aget. induction ks as [|k t IH]; cbn [map afind]; [now right|].
  destruct (String.eqb k x) eqn:E; [|exact IH]. apply String.eqb_eq in E. subst. now left.
Qed.

Lemma aget_merge : forall a b x, aget (merge a b) x = ounion (aget a x) (aget b x) \/ aget (merge a b) x = [Unknown].
Proof. intros a b x. exact (aget_keymap (fun k => ounion (aget a k) (aget b k)) (akeys a ++ akeys b) x). Qed.

Lemma local_merge : forall a b x, local (aget (merge a b) x) = true -> local (aget a x) = true /\ local (aget b x) = true.
Proof.
  intros a b x H. destruct (aget_merge a b x) as [E|E]; rewrite E in H.
  - now apply local_app.
  - discriminate.
Qed.

Lemma aleb_local_spec : forall a b, aleb_local a b = true -> forall x, local (aget b x) = true -> local (aget a x) = true.
Proof.
  intros a b H x Hb. unfold aleb_local in H. rewrite forallb_forall in H.
  destruct (in_dec string_dec x (akeys a ++ akeys b)) as [Hin|Hn].
  - specialize (H x Hin). rewrite Hb in H. exact H.
  - assert (Hnb : ~ In x (akeys b)) by (intro; apply Hn; apply in_or_app; now right).
    unfold aget in Hb. rewrite (afind_none_notin _ _ Hnb) in Hb. discriminate.
Qed.

(* ------------------------------------------------------------------------------------------------ the invariant *)
(* v holds no reference into storage older than n0 *)
Definition fresh_val (n0 : nat) (v : val) : Prop := forall l, vloc v = Some l -> n0 <= l.
(* the abstract environment over-approximates the concrete aliasing: a name classified local holds only new storage *)
Definition sound_abs (a : aenv) (en : env) (n0 : nat) : Prop :=
  forall x v, lookup en x = Some v -> local (aget a x) = true -> fresh_val n0 v.

Lemma fresh_val_weaken : forall n0 n1 v, n0 <= n1 -> fresh_val n1 v -> fresh_val n0 v.
Proof. intros n0 n1 v Hn H l Hl. specialize (H l Hl). lia. Qed.

Lemma sound_aset : forall a en n0 x o v,
  sound_abs a en n0 -> (local o = true -> fresh_val n0 v) -> sound_abs (aset a x o) (ebind x v en) n0.
Proof.
  intros a en n0 x o v Hs Hv y w Hl Hloc.
  destruct (string_dec x y) as [->|Hne].
  - rewrite lookup_ebind_same in Hl. injection Hl as <-. rewrite aget_aset_same in Hloc. auto.
  - rewrite lookup_ebind_other in Hl by exact Hne. rewrite aget_aset_other in Hloc by exact Hne. eauto.
Qed.

Lemma sound_merge_l : forall a b en n0, sound_abs a en n0 -> sound_abs (merge a b) en n0.
Proof. intros a b en n0 Hs x v Hl Hloc. apply local_merge in Hloc. destruct Hloc. eauto. Qed.
Lemma sound_merge_r : forall a b en n0, sound_abs b en n0 -> sound_abs (merge a b) en n0.
Proof. intros a b en n0 Hs x v Hl Hloc. apply local_merge in Hloc. destruct Hloc. eauto. Qed.

Lemma sound_refine_none : forall a en n0 x, sound_abs a en n0 -> lookup en x = Some VNone -> sound_abs (refine_none a x) en n0.
Proof.
  intros a en n0 x Hs Hx. unfold refine_none. destruct (afind a x); [|exact Hs].
  intros y w Hl Hloc. destruct (string_dec x y) as [->|Hne].
  - rewrite Hx in Hl. injection Hl as <-. intros l Hv. discriminate.
  - rewrite aget_aset_other in Hloc by exact Hne. eauto.
Qed.

Lemma sound_aset_all : forall xs vs a en e' n0 o,
  sound_abs a en n0 -> ebind_all xs vs en = Some e' -> (local o = true -> Forall (fresh_val n0) vs) ->
  sound_abs (aset_all a xs o) e' n0.
Proof.
  unfold aset_all. induction xs as [|x xt IH]; intros vs a en e' n0 o Hs Hb Hv; destruct vs as [|v vt]; cbn [ebind_all fold_left] in *; try discriminate.
  - now injection Hb as <-.
  - eapply IH; [|exact Hb|].
    + apply sound_aset; [exact Hs|]. intro Hl. specialize (Hv Hl). now inversion Hv.
    + intro Hl. specialize (Hv Hl). now inversion Hv.
Qed.

Lemma lookup_all_in : forall en xs vs, lookup_all en xs = Some vs ->
  forall v, In v vs -> exists x, In x xs /\ lookup en x = Some v.
Proof.
  intros en. induction xs as [|x t IH]; intros vs H v Hin; cbn [lookup_all] in H.
  - injection H as <-. destruct Hin.
  - destruct (lookup en x) as [w|] eqn:Ex; [|discriminate]. destruct (lookup_all en t) as [ws|] eqn:Et; [|discriminate].
    injection H as <-. destruct Hin as [<-|Hin].
    + exists x. split; [now left|exact Ex].
    + destruct (IH ws eq_refl v Hin) as [y [Hy Hl]]. exists y. split; [now right|exact Hl].
Qed.

Lemma lookup_combine_in : forall ps vs x v, lookup (combine ps vs) x = Some v -> In v vs.
Proof.
  induction ps as [|p pt IH]; intros vs x v H; destruct vs as [|w wt]; cbn [combine lookup] in H; try discriminate.
  destruct (String.eqb p x); [injection H as <-; now left|right; eauto].
Qed.

Lemma params_not_local : forall ps x, local (aget (map (fun p => (p, [Param p])) ps) x) = false.
Proof.
  intros ps x. unfold aget. induction ps as [|p t IH]; cbn [map afind]; [reflexivity|].
  destruct (String.eqb p x); [reflexivity|exact IH].
Qed.

(* function entry: the initial abstract environment of writesites.analyse is sound for the callee's own start heap h *)
Lemma enter_facts : forall d vs items h cenv h1, enter d vs items h = Some (cenv, h1) ->
  ext (List.length h) h h1 /\ sound_abs (init_aenv d) cenv (List.length h) /\
  (forall x v, lookup cenv x = Some v -> In v vs \/ v = VRef (List.length h)).
Proof.
  intros d vs items h cenv h1 H. unfold enter in H.
  destruct (List.length vs =? List.length (f_params d)); [|discriminate].
  unfold init_aenv. destruct (f_kwargs d) as [k|]; injection H as <- <-.
  - split; [apply ext_app; lia|]. split.
    + intros x v Hl Hloc. cbn [app] in Hloc. cbn [lookup] in Hl. unfold aget in Hloc. cbn [afind] in Hloc.
      destruct (String.eqb k x).
      * injection Hl as <-. intros l Hv. cbn in Hv. injection Hv as <-. lia.
      * fold (aget (map (fun p => (p, [Param p])) (f_params d)) x) in Hloc. rewrite params_not_local in Hloc. discriminate.
    + intros x v Hl. cbn [lookup] in Hl. destruct (String.eqb k x); [injection Hl as <-; now right|left; eapply lookup_combine_in; eauto].
  - split; [apply ext_refl|]. split.
    + intros x v Hl Hloc. cbn [app] in Hloc. rewrite params_not_local in Hloc. discriminate.
    + intros x v Hl. left. eapply lookup_combine_in; eauto.
Qed.

(* ------------------------------------------------------------------------------------------------ expressions, writes *)
Lemma eval_expr_sound : forall e a en h n0 v h',
  eval_expr e en h = Some (v, h') -> n0 <= List.length h -> sound_abs a en n0 -> expr_elem_free e = true ->
  (local (aexpr e a) = true -> fresh_val n0 v) /\ ext n0 h h'.
Proof.
  intros e a en h n0 v h' He Hn Hs Hf. destruct e as [|f|f|x|x f|x i]; cbn [eval_expr aexpr] in *.
  - injection He as <- <-. split; [intros _ l Hv; discriminate|apply ext_refl].
  - destruct (f en h); [|discriminate]. injection He as <- <-. split; [intros _ l Hv; discriminate|apply ext_refl].
  - destruct (f en h); [|discriminate]. injection He as <- <-. split; [|now apply ext_app].
    intros _ l Hv. cbn in Hv. injection Hv as <-. exact Hn.
  - destruct (lookup en x) as [w|] eqn:Ex; [|discriminate]. injection He as <- <-. split; [|apply ext_refl]. intro Hl. eauto.
  - destruct (lookup en x) as [w|] eqn:Ex; [|discriminate]. destruct w as [|c|l|l s0 n1]; try discriminate;
      (destruct (f en h) as [[s n]|]; [|discriminate]); injection He as <- <-; (split; [|apply ext_refl]); intros Hl l' Hv;
      cbn in Hv; injection Hv as <-; apply (Hs x _ Ex Hl); reflexivity.
  - discriminate.
Qed.

Lemma do_write_ext : forall u en h v h' n0, do_write u en h v = Some h' -> fresh_val n0 v -> ext n0 h h'.
Proof.
  intros u en h v h' n0 H Hv. unfold do_write in H.
  destruct v as [|c|l|l s n]; try discriminate; destruct u as [f|f]; try discriminate;
    assert (Hl : n0 <= l) by (apply Hv; reflexivity).
  - destruct (hget h l) as [o|]; [|discriminate]. destruct (f en h o); [|discriminate]. injection H as <-. now apply ext_hset.
  - destruct (hget h l) as [[xs|qs|kvs]|]; try discriminate. destruct (f en h qs) as [qs'|]; [|discriminate].
    destruct (List.length qs' =? List.length qs); [|discriminate]. injection H as <-. now apply ext_hset.
  - destruct (hget h l) as [[xs|qs|kvs]|]; try discriminate. destruct (s + n <=? List.length qs); [|discriminate].
    destruct (f en h (firstn n (skipn s qs))) as [seg'|]; [|discriminate].
    destruct (List.length seg' =? n); [|discriminate]. injection H as <-. now apply ext_hset.
Qed.

(* ------------------------------------------------------------------------------------------------ provenance *)
(* Without element loads, every reference a function holds or returns is one it was given or one it allocated.
   This is what justifies the translator's rule "the result of an unknown call may alias any of its arguments". *)
Definition vfrom (E : env) (n : nat) (v : val) : Prop :=
  forall l, vloc v = Some l -> n <= l \/ exists y w, lookup E y = Some w /\ vloc w = Some l.
Definition efrom (E : env) (n : nat) (E' : env) : Prop := forall x v, lookup E' x = Some v -> vfrom E n v.
Definition prov (en : env) (h : heap) (o : outcome) : Prop :=
  match o with
  | ONormal e' h' => List.length h <= List.length h' /\ efrom en (List.length h) e'
  | OReturn vs h' => List.length h <= List.length h' /\ Forall (vfrom en (List.length h)) vs
  | ORaise h' => List.length h <= List.length h'
  | OFuel => True
  end.

Lemma vfrom_self : forall en n x v, lookup en x = Some v -> vfrom en n v.
Proof. intros en n x v H l Hv. right. eauto. Qed.
Lemma efrom_refl : forall en n, efrom en n en.
Proof. intros en n x v H. eapply vfrom_self; eauto. Qed.
Lemma vfrom_trans : forall E E1 n n1 v, n <= n1 -> efrom E n E1 -> vfrom E1 n1 v -> vfrom E n v.
Proof.
  intros E E1 n n1 v Hn HE Hv l Hl. destruct (Hv l Hl) as [H|[y [w [Hy Hw]]]]; [left; lia|]. exact (HE y w Hy l Hw).
Qed.
Lemma efrom_ebind : forall E n en x v, efrom E n en -> vfrom E n v -> efrom E n (ebind x v en).
Proof.
  intros E n en x v He Hv y w Hl. destruct (string_dec x y) as [->|Hne].
  - rewrite lookup_ebind_same in Hl. now injection Hl as <-.
  - rewrite lookup_ebind_other in Hl by exact Hne. eauto.
Qed.
Lemma efrom_ebind_all : forall xs vs E n en e', efrom E n en -> Forall (vfrom E n) vs -> ebind_all xs vs en = Some e' -> efrom E n e'.
Proof.
  induction xs as [|x xt IH]; intros vs E n en e' He Hv Hb; destruct vs as [|v vt]; cbn [ebind_all] in Hb; try discriminate.
  - now injection Hb as <-.
  - inversion Hv; subst. eapply IH; [|eassumption|exact Hb]. now apply efrom_ebind.
Qed.

Lemma prov_seq : forall en h e1 h1 o, prov en h (ONormal e1 h1) -> prov e1 h1 o -> prov en h o.
Proof.
  intros en h e1 h1 o [L1 F1] Ho. destruct o as [e2 h2|vs h2|h2|]; cbn [prov] in *.
  - destruct Ho as [L2 F2]. split; [lia|]. intros x v Hl. eapply vfrom_trans; [exact L1|exact F1|eauto].
  - destruct Ho as [L2 F2]. split; [lia|]. rewrite Forall_forall in *. intros v Hin. eapply vfrom_trans; [exact L1|exact F1|eauto].
  - lia.
  - exact I.
Qed.

Lemma eval_expr_prov : forall e en h v h', eval_expr e en h = Some (v, h') -> expr_elem_free e = true ->
  List.length h <= List.length h' /\ vfrom en (List.length h) v.
Proof.
  intros e en h v h' He Hf. destruct e as [|f|f|x|x f|x i]; cbn [eval_expr] in *.
  - injection He as <- <-. split; [lia|intros l Hv; discriminate].
  - destruct (f en h); [|discriminate]. injection He as <- <-. split; [lia|intros l Hv; discriminate].
  - destruct (f en h); [|discriminate]. injection He as <- <-. split; [rewrite app_length; lia|].
    intros l Hv. cbn in Hv. injection Hv as <-. left. lia.
  - destruct (lookup en x) as [w|] eqn:Ex; [|discriminate]. injection He as <- <-. split; [lia|eapply vfrom_self; eauto].
  - destruct (lookup en x) as [w|] eqn:Ex; [|discriminate]. destruct w as [|c|l|l s0 n1]; try discriminate;
      (destruct (f en h) as [[s n]|]; [|discriminate]); injection He as <- <-; (split; [lia|]); intros l' Hv;
      cbn in Hv; injection Hv as <-; right; eexists; eexists; (split; [exact Ex|reflexivity]).
  - discriminate.
Qed.

Lemma do_write_length : forall u en h v h', do_write u en h v = Some h' -> List.length h' = List.length h.
Proof.
  intros u en h v h' H. unfold do_write in H.
  destruct v as [|c|l|l s n]; try discriminate; destruct u as [f|f]; try discriminate.
  - destruct (hget h l) as [o|]; [|discriminate]. destruct (f en h o); [|discriminate]. injection H as <-. apply hset_length.
  - destruct (hget h l) as [[xs|qs|kvs]|]; try discriminate. destruct (f en h qs) as [qs'|]; [|discriminate].
    destruct (List.length qs' =? List.length qs); [|discriminate]. injection H as <-. apply hset_length.
  - destruct (hget h l) as [[xs|qs|kvs]|]; try discriminate. destruct (s + n <=? List.length qs); [|discriminate].
    destruct (f en h (firstn n (skipn s qs))) as [seg'|]; [|discriminate].
    destruct (List.length seg' =? n); [|discriminate]. injection H as <-. apply hset_length.
Qed.

Lemma iter_prov : forall step, (forall en h, prov en h (step en h)) -> forall k en h, prov en h (iter step k en h).
Proof.
  intros step Hstep. induction k as [|k IH]; intros en h; cbn [iter].
  - split; [lia|apply efrom_refl].
  - specialize (Hstep en h). destruct (step en h) as [e1 h1|vs h1|h1|] eqn:E; try exact Hstep.
    eapply prov_seq; [exact Hstep|apply IH].
Qed.

Section Sound.
Variable P : prog.
Variable FS : list fname.
Hypothesis Hok : prog_ok P FS = true.

Lemma lookup_fn_in : forall (Q : prog) f d, lookup_fn Q f = Some d -> In (f, d) Q.
Proof.
  induction Q as [|[g d'] t IH]; intros f d H; cbn [lookup_fn] in H; [discriminate|].
  destruct (String.eqb g f) eqn:E; [|right; eauto]. apply String.eqb_eq in E. injection H as <-. subst. now left.
Qed.

Lemma fun_ok : forall f d, lookup_fn P f = Some d -> writes_local FS d = true /\ elem_free (f_body d) = true.
Proof.
  intros f d H. apply lookup_fn_in in H. unfold prog_ok in Hok. apply andb_true_iff in Hok. destruct Hok as [_ H2].
  rewrite forallb_forall in H2. specialize (H2 _ H). cbn [snd] in H2. now apply andb_true_iff in H2.
Qed.

Lemma summary_ok : forall f d, existsb (String.eqb f) FS = true -> lookup_fn P f = Some d -> returns_fresh FS d = true.
Proof.
  intros f d Hin Hl. unfold prog_ok in Hok. apply andb_true_iff in Hok. destruct Hok as [H1 _].
  unfold summaries_ok in H1. rewrite forallb_forall in H1. apply existsb_exists in Hin. destruct Hin as [g [Hg E]].
  apply String.eqb_eq in E. subst g. specialize (H1 f Hg). now rewrite Hl in H1.
Qed.

Lemma exec_prov : forall fuel s en h, elem_free s = true -> prov en h (exec P fuel s en h).
Proof.
  induction fuel as [|n IH]; intros s en h Hf; [exact I|].
  destruct s as [|x e|x u|c s1 s2|x s1 s2|s1 s2|cnt b|xs f args kw|xs|]; cbn [exec elem_free] in *.
  - split; [lia|apply efrom_refl].
  - destruct (eval_expr e en h) as [[v h']|] eqn:E; [|cbn; lia].
    destruct (eval_expr_prov _ _ _ _ _ E Hf) as [L V]. split; [exact L|]. apply efrom_ebind; [apply efrom_refl|exact V].
  - destruct (lookup en x) as [v|]; [|cbn; lia]. destruct (do_write u en h v) as [h'|] eqn:E; [|cbn; lia].
    apply do_write_length in E. split; [lia|apply efrom_refl].
  - apply andb_true_iff in Hf. destruct Hf as [F1 F2]. destruct (c en h) as [[|]|]; [now apply IH|now apply IH|cbn; lia].
  - apply andb_true_iff in Hf. destruct Hf as [F1 F2]. destruct (lookup en x) as [[|c0|l|l s0 n1]|]; try (now apply IH). cbn; lia.
  - apply andb_true_iff in Hf. destruct Hf as [F1 F2]. pose proof (IH s1 en h F1) as H1.
    destruct (exec P n s1 en h) as [e1 h1|vs h1|h1|]; try exact H1. eapply prov_seq; [exact H1|now apply IH].
  - destruct (cnt en h) as [k|]; [|cbn; lia]. apply iter_prov. intros en' h'. now apply IH.
  - destruct (lookup_fn P f) as [d|] eqn:Ed; [|cbn; lia]. destruct (lookup_all en args) as [vs|] eqn:Ea; [|cbn; lia].
    destruct (enter d vs (kw_items en h kw) h) as [[cenv h1]|] eqn:Ee; [|cbn; lia].
    destruct (enter_facts _ _ _ _ _ _ Ee) as [[L1 _] [_ Hc]].
    destruct (fun_ok _ _ Ed) as [_ Hfb]. pose proof (IH (f_body d) cenv h1 Hfb) as Hb.
    assert (Hcen : efrom en (List.length h) cenv).
    { intros y w Hy l Hw. destruct (Hc y w Hy) as [Hin| ->].
      - destruct (lookup_all_in _ _ _ Ea _ Hin) as [z [_ Hz]]. right. eauto.
      - cbn in Hw. injection Hw as <-. left. lia. }
    destruct (exec P n (f_body d) cenv h1) as [e2 h2|rs h2|h2|]; cbn [finish_call prov] in *.
    + destruct Hb as [L2 _]. destruct xs as [|x [|x' xt]]; cbn [prov].
      * split; [lia|apply efrom_refl].
      * split; [lia|]. apply efrom_ebind; [apply efrom_refl|intros l Hv; discriminate].
      * lia.
    + destruct Hb as [L2 F2]. destruct (ebind_all xs rs en) as [e'|] eqn:Eb; cbn [prov]; [|lia]. split; [lia|].
      eapply efrom_ebind_all; [apply efrom_refl| |exact Eb]. rewrite Forall_forall in *. intros v Hin.
      eapply vfrom_trans; [exact L1|exact Hcen|eauto].
    + lia.
    + exact I.
  - destruct (lookup_all en xs) as [vs|] eqn:E; [|cbn; lia]. split; [lia|]. rewrite Forall_forall. intros v Hin.
    destruct (lookup_all_in _ _ _ E _ Hin) as [y [_ Hy]]. eapply vfrom_self; eauto.
  - cbn; lia.
Qed.

(* ------------------------------------------------------------------------------------------------ soundness *)
Definition gpost (A : aenv) (R : origins) (n0 : nat) (h : heap) (o : outcome) : Prop :=
  match o with
  | ONormal e' h' => sound_abs A e' n0 /\ ext n0 h h'
  | OReturn vs h' => (local R = true -> Forall (fresh_val n0) vs) /\ ext n0 h h'
  | ORaise h' => ext n0 h h'
  | OFuel => True
  end.

Lemma gpost_mono : forall A R A' R' n0 h o,
  (forall en, sound_abs A en n0 -> sound_abs A' en n0) -> (local R' = true -> local R = true) ->
  gpost A R n0 h o -> gpost A' R' n0 h o.
Proof. intros A R A' R' n0 h o HA HR Hp. destruct o; cbn [gpost] in *; intuition. Qed.

Lemma gpost_ext : forall A R n0 h0 h o, ext n0 h0 h -> gpost A R n0 h o -> gpost A R n0 h0 o.
Proof. intros A R n0 h0 h o He Hp. destruct o; cbn [gpost] in *; intuition; eapply ext_trans; eauto. Qed.

Lemma gpost_len : forall A R n0 h o h', gpost A R n0 h o -> out_heap o = Some h' -> List.length h <= List.length h'.
Proof. intros A R n0 h o h' Hp Ho. destruct o; cbn in *; try discriminate; injection Ho as <-; unfold ext in Hp; intuition. Qed.

Lemma iter_sound : forall step C Astep R n0,
  (forall en h, n0 <= List.length h -> sound_abs C en n0 -> gpost Astep R n0 h (step en h)) ->
  (forall en, sound_abs Astep en n0 -> sound_abs C en n0) ->
  forall k en h, n0 <= List.length h -> sound_abs C en n0 -> gpost C R n0 h (iter step k en h).
Proof.
  intros step C Astep R n0 Hstep Hstable. induction k as [|k IH]; intros en h Hn Hs; cbn [iter].
  - split; [exact Hs|apply ext_refl].
  - specialize (Hstep en h Hn Hs). destruct (step en h) as [e1 h1|vs h1|h1|] eqn:E; cbn [gpost] in *; try exact Hstep.
    destruct Hstep as [S1 X1]. eapply gpost_ext; [exact X1|]. apply IH; [destruct X1; lia|auto].
Qed.

Theorem exec_sound : forall fuel s a en h n0,
  n0 <= List.length h -> sound_abs a en n0 ->
  elem_free s = true -> sites_local FS s a = true -> astable FS s a = true ->
  gpost (astep FS s a) (aret FS s a) n0 h (exec P fuel s en h).
Proof.
  induction fuel as [|n IH]; intros s a en h n0 Hn Hs Hf Hw Hst; [exact I|].
  unfold sites_local in *.
  destruct s as [|x e|x u|c s1 s2|x s1 s2|s1 s2|cnt b|xs f args kw|xs|]; cbn [exec elem_free asites astable astep aret] in *.
  - (* SSkip *) split; [exact Hs|apply ext_refl].
  - (* SAssign *)
    destruct (eval_expr e en h) as [[v h']|] eqn:E; [|apply ext_refl].
    destruct (eval_expr_sound _ a _ _ n0 _ _ E Hn Hs Hf) as [V X]. split; [|exact X]. now apply sound_aset.
  - (* SWrite *)
    destruct (lookup en x) as [v|] eqn:Ex; [|apply ext_refl]. destruct (do_write u en h v) as [h'|] eqn:E; [|apply ext_refl].
    cbn [forallb snd] in Hw. rewrite andb_true_r in Hw. split; [exact Hs|]. eapply do_write_ext; [exact E|]. eauto.
  - (* SIf *)
    rewrite forallb_app in Hw. apply andb_true_iff in Hf, Hw, Hst. destruct Hf as [F1 F2], Hw as [W1 W2], Hst as [T1 T2].
    destruct (c en h) as [[|]|]; [| |apply ext_refl].
    + eapply gpost_mono; [| |apply (IH s1 a en h n0); auto].
      * intros en'. apply sound_merge_l.
      * intro Hl. now apply local_app in Hl.
    + eapply gpost_mono; [| |apply (IH s2 a en h n0); auto].
      * intros en'. apply sound_merge_r.
      * intro Hl. now apply local_app in Hl.
  - (* SIfNotNone *)
    rewrite forallb_app in Hw. apply andb_true_iff in Hf, Hw, Hst. destruct Hf as [F1 F2], Hw as [W1 W2], Hst as [T1 T2].
    destruct (lookup en x) as [v|] eqn:Ex; [|apply ext_refl].
    assert (H1 : gpost (merge (astep FS s1 a) (astep FS s2 (refine_none a x))) (ounion (aret FS s1 a) (aret FS s2 (refine_none a x))) n0 h
                   (exec P n s1 en h)).
    { eapply gpost_mono; [| |apply (IH s1 a en h n0); auto].
      - intros en'. apply sound_merge_l.
      - intro Hl. now apply local_app in Hl. }
    destruct v as [|c|l|l s n']; try exact H1.
    eapply gpost_mono; [| |apply (IH s2 (refine_none a x) en h n0); auto].
    + intros en'. apply sound_merge_r.
    + intro Hl. now apply local_app in Hl.
    + now apply sound_refine_none.
  - (* SSeq *)
    rewrite forallb_app in Hw. apply andb_true_iff in Hf, Hw, Hst. destruct Hf as [F1 F2], Hw as [W1 W2], Hst as [T1 T2].
    pose proof (IH s1 a en h n0 Hn Hs F1 W1 T1) as H1.
    destruct (exec P n s1 en h) as [e1 h1|vs h1|h1|] eqn:E1; cbn [gpost] in H1.
    + destruct H1 as [S1 X1]. eapply gpost_ext; [exact X1|].
      eapply gpost_mono; [| |apply (IH s2 (astep FS s1 a) e1 h1 n0); auto].
      * auto.
      * intro Hl. now apply local_app in Hl.
      * destruct X1; lia.
    + cbn [gpost]. destruct H1 as [V1 X1]. split; [|exact X1]. intro Hl. apply local_app in Hl. now apply V1.
    + exact H1.
    + exact I.
  - (* SLoop *)
    apply andb_true_iff in Hst. destruct Hst as [Hleb T1].
    destruct (cnt en h) as [k|]; [|apply ext_refl].
    set (c1 := merge a (astep FS b a)) in *.
    eapply gpost_mono; [| |apply (iter_sound (exec P n b) c1 (astep FS b c1) (aret FS b c1) n0)].
    + intros en'. apply sound_merge_l.
    + auto.
    + intros en' h' Hn' Hs'. apply IH; auto.
    + intros en' Hs' y w Hy Hl. apply (Hs' y w Hy). eapply aleb_local_spec; eauto.
    + exact Hn.
    + now apply sound_merge_l.
  - (* SCall *)
    destruct (lookup_fn P f) as [d|] eqn:Ed; [|apply ext_refl]. destruct (lookup_all en args) as [vs|] eqn:Ea; [|apply ext_refl].
    destruct (enter d vs (kw_items en h kw) h) as [[cenv h1]|] eqn:Ee; [|apply ext_refl].
    destruct (enter_facts _ _ _ _ _ _ Ee) as [X1 [Sc Hc]].
    destruct (fun_ok _ _ Ed) as [Hwl Hfb]. unfold writes_local, writes_local_at in Hwl. apply andb_true_iff in Hwl. destruct Hwl as [Wb Tb].
    assert (Hn1 : List.length h <= List.length h1) by (destruct X1; lia).
    pose proof (IH (f_body d) (init_aenv d) cenv h1 (List.length h) Hn1 Sc Hfb Wb Tb) as Hb.
    pose proof (exec_prov n (f_body d) cenv h1 Hfb) as Hp.
    assert (X1' : ext n0 h h1) by (eapply ext_weaken; [exact Hn|exact X1]).
    (* the returned values are new whenever the abstract result is local *)
    assert (Hret : forall rs h2, exec P n (f_body d) cenv h1 = OReturn rs h2 ->
                   local (acall FS f args kw a) = true -> Forall (fresh_val n0) rs).
    { intros rs h2 Eo Hl. rewrite Eo in Hb, Hp. cbn [gpost prov] in Hb, Hp. unfold acall in Hl.
      destruct (existsb (String.eqb f) FS) eqn:Efs.
      - pose proof (summary_ok _ _ Efs Ed) as Hrf. unfold returns_fresh in Hrf.
        assert (Hloc : local (aret FS (f_body d) (init_aenv d)) = true).
        { unfold local. rewrite forallb_forall in *. intros o Ho. specialize (Hrf o Ho). now destruct o. }
        destruct Hb as [V _]. specialize (V Hloc). rewrite Forall_forall in *. intros v Hin.
        eapply fresh_val_weaken; [exact Hn|auto].
      - assert (Hargs : forall x, In x (args ++ match kw with Some k => [k] | None => [] end) -> local (aget a x) = true).
        { apply local_aunion. destruct (aunion a (args ++ match kw with Some k => [k] | None => [] end)) eqn:Eu; [reflexivity|exact Hl]. }
        destruct Hp as [L2 F2]. rewrite Forall_forall in *. intros v Hin l Hv.
        destruct (F2 v Hin l Hv) as [Hge|[y [w [Hy Hyw]]]]; [lia|].
        destruct (Hc y w Hy) as [Hin'| ->].
        + destruct (lookup_all_in _ _ _ Ea _ Hin') as [z [Hz Hlz]]. apply (Hs z w Hlz); [|exact Hyw].
          apply Hargs. apply in_or_app. now left.
        + cbn in Hyw. injection Hyw as <-. exact Hn. }
    destruct (exec P n (f_body d) cenv h1) as [e2 h2|rs h2|h2|] eqn:Eo; cbn [finish_call gpost] in *.
    + destruct Hb as [_ X2]. assert (X : ext n0 h h2) by (eapply ext_trans; [exact X1'|eapply ext_weaken; [exact Hn|exact X2]]).
      destruct xs as [|x [|x' xt]]; cbn [gpost].
      * split; [exact Hs|exact X].
      * split; [|exact X]. unfold aset_all. cbn [fold_left]. apply sound_aset; [exact Hs|]. intros _ l Hv. discriminate.
      * exact X.
    + destruct Hb as [_ X2]. assert (X : ext n0 h h2) by (eapply ext_trans; [exact X1'|eapply ext_weaken; [exact Hn|exact X2]]).
      destruct (ebind_all xs rs en) as [e'|] eqn:Eb; cbn [gpost]; [|exact X]. split; [|exact X].
      eapply sound_aset_all; [exact Hs|exact Eb|]. intro Hl. eapply Hret; eauto.
    + eapply ext_trans; [exact X1'|eapply ext_weaken; [exact Hn|exact Hb]].
    + exact I.
  - (* SReturn *)
    destruct (lookup_all en xs) as [vs|] eqn:E; [|apply ext_refl]. split; [|apply ext_refl].
    intro Hl. rewrite Forall_forall. intros v Hin. destruct (lookup_all_in _ _ _ E _ Hin) as [y [Hy Hly]].
    apply (Hs y v Hly). eapply local_aunion; eauto.
  - (* SRaise *) apply ext_refl.
Qed.

(* ------------------------------------------------------------------------------------------------ main theorems *)
(* Statement level: a body whose write sites are all local, started in an environment that binds the parameters
   (to anything: in particular to objects of the initial heap), cannot change any object of the initial heap. *)
Theorem exec_preserves_caller_objects : forall fuel body en h0 h',
  elem_free body = true ->
  writes_local_at FS body (map (fun p => (p, [Param p])) (map fst en)) = true ->
  out_heap (exec P fuel body en h0) = Some h' ->
  forall l, l < next_loc h0 -> hget h' l = hget h0 l.
Proof.
  intros fuel body en h0 h' Hf Hw Ho l Hl. unfold writes_local_at in Hw. apply andb_true_iff in Hw. destruct Hw as [W T].
  assert (Hs : sound_abs (map (fun p => (p, [Param p])) (map fst en)) en (List.length h0)).
  { intros x v _ Hloc. rewrite params_not_local in Hloc. discriminate. }
  pose proof (exec_sound fuel body _ en h0 (List.length h0) (le_n _) Hs Hf W T) as Hp.
  destruct (exec P fuel body en h0) as [e1 h1|vs h1|h1|]; cbn in Ho; try discriminate; injection Ho as <-; cbn [gpost] in Hp;
    unfold ext in Hp; intuition.
Qed.

(* Function level, as a caller sees it: call d with argument values vs and keyword items in heap h0.
   Whatever the outcome (return, falling off the end, exception), every object of h0 is unchanged. *)
Theorem caller_objects_preserved : forall fuel d vs items h0 h',
  writes_local FS d = true -> elem_free (f_body d) = true ->
  out_heap (invoke P fuel d vs items h0) = Some h' ->
  forall l, l < next_loc h0 -> hget h' l = hget h0 l.
Proof.
  intros fuel d vs items h0 h' Hw Hf Ho l Hl. unfold invoke in Ho.
  destruct (enter d vs items h0) as [[cenv h1]|] eqn:Ee; [|cbn in Ho; now injection Ho as <-].
  destruct (enter_facts _ _ _ _ _ _ Ee) as [X1 [Sc _]].
  unfold writes_local, writes_local_at in Hw. apply andb_true_iff in Hw. destruct Hw as [W T].
  assert (Hn1 : List.length h0 <= List.length h1) by (destruct X1; lia).
  pose proof (exec_sound fuel (f_body d) _ cenv h1 (List.length h0) Hn1 Sc Hf W T) as Hp.
  destruct X1 as [_ E1].
  destruct (exec P fuel (f_body d) cenv h1) as [e2 h2|rs h2|h2|]; cbn in Ho; try discriminate; injection Ho as <-; cbn [gpost] in Hp;
    unfold ext in Hp; rewrite <- (E1 l Hl); intuition.
Qed.

(* in particular the arguments themselves *)
Corollary arguments_preserved : forall fuel d vs items h0 h' v l,
  writes_local FS d = true -> elem_free (f_body d) = true ->
  out_heap (invoke P fuel d vs items h0) = Some h' ->
  In v vs -> vloc v = Some l -> l < next_loc h0 -> hget h' l = hget h0 l.
Proof. intros. eapply caller_objects_preserved; eauto. Qed.

(* the meaning of the "returns only fresh values" summaries: such a function hands back only objects it allocated *)
Theorem returns_fresh_sound : forall fuel d vs items h0 rs h',
  writes_local FS d = true -> elem_free (f_body d) = true -> returns_fresh FS d = true ->
  invoke P fuel d vs items h0 = OReturn rs h' ->
  Forall (fun v => forall l, vloc v = Some l -> next_loc h0 <= l) rs.
Proof.
  intros fuel d vs items h0 rs h' Hw Hf Hr Ho. unfold invoke in Ho.
  destruct (enter d vs items h0) as [[cenv h1]|] eqn:Ee; [|discriminate].
  destruct (enter_facts _ _ _ _ _ _ Ee) as [X1 [Sc _]].
  unfold writes_local, writes_local_at in Hw. apply andb_true_iff in Hw. destruct Hw as [W T].
  assert (Hn1 : List.length h0 <= List.length h1) by (destruct X1; lia).
  pose proof (exec_sound fuel (f_body d) _ cenv h1 (List.length h0) Hn1 Sc Hf W T) as Hp.
  rewrite Ho in Hp. cbn [gpost] in Hp. destruct Hp as [V _]. apply V.
  unfold returns_fresh in Hr. unfold local. rewrite forallb_forall in *. intros o Hin. specialize (Hr o Hin). now destruct o.
Qed.
End Sound.

Definition c7 : val := VScal (CNum (7#1)).
Definition shallow_copy (x : var) : env -> heap -> option obj :=
  fun en h => match lookup en x with
              | Some (VRef l) => match hget h l with Some (OList xs) => Some (OList xs) | _ => None end
              | _ => None end.
Definition append_val (v : val) : upd := UObj (fun _ _ o => match o with OList xs => Some (OList (xs ++ [v])) | _ => None end).

(* the hypotheses are satisfiable and the conclusion is about runs that happen:  def f(p): y = list(p); y.append(7); return y *)
Definition copy_then_write : fdef :=
  mk_fdef ["p"] None (SSeq (SAssign "y" (EFresh (shallow_copy "p"))) (SSeq (SWrite "y" (append_val c7)) (SReturn ["y"]))).
Example caller_objects_preserved_applies :
  prog_ok [("f", copy_then_write)] ["f"] = true /\
  writes_local ["f"] copy_then_write = true /\ elem_free (f_body copy_then_write) = true /\ returns_fresh ["f"] copy_then_write = true /\
  invoke [("f", copy_then_write)] 10 copy_then_write [VRef 0] [] [OList [VNone]] = OReturn [VRef 1] [OList [VNone]; OList [VNone; c7]].
Proof. repeat split; vm_compute; reflexivity. Qed.

(* exec is a Gallina function: the outcome (returned values, final heap, exception) is determined by the program,
   the environment and the heap - there is no hidden state a second call could depend on. *)
Theorem deterministic : forall P fuel s en h o1 o2, exec P fuel s en h = o1 -> exec P fuel s en h = o2 -> o1 = o2.
Proof. intros. congruence. Qed.

(* ------------------------------------------------------------------------------------------------ the hypotheses are needed *)
(* def f(p): y = list(p); e = y[0]; e.append(7)           the translator reports e.append(7) with origins [Fresh] *)
Definition nested_body : stmt :=
  SSeq (SAssign "y" (EFresh (shallow_copy "p")))
 (SSeq (SAssign "e" (EElem "y" (fun _ _ => Some 0)))
       (SWrite "e" (append_val c7))).
Definition nested_heap : heap := [OList [VScal (CNum (1#1))]; OList [VRef 0]].     (* p = [[1]] : inner list at 0, outer at 1 *)

Theorem elem_rule_unsound_refuted :
  exists body en h0 h' l,
    writes_local_at [] body (map (fun p => (p, [Param p])) (map fst en)) = true /\
    out_heap (exec [] 10 body en h0) = Some h' /\ l < next_loc h0 /\ hget h' l <> hget h0 l.
Proof.
  exists nested_body, [("p", VRef 1)], nested_heap, (hset (nested_heap ++ [OList [VRef 0]]) 0 (OList [VScal (CNum (1#1)); c7])), 0.
  split; [vm_compute; reflexivity|]. split; [vm_compute; reflexivity|]. split; [cbn; lia|]. cbn. discriminate.
Qed.

(* def f(p, n):  a = []; b = []; c = []
                 for _ in range(n): a.append(7); a = b; b = c; c = p       the translator reports a.append(7) as [Fresh] *)
Definition new_list : expr := EFresh (fun _ _ => Some (OList [])).
Definition chain_body : stmt :=
  SSeq (SAssign "a" new_list) (SSeq (SAssign "b" new_list) (SSeq (SAssign "c" new_list)
  (SLoop (fun _ _ => Some 4)
     (SSeq (SWrite "a" (append_val c7)) (SSeq (SAssign "a" (EAlias "b")) (SSeq (SAssign "b" (EAlias "c")) (SAssign "c" (EAlias "p")))))))).

Theorem two_pass_loop_unsound_refuted :
  exists body en h0 h' l,
    elem_free body = true /\
    sites_local [] body (map (fun p => (p, [Param p])) (map fst en)) = true /\
    astable [] body (map (fun p => (p, [Param p])) (map fst en)) = false /\
    out_heap (exec [] 20 body en h0) = Some h' /\ l < next_loc h0 /\ hget h' l <> hget h0 l.
Proof.
  exists chain_body, [("p", VRef 0)], [OList []].
  eexists. exists 0.
  split; [reflexivity|]. split; [vm_compute; reflexivity|]. split; [vm_compute; reflexivity|].
  split; [vm_compute; reflexivity|]. split; [cbn; lia|]. cbn. discriminate.
Qed.

Print Assumptions exec_sound.
Print Assumptions exec_preserves_caller_objects.
Print Assumptions caller_objects_preserved.
Print Assumptions arguments_preserved.
Print Assumptions returns_fresh_sound.
Print Assumptions deterministic.
Print Assumptions elem_rule_unsound_refuted.
Print Assumptions two_pass_loop_unsound_refuted.
