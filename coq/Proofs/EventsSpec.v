(* Specifications of Model.Events: util.f_measure, _fast_hit_windows, the np.where(distance <= window) path,
   the graph construction of match_events and the correctness of match_events (valid + maximum matching). *)
From Coq Require Import List Bool Arith ZArith QArith Qabs Qminmax Lia Lqa Permutation Sorted.
From ME Require Import Model.Prelude Model.Dict Model.Matching Model.Events.
From ME Require Import Proofs.HKRecurse Proofs.HKLayering Proofs.HKCorrect Proofs.MaxMatching.
Import ListNotations.

(* ------------------------------------------------------------------------------------------ *)
(* boolean comparisons                                                                         *)
(* ------------------------------------------------------------------------------------------ *)
Lemma qltb_true a b : qltb a b = true <-> a < b.
Proof. unfold qltb. rewrite negb_true_iff. split.
  - intros H. apply Qnot_le_lt. intros Hle. apply Qle_bool_iff in Hle. congruence.
  - intros H. destruct (Qle_bool b a) eqn:E; [|reflexivity]. apply Qle_bool_iff in E. exfalso. eapply Qlt_not_le; eauto. Qed.
Lemma qltb_false a b : qltb a b = false <-> b <= a.
Proof. unfold qltb. rewrite negb_false_iff. apply Qle_bool_iff. Qed.
Lemma qleb_true a b : qleb a b = true <-> a <= b.
Proof. apply Qle_bool_iff. Qed.
Lemma qleb_false a b : qleb a b = false <-> b < a.
Proof. unfold qleb. split.
  - intros H. apply Qnot_le_lt. intros Hle. apply Qle_bool_iff in Hle. congruence.
  - intros H. destruct (Qle_bool a b) eqn:E; [|reflexivity]. apply Qle_bool_iff in E. exfalso. eapply Qlt_not_le; eauto. Qed.
Lemma qeqb_true a b : qeqb a b = true <-> a == b.
Proof. apply Qeq_bool_iff. Qed.
Lemma qeqb_false a b : qeqb a b = false <-> ~ a == b.
Proof. unfold qeqb. split.
  - intros H E. apply Qeq_bool_iff in E. congruence.
  - intros H. destruct (Qeq_bool a b) eqn:E; [|reflexivity]. apply Qeq_bool_iff in E. contradiction. Qed.

(* ------------------------------------------------------------------------------------------ *)
(* util.f_measure                                                                              *)
(* ------------------------------------------------------------------------------------------ *)
Lemma Qdiv_le_cross a b c d : 0 < b -> 0 < d -> a * d <= c * b -> a / b <= c / d.
Proof. intros Hb Hd H. apply Qle_shift_div_l; [exact Hd|].
  assert (E : a / b * d == (a * d) / b) by (unfold Qdiv; ring). rewrite E.
  apply Qle_shift_div_r; [exact Hb|exact H]. Qed.
Lemma Qdiv_0_num a b : a == 0 -> a / b == 0.
Proof. intros H. unfold Qdiv. rewrite H. ring. Qed.

Lemma f_measure_r0 p r beta : r == 0 -> f_measure p r beta == 0.
Proof. intros Hr. unfold f_measure. destruct (qeqb p 0 && qeqb r 0); [reflexivity|].
  apply Qdiv_0_num. rewrite Hr. ring. Qed.
Lemma f_measure_p0 p r beta : p == 0 -> f_measure p r beta == 0.
Proof. intros Hp. unfold f_measure. destruct (qeqb p 0 && qeqb r 0); [reflexivity|].
  apply Qdiv_0_num. rewrite Hp. ring. Qed.
Lemma f_measure_pos_r p r beta : 0 < r ->
  f_measure p r beta = (1 + beta * beta) * p * r / (beta * beta * p + r).
Proof. intros Hr. unfold f_measure. destruct (qeqb r 0) eqn:E.
  - apply qeqb_true in E. lra.
  - now rewrite andb_false_r. Qed.
Lemma f_measure_pos_p p r beta : 0 < p ->
  f_measure p r beta = (1 + beta * beta) * p * r / (beta * beta * p + r).
Proof. intros Hp. unfold f_measure. destruct (qeqb p 0) eqn:E.
  - apply qeqb_true in E. lra.
  - reflexivity. Qed.

Theorem f_measure_range p r beta : 0 <= p <= 1 -> 0 <= r <= 1 -> 0 < beta -> 0 <= f_measure p r beta <= 1.
Proof. intros [Hp0 Hp1] [Hr0 Hr1] Hb.
  destruct (Qlt_le_dec 0 r) as [Hr|Hr].
  - rewrite (f_measure_pos_r p r beta Hr).
    assert (Hbb : 0 < beta * beta) by (apply Qmult_lt_0_compat; exact Hb).
    set (B := beta * beta) in *. clearbody B.
    assert (H1 : 0 <= B * p) by (apply Qmult_le_0_compat; lra).
    assert (H2 : 0 <= p * r) by (apply Qmult_le_0_compat; lra).
    assert (H3 : 0 <= B * (p * r)) by (apply Qmult_le_0_compat; lra).
    assert (H4 : 0 <= r * (1 - p)) by (apply Qmult_le_0_compat; lra).
    assert (H5 : 0 <= (B * p) * (1 - r)) by (apply Qmult_le_0_compat; lra).
    assert (HD : 0 < B * p + r) by lra.
    split.
    + apply Qle_shift_div_l; [exact HD|]. lra.
    + apply Qle_shift_div_r; [exact HD|]. lra.
  - assert (E : r == 0) by lra. rewrite (f_measure_r0 p r beta E). lra. Qed.
Example f_measure_range_ex : 0 <= f_measure (1#2) (1#3) 2 <= 1.
Proof. apply f_measure_range; lra. Qed.

Theorem f_measure_sym p r : f_measure p r 1 == f_measure r p 1.
Proof. unfold f_measure. rewrite andb_comm. destruct (qeqb r 0 && qeqb p 0)%bool eqn:E; [reflexivity|].
  destruct (Qeq_dec (p + r) 0) as [Z|NZ].
  - assert (Hi : forall x, x == 0 -> / x == 0) by (intros x Hx; rewrite Hx; reflexivity).
    unfold Qdiv. rewrite (Hi (1*1*p + r)), (Hi (1*1*r + p)) by lra. ring.
  - field. intros Z0; apply NZ; lra. Qed.

Theorem f_measure_mono_p p1 p2 r beta : 0 <= p1 -> p1 <= p2 -> p2 <= 1 -> 0 <= r <= 1 -> 0 < beta ->
  f_measure p1 r beta <= f_measure p2 r beta.
Proof. intros Hp0 Hp12 Hp1 [Hr0 Hr1] Hb.
  destruct (Qlt_le_dec 0 r) as [Hr|Hr].
  - rewrite (f_measure_pos_r p1 r beta Hr), (f_measure_pos_r p2 r beta Hr).
    assert (Hbb : 0 < beta * beta) by (apply Qmult_lt_0_compat; exact Hb).
    apply Qdiv_le_cross; [nra|nra|].
    assert (E : (1 + beta * beta) * p2 * r * (beta * beta * p1 + r) - (1 + beta * beta) * p1 * r * (beta * beta * p2 + r)
                == (1 + beta * beta) * (r * r) * (p2 - p1)) by ring.
    assert (0 <= (1 + beta * beta) * (r * r) * (p2 - p1)); [|lra].
    apply Qmult_le_0_compat; [apply Qmult_le_0_compat|]; nra.
  - assert (E : r == 0) by lra. rewrite (f_measure_r0 p1 r beta E), (f_measure_r0 p2 r beta E). lra. Qed.
Theorem f_measure_mono_r p r1 r2 beta : 0 <= p <= 1 -> 0 <= r1 -> r1 <= r2 -> r2 <= 1 -> 0 < beta ->
  f_measure p r1 beta <= f_measure p r2 beta.
Proof. intros [Hp0 Hp1] Hr0 Hr12 Hr1 Hb.
  destruct (Qlt_le_dec 0 p) as [Hp|Hp].
  - rewrite (f_measure_pos_p p r1 beta Hp), (f_measure_pos_p p r2 beta Hp).
    assert (Hbb : 0 < beta * beta) by (apply Qmult_lt_0_compat; exact Hb).
    assert (Hbp : 0 < beta * beta * p) by nra.
    apply Qdiv_le_cross; [nra|nra|].
    assert (E : (1 + beta * beta) * p * r2 * (beta * beta * p + r1) - (1 + beta * beta) * p * r1 * (beta * beta * p + r2)
                == (1 + beta * beta) * (p * (beta * beta * p)) * (r2 - r1)) by ring.
    assert (0 <= (1 + beta * beta) * (p * (beta * beta * p)) * (r2 - r1)); [|lra].
    apply Qmult_le_0_compat; [apply Qmult_le_0_compat|]; nra.
  - assert (E : p == 0) by lra. rewrite (f_measure_p0 p r1 beta E), (f_measure_p0 p r2 beta E). lra. Qed.
Example f_measure_mono_ex : f_measure (1#3) (1#2) 2 <= f_measure (2#3) (1#2) 2 /\ f_measure (1#2) (1#3) 2 <= f_measure (1#2) (2#3) 2.
Proof. split; [apply f_measure_mono_p|apply f_measure_mono_r]; lra. Qed.

(* (1 + b^2) / (b^2 + 1): no condition on beta is needed *)
Theorem f_measure_one beta : f_measure 1 1 beta == 1.
Proof. rewrite f_measure_pos_r by lra. field. nra. Qed.

(* ------------------------------------------------------------------------------------------ *)
(* generic list facts                                                                          *)
(* ------------------------------------------------------------------------------------------ *)
Open Scope nat_scope.
Lemma nodup_app {A} (a b : list A) : NoDup a -> NoDup b -> (forall x, In x a -> ~ In x b) -> NoDup (a ++ b).
Proof. induction a as [|x a IH]; simpl; intros Ha Hb H; [exact Hb|]. inversion Ha; subst. constructor.
  - rewrite in_app_iff. intros [Hi|Hi]; [contradiction|]. apply (H x); [now left|exact Hi].
  - apply IH; auto. Qed.
Lemma NoDup_flat_map_key {A B} (key : A -> nat) (proj : B -> nat) (f : A -> list B) l :
  NoDup (map key l) -> (forall x, In x l -> NoDup (f x)) -> (forall x y, In x l -> In y (f x) -> proj y = key x) ->
  NoDup (flat_map f l).
Proof. induction l as [|x l IH]; simpl; intros ND Hf Hk; [constructor|]. inversion ND as [|? ? Hx ND']; subst.
  apply nodup_app.
  - apply Hf. now left.
  - apply IH; auto.
  - intros y Hy Hy'. apply in_flat_map in Hy'. destruct Hy' as (x' & Hx' & Hy').
    apply Hx. rewrite <- (Hk x y (or_introl eq_refl) Hy), (Hk x' y (or_intror Hx') Hy'). now apply in_map. Qed.
Lemma in_combine_seq_r {A} (l : list A) : forall s x i, In (x, i) (combine l (seq s (length l))) <-> s <= i /\ nth_error l (i - s) = Some x.
Proof. induction l as [|y l IH]; intros s x i; simpl.
  - split; [tauto|]. intros [_ H]. destruct (i - s); discriminate.
  - rewrite IH. split.
    + intros [H|[H1 H2]].
      * inversion H; subst. rewrite Nat.sub_diag. split; [lia|reflexivity].
      * split; [lia|]. replace (i - s) with (S (i - S s)) by lia. exact H2.
    + intros [H1 H2]. destruct (i - s) as [|k] eqn:E.
      * left. simpl in H2. inversion H2; subst. f_equal. lia.
      * right. simpl in H2. split; [lia|]. replace (i - S s) with k by lia. exact H2. Qed.
Lemma in_combine_seq_l {A} (l : list A) : forall s x i, In (i, x) (combine (seq s (length l)) l) <-> s <= i /\ nth_error l (i - s) = Some x.
Proof. induction l as [|y l IH]; intros s x i; simpl.
  - split; [tauto|]. intros [_ H]. destruct (i - s); discriminate.
  - rewrite IH. split.
    + intros [H|[H1 H2]].
      * inversion H; subst. rewrite Nat.sub_diag. split; [lia|reflexivity].
      * split; [lia|]. replace (i - s) with (S (i - S s)) by lia. exact H2.
    + intros [H1 H2]. destruct (i - s) as [|k] eqn:E.
      * left. simpl in H2. inversion H2; subst. f_equal. lia.
      * right. simpl in H2. split; [lia|]. replace (i - S s) with k by lia. exact H2. Qed.
Lemma in_combine_idx_r {A} (l : list A) x i : In (x, i) (combine l (seq 0 (length l))) <-> nth_error l i = Some x.
Proof. rewrite in_combine_seq_r. rewrite Nat.sub_0_r. split; [tauto|]. intros H; split; [lia|exact H]. Qed.
Lemma in_combine_idx_l {A} (l : list A) x i : In (i, x) (combine (seq 0 (length l)) l) <-> nth_error l i = Some x.
Proof. rewrite in_combine_seq_l. rewrite Nat.sub_0_r. split; [tauto|]. intros H; split; [lia|exact H]. Qed.
Lemma map_fst_combine {A B} (a : list A) : forall (b : list B), length a = length b -> map fst (combine a b) = a.
Proof. induction a as [|x a IH]; intros [|y b] H; simpl in *; try discriminate; [reflexivity|]. f_equal. apply IH. lia. Qed.
Lemma map_snd_combine {A B} (a : list A) : forall (b : list B), length a = length b -> map snd (combine a b) = b.
Proof. induction a as [|x a IH]; intros [|y b] H; simpl in *; try discriminate; [reflexivity|]. f_equal. apply IH. lia. Qed.
Lemma in_nth_error_iff {A} (l : list A) x : In x l <-> exists k, nth_error l k = Some x.
Proof. split; [apply In_nth_error| intros [k H]; eapply nth_error_In; eauto]. Qed.
Lemma nth_error_skipn' {A} (l : list A) : forall a k, nth_error (skipn a l) k = nth_error l (a + k).
Proof. induction l as [|x l IH]; intros [|a] k; simpl; auto. now destruct k. Qed.
Lemma nth_error_firstn' {A} (l : list A) : forall n k, nth_error (firstn n l) k = if k <? n then nth_error l k else None.
Proof. induction l as [|x l IH]; intros n k.
  - rewrite firstn_nil. destruct k; simpl; now destruct (_ <? _).
  - destruct n as [|n]; [destruct k; reflexivity|]. destruct k as [|k]; [reflexivity|].
    cbn [firstn nth_error]. rewrite IH. reflexivity. Qed.
Lemma in_slice {A} (l : list A) a b x : In x (firstn (b - a) (skipn a l)) <-> exists k, a <= k < b /\ nth_error l k = Some x.
Proof. rewrite in_nth_error_iff. split.
  - intros [k H]. rewrite nth_error_firstn' in H. destruct (k <? b - a) eqn:E; [|discriminate].
    apply Nat.ltb_lt in E. rewrite nth_error_skipn' in H. exists (a + k). split; [lia|exact H].
  - intros [k [Hk H]]. exists (k - a). rewrite nth_error_firstn'. replace (k - a <? b - a) with true by (symmetry; apply Nat.ltb_lt; lia).
    rewrite nth_error_skipn'. replace (a + (k - a)) with k by lia. exact H. Qed.
Lemma NoDup_skipn {A} (l : list A) : forall n, NoDup l -> NoDup (skipn n l).
Proof. induction l as [|x l IH]; intros [|n] H; simpl; auto. inversion H; subst. now apply IH. Qed.
Lemma NoDup_firstn {A} (l : list A) : forall n, NoDup l -> NoDup (firstn n l).
Proof. induction l as [|x l IH]; intros [|n] H; simpl; auto; [constructor|]. inversion H as [|? ? Hx H']; subst. constructor; [|now apply IH].
  intros Hi. apply Hx. clear - Hi. revert n Hi. induction l as [|y l IHl]; intros [|n] Hi; simpl in *; try tauto.
  destruct Hi as [->|Hi]; [now left| right; eauto]. Qed.

(* take_while on a sorted list with a downward-closed predicate *)
Lemma tw_nth {A} (R : A -> A -> Prop) (p : A -> bool) s :
  StronglySorted R s -> (forall x y, R x y -> p y = true -> p x = true) ->
  forall k, k < length (take_while p s) <-> exists x, nth_error s k = Some x /\ p x = true.
Proof. intros HS Hp. induction HS as [|x s HS IH HF]; intros k; simpl.
  - split; [lia|]. intros (x & H & _). destruct k; discriminate.
  - destruct (p x) eqn:E; simpl.
    + destruct k as [|k]; simpl.
      * split; [intros _; exists x; auto| lia].
      * rewrite <- IH. lia.
    + split; [lia|]. intros (y & H & Hy). exfalso. destruct k as [|k]; simpl in H.
      * inversion H; subst. congruence.
      * apply nth_error_In in H. rewrite Forall_forall in HF. apply HF in H. apply Hp in H; [congruence|exact Hy]. Qed.
Lemma StronglySorted_map {A B} (R : B -> B -> Prop) (f : A -> B) l :
  StronglySorted (fun a b => R (f a) (f b)) l -> StronglySorted R (map f l).
Proof. induction 1 as [|x l HS IH HF]; simpl; constructor; auto. rewrite Forall_map. exact HF. Qed.

(* ------------------------------------------------------------------------------------------ *)
(* the stable argsort                                                                          *)
(* ------------------------------------------------------------------------------------------ *)
Open Scope Q_scope.
Definition key_le (a b : Q * nat) : Prop := fst a <= fst b.
Lemma ins_sorted_perm x l : Permutation (ins_sorted x l) (x :: l).
Proof. induction l as [|y l IH]; simpl; [reflexivity|]. destruct (qltb (fst x) (fst y)); [reflexivity|].
  rewrite IH. apply perm_swap. Qed.
Lemma ins_sorted_sorted x l : StronglySorted key_le l -> StronglySorted key_le (ins_sorted x l).
Proof. induction 1 as [|y l HS IH HF]; simpl; [constructor; [constructor|constructor]|].
  destruct (qltb (fst x) (fst y)) eqn:E.
  - apply qltb_true in E. constructor; [constructor; auto|]. constructor; [unfold key_le; lra|].
    rewrite Forall_forall in *. intros z Hz. specialize (HF z Hz). unfold key_le in *. lra.
  - apply qltb_false in E. constructor; [exact IH|]. eapply Permutation_Forall; [symmetry; apply ins_sorted_perm|].
    constructor; [exact E|exact HF]. Qed.
Lemma sort_fold_spec xs : forall acc, StronglySorted key_le acc ->
  StronglySorted key_le (fold_left (fun acc x => ins_sorted x acc) xs acc) /\
  Permutation (fold_left (fun acc x => ins_sorted x acc) xs acc) (xs ++ acc).
Proof. induction xs as [|x xs IH]; intros acc HS; simpl; [split; [exact HS|reflexivity]|].
  destruct (IH (ins_sorted x acc) (ins_sorted_sorted x acc HS)) as [H1 H2]. split; [exact H1|].
  rewrite H2. rewrite ins_sorted_perm. symmetry. apply Permutation_middle. Qed.
Lemma sort_indexed_sorted l : StronglySorted key_le (sort_indexed l).
Proof. apply sort_fold_spec. constructor. Qed.
Lemma sort_indexed_perm l : Permutation (sort_indexed l) (combine l (seq 0 (length l))).
Proof. unfold sort_indexed. destruct (sort_fold_spec (combine l (seq 0 (length l))) [] (SSorted_nil _)) as [_ H].
  rewrite H. now rewrite app_nil_r. Qed.
Lemma sort_indexed_in l r i : In (r, i) (sort_indexed l) <-> nth_error l i = Some r.
Proof. rewrite <- in_combine_idx_r. split; apply Permutation_in; [|symmetry]; apply sort_indexed_perm. Qed.
Lemma argsort_perm l : Permutation (argsort l) (seq 0 (length l)).
Proof. unfold argsort. rewrite (Permutation_map snd (sort_indexed_perm l)). rewrite map_snd_combine; [reflexivity|now rewrite seq_length]. Qed.
Lemma argsort_NoDup l : NoDup (argsort l).
Proof. eapply Permutation_NoDup; [symmetry; apply argsort_perm|apply seq_NoDup]. Qed.

(* ------------------------------------------------------------------------------------------ *)
(* _fast_hit_windows == np.where(abs(np.subtract.outer(ref, est)) <= window)                    *)
(* ------------------------------------------------------------------------------------------ *)
(* ref[i] and est[j] exist and are within the window *)
Definition hit (ref est : list Q) (w : Q) (i j : nat) : Prop :=
  exists r e, nth_error ref i = Some r /\ nth_error est j = Some e /\ Qabs (r - e) <= w.
Definition hit_dist (dist : Q -> Q -> Q) (ref est : list Q) (w : Q) (i j : nat) : Prop :=
  exists r e, nth_error ref i = Some r /\ nth_error est j = Some e /\ dist r e <= w.

Lemma window_slice (si : list (Q * nat)) (e w : Q) i : StronglySorted key_le si ->
  In i (firstn (searchsorted_right (map fst si) (e + w) - searchsorted_left (map fst si) (e - w))
               (skipn (searchsorted_left (map fst si) (e - w)) (map snd si)))
  <-> exists r, In (r, i) si /\ Qabs (r - e) <= w.
Proof. intros HS. rewrite in_slice.
  assert (HSf : StronglySorted Qle (map fst si)) by (apply StronglySorted_map; exact HS).
  assert (TL := tw_nth Qle (fun y => qltb y (e - w)) (map fst si) HSf).
  assert (TR := tw_nth Qle (fun y => qleb y (e + w)) (map fst si) HSf).
  unfold searchsorted_left, searchsorted_right.
  assert (ML : forall x y, x <= y -> qltb y (e - w) = true -> qltb x (e - w) = true).
  { intros x y H1 H2. apply qltb_true in H2. apply qltb_true. lra. }
  assert (MR : forall x y, x <= y -> qleb y (e + w) = true -> qleb x (e + w) = true).
  { intros x y H1 H2. apply qleb_true in H2. apply qleb_true. lra. }
  specialize (TL ML). specialize (TR MR). split.
  - intros (k & [Ha Hb] & Hk). rewrite nth_error_map in Hk. destruct (nth_error si k) as [[r i']|] eqn:Ek; [|discriminate].
    simpl in Hk. inversion Hk; subst i'. exists r. split; [eapply nth_error_In; eauto|].
    assert (Er : nth_error (map fst si) k = Some r) by (rewrite nth_error_map, Ek; reflexivity).
    apply TR in Hb. destruct Hb as (x & Hx & Hle). rewrite Er in Hx. inversion Hx; subst x. apply qleb_true in Hle.
    assert (Hge : e - w <= r).
    { destruct (qltb r (e - w)) eqn:El; [|now apply qltb_false in El]. exfalso.
      assert (k < length (take_while (fun y => qltb y (e - w)) (map fst si)))%nat by (apply TL; exists r; auto). lia. }
    apply Qabs_Qle_condition. split; lra.
  - intros (r & Hin & Hab). apply Qabs_Qle_condition in Hab. destruct Hab as [H1 H2].
    apply In_nth_error in Hin. destruct Hin as [k Hk]. exists k.
    assert (Er : nth_error (map fst si) k = Some r) by (rewrite nth_error_map, Hk; reflexivity).
    split; [split|].
    + destruct (le_lt_dec (length (take_while (fun y => qltb y (e - w)) (map fst si))) k) as [H|H]; [exact H|exfalso].
      apply TL in H. destruct H as (x & Hx & Hlt). rewrite Er in Hx. inversion Hx; subst x. apply qltb_true in Hlt. lra.
    + apply TR. exists r. split; [exact Er|]. apply qleb_true. lra.
    + rewrite nth_error_map, Hk. reflexivity. Qed.

Theorem fast_hit_windows_spec ref est w i j : In (i, j) (fast_hit_windows ref est w) <-> hit ref est w i j.
Proof. unfold fast_hit_windows, hit. rewrite in_flat_map. split.
  - intros ([j' e] & Hje & Hin). apply in_combine_idx_l in Hje. apply in_map_iff in Hin. destruct Hin as (i' & Heq & Hin).
    inversion Heq; subst i' j'. apply (window_slice (sort_indexed ref) e w i (sort_indexed_sorted ref)) in Hin.
    destruct Hin as (r & Hr & Hab). apply sort_indexed_in in Hr. exists r, e. auto.
  - intros (r & e & Hr & He & Hab). exists (j, e). split; [now apply in_combine_idx_l|].
    apply in_map_iff. exists i. split; [reflexivity|].
    apply (window_slice (sort_indexed ref) e w i (sort_indexed_sorted ref)). exists r. split; [now apply sort_indexed_in|exact Hab]. Qed.

Theorem fast_hit_windows_NoDup ref est w : NoDup (fast_hit_windows ref est w).
Proof. unfold fast_hit_windows. apply (NoDup_flat_map_key (fun je : nat * Q => fst je) (fun p : nat * nat => snd p)).
  - rewrite map_fst_combine; [apply seq_NoDup|now rewrite seq_length].
  - intros [j e] _. apply FinFun.Injective_map_NoDup; [intros a b H; now inversion H|].
    apply NoDup_firstn, NoDup_skipn. apply argsort_NoDup.
  - intros [j e] y _ Hy. apply in_map_iff in Hy. destruct Hy as (r & <- & _). reflexivity. Qed.

Theorem hits_by_distance_spec dist ref est w i j : In (i, j) (hits_by_distance dist ref est w) <-> hit_dist dist ref est w i j.
Proof. unfold hits_by_distance, hit_dist. rewrite in_flat_map. split.
  - intros ([i' r] & Hir & Hin). apply in_combine_idx_l in Hir. apply in_flat_map in Hin. destruct Hin as ([j' e] & Hje & Hin).
    apply in_combine_idx_l in Hje. destruct (qleb (dist r e) w) eqn:E; [|contradiction]. destruct Hin as [Heq|[]].
    inversion Heq; subst i' j'. apply qleb_true in E. exists r, e. auto.
  - intros (r & e & Hr & He & Hd). exists (i, r). split; [now apply in_combine_idx_l|]. apply in_flat_map.
    exists (j, e). split; [now apply in_combine_idx_l|]. apply qleb_true in Hd. rewrite Hd. now left. Qed.
Theorem hits_by_distance_NoDup dist ref est w : NoDup (hits_by_distance dist ref est w).
Proof. unfold hits_by_distance. apply (NoDup_flat_map_key (fun ir : nat * Q => fst ir) (fun p : nat * nat => fst p)).
  - rewrite map_fst_combine; [apply seq_NoDup|now rewrite seq_length].
  - intros [i r] _. apply (NoDup_flat_map_key (fun je : nat * Q => fst je) (fun p : nat * nat => snd p)).
    + rewrite map_fst_combine; [apply seq_NoDup|now rewrite seq_length].
    + intros [j e] _. destruct (qleb (dist r e) w); [constructor; [intros []|constructor]|constructor].
    + intros [j e] y _ Hy. destruct (qleb (dist r e) w); [|contradiction]. destruct Hy as [<-|[]]. reflexivity.
  - intros [i r] y _ Hy. apply in_flat_map in Hy. destruct Hy as ([j e] & _ & Hy).
    destruct (qleb (dist r e) w); [|contradiction]. destruct Hy as [<-|[]]. reflexivity. Qed.
(* the docstring's equivalence, for the two paths with dist = |r - e| *)
Corollary fast_hit_windows_is_where ref est w i j :
  In (i, j) (fast_hit_windows ref est w) <-> In (i, j) (hits_by_distance (fun r e => Qabs (r - e)) ref est w).
Proof. rewrite fast_hit_windows_spec, hits_by_distance_spec. reflexivity. Qed.

(* ------------------------------------------------------------------------------------------ *)
(* the graph handed to _bipartite_match                                                        *)
(* ------------------------------------------------------------------------------------------ *)
Open Scope nat_scope.
Definition gstep (G : graph) (h : nat * nat) : graph :=
  let '(r, e) := h in match dget G e with Some l => dset G e (l ++ [r]) | None => dset G e [r] end.
Lemma gstep_keys G h : NoDup (keys G) -> NoDup (keys (gstep G h)).
Proof. destruct h as [r e]. unfold gstep. intros H. destruct (dget G e); now apply NoDup_keys_dset. Qed.
Lemma gstep_edge G r e u v : edge (gstep G (r, e)) u v <-> edge G u v \/ (v = r /\ u = e).
Proof. unfold edge, nbrs, gstep. destruct (Nat.eq_dec u e) as [->|Hne].
  - destruct (dget G e) as [l|] eqn:E; rewrite dget_dset_same.
    + rewrite in_app_iff. simpl. intuition.
    + simpl. intuition.
  - destruct (dget G e) as [l|] eqn:E; rewrite dget_dset_other by exact Hne; intuition. Qed.
Lemma build_graph_gen hits : forall G, NoDup (keys G) ->
  NoDup (keys (fold_left gstep hits G)) /\ forall u v, edge (fold_left gstep hits G) u v <-> edge G u v \/ In (v, u) hits.
Proof. induction hits as [|[r e] hits IH]; intros G HG; simpl.
  - split; [exact HG|]. intros u v. tauto.
  - destruct (IH (gstep G (r, e)) (gstep_keys G (r, e) HG)) as [H1 H2]. split; [exact H1|].
    intros u v. rewrite H2, gstep_edge. split.
    + intros [[H|[-> ->]]|H]; auto.
    + intros [H|[H|H]]; auto. inversion H; subst. auto. Qed.
Lemma build_graph_fold hits : build_graph hits = fold_left gstep hits [].
Proof. reflexivity. Qed.
Theorem build_graph_edge hits u v : edge (build_graph hits) u v <-> In (v, u) hits.
Proof. rewrite build_graph_fold. destruct (build_graph_gen hits [] (NoDup_nil _)) as [_ H]. rewrite H.
  unfold edge, nbrs. simpl. tauto. Qed.
Theorem build_graph_keys hits : NoDup (keys (build_graph hits)).
Proof. rewrite build_graph_fold. apply (build_graph_gen hits [] (NoDup_nil _)). Qed.

(* ------------------------------------------------------------------------------------------ *)
(* sorted(matching.items()) is a permutation                                                   *)
(* ------------------------------------------------------------------------------------------ *)
Lemma ins_pair_perm x l : Permutation (ins_pair x l) (x :: l).
Proof. induction l as [|y l IH]; simpl; [reflexivity|]. destruct (pair_ltb x y); [reflexivity|].
  rewrite IH. apply perm_swap. Qed.
Lemma sort_pairs_fold xs : forall acc, Permutation (fold_left (fun acc x => ins_pair x acc) xs acc) (xs ++ acc).
Proof. induction xs as [|x xs IH]; intros acc; simpl; [reflexivity|]. rewrite IH, ins_pair_perm. symmetry. apply Permutation_middle. Qed.
Lemma sort_pairs_perm l : Permutation (sort_pairs l) l.
Proof. unfold sort_pairs. rewrite sort_pairs_fold. now rewrite app_nil_r. Qed.
Lemma okE_perm E l l' : Permutation l l' -> okE E l -> okE E l'.
Proof. intros P (A & B & C). repeat split.
  - eapply Permutation_NoDup; [apply Permutation_map; exact P|exact A].
  - eapply Permutation_NoDup; [apply Permutation_map; exact P|exact B].
  - intros v u H. apply C. eapply Permutation_in; [symmetry; exact P|exact H]. Qed.
Lemma max_size_ext (E1 E2 : nat -> nat -> Prop) n : (forall u v, E1 u v <-> E2 u v) -> max_size E1 n -> max_size E2 n.
Proof. intros H [(l & O & L) M]. split.
  - exists l. split; [|exact L]. eapply okE_mono; [|exact O]. intros u v; apply H.
  - intros l' O'. apply M. eapply okE_mono; [|exact O']. intros u v; apply H. Qed.

(* ------------------------------------------------------------------------------------------ *)
(* match_events returns a valid matching of maximum size                                       *)
(* ------------------------------------------------------------------------------------------ *)
(* u = estimate index, v = reference index (the orientation of MaxMatching.okE / edge) *)
Definition hit_edge (hits : list (nat * nat)) : nat -> nat -> Prop := fun u v => In (v, u) hits.
Theorem match_hits_correct hits m : match_hits hits = Some m ->
  okE (hit_edge hits) m /\ (forall l, okE (hit_edge hits) l -> length l <= length m).
Proof. unfold match_hits. destruct (bipartite_match (build_graph hits)) as [m0|] eqn:E; [|discriminate].
  simpl. intros H. inversion H; subst m. clear H.
  destruct (bipartite_match_correct _ _ (build_graph_keys hits) E) as [Hok Hmax].
  assert (O0 : okE (hit_edge hits) m0).
  { eapply okE_mono; [|exact Hok]. intros u v. apply build_graph_edge. }
  split.
  - eapply okE_perm; [symmetry; apply sort_pairs_perm|exact O0].
  - intros l Hl. rewrite (Permutation_length (sort_pairs_perm m0)). apply Hmax.
    eapply okE_mono; [|exact Hl]. intros u v. apply build_graph_edge. Qed.
Theorem match_hits_max_size hits m : match_hits hits = Some m -> max_size (hit_edge hits) (length m).
Proof. intros H. destruct (match_hits_correct hits m H) as [O M]. split; [exists m; auto|exact M]. Qed.

(* the hit relation in the orientation of max_size *)
Definition hitrel (ref est : list Q) (w : Q) : nat -> nat -> Prop := fun j i => hit ref est w i j.
Definition hitrel_dist (dist : Q -> Q -> Q) (ref est : list Q) (w : Q) : nat -> nat -> Prop := fun j i => hit_dist dist ref est w i j.

Theorem match_events_size_max_size ref est w m : match_events ref est w = Some m -> max_size (hitrel ref est w) (length m).
Proof. intros H. apply match_hits_max_size in H. eapply max_size_ext; [|exact H].
  intros u v. unfold hit_edge, hitrel. apply fast_hit_windows_spec. Qed.
Theorem match_events_dist_size_max_size dist ref est w m :
  match_events_dist dist ref est w = Some m -> max_size (hitrel_dist dist ref est w) (length m).
Proof. intros H. apply match_hits_max_size in H. eapply max_size_ext; [|exact H].
  intros u v. unfold hit_edge, hitrel_dist. apply hits_by_distance_spec. Qed.

Definition one_to_one (m : list (nat * nat)) : Prop := NoDup (map fst m) /\ NoDup (map snd m).
Theorem match_events_correct ref est w m : match_events ref est w = Some m ->
  one_to_one m /\
  (forall i j, In (i, j) m -> hit ref est w i j) /\
  (forall m', one_to_one m' -> (forall i j, In (i, j) m' -> hit ref est w i j) -> length m' <= length m).
Proof. intros H. destruct (match_events_size_max_size ref est w m H) as [_ M].
  destruct (match_hits_correct _ _ H) as [(A & B & C) _]. split; [split; assumption|]. split.
  - intros i j Hin. apply fast_hit_windows_spec. apply (C i j Hin).
  - intros m' [A' B'] C'. apply M. repeat split; auto. Qed.
Theorem match_events_dist_correct dist ref est w m : match_events_dist dist ref est w = Some m ->
  one_to_one m /\
  (forall i j, In (i, j) m -> hit_dist dist ref est w i j) /\
  (forall m', one_to_one m' -> (forall i j, In (i, j) m' -> hit_dist dist ref est w i j) -> length m' <= length m).
Proof. intros H. destruct (match_events_dist_size_max_size dist ref est w m H) as [_ M].
  destruct (match_hits_correct _ _ H) as [(A & B & C) _]. split; [split; assumption|]. split.
  - intros i j Hin. apply hits_by_distance_spec. apply (C i j Hin).
  - intros m' [A' B'] C'. apply M. repeat split; auto. Qed.
(* the matching is returned sorted, every index is in range *)
Lemma hit_in_range ref est w i j : hit ref est w i j -> i < length ref /\ j < length est.
Proof. intros (r & e & Hr & He & _). split; apply nth_error_Some; congruence. Qed.

(* non-vacuity: greedy initialisation takes (ref 0, est 0) and an augmenting phase is needed; the model terminates *)
Example match_events_ex : match_events [1; 2]%Q [(3#2); (1#2)]%Q (1#2)%Q = Some [(0, 1); (1, 0)].
Proof. vm_compute. reflexivity. Qed.
Example match_events_dist_ex :
  match_events_dist (outer_distance_mod_n 12) [0; (23#2)]%Q [12; 23]%Q (1#2)%Q = Some [(0, 0); (1, 1)].
Proof. vm_compute. reflexivity. Qed.

Print Assumptions f_measure_range.
Print Assumptions f_measure_sym.
Print Assumptions f_measure_mono_p.
Print Assumptions f_measure_mono_r.
Print Assumptions f_measure_one.
Print Assumptions fast_hit_windows_spec.
Print Assumptions fast_hit_windows_NoDup.
Print Assumptions hits_by_distance_spec.
Print Assumptions hits_by_distance_NoDup.
Print Assumptions build_graph_edge.
Print Assumptions build_graph_keys.
Print Assumptions match_events_correct.
Print Assumptions match_events_dist_correct.
Print Assumptions match_events_size_max_size.
Print Assumptions match_events_dist_size_max_size.
