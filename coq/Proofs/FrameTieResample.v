(* melody.resample_melody_series, tied to Model/Melody.v by TRANSLATION (translator/framefuncs.py -> Gen/FrameGen.v,
   language Model/FrameExp.v; see FrameTie.v).
     resample_melody_series_tie   for kind = 'linear' and ALL arrays: program = snd (Melody.resample_melody_series ...) (result or
                                  exception). np.allclose is read with NumPy's default tolerances (the doubles 1e-08, 1e-05 of
                                  FrameExp.np_sigs); Model/Melody.v uses the same exact values (np_allclose_eq, np_uniform_eq), so no
                                  side condition is left. (An earlier version of the model wrote the tolerances as decimals; the tie
                                  then needed three agreement hypotheses and the two tests were refuted on times = [1e-08],
                                  times_new = [0.]; the model was corrected.)
   Proved: the early return, the non-uniform warning condition (short-circuit order; the IndexError of frequencies[1]; the
   mean of an empty np.diff = nan is close to nothing; np.allclose(np.diff(t), mean) with the mean as SECOND operand), np.round(., 10)
   of both time bases, the extra sample at times_new.max(),
   the zero-hold loop (by induction, in-place stores into the fresh copy), the linear and the zero-order interpolants of the
   frequencies (a linear interpolant on duplicate abscissae yields unmodelled values and the zero-order one then raises, as in
   the model), the zero-retention mask built from `frequencies`, is_binary_voicing and the choice of the voicing interpolant.
   scipy.interpolate.interp1d for kind 'linear' / 'zero' is the primitive FrameExp.interp1d_prim (= Melody.interp1d). *)
From Coq Require Import String.
From Coq Require Import List Bool Arith ZArith QArith Qabs Qminmax Qround Lia Lqa.
From ME Require Import Model.Prelude Model.Events Model.FrameExp Gen.FrameGen Proofs.FrameTie Proofs.FrameTieMelody.
From ME Require Model.Melody.
Import ListNotations.
Open Scope Q_scope.
(* ---------- the primitives against the model's helper functions ---------- *)
Lemma diffs_eq l : FrameExp.diffs l = Melody.diffs l.
Proof. induction l as [|a t IH]; [reflexivity|]. destruct t; [reflexivity|]. cbn [FrameExp.diffs Melody.diffs] in *. rewrite IH. reflexivity. Qed.
Lemma round10_eq x : FrameExp.round10 x = Melody.round10 x.
Proof. reflexivity. Qed.
Lemma sort_pts_eq l : FrameExp.sort_pts l = Melody.sort_pts l.
Proof.
  unfold FrameExp.sort_pts, Melody.sort_pts. generalize (@nil (Q * Q)). induction l as [|p t IH]; intros acc; [reflexivity|].
  cbn [fold_left]. rewrite IH. reflexivity.
Qed.
Lemma has_dup_eq l : FrameExp.has_dup l = Melody.has_dup l.
Proof. induction l as [|a t IH]; [reflexivity|]. destruct t; [reflexivity|]. cbn [FrameExp.has_dup Melody.has_dup] in *. rewrite IH. reflexivity. Qed.
Lemma interp_lin_eq l x : FrameExp.interp_lin l x = Melody.interp_lin l x.
Proof.
  induction l as [|[x0 y0] t IH]; [reflexivity|]. destruct t as [|[x1 y1] t']; [reflexivity|].
  cbn [FrameExp.interp_lin Melody.interp_lin] in *. rewrite IH. reflexivity.
Qed.
Lemma interp_zero_eq l x : FrameExp.interp_zero l x = Melody.interp_zero l x.
Proof.
  induction l as [|[x0 y0] t IH]; [reflexivity|]. destruct t as [|[x1 y1] t']; [reflexivity|].
  cbn [FrameExp.interp_zero Melody.interp_zero] in *. rewrite IH. reflexivity.
Qed.

(* NumPy's tests with the exact double constants, as the program computes them *)
Definition np_allclose (a b : list Q) : bool := allclose_gen RTOL_DEFAULT ATOL_DEFAULT a b.
Definition np_uniform (ts : list Q) : bool :=
  match FrameExp.diffs ts with
  | [] => true
  | d => allclose_gen RTOL_DEFAULT ATOL_DEFAULT d (repeat (qsum d / FrameExp.qlen d) (length d))
  end.
(* Model/Melody.v uses the same exact tolerances *)
Lemma np_allclose_eq a b : np_allclose a b = Melody.allclose a b.
Proof. reflexivity. Qed.
Lemma forallb_repeat (m : Q) (P : Q -> Q -> bool) : forall d, forallb (fun xy => P (fst xy) (snd xy)) (combine d (repeat m (length d))) = forallb (fun x => P x m) d.
Proof. induction d as [|x t IH]; [reflexivity|]. cbn [length repeat combine forallb fst snd]. rewrite IH. reflexivity. Qed.
Lemma np_uniform_eq ts : np_uniform ts = Melody.uniform ts.
Proof.
  unfold np_uniform, Melody.uniform. rewrite diffs_eq. destruct (Melody.diffs ts) as [|d0 ds] eqn:E; [reflexivity|].
  unfold allclose_gen. exact (forallb_repeat _ (fun x m => qleb (Qabs (x - m)) (ATOL_DEFAULT + RTOL_DEFAULT * Qabs m)) (d0 :: ds)).
Qed.

Lemma py_slice_tl {A} (l : list A) : py_slice 1 (Z.of_nat (length l)) l = tl l.
Proof.
  destruct l as [|a t]; [reflexivity|]. unfold py_slice, py_norm.
  replace (1 <? 0)%Z with false by reflexivity. replace (Z.of_nat (length (a :: t)) <? 0)%Z with false by (symmetry; apply Z.ltb_ge; lia).
  rewrite Z.min_id, Z.min_l by (cbn [length]; lia). change (Z.to_nat 1) with 1%nat. cbn [skipn tl].
  replace (Z.to_nat (Z.of_nat (length (a :: t)) - 1)) with (length t) by (cbn [length]; lia). apply firstn_all.
Qed.

(* ---------- the interpolation primitive against Melody.interp1d ---------- *)
Definition lift_arr (r : res (list Q)) : out fv := match r with Ok a => OK (VArrQ a) | Raise e => EXN e end.
Definition prim (kind : string) (x y t : list Q) : out fv :=
  interp1d_prim [VArrQ x; VArrQ y; VStr kind; VInt (-1); VBool true; VNone; VStr "nan"; VBool false] (VArrQ t).
Lemma prim_zero x y t : prim "zero" x y t = lift_arr (Melody.interp1d true x y t).
Proof.
  unfold prim, interp1d_prim, Melody.interp1d. cbn [String.eqb Ascii.eqb Bool.eqb andb orb].
  destruct (Nat.eqb (length x) (length y)); cbn [negb orb]; [|reflexivity].
  destruct x as [|x0 xs]; [reflexivity|]. cbn [Melody.is_nil]. rewrite sort_pts_eq, has_dup_eq.
  destruct (Melody.has_dup _); [reflexivity|].
  destruct (qmin_list (x0 :: xs)); [|reflexivity]. destruct (qmax_list (x0 :: xs)); [|reflexivity].
  destruct (existsb _ t); [reflexivity|]. cbn [lift_arr]. erewrite map_ext; [reflexivity|intros; apply interp_zero_eq].
Qed.
Lemma prim_lin x y t : Melody.has_dup (Melody.sort_pts (combine x y)) = false ->
  prim "linear" x y t = lift_arr (Melody.interp1d false x y t).
Proof.
  intros Hd. unfold prim, interp1d_prim, Melody.interp1d. cbn [String.eqb Ascii.eqb Bool.eqb andb orb].
  destruct (Nat.eqb (length x) (length y)); cbn [negb orb]; [|reflexivity].
  destruct x as [|x0 xs]; [reflexivity|]. cbn [Melody.is_nil]. rewrite sort_pts_eq, has_dup_eq, Hd.
  destruct (qmin_list (x0 :: xs)); [|reflexivity]. destruct (qmax_list (x0 :: xs)); [|reflexivity].
  destruct (existsb _ t); [reflexivity|]. cbn [lift_arr]. erewrite map_ext; [reflexivity|intros; apply interp_lin_eq].
Qed.
Lemma prim_lin_dup x y t : Melody.has_dup (Melody.sort_pts (combine x y)) = true ->
  (prim "linear" x y t = EXN ValueError \/ prim "linear" x y t = OK VOpaque).
Proof.
  intros Hd. unfold prim, interp1d_prim. cbn [String.eqb Ascii.eqb Bool.eqb andb orb].
  destruct (Nat.eqb (length x) (length y)); cbn [negb]; [|left; reflexivity].
  destruct (qmin_list x); [|left; reflexivity]. destruct (qmax_list x); [|left; reflexivity].
  destruct (existsb _ t); [left; reflexivity|]. rewrite sort_pts_eq, has_dup_eq, Hd. right. reflexivity.
Qed.
(* whether two sample points share an abscissa does not depend on the ordinates *)
Fixpoint ins_key (k : Q) (l : list Q) : list Q :=
  match l with [] => [k] | q :: t => if qltb k q then k :: l else q :: ins_key k t end.
Fixpoint dup_keys (l : list Q) : bool :=
  match l with p :: t => match t with q :: _ => qeqb p q || dup_keys t | [] => false end | [] => false end.
Lemma ins_pt_keys p l : map fst (Melody.ins_pt p l) = ins_key (fst p) (map fst l).
Proof. induction l as [|q t IH]; [reflexivity|]. cbn [Melody.ins_pt map ins_key]. destruct (qltb (fst p) (fst q)); cbn [map]; [reflexivity|]. rewrite IH. reflexivity. Qed.
Lemma sort_pts_keys l : map fst (Melody.sort_pts l) = fold_left (fun acc k => ins_key k acc) (map fst l) [].
Proof.
  unfold Melody.sort_pts. change (@nil Q) with (map fst (@nil (Q * Q))). generalize (@nil (Q * Q)).
  induction l as [|p t IH]; intros acc; [reflexivity|]. cbn [fold_left map]. rewrite IH, ins_pt_keys. reflexivity.
Qed.
Lemma has_dup_keys l : Melody.has_dup l = dup_keys (map fst l).
Proof. induction l as [|a t IH]; [reflexivity|]. destruct t; [reflexivity|]. cbn [Melody.has_dup dup_keys map] in *. rewrite IH. reflexivity. Qed.
Lemma map_fst_combine {A B} (x : list A) (y : list B) : length x = length y -> map fst (combine x y) = x.
Proof. revert y. induction x as [|a t IH]; intros [|b u] H; try discriminate; [reflexivity|]. cbn [combine map fst]. rewrite IH by (cbn [length] in H; lia). reflexivity. Qed.
Lemma dup_indep (x y y' : list Q) : length x = length y -> length x = length y' ->
  Melody.has_dup (Melody.sort_pts (combine x y)) = Melody.has_dup (Melody.sort_pts (combine x y')).
Proof. intros H H'. rewrite !has_dup_keys, !sort_pts_keys, !map_fst_combine by assumption. reflexivity. Qed.
Lemma interp1d_dup zero x y t : Melody.has_dup (Melody.sort_pts (combine x y)) = true -> Melody.interp1d zero x y t = Raise ValueError.
Proof.
  intros Hd. unfold Melody.interp1d. destruct (negb _ || _); [reflexivity|]. rewrite Hd. reflexivity.
Qed.
Lemma interp1d_len zero x y t : length x <> length y -> Melody.interp1d zero x y t = Raise ValueError.
Proof. intros H. unfold Melody.interp1d. apply Nat.eqb_neq in H. rewrite H. reflexivity. Qed.
Lemma hold_length l : length (Melody.hold l) = length l.
Proof.
  destruct l as [|f t]; [reflexivity|]. cbn [Melody.hold length]. f_equal. generalize f. induction t as [|a t IH]; intros p; [reflexivity|].
  cbn [Melody.hold_from length]. rewrite IH. reflexivity.
Qed.

Lemma prim_len k x y t : length x <> length y -> (k = "linear" \/ k = "zero")%string -> prim k x y t = EXN ValueError.
Proof.
  intros H Hk. apply Nat.eqb_neq in H. unfold prim, interp1d_prim. destruct Hk as [-> | ->]; cbn [String.eqb Ascii.eqb Bool.eqb andb orb]; rewrite H; reflexivity.
Qed.
Lemma interp1d_ok_len z x y t r : Melody.interp1d z x y t = Ok r -> length r = length t.
Proof.
  unfold Melody.interp1d. destruct (negb _ || _); [discriminate|]. destruct (Melody.has_dup _); [discriminate|].
  destruct (qmin_list x); [|discriminate]. destruct (qmax_list x); [|discriminate]. destruct (existsb _ t); [discriminate|].
  intros H. injection H as <-. apply map_length.
Qed.

Section R.
Variable ext : string -> list fv -> out fv.
Variable flog2 : Q -> Q.
Local Arguments run_block : simpl never.
Local Arguments for_loop : simpl never.
Local Arguments for_step : simpl never.
Local Arguments frame_sigs : simpl never.
Local Arguments allclose_gen : simpl never.
Local Arguments FrameExp.diffs : simpl never.
Local Arguments py_slice : simpl never.
Local Arguments round10 : simpl never.
Local Arguments qmax_list : simpl never.
Local Arguments sort_pts : simpl never.

Local Open Scope string_scope.
Definition rms_env (t f v tn kind held n fq fr mask isb vr : fv) : env :=
  [("times", t); ("frequencies", f); ("voicing", v); ("times_new", tn); ("kind", kind); ("frequencies_held", held);
   ("n", n); ("frequency", fq); ("frequencies_resampled", fr); ("frequency_mask", mask); ("is_binary_voicing", isb);
   ("voicing_resampled", vr)].
Local Close Scope string_scope.
(* the loop variables after the loop *)
Fixpoint last_vars (i : Z) (rest : list Q) (vn vf : fv) : fv * fv :=
  match rest with [] => (vn, vf) | f :: t => last_vars (i + 1) t (VInt i) (VFlt f) end.
Definition hold_step_spec (step : fv -> env -> sres) : Prop :=
  forall t f v tn kind held vn vf fr mask isb vr (i : Z) (x : Q),
    step (VTup [VInt i; VFlt x]) (rms_env t f v tn kind (VArrQ held) vn vf fr mask isb vr) =
    if qeqb x 0 then
      match norm_idx i (length held) with
      | Some k => match nth_error held k with
                  | Some p => match norm_idx (i + 1) (length held) with
                              | Some k' => SNorm (rms_env t f v tn kind (VArrQ (set_nth held k' p)) (VInt i) (VFlt x) fr mask isb vr)
                              | None => SExn IndexError end
                  | None => SUnm end
      | None => SExn IndexError end
    else SNorm (rms_env t f v tn kind (VArrQ held) (VInt i) (VFlt x) fr mask isb vr).
Lemma nth_error_mid {A} (pre : list A) p rest : nth_error (pre ++ p :: rest) (length pre) = Some p.
Proof. induction pre; [reflexivity|]. cbn [app length nth_error]. assumption. Qed.
Lemma set_nth_app' {A} (pre : list A) x t v : set_nth (pre ++ x :: t) (length pre) v = pre ++ v :: t.
Proof. induction pre as [|a p IH]; [reflexivity|]. cbn [app length set_nth]. rewrite IH. reflexivity. Qed.
Lemma hold_loop : forall step, hold_step_spec step ->
  forall t f v tn kind fr mask isb vr rest pre p vn vf,
  for_loop step (enum_from (Z.of_nat (length pre)) (map VFlt rest))
           (rms_env t f v tn kind (VArrQ (pre ++ p :: rest)) vn vf fr mask isb vr)
  = SNorm (rms_env t f v tn kind (VArrQ (pre ++ p :: Melody.hold_from p rest))
                   (fst (last_vars (Z.of_nat (length pre)) rest vn vf)) (snd (last_vars (Z.of_nat (length pre)) rest vn vf))
                   fr mask isb vr).
Proof.
  intros step Hs t f v tn kind fr mask isb vr rest. induction rest as [|x rest IH]; intros pre p vn vf.
  - reflexivity.
  - cbn [map enum_from]. unfold for_loop; fold for_loop. rewrite Hs.
    cbn [Melody.hold_from last_vars].
    assert (E1 : pre ++ p :: x :: rest = (pre ++ [p]) ++ x :: rest) by (rewrite <- app_assoc; reflexivity).
    assert (EZ : (Z.of_nat (length pre) + 1)%Z = Z.of_nat (length (pre ++ [p]))) by (rewrite app_length; cbn [length]; lia).
    destruct (qeqb x 0).
    + rewrite norm_idx_nat by (rewrite app_length; cbn [length]; lia). rewrite nth_error_mid.
      rewrite EZ, E1. rewrite norm_idx_nat by (rewrite !app_length; cbn [length]; lia).
      rewrite set_nth_app'. rewrite IH. rewrite <- !app_assoc. reflexivity.
    + rewrite EZ, E1. rewrite IH. rewrite <- !app_assoc. reflexivity.
Qed.

Local Arguments interp1d_prim : simpl never.
Local Arguments Melody.interp1d : simpl never.
Local Arguments Melody.hold : simpl never.
Local Arguments Melody.is_binary : simpl never.
Lemma zeqb_nat' a b : (Z.of_nat a =? Z.of_nat b)%Z = Nat.eqb a b.
Proof. destruct (Nat.eqb_spec a b) as [->|H]; [apply Z.eqb_refl|]. apply Z.eqb_neq. lia. Qed.
Lemma is_binary_eq v :
  forallb (fun b : bool => b) (vmap2 orb (map (fun x => qeqb x (inject_Z 0)) v) (map (fun x => qeqb x (inject_Z 1)) v)) = Melody.is_binary v.
Proof. unfold Melody.is_binary. induction v as [|a t IH]; [reflexivity|]. cbn [map vmap2 forallb]. rewrite IH. reflexivity. Qed.
Lemma mask_mul fr mask :
  vmap2 (fun x (c : bool) => x * FrameExp.b2q c) fr (map (fun x => negb (qeqb x (inject_Z 0))) mask)
  = Melody.map2 (fun f m => f * Melody.b2q (negb (qeqb m 0))) fr mask.
Proof. revert mask. induction fr as [|f t IH]; intros [|m u]; try reflexivity. cbn [map vmap2 Melody.map2]. rewrite IH. reflexivity. Qed.

(* the second statement: the non-uniform time base warning (only its IndexError is observable) *)
Lemma warn_stmt : forall times freqs v tn kind held n fq fr mask isb vr,
  np_uniform times = Melody.uniform times -> np_uniform (tl times) = Melody.uniform (tl times) ->
  exec frame_sigs ext flog2 (nth 1 (f_body gen_mel_resample_melody_series) SPass)
       (rms_env (VArrQ times) (VArrQ freqs) v tn kind held n fq fr mask isb vr)
  = match Melody.nonuniform_warn times freqs with
    | Ok _ => SNorm (rms_env (VArrQ times) (VArrQ freqs) v tn kind held n fq fr mask isb vr)
    | Raise e => SExn e
    end.
Proof.
  intros times freqs v tn kind held n fq fr mask isb vr H2 H3.
  cbn [nth f_body gen_mel_resample_melody_series]. unfold rms_env, Melody.nonuniform_warn. rewrite <- H2, <- H3. unfold np_uniform.
  go. destruct (FrameExp.diffs times) as [|d0 ds] eqn:ED; go.
  - reflexivity.
  - destruct (allclose_gen _ _ _ _); go; [reflexivity|].
    rewrite py_slice_tl.
    destruct (FrameExp.diffs (tl times)) as [|e0 es] eqn:ED2; go.
    + destruct freqs as [|f0 [|f1 fr']]; go; try reflexivity. change (Pos.to_nat 1) with 1%nat; go. destruct (qeqb f0 f1); go; reflexivity.
    + destruct (allclose_gen _ _ _ _); go; [|reflexivity].
      destruct freqs as [|f0 [|f1 fr']]; go; try reflexivity. change (Pos.to_nat 1) with 1%nat; go. destruct (qeqb f0 f1); go; reflexivity.
Qed.

Definition rest_model (times freqs voicing times_new : list Q) : res (list Q * list Q) :=
  let times := map Melody.round10 times in
  let times_new := map Melody.round10 times_new in
  match qmax_list times_new, qmax_list times with
  | Some mn, Some mt =>
      let ext := qltb mt mn in
      let times := if ext then times ++ [mn] else times in
      let freqs := if ext then freqs ++ [0] else freqs in
      let voicing := if ext then voicing ++ [0] else voicing in
      fr <- Melody.interp1d false times (Melody.hold freqs) times_new ;;
      mask <- Melody.interp1d true times freqs times_new ;;
      let fr := Melody.map2 (fun f m => f * Melody.b2q (negb (qeqb m 0))) fr mask in
      vr <- Melody.interp1d (Melody.is_binary voicing) times voicing times_new ;;
      Ok (fr, vr)
  | _, _ => Raise ValueError
  end.
Lemma rms_unfold times freqs voicing times_new :
  snd (Melody.resample_melody_series times freqs voicing times_new) =
  if (length times =? length times_new)%nat && Melody.allclose times times_new then Ok (freqs, voicing)
  else match Melody.nonuniform_warn times freqs with
       | Raise e => Raise e
       | Ok _ => rest_model times freqs voicing times_new
       end.
Proof.
  unfold Melody.resample_melody_series, rest_model. destruct (_ && _); [reflexivity|].
  destruct (Melody.nonuniform_warn times freqs); reflexivity.
Qed.
Definition ret_of (r : sres) : out fv := match r with SNorm _ => OK VNone | SRet v => OK v | SExn e => EXN e | SUnm => UNM end.
Definition rms_rest : list stmt := skipn 2 (f_body gen_mel_resample_melody_series).

(* after the optional extra sample: hold, the two interpolants of the frequencies, the mask, the voicing interpolant *)
Lemma interp_part : forall (T F V N : list Q) (t0 tn0 : fv),
  ret_of (run_block (exec frame_sigs ext flog2) (skipn 3 rms_rest)
            (rms_env (VArrQ T) (VArrQ F) (VArrQ V) (VArrQ N) (VStr "linear") VUnbound VUnbound VUnbound VUnbound VUnbound VUnbound VUnbound))
  = lift_pair (fr <- Melody.interp1d false T (Melody.hold F) N ;;
               mask <- Melody.interp1d true T F N ;;
               let fr := Melody.map2 (fun f m => f * Melody.b2q (negb (qeqb m 0))) fr mask in
               vr <- Melody.interp1d (Melody.is_binary V) T V N ;;
               Ok (fr, vr)).
Proof.
  intros T F V N _ _. unfold rms_rest. cbn [skipn f_body gen_mel_resample_melody_series]. unfold rms_env. go.
  rewrite py_slice_tl.
  match goal with |- context [for_loop ?S ?L ?E] => assert (Hs : hold_step_spec S) end.
  { intros t f v tn kind held vn vf fr mask isb vr i x. unfold for_step, rms_env. go. change (inject_Z 0) with 0.
    destruct (qeqb x 0); go; [|reflexivity].
    destruct (norm_idx i (length held)) as [k|]; go; [|reflexivity].
    destruct (nth_error held k) as [p|]; go; [|reflexivity].
    destruct (norm_idx (i + 1) (length held)); go; reflexivity. }
  assert (HL : forall vn vf, exists vn' vf',
            for_loop (for_step (run_block (exec frame_sigs ext flog2)) (PTup [PVar "n"; PVar "frequency"])
                        [SIf (ECmp Eq (ELoc "frequency") (EInt 0))
                           [SSetItem "frequencies_held" (EBin Add (ELoc "n") (EInt 1)) (EIndex (ELoc "frequencies_held") (ELoc "n"))] []])
                     (enum_from 0 (map VFlt (tl F)))
                     (rms_env (VArrQ T) (VArrQ F) (VArrQ V) (VArrQ N) (VStr "linear") (VArrQ F) vn vf VUnbound VUnbound VUnbound VUnbound)
            = SNorm (rms_env (VArrQ T) (VArrQ F) (VArrQ V) (VArrQ N) (VStr "linear") (VArrQ (Melody.hold F)) vn' vf' VUnbound VUnbound VUnbound VUnbound)).
  { intros vn vf. destruct F as [|f0 rest].
    - exists vn, vf. reflexivity.
    - pose proof (hold_loop _ Hs (VArrQ T) (VArrQ (f0 :: rest)) (VArrQ V) (VArrQ N) (VStr "linear") VUnbound VUnbound VUnbound VUnbound
                             rest [] f0 vn vf) as L.
      cbn [length Z.of_nat app tl] in L |- *. rewrite L. eexists. eexists. reflexivity. }
  destruct (HL VUnbound VUnbound) as [vn' [vf' HL']]. unfold rms_env in HL'. rewrite HL'. clear HL HL' Hs.
  go.
  change (interp1d_prim [VArrQ T; VArrQ (Melody.hold F); VStr "linear"; VInt (-1); VBool true; VNone; VStr "nan"; VBool false] (VArrQ N))
    with (prim "linear" T (Melody.hold F) N).
  destruct (Nat.eq_dec (length T) (length F)) as [ELF|NLF].
  2:{ rewrite prim_len by (try rewrite hold_length; auto). rewrite interp1d_len by (rewrite hold_length; exact NLF). reflexivity. }
  assert (ELH : length T = length (Melody.hold F)) by (rewrite hold_length; exact ELF).
  destruct (Melody.has_dup (Melody.sort_pts (combine T (Melody.hold F)))) eqn:D.
  { rewrite (interp1d_dup false _ _ _ D). destruct (prim_lin_dup _ _ N D) as [E|E]; rewrite E; [reflexivity|]. go.
    change (interp1d_prim [VArrQ T; VArrQ F; VStr "zero"; VInt (-1); VBool true; VNone; VStr "nan"; VBool false] (VArrQ N))
      with (prim "zero" T F N).
    rewrite prim_zero, (interp1d_dup true) by (rewrite <- (dup_indep T (Melody.hold F) F ELH ELF); exact D). reflexivity. }
  rewrite prim_lin by exact D.
  destruct (Melody.interp1d false T (Melody.hold F) N) as [fr|] eqn:I1; cbn [lift_arr bind]; go; [|reflexivity].
  change (interp1d_prim [VArrQ T; VArrQ F; VStr "zero"; VInt (-1); VBool true; VNone; VStr "nan"; VBool false] (VArrQ N))
    with (prim "zero" T F N).
  rewrite prim_zero.
  destruct (Melody.interp1d true T F N) as [mask|] eqn:I2; cbn [lift_arr bind]; go; [|reflexivity].
  rewrite map_length, (interp1d_ok_len _ _ _ _ _ I1), (interp1d_ok_len _ _ _ _ _ I2), Nat.eqb_refl. go.
  rewrite !map_length, Nat.eqb_refl. go. rewrite is_binary_eq, mask_mul.
  assert (DF : Melody.has_dup (Melody.sort_pts (combine T F)) = false) by (rewrite <- (dup_indep T (Melody.hold F) F ELH ELF); exact D).
  destruct (Melody.is_binary V); go.
  - change (interp1d_prim [VArrQ T; VArrQ V; VStr "zero"; VInt (-1); VBool true; VNone; VStr "nan"; VBool false] (VArrQ N))
      with (prim "zero" T V N).
    rewrite prim_zero. destruct (Melody.interp1d true T V N) as [vr|]; cbn [lift_arr bind]; go; reflexivity.
  - change (interp1d_prim [VArrQ T; VArrQ V; VStr "linear"; VInt (-1); VBool true; VNone; VStr "nan"; VBool false] (VArrQ N))
      with (prim "linear" T V N).
    destruct (Nat.eq_dec (length T) (length V)) as [ELV|NLV].
    + rewrite prim_lin by (rewrite (dup_indep T V F ELV ELF); exact DF).
      destruct (Melody.interp1d false T V N) as [vr|]; cbn [lift_arr bind]; go; reflexivity.
    + rewrite prim_len by auto. rewrite interp1d_len by exact NLV. reflexivity.
Qed.

Local Arguments meth : simpl never.
Lemma meth_max l : meth (VArrQ l) "max" [] = match qmax_list l with Some x => OK (VFlt x) | None => EXN ValueError end.
Proof. reflexivity. Qed.
Lemma round_part : forall times freqs voicing tn : list Q,
  ret_of (run_block (exec frame_sigs ext flog2) rms_rest
            (rms_env (VArrQ times) (VArrQ freqs) (VArrQ voicing) (VArrQ tn) (VStr "linear") VUnbound VUnbound VUnbound VUnbound VUnbound VUnbound VUnbound))
  = lift_pair (rest_model times freqs voicing tn).
Proof.
  intros. unfold rest_model.
  change rms_rest with (nth 0 rms_rest SPass :: nth 1 rms_rest SPass :: nth 2 rms_rest SPass :: skipn 3 rms_rest).
  cbn [nth rms_rest skipn f_body gen_mel_resample_melody_series]. unfold rms_env. go.
  rewrite ?meth_max.
  change (map round10 tn) with (map Melody.round10 tn). change (map round10 times) with (map Melody.round10 times).
  destruct (qmax_list (map Melody.round10 tn)) as [mn|] eqn:EN; go; [|reflexivity].
  rewrite ?meth_max.
  destruct (qmax_list (map Melody.round10 times)) as [mt|] eqn:ET; go; [|reflexivity].
  destruct (qltb mt mn); go.
  - rewrite ?meth_max, ?EN. go. change (inject_Z 0) with 0.
    exact (interp_part (map Melody.round10 times ++ [mn]) (freqs ++ [0]) (voicing ++ [0]) (map Melody.round10 tn) VNone VNone).
  - exact (interp_part (map Melody.round10 times) freqs voicing (map Melody.round10 tn) VNone VNone).
Qed.

Lemma resample_melody_series_tie_aux : forall (times freqs voicing times_new : list Q),
  (length times = length times_new -> np_allclose times times_new = Melody.allclose times times_new) ->
  np_uniform times = Melody.uniform times -> np_uniform (tl times) = Melody.uniform (tl times) ->
  runx ext flog2 gen_mel_resample_melody_series [VArrQ times; VArrQ freqs; VArrQ voicing; VArrQ times_new; VStr "linear"]
  = lift_pair (snd (Melody.resample_melody_series times freqs voicing times_new)).
Proof.
  intros times freqs voicing times_new H1 H2 H3. rewrite rms_unfold.
  unfold runx, run_fun, exec_block.
  match goal with |- context [if ?c then _ else UNM] => change c with true end. cbv iota.
  change (f_body gen_mel_resample_melody_series)
    with (nth 0 (f_body gen_mel_resample_melody_series) SPass :: nth 1 (f_body gen_mel_resample_melody_series) SPass :: rms_rest).
  change (init_env gen_mel_resample_melody_series _)
    with (rms_env (VArrQ times) (VArrQ freqs) (VArrQ voicing) (VArrQ times_new) (VStr "linear")
                  VUnbound VUnbound VUnbound VUnbound VUnbound VUnbound VUnbound).
  rewrite run_block_cons.
  match goal with |- context [run_block ?f (?s1 :: rms_rest)] => remember (run_block f (s1 :: rms_rest)) as CONT eqn:EC end.
  cbn [nth f_body gen_mel_resample_melody_series]. unfold rms_env at 1. go.
  rewrite zeqb_nat', andb_true_r.
  assert (K : match
    match Melody.nonuniform_warn times freqs with
    | Ok _ => SNorm (rms_env (VArrQ times) (VArrQ freqs) (VArrQ voicing) (VArrQ times_new) (VStr "linear")
                  VUnbound VUnbound VUnbound VUnbound VUnbound VUnbound VUnbound)
    | Raise e => SExn e
    end with
    | SNorm en' => run_block (exec frame_sigs ext flog2) rms_rest en'
    | o => o end = match Melody.nonuniform_warn times freqs with
                   | Ok _ => run_block (exec frame_sigs ext flog2) rms_rest
                               (rms_env (VArrQ times) (VArrQ freqs) (VArrQ voicing) (VArrQ times_new) (VStr "linear")
                                        VUnbound VUnbound VUnbound VUnbound VUnbound VUnbound VUnbound)
                   | Raise e => SExn e end) by (destruct (Melody.nonuniform_warn times freqs); reflexivity).
  destruct (Nat.eqb (length times) (length times_new)) eqn:EL; cbn [andb].
  - change (allclose_gen RTOL_DEFAULT ATOL_DEFAULT times times_new) with (np_allclose times times_new).
    rewrite (H1 (proj1 (Nat.eqb_eq _ _) EL)).
    destruct (Melody.allclose times times_new); go; [reflexivity|].
    subst CONT. rewrite run_block_cons. fold (rms_env (VArrQ times) (VArrQ freqs) (VArrQ voicing) (VArrQ times_new) (VStr "linear")
                  VUnbound VUnbound VUnbound VUnbound VUnbound VUnbound VUnbound).
    rewrite (warn_stmt _ _ _ _ _ _ _ _ _ _ _ _ H2 H3), K.
    destruct (Melody.nonuniform_warn times freqs); [|reflexivity]. exact (round_part times freqs voicing times_new).
  - go. subst CONT. rewrite run_block_cons. fold (rms_env (VArrQ times) (VArrQ freqs) (VArrQ voicing) (VArrQ times_new) (VStr "linear")
                  VUnbound VUnbound VUnbound VUnbound VUnbound VUnbound VUnbound).
    rewrite (warn_stmt _ _ _ _ _ _ _ _ _ _ _ _ H2 H3), K.
    destruct (Melody.nonuniform_warn times freqs); [|reflexivity]. exact (round_part times freqs voicing times_new).
Qed.
Theorem resample_melody_series_tie : forall (times freqs voicing times_new : list Q),
  runx ext flog2 gen_mel_resample_melody_series [VArrQ times; VArrQ freqs; VArrQ voicing; VArrQ times_new; VStr "linear"]
  = lift_pair (snd (Melody.resample_melody_series times freqs voicing times_new)).
Proof.
  intros. apply resample_melody_series_tie_aux; [intros _; apply np_allclose_eq|apply np_uniform_eq|apply np_uniform_eq].
Qed.
End R.

Print Assumptions resample_melody_series_tie.
