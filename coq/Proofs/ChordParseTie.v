(* The chord label parser / encoder of mir_eval/chord.py, tied to the hand-written model by TRANSLATION.

   translator/chordparse.py turns the bodies of
     pitch_class_to_semitone, scale_degree_to_semitone, scale_degree_to_bitmap, quality_to_bitmap,
     reduce_extended_quality, validate_chord_label, split, join, encode, encode_many, rotate_bitmap_to_root
   into programs of the Python sub-language of Model/PyStr.v (Gen/ChordParseGen.v, regenerated on every check).
   This file proves, for ALL inputs (all strings, both values of every flag), that running each generated program
   gives exactly what the model function of Model/ChordParse.v (Model/ChordPipeline.v for encode_many, Model/ChordCmp.v
   for the rotation) gives,
   including which exception is raised. The callees of a function are instantiated by the MODEL's functions
   (Model/PyStrChord.v: chord_ext; CHORD_RE.match is the verified matcher on the translated pattern), so the
   theorems compose along the (acyclic, translator-checked) call graph; call sites are bound to the callee
   signatures read from the source in the same run (chord_sigs; their shape is pinned by chord_sigs_expected).

   What is proved about the language rather than assumed:
     * the string primitives of PyStr (general str.split / count / `in` / strip(chars) / startswith / join, str.lower
       on ASCII, str.strip() with the full Unicode white-space set) coincide with the model's single-character
       helpers on the arguments the source passes (bridging lemmas below);
     * a validated label has ASCII characters only (computed from the translated regular expression), hence
       str.lower and str.strip() stay inside their modelled domain and agree with the model's `lower` / `is_ws`;
     * iteration over the set of scale degrees goes through an arbitrary order oracle [sord]; encode_tie holds for
       every oracle that permutes (the accumulation is commutative and every failure is InvalidChord).
   Facts about generated data are obtained by computation over the data only. *)
From Coq Require Import String.
From Coq Require Import List Bool Arith ZArith Lia Permutation.
From ME Require Import Model.Prelude Model.Regex Model.ChordParse Model.PyStr Model.PyStrChord Gen.ChordRe Gen.ChordTables Gen.ChordParseGen.
From ME Require Import Proofs.RegexLang Proofs.ChordRegex Proofs.ChordTotal Proofs.ChordSound Proofs.ChordRoundTrip.
From ME Require Model.Intervals Model.ChordPipeline.
From ME Require Import Model.ChordCmp.
Import ListNotations.
Local Open Scope nat_scope.

(* ---------- the string primitives of PyStr are the helpers of the model ---------- *)
Lemma lstrip_p_eq p s : lstrip_p p s = lstrip p s. Proof. reflexivity. Qed.
Lemma strip_p_eq p s : strip_p p s = strip p s. Proof. reflexivity. Qed.
Lemma lower_ascii_eq s : lower_ascii s = lower s. Proof. reflexivity. Qed.
Lemma set_of_eq l : set_of l = dedup l. Proof. reflexivity. Qed.
Lemma sassoc_eq {A} k (l : list (str * A)) : sassoc k l = ChordParse.lookup k l. Proof. reflexivity. Qed.
Lemma zip_add_eq a b : zip_add a b = vadd a b. Proof. reflexivity. Qed.
Lemma set_nth_eq l : forall i v, @set_nth Z l i v = setnth l i v.
Proof. induction l as [|x t IH]; intros [|j] v; cbn [set_nth setnth]; try reflexivity. rewrite IH. reflexivity. Qed.
Lemma lstrip_ext p q s : (forall c, In c s -> p c = q c) -> lstrip p s = lstrip q s.
Proof. induction s as [|x t IH]; intros H; [reflexivity|]. cbn [lstrip]. rewrite (H x (or_introl eq_refl)).
  destruct (q x); [apply IH; intros c Hc; apply H; right; exact Hc|reflexivity]. Qed.
Lemma lstrip_incl p s x : In x (lstrip p s) -> In x s.
Proof. induction s as [|y t IH]; [intros []|]. cbn [lstrip]. destruct (p y); intros H; [right; auto|exact H]. Qed.
Lemma strip_ext p q s : (forall c, In c s -> p c = q c) -> strip p s = strip q s.
Proof. intros H. unfold strip. rewrite (lstrip_ext p q s H). f_equal. apply lstrip_ext.
  intros c Hc. apply H. apply in_rev in Hc. apply lstrip_incl in Hc. exact Hc. Qed.
Lemma strip_chr k s : strip_p (fun c => chr_in c [k]) s = strip (Nat.eqb k) s.
Proof. rewrite strip_p_eq. apply strip_ext. intros c _. unfold chr_in. cbn [existsb]. rewrite orb_false_r. apply Nat.eqb_sym. Qed.
Lemma prefix_chr k s : prefixb [k] s = starts k s.
Proof. destruct s as [|x t]; [reflexivity|]. cbn [prefixb starts]. apply andb_true_r. Qed.
Lemma contains_chr k s : containsb [k] s = has k s.
Proof. unfold has. induction s as [|x t IH]; [reflexivity|]. cbn [containsb existsb prefixb]. rewrite IH, andb_true_r, (Nat.eqb_sym x k). reflexivity. Qed.
Lemma count_chr k s : count_sub [k] 0 s = count k s.
Proof. unfold count. induction s as [|x t IH]; [reflexivity|]. cbn [count_sub prefixb filter List.length Nat.sub]. rewrite andb_true_r, (Nat.eqb_sym x k).
  destruct (Nat.eqb k x); cbn [List.length]; rewrite IH; reflexivity. Qed.
Lemma split_on_ne c s : split_on c s <> [].
Proof. destruct s as [|x t]; cbn [split_on]; [discriminate|]. destruct (Nat.eqb x c); [discriminate|]. destruct (split_on c t); discriminate. Qed.
Lemma split_chr_gen k s : forall cur, split_sub [k] 0 cur s = (rev cur ++ hd [] (split_on k s)) :: tl (split_on k s).
Proof. induction s as [|x t IH]; intros cur.
  - cbn [split_sub split_on hd tl]. rewrite app_nil_r. reflexivity.
  - cbn [split_sub split_on prefixb List.length Nat.sub]. rewrite andb_true_r. destruct (Nat.eqb x k).
    + cbn [hd tl]. rewrite app_nil_r, (IH []). cbn [rev app]. f_equal.
      pose proof (split_on_ne k t) as H. destruct (split_on k t); [contradiction|reflexivity].
    + rewrite (IH (x :: cur)). cbn [rev]. pose proof (split_on_ne k t) as H. destruct (split_on k t) as [|p ps]; [contradiction|].
      cbn [hd tl]. rewrite <- app_assoc. reflexivity. Qed.
Lemma split_chr k s : split_sub [k] 0 [] s = split_on k s.
Proof. rewrite split_chr_gen. cbn [rev app]. pose proof (split_on_ne k s) as H. destruct (split_on k s); [contradiction|reflexivity]. Qed.
Lemma join_chr k l : str_join [k] l = join_with k l.
Proof. induction l as [|x t IH]; [reflexivity|]. destruct t as [|y t]; [reflexivity|]. cbn [str_join join_with] in *. rewrite IH. reflexivity. Qed.
Lemma strip_chr' k s : strip_p (fun c => Nat.eqb c k || false) s = strip (Nat.eqb k) s.
Proof. exact (strip_chr k s). Qed.

(* ---------- generic facts about the evaluator ---------- *)
Lemma sassoc_map {A} (f : A -> pv) k (T : list (str * A)) :
  sassoc k (map (fun p => (fst p, f (snd p))) T) = option_map f (ChordParse.lookup k T).
Proof. induction T as [|[k' a] t IH]; [reflexivity|]. cbn [map sassoc ChordParse.lookup fst snd]. destruct (seqb k k'); [reflexivity|exact IH]. Qed.
Lemma all_ints_map l : all_ints (map VInt l) = Some l.
Proof. induction l as [|x t IH]; [reflexivity|]. cbn [map all_ints as_int]. rewrite IH. reflexivity. Qed.
Lemma all_strs_map l : all_strs (map VStr l) = Some l.
Proof. induction l as [|x t IH]; [reflexivity|]. cbn [map all_strs]. rewrite IH. reflexivity. Qed.

Lemma rep_list_zeros n : rep_list [VInt 0] (Z.of_nat n) = map VInt (repeat 0%Z n).
Proof. unfold rep_list. rewrite Nat2Z.id. induction n as [|n IH]; [reflexivity|]. cbn [repeat concat map app]. rewrite IH. reflexivity. Qed.
Lemma norm_idx_mod v n : (0 < n)%nat -> norm_idx (v mod Z.of_nat n) n = Some (Z.to_nat (v mod Z.of_nat n)).
Proof. intros H. unfold norm_idx. pose proof (Z.mod_pos_bound v (Z.of_nat n) ltac:(lia)) as B.
  replace (0 <=? v mod Z.of_nat n)%Z with true by (symmetry; apply Z.leb_le; lia).
  replace (v mod Z.of_nat n <? Z.of_nat n)%Z with true by (symmetry; apply Z.ltb_lt; lia). reflexivity. Qed.
Lemma set_nth_map {A B} (f : A -> B) l : forall i x, set_nth (map f l) i (f x) = map f (set_nth l i x).
Proof. induction l as [|y t IH]; intros [|j] x; cbn [map set_nth]; try reflexivity. rewrite IH. reflexivity. Qed.
Lemma setitem_zeros n v x : (0 < n)%nat ->
  set_item (VList (rep_list [VInt 0] (Z.of_nat n))) (VInt (v mod Z.of_nat n)) (VInt x)
  = OK (VList (map VInt (setnth (repeat 0%Z n) (Z.to_nat (v mod Z.of_nat n)) x))).
Proof. intros H. unfold set_item. rewrite rep_list_zeros, map_length, repeat_length, (norm_idx_mod v n H), set_nth_map, set_nth_eq. reflexivity. Qed.
Lemma for_loop_cons step v t en :
  for_loop step (v :: t) en = match step v en with SNorm en' => for_loop step t en' | r => r end.
Proof. reflexivity. Qed.
Lemma for_loop_nil step en : for_loop step [] en = SNorm en. Proof. reflexivity. Qed.
Lemma enum_from_cons n v t : enum_from n (v :: t) = VTup [VInt n; v] :: enum_from (n + 1) t. Proof. reflexivity. Qed.
Lemma pitch_lookup c (T : list (nat * nat)) :
  sassoc [c] (map (fun p => ([fst p], v_nat (snd p))) T)
  = option_map (fun p => v_nat (snd p)) (find (fun p => Nat.eqb (fst p) c) T).
Proof. induction T as [|[k v] t IH]; [reflexivity|]. cbn [map sassoc find fst snd seqb]. rewrite andb_true_r, (Nat.eqb_sym c k).
  destruct (Nat.eqb k c); [reflexivity|exact IH]. Qed.
Lemma pstep_raise s : forall e n, fst (fold_left pstep s (Raise e, n)) = Raise e.
Proof. induction s as [|c t IH]; intros e n; [reflexivity|]. cbn [fold_left pstep]. apply IH. Qed.
Lemma run_block_app f a b en :
  run_block f (a ++ b) en = match run_block f a en with SNorm en' => run_block f b en' | o => o end.
Proof. revert en. induction a as [|s r IH]; intros en; [reflexivity|]. cbn [app run_block].
  destruct (f s en); try reflexivity. apply IH. Qed.
(* a body cut at its first for loop *)
Fixpoint before_for (l : list stmt) : list stmt :=
  match l with [] => [] | SFor _ _ _ :: _ => [] | s :: t => s :: before_for t end.
Fixpoint from_for (l : list stmt) : list stmt :=
  match l with [] => [] | SFor _ _ _ :: _ => l | _ :: t => from_for t end.
Definition for_body (l : list stmt) : list stmt := match from_for l with SFor _ _ b :: _ => b | _ => [] end.
Definition after_for (l : list stmt) : list stmt := List.tl (from_for l).
Lemma cut_at_for l : l = before_for l ++ from_for l.
Proof. induction l as [|s t IH]; [reflexivity|]. destruct s; cbn [before_for from_for app]; try (f_equal; exact IH); try reflexivity. Qed.
Lemma mapM_map {A B C} (f : B -> out C) (g : A -> B) l : mapM f (map g l) = mapM (fun x => f (g x)) l.
Proof. induction l as [|x t IH]; [reflexivity|]. cbn [map mapM]. rewrite IH. reflexivity. Qed.
Lemma mapM_ok {A B} (g : A -> B) l : mapM (fun x => OK (g x)) l = OK (map g l).
Proof. induction l as [|x t IH]; [reflexivity|]. cbn [map mapM obind]. rewrite IH. reflexivity. Qed.
(* ---- characters of a validated label ---- *)
Definition asc (s : str) : Prop := forall c, In c s -> c < 128.
Lemma is_ascii_asc s : asc s -> is_ascii s = true.
Proof. intros H. unfold is_ascii. apply forallb_forall. intros c Hc. apply Nat.ltb_lt. auto. Qed.
Lemma chord_re_ascii : forallb (fun c => c <? 128) (chars chord_re) = true. Proof. vm_compute. reflexivity. Qed.
Lemma validated_asc s : validate_label s = Ok tt -> asc s.
Proof. unfold validate_label. destruct (rmatch chord_re s) eqn:E; [|discriminate]. intros _ c Hc.
  apply rmatch_iff_lang in E. pose proof (lang_chars _ _ E c Hc) as H.
  pose proof chord_re_ascii as F. rewrite forallb_forall in F. apply Nat.ltb_lt. auto. Qed.
Lemma split_on_in c s : forall p x, In p (split_on c s) -> In x p -> In x s.
Proof. induction s as [|y t IH]; intros p x Hp Hx; cbn [split_on] in Hp.
  - destruct Hp as [<-|[]]. exact Hx.
  - destruct (Nat.eqb y c).
    + destruct Hp as [<-|Hp]; [destruct Hx|]. right. eapply IH; eauto.
    + pose proof (split_on_ne c t) as Hn. destruct (split_on c t) as [|q qs]; [contradiction|].
      destruct Hp as [<-|Hp].
      * destruct Hx as [<-|Hx]; [left; reflexivity|]. right. apply (IH q x); [left; reflexivity|exact Hx].
      * right. apply (IH p x); [right; exact Hp|exact Hx]. Qed.
Lemma asc_split c s p : asc s -> In p (split_on c s) -> asc p.
Proof. intros H Hp x Hx. apply H. eapply split_on_in; eauto. Qed.
Lemma strip_in p s x : In x (strip p s) -> In x s.
Proof. unfold strip. intros H. apply in_rev in H. apply lstrip_incl in H. apply in_rev in H. apply lstrip_incl in H. exact H. Qed.
Lemma asc_strip p s : asc s -> asc (strip p s).
Proof. intros H x Hx. apply H. eapply strip_in; eauto. Qed.
Lemma space_ws_table : forallb (fun c => Bool.eqb (is_space c) (is_ws c)) (seq 0 128) = true. Proof. vm_compute. reflexivity. Qed.
Lemma space_ws c : c < 128 -> is_space c = is_ws c.
Proof. intros H. pose proof space_ws_table as T. rewrite forallb_forall in T.
  apply eqb_prop. apply T. apply in_seq. lia. Qed.
Lemma strip_space s : asc s -> strip_p is_space s = strip is_ws s.
Proof. intros H. rewrite strip_p_eq. apply strip_ext. intros c Hc. apply space_ws. auto. Qed.
Lemma map_strip_space l : Forall asc l -> map (strip_p is_space) l = map (strip is_ws) l.
Proof. induction 1 as [|x t Hx _ IH]; [reflexivity|]. cbn [map]. rewrite IH, (strip_space x Hx). reflexivity. Qed.
Lemma all_strs_map2 {A} (g : A -> str) l : all_strs (map (fun x => VStr (g x)) l) = Some (map g l).
Proof. induction l as [|x t IH]; [reflexivity|]. cbn [map all_strs]. rewrite IH. reflexivity. Qed.
Lemma all_strs_cons x xs : all_strs (VStr x :: map VStr xs) = Some (x :: xs).
Proof. exact (all_strs_map (x :: xs)). Qed.
Lemma norm_idx_range i n : (0 <= i < Z.of_nat n)%Z -> norm_idx i n = Some (Z.to_nat i).
Proof. intros H. unfold norm_idx.
  replace (0 <=? i)%Z with true by (symmetry; apply Z.leb_le; lia).
  replace (i <? Z.of_nat n)%Z with true by (symmetry; apply Z.ltb_lt; lia). reflexivity. Qed.
Lemma nth_error_nth {A} (l : list A) k d : (k < List.length l)%nat -> nth_error l k = Some (nth k l d).
Proof. revert k. induction l as [|x t IH]; intros [|k] H; cbn in *; try lia; [reflexivity|]. apply IH. lia. Qed.
Lemma degstep_raise red l : forall e, fold_left (degstep red) l (Raise e) = Raise e.
Proof. induction l as [|d t IH]; intros e; [reflexivity|]. cbn [fold_left degstep bind]. apply IH. Qed.
Lemma degstep_swap_gen red acc x y : degstep red (degstep red acc x) y = degstep red (degstep red acc y) x.
Proof. destruct acc as [a|e]; [|reflexivity].
  destruct (sdb_okic x red) as [[e1 E1]|E1]; destruct (sdb_okic y red) as [[e2 E2]|E2];
    unfold degstep; repeat (rewrite ?E1, ?E2; cbn [bind]); try reflexivity.
  rewrite vadd_swap. reflexivity. Qed.
Lemma fold_degstep_perm red l l' acc : Permutation l l' -> fold_left (degstep red) l acc = fold_left (degstep red) l' acc.
Proof. intros HP. apply (fold_left_perm (degstep red) (degstep_swap_gen red) l l' HP). Qed.
Lemma get_arr l i : (0 <= i < Z.of_nat (List.length l))%Z -> get_item (VArr l) (VInt i) = OK (VInt (nth (Z.to_nat i) l 0%Z)).
Proof. intros H. unfold get_item. rewrite (norm_idx_range i _ H), (nth_error_nth l (Z.to_nat i) 0%Z) by lia. reflexivity. Qed.
Lemma set_arr l i x : (0 <= i < Z.of_nat (List.length l))%Z -> set_item (VArr l) (VInt i) (VInt x) = OK (VArr (setnth l (Z.to_nat i) x)).
Proof. intros H. unfold set_item. cbn [as_int]. rewrite (norm_idx_range i _ H), set_nth_eq. reflexivity. Qed.
Lemma set_nth_mid {A} (pre : list A) x post v : set_nth (pre ++ x :: post) (List.length pre) v = pre ++ v :: post.
Proof. induction pre as [|y t IH]; [reflexivity|]. cbn [app List.length set_nth]. rewrite IH. reflexivity. Qed.
Lemma norm_idx_mid {A} (pre : list A) x post k : k = List.length pre ->
  norm_idx (Z.of_nat k) (List.length (pre ++ x :: post)) = Some k.
Proof. intros ->. rewrite norm_idx_range, Nat2Z.id; [reflexivity|]. rewrite app_length. cbn [List.length]. lia. Qed.
Lemma set_arr_mid pre x post v k : k = List.length pre ->
  set_item (VArr (pre ++ x :: post)) (VInt (Z.of_nat k)) (VInt v) = OK (VArr (pre ++ v :: post)).
Proof. intros H. unfold set_item. cbn [as_int]. rewrite (norm_idx_mid pre x post k H). subst k. rewrite set_nth_mid. reflexivity. Qed.
Lemma set_mat_mid c pre x post l k : k = List.length pre -> List.length l = c ->
  set_item (VMat c (pre ++ x :: post)) (VInt (Z.of_nat k)) (VArr l) = OK (VMat c (pre ++ l :: post)).
Proof. intros H Hl. unfold set_item. rewrite Hl, Nat.eqb_refl, (norm_idx_mid pre x post k H). subst k. rewrite set_nth_mid. reflexivity. Qed.
Lemma encode_len s r b root bm bass : encode s r b = Ok (root, bm, bass) -> List.length bm = 12.
Proof. intros H. destruct (seqb s NO_CHORD) eqn:HN; [|destruct (seqb s X_CHORD) eqn:HX].
  - unfold encode in H. rewrite HN in H. unfold Nenc in H. injection H as _ <- _. reflexivity.
  - unfold encode in H. rewrite HN, HX in H. unfold Xenc in H. injection H as _ <- _. reflexivity.
  - exact (proj1 (proj2 (proj2 (encode_sound s r b root bm bass H HN HX)))). Qed.
Lemma sassoc_set_get {A} k x (v : A) d : sassoc k (sassoc_set x v d) = if seqb k x then Some v else sassoc k d.
Proof. induction d as [|[k' a] t IH]; cbn [sassoc_set sassoc].
  - destruct (seqb k x); reflexivity.
  - destruct (seqb x k') eqn:E1; cbn [sassoc].
    + apply seqb_eq in E1. subst k'. destruct (seqb k x); reflexivity.
    + destruct (seqb k k') eqn:E2.
      * destruct (seqb k x) eqn:E3; [|reflexivity]. apply seqb_eq in E2. apply seqb_eq in E3. subst k' x. rewrite (proj2 (seqb_true_iff k k) eq_refl) in E1. discriminate.
      * exact IH. Qed.

(* ---- np.nonzero / fancy-index store against the rotation of the model (Model/ChordCmp.v: rot) ---- *)
Lemma filter_map_comm {A B} (P : B -> bool) (f : A -> B) l : filter P (map f l) = map f (filter (fun x => P (f x)) l).
Proof. induction l as [|x t IH]; [reflexivity|]. cbn [map filter]. destruct (P (f x)); cbn [map]; rewrite IH; reflexivity. Qed.
Lemma nz_from_spec l : forall i,
  nz_from i l = map (fun n => (i + Z.of_nat n)%Z) (filter (fun n => negb (nth n l 0 =? 0)%Z) (seq 0 (List.length l))).
Proof.
  induction l as [|x t IH]; intros i; [reflexivity|].
  cbn [nz_from List.length]. rewrite IH. cbn [seq filter nth]. rewrite <- seq_shift, filter_map_comm.
  assert (E : forall l0, map (fun n => (i + 1 + Z.of_nat n)%Z) l0 = map (fun n => (i + Z.of_nat n)%Z) (map S l0)).
  { intros l0. rewrite map_map. apply map_ext. intros n. lia. }
  destruct (x =? 0)%Z; cbn [negb map]; rewrite E; [reflexivity|]. f_equal. lia.
Qed.
Lemma set_nth_length {A} (l : list A) : forall i v, List.length (set_nth l i v) = List.length l.
Proof. induction l as [|x t IH]; intros [|j] v; cbn [set_nth List.length]; try reflexivity. rewrite IH. reflexivity. Qed.
Lemma scatter_fold idx x : forall a, Forall (fun i => (0 <= i < Z.of_nat (List.length a))%Z) idx ->
  scatter a idx x = Some (fold_left (fun acc i => set_nth acc (Z.to_nat i) x) idx a).
Proof.
  induction idx as [|i t IH]; intros a H; [reflexivity|]. inversion H as [|? ? Hi Ht]; subst.
  cbn [scatter fold_left]. rewrite (norm_idx_range i _ Hi). apply IH. rewrite set_nth_length. exact Ht.
Qed.
Lemma nth_set_nth {A} (l : list A) d : forall n j v, j < List.length l -> nth j (set_nth l n v) d = if Nat.eqb j n then v else nth j l d.
Proof. induction l as [|x t IH]; intros [|n] [|j] v H; cbn [set_nth nth Nat.eqb List.length] in *; try lia; try reflexivity.
  apply IH. lia. Qed.
Lemma nth_fold_set x d idx : forall (a : list Z) j, j < List.length a ->
  nth j (fold_left (fun acc i => set_nth acc (Z.to_nat i) x) idx a) d
  = if existsb (fun i => Nat.eqb j (Z.to_nat i)) idx then x else nth j a d.
Proof.
  induction idx as [|i t IH]; intros a j H; [reflexivity|]. cbn [fold_left existsb].
  rewrite IH by (rewrite set_nth_length; exact H). rewrite (nth_set_nth a d _ _ _ H).
  destruct (Nat.eqb j (Z.to_nat i)); cbn [orb]; [|reflexivity]. destruct (existsb _ t); reflexivity.
Qed.
Lemma fold_set_length x idx : forall a : list Z, List.length (fold_left (fun acc i => set_nth acc (Z.to_nat i) x) idx a) = List.length a.
Proof. induction idx as [|i t IH]; intros a; [reflexivity|]. cbn [fold_left]. rewrite IH, set_nth_length. reflexivity. Qed.
Lemma list12 (l : list Z) : List.length l = 12 -> l = map (fun j => nth j l 0%Z) idx12.
Proof. intros H. do 12 (destruct l as [|? l]; [cbn in H; lia|]). destruct l; [reflexivity|cbn in H; lia]. Qed.
Lemma existsb_map {A B} (P : B -> bool) (f : A -> B) l : existsb P (map f l) = existsb (fun x => P (f x)) l.
Proof. induction l as [|x t IH]; [reflexivity|]. cbn [map existsb]. rewrite IH. reflexivity. Qed.
Lemma existsb_filter {A} (P Q : A -> bool) l : existsb P (filter Q l) = existsb (fun x => P x && Q x) l.
Proof. induction l as [|x t IH]; [reflexivity|]. cbn [filter existsb]. destruct (Q x); cbn [existsb]; rewrite IH, ?andb_true_r, ?andb_false_r; reflexivity. Qed.
Lemma existsb_ext_in {A} (P Q : A -> bool) l : (forall x, In x l -> P x = Q x) -> existsb P l = existsb Q l.
Proof. induction l as [|x t IH]; intros H; [reflexivity|]. cbn [existsb]. rewrite (H x (or_introl eq_refl)), IH; [reflexivity|].
  intros y Hy. apply H. right. exact Hy. Qed.
Lemma existsb_pick (Q : nat -> bool) m : forall s len, s <= m < s + len ->
  existsb (fun n => Nat.eqb n m && Q n) (seq s len) = Q m.
Proof. intros s len. revert s. induction len as [|len IH]; intros s H; [lia|]. cbn [seq existsb].
  destruct (Nat.eqb s m) eqn:E; cbn [andb].
  - apply Nat.eqb_eq in E. subst s. destruct (Q m); [reflexivity|]. cbn [orb].
    rewrite (existsb_ext_in _ (fun _ => false)); [clear; induction (seq (S m) len); auto|].
    intros x Hx. apply in_seq in Hx. replace (Nat.eqb x m) with false; [reflexivity|]. symmetry. apply Nat.eqb_neq. lia.
  - apply Nat.eqb_neq in E. apply IH. lia. Qed.
Lemma mod12_table : forallb (fun k => forallb (fun j => forallb (fun n =>
    Bool.eqb (Nat.eqb j ((n + k) mod 12)) (Nat.eqb n ((j + 12 - k) mod 12))) (seq 0 12)) (seq 0 12)) (seq 0 12) = true.
Proof. vm_compute. reflexivity. Qed.
Lemma mod12_fact k j n : k < 12 -> j < 12 -> n < 12 -> Nat.eqb j ((n + k) mod 12) = Nat.eqb n ((j + 12 - k) mod 12).
Proof. intros Hk Hj Hn. pose proof mod12_table as T. rewrite forallb_forall in T.
  specialize (T k ltac:(apply in_seq; lia)). rewrite forallb_forall in T.
  specialize (T j ltac:(apply in_seq; lia)). rewrite forallb_forall in T.
  specialize (T n ltac:(apply in_seq; lia)). apply eqb_prop in T. exact T. Qed.
Lemma shift_nat n rt : Z.to_nat ((Z.of_nat n + rt) mod 12) = (n + Z.to_nat (rt mod 12)) mod 12.
Proof. pose proof (Z.mod_pos_bound rt 12 ltac:(lia)) as B.
  rewrite <- Zplus_mod_idemp_r. set (k := Z.to_nat (rt mod 12)).
  replace (rt mod 12)%Z with (Z.of_nat k) by (unfold k; lia).
  rewrite <- Nat2Z.inj_add. change 12%Z with (Z.of_nat 12). rewrite <- Nat2Z.inj_mod, Nat2Z.id. reflexivity. Qed.
Lemma scatter_rot b rt : List.length b = 12 ->
  scatter (repeat 0%Z 12) (map (fun v => (v mod 12)%Z) (map (fun v => (v + rt)%Z) (nz_from 0 b))) 1%Z = Some (rot b rt).
Proof.
  intros Hb. rewrite scatter_fold.
  2:{ apply Forall_forall. intros i Hi. apply in_map_iff in Hi. destruct Hi as (v & <- & _). rewrite repeat_length.
      apply (Z.mod_pos_bound v 12). lia. }
  f_equal. set (idx := map _ _). set (r := fold_left _ idx _).
  assert (Hr : List.length r = 12) by (unfold r; rewrite fold_set_length, repeat_length; reflexivity).
  rewrite (list12 r Hr). unfold rot, rotn. apply map_ext_in. intros j Hj.
  assert (Hj12 : j < 12) by (unfold idx12 in Hj; cbn in Hj; lia).
  unfold r. rewrite nth_fold_set by (rewrite repeat_length; exact Hj12).
  replace (nth j (repeat 0%Z 12) 0%Z) with 0%Z by (symmetry; apply nth_repeat).
  unfold idx. rewrite nz_from_spec, !existsb_map, existsb_filter, Hb. unfold nthz, b2z.
  set (k := Z.to_nat (rt mod 12)).
  assert (Hk : k < 12) by (unfold k; pose proof (Z.mod_pos_bound rt 12 ltac:(lia)); lia).
  rewrite (existsb_ext_in _ (fun n => Nat.eqb n ((j + 12 - k) mod 12) && negb (nth n b 0 =? 0)%Z)).
  - rewrite existsb_pick; [reflexivity|]. pose proof (Nat.mod_upper_bound (j + 12 - k) 12 ltac:(lia)). lia.
  - intros n Hn. apply in_seq in Hn. f_equal. rewrite Z.add_0_l, shift_nat. fold k. apply mod12_fact; lia.
Qed.

Local Arguments prefixb : simpl never.
Local Arguments containsb : simpl never.
Local Arguments count_sub : simpl never.
Local Arguments split_sub : simpl never.
Local Arguments strip_p : simpl never.
Local Arguments lower_ascii : simpl never.
Local Arguments is_ascii : simpl never.
Local Arguments str_join : simpl never.
Local Arguments sassoc : simpl never.
Local Arguments smem : simpl never.
Local Arguments set_of : simpl never.
Local Arguments set_union : simpl never.
Local Arguments norm_idx : simpl never.
Local Arguments for_loop : simpl never.
Local Arguments for_step : simpl never.
Local Arguments enum_from : simpl never.
Local Arguments set_item : simpl never.
Local Arguments rep_list : simpl never.
Local Arguments all_strs : simpl never.
Local Arguments all_ints : simpl never.
Local Arguments mapM : simpl never.
Local Arguments Z.modulo : simpl never.
Local Arguments Nat.eqb !_ !_.
Local Arguments Z.eqb !_ !_.
Local Arguments Z.ltb !_ !_.
Local Arguments Z.leb !_ !_.
Local Arguments Z.mul !_ !_.
Local Arguments Z.add !_ !_.
Local Arguments Z.sub !_ !_.
Local Arguments Z.of_nat : simpl never.
Local Arguments SCALE_DEGREES : simpl never.
Local Arguments PITCH_CLASSES : simpl never.
Local Arguments QUALITIES : simpl never.
Local Arguments EXTENDED_QUALITY_REDUX : simpl never.
Local Arguments BITMAP_LENGTH : simpl never.
Local Arguments chord_sigs : simpl never.
Local Arguments rmatch : simpl never.

Local Arguments v_ints : simpl never.
Local Arguments v_nat : simpl never.
Local Arguments v_redux : simpl never.
Ltac sigs := repeat match goal with |- context [lookup_sig chord_sigs ?f] =>
  let v := eval vm_compute in (lookup_sig chord_sigs f) in change (lookup_sig chord_sigs f) with v end.
Ltac go := cbn; sigs; cbn.
Theorem quality_to_bitmap_tie : forall sord q,
  run sord gen_quality_to_bitmap [VStr q] = lift VArr (quality_to_bitmap q).
Proof.
  intros. unfold run, run_fun, quality_to_bitmap. cbn. rewrite !sassoc_map.
  destruct (ChordParse.lookup q QUALITIES) as [bm|] eqn:E; [|cbn; reflexivity]. cbn.
  rewrite sassoc_map, E. unfold v_ints. cbn. rewrite all_ints_map. reflexivity.
Qed.
Lemma sassoc_redux q :
  sassoc q (map (fun p => (fst p, v_redux (snd p))) EXTENDED_QUALITY_REDUX)
  = option_map v_redux (@ChordParse.lookup (str * list str) q EXTENDED_QUALITY_REDUX).
Proof. exact (sassoc_map v_redux q EXTENDED_QUALITY_REDUX). Qed.
Theorem reduce_extended_quality_tie : forall sord q,
  run sord gen_reduce_extended_quality [VStr q] = OK (v_redux (reduce_extended_quality q)).
Proof.
  intros. unfold run, run_fun, reduce_extended_quality. cbn. rewrite !sassoc_map. unfold str.
  destruct (ChordParse.lookup q EXTENDED_QUALITY_REDUX) as [v|] eqn:E; cbn; rewrite ?sassoc_map; unfold str in *; rewrite ?E; reflexivity.
Qed.
Theorem validate_chord_label_tie : forall sord s,
  run sord gen_validate_chord_label [VStr s] = lift v_unit (validate_label s).
Proof.
  intros. unfold run, run_fun, validate_label. go.
  destruct (rmatch chord_re s); reflexivity.
Qed.
Theorem scale_degree_to_semitone_tie : forall sord s,
  run sord gen_scale_degree_to_semitone [VStr s] = lift VInt (scale_degree_to_semitone s).
Proof.
  intros. unfold run, run_fun, scale_degree_to_semitone, c_sharp, c_flat. cbn.
  rewrite !prefix_chr.
  destruct (starts 35 s); cbn.
  - rewrite !strip_chr', count_chr, sassoc_map.
    destruct (ChordParse.lookup _ SCALE_DEGREES) as [v|]; unfold v_nat; cbn; reflexivity.
  - rewrite !prefix_chr. destruct (starts 98 s); cbn.
    + rewrite !strip_chr', count_chr, sassoc_map.
      destruct (ChordParse.lookup _ SCALE_DEGREES) as [v|]; unfold v_nat; cbn; [|reflexivity].
      apply f_equal, f_equal. lia.
    + rewrite sassoc_map. destruct (ChordParse.lookup _ SCALE_DEGREES) as [v|]; unfold v_nat; cbn; reflexivity.
Qed.
Lemma bitmap_length_pos : (0 < BITMAP_LENGTH)%nat. Proof. vm_compute. lia. Qed.
Lemma bitmap_length_nz : (Z.of_nat BITMAP_LENGTH =? 0)%Z = false. Proof. vm_compute. reflexivity. Qed.
Theorem scale_degree_to_bitmap_tie : forall sord s m,
  run sord gen_scale_degree_to_bitmap [VStr s; VBool m; VInt (Z.of_nat BITMAP_LENGTH)] = lift VArr (scale_degree_to_bitmap s m).
Proof.
  intros. unfold run, run_fun, scale_degree_to_bitmap, c_star, zeros. go.
  rewrite !prefix_chr. destruct (starts 42 s); go.
  - rewrite !strip_chr'. destruct (scale_degree_to_semitone _) as [v|e]; go; [|reflexivity].
    destruct (v <? Z.of_nat BITMAP_LENGTH)%Z; [|destruct m]; go;
      rewrite ?bitmap_length_nz; go; rewrite ?(setitem_zeros _ _ _ bitmap_length_pos); go;
      rewrite ?rep_list_zeros, all_ints_map; reflexivity.
  - destruct (scale_degree_to_semitone _) as [v|e]; go; [|reflexivity].
    destruct (v <? Z.of_nat BITMAP_LENGTH)%Z; [|destruct m]; go;
      rewrite ?bitmap_length_nz; go; rewrite ?(setitem_zeros _ _ _ bitmap_length_pos); go;
      rewrite ?rep_list_zeros, all_ints_map; reflexivity.
Qed.

Definition pcs_body : list stmt := for_body (f_body gen_pitch_class_to_semitone).
Definition sem_v (st : option Z) : pv := match st with Some v => VInt v | None => VNone end.
Definition pcs_env (p : str) (st : option Z) (a b : pv) : env :=
  [("pitch_class", VStr p); ("semitone", sem_v st); ("idx", a); ("char", b)]%string.
Lemma pstep_pair st n c : pstep (Ok st, n) c = (fst (pstep (Ok st, n) c), S n).
Proof. reflexivity. Qed.
Lemma zpos_nat n : (0 <? Z.of_nat n)%Z = negb (Nat.eqb n 0).
Proof. destruct n; [reflexivity|]. cbn [Nat.eqb negb]. apply Z.ltb_lt. lia. Qed.
Lemma zzero_nat n : (Z.of_nat n =? 0)%Z = Nat.eqb n 0.
Proof. destruct n; [reflexivity|]. cbn [Nat.eqb]. apply Z.eqb_neq. lia. Qed.
Lemma pcs_step sord p c n st a b :
  for_step sord (run_block (exec chord_genv chord_sigs chord_ext sord)) ["idx"; "char"]%string pcs_body
    (VTup [VInt (Z.of_nat n); VStr [c]]) (pcs_env p st a b)
  = match fst (pstep (Ok st, n) c) with
    | Ok st' => SNorm (pcs_env p st' (VInt (Z.of_nat n)) (VStr [c]))
    | Raise e => SExn e end.
Proof.
  unfold for_step, pcs_body, pcs_env, pstep, c_sharp, c_flat. cbn.
  rewrite !andb_true_r, zpos_nat.
  destruct (Nat.eqb c 35); cbn.
  - destruct (Nat.eqb n 0) eqn:En; cbn.
    + rewrite andb_true_r. destruct (Nat.eqb c 98); cbn; rewrite ?zpos_nat, ?En; cbn.
      * rewrite zzero_nat, En. cbn. rewrite pitch_lookup. destruct (find _ PITCH_CLASSES) as [[k v]|]; reflexivity.
      * rewrite zzero_nat, En. cbn. rewrite pitch_lookup. destruct (find _ PITCH_CLASSES) as [[k v]|]; reflexivity.
    + destruct st as [v|]; reflexivity.
  - rewrite andb_true_r. destruct (Nat.eqb c 98); cbn; rewrite ?zpos_nat.
    + destruct (Nat.eqb n 0) eqn:En; cbn.
      * rewrite zzero_nat, En. cbn. rewrite pitch_lookup. destruct (find _ PITCH_CLASSES) as [[k v]|]; reflexivity.
      * destruct st as [v|]; reflexivity.
    + rewrite zzero_nat. destruct (Nat.eqb n 0) eqn:En; cbn.
      * rewrite pitch_lookup. destruct (find _ PITCH_CLASSES) as [[k v]|]; reflexivity.
      * reflexivity.
Qed.
Lemma pcs_loop sord p : forall s n st a b, exists a' b',
  for_loop (for_step sord (run_block (exec chord_genv chord_sigs chord_ext sord)) ["idx"; "char"]%string pcs_body)
    (enum_from (Z.of_nat n) (map (fun c => VStr [c]) s)) (pcs_env p st a b)
  = match fst (fold_left pstep s (Ok st, n)) with
    | Ok st' => SNorm (pcs_env p st' a' b')
    | Raise e => SExn e end.
Proof.
  induction s as [|c t IH]; intros n st a b.
  - exists a, b. reflexivity.
  - cbn [map fold_left]. rewrite enum_from_cons, for_loop_cons, pcs_step, pstep_pair.
    replace (Z.of_nat n + 1)%Z with (Z.of_nat (S n)) by lia.
    destruct (fst (pstep (Ok st, n) c)) as [st'|e].
    + apply IH.
    + exists a, b. rewrite pstep_raise. reflexivity.
Qed.
Ltac use_loop E :=
  match type of E with _ = ?R =>
    match goal with |- context [for_loop ?st ?els ?en] => replace (for_loop st els en) with R by (symmetry; exact E) end end.
Theorem pitch_class_to_semitone_tie : forall sord s,
  run sord gen_pitch_class_to_semitone [VStr s] = lift VInt (pitch_class_to_semitone s).
Proof.
  intros. unfold run, run_fun. rewrite pcs_unfold. go.
  destruct (pcs_loop sord s s 0 (Some 0%Z) VUnbound VUnbound) as (a' & b' & E).
  use_loop E. destruct (fst (fold_left pstep s (Ok (Some 0%Z), 0))) as [[v|]|e]; reflexivity.
Qed.

(* ---------------- split ---------------- *)
Local Arguments NO_CHORD : simpl never.
Local Arguments X_CHORD : simpl never.
Local Arguments validate_label : simpl never.
Local Arguments reduce_extended_quality : simpl never.
Definition sres_of (o : out pv) : sres := match o with OK v => SRet v | EXN e => SExn e | UNM => SUnm end.
Definition F sord := exec chord_genv chord_sigs chord_ext sord.
Definition split_env (cl red bass sd om q rt qn addl : pv) : env :=
  [("chord_label", cl); ("reduce_extended_chords", red); ("bass", bass); ("scale_degrees", sd); ("omission", om);
   ("quality", q); ("chord_root", rt); ("quality_name", qn); ("addl_scale_degrees", addl)]%string.
Lemma truth_len {A} (l : list A) : negb (Nat.eqb (List.length l) 0) = match l with [] => false | _ => true end.
Proof. destruct l; reflexivity. Qed.

Ltac fin_red red :=
  destruct red; cbn; sigs; cbn;
  [unfold v_redux; destruct (reduce_extended_quality _) as [q' add]; cbn; reflexivity | reflexivity].
Lemma split_tail_tie sord s' red bass degs om q0 r0 n0 a0 : asc s' ->
  run_block (F sord) (skipn 8 (f_body gen_split))
    (split_env (VStr s') (VBool red) (VStr bass) (VSet degs) (VBool om) q0 r0 n0 a0)
  = sres_of (lift v_split (split_tail s' om degs bass red)).
Proof.
  intros Ha. unfold F, split_env, split_tail, c_colon. cbn.
  assert (Hq : forall a b l, split_on 58 s' = a :: b :: l -> is_ascii b = true).
  { intros a b l E. apply is_ascii_asc, (asc_split 58 s'); [exact Ha|rewrite E; right; left; reflexivity]. }
  destruct om; cbn; rewrite ?contains_chr; destruct (has 58 s') eqn:Hc; cbn; try reflexivity;
    rewrite truth_len; destruct degs as [|d ds]; cbn; rewrite contains_chr, Hc; cbn;
    try (fin_red red);
    rewrite split_chr; destruct (split_on 58 s') as [|a [|b [|c l]]] eqn:E; cbn; try reflexivity;
    rewrite truth_len; destruct b as [|b0 bt]; cbn; try (fin_red red);
    rewrite (Hq _ _ _ eq_refl); cbn; fin_red red.
Qed.
Lemma split_mid_tie sord s' red bass d0 o0 q0 r0 n0 a0 : asc s' ->
  run_block (F sord) (skipn 5 (f_body gen_split))
    (split_env (VStr s') (VBool red) (VStr bass) d0 o0 q0 r0 n0 a0)
  = sres_of (lift v_split (split_mid s' bass red)).
Proof.
  intros Ha. change (skipn 5 (f_body gen_split)) with (firstn 3 (skipn 5 (f_body gen_split)) ++ skipn 8 (f_body gen_split)).
  rewrite run_block_app. remember (skipn 8 (f_body gen_split)) as tl eqn:Etl.
  unfold F, split_env, split_mid, c_lpar, c_star, c_rpar, c_comma. cbn.
  rewrite contains_chr. destruct (has 40 s') eqn:Hp; cbn.
  - rewrite split_chr. destruct (split_on 40 s') as [|a [|b [|c l]]] eqn:E; cbn; try reflexivity.
    assert (Haa : asc a) by (apply (asc_split 40 s'); [exact Ha|rewrite E; left; reflexivity]).
    assert (Hab : asc b) by (apply (asc_split 40 s'); [exact Ha|rewrite E; right; left; reflexivity]).
    rewrite contains_chr, strip_chr', split_chr, mapM_map. cbn. rewrite mapM_ok. cbn. rewrite all_strs_map2. cbn.
    rewrite set_of_eq, map_strip_space.
    + subst tl. apply (split_tail_tie sord a red bass _ _ q0 r0 n0 a0 Haa).
    + apply Forall_forall. intros x Hx. apply (asc_split 44 _ x (asc_strip _ _ Hab) Hx).
  - subst tl. apply (split_tail_tie sord s' red bass [] false q0 r0 n0 a0 Ha).
Qed.
Lemma split_rest_tie sord s red b0 d0 o0 q0 r0 n0 a0 : asc s ->
  run_block (F sord) (skipn 2 (f_body gen_split))
    (split_env (VStr s) (VBool red) b0 d0 o0 q0 r0 n0 a0)
  = sres_of (lift v_split (split_rest s red)).
Proof.
  intros Ha. change (skipn 2 (f_body gen_split)) with (firstn 3 (skipn 2 (f_body gen_split)) ++ skipn 5 (f_body gen_split)).
  rewrite run_block_app. remember (skipn 5 (f_body gen_split)) as tl eqn:Etl.
  unfold F, split_env, split_rest, c_slash, s_one. cbn.
  destruct (seqb s NO_CHORD); cbn; [reflexivity|].
  rewrite contains_chr. destruct (has 47 s) eqn:Hp; cbn.
  - rewrite split_chr. destruct (split_on 47 s) as [|a [|b [|c l]]] eqn:E; cbn; try reflexivity.
    assert (Haa : asc a) by (apply (asc_split 47 s); [exact Ha|rewrite E; left; reflexivity]).
    subst tl. apply (split_mid_tie sord a red b d0 o0 q0 r0 n0 a0 Haa).
  - subst tl. apply (split_mid_tie sord s red [49] d0 o0 q0 r0 n0 a0 Ha).
Qed.
Theorem split_tie : forall sord s red,
  run sord gen_split [VStr s; VBool red] = lift v_split (split s red).
Proof.
  intros. unfold run, run_fun. cbn [List.length f_params gen_split Nat.eqb]. unfold exec_block.
  change (f_body gen_split) with (firstn 2 (f_body gen_split) ++ skipn 2 (f_body gen_split)).
  rewrite run_block_app. remember (skipn 2 (f_body gen_split)) as tl eqn:Etl.
  rewrite split_unfold. go.
  destruct (validate_label s) as [[]|e] eqn:Ev; cbn; [|reflexivity].
  subst tl.
  match goal with |- context [run_block ?f ?p ?en] =>
    replace (run_block f p en) with (sres_of (lift v_split (split_rest s red)))
      by (symmetry; exact (split_rest_tie sord s red VUnbound VUnbound VUnbound VUnbound VUnbound VUnbound VUnbound (validated_asc s Ev))) end.
  destruct (split_rest s red) as [[[[rt q] d] b]|e]; reflexivity.
Qed.

(* ---------------- join ---------------- *)
Local Arguments v_strs : simpl never.
Local Arguments join_with : simpl never.
Local Arguments seqb : simpl never.
Ltac join_norm := repeat (cbn -[app]; sigs; rewrite <- ?app_assoc, ?app_nil_r, ?all_strs_cons, ?all_strs_map, ?join_chr, ?truth_len; cbn [app]).
Ltac join_fin :=
  join_norm;
  try match goal with |- context [seqb ?b [49]] => destruct (seqb b [49]) end;
  join_norm;
  try match goal with |- context [validate_label ?l] => destruct (validate_label l) as [[]|e] end;
  cbn; try reflexivity.
Theorem join_tie : forall sord rt q exts b,
  run sord gen_join [VStr rt; VStr q; v_strs exts; VStr b] = lift VStr (join rt q exts b).
Proof.
  intros. unfold run, run_fun, join, c_colon, c_lpar, c_rpar, c_slash, c_comma, s_one, v_strs. cbn.
  rewrite !truth_len.
  destruct q as [|q0 qt]; destruct exts as [|x xs]; destruct b as [|b0 bt]; join_fin.
Qed.
Theorem join_none_tie : forall sord rt q b,
  run sord gen_join [VStr rt; VStr q; VNone; VStr b] = lift VStr (join rt q [] b).
Proof.
  intros. unfold run, run_fun, join, c_colon, c_lpar, c_rpar, c_slash, c_comma, s_one. cbn.
  rewrite !truth_len.
  destruct q as [|q0 qt]; destruct b as [|b0 bt]; join_fin.
Qed.

(* ---------------- encode ---------------- *)
Local Arguments get_item : simpl never.
Local Arguments quality_to_bitmap : simpl never.
Local Arguments scale_degree_to_bitmap : simpl never.
Local Arguments scale_degree_to_semitone : simpl never.
Local Arguments pitch_class_to_semitone : simpl never.
Local Arguments split : simpl never.
Local Arguments v_enc : simpl never.
Local Arguments v_split : simpl never.
Definition enc_env (cl red strict root bassn bm sd rt q degs bass : pv) : env :=
  [("chord_label", cl); ("reduce_extended_chords", red); ("strict_bass_intervals", strict); ("root_number", root);
   ("bass_number", bassn); ("semitone_bitmap", bm); ("scale_degree", sd); ("chord_root", rt); ("quality", q);
   ("scale_degrees", degs); ("bass", bass)]%string.
Definition enc_fin (root bassn : Z) (strict : bool) (a : list Z) : res enc :=
  let bm := map (fun x => if 0 <? x then 1 else 0)%Z a in
  if (nth (Z.to_nat bassn) bm 0 =? 0)%Z && strict then Raise InvalidChord
  else Ok (root, setnth bm (Z.to_nat bassn) 1%Z, bassn).
Lemma enc_tail_tie sord s red strict root bassn a sdv rt q degs bass :
  List.length a = 12%nat -> (0 <= bassn < 12)%Z ->
  run_block (F sord) (after_for (f_body gen_encode))
    (enc_env (VStr s) (VBool red) (VBool strict) (VInt root) (VInt bassn) (VArr a) sdv rt q degs bass)
  = sres_of (lift v_enc (enc_fin root bassn strict a)).
Proof.
  intros Hl Hb. unfold F, enc_env, enc_fin. cbn. rewrite map_map.
  set (bm := map (fun x : Z => if (0 <? x)%Z then 1%Z else 0%Z) a).
  assert (Hbm : List.length bm = 12) by (unfold bm; rewrite map_length; exact Hl).
  rewrite ?get_arr by (rewrite Hbm; lia). cbn.
  destruct strict; cbn; rewrite ?get_arr by (rewrite Hbm; lia); cbn;
    (destruct (nth (Z.to_nat bassn) bm 0 =? 0)%Z; cbn; rewrite ?set_arr by (rewrite Hbm; lia); cbn; reflexivity).
Qed.
Definition enc_body : list stmt := for_body (f_body gen_encode).
Lemma bl12 : (12 =? Z.of_nat BITMAP_LENGTH)%Z = true. Proof. vm_compute. reflexivity. Qed.
Lemma enc_step sord s red strict root bassn rt q dg bass d a sdv : List.length a = 12 ->
  for_step sord (run_block (F sord)) ["scale_degree"]%string enc_body (VStr d)
    (enc_env (VStr s) (VBool red) (VBool strict) root bassn (VArr a) sdv rt q dg bass)
  = match degstep red (Ok a) d with
    | Ok a' => SNorm (enc_env (VStr s) (VBool red) (VBool strict) root bassn (VArr a') (VStr d) rt q dg bass)
    | Raise e => SExn e end.
Proof.
  intros Hl. unfold for_step, F, enc_body, enc_env, degstep. cbn. sigs. cbn. rewrite bl12. cbn [bind].
  destruct (scale_degree_to_bitmap d red) as [e|x] eqn:E; cbn; [|reflexivity].
  rewrite Hl, (sdb_length _ _ _ E). cbn. rewrite zip_add_eq. reflexivity.
Qed.
Lemma enc_loop sord s red strict root bassn rt q dg bass : forall l a sdv, List.length a = 12 -> exists sdv',
  for_loop (for_step sord (run_block (F sord)) ["scale_degree"]%string enc_body) (map VStr l)
    (enc_env (VStr s) (VBool red) (VBool strict) root bassn (VArr a) sdv rt q dg bass)
  = match fold_left (degstep red) l (Ok a) with
    | Ok a' => SNorm (enc_env (VStr s) (VBool red) (VBool strict) root bassn (VArr a') sdv' rt q dg bass)
    | Raise e => SExn e end.
Proof.
  induction l as [|d t IH]; intros a sdv Hl.
  - exists sdv. reflexivity.
  - cbn [map fold_left]. rewrite for_loop_cons, (enc_step _ _ _ _ _ _ _ _ _ _ _ _ _ Hl).
    destruct (degstep red (Ok a) d) as [a'|e] eqn:E.
    + apply IH. unfold degstep in E. cbn [bind] in E.
      destruct (scale_degree_to_bitmap d red) as [e|x] eqn:E2; cbn [bind] in E; [|discriminate].
      injection E as <-. apply vadd_length; [exact Hl|exact (sdb_length _ _ _ E2)].
    + exists sdv. rewrite degstep_raise. reflexivity.
Qed.
Lemma encode_unfold s red strict : encode s red strict =
  if seqb s NO_CHORD then Ok Nenc else if seqb s X_CHORD then Ok Xenc else
  p <- split s red ;; let '(rt, quality, degs, bass) := p in
  root <- pitch_class_to_semitone rt ;;
  b <- scale_degree_to_semitone bass ;;
  bm <- quality_to_bitmap quality ;;
  bm <- fold_left (degstep red) degs (Ok (setnth bm 0%nat 1%Z)) ;;
  enc_fin root (b mod 12)%Z strict bm.
Proof. reflexivity. Qed.
Theorem encode_tie : forall sord, (forall l, Permutation (sord l) l) -> forall s red strict,
  run sord gen_encode [VStr s; VBool red; VBool strict] = lift v_enc (encode s red strict).
Proof.
  intros sord Hperm s red strict. unfold run, run_fun. cbn [List.length f_params gen_encode Nat.eqb]. unfold exec_block.
  rewrite (cut_at_for (f_body gen_encode)) at 1.
  rewrite run_block_app. remember (from_for (f_body gen_encode)) as tl eqn:Etl.
  rewrite encode_unfold. go.
  destruct (seqb s NO_CHORD) eqn:HN; destruct (seqb s X_CHORD) eqn:HX; cbn; rewrite ?HN, ?HX; cbn; try reflexivity;
    try solve [exfalso; apply seqb_eq in HN; apply seqb_eq in HX; rewrite HN in HX; vm_compute in HX; discriminate HX].
  sigs. cbn.
  destruct (split s red) as [[[[rt q] degs] bass]|e]; cbn; [|reflexivity].
  unfold v_split. cbn. sigs. cbn.
  destruct (pitch_class_to_semitone rt) as [root|e]; cbn; [|reflexivity].
  sigs. cbn.
  destruct (scale_degree_to_semitone bass) as [b|e]; cbn; [|reflexivity].
  sigs. cbn.
  destruct (quality_to_bitmap q) as [bm|e] eqn:Eq; cbn; [|reflexivity].
  pose proof (quality_len _ _ Eq) as Hl.
  rewrite (set_arr bm 0 1) by (rewrite Hl; lia). cbn.
  subst tl. change (from_for (f_body gen_encode)) with ([hd SPass (from_for (f_body gen_encode))] ++ after_for (f_body gen_encode)).
  rewrite run_block_app. remember (after_for (f_body gen_encode)) as tl eqn:Etl. cbn.
  assert (Hl' : List.length (setnth bm 0 1%Z) = 12) by (rewrite setnth_length; exact Hl).
  destruct (enc_loop sord s red strict (VInt root) (VInt (b mod 12)) (VStr rt) (VStr q) (VSet degs) (VStr bass)
              (sord degs) (setnth bm 0 1%Z) VUnbound Hl') as (sdv' & E).
  rewrite (fold_degstep_perm red (sord degs) degs _ (Hperm degs)) in E.
  use_loop E.
  destruct (fold_left (degstep red) degs (Ok (setnth bm 0 1%Z))) as [a'|e] eqn:Ef; cbn [bind]; [|reflexivity].
  assert (Ha' : List.length a' = 12).
  { apply (fold_len red degs _ _ Ef). intros a0 H0. injection H0 as <-. exact Hl'. }
  subst tl. fold (F sord).
  rewrite (enc_tail_tie sord s red strict root (b mod 12)%Z a' sdv' (VStr rt) (VStr q) (VSet degs) (VStr bass) Ha'
             (Z.mod_pos_bound b 12 ltac:(lia))).
  destruct (enc_fin root (b mod 12) strict a') as [[[r1 b1] n1]|e]; reflexivity.
Qed.
(* the hypothesis on the order oracle is satisfiable: insertion order, reversed order *)
Example sord_id_permutes : forall l : list str, Permutation ((fun x => x) l) l. Proof. intros l. apply Permutation_refl. Qed.
Example sord_rev_permutes : forall l : list str, Permutation (rev l) l. Proof. intros l. apply Permutation_sym, Permutation_rev. Qed.

(* ---------------- encode_many ---------------- *)
Definition enc_root (e : enc) : Z := fst (fst e).
Definition enc_bm (e : enc) : list Z := snd (fst e).
Definition enc_bass (e : enc) : Z := snd e.
Definition v_encs (l : list enc) : pv := VTup [VArr (map enc_root l); VMat 12 (map enc_bm l); VArr (map enc_bass l)].
Definition em_env (labels red n : pv) (done : list enc) (k : nat) (d : list (str * pv)) (i l r : pv) : env :=
  [("chord_labels", labels); ("reduce_extended_chords", red); ("num_items", n);
   ("semitones", VMat 12 (map enc_bm done ++ repeat (repeat 0%Z 12) k));
   ("local_cache", VDict d);
   ("roots", VArr (map enc_root done ++ repeat 0%Z k)); ("basses", VArr (map enc_bass done ++ repeat 0%Z k));
   ("i", i); ("label", l); ("result", r)]%string.
Definition cache_ok (red : bool) (d : list (str * pv)) : Prop :=
  forall k v, sassoc k d = Some v -> exists e, encode k red false = Ok e /\ v = v_enc e.
Definition em_body : list stmt := for_body (f_body gen_encode_many).
Lemma em_step sord labels red n done k d i0 l0 r0 x : cache_ok red d -> exists d',
  cache_ok red d' /\
  for_step sord (run_block (F sord)) ["i"; "label"]%string em_body (VTup [VInt (Z.of_nat (List.length done)); VStr x])
    (em_env labels (VBool red) n done (S k) d i0 l0 r0)
  = match encode x red false with
    | Ok e => SNorm (em_env labels (VBool red) n (done ++ [e]) k d' (VInt (Z.of_nat (List.length done))) (VStr x) (v_enc e))
    | Raise ex => SExn ex end.
Proof.
  intros Hc. unfold for_step, F, em_body, em_env. cbn.
  assert (Fin : forall r bm b dd, encode x red false = Ok (r, bm, b) ->
    match
      lift_e (set_item (VArr (map enc_root done ++ 0%Z :: repeat 0%Z k)) (VInt (Z.of_nat (List.length done))) (VInt r))
        (fun a' => lift_e (set_item (VMat 12 (map enc_bm done ++ repeat 0%Z 12 :: repeat (repeat 0%Z 12) k))
                            (VInt (Z.of_nat (List.length done))) (VArr bm))
          (fun a'0 => lift_e (set_item (VArr (map enc_bass done ++ 0%Z :: repeat 0%Z k)) (VInt (Z.of_nat (List.length done))) (VInt b))
            (fun a'1 => SNorm [("chord_labels", labels); ("reduce_extended_chords", VBool red); ("num_items", n); ("semitones", a'0);
                               ("local_cache", VDict dd); ("roots", a'); ("basses", a'1);
                               ("i", VInt (Z.of_nat (List.length done))); ("label", VStr x);
                               ("result", VTup [VInt r; VArr bm; VInt b])]%string)))
    with SNorm en' => SNorm en' | o => o end
    = SNorm (em_env labels (VBool red) n (done ++ [(r, bm, b)]) k dd (VInt (Z.of_nat (List.length done))) (VStr x) (VTup [VInt r; VArr bm; VInt b]))).
  { intros r bm b dd He.
    rewrite (set_arr_mid (map enc_root done)) by (symmetry; apply map_length). cbn [lift_e].
    rewrite (set_mat_mid 12 (map enc_bm done)) by (first [symmetry; apply map_length | exact (encode_len _ _ _ _ _ _ He)]). cbn [lift_e].
    rewrite (set_arr_mid (map enc_bass done)) by (symmetry; apply map_length). cbn [lift_e].
    unfold em_env. rewrite !map_app, <- !app_assoc. reflexivity. }
  destruct (sassoc x d) as [v|] eqn:Ed; cbn.
  - destruct (Hc x v Ed) as (e & He & ->). exists d. split; [exact Hc|]. rewrite He.
    destruct e as [[r bm] b]. unfold v_enc. cbn. exact (Fin r bm b d He).
  - sigs. cbn. destruct (encode x red false) as [[[r bm] b]|ex] eqn:He; cbn.
    + exists (sassoc_set x (v_enc (r, bm, b)) d). split.
      * intros k0 v0. rewrite sassoc_set_get. destruct (seqb k0 x) eqn:Ek.
        -- apply seqb_eq in Ek. subst k0. intros [= <-]. exists (r, bm, b). split; [exact He|reflexivity].
        -- apply Hc.
      * unfold v_enc. cbn. exact (Fin r bm b _ eq_refl).
    + exists d. split; [exact Hc|reflexivity].
Qed.

Lemma em_loop sord labels red n : forall rest done d i0 l0 r0, cache_ok red d -> exists d' i' l' r',
  for_loop (for_step sord (run_block (F sord)) ["i"; "label"]%string em_body)
    (enum_from (Z.of_nat (List.length done)) (map VStr rest))
    (em_env labels (VBool red) n done (List.length rest) d i0 l0 r0)
  = match Intervals.mapM (fun s => encode s red false) rest with
    | Ok encs => SNorm (em_env labels (VBool red) n (done ++ encs) 0 d' i' l' r')
    | Raise ex => SExn ex end.
Proof.
  induction rest as [|x t IH]; intros done d i0 l0 r0 Hc.
  - exists d, i0, l0, r0. cbn [map Intervals.mapM List.length]. rewrite app_nil_r. reflexivity.
  - cbn [map Intervals.mapM List.length]. rewrite enum_from_cons, for_loop_cons.
    destruct (em_step sord labels red n done (List.length t) d i0 l0 r0 x Hc) as (d1 & Hc1 & ->).
    destruct (encode x red false) as [e|ex].
    + replace (Z.of_nat (List.length done) + 1)%Z with (Z.of_nat (List.length (done ++ [e]))) by (rewrite app_length; cbn [List.length]; lia).
      destruct (IH (done ++ [e]) d1 (VInt (Z.of_nat (List.length done))) (VStr x) (v_enc e) Hc1) as (d' & i' & l' & r' & ->).
      exists d', i', l', r'. destruct (Intervals.mapM (fun s => encode s red false) t) as [encs|ex]; [|reflexivity].
      rewrite <- app_assoc. reflexivity.
    + exists d, i0, l0, r0. reflexivity.
Qed.
Lemma zle_nat n : (0 <=? Z.of_nat n)%Z = true. Proof. apply Z.leb_le. lia. Qed.
Theorem encode_many_tie : forall sord labels red,
  run sord gen_encode_many [v_strs labels; VBool red] = lift v_encs (ChordPipeline.encode_many labels red).
Proof.
  intros. unfold run, run_fun, ChordPipeline.encode_many, v_strs. cbn.
  rewrite !map_length, !zle_nat, !Nat2Z.id. change (Pos.to_nat 2) with 2. cbn. rewrite ?zle_nat, ?Nat2Z.id. change (Pos.to_nat 12) with 12. cbn.
  destruct (em_loop sord (VList (map VStr labels)) red (VInt (Z.of_nat (List.length labels))) labels [] [] VUnbound VUnbound VUnbound)
    as (d' & i' & l' & r' & E).
  { intros k v H. discriminate H. }
  unfold em_env in E. cbn [map app List.length Z.of_nat] in E.
  use_loop E.
  destruct (Intervals.mapM (fun s => encode s red false) labels) as [encs|ex]; cbn; [|reflexivity].
  rewrite !app_nil_r. reflexivity.
Qed.

(* ---------------- rotate_bitmap_to_root ---------------- *)
Local Arguments rot : simpl never.
Lemma get_last1 x : get_item (VList [x]) (VInt (-1)) = OK x. Proof. reflexivity. Qed.
Lemma set_last1 x v : set_item (VList [x]) (VInt (-1)) v = OK (VList [v]). Proof. reflexivity. Qed.
Theorem rotate_bitmap_to_root_tie : forall sord b rt, List.length b = 12 ->
  run sord gen_rotate_bitmap_to_root [VArr b; VInt rt] = OK (VArr (rot b rt)).
Proof.
  intros sord b rt Hb. remember (rot b rt) as R eqn:ER. unfold run, run_fun. cbn. rewrite get_last1. cbn. rewrite set_last1. cbn.
  unfold set_item. cbn [as_int]. rewrite Hb, (scatter_rot b rt Hb), <- ER. reflexivity.
Qed.
Example rotate_len12 : exists b : list Z, List.length b = 12. Proof. exists (repeat 0%Z 12). reflexivity. Qed.
(* a bitmap that is not 1-d fails the assertion; an index outside a shorter bitmap is an IndexError *)
Example rotate_2d : forall sord rt, run sord gen_rotate_bitmap_to_root [VMat 2 [[1; 0]; [0; 1]]%Z; VInt rt] = EXN OtherExn.
Proof. reflexivity. Qed.

(* ---------------- the signatures read from the source, the tables, the assumptions ---------------- *)
(* the parameter lists and literal defaults against which the call sites above were bound: a renamed, reordered or
   re-defaulted parameter shows up here (and in the ties of the callers) *)
Theorem chord_sigs_expected :
  chord_sigs =
  [("pitch_class_to_semitone", Some [("pitch_class", None)]);
   ("scale_degree_to_semitone", Some [("scale_degree", None)]);
   ("scale_degree_to_bitmap", Some [("scale_degree", None); ("modulo", Some (VBool false)); ("length", Some (VInt (Z.of_nat BITMAP_LENGTH)))]);
   ("quality_to_bitmap", Some [("quality", None)]);
   ("reduce_extended_quality", Some [("quality", None)]);
   ("validate_chord_label", Some [("chord_label", None)]);
   ("split", Some [("chord_label", None); ("reduce_extended_chords", Some (VBool false))]);
   ("join", Some [("chord_root", None); ("quality", Some (VStr [])); ("extensions", Some VNone); ("bass", Some (VStr []))]);
   ("encode", Some [("chord_label", None); ("reduce_extended_chords", Some (VBool false)); ("strict_bass_intervals", Some (VBool false))]);
   ("encode_many", Some [("chord_labels", None); ("reduce_extended_chords", Some (VBool false))]);
   ("rotate_bitmap_to_root", Some [("bitmap", None); ("chord_root", None)]);
   ("CHORD_RE.match", Some [("string", None)])]%string.
Proof. vm_compute. reflexivity. Qed.
(* a call that leaves the optional arguments out reaches the callee with the documented defaults *)
Example encode_defaults s :
  bind_args [("chord_label", None); ("reduce_extended_chords", Some (VBool false)); ("strict_bass_intervals", Some (VBool false))]%string
    [VStr s] [] = Some [VStr s; VBool false; VBool false].
Proof. reflexivity. Qed.
(* dict literals: a repeated key would make Python keep the LAST value while the association lists keep the first *)
Fixpoint keys_nodup (l : list str) : bool := match l with [] => true | k :: t => negb (existsb (seqb k) t) && keys_nodup t end.
Theorem table_keys_unique :
  keys_nodup (map fst QUALITIES) = true /\ keys_nodup (map fst EXTENDED_QUALITY_REDUX) = true /\
  keys_nodup (map fst SCALE_DEGREES) = true /\ keys_nodup (map (fun p => [fst p]) PITCH_CLASSES) = true.
Proof. repeat split; vm_compute; reflexivity. Qed.
(* every function whose result is written to in place by a caller (encode: quality_to_bitmap; nothing else) returns
   a fresh object on every path, by the translator's analysis *)
Theorem fresh_callees : existsb (String.eqb "quality_to_bitmap") chord_returns_fresh = true.
Proof. vm_compute. reflexivity. Qed.

Print Assumptions pitch_class_to_semitone_tie.
Print Assumptions scale_degree_to_semitone_tie.
Print Assumptions scale_degree_to_bitmap_tie.
Print Assumptions quality_to_bitmap_tie.
Print Assumptions reduce_extended_quality_tie.
Print Assumptions validate_chord_label_tie.
Print Assumptions split_tie.
Print Assumptions join_tie.
Print Assumptions join_none_tie.
Print Assumptions encode_tie.
Print Assumptions encode_many_tie.
Print Assumptions rotate_bitmap_to_root_tie.
Print Assumptions chord_sigs_expected.
