(* Properties of the melody model (Model/Melody.v): the five frame measures equal their published sum-over-frames
   definitions (C04), lie in [0,1] (C01), are perfect on a perfect estimate (C02), RPA <= RCA and monotonicity in the
   tolerance (C07), invariance under joint cent shifts / octave shifts of the estimate / sign flips (C09). *)
From Coq Require Import List Bool Arith ZArith QArith Qabs Qminmax Qround Lqa Lia Morphisms.
From ME Require Import Model.Prelude Model.Melody.
Import ListNotations.
Open Scope Q_scope.

(* ------------------------------------------------------------------------------------------ Q / bool glue *)
Lemma qeqb_true a b : qeqb a b = true <-> a == b.
Proof. apply Qeq_bool_iff. Qed.
Lemma qeqb_false a b : qeqb a b = false <-> ~ a == b.
Proof. rewrite <- qeqb_true. destruct (qeqb a b); split; congruence. Qed.
Lemma qltb_true a b : qltb a b = true <-> a < b.
Proof.
  unfold qltb. rewrite negb_true_iff. split; intro H.
  - apply Qnot_le_lt. intro L. apply Qle_bool_iff in L. congruence.
  - destruct (Qle_bool b a) eqn:E; [|reflexivity]. apply Qle_bool_iff in E. exfalso. revert H. apply Qle_not_lt, E.
Qed.
Lemma qltb_false a b : qltb a b = false <-> b <= a.
Proof.
  split; intro H.
  - apply Qnot_lt_le. intro L. apply qltb_true in L. congruence.
  - destruct (qltb a b) eqn:E; [|reflexivity]. apply qltb_true in E. exfalso. revert E. apply Qle_not_lt, H.
Qed.
Lemma qleb_true a b : qleb a b = true <-> a <= b.
Proof. apply Qle_bool_iff. Qed.
Global Instance qltb_comp : Proper (Qeq ==> Qeq ==> eq) qltb.
Proof. intros a a' Ha b b' Hb. unfold qltb. now rewrite Ha, Hb. Qed.
Global Instance qeqb_comp : Proper (Qeq ==> Qeq ==> eq) qeqb.
Proof.
  intros a a' Ha b b' Hb. destruct (qeqb a' b') eqn:E.
  - apply qeqb_true. apply qeqb_true in E. now rewrite Ha, Hb.
  - apply qeqb_false. apply qeqb_false in E. now rewrite Ha, Hb.
Qed.
Lemma b2q_range b : 0 <= b2q b <= 1.
Proof. destruct b; cbn; split; discriminate. Qed.
Lemma b2q_mono a b : (a = true -> b = true) -> b2q a <= b2q b.
Proof. destruct a, b; cbn; intro H; try discriminate; try apply Qle_refl. discriminate (H eq_refl). Qed.

Lemma qdiv_unit a b : 0 <= a -> a <= b -> 0 < b -> 0 <= a / b <= 1.
Proof.
  intros Ha Hab Hb. split.
  - apply Qle_shift_div_l; [exact Hb|]. lra.
  - apply Qle_shift_div_r; [exact Hb|]. lra.
Qed.
Lemma qdiv_mono a a' b : a <= a' -> 0 < b -> a / b <= a' / b.
Proof.
  intros H Hb. unfold Qdiv. apply Qmult_le_compat_r; [exact H|]. apply Qlt_le_weak, Qinv_lt_0_compat, Hb.
Qed.

(* result equality up to Qeq *)
Definition res_Qeq (a b : res Q) : Prop :=
  match a, b with Ok x, Ok y => x == y | Raise e, Raise f => e = f | _, _ => False end.

(* ------------------------------------------------------------------------------------------ sums over frames *)
Definition sumf {A} (g : A -> Q) (l : list A) : Q := qsum (map g l).
Lemma sumf_cons {A} (g : A -> Q) x l : sumf g (x :: l) = g x + sumf g l.
Proof. reflexivity. Qed.
Lemma sumf_ext {A} (g h : A -> Q) l : (forall x, In x l -> g x == h x) -> sumf g l == sumf h l.
Proof.
  induction l as [|x l IH]; intro H; [reflexivity|]. rewrite !sumf_cons.
  rewrite (H x (or_introl eq_refl)), IH; [reflexivity|]. intros y Hy. apply H. now right.
Qed.
Lemma sumf_le {A} (g h : A -> Q) l : (forall x, In x l -> g x <= h x) -> sumf g l <= sumf h l.
Proof.
  induction l as [|x l IH]; intro H; [apply Qle_refl|]. rewrite !sumf_cons.
  apply Qplus_le_compat; [apply H; now left|]. apply IH. intros y Hy. apply H. now right.
Qed.
Lemma sumf_nonneg {A} (g : A -> Q) l : (forall x, In x l -> 0 <= g x) -> 0 <= sumf g l.
Proof.
  induction l as [|x l IH]; intro H; [apply Qle_refl|]. rewrite sumf_cons.
  assert (0 <= g x) by (apply H; now left). assert (0 <= sumf g l) by (apply IH; intros; apply H; now right). lra.
Qed.
Lemma sumf_zero {A} (g : A -> Q) l : (forall x, In x l -> g x == 0) -> sumf g l == 0.
Proof.
  induction l as [|x l IH]; intro H; [reflexivity|]. rewrite sumf_cons, (H x (or_introl eq_refl)), IH; [lra|].
  intros; apply H; now right.
Qed.
Lemma sumf_map {A B} (g : B -> Q) (h : A -> B) l : sumf g (map h l) = sumf (fun x => g (h x)) l.
Proof. unfold sumf. now rewrite map_map. Qed.
Lemma sumf_plus {A} (g h : A -> Q) l : sumf (fun x => g x + h x) l == sumf g l + sumf h l.
Proof. induction l as [|x l IH]; [reflexivity|]. rewrite !sumf_cons, IH. lra. Qed.
Lemma sumf_const1 {A} (l : list A) : sumf (fun _ => 1) l == qlen l.
Proof.
  unfold qlen. induction l as [|x l IH]; [reflexivity|]. rewrite sumf_cons, IH. cbn [length].
  rewrite Nat2Z.inj_succ, <- Z.add_1_l, inject_Z_plus. reflexivity.
Qed.
(* a non-negative sum that vanishes has only vanishing terms *)
Lemma sumf_zero_inv {A} (g : A -> Q) l :
  (forall x, In x l -> 0 <= g x) -> sumf g l == 0 -> forall x, In x l -> g x == 0.
Proof.
  induction l as [|y l IH]; intros Hn Hs x Hx; [contradiction|]. rewrite sumf_cons in Hs.
  assert (H0 : 0 <= g y) by (apply Hn; now left).
  assert (H1 : 0 <= sumf g l) by (apply sumf_nonneg; intros; apply Hn; now right).
  destruct Hx as [->|Hx]; [lra|]. apply IH; auto. - intros; apply Hn; now right. - lra.
Qed.
Lemma qlen_pos {A} (l : list A) : l <> [] -> 0 < qlen l.
Proof.
  destruct l as [|x l]; [congruence|]. intros _. unfold qlen. cbn [length]. rewrite Nat2Z.inj_succ.
  change 0 with (inject_Z 0). rewrite <- Zlt_Qlt. lia.
Qed.

(* ------------------------------------------------------------------------------------------ frames *)
Record frame := mkF { rvo : Q; rce : Q; evo : Q; ece : Q }.
Fixpoint frames (rv rc ev ec : list Q) : list frame :=
  match rv, rc, ev, ec with
  | a :: rv', b :: rc', c :: ev', d :: ec' => mkF a b c d :: frames rv' rc' ev' ec'
  | _, _, _, _ => []
  end.
Lemma frames_proj rv : forall rc ev ec, length rv = length rc -> length rv = length ev -> length rv = length ec ->
  let fs := frames rv rc ev ec in map rvo fs = rv /\ map rce fs = rc /\ map evo fs = ev /\ map ece fs = ec.
Proof.
  induction rv as [|a rv IH]; intros [|b rc] [|c ev] [|d ec]; cbn [length]; intros H1 H2 H3; try discriminate.
  - cbn. auto.
  - injection H1 as H1. injection H2 as H2. injection H3 as H3. destruct (IH rc ev ec H1 H2 H3) as (E1 & E2 & E3 & E4).
    cbn [frames map rvo rce evo ece]. cbv zeta in *. now rewrite E1, E2, E3, E4.
Qed.

(* the inputs on which the three pitch measures do not raise *)
Definition melody_valid (rv rc ev ec : list Q) : bool :=
  (length rv =? length ev)%nat && (length rv =? length rc)%nat && (length ev =? length ec)%nat
  && negb (voicing_bad rv) && negb (voicing_bad ev).
Definition unit_range (x : Q) : Prop := 0 <= x <= 1.
Lemma voicing_ok_Forall v : voicing_bad v = false <-> Forall unit_range v.
Proof.
  unfold voicing_bad. induction v as [|x v IH]; cbn [existsb].
  - split; auto.
  - rewrite orb_false_iff, IH, orb_false_iff, !qltb_false. split.
    + intros [[H1 H2] H3]. constructor; [split|]; assumption.
    + intro H. inversion H as [|? ? [H1 H2] H3]; subst. auto.
Qed.
Lemma melody_valid_spec rv rc ev ec :
  melody_valid rv rc ev ec = true <->
  length rv = length rc /\ length rv = length ev /\ length rv = length ec /\ Forall unit_range rv /\ Forall unit_range ev.
Proof.
  unfold melody_valid. rewrite !andb_true_iff, !negb_true_iff, !Nat.eqb_eq, !voicing_ok_Forall.
  split; [intros ((((H1 & H2) & H3) & H4) & H5)|intros (H1 & H2 & H3 & H4 & H5)]; repeat split; auto; congruence.
Qed.
Lemma validators_ok rv rc ev ec : melody_valid rv rc ev ec = true -> validate_voicing rv ev = Ok tt /\ validate rv rc ev ec = Ok tt.
Proof.
  intro H. pose proof H as H'. apply melody_valid_spec in H' as (H1 & H2 & H3 & H4 & H5).
  apply voicing_ok_Forall in H4, H5. unfold validate_voicing, validate.
  rewrite H4, H5, <- H1, <- H2, <- H3, !Nat.eqb_refl. cbn. auto.
Qed.
Lemma validators_raise rv rc ev ec : melody_valid rv rc ev ec = false ->
  (_ <- validate_voicing rv ev ;; validate rv rc ev ec) = Raise ValueError.
Proof.
  unfold melody_valid, validate_voicing, validate. intro H.
  destruct (length rv =? length ev)%nat eqn:E1; cbn [negb]; [|reflexivity].
  destruct (voicing_bad rv); [reflexivity|]. destruct (voicing_bad ev); [reflexivity|]. cbn [orb bind].
  apply Nat.eqb_eq in E1. rewrite E1 in *. cbn [negb andb] in H.
  destruct (length ev =? length rc)%nat eqn:E2; cbn [negb orb andb] in *; [|reflexivity].
  destruct (length ev =? length ec)%nat eqn:E3; cbn [negb orb andb] in *; [discriminate|reflexivity].
Qed.
Lemma frames_unit rv rc ev ec : melody_valid rv rc ev ec = true ->
  forall f, In f (frames rv rc ev ec) -> unit_range (rvo f) /\ unit_range (evo f).
Proof.
  intro H. apply melody_valid_spec in H as (H1 & H2 & H3 & H4 & H5).
  destruct (frames_proj rv rc ev ec H1 H2 H3) as (E1 & _ & E3 & _). cbv zeta in *.
  rewrite <- E1 in H4. rewrite <- E3 in H5. rewrite Forall_forall in H4, H5.
  intros f Hf. split; [apply H4|apply H5]; apply in_map, Hf.
Qed.

(* ------------------------------------------------------------------------------------------ C04: voicing measures *)
(* Published definitions (Poliner et al. 2007 / Salamon et al. 2014 for binary voicing, Bittner & Bosch 2019 for an
   estimated voicing v^_t in [0,1]); frames t are pairs (v_t, v^_t):
     recall      = sum_t v^_t [v_t > 0] / sum_t [v_t > 0]
     false alarm = sum_t v^_t [v_t = 0] / sum_t [v_t = 0]                                                         *)
Definition vx_recall_formula (l : list (Q * Q)) : Q :=
  sumf (fun p => snd p * voiced_ind (fst p)) l / sumf (fun p => voiced_ind (fst p)) l.
Definition vx_false_alarm_formula (l : list (Q * Q)) : Q :=
  sumf (fun p => snd p * unvoiced_ind (fst p)) l / sumf (fun p => unvoiced_ind (fst p)) l.

Lemma ind_sum_combine (ind : Q -> Q) rv : forall ev, length rv = length ev ->
  qsum (map ind rv) = sumf (fun p : Q * Q => ind (fst p)) (combine rv ev).
Proof.
  induction rv as [|a rv IH]; intros [|b ev] H; try discriminate; [reflexivity|].
  injection H as H. cbn [map combine qsum fold_right]. rewrite sumf_cons. cbn [fst]. f_equal. apply (IH ev H).
Qed.
Lemma prod_sum_combine (ind : Q -> Q) rv : forall ev, length rv = length ev ->
  qsum (map2 Qmult ev (map ind rv)) = sumf (fun p : Q * Q => snd p * ind (fst p)) (combine rv ev).
Proof.
  induction rv as [|a rv IH]; intros [|b ev] H; try discriminate; [reflexivity|].
  injection H as H. cbn [map map2 combine qsum fold_right]. rewrite sumf_cons. cbn [fst snd]. f_equal. apply (IH ev H).
Qed.
Lemma np_mul_same a b : length a = length b -> np_mul a b = Ok (map2 Qmult a b).
Proof. intro H. unfold np_mul. now rewrite H, Nat.eqb_refl. Qed.

Lemma voicing_rate_def ind d rv ev : length rv = length ev ->
  exists q, voicing_rate ind d rv ev = Ok q /\
    q == (if is_nil rv then 0
          else if qeqb (sumf (fun p : Q * Q => ind (fst p)) (combine rv ev)) 0 then d
          else sumf (fun p : Q * Q => snd p * ind (fst p)) (combine rv ev) / sumf (fun p : Q * Q => ind (fst p)) (combine rv ev)).
Proof.
  intro H. unfold voicing_rate. destruct rv as [|a rv]; [eexists; split; reflexivity|].
  destruct ev as [|b ev]; [discriminate|]. cbn [is_nil orb].
  rewrite (ind_sum_combine ind (a :: rv) (b :: ev) H).
  destruct (qeqb _ 0); [eexists; split; reflexivity|].
  rewrite np_mul_same by (rewrite map_length; now symmetry). cbn [bind].
  rewrite (prod_sum_combine ind (a :: rv) (b :: ev) H). eexists; split; reflexivity.
Qed.

Theorem vx_recall_def : forall rv ev, length rv = length ev ->
  exists q, voicing_recall rv ev = Ok q /\
    q == (if is_nil rv then 0
          else if qeqb (sumf (fun p : Q * Q => voiced_ind (fst p)) (combine rv ev)) 0 then 1
          else vx_recall_formula (combine rv ev)).
Proof. intros rv ev H. exact (voicing_rate_def voiced_ind 1 rv ev H). Qed.
Theorem vx_false_alarm_def : forall rv ev, length rv = length ev ->
  exists q, voicing_false_alarm rv ev = Ok q /\
    q == (if is_nil rv then 0
          else if qeqb (sumf (fun p : Q * Q => unvoiced_ind (fst p)) (combine rv ev)) 0 then 0
          else vx_false_alarm_formula (combine rv ev)).
Proof. intros rv ev H. exact (voicing_rate_def unvoiced_ind 0 rv ev H). Qed.
(* voicing_measures = the pair, after validate_voicing *)
Theorem voicing_measures_def : forall rv ev,
  voicing_measures rv ev =
  (if (length rv =? length ev)%nat && negb (voicing_bad rv) && negb (voicing_bad ev)
   then r <- voicing_recall rv ev ;; f <- voicing_false_alarm rv ev ;; Ok (r, f) else Raise ValueError).
Proof.
  intros rv ev. unfold voicing_measures, validate_voicing.
  destruct (length rv =? length ev)%nat; cbn [negb andb]; [|reflexivity].
  destruct (voicing_bad rv); cbn [negb andb orb]; [reflexivity|]. destruct (voicing_bad ev); reflexivity.
Qed.

(* ------------------------------------------------------------------------------------------ C04: pitch measures *)
(* Published definitions on frames t = (r_t, c_t, v^_t, c^_t) (reference voicing / reward, reference cents, estimated
   voicing, estimated cents; cent value 0 = "no pitch"):
     T_t   = [c_t <> 0 and c^_t <> 0 and |c_t - c^_t| < tol]                 (pitch_ok)
     Tch_t = [c_t <> 0 and c^_t <> 0 and ||c_t - c^_t| - 1200 floor(|c_t - c^_t| / 1200 + 1/2)| < tol]   (chroma_ok)
     RPA = sum_t r_t T_t / sum_t r_t          RCA = sum_t r_t Tch_t / sum_t r_t
     OA  = ( (sum_t [r_t > 0] / sum_t r_t) sum_t r_t v^_t T_t + sum_t (1 - [r_t > 0]) (1 - v^_t) ) / N
   (Salamon et al. 2014 for binary r, v^; Bittner & Bosch 2019 for r, v^ in [0,1]).                               *)
Definition has_pitch (f : frame) : bool := negb (qeqb (ece f) 0) && negb (qeqb (rce f) 0).
Definition cent_dist (f : frame) : Q := Qabs (rce f - ece f).
Definition frame_ok (fold : Q -> Q) (tol : Q) (f : frame) : bool := has_pitch f && qltb (fold (cent_dist f)) tol.
Definition pitch_ok := frame_ok (fun d => d).
Definition chroma_ok := frame_ok chroma_diff.
Definition raw_formula (fold : Q -> Q) (tol : Q) (fs : list frame) : Q :=
  sumf (fun f => rvo f * b2q (frame_ok fold tol f)) fs / sumf rvo fs.
Definition rpa_formula := raw_formula (fun d => d).
Definition rca_formula := raw_formula chroma_diff.
Definition oa_formula (tol : Q) (fs : list frame) : Q :=
  ((if qeqb (sumf rvo fs) 0 then 0 else sumf (fun f => voiced_ind (rvo f)) fs / sumf rvo fs)
   * sumf (fun f => rvo f * evo f * b2q (pitch_ok tol f)) fs
   + sumf (fun f => (1 - voiced_ind (rvo f)) * (1 - evo f)) fs) / qlen fs.

Lemma raw_num_frames (fold : Q -> Q) tol fs :
  qsum (map2 (fun v c => v * b2q c) (select (nonzero_freqs (map ece fs) (map rce fs)) (map rvo fs))
             (map (fun d => qltb (fold d) tol) (freq_diff_cents (map rce fs) (map ece fs))))
  == sumf (fun f => rvo f * b2q (frame_ok fold tol f)) fs.
Proof.
  unfold freq_diff_cents, nonzero_freqs. induction fs as [|f fs IH]; [reflexivity|].
  rewrite sumf_cons. unfold frame_ok at 1, has_pitch, cent_dist. cbn [map map2 select].
  destruct (negb (qeqb (ece f) 0) && negb (qeqb (rce f) 0)).
  - cbn [map map2 qsum fold_right andb]. unfold qsum in IH. rewrite IH. reflexivity.
  - cbn [andb b2q]. rewrite IH. lra.
Qed.
Lemma oa_num_frames tol fs :
  qsum (map2 (fun ve c => ve * b2q c)
             (map2 Qmult (select (nonzero_freqs (map ece fs) (map rce fs)) (map rvo fs))
                         (select (nonzero_freqs (map ece fs) (map rce fs)) (map evo fs)))
             (map (fun d => qltb d tol) (freq_diff_cents (map rce fs) (map ece fs))))
  == sumf (fun f => rvo f * evo f * b2q (pitch_ok tol f)) fs.
Proof.
  unfold freq_diff_cents, nonzero_freqs. induction fs as [|f fs IH]; [reflexivity|].
  rewrite sumf_cons. unfold pitch_ok at 1, frame_ok, has_pitch, cent_dist. cbn [map map2 select].
  destruct (negb (qeqb (ece f) 0) && negb (qeqb (rce f) 0)).
  - cbn [map map2 qsum fold_right andb]. unfold qsum in IH. rewrite IH. reflexivity.
  - cbn [andb b2q]. rewrite IH. lra.
Qed.
Lemma oa_unvoiced_frames fs :
  qsum (map2 (fun b e => (1 - b) * (1 - e)) (map voiced_ind (map rvo fs)) (map evo fs))
  = sumf (fun f => (1 - voiced_ind (rvo f)) * (1 - evo f)) fs.
Proof. induction fs as [|f fs IH]; [reflexivity|]. rewrite sumf_cons. cbn [map map2 qsum fold_right]. f_equal. exact IH. Qed.
Lemma count_true_zero fs : count_true (nonzero_freqs (map ece fs) (map rce fs)) = 0%nat ->
  forall f, In f fs -> has_pitch f = false.
Proof.
  unfold count_true, nonzero_freqs. induction fs as [|g fs IH]; intros H f Hf; [contradiction|].
  cbn [map map2 filter] in H. fold (has_pitch g) in H. destruct (has_pitch g) eqn:E; [discriminate|].
  destruct Hf as [<-|Hf]; [exact E|]. apply IH; assumption.
Qed.

(* reduce statements about four equal-length arrays to statements about a list of frames *)
Lemma to_frames (P : list Q -> list Q -> list Q -> list Q -> Prop) :
  (forall fs, P (map rvo fs) (map rce fs) (map evo fs) (map ece fs)) ->
  forall rv rc ev ec, length rv = length rc -> length rv = length ev -> length rv = length ec -> P rv rc ev ec.
Proof.
  intros H rv rc ev ec H1 H2 H3. destruct (frames_proj rv rc ev ec H1 H2 H3) as (E1 & E2 & E3 & E4). cbv zeta in *.
  set (fs := frames rv rc ev ec) in *. clearbody fs. subst rv rc ev ec. apply H.
Qed.
Lemma frames_of_maps fs : frames (map rvo fs) (map rce fs) (map evo fs) (map ece fs) = fs.
Proof. induction fs as [|[a b c d] fs IH]; [reflexivity|]. cbn [map frames rvo rce evo ece]. now rewrite IH. Qed.

Lemma raw_accuracy_def fold rv rc ev ec tol : melody_valid rv rc ev ec = true ->
  exists q, raw_accuracy fold rv rc ev ec tol = Ok q /\
    q == (if qeqb (qsum rv) 0 then 0 else raw_formula fold tol (frames rv rc ev ec)).
Proof.
  intro V. destruct (validators_ok _ _ _ _ V) as [V1 V2]. unfold raw_accuracy. rewrite V1, V2. cbn [bind].
  apply melody_valid_spec in V as (H1 & H2 & H3 & _). clear V1 V2. revert rv rc ev ec H1 H2 H3.
  apply to_frames. intro fs. rewrite frames_of_maps.
  destruct fs as [|f fs]; [eexists; split; reflexivity|]. set (l := f :: fs).
  replace (is_nil (map rvo l)) with false by reflexivity. replace (is_nil (map rce l)) with false by reflexivity.
  replace (is_nil (map ece l)) with false by reflexivity. rewrite orb_false_r. cbn [orb].
  destruct (qeqb (qsum (map rvo l)) 0) eqn:E0; [eexists; split; reflexivity|].
  destruct (count_true _ =? 0)%nat eqn:EC.
  - eexists; split; [reflexivity|]. apply Nat.eqb_eq in EC. unfold raw_formula.
    rewrite (sumf_zero (fun f => rvo f * b2q (frame_ok fold tol f)) l).
    + unfold Qdiv. lra.
    + intros g Hg. unfold frame_ok. rewrite (count_true_zero l EC g Hg). cbn. lra.
  - eexists; split; [reflexivity|]. rewrite raw_num_frames. reflexivity.
Qed.
Theorem rpa_def : forall rv rc ev ec tol, melody_valid rv rc ev ec = true ->
  exists q, raw_pitch_accuracy rv rc ev ec tol = Ok q /\
    q == (if qeqb (qsum rv) 0 then 0 else rpa_formula tol (frames rv rc ev ec)).
Proof. intros. now apply raw_accuracy_def. Qed.
Theorem rca_def : forall rv rc ev ec tol, melody_valid rv rc ev ec = true ->
  exists q, raw_chroma_accuracy rv rc ev ec tol = Ok q /\
    q == (if qeqb (qsum rv) 0 then 0 else rca_formula tol (frames rv rc ev ec)).
Proof. intros. now apply raw_accuracy_def. Qed.
Theorem oa_def : forall rv rc ev ec tol, melody_valid rv rc ev ec = true ->
  exists q, overall_accuracy rv rc ev ec tol = Ok q /\
    q == (if is_nil rv then 0 else oa_formula tol (frames rv rc ev ec)).
Proof.
  intros rv rc ev ec tol V. destruct (validators_ok _ _ _ _ V) as [V1 V2]. unfold overall_accuracy. rewrite V1, V2. cbn [bind].
  apply melody_valid_spec in V as (H1 & H2 & H3 & _). clear V1 V2. revert rv rc ev ec H1 H2 H3.
  apply to_frames. intro fs. rewrite frames_of_maps.
  destruct fs as [|f fs]; [eexists; split; reflexivity|]. set (l := f :: fs).
  replace (is_nil (map rvo l)) with false by reflexivity. replace (is_nil (map rce l)) with false by reflexivity.
  replace (is_nil (map ece l)) with false by reflexivity. replace (is_nil (map evo l)) with false by reflexivity.
  cbn [orb]. eexists; split; [reflexivity|]. unfold oa_formula.
  rewrite oa_num_frames, oa_unvoiced_frames. unfold qlen. rewrite !map_length.
  change (qsum (map rvo l)) with (sumf rvo l). rewrite map_map. change (qsum (map (fun x => voiced_ind (rvo x)) l)) with (sumf (fun x => voiced_ind (rvo x)) l).
  reflexivity.
Qed.
(* and outside melody_valid the three measures raise ValueError (nothing else) *)
Theorem pitch_measures_raise : forall rv rc ev ec tol, melody_valid rv rc ev ec = false ->
  raw_pitch_accuracy rv rc ev ec tol = Raise ValueError /\ raw_chroma_accuracy rv rc ev ec tol = Raise ValueError
  /\ overall_accuracy rv rc ev ec tol = Raise ValueError.
Proof.
  intros rv rc ev ec tol V. pose proof (validators_raise _ _ _ _ V) as R.
  unfold raw_pitch_accuracy, raw_chroma_accuracy, raw_accuracy, overall_accuracy.
  destruct (validate_voicing rv ev) as [[]|e]; cbn [bind] in *.
  - rewrite R. cbn. auto.
  - injection R as ->. auto.
Qed.

(* ------------------------------------------------------------------------------------------ C01: ranges *)
Lemma if_range (b : bool) (x y : Q) : 0 <= x <= 1 -> 0 <= y <= 1 -> 0 <= (if b then x else y) <= 1.
Proof. now destruct b. Qed.
Lemma unit01 : 0 <= 0 <= 1 /\ 0 <= 1 <= 1.
Proof. repeat split; discriminate. Qed.

Lemma voicing_rate_range ind d rv ev q :
  (forall x, 0 <= ind x <= 1) -> 0 <= d <= 1 -> length rv = length ev -> Forall unit_range ev ->
  voicing_rate ind d rv ev = Ok q -> 0 <= q <= 1.
Proof.
  intros Hind Hd HL HE HQ. destruct (voicing_rate_def ind d rv ev HL) as (q' & E & Hq').
  rewrite HQ in E. injection E as <-. rewrite Hq'. clear Hq' HQ.
  apply if_range; [apply unit01|]. destruct (qeqb _ 0) eqn:E0; [exact Hd|]. apply qeqb_false in E0.
  rewrite Forall_forall in HE.
  assert (N : 0 <= sumf (fun p : Q * Q => ind (fst p)) (combine rv ev)) by (apply sumf_nonneg; intros; apply Hind).
  apply qdiv_unit.
  - apply sumf_nonneg. intros p Hp. destruct (HE (snd p) (in_combine_r _ _ _ _ (eq_ind _ (fun z => In z _) Hp _ (surjective_pairing p)))) as [A B].
    destruct (Hind (fst p)). nra.
  - apply sumf_le. intros p Hp. destruct (HE (snd p) (in_combine_r _ _ _ _ (eq_ind _ (fun z => In z _) Hp _ (surjective_pairing p)))) as [A B].
    destruct (Hind (fst p)). nra.
  - lra.
Qed.
Theorem vx_recall_range : forall rv ev q, length rv = length ev -> Forall unit_range ev ->
  voicing_recall rv ev = Ok q -> 0 <= q <= 1.
Proof. intros rv ev q. apply voicing_rate_range; [intro; apply b2q_range|apply unit01]. Qed.
Theorem vx_false_alarm_range : forall rv ev q, length rv = length ev -> Forall unit_range ev ->
  voicing_false_alarm rv ev = Ok q -> 0 <= q <= 1.
Proof. intros rv ev q. apply voicing_rate_range; [intro; apply b2q_range|apply unit01]. Qed.
Theorem voicing_measures_range : forall rv ev r f, voicing_measures rv ev = Ok (r, f) -> 0 <= r <= 1 /\ 0 <= f <= 1.
Proof.
  intros rv ev r f H. rewrite voicing_measures_def in H.
  destruct ((length rv =? length ev)%nat && negb (voicing_bad rv) && negb (voicing_bad ev)) eqn:E; [|discriminate].
  apply andb_true_iff in E as [E E3]. apply andb_true_iff in E as [E1 E2]. apply Nat.eqb_eq in E1.
  apply negb_true_iff, voicing_ok_Forall in E3.
  destruct (voicing_recall rv ev) as [r'|] eqn:R; [|discriminate]. destruct (voicing_false_alarm rv ev) as [f'|] eqn:F; [|discriminate].
  cbn [bind] in H. injection H as -> ->. split; [eapply vx_recall_range|eapply vx_false_alarm_range]; eauto.
Qed.

(* a measure that returned Ok was given valid input *)
Lemma bind_valid {A} rv rc ev ec (k : res A) (a : A) :
  (_ <- validate_voicing rv ev ;; _ <- validate rv rc ev ec ;; k) = Ok a -> melody_valid rv rc ev ec = true.
Proof.
  intro H. destruct (melody_valid rv rc ev ec) eqn:V; [reflexivity|]. pose proof (validators_raise _ _ _ _ V) as R.
  destruct (validate_voicing rv ev) as [[]|e]; cbn [bind] in *; [|discriminate]. rewrite R in H. discriminate.
Qed.
Lemma raw_ok_valid fold rv rc ev ec tol q : raw_accuracy fold rv rc ev ec tol = Ok q -> melody_valid rv rc ev ec = true.
Proof. apply bind_valid. Qed.
Lemma oa_ok_valid rv rc ev ec tol q : overall_accuracy rv rc ev ec tol = Ok q -> melody_valid rv rc ev ec = true.
Proof. apply bind_valid. Qed.

Lemma sum_rv_pos rv rc ev ec : melody_valid rv rc ev ec = true -> qeqb (qsum rv) 0 = false ->
  0 < sumf rvo (frames rv rc ev ec).
Proof.
  intros V E. pose proof (frames_unit _ _ _ _ V) as U. apply melody_valid_spec in V as (H1 & H2 & H3 & _).
  destruct (frames_proj rv rc ev ec H1 H2 H3) as (E1 & _). cbv zeta in E1. apply qeqb_false in E.
  rewrite <- E1 in E. change (qsum (map rvo (frames rv rc ev ec))) with (sumf rvo (frames rv rc ev ec)) in E.
  assert (0 <= sumf rvo (frames rv rc ev ec)) by (apply sumf_nonneg; intros f Hf; apply (U f Hf)). lra.
Qed.
Lemma raw_accuracy_range fold rv rc ev ec tol q : raw_accuracy fold rv rc ev ec tol = Ok q -> 0 <= q <= 1.
Proof.
  intro H. pose proof (raw_ok_valid _ _ _ _ _ _ _ H) as V. destruct (raw_accuracy_def fold rv rc ev ec tol V) as (q' & E & Hq).
  rewrite H in E. injection E as <-. rewrite Hq. destruct (qeqb (qsum rv) 0) eqn:E0; [apply unit01|].
  pose proof (sum_rv_pos _ _ _ _ V E0) as P. pose proof (frames_unit _ _ _ _ V) as U.
  apply qdiv_unit; [| |exact P].
  - apply sumf_nonneg. intros f Hf. destruct (U f Hf) as [[A _] _]. destruct (b2q_range (frame_ok fold tol f)). nra.
  - apply sumf_le. intros f Hf. destruct (U f Hf) as [[A _] _]. destruct (b2q_range (frame_ok fold tol f)). nra.
Qed.
Theorem rpa_range : forall rv rc ev ec tol q, raw_pitch_accuracy rv rc ev ec tol = Ok q -> 0 <= q <= 1.
Proof. intros rv rc ev ec tol q. apply raw_accuracy_range. Qed.
Theorem rca_range : forall rv rc ev ec tol q, raw_chroma_accuracy rv rc ev ec tol = Ok q -> 0 <= q <= 1.
Proof. intros rv rc ev ec tol q. apply raw_accuracy_range. Qed.

Lemma voiced_split {A} (g : A -> Q) (l : list A) :
  sumf (fun f => voiced_ind (g f)) l + sumf (fun f => 1 - voiced_ind (g f)) l == qlen l.
Proof. rewrite <- sumf_plus, <- sumf_const1. apply sumf_ext. intros; lra. Qed.
Lemma mul3_bounds a b c : 0 <= a <= 1 -> 0 <= b <= 1 -> 0 <= c <= 1 -> 0 <= a * b * c <= a.
Proof. intros Ha Hb Hc. assert (0 <= a * b <= a) by nra. nra. Qed.
Theorem oa_range : forall rv rc ev ec tol q, overall_accuracy rv rc ev ec tol = Ok q -> 0 <= q <= 1.
Proof.
  intros rv rc ev ec tol q H. pose proof (oa_ok_valid _ _ _ _ _ _ H) as V. destruct (oa_def rv rc ev ec tol V) as (q' & E & Hq).
  rewrite H in E. injection E as <-. rewrite Hq. pose proof (frames_unit _ _ _ _ V) as U.
  destruct rv as [|a rv]; [apply unit01|]. cbn [is_nil].
  set (fs := frames (a :: rv) rc ev ec) in *.
  assert (NE : fs <> []).
  { apply melody_valid_spec in V as (H1 & H2 & H3 & _). destruct rc, ev, ec; discriminate. }
  pose proof (qlen_pos fs NE) as LP. unfold oa_formula.
  set (V1 := sumf (fun f => voiced_ind (rvo f)) fs). set (R := sumf rvo fs).
  set (S1 := sumf (fun f => rvo f * evo f * b2q (pitch_ok tol f)) fs).
  set (S2 := sumf (fun f => (1 - voiced_ind (rvo f)) * (1 - evo f)) fs).
  assert (HV1 : 0 <= V1) by (apply sumf_nonneg; intros; apply b2q_range).
  assert (HS1 : 0 <= S1).
  { apply sumf_nonneg. intros f Hf. destruct (U f Hf) as [A B]. apply (mul3_bounds _ _ _ A B (b2q_range (pitch_ok tol f))). }
  assert (HS1R : S1 <= R).
  { apply sumf_le. intros f Hf. destruct (U f Hf) as [A B]. apply (mul3_bounds _ _ _ A B (b2q_range (pitch_ok tol f))). }
  assert (HS2 : 0 <= S2).
  { apply sumf_nonneg. intros f Hf. destruct (U f Hf) as [_ [B B']]. destruct (b2q_range (qltb 0 (rvo f))). unfold voiced_ind. nra. }
  assert (HS2V : S2 <= qlen fs - V1).
  { pose proof (voiced_split rvo fs) as VS. fold V1 in VS.
    assert (S2 <= sumf (fun f => 1 - voiced_ind (rvo f)) fs); [|lra].
    apply sumf_le. intros f Hf. destruct (U f Hf) as [_ [B B']]. destruct (b2q_range (qltb 0 (rvo f))). unfold voiced_ind. nra. }
  assert (HR : 0 <= R) by (apply sumf_nonneg; intros f Hf; apply (U f Hf)).
  assert (T : 0 <= (if qeqb R 0 then 0 else V1 / R) * S1 <= V1).
  { destruct (qeqb R 0) eqn:E0; [lra|]. apply qeqb_false in E0. assert (RP : 0 < R) by lra.
    destruct (qdiv_unit S1 R HS1 HS1R RP) as [X1 X2].
    assert (EQ : V1 / R * S1 == V1 * (S1 / R)) by (field; lra). rewrite EQ. nra. }
  apply qdiv_unit; [lra|lra|exact LP].
Qed.

(* ------------------------------------------------------------------------------------------ C07 *)
(* folding to the nearest octave never increases the distance: |d - 1200 floor(d/1200 + 1/2)| <= |d| *)
Lemma floor_bounds d : let K := inject_Z (Qfloor (d / 1200 + (1#2))) in 1200 * K - 600 <= d /\ d < 1200 * K + 600.
Proof.
  cbv zeta. pose proof (Qfloor_le (d / 1200 + (1#2))) as L. pose proof (Qlt_floor (d / 1200 + (1#2))) as U.
  rewrite inject_Z_plus in U. change (inject_Z 1) with 1 in U. set (K := inject_Z _) in *.
  assert (E : d == 1200 * (d / 1200)) by (field; discriminate). set (x := d / 1200) in *. split; lra.
Qed.
Lemma chroma_le_abs : forall d : Q, Qabs (d - 1200 * inject_Z (Qfloor (d / 1200 + (1#2)))) <= Qabs d.
Proof.
  intro d. destruct (floor_bounds d) as [L U]. cbv zeta in *. set (k := Qfloor _) in *.
  destruct (Z_lt_le_dec k 0) as [N|N]; [|destruct (Z_le_lt_eq_dec 0 k N) as [P|Z]].
  - assert (HK : inject_Z k <= -1) by (change (-1) with (inject_Z (-1)); rewrite <- Zle_Qle; lia).
    rewrite (Qabs_neg d) by lra. apply Qabs_Qle_condition. split; lra.
  - assert (HK : 1 <= inject_Z k) by (change 1 with (inject_Z 1); rewrite <- Zle_Qle; lia).
    rewrite (Qabs_pos d) by lra. apply Qabs_Qle_condition. split; lra.
  - rewrite <- Z. assert (E : d - 1200 * inject_Z 0 == d) by (change (inject_Z 0) with 0; lra). rewrite E. apply Qle_refl.
Qed.
Lemma chroma_diff_le d : chroma_diff d <= Qabs d.
Proof. apply chroma_le_abs. Qed.

Lemma cent_dist_nonneg f : 0 <= cent_dist f.
Proof. apply Qabs_nonneg. Qed.
Lemma pitch_ok_chroma_ok tol tol' f : tol <= tol' -> pitch_ok tol f = true -> chroma_ok tol' f = true.
Proof.
  unfold pitch_ok, chroma_ok, frame_ok. intros HT H. apply andb_true_iff in H as [H1 H2]. rewrite H1. cbn [andb].
  apply qltb_true in H2. apply qltb_true. pose proof (chroma_diff_le (cent_dist f)) as C.
  rewrite (Qabs_pos _ (cent_dist_nonneg f)) in C. lra.
Qed.
Lemma frame_ok_tol_mono fold tol tol' f : tol <= tol' -> frame_ok fold tol f = true -> frame_ok fold tol' f = true.
Proof.
  unfold frame_ok. intros HT H. apply andb_true_iff in H as [H1 H2]. rewrite H1. cbn [andb].
  apply qltb_true in H2. apply qltb_true. lra.
Qed.

Lemma raw_accuracy_mono fold fold' tol tol' rv rc ev ec a b :
  (forall f, frame_ok fold tol f = true -> frame_ok fold' tol' f = true) ->
  raw_accuracy fold rv rc ev ec tol = Ok a -> raw_accuracy fold' rv rc ev ec tol' = Ok b -> a <= b.
Proof.
  intros M HA HB. pose proof (raw_ok_valid _ _ _ _ _ _ _ HA) as V.
  destruct (raw_accuracy_def fold rv rc ev ec tol V) as (a' & EA & Ha). rewrite HA in EA. injection EA as <-.
  destruct (raw_accuracy_def fold' rv rc ev ec tol' V) as (b' & EB & Hb). rewrite HB in EB. injection EB as <-.
  rewrite Ha, Hb. destruct (qeqb (qsum rv) 0) eqn:E0; [apply Qle_refl|].
  pose proof (sum_rv_pos _ _ _ _ V E0) as P. pose proof (frames_unit _ _ _ _ V) as U.
  unfold raw_formula. apply qdiv_mono; [|exact P]. apply sumf_le. intros f Hf. destruct (U f Hf) as [[A _] _].
  pose proof (b2q_mono _ _ (M f)). nra.
Qed.

(* raw pitch accuracy never exceeds raw chroma accuracy *)
Theorem rpa_le_rca : forall rv rc ev ec tol p c,
  raw_pitch_accuracy rv rc ev ec tol = Ok p -> raw_chroma_accuracy rv rc ev ec tol = Ok c -> p <= c.
Proof.
  intros rv rc ev ec tol p c. apply raw_accuracy_mono. intros f. apply pitch_ok_chroma_ok, Qle_refl.
Qed.
(* and one measure is Ok exactly when the other is *)
Lemma raw_accuracy_ok_iff fold fold' rv rc ev ec tol tol' :
  (exists a, raw_accuracy fold rv rc ev ec tol = Ok a) <-> (exists b, raw_accuracy fold' rv rc ev ec tol' = Ok b).
Proof.
  split; intros [x H]; pose proof (raw_ok_valid _ _ _ _ _ _ _ H) as V.
  - destruct (raw_accuracy_def fold' rv rc ev ec tol' V) as (b & E & _). eauto.
  - destruct (raw_accuracy_def fold rv rc ev ec tol V) as (b & E & _). eauto.
Qed.

Theorem rpa_tol_mono : forall rv rc ev ec tol tol' a b, tol <= tol' ->
  raw_pitch_accuracy rv rc ev ec tol = Ok a -> raw_pitch_accuracy rv rc ev ec tol' = Ok b -> a <= b.
Proof. intros rv rc ev ec tol tol' a b HT. apply raw_accuracy_mono. intro f. now apply frame_ok_tol_mono. Qed.
Theorem rca_tol_mono : forall rv rc ev ec tol tol' a b, tol <= tol' ->
  raw_chroma_accuracy rv rc ev ec tol = Ok a -> raw_chroma_accuracy rv rc ev ec tol' = Ok b -> a <= b.
Proof. intros rv rc ev ec tol tol' a b HT. apply raw_accuracy_mono. intro f. now apply frame_ok_tol_mono. Qed.
Theorem oa_tol_mono : forall rv rc ev ec tol tol' a b, tol <= tol' ->
  overall_accuracy rv rc ev ec tol = Ok a -> overall_accuracy rv rc ev ec tol' = Ok b -> a <= b.
Proof.
  intros rv rc ev ec tol tol' a b HT HA HB. pose proof (oa_ok_valid _ _ _ _ _ _ HA) as V.
  destruct (oa_def rv rc ev ec tol V) as (a' & EA & Ha). rewrite HA in EA. injection EA as <-.
  destruct (oa_def rv rc ev ec tol' V) as (b' & EB & Hb). rewrite HB in EB. injection EB as <-.
  rewrite Ha, Hb. pose proof (frames_unit _ _ _ _ V) as U.
  destruct rv as [|x rv]; [apply Qle_refl|]. cbn [is_nil]. set (fs := frames (x :: rv) rc ev ec) in *.
  assert (NE : fs <> []).
  { apply melody_valid_spec in V as (H1 & H2 & H3 & _). destruct rc, ev, ec; discriminate. }
  pose proof (qlen_pos fs NE) as LP. unfold oa_formula. apply qdiv_mono; [|exact LP].
  assert (M : sumf (fun f => rvo f * evo f * b2q (pitch_ok tol f)) fs <= sumf (fun f => rvo f * evo f * b2q (pitch_ok tol' f)) fs).
  { apply sumf_le. intros f Hf. destruct (U f Hf) as [[A _] [B _]].
    pose proof (b2q_mono _ _ (frame_ok_tol_mono (fun d => d) tol tol' f HT)) as BM. fold (pitch_ok tol f) (pitch_ok tol' f) in BM.
    assert (0 <= rvo f * evo f) by nra. nra. }
  assert (RT : 0 <= (if qeqb (sumf rvo fs) 0 then 0 else sumf (fun f => voiced_ind (rvo f)) fs / sumf rvo fs)).
  { destruct (qeqb (sumf rvo fs) 0) eqn:E0; [apply Qle_refl|]. apply qeqb_false in E0.
    assert (0 <= sumf rvo fs) by (apply sumf_nonneg; intros f Hf; apply (U f Hf)).
    apply Qle_shift_div_l; [lra|]. assert (0 <= sumf (fun f => voiced_ind (rvo f)) fs) by (apply sumf_nonneg; intros; apply b2q_range). lra. }
  nra.
Qed.
(* RPA, RCA and OA are non-decreasing in cent_tolerance *)
Theorem melody_tol_mono : forall rv rc ev ec tol tol', tol <= tol' ->
  (forall a b, raw_pitch_accuracy rv rc ev ec tol = Ok a -> raw_pitch_accuracy rv rc ev ec tol' = Ok b -> a <= b) /\
  (forall a b, raw_chroma_accuracy rv rc ev ec tol = Ok a -> raw_chroma_accuracy rv rc ev ec tol' = Ok b -> a <= b) /\
  (forall a b, overall_accuracy rv rc ev ec tol = Ok a -> overall_accuracy rv rc ev ec tol' = Ok b -> a <= b).
Proof.
  intros rv rc ev ec tol tol' HT. repeat split; intros a b.
  - now apply rpa_tol_mono. - now apply rca_tol_mono. - now apply oa_tol_mono.
Qed.

(* ------------------------------------------------------------------------------------------ C02: perfect estimate *)
Global Instance voiced_ind_comp : Proper (Qeq ==> Qeq) voiced_ind.
Proof. intros a b H. unfold voiced_ind. now rewrite H. Qed.
Global Instance unvoiced_ind_comp : Proper (Qeq ==> Qeq) unvoiced_ind.
Proof. intros a b H. unfold unvoiced_ind. now rewrite H. Qed.
Global Instance chroma_diff_comp : Proper (Qeq ==> Qeq) chroma_diff.
Proof. intros a b H. unfold chroma_diff, octave_of. rewrite (Qfloor_comp (a / 1200 + (1#2)) (b / 1200 + (1#2))) by now rewrite H. now rewrite H. Qed.

Definition binary (x : Q) : Prop := x == 0 \/ x == 1.
Lemma is_binary_Forall v : is_binary v = true <-> Forall binary v.
Proof.
  unfold is_binary. rewrite forallb_forall, Forall_forall. unfold binary.
  split; intros H x Hx; specialize (H x Hx).
  - apply orb_true_iff in H. now rewrite <- !qeqb_true.
  - apply orb_true_iff. now rewrite !qeqb_true.
Qed.
Lemma binary_unit x : binary x -> unit_range x.
Proof. unfold unit_range. intros [H|H]; rewrite H; split; discriminate. Qed.
Lemma binary_voiced x : binary x -> voiced_ind x == x.
Proof. intros [H|H]; rewrite H; reflexivity. Qed.
Lemma in_combine_same {A} (l : list A) p : In p (combine l l) -> fst p = snd p /\ In (fst p) l.
Proof. induction l as [|x l IH]; [contradiction|]. intros [<-|H]; [cbn; auto|]. destruct (IH H). split; [assumption|now right]. Qed.

Theorem vx_recall_self : forall rv, is_binary rv = true -> ~ qsum rv == 0 ->
  exists q, voicing_recall rv rv = Ok q /\ q == 1.
Proof.
  intros rv B NZ. destruct (vx_recall_def rv rv eq_refl) as (q & E & Hq). exists q. split; [exact E|]. rewrite Hq. clear E Hq.
  apply is_binary_Forall in B. rewrite Forall_forall in B.
  destruct rv as [|a rv]; [exfalso; apply NZ; reflexivity|]. cbn [is_nil]. set (l := a :: rv) in *.
  assert (E1 : sumf (fun p : Q * Q => voiced_ind (fst p)) (combine l l) == qsum l).
  { transitivity (sumf (fun p : Q * Q => fst p) (combine l l)).
    - apply sumf_ext. intros p Hp. destruct (in_combine_same l p Hp) as [_ I]. apply binary_voiced, B, I.
    - pose proof (ind_sum_combine (fun x => x) l l eq_refl) as I. rewrite map_id in I. cbv beta in I. rewrite I. reflexivity. }
  assert (E2 : sumf (fun p : Q * Q => snd p * voiced_ind (fst p)) (combine l l) == sumf (fun p : Q * Q => voiced_ind (fst p)) (combine l l)).
  { apply sumf_ext. intros p Hp. destruct (in_combine_same l p Hp) as [Ep I]. rewrite <- Ep.
    destruct (B _ I) as [H|H]; rewrite H; reflexivity. }
  rewrite E1. destruct (qeqb (qsum l) 0) eqn:E0; [reflexivity|]. unfold vx_recall_formula. rewrite E2, E1. field. exact NZ.
Qed.
Theorem vx_false_alarm_self : forall rv, exists q, voicing_false_alarm rv rv = Ok q /\ q == 0.
Proof.
  intros rv. destruct (vx_false_alarm_def rv rv eq_refl) as (q & E & Hq). exists q. split; [exact E|]. rewrite Hq. clear E Hq.
  destruct (is_nil rv); [reflexivity|]. destruct (qeqb _ 0); [reflexivity|]. unfold vx_false_alarm_formula.
  rewrite (sumf_zero (fun p : Q * Q => snd p * unvoiced_ind (fst p))); [unfold Qdiv; lra|].
  intros p Hp. destruct (in_combine_same rv p Hp) as [Ep _]. rewrite <- Ep. unfold unvoiced_ind.
  destruct (qeqb (fst p) 0) eqn:E0; cbn [b2q]; [apply qeqb_true in E0; rewrite E0|]; lra.
Qed.

(* every voiced reference frame carries a non-zero cent value (a voiced frame at exactly base_frequency has cent value 0
   and is treated by the code as "no pitch": see rpa_self_needs_nonzero_cents below) *)
Definition voiced_have_pitch (rv rc : list Q) : Prop := Forall2 (fun v c => 0 < v -> ~ c == 0) rv rc.
Lemma Forall2_len {A B} (P : A -> B -> Prop) l l' : Forall2 P l l' -> length l = length l'.
Proof. induction 1; cbn; congruence. Qed.
Lemma self_frames rv rc : voiced_have_pitch rv rc ->
  forall f, In f (frames rv rc rv rc) -> (0 < rvo f -> ~ rce f == 0) /\ evo f = rvo f /\ ece f = rce f.
Proof.
  induction 1 as [|v c rv rc H F IH]; intros f Hf; [contradiction|]. cbn [frames] in Hf. destruct Hf as [<-|Hf]; [cbn; auto|]. now apply IH.
Qed.
Lemma self_valid rv rc : voiced_have_pitch rv rc -> Forall unit_range rv -> melody_valid rv rc rv rc = true.
Proof.
  intros H U. apply melody_valid_spec. pose proof (Forall2_len _ _ _ H) as L. repeat split; auto.
Qed.
Lemma self_frame_ok fold tol rv rc :
  Proper (Qeq ==> Qeq) fold -> fold 0 == 0 -> 0 < tol -> voiced_have_pitch rv rc -> Forall unit_range rv ->
  forall f, In f (frames rv rc rv rc) -> rvo f * b2q (frame_ok fold tol f) == rvo f.
Proof.
  intros PF F0 HT HP U f Hf. destruct (self_frames rv rc HP f Hf) as (NZ & _ & EC).
  destruct (frames_unit _ _ _ _ (self_valid rv rc HP U) f Hf) as [[A _] _].
  destruct (Qlt_le_dec 0 (rvo f)) as [P|P]; [|assert (rvo f == 0) as -> by lra; lra].
  specialize (NZ P). unfold frame_ok, has_pitch, cent_dist. rewrite EC.
  assert (E0 : qeqb (rce f) 0 = false) by now apply qeqb_false. rewrite E0. cbn [negb andb].
  assert (D : fold (Qabs (rce f - rce f)) == 0).
  { rewrite <- F0. apply PF. assert (rce f - rce f == 0) as -> by lra. reflexivity. }
  assert (L : qltb (fold (Qabs (rce f - rce f))) tol = true) by (apply qltb_true; lra). rewrite L. cbn. lra.
Qed.
Lemma raw_accuracy_self fold tol rv rc :
  Proper (Qeq ==> Qeq) fold -> fold 0 == 0 -> 0 < tol -> voiced_have_pitch rv rc -> Forall unit_range rv -> ~ qsum rv == 0 ->
  exists q, raw_accuracy fold rv rc rv rc tol = Ok q /\ q == 1.
Proof.
  intros PF F0 HT HP U NZ. pose proof (self_valid rv rc HP U) as V.
  destruct (raw_accuracy_def fold rv rc rv rc tol V) as (q & E & Hq). exists q. split; [exact E|]. rewrite Hq.
  assert (E0 : qeqb (qsum rv) 0 = false) by now apply qeqb_false. rewrite E0.
  pose proof (sum_rv_pos _ _ _ _ V E0) as P. unfold raw_formula.
  rewrite (sumf_ext _ rvo _ (self_frame_ok fold tol rv rc PF F0 HT HP U)). field. lra.
Qed.
Theorem rpa_self : forall rv rc tol, 0 < tol -> voiced_have_pitch rv rc -> Forall unit_range rv -> ~ qsum rv == 0 ->
  exists q, raw_pitch_accuracy rv rc rv rc tol = Ok q /\ q == 1.
Proof. intros rv rc tol. apply raw_accuracy_self; [intros a b H; exact H|reflexivity]. Qed.
Theorem rca_self : forall rv rc tol, 0 < tol -> voiced_have_pitch rv rc -> Forall unit_range rv -> ~ qsum rv == 0 ->
  exists q, raw_chroma_accuracy rv rc rv rc tol = Ok q /\ q == 1.
Proof. intros rv rc tol. apply raw_accuracy_self; [apply chroma_diff_comp|reflexivity]. Qed.
Theorem oa_self : forall rv rc tol, 0 < tol -> voiced_have_pitch rv rc -> is_binary rv = true -> rv <> [] ->
  exists q, overall_accuracy rv rc rv rc tol = Ok q /\ q == 1.
Proof.
  intros rv rc tol HT HP B NE. apply is_binary_Forall in B.
  assert (U : Forall unit_range rv) by (eapply Forall_impl; [|exact B]; apply binary_unit).
  pose proof (self_valid rv rc HP U) as V. destruct (oa_def rv rc rv rc tol V) as (q & E & Hq). exists q. split; [exact E|]. rewrite Hq.
  destruct rv as [|x rv]; [congruence|]. cbn [is_nil]. set (l := x :: rv) in *. set (fs := frames l rc l rc) in *.
  assert (NEf : fs <> []). { pose proof (Forall2_len _ _ _ HP) as L. destruct rc; discriminate. }
  pose proof (qlen_pos fs NEf) as LP.
  assert (BF : forall f, In f fs -> binary (rvo f)).
  { intros f Hf. apply melody_valid_spec in V as (H1 & H2 & H3 & _). destruct (frames_proj l rc l rc H1 H2 H3) as (E1 & _). cbv zeta in E1.
    rewrite Forall_forall in B. apply B. rewrite <- E1. apply in_map, Hf. }
  unfold oa_formula.
  assert (EV : sumf (fun f => voiced_ind (rvo f)) fs == sumf rvo fs) by (apply sumf_ext; intros f Hf; apply binary_voiced, BF, Hf).
  assert (ES1 : sumf (fun f => rvo f * evo f * b2q (pitch_ok tol f)) fs == sumf rvo fs).
  { apply sumf_ext. intros f Hf. destruct (self_frames l rc HP f Hf) as (_ & EVo & _). rewrite EVo.
    pose proof (self_frame_ok (fun d => d) tol l rc (fun a b H => H) (Qeq_refl 0) HT HP U f Hf) as K. fold (pitch_ok tol f) in K.
    destruct (BF f Hf) as [Z|Z]; rewrite Z in *; lra. }
  assert (ES2 : sumf (fun f => (1 - voiced_ind (rvo f)) * (1 - evo f)) fs == qlen fs - sumf rvo fs).
  { pose proof (voiced_split rvo fs) as VS. rewrite EV in VS.
    assert (sumf (fun f => (1 - voiced_ind (rvo f)) * (1 - evo f)) fs == sumf (fun f => 1 - voiced_ind (rvo f)) fs) as ->; [|lra].
    apply sumf_ext. intros f Hf. destruct (self_frames l rc HP f Hf) as (_ & EVo & _). rewrite EVo.
    destruct (BF f Hf) as [Z|Z]; rewrite Z; reflexivity. }
  rewrite ES1, ES2. destruct (qeqb (sumf rvo fs) 0) eqn:E0.
  - apply qeqb_true in E0. rewrite E0. field. lra.
  - apply qeqb_false in E0. rewrite EV. field. split; lra.
Qed.
(* The pitch hypothesis is needed: a perfect estimate whose (voiced) frames sit at cent value 0, i.e. at exactly
   base_frequency, scores 0 -- mir_eval.melody.evaluate(t, [10.,10.,10.], t, [10.,10.,10.]) returns RPA = RCA = OA = 0. *)
Example rpa_self_needs_nonzero_cents :
  res_Qeq (raw_pitch_accuracy [1; 1] [0; 0] [1; 1] [0; 0] 50) (Ok 0)
  /\ res_Qeq (raw_chroma_accuracy [1; 1] [0; 0] [1; 1] [0; 0] 50) (Ok 0)
  /\ res_Qeq (overall_accuracy [1; 1] [0; 0] [1; 1] [0; 0] 50) (Ok 0).
Proof. vm_compute. auto. Qed.
Example self_hyps_satisfiable :
  voiced_have_pitch [1; 0; 1] [1200; 0; 3600] /\ Forall unit_range [1; 0; 1] /\ ~ qsum [1; 0; 1] == 0 /\ is_binary [1; 0; 1] = true.
Proof.
  split; [|split; [|split]].
  - unfold voiced_have_pitch. constructor; [intros _ H; discriminate H|]. constructor; [intro H; discriminate H|].
    constructor; [intros _ H; discriminate H|]. constructor.
  - repeat (constructor; [split; discriminate|]). constructor.
  - intro H; discriminate H.
  - reflexivity.
Qed.

(* ------------------------------------------------------------------------------------------ C09: transport lemmas *)
Lemma raw_accuracy_raise fold rv rc ev ec tol : melody_valid rv rc ev ec = false -> raw_accuracy fold rv rc ev ec tol = Raise ValueError.
Proof.
  intro V. pose proof (validators_raise _ _ _ _ V) as R. unfold raw_accuracy.
  destruct (validate_voicing rv ev) as [[]|e]; cbn [bind] in *; [now rewrite R|now injection R as ->].
Qed.
Definition map_frame (g h : Q -> Q) (f : frame) : frame := mkF (rvo f) (g (rce f)) (evo f) (h (ece f)).
Lemma frames_map g h rv : forall rc ev ec,
  frames rv (map g rc) ev (map h ec) = map (map_frame g h) (frames rv rc ev ec).
Proof. induction rv as [|a rv IH]; intros [|b rc] [|c ev] [|d ec]; try reflexivity. cbn [map frames]. now rewrite IH. Qed.
Lemma melody_valid_map g h rv rc ev ec : melody_valid rv (map g rc) ev (map h ec) = melody_valid rv rc ev ec.
Proof. unfold melody_valid. now rewrite !map_length. Qed.
Lemma frames_in rv : forall rc ev ec f, In f (frames rv rc ev ec) -> In (rce f) rc /\ In (ece f) ec.
Proof.
  induction rv as [|a rv IH]; intros [|b rc] [|c ev] [|d ec] f Hf; try contradiction.
  cbn [frames] in Hf. destruct Hf as [<-|Hf]; [cbn; auto|]. destruct (IH _ _ _ _ Hf). split; now right.
Qed.

Lemma raw_accuracy_transport fold tol rv rc ev ec g h :
  (forall f, In f (frames rv rc ev ec) -> frame_ok fold tol (map_frame g h f) = frame_ok fold tol f) ->
  res_Qeq (raw_accuracy fold rv (map g rc) ev (map h ec) tol) (raw_accuracy fold rv rc ev ec tol).
Proof.
  intro H. destruct (melody_valid rv rc ev ec) eqn:V.
  - pose proof V as V'. rewrite <- (melody_valid_map g h) in V'.
    destruct (raw_accuracy_def fold _ _ _ _ tol V) as (q & E & Hq). destruct (raw_accuracy_def fold _ _ _ _ tol V') as (q' & E' & Hq').
    rewrite E, E'. cbn. rewrite Hq, Hq'. destruct (qeqb (qsum rv) 0); [reflexivity|].
    unfold raw_formula. rewrite frames_map, !sumf_map. cbn [map_frame rvo].
    rewrite (sumf_ext (fun x => rvo x * b2q (frame_ok fold tol (map_frame g h x))) (fun x => rvo x * b2q (frame_ok fold tol x))).
    + reflexivity.
    + intros f Hf. now rewrite (H f Hf).
  - rewrite (raw_accuracy_raise fold _ _ _ _ tol V). rewrite <- (melody_valid_map g h) in V.
    rewrite (raw_accuracy_raise fold _ _ _ _ tol V). reflexivity.
Qed.
Lemma oa_transport tol rv rc ev ec g h :
  (forall f, In f (frames rv rc ev ec) -> pitch_ok tol (map_frame g h f) = pitch_ok tol f) ->
  res_Qeq (overall_accuracy rv (map g rc) ev (map h ec) tol) (overall_accuracy rv rc ev ec tol).
Proof.
  intro H. destruct (melody_valid rv rc ev ec) eqn:V.
  - pose proof V as V'. rewrite <- (melody_valid_map g h) in V'.
    destruct (oa_def _ _ _ _ tol V) as (q & E & Hq). destruct (oa_def _ _ _ _ tol V') as (q' & E' & Hq').
    rewrite E, E'. cbn. rewrite Hq, Hq'. destruct (is_nil rv); [reflexivity|].
    unfold oa_formula. rewrite frames_map. unfold qlen. rewrite map_length, !sumf_map. cbn [map_frame rvo evo].
    rewrite (sumf_ext (fun x => rvo x * evo x * b2q (pitch_ok tol (map_frame g h x))) (fun x => rvo x * evo x * b2q (pitch_ok tol x))).
    + reflexivity.
    + intros f Hf. now rewrite (H f Hf).
  - destruct (pitch_measures_raise _ _ _ _ tol V) as (_ & _ & ->). rewrite <- (melody_valid_map g h) in V.
    destruct (pitch_measures_raise _ _ _ _ tol V) as (_ & _ & ->). reflexivity.
Qed.

(* ------------------------------------------------------------------------------------------ C09: joint cent shift *)
(* add c cents to every non-zero ("has a pitch") cent value; zeros mark "no pitch" and stay *)
Definition shift1 (c x : Q) : Q := if qeqb x 0 then 0 else x + c.
Definition shift_cents (c : Q) (l : list Q) : list Q := map (shift1 c) l.
(* the shift must not move a pitch onto the "no pitch" marker 0 *)
Definition no_collision (c : Q) (l : list Q) : Prop := Forall (fun x => ~ x == 0 -> ~ x + c == 0) l.
Lemma shift1_zero c x : (~ x == 0 -> ~ x + c == 0) -> qeqb (shift1 c x) 0 = qeqb x 0.
Proof.
  intro H. unfold shift1. destruct (qeqb x 0) eqn:E; [reflexivity|]. apply qeqb_false. apply H. now apply qeqb_false.
Qed.
Lemma joint_shift_frame_ok fold tol c f : Proper (Qeq ==> Qeq) fold ->
  (~ rce f == 0 -> ~ rce f + c == 0) -> (~ ece f == 0 -> ~ ece f + c == 0) ->
  frame_ok fold tol (map_frame (shift1 c) (shift1 c) f) = frame_ok fold tol f.
Proof.
  intros PF HR HE. unfold frame_ok, has_pitch, cent_dist. cbn [map_frame rce ece].
  rewrite (shift1_zero c _ HR), (shift1_zero c _ HE).
  destruct (qeqb (ece f) 0) eqn:E1; [reflexivity|]. destruct (qeqb (rce f) 0) eqn:E2; [reflexivity|]. cbn [negb andb].
  unfold shift1. rewrite E1, E2.
  assert (D : rce f + c - (ece f + c) == rce f - ece f) by lra. now rewrite D.
Qed.
Lemma joint_shift_hyp c rv rc ev ec : no_collision c rc -> no_collision c ec ->
  forall f, In f (frames rv rc ev ec) -> (~ rce f == 0 -> ~ rce f + c == 0) /\ (~ ece f == 0 -> ~ ece f + c == 0).
Proof.
  unfold no_collision. rewrite !Forall_forall. intros HR HE f Hf. destruct (frames_in _ _ _ _ _ Hf) as [I1 I2].
  split; [apply (HR _ I1)|apply (HE _ I2)].
Qed.
Theorem rpa_shift : forall c rv rc ev ec tol, no_collision c rc -> no_collision c ec ->
  res_Qeq (raw_pitch_accuracy rv (shift_cents c rc) ev (shift_cents c ec) tol) (raw_pitch_accuracy rv rc ev ec tol).
Proof.
  intros c rv rc ev ec tol HR HE. apply raw_accuracy_transport. intros f Hf.
  destruct (joint_shift_hyp c rv rc ev ec HR HE f Hf). apply joint_shift_frame_ok; auto. intros a b Hab; exact Hab.
Qed.
Theorem rca_shift : forall c rv rc ev ec tol, no_collision c rc -> no_collision c ec ->
  res_Qeq (raw_chroma_accuracy rv (shift_cents c rc) ev (shift_cents c ec) tol) (raw_chroma_accuracy rv rc ev ec tol).
Proof.
  intros c rv rc ev ec tol HR HE. apply raw_accuracy_transport. intros f Hf.
  destruct (joint_shift_hyp c rv rc ev ec HR HE f Hf). apply joint_shift_frame_ok; auto. apply chroma_diff_comp.
Qed.
Theorem oa_shift : forall c rv rc ev ec tol, no_collision c rc -> no_collision c ec ->
  res_Qeq (overall_accuracy rv (shift_cents c rc) ev (shift_cents c ec) tol) (overall_accuracy rv rc ev ec tol).
Proof.
  intros c rv rc ev ec tol HR HE. apply oa_transport. intros f Hf.
  destruct (joint_shift_hyp c rv rc ev ec HR HE f Hf). apply joint_shift_frame_ok; auto. intros a b Hab; exact Hab.
Qed.
Lemma no_collision_pos c l : 0 <= c -> Forall (fun x => 0 <= x) l -> no_collision c l.
Proof.
  intros Hc H. unfold no_collision. eapply Forall_impl; [|exact H]. cbn. intros x Hx NZ E. apply NZ. lra.
Qed.
Example shift_hyps_satisfiable : no_collision 100 [1200; 0; 3600].
Proof. apply no_collision_pos; [discriminate|]. repeat (constructor; [discriminate|]). constructor. Qed.
(* the hypothesis is needed: shifting a pitch onto 0 turns it into "no pitch" *)
Example rpa_shift_needs_no_collision :
  res_Qeq (raw_pitch_accuracy [1] [1200] [1] [1200] 50) (Ok 1)
  /\ res_Qeq (raw_pitch_accuracy [1] (shift_cents (-1200) [1200]) [1] (shift_cents (-1200) [1200]) 50) (Ok 0).
Proof. vm_compute. auto. Qed.

(* ------------------------------------------------------------------------------------------ C09: octave invariance of RCA *)
Lemma Qfloor_unique x z : inject_Z z <= x -> x < inject_Z z + 1 -> Qfloor x = z.
Proof.
  intros L U. pose proof (Qfloor_le x) as L'. pose proof (Qlt_floor x) as U'. rewrite inject_Z_plus in U'. change (inject_Z 1) with 1 in U'.
  assert (A : (Qfloor x < z + 1)%Z). { rewrite Zlt_Qlt, inject_Z_plus. change (inject_Z 1) with 1. lra. }
  assert (B : (z < Qfloor x + 1)%Z). { rewrite Zlt_Qlt, inject_Z_plus. change (inject_Z 1) with 1. lra. }
  lia.
Qed.
Lemma Qfloor_plus_Z x k : Qfloor (x + inject_Z k) = (Qfloor x + k)%Z.
Proof.
  pose proof (Qfloor_le x) as L. pose proof (Qlt_floor x) as U. rewrite inject_Z_plus in U. change (inject_Z 1) with 1 in U.
  apply Qfloor_unique; rewrite inject_Z_plus; lra.
Qed.
Lemma chroma_diff_period d k : chroma_diff (d + 1200 * inject_Z k) == chroma_diff d.
Proof.
  unfold chroma_diff, octave_of.
  assert (E : (d + 1200 * inject_Z k) / 1200 + (1#2) == (d / 1200 + (1#2)) + inject_Z k) by (field; discriminate).
  rewrite (Qfloor_comp _ _ E), Qfloor_plus_Z, inject_Z_plus. apply Qabs_wd. ring.
Qed.
Lemma chroma_diff_even d : chroma_diff (- d) == chroma_diff d.
Proof.
  unfold chroma_diff, octave_of. destruct (floor_bounds d) as [L U]. cbv zeta in *. set (m := Qfloor (d / 1200 + (1#2))) in *.
  assert (Ed : d == 1200 * (d / 1200)) by (field; discriminate).
  assert (En : - d / 1200 == - (d / 1200)) by (field; discriminate).
  destruct (Qlt_le_dec (1200 * inject_Z m - 600) d) as [S|T].
  - assert (F : Qfloor (- d / 1200 + (1#2)) = (- m)%Z).
    { apply Qfloor_unique; rewrite inject_Z_opp, En; set (x := d / 1200) in *; lra. }
    rewrite F, inject_Z_opp. rewrite <- (Qabs_opp (d - 1200 * inject_Z m)). apply Qabs_wd. ring.
  - assert (Eq : d == 1200 * inject_Z m - 600) by lra.
    assert (F : Qfloor (- d / 1200 + (1#2)) = (- m + 1)%Z).
    { apply Qfloor_unique; rewrite inject_Z_plus, inject_Z_opp, En; change (inject_Z 1) with 1; set (x := d / 1200) in *; lra. }
    rewrite F, inject_Z_plus, inject_Z_opp. change (inject_Z 1) with 1.
    assert (A1 : - d - 1200 * (- inject_Z m + 1) == - 600) by lra. assert (A2 : d - 1200 * inject_Z m == - 600) by lra.
    now rewrite A1, A2.
Qed.
Lemma chroma_diff_abs d : chroma_diff (Qabs d) == chroma_diff d.
Proof. apply Qabs_case; intros _; [reflexivity|apply chroma_diff_even]. Qed.

Lemma octave_shift_frame_ok tol k f : (~ ece f == 0 -> ~ ece f + 1200 * inject_Z k == 0) ->
  chroma_ok tol (map_frame (fun x => x) (shift1 (1200 * inject_Z k)) f) = chroma_ok tol f.
Proof.
  intros HE. unfold chroma_ok, frame_ok, has_pitch, cent_dist. cbn [map_frame rce ece].
  rewrite (shift1_zero _ _ HE).
  destruct (qeqb (ece f) 0) eqn:E1; [reflexivity|]. destruct (qeqb (rce f) 0) eqn:E2; [reflexivity|]. cbn [negb andb].
  unfold shift1. rewrite E1.
  assert (D : chroma_diff (Qabs (rce f - (ece f + 1200 * inject_Z k))) == chroma_diff (Qabs (rce f - ece f))).
  { rewrite !chroma_diff_abs. rewrite <- (chroma_diff_period (rce f - ece f) (- k)). apply chroma_diff_comp. rewrite inject_Z_opp. ring. }
  now rewrite D.
Qed.
(* transposing the estimate by whole octaves (k * 1200 cents on every frame that has a pitch) leaves RCA unchanged *)
Theorem rca_octave_invariant : forall (k : Z) rv rc ev ec tol, no_collision (1200 * inject_Z k) ec ->
  res_Qeq (raw_chroma_accuracy rv rc ev (shift_cents (1200 * inject_Z k) ec) tol) (raw_chroma_accuracy rv rc ev ec tol).
Proof.
  intros k rv rc ev ec tol HE. rewrite <- (map_id rc) at 1. apply raw_accuracy_transport. intros f Hf.
  apply octave_shift_frame_ok. unfold no_collision in HE. rewrite Forall_forall in HE. apply HE. apply (frames_in _ _ _ _ _ Hf).
Qed.
(* (not so for RPA: one octave off is simply wrong) *)
Example rpa_not_octave_invariant :
  res_Qeq (raw_pitch_accuracy [1] [2400] [1] [2400] 50) (Ok 1)
  /\ res_Qeq (raw_pitch_accuracy [1] [2400] [1] (shift_cents (1200 * inject_Z 1) [2400]) 50) (Ok 0)
  /\ res_Qeq (raw_chroma_accuracy [1] [2400] [1] (shift_cents (1200 * inject_Z 1) [2400]) 50) (Ok 1).
Proof. vm_compute. auto. Qed.

(* ------------------------------------------------------------------------------------------ C09: sign flip *)
(* RPA and RCA read the estimated voicing only through the validators (its length and the [0,1] check) *)
Lemma raw_accuracy_est_voicing fold rv rc ev ev' ec tol :
  length ev = length ev' -> voicing_bad ev = voicing_bad ev' ->
  raw_accuracy fold rv rc ev ec tol = raw_accuracy fold rv rc ev' ec tol.
Proof. intros HL HB. unfold raw_accuracy, validate_voicing, validate. now rewrite HL, HB. Qed.
Lemma b2q_list_ok (p : Q -> bool) l : voicing_bad (map (fun f => b2q (p f)) l) = false.
Proof. apply voicing_ok_Forall. apply Forall_forall. intros x Hx. apply in_map_iff in Hx as (f & <- & _). apply b2q_range. Qed.

(* melody.freq_to_voicing(est_freq) with the default voicing=None, on est_freq and on -est_freq: the returned
   frequencies |f| agree, the voicings differ ((f > 0) against (f < 0)) but both are 0/1 arrays of the same length, and
   raw pitch / raw chroma accuracy return the identical result on them (for whatever cent arrays and reference voicing;
   the cents are computed from |f| only: to_cent_voicing calls hz2cents on the first component) *)
Theorem sign_flip_invariant : forall est_freq fa va fb vb,
  freq_to_voicing est_freq None = Ok (fa, va) -> freq_to_voicing (map Qopp est_freq) None = Ok (fb, vb) ->
  Forall2 Qeq fa fb /\ length va = length vb /\ Forall unit_range va /\ Forall unit_range vb /\
  va = map (fun f => b2q (qltb 0 f)) est_freq /\ vb = map (fun f => b2q (qltb f 0)) est_freq /\
  forall rv rc ec tol,
    raw_pitch_accuracy rv rc va ec tol = raw_pitch_accuracy rv rc vb ec tol /\
    raw_chroma_accuracy rv rc va ec tol = raw_chroma_accuracy rv rc vb ec tol.
Proof.
  intros est_freq fa va fb vb HA HB. cbn in HA, HB. injection HA as <- <-. injection HB as <- <-.
  assert (EB : map (fun f => b2q (qltb 0 f)) (map Qopp est_freq) = map (fun f => b2q (qltb f 0)) est_freq).
  { rewrite map_map. apply map_ext. intro f. f_equal. destruct (qltb f 0) eqn:E.
    - apply qltb_true. apply qltb_true in E. lra.
    - apply qltb_false. apply qltb_false in E. lra. }
  rewrite EB. repeat split.
  - rewrite map_map. clear EB. induction est_freq as [|f l IH]; cbn [map]; [constructor|constructor; [symmetry; apply Qabs_opp|exact IH]].
  - now rewrite !map_length.
  - apply voicing_ok_Forall, b2q_list_ok.
  - apply voicing_ok_Forall, b2q_list_ok.
  - apply raw_accuracy_est_voicing; [now rewrite !map_length|now rewrite !b2q_list_ok].
  - apply raw_accuracy_est_voicing; [now rewrite !map_length|now rewrite !b2q_list_ok].
Qed.
(* overall accuracy and the voicing measures do change *)
Example sign_flip_changes_oa :
  res_Qeq (overall_accuracy [1] [1200] [1] [1200] 50) (Ok 1) /\ res_Qeq (overall_accuracy [1] [1200] [0] [1200] 50) (Ok 0).
Proof. vm_compute. auto. Qed.

(* ------------------------------------------------------------------------------------------ C09: sign flip through
   to_cent_voicing (resampling included) and evaluate *)
Definition res_rel {A} (R : A -> A -> Prop) (a b : res A) : Prop :=
  match a, b with Ok x, Ok y => R x y | Raise e, Raise f => e = f | _, _ => False end.
(* two 0/1 voicing arrays of the same length *)
Definition vrel (v v' : list Q) : Prop := length v = length v' /\ Forall binary v /\ Forall binary v'.

Lemma ins_pt_fst p p' : fst p = fst p' -> forall acc acc', map fst acc = map fst acc' ->
  map fst (ins_pt p acc) = map fst (ins_pt p' acc').
Proof.
  intros Hp. induction acc as [|q acc IH]; intros [|q' acc'] H; try discriminate; cbn [ins_pt map] in *.
  - now rewrite Hp.
  - injection H as Hq H. rewrite Hp, Hq. destruct (qltb (fst p') (fst q')); cbn [map]; [now rewrite Hp, Hq, H|].
    rewrite Hq. f_equal. now apply IH.
Qed.
Lemma sort_pts_fst_gen l : forall l' acc acc', map fst l = map fst l' -> map fst acc = map fst acc' ->
  map fst (fold_left (fun a p => ins_pt p a) l acc) = map fst (fold_left (fun a p => ins_pt p a) l' acc').
Proof.
  induction l as [|p l IH]; intros [|p' l'] acc acc' H HA; try discriminate; [exact HA|].
  cbn [map fold_left] in *. injection H as Hp H. apply IH; [exact H|]. now apply ins_pt_fst.
Qed.
Lemma combine_fst_same (xs ys ys' : list Q) : length ys = length ys' -> map fst (combine xs ys) = map fst (combine xs ys').
Proof.
  revert ys ys'. induction xs as [|x xs IH]; intros [|y ys] [|y' ys'] H; try discriminate; try reflexivity.
  cbn [combine map fst]. f_equal. apply IH. now injection H.
Qed.
Lemma has_dup_fst l : forall l', map fst l = map fst l' -> has_dup l = has_dup l'.
Proof.
  induction l as [|p l IH]; intros [|p' l'] H; try discriminate; [reflexivity|].
  cbn [map] in H. injection H as Hp H. cbn [has_dup]. destruct l as [|q l], l' as [|q' l']; try discriminate; [reflexivity|].
  pose proof H as H'. cbn [map] in H'. injection H' as Hq _. rewrite Hp, Hq. f_equal. now apply IH.
Qed.
Lemma ins_pt_in q p acc : In q (ins_pt p acc) -> q = p \/ In q acc.
Proof.
  induction acc as [|a acc IH]; cbn [ins_pt]; [intros [<-|[]]; now left|].
  destruct (qltb (fst p) (fst a)); cbn [In]; [intros [<-|[<-|H]]; auto|intros [<-|H]; [auto|]]. destruct (IH H); auto.
Qed.
Lemma sort_pts_in_gen l : forall acc q, In q (fold_left (fun a p => ins_pt p a) l acc) -> In q l \/ In q acc.
Proof.
  induction l as [|p l IH]; intros acc q H; cbn [fold_left] in H; [now right|].
  destruct (IH _ _ H) as [H1|H1]; [left; now right|]. destruct (ins_pt_in _ _ _ H1) as [->|H2]; [left; now left|now right].
Qed.
Lemma interp_zero_in pts x : interp_zero pts x = 0 \/ In (interp_zero pts x) (map snd pts).
Proof.
  induction pts as [|[x0 y0] t IH]; [now left|]. cbn [interp_zero]. destruct t as [|[x1 y1] t']; [right; now left|].
  destruct (qltb x x1); [right; now left|]. destruct IH as [IH|IH]; [now left|right; now right].
Qed.
Lemma binary0 : binary 0. Proof. now left. Qed.

Lemma interp1d_zero_rel xs v v' tn : vrel v v' -> res_rel vrel (interp1d true xs v tn) (interp1d true xs v' tn).
Proof.
  intros (HL & HB & HB'). unfold interp1d. rewrite <- HL. destruct (negb (length xs =? length v)%nat || is_nil xs); [reflexivity|].
  unfold sort_pts. rewrite (has_dup_fst _ _ (sort_pts_fst_gen _ _ [] [] (combine_fst_same xs v v' HL) eq_refl)).
  destruct (has_dup _); [reflexivity|]. destruct (qmin_list xs); [|reflexivity]. destruct (qmax_list xs); [|reflexivity].
  destruct (existsb _ tn); [reflexivity|]. cbn. unfold vrel. rewrite !map_length. split; [reflexivity|].
  assert (K : forall w, Forall binary w -> Forall binary (map (interp_zero (fold_left (fun a p => ins_pt p a) (combine xs w) [])) tn)).
  { intros w Hw. apply Forall_forall. intros y Hy. apply in_map_iff in Hy as (x & <- & _).
    destruct (interp_zero_in (fold_left (fun a p => ins_pt p a) (combine xs w) []) x) as [->|H]; [apply binary0|].
    apply in_map_iff in H as (pt & <- & Hq). destruct (sort_pts_in_gen _ _ _ Hq) as [H|[]].
    rewrite Forall_forall in Hw. apply Hw. destruct pt as [a b]. apply (in_combine_r _ _ _ _ H). }
  split; apply K; assumption.
Qed.

Lemma vrel_app0 v v' : vrel v v' -> vrel (v ++ [0]) (v' ++ [0]).
Proof.
  intros (HL & HB & HB'). unfold vrel. rewrite !app_length, HL. repeat split; auto; apply Forall_app; split; auto; constructor; auto using binary0.
Qed.
Lemma vrel_is_binary v v' : vrel v v' -> is_binary v = true /\ is_binary v' = true.
Proof. intros (_ & HB & HB'). split; now apply is_binary_Forall. Qed.

Definition fv_rel (a b : list Q * list Q) : Prop := fst a = fst b /\ vrel (snd a) (snd b).
Lemma resample_rel t f v v' tn : vrel v v' ->
  fst (resample_melody_series t f v tn) = fst (resample_melody_series t f v' tn) /\
  res_rel fv_rel (snd (resample_melody_series t f v tn)) (snd (resample_melody_series t f v' tn)).
Proof.
  intro R. unfold resample_melody_series.
  destruct ((length t =? length tn)%nat && allclose t tn); [cbn; unfold fv_rel; auto|].
  destruct (nonuniform_warn t f) as [w|e]; [|cbn; auto]. cbn [fst snd]. split; [reflexivity|].
  destruct (qmax_list (map round10 tn)) as [mn|]; [|reflexivity]. destruct (qmax_list (map round10 t)) as [mt|]; [|reflexivity].
  assert (R' : vrel (if qltb mt mn then v ++ [0] else v) (if qltb mt mn then v' ++ [0] else v')).
  { destruct (qltb mt mn); [now apply vrel_app0|exact R]. }
  destruct (vrel_is_binary _ _ R') as [B B']. cbv zeta. rewrite B, B'.
  destruct (interp1d false _ _ _) as [fr|e]; [|reflexivity]. cbn [bind].
  destruct (interp1d true _ (if qltb mt mn then f ++ [0] else f) _) as [mask|e]; [|reflexivity]. cbn [bind].
  pose proof (interp1d_zero_rel (if qltb mt mn then map round10 t ++ [mn] else map round10 t) _ _ (map round10 tn) R') as I.
  destruct (interp1d true _ (if qltb mt mn then v ++ [0] else v) _) as [a|e], (interp1d true _ (if qltb mt mn then v' ++ [0] else v') _) as [b|e'];
    cbn in I |- *; auto. unfold fv_rel. auto.
Qed.

Definition neg_fc (fc : list (Q * Q)) : list (Q * Q) := map (fun p => (- fst p, snd p)) fc.
Lemma neg_fc_snd fc : map snd (neg_fc fc) = map snd fc.
Proof. unfold neg_fc. rewrite map_map. reflexivity. Qed.
Lemma add_time0_neg et efc :
  add_time0 et (neg_fc efc) (@None (list Q)) =
  match add_time0 et efc (@None (list Q)) with Ok (t, fc, x) => Ok (t, neg_fc fc, None) | Raise e => Raise e end.
Proof. destruct et as [|t0 et]; [reflexivity|]. cbn [add_time0]. destruct (qltb 0 t0); [|reflexivity]. destruct efc; reflexivity. Qed.
Lemma add_time0_none {A} t (fc : list A) t' fc' (x : option (list Q)) :
  add_time0 t fc (@None (list Q)) = Ok (t', fc', x) -> x = None.
Proof.
  destruct t as [|t0 t]; [discriminate|]. cbn [add_time0]. destruct (qltb 0 t0); [destruct fc; [discriminate|]|]; intro H; now injection H.
Qed.
Lemma sign_voicings_rel fs :
  vrel (map (fun f => b2q (qltb 0 f)) fs) (map (fun f => b2q (qltb 0 f)) (map Qopp fs)).
Proof.
  unfold vrel. rewrite !map_length. split; [reflexivity|].
  split; apply Forall_forall; intros x Hx; apply in_map_iff in Hx as (f & <- & _); destruct (qltb 0 f); cbn; [now right|now left|now right|now left].
Qed.
Lemma neg_fc_fst fc : map fst (neg_fc fc) = map Qopp (map fst fc).
Proof. unfold neg_fc. rewrite !map_map. reflexivity. Qed.
Lemma Forall_firstn {A} (P : A -> Prop) n : forall l, Forall P l -> Forall P (firstn n l).
Proof. induction n as [|n IH]; intros [|x l] H; cbn [firstn]; try constructor; inversion H; subst; auto. Qed.
Lemma Forall_repeat {A} (P : A -> Prop) x n : P x -> Forall P (repeat x n).
Proof. intro H. induction n; cbn [repeat]; constructor; auto. Qed.
Lemma fix_len_rel (c : bool) n m ev ev' : vrel ev ev' ->
  vrel (if c then ev ++ repeat 0 n else firstn m ev) (if c then ev' ++ repeat 0 n else firstn m ev').
Proof.
  intros (HL & HB & HB'). unfold vrel. destruct c.
  - rewrite !app_length, HL. repeat split; auto; apply Forall_app; split; auto; apply Forall_repeat, binary0.
  - rewrite !firstn_length, HL. repeat split; auto; now apply Forall_firstn.
Qed.

Definition tcv_rel (a b : list Q * list Q * list Q * list Q) : Prop :=
  let '(rv, rc, ev, ec) := a in let '(rv', rc', ev', ec') := b in rv = rv' /\ rc = rc' /\ ec = ec' /\ vrel ev ev'.

Theorem to_cent_voicing_sign_flip : forall rt rfc et efc rr hop,
  fst (to_cent_voicing rt rfc et efc None rr hop) = fst (to_cent_voicing rt rfc et (neg_fc efc) None rr hop) /\
  res_rel tcv_rel (snd (to_cent_voicing rt rfc et efc None rr hop)) (snd (to_cent_voicing rt rfc et (neg_fc efc) None rr hop)).
Proof.
  intros rt rfc et efc rr hop. unfold to_cent_voicing.
  destruct (add_time0 rt rfc rr) as [[[rt' rfc'] rr']|e]; [|cbn; auto].
  rewrite add_time0_neg. destruct (add_time0 et efc None) as [[[et' efc'] ev0]|e] eqn:EA; [|cbn; auto].
  apply add_time0_none in EA. subst ev0.
  destruct (freq_to_voicing (map fst rfc') rr') as [[x rvv]|e]; [|cbn; auto].
  cbn [freq_to_voicing]. rewrite neg_fc_snd, neg_fc_fst.
  pose proof (sign_voicings_rel (map fst efc')) as R0.
  set (va := map (fun f => b2q (qltb 0 f)) (map fst efc')) in *.
  set (vb := map (fun f => b2q (qltb 0 f)) (map Qopp (map fst efc'))) in *. clearbody va vb.
  destruct hop as [h|].
  - destruct (constant_hop_timebase h (tmax rt')) as [tbr|e]; [|cbn; auto].
    destruct (resample_melody_series rt' (map snd rfc') rvv tbr) as [w1 [[rc rv]|e]]; [|cbn; auto].
    destruct (constant_hop_timebase h (tmax et')) as [tbe|e]; [|cbn; auto].
    destruct (resample_rel et' (map snd efc') va vb tbe R0) as [W I].
    destruct (resample_melody_series et' (map snd efc') va tbe) as [w2 [[ec ev]|e]],
             (resample_melody_series et' (map snd efc') vb tbe) as [w2' [[ec' ev']|e']]; cbn in W, I |- *; subst; try contradiction; auto.
    destruct I as [E V]. cbn in E, V. subst. repeat (split; [reflexivity|]). now apply fix_len_rel.
  - destruct (resample_rel et' (map snd efc') va vb rt' R0) as [W I].
    destruct (resample_melody_series et' (map snd efc') va rt') as [w2 [[ec ev]|e]],
             (resample_melody_series et' (map snd efc') vb rt') as [w2' [[ec' ev']|e']]; cbn in W, I |- *; subst; try contradiction; auto.
    destruct I as [E V]. cbn in E, V. subst. repeat (split; [reflexivity|]). now apply fix_len_rel.
Qed.

Lemma np_mul_status a a' b : length a = length a' ->
  match np_mul a b, np_mul a' b with Ok _, Ok _ => True | Raise e, Raise e' => e = e' | _, _ => False end.
Proof.
  intro H. unfold np_mul. rewrite <- H. destruct (length a =? length b)%nat; [exact I|].
  destruct a as [|x [|y a]], a' as [|x' [|y' a']]; try discriminate; cbn; auto; destruct b as [|z [|z' b]]; cbn; auto.
Qed.
Lemma voicing_rate_status ind d rv ev ev' : length ev = length ev' ->
  match voicing_rate ind d rv ev, voicing_rate ind d rv ev' with Ok _, Ok _ => True | Raise e, Raise e' => e = e' | _, _ => False end.
Proof.
  intro H. unfold voicing_rate. assert (N : is_nil ev = is_nil ev') by (destruct ev, ev'; try discriminate; reflexivity). rewrite <- N.
  destruct (is_nil rv || is_nil ev); [exact I|]. destruct (qeqb _ 0); [exact I|].
  pose proof (np_mul_status ev ev' (map ind rv) H) as S. destruct (np_mul ev _), (np_mul ev' _); cbn; auto.
Qed.
Lemma vrel_valid rv rc ev ev' ec : vrel ev ev' -> melody_valid rv rc ev ec = melody_valid rv rc ev' ec.
Proof.
  intros (HL & HB & HB'). unfold melody_valid. rewrite HL.
  assert (B : forall w, Forall binary w -> voicing_bad w = false).
  { intros w Hw. apply voicing_ok_Forall. eapply Forall_impl; [|exact Hw]. apply binary_unit. }
  now rewrite (B ev HB), (B ev' HB').
Qed.

(* melody.evaluate (est_voicing not given) on est_freq and on -est_freq: both raise the same exception, or both return
   scores with identical raw pitch and raw chroma accuracy *)
Theorem evaluate_sign_flip : forall rt rfc et efc rr hop tol,
  match evaluate rt rfc et efc None rr hop tol, evaluate rt rfc et (neg_fc efc) None rr hop tol with
  | Ok (_, _, rpa, rca, _), Ok (_, _, rpa', rca', _) => rpa = rpa' /\ rca = rca'
  | Raise e, Raise e' => e = e'
  | _, _ => False
  end.
Proof.
  intros rt rfc et efc rr hop tol. unfold evaluate.
  destruct (to_cent_voicing_sign_flip rt rfc et efc rr hop) as [_ I].
  destruct (snd (to_cent_voicing rt rfc et efc None rr hop)) as [[[[rv rc] ev] ec]|e],
           (snd (to_cent_voicing rt rfc et (neg_fc efc) None rr hop)) as [[[[rv' rc'] ev'] ec']|e']; cbn in I; try contradiction; [|now cbn].
  destruct I as (<- & <- & <- & V). cbn [bind].
  pose proof V as (HL & HB & HB').
  pose proof (voicing_rate_status voiced_ind 1 rv ev ev' HL) as S1. fold voicing_recall in S1.
  destruct (voicing_recall rv ev), (voicing_recall rv ev'); try contradiction; [|now cbn]. cbn [bind].
  pose proof (voicing_rate_status unvoiced_ind 0 rv ev ev' HL) as S2. fold voicing_false_alarm in S2.
  destruct (voicing_false_alarm rv ev), (voicing_false_alarm rv ev'); try contradiction; [|now cbn]. cbn [bind].
  pose proof (vrel_valid rv rc ev ev' ec V) as MV.
  assert (VB : voicing_bad ev = voicing_bad ev').
  { assert (B : forall w, Forall binary w -> voicing_bad w = false).
    { intros w Hw. apply voicing_ok_Forall. eapply Forall_impl; [|exact Hw]. apply binary_unit. }
    now rewrite (B ev HB), (B ev' HB'). }
  unfold raw_pitch_accuracy, raw_chroma_accuracy.
  rewrite (raw_accuracy_est_voicing (fun d => d) rv rc ev ev' ec tol HL VB), (raw_accuracy_est_voicing chroma_diff rv rc ev ev' ec tol HL VB).
  destruct (raw_accuracy (fun d => d) rv rc ev' ec tol) as [rpa|]; [|now cbn]. cbn [bind].
  destruct (raw_accuracy chroma_diff rv rc ev' ec tol) as [rca|]; [|now cbn]. cbn [bind].
  destruct (melody_valid rv rc ev ec) eqn:E.
  - destruct (oa_def rv rc ev ec tol E) as (q & -> & _). symmetry in MV. destruct (oa_def rv rc ev' ec tol MV) as (q' & -> & _). cbn. auto.
  - destruct (pitch_measures_raise rv rc ev ec tol E) as (_ & _ & ->). symmetry in MV.
    destruct (pitch_measures_raise rv rc ev' ec tol MV) as (_ & _ & ->). now cbn.
Qed.

(* ------------------------------------------------------------------------------------------ refutations of the
   unconditional forms (C02 as literally stated: "a perfect estimate with >= 1 voiced frame scores 1") *)
(* all frames voiced, valid voicing, positive tolerance, estimate identical to the reference, and yet RPA = RCA = OA = 0:
   the cent value 0 (frequency = base_frequency, 10 Hz by default) doubles as the "no pitch" marker *)
Theorem rpa_self_unconditional_refuted : exists rv rc tol,
  0 < tol /\ is_binary rv = true /\ ~ qsum rv == 0 /\
  res_Qeq (raw_pitch_accuracy rv rc rv rc tol) (Ok 0) /\ res_Qeq (raw_chroma_accuracy rv rc rv rc tol) (Ok 0)
  /\ res_Qeq (overall_accuracy rv rc rv rc tol) (Ok 0).
Proof.
  exists [1; 1], [0; 0], 50. split; [reflexivity|]. split; [reflexivity|]. split; [intro H; discriminate H|].
  vm_compute. auto.
Qed.
(* with a continuous "voicing" v in (0,1) the voicing recall of v against itself is below 1 (by design of the generalised
   measure: the estimate's voicing is a confidence), so vx_recall_self / oa_self need binary voicing *)
Theorem vx_recall_self_continuous_refuted : exists rv, Forall unit_range rv /\ ~ qsum rv == 0 /\
  res_Qeq (voicing_recall rv rv) (Ok (1#2)) /\ res_Qeq (overall_accuracy rv [1200] rv [1200] 50) (Ok (1#2)).
Proof.
  exists [1#2]. split; [repeat constructor; discriminate|]. split; [intro H; discriminate H|]. vm_compute. auto.
Qed.
