(* The summation limits of segment._adjusted_mutual_info_score tied to the model by TRANSLATION.
   translator/corefuncs.py emits [gen_ami_bounds]: the backward slice of the function that computes the limits of
       for i in range(R): for j in range(C): for nij in range(start[i, j], end[i, j]): emi += ...
   (every statement before the loop nest on which start / end / R / C depend, and the early return), returning
   (start, end, R, C); the translator checks the shape of the loop nest and that nothing left out can write into these.
     ami_bounds_tie           for all index sequences the slice returns 1.0 in the limit cases, raises what _contingency_matrix
                              raises, and otherwise start[i][j] = max(a_i - N + b_j, 1), end[i][j] = min(a_i, b_j) + 1 with
                              a / b the row / column sums of the contingency table and N = len(reference_indices)
                              (np.array([[v - N + w ...]], dtype="int"), np.maximum, np.resize(a, (C, R)).T, np.resize(b, (R, C)),
                              np.minimum, + 1 are evaluated by Model/SegExp.v)
     bounds_are_emi_ranges    these are exactly SegmentCluster.emi_ranges (the ranges Proofs/SegmentAMI.v's emi sums over)
   The seeded change C08-3 (np.resize(a, (R, C)) for np.resize(a, (C, R)).T) breaks ami_bounds_tie. *)
From Coq Require Import String.
From Coq Require Import List Bool Arith ZArith QArith Lia Lqa.
From ME Require Import Model.Prelude Model.SegExp Gen.CoreFuncsGen Proofs.CoreFuncsTie.
From ME Require Model.SegmentCluster Proofs.SegmentClusterProps.
Import ListNotations.
Open Scope Q_scope.
Arguments core_ext : simpl never.
Arguments SC.comb2 : simpl never.
Arguments SC.nsum : simpl never.
Arguments SC.uniq : simpl never.
Arguments SC.contingency_tab : simpl never.

(* ================================================================== summation limits of the AMI *)
Definition ami_start (N : nat) (A B : list nat) : list (list Z) :=
  map (fun a => map (fun b => Z.max (Z.of_nat a - Z.of_nat N + Z.of_nat b) 1) B) A.
Definition ami_end (A B : list nat) : list (list nat) := map (fun a => map (fun b => (Nat.min a b + 1)%nat) B) A.
Definition bounds_val (yr ye : list nat) : out sv :=
  if SC.mi_special yr ye then OK (VFlt true (FQ 1))
  else match SC.contingency yr ye with
       | Raise e => EXN e
       | Ok tab => let R := length (SC.uniq yr) in let C := length (SC.uniq ye) in
                   let A := SC.row_sums tab in let B := SC.col_sums C tab in
                   OK (VTup [VZss C (ami_start (length yr) A B); VNss C (ami_end A B); VInt true (Z.of_nat R); VInt true (Z.of_nat C)])
       end.

Lemma qsumr_nQ_exact r : qsumr (map nQ r) = (Z.of_nat (SC.nsum r) # 1).
Proof.
  induction r as [|x r IH]; [reflexivity|]. cbn [map qsumr fold_right]. unfold qsumr in IH. rewrite IH.
  unfold nQ, inject_Z, Qplus. cbn [Qnum Qden]. f_equal. unfold SC.nsum. cbn [fold_right]. rewrite Nat2Z.inj_add. ring.
Qed.
Lemma nat_of_fl_nat n : nat_of_fl (FQ (Z.of_nat n # 1)) = Some n.
Proof. unfold nat_of_fl. cbn [Qnum Qden]. rewrite Pos.eqb_refl, zleb0, Nat2Z.id. reflexivity. Qed.
Lemma rows_int tab : mapo nat_of_fl (map FQ (rowQ tab)) = Some (SC.row_sums tab).
Proof.
  unfold rowQ, SC.row_sums. rewrite map_map. apply mapo_map_some. intros r _. rewrite qsumr_nQ_exact. apply nat_of_fl_nat.
Qed.
Lemma cols_int c tab : mapo nat_of_fl (map FQ (colQ c tab)) = Some (SC.col_sums c tab).
Proof.
  unfold colQ, SC.col_sums. rewrite map_map. apply mapo_map_some. intros j _.
  rewrite <- (map_map (fun r => nth j r 0%nat) nQ). rewrite qsumr_nQ_exact. apply nat_of_fl_nat.
Qed.
Lemma z_of_fl_lin v n w : z_of_fl (FQ (inject_Z v - inject_Z n + inject_Z w)) = Some (v - n + w)%Z.
Proof. unfold z_of_fl. cbn. f_equal. ring. Qed.
Lemma seqo_map (F : sv -> out sv) (G : nat -> sv) :
  (forall k, F (VInt false (Z.of_nat k)) = OK (G k)) ->
  forall l, (fix seqo (l : list (out sv)) : out (list sv) :=
               match l with [] => OK [] | r :: t => v <~ r ;; w <~ seqo t ;; OK (v :: w) end)
            (map F (map (fun k => VInt false (Z.of_nat k)) l)) = OK (map G l).
Proof. intros H. induction l as [|k l IH]; [reflexivity|]. cbn [map]. rewrite H. cbn [obind]. rewrite IH. reflexivity. Qed.
Lemma vmap2_map_same {A B C D} (f : B -> C -> D) (g : A -> B) (h : A -> C) l : vmap2 f (map g l) (map h l) = map (fun x => f (g x) (h x)) l.
Proof. induction l as [|x l IH]; [reflexivity|]. cbn [map vmap2]. rewrite IH. reflexivity. Qed.
Lemma nth_map_seq {A} (f : nat -> A) d n i : (i < n)%nat -> nth i (map f (seq 0 n)) d = f i.
Proof. intros H. rewrite (nth_indep _ d (f 0%nat)) by (rewrite map_length, seq_length; exact H). rewrite map_nth, seq_nth by exact H. reflexivity. Qed.
Lemma resizeT A C : SC.transpose (length A) (resize A C (length A)) = map (fun i => map (fun _ => nth i A 0%nat) (seq 0 C)) (seq 0 (length A)).
Proof.
  unfold SC.transpose, resize. apply map_ext_in. intros i Hi. apply in_seq in Hi. rewrite map_map. apply map_ext. intros j.
  rewrite nth_map_seq by lia. f_equal. rewrite Nat.add_comm, Nat.mod_add by lia. apply Nat.mod_small. lia.
Qed.
Lemma resizeB B R : resize B R (length B) = map (fun i => map (fun j => nth j B 0%nat) (seq 0 (length B))) (seq 0 R).
Proof.
  unfold resize. apply map_ext. intros i. apply map_ext_in. intros j Hj. apply in_seq in Hj. f_equal.
  rewrite Nat.add_comm, Nat.mod_add by lia. apply Nat.mod_small. lia.
Qed.
Lemma ami_end_nth A B : map (fun i => map (fun j => (Nat.min (nth i A 0) (nth j B 0) + 1)%nat) (seq 0 (length B))) (seq 0 (length A)) = ami_end A B.
Proof.
  unfold ami_end. rewrite <- (SP.map_seq_nth (fun a => map (fun b => (Nat.min a b + 1)%nat) B) A 0%nat). apply map_ext. intros i.
  rewrite <- (SP.map_seq_nth (fun b => (Nat.min (nth i A 0%nat) b + 1)%nat) B 0%nat). reflexivity.
Qed.
Lemma row_sums_length m : length (SC.row_sums m) = length m. Proof. apply map_length. Qed.
Lemma col_sums_length c m : length (SC.col_sums c m) = c. Proof. unfold SC.col_sums. rewrite map_length. apply seq_length. Qed.
Lemma tab_length yr ye : length (SC.contingency_tab yr ye) = length (SC.uniq yr).
Proof. unfold SC.contingency_tab. rewrite map_length. apply seq_length. Qed.
Lemma uniq_nil y : SC.uniq y = [] -> y = [].
Proof. intros H. destruct y as [|x y]; [reflexivity|]. assert (Hin : In x (SC.uniq (x :: y))) by (apply SP.In_uniq; left; reflexivity). rewrite H in Hin. destruct Hin. Qed.

Lemma end_mat A B :
  vmap2 (vmap2 Nat.min) (map (fun i => map (fun _ : nat => nth i A 0%nat) (seq 0 (length B))) (seq 0 (length A)))
                        (map (fun i => map (fun j => nth j B 0%nat) (seq 0 (length B))) (seq 0 (length A)))
  = map (fun i => map (fun j => Nat.min (nth i A 0%nat) (nth j B 0%nat)) (seq 0 (length B))) (seq 0 (length A)).
Proof. rewrite vmap2_map_same. apply map_ext. intros i. apply vmap2_map_same. Qed.
Theorem ami_bounds_tie_gen : forall ext, ext_ok ext -> forall yr ye, runx ext gen_ami_bounds [VNs yr; VNs ye] = bounds_val yr ye.
Proof.
  intros ext Hext yr ye. open_fun gen_ami_bounds. unfold bounds_val.
  step. step. step.
  rewrite rb_cons.
  match goal with |- context [exec ?sg ?ex ?s ?en] =>
    assert (Hif : exec sg ex s en = if SC.mi_special yr ye then SRet (VFlt true (FQ 1)) else SNorm en) end.
  { cbn. rewrite !zn_eqb. unfold SC.mi_special.
    change 1%Z with (Z.of_nat 1). change 0%Z with (Z.of_nat 0). rewrite !zn_eqb.
    destruct (length (SC.uniq yr) =? length (SC.uniq ye))%nat; destruct (length (SC.uniq ye) =? 1)%nat;
      destruct (length (SC.uniq ye) =? 0)%nat; reflexivity. }
  rewrite Hif. clear Hif.
  destruct (SC.mi_special yr ye) eqn:Esp; [reflexivity|].
  step_open. rewrite (Hext _ _). unfold SC.contingency. destruct (length yr =? length ye)%nat eqn:Elen; cbn; [|reflexivity].
  step_close. step. step. rewrite map_length, tab_length.
  set (tab := SC.contingency_tab yr ye). set (R := length (SC.uniq yr)). set (C := length (SC.uniq ye)).
  step_open. rewrite rowF, rows_int. cbn [lift_e]. step_close.
  step_open. rewrite colF, cols_int. cbn [lift_e]. step_close.
  set (A := SC.row_sums tab). set (B := SC.col_sums C tab).
  assert (HA : length A = R) by (unfold A; rewrite row_sums_length; apply tab_length).
  assert (HB : length B = C) by apply col_sums_length.
  assert (HR : R <> 0%nat).
  { intros H0. apply length_zero_iff_nil in H0. apply uniq_nil in H0. apply Nat.eqb_eq in Elen. rewrite H0 in Elen. cbn in Elen.
    symmetry in Elen. apply length_zero_iff_nil in Elen. unfold SC.mi_special in Esp. rewrite H0, Elen in Esp. discriminate. }
  set (n := Z.of_nat (length yr)).
  step_open.
  erewrite (seqo_map _ (fun a => VTup (map (fun b => VFlt false (FQ (inject_Z (Z.of_nat a) - inject_Z n + inject_Z (Z.of_nat b)))) B))).
  2:{ intros k. cbn. erewrite (seqo_map _ (fun b => VFlt false (FQ (inject_Z (Z.of_nat k) - inject_Z n + inject_Z (Z.of_nat b))))) by (intros; reflexivity).
      reflexivity. }
  cbn [obind].
  erewrite (mapo_map_some _ _ (fun a => map (fun b => (Z.of_nat a - n + Z.of_nat b)%Z) B)).
  2:{ intros a _. apply mapo_map_some. intros b _. apply z_of_fl_lin. }
  destruct A as [|a0 A'] eqn:EA; [cbn in HA; congruence|]. cbn [map].
  match goal with |- context [forallb ?f ?l] => replace (forallb f l) with true end.
  2:{ symmetry. apply forallb_forall. intros r Hr. apply in_map_iff in Hr. destruct Hr as [a [<- _]]. rewrite !map_length. apply Nat.eqb_refl. }
  rewrite map_length, HB. cbn [lift_e]. step_close.
  step. rewrite <- EA. rewrite <- EA in HA.
  step_open. rewrite !zltb0, !Nat2Z.id. cbn [orb obind attr String.eqb Ascii.eqb Bool.eqb].
  rewrite <- HA, <- HB. rewrite resizeT, (resizeB B (length A)), end_mat. unfold resize. rewrite !map_length, !seq_length, !Nat.eqb_refl. cbn [andb obind bin_op].
  change (0 <=? 1)%Z with true. change (Z.to_nat 1) with 1%nat. cbv beta iota. rewrite map_map.
  rewrite (map_ext _ (fun i => map (fun j => (Nat.min (nth i A 0) (nth j B 0) + 1)%nat) (seq 0 (length B)))) by (intros i; apply map_map).
  rewrite ami_end_nth. cbn [lift_e]. step_close.
  step. match goal with |- OK (VTup (VZss _ ?X :: _)) = OK (VTup (VZss _ ?Y :: _)) => replace X with Y; [reflexivity|] end.
  rewrite EA. unfold ami_start. cbn [map]. f_equal; [rewrite map_map; reflexivity|].
  rewrite map_map. apply map_ext. intros a. rewrite map_map. reflexivity.
Qed.
Theorem ami_bounds_tie : forall yr ye, run gen_ami_bounds [VNs yr; VNs ye] = bounds_val yr ye.
Proof. exact (ami_bounds_tie_gen core_ext ext_cont). Qed.
Theorem ami_bounds_tie_prog : forall yr ye, runx prog_ext gen_ami_bounds [VNs yr; VNs ye] = bounds_val yr ye.
Proof. exact (ami_bounds_tie_gen prog_ext prog_ext_ok). Qed.
Print Assumptions ami_bounds_tie.

(* the limits are the model's [emi_ranges] = the summation range of Proofs/SegmentAMI.v's emi_cell *)
Lemma bounds_are_emi_ranges yr ye tab : SC.contingency yr ye = Ok tab ->
  SC.emi_ranges yr ye = Ok (map (fun ab => map (fun zz => (fst zz, Z.of_nat (snd zz))) (combine (fst ab) (snd ab)))
                              (combine (ami_start (length yr) (SC.row_sums tab) (SC.col_sums (length (SC.uniq ye)) tab))
                                       (ami_end (SC.row_sums tab) (SC.col_sums (length (SC.uniq ye)) tab)))).
Proof.
  intros H. unfold SC.emi_ranges, SC.mi_skeleton. rewrite H. cbn [bind SC.sk_a SC.sk_b]. f_equal.
  unfold ami_start, ami_end. rewrite combine_map_same, map_map. apply map_ext. intros a. cbn [fst snd].
  rewrite combine_map_same, map_map. apply map_ext. intros b. cbn [fst snd]. unfold SC.emi_range. f_equal. lia.
Qed.
