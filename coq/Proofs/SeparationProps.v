(* C19: main statements about the model of mir_eval/separation.py (ME.Model.Separation).
   Part 1 (SeparationDecomp): decomp_sums_to_estimate, decomp_images_sums_to_estimate, scale_invariance_given_linear_partial.
   Part 2 (SeparationPerm):   perms_sound, perms_complete, best_perm_ok, best_perm_is_perm, best_perm_maximises,
                              best_perm_first_max, best_perm_equivariant, identity_when_diagonal_dominates.
   Part 3 (SeparationFrame):  framewise_plan_spec, framewise_plan_arity, framewise_arity (+ instances).
   This file: satisfiability of the scale hypotheses, the REFUTATION of scale invariance for SDR / ISR of the images
   criterion, facts about validate, and the signal-level framewise statements for the two public functions. *)
From Coq Require Import List Bool Arith ZArith QArith Lia Lqa Permutation.
From ME Require Import Model.Prelude Model.Separation.
From ME Require Export Proofs.SeparationDecomp Proofs.SeparationPerm Proofs.SeparationFrame.
Import ListNotations.
Open Scope Q_scope.

(* ------------------------------------------------------------------------------------------------------------ *)
(* the two hypotheses of scale_invariance_given_linear_partial are satisfiable                                   *)
(* ------------------------------------------------------------------------------------------------------------ *)
(* "projection onto everything": returns the padded estimate *)
Definition proj_id (refs : list vec) (est : vec) (flen : nat) : vec := pad_to (length (hd [] refs) + flen - 1) est.

Lemma scale_refs_hd_length : forall ds refs, length (hd [] (scale_refs ds refs)) = length (hd [] refs).
Proof. intros [|d ds] [|r refs]; cbn; auto. apply vscale_length. Qed.

Example scale_hypotheses_satisfiable :
  (forall refs est flen c, veq (proj_id refs (vscale c est) flen) (vscale c (proj_id refs est flen))) /\
  (forall ds refs est flen, length ds = length refs -> Forall (fun d => ~ d == 0) ds ->
     veq (proj_id (scale_refs ds refs) est flen) (proj_id refs est flen)) /\
  exists s sp i a, decomp proj_id [[1; 2]; [0; 1]] [3; 4] 0 2 = Ok (s, sp, i, a).
Proof.
  split; [|split].
  - intros. unfold proj_id. apply pad_to_vscale.
  - intros. unfold proj_id. rewrite scale_refs_hd_length. apply veq_refl.
  - repeat eexists.
Qed.

(* ------------------------------------------------------------------------------------------------------------ *)
(* images criterion: SDR and ISR are NOT scale invariant                                                         *)
(* ------------------------------------------------------------------------------------------------------------ *)
Definition iscale (c : Q) (img : list (list Q)) : list (list Q) := map (map (Qmult c)) img.
Definition proj_img_id (refs : list (list (list Q))) (est : list (list Q)) (flen : nat) : cmat :=
  mpad_to (length est + flen - 1) (transpose (length (hd [] est)) est).

Lemma nth_scale c : forall row k, nth k (map (Qmult c) row) 0 == c * nth k row 0.
Proof. induction row as [|x row IH]; intros [|k]; cbn [map nth]; try ring. apply IH. Qed.

Lemma pad_to_veq L a b : veq a b -> veq (pad_to L a) (pad_to L b).
Proof.
  intros H. unfold pad_to. rewrite (veq_length _ _ H). apply Forall2_app; [exact H | apply veq_refl].
Qed.

Lemma proj_img_id_scales : forall refs est flen c,
  meq (proj_img_id refs (iscale c est) flen) (mscale c (proj_img_id refs est flen)).
Proof.
  intros refs est flen c. unfold proj_img_id, iscale, mpad_to, mscale, transpose.
  rewrite map_length.
  assert (E : length (hd [] (map (map (Qmult c)) est)) = length (hd [] est)) by (destruct est; cbn; auto using map_length).
  rewrite E. rewrite !map_map.
  induction (seq 0 (length (hd [] est))) as [|ch l IH]; cbn [map]; constructor; auto.
  eapply veq_trans; [|apply pad_to_vscale]. apply pad_to_veq.
  unfold vscale. rewrite !map_map. clear. induction est as [|row est IH]; cbn [map]; constructor; auto. apply nth_scale.
Qed.

Definition first2 (x : xval * xval * xval * xval) : xval * xval := (fst (fst (fst x)), snd (fst (fst x))).

(* A projection that satisfies both hypotheses (commutes with scaling of the estimate, does not depend on the
   references at all), a one-sample problem and the factor 2: SDR and ISR of _bss_image_crit change from 1 to 1/9.
   So the C19 claim "SDR/.../ISR unchanged when an estimated source is multiplied by a non-zero constant" does not follow
   from linearity for bss_eval_images; the oracle confirms on the real API that it is false there (by the definition of
   the images criterion: SDR = |s_true|^2 / |estimate - s_true|^2). *)
Theorem images_sdr_isr_estimate_scale_refuted :
  exists (proj_img : list (list (list Q)) -> list (list Q) -> nat -> cmat) refs est c,
    ~ c == 0 /\
    (forall refs est flen c, meq (proj_img refs (iscale c est) flen) (mscale c (proj_img refs est flen))) /\
    (forall refs refs' est flen, proj_img refs' est flen = proj_img refs est flen) /\
    exists s sp i a s' sp' i' a',
      decomp_images proj_img refs est 0 1 = Ok (s, sp, i, a) /\
      decomp_images proj_img refs (iscale c est) 0 1 = Ok (s', sp', i', a') /\
      ~ xeqv (fst (first2 (image_crit s sp i a))) (fst (first2 (image_crit s' sp' i' a'))) /\
      ~ xeqv (snd (first2 (image_crit s sp i a))) (snd (first2 (image_crit s' sp' i' a'))).
Proof.
  exists proj_img_id, [[[1]]], [[2]], 2.
  split; [intros H; discriminate|]. split; [apply proj_img_id_scales|]. split; [reflexivity|].
  do 8 eexists. split; [reflexivity|]. split; [reflexivity|].
  split; vm_compute; intros H; discriminate.
Qed.

(* ... and when a REFERENCE is multiplied by a constant (projection unchanged): ISR goes from 1 to infinity, SDR too *)
Theorem images_sdr_isr_reference_scale_refuted :
  exists (proj_img : list (list (list Q)) -> list (list Q) -> nat -> cmat) refs refs' est,
    refs' = map (iscale 2) refs /\
    (forall refs est flen c, meq (proj_img refs (iscale c est) flen) (mscale c (proj_img refs est flen))) /\
    (forall refs refs' est flen, proj_img refs' est flen = proj_img refs est flen) /\
    exists s sp i a s' sp' i' a',
      decomp_images proj_img refs est 0 1 = Ok (s, sp, i, a) /\
      decomp_images proj_img refs' est 0 1 = Ok (s', sp', i', a') /\
      ~ xeqv (fst (first2 (image_crit s sp i a))) (fst (first2 (image_crit s' sp' i' a'))) /\
      ~ xeqv (snd (first2 (image_crit s sp i a))) (snd (first2 (image_crit s' sp' i' a'))).
Proof.
  exists proj_img_id, [[[1]]], [[[2]]], [[2]].
  split; [reflexivity|]. split; [apply proj_img_id_scales|]. split; [reflexivity|].
  do 8 eexists. split; [reflexivity|]. split; [reflexivity|].
  split; vm_compute; intros H; exact H.
Qed.

(* ------------------------------------------------------------------------------------------------------------ *)
(* validate                                                                                                      *)
(* ------------------------------------------------------------------------------------------------------------ *)
Lemma shape_eqb_eq a b : shape_eqb a b = true <-> a = b.
Proof.
  unfold shape_eqb. revert b; induction a as [|x a IH]; intros [|y b]; cbn [length combine forallb fst snd Nat.eqb andb].
  - split; auto.
  - split; discriminate.
  - split; discriminate.
  - specialize (IH b). destruct (Nat.eqb_spec x y) as [->|N]; cbn [andb].
    + rewrite IH. split; [intros ->; reflexivity | intros H; inversion H; reflexivity].
    + rewrite andb_false_r. split; [discriminate | intros H; inversion H; contradiction].
Qed.

(* the checks in the order of the code: a shape mismatch is reported before anything else, then the dimension count *)
Lemma validate_mismatch_first mx rs es a b : rs <> es -> validate_detail mx rs es a b = inl ShapeMismatch.
Proof.
  intros H. unfold validate_detail. destruct (shape_eqb rs es) eqn:E; [apply shape_eqb_eq in E; contradiction|reflexivity].
Qed.
Lemma validate_dims_second mx rs a b : (3 < length rs)%nat -> validate_detail mx rs rs a b = inl TooManyDims.
Proof.
  intros H. unfold validate_detail. rewrite (proj2 (shape_eqb_eq rs rs) eq_refl). cbn [negb].
  apply Nat.ltb_lt in H. rewrite H. reflexivity.
Qed.

(* what acceptance means *)
Theorem validate_ok_inv : forall mx rs es a b wr we,
  validate mx rs es a b = Ok (wr, we) ->
  rs = es /\ (length rs <= 3)%nat /\ (nth 0 rs 0 <= mx)%nat /\
  wr = (size_of rs =? 0)%nat /\ we = (size_of es =? 0)%nat /\
  (size_of rs <> 0%nat -> (2 <= length rs)%nat /\ a = false /\ b = false).
Proof.
  intros mx rs es a b wr we. unfold validate, validate_detail.
  destruct (shape_eqb rs es) eqn:E; cbn [negb]; [|discriminate]. apply shape_eqb_eq in E. subst es.
  destruct (3 <? length rs)%nat eqn:D; cbn [orb]; [discriminate|]. apply Nat.ltb_ge in D.
  destruct (size_of rs =? 0)%nat eqn:Z; cbn [negb andb].
  - destruct rs as [|r0 rs]; [discriminate|].
    destruct ((mx <? r0)%nat) eqn:M; cbn [orb]; [discriminate|]. apply Nat.ltb_ge in M.
    intros H; inversion H; subst. apply Nat.eqb_eq in Z. repeat split; auto; try lia. all: intros; lia.
  - destruct (length rs <? 2)%nat eqn:L2; [discriminate|]. apply Nat.ltb_ge in L2.
    destruct a; [discriminate|]. destruct b; [discriminate|].
    destruct rs as [|r0 rs]; [discriminate|].
    destruct ((mx <? r0)%nat) eqn:M; cbn [orb]; [discriminate|]. apply Nat.ltb_ge in M.
    intros H; inversion H; subst. repeat split; auto.
Qed.

(* every rejection is a ValueError, except AxisError for non-empty arrays with fewer than 2 dimensions *)
Lemma validate_raises mx rs es a b e : validate mx rs es a b = Raise e -> e = ValueError \/ e = OtherExn.
Proof. unfold validate. destruct (validate_detail mx rs es a b) as [[]|]; intros H; inversion H; auto. Qed.

Example validate_examples :
  validate_detail 100 [2; 5]%nat [2; 5]%nat false false = inr (false, false) /\
  validate_detail 100 [2; 5]%nat [2; 6]%nat true true = inl ShapeMismatch /\
  validate_detail 100 [2; 0]%nat [2; 0]%nat true true = inr (true, true) /\
  validate_detail 100 [101; 5]%nat [101; 5]%nat false false = inl TooManySources /\
  validate_detail 100 [101; 5]%nat [101; 5]%nat true false = inl SilentRef /\
  validate_detail 100 [2; 5]%nat [2; 5]%nat false true = inl SilentEst.
Proof. repeat split. Qed.

(* ------------------------------------------------------------------------------------------------------------ *)
(* the two framewise functions on signals                                                                        *)
(* ------------------------------------------------------------------------------------------------------------ *)
Section FramewiseOnSignals.
  Variable S : Type.
  Variable shape : S -> list nat.
  Variable silent : S -> bool.
  Variable slice : nat -> nat -> S -> S.
  Variable arity max_sources : nat.
  Variable f : S -> S -> bool -> res result.

  (* valid, non-empty input, hop > 0: nwin by the formula; < 2 windows -> global result with a trailing axis; otherwise
     column k is f on the slices [k*hop, k*hop + window) (which lie inside the signal) when neither side has a silent
     source there, and NaN in every one of the `arity` outputs otherwise. *)
  Theorem framewise_spec : forall ref est window hop cp w,
    validate max_sources (shape ref) (shape est) (silent ref) (silent est) = Ok w ->
    size_of (shape ref) <> 0%nat -> size_of (shape est) <> 0%nat -> (0 < hop)%nat ->
    let nsrc := nth 0 (shape ref) 0%nat in
    let nsampl := nth 1 (shape ref) 0%nat in
    let win := fun (x : S) k => slice (k * hop) (k * hop + window) x in
    let sil := fun k => silent (win ref k) || silent (win est k) in
    let out := framewise S shape silent slice arity max_sources f ref est window hop cp in
    exists nw,
      nwin_of nsampl window hop = Ok nw /\
      (nw * Z.of_nat hop <= Z.of_nat nsampl - Z.of_nat window + Z.of_nat hop < (nw + 1) * Z.of_nat hop)%Z /\
      (forall k, (Z.of_nat k < nw)%Z <-> (k * hop + window <= nsampl)%nat) /\
      ((nw < 2)%Z -> out = (r <- f ref est cp ;; Ok (expand_last r))) /\
      ((2 <= nw)%Z ->
       (forall k, (k < Z.to_nat nw)%nat -> sil k = false ->
                  exists r, f (win ref k) (win est k) cp = Ok r /\ shape_result arity nsrc r = true) ->
       exists tables,
         out = Ok tables /\ length tables = arity /\
         forall m, (m < arity)%nat ->
           length (nth m tables []) = nsrc /\
           forall s, (s < nsrc)%nat ->
             length (nth s (nth m tables []) []) = Z.to_nat nw /\
             forall k, (k < Z.to_nat nw)%nat ->
               nth k (nth s (nth m tables []) []) NaN =
               if sil k then NaN
               else match f (win ref k) (win est k) cp with Ok r => nth s (nth m r []) NaN | Raise _ => NaN end).
  Proof.
    intros ref est window hop cp w Hv E1 E2 Hh. cbn zeta.
    rewrite (framewise_nonempty S shape silent slice arity max_sources f ref est window hop cp w Hv E1 E2).
    apply framewise_plan_spec; auto.
  Qed.
End FramewiseOnSignals.

(* bss_eval_sources_framewise (4 outputs) and bss_eval_images_framewise (5 outputs) *)
Definition framewise_sources_spec := framewise_spec (list vec) shape2 silent2 (@slice_samples Q) 4.
Definition framewise_images_spec := framewise_spec (list (list vec)) shape3 silent3 (@slice_samples vec) 5.

(* all inputs, including empty ones and hop = 0: whatever is returned has the documented arity *)
Theorem framewise_arity_as_documented :
  (forall mx f ref est window hop cp t, (forall a b c r, f a b c = Ok r -> length r = 4%nat) ->
     framewise_sources mx f ref est window hop cp = Ok t -> length t = 4%nat) /\
  (forall mx f ref est window hop cp t, (forall a b c r, f a b c = Ok r -> length r = 5%nat) ->
     framewise_images mx f ref est window hop cp = Ok t -> length t = 5%nat) /\
  (* empty input, explicitly *)
  (forall mx f window hop cp, framewise_sources mx f [] [] window hop cp = Ok [[]; []; []; []]) /\
  (forall mx f window hop cp, framewise_images mx f [] [] window hop cp = Ok [[]; []; []; []; []]).
Proof.
  split; [exact framewise_sources_arity|]. split; [exact framewise_images_arity|]. split; reflexivity.
Qed.
