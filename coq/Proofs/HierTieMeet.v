(* The internals of mir_eval/hierarchy.py tied to the model by TRANSLATION, part 5: _meet.
   [meet_tie]: with _hierarchy_bounds, _round (scalar and array) = the model's and util.index_labels(labels)[0] = ANY list of codes
   of the length of `labels` in which two codes are equal exactly when the lower-cased labels are (hypotheses on [codes_of];
   satisfied by the model of Model/Intervals.v: HierTieClosed.codes_model_agree), for every labelled hierarchy (label lists of the length
   of their level - the model's domain), frame_size > 0 and a non-negative frame count (always true: HierTieClosed.frame_count_nonneg),
   the generated program returns the dense matrix of Model.Hierarchy.meet or raises what hier_bounds raises.
   np.equal.outer / np.triu / np.where are read on boolean matrices given by shape and entries ([VBMat]); the pairs np.where yields
   (row-major) are the model's agree_pairs ([meet_level_cells]); nested loops: [meet_inner_spec], [meet_outer_spec]. The nested loop
   target `level, (intervals, labels)` is read by the translator as `level, _unpacked_1` followed by `intervals, labels = _unpacked_1`. *)
From Coq Require Import String.
From Coq Require Import List Bool Arith ZArith QArith Lia Lqa.
From ME Require Import Model.Prelude Model.Events Model.Hierarchy Model.HierExp Gen.HierGen.
From ME Require Import Proofs.HierTie Proofs.HierTieCfr Proofs.HierTieGauc Proofs.HierTieLca.
Import ListNotations.
Local Open Scope nat_scope.

(* ================================================================= pure facts ================================= *)
Lemma list_prod_map {A B C D} (f : A -> C) (g : B -> D) a b :
  list_prod (map f a) (map g b) = map (fun p => (f (fst p), g (snd p))) (list_prod a b).
Proof.
  induction a as [|x a IH]; [reflexivity|]. cbn [map list_prod]. rewrite map_app, IH, !map_map. reflexivity.
Qed.
Lemma filter_map_comm {A B} (f : A -> B) (p : B -> bool) l : filter p (map f l) = map f (filter (fun x => p (f x)) l).
Proof. induction l as [|x l IH]; [reflexivity|]. cbn [map filter]. destruct (p (f x)); cbn [map]; rewrite IH; reflexivity. Qed.
Lemma filter_ext_in' {A} (p q : A -> bool) l : (forall x, In x l -> p x = q x) -> filter p l = filter q l.
Proof.
  induction l as [|x l IH]; intros H; [reflexivity|]. cbn [filter]. rewrite (H x (or_introl eq_refl)).
  rewrite IH; [reflexivity|]. intros y Hy. apply H. now right.
Qed.
Lemma combine_seq_nth_from {A} (l : list A) d : forall s,
  combine (seq s (length l)) l = map (fun i => (i, nth (i - s) l d)) (seq s (length l)).
Proof.
  induction l as [|x l IH]; intros s; [reflexivity|]. cbn [length seq combine map]. rewrite Nat.sub_diag. cbn [nth]. f_equal.
  rewrite IH. apply map_ext_in. intros i Hi. apply in_seq in Hi. replace (i - s) with (S (i - S s)) by lia. reflexivity.
Qed.
Lemma combine_seq_nth {A} (l : list A) d : combine (seq 0 (length l)) l = map (fun i => (i, nth i l d)) (seq 0 (length l)).
Proof. rewrite (combine_seq_nth_from l d 0). apply map_ext. intros i. rewrite Nat.sub_0_r. reflexivity. Qed.
Lemma fold_left_map {A B C} (f : A -> B -> A) (g : C -> B) l a : fold_left f (map g l) a = fold_left (fun a x => f a (g x)) l a.
Proof. revert a. induction l as [|x l IH]; intros a; [reflexivity|]. cbn [map fold_left]. apply IH. Qed.
Lemma in_true_cells r c g i j : In (i, j) (true_cells r c g) -> i < r /\ j < c.
Proof. unfold true_cells. intros H. apply filter_In in H. destruct H as [H _]. apply in_prod_iff in H. rewrite !in_seq in H. lia. Qed.

(* one pair (i, j) of agreeing segments: the two block assignments *)
Definition mstep (n level : nat) (segs : list seg) (d : seg) (M : mat) (ij : nat * nat) : mat :=
  let sa := nth (fst ij) segs d in let sb := nth (snd ij) segs d in
  let M1 := Hierarchy.assign_slices n M (seg_iv sa) (seg_iv sb) level in
  if fst ij =? snd ij then M1 else Hierarchy.assign_slices n M1 (seg_iv sb) (seg_iv sa) level.
(* the index pairs the program visits, given label codes that agree exactly on equal lower-cased labels *)
Definition agree_cells (codes : list nat) (k : nat) : list (nat * nat) :=
  true_cells k k (fun i j => (i <=? j) && (nth i codes 0 =? nth j codes 0)).
Lemma meet_level_cells n level M (segs : list seg) d codes :
  (forall i j, i < length segs -> j < length segs ->
     (nth i codes 0 =? nth j codes 0) = lab_agree (nth i segs d) (nth j segs d)) ->
  meet_level n level M segs = fold_left (mstep n level segs d) (agree_cells codes (length segs)) M.
Proof.
  intros Hc. unfold meet_level, agree_pairs. rewrite (combine_seq_nth segs d), list_prod_map, filter_map_comm, fold_left_map. cbn [fst snd].
  unfold agree_cells, true_cells.
  rewrite (filter_ext_in' _ (fun ij => (fst ij <=? snd ij) && (nth (fst ij) codes 0 =? nth (snd ij) codes 0))).
  2:{ intros [i j] Hij. apply in_prod_iff in Hij. rewrite !in_seq in Hij. cbn [fst snd]. rewrite Hc by lia. reflexivity. }
  set (P := filter _ _). clearbody P. revert M. induction P as [|[i j] P IH]; intros M; [reflexivity|].
  cbn [fold_left]. rewrite IH. reflexivity.
Qed.

Definition dseg : seg := ((0, 0)%Z, []).
Definition frow (s : seg) : list Z := [fst (seg_iv s); snd (seg_iv s)].
Lemma assign_slices_eq2 n M (rows cols : Z * Z) v :
  Hierarchy.assign_slices n M rows cols v
  = assign_block M (norm_bound n (fst rows)) (norm_bound n (snd rows)) (norm_bound n (fst cols)) (norm_bound n (snd cols)) v.
Proof. reflexivity. Qed.
Lemma mstep_shape n level segs d M ij : length M = n -> snd (mshape M) = n ->
  length (mstep n level segs d M ij) = n /\ snd (mshape (mstep n level segs d M ij)) = n.
Proof.
  intros HM HC. unfold mstep. cbv zeta. destruct (fst ij =? snd ij); rewrite !assign_slices_eq2, ?assign_block_length, ?assign_block_cols; auto.
Qed.
Lemma fold_mstep_shape n level segs d P : forall M, length M = n -> snd (mshape M) = n ->
  length (fold_left (mstep n level segs d) P M) = n /\ snd (mshape (fold_left (mstep n level segs d) P M)) = n.
Proof.
  induction P as [|ij P IH]; intros M HM HC; [auto|]. cbn [fold_left]. destruct (mstep_shape n level segs d M ij HM HC). apply IH; assumption.
Qed.
Lemma nth_map_lt {A B} (f : A -> B) l i e d : i < length l -> nth i (map f l) e = f (nth i l d).
Proof. intros H. rewrite (nth_indep (map f l) e (f d)) by (rewrite map_length; exact H). apply map_nth. Qed.
Lemma as_nvec_zn c : as_nvec (VList (map zn c)) = Some c.
Proof.
  unfold as_nvec. induction c as [|x c IH]; [reflexivity|]. cbn [map omap zn]. rewrite zltb_nat0, Nat2Z.id, IH. reflexivity.
Qed.
Lemma transpose2 {T} (f1 f2 : T -> pv) l : transpose_min [map f1 l; map f2 l] = map (fun t => [f1 t; f2 t]) l.
Proof. induction l as [|x l IH]; [reflexivity|]. cbn [map transpose_min combine] in *. rewrite IH. reflexivity. Qed.

(* ================================================================= the program ================================= *)
Local Arguments builtin argsort f args kws : simpl nomatch.
Local Arguments read_loc x en : simpl nomatch.
Local Arguments bin_op op a b : simpl nomatch.
Local Arguments num_op op a b : simpl nomatch.
Local Arguments cmp_op op a b : simpl nomatch.
Local Arguments truth v : simpl nomatch.
Local Arguments get_item a i : simpl nomatch.
Local Arguments set_item a i v : simpl nomatch.
Local Arguments iter_elems v : simpl nomatch.
Local Arguments Z.of_nat : simpl never.
Local Arguments Z.to_nat : simpl never.
Local Arguments for_loop : simpl never.
Local Arguments for_step : simpl never.
Local Arguments Qdiv : simpl never.
Local Arguments Qminus : simpl never.
Local Arguments qeqb : simpl never.
Local Arguments qltb : simpl never.
Local Arguments inject_Z : simpl never.
Local Arguments zq : simpl never.
Local Arguments Z.add : simpl never.
Local Arguments Z.ltb : simpl never.
Local Arguments Z.leb : simpl never.
Local Arguments Z.eqb : simpl never.
Local Arguments norm_idx : simpl never.
Local Arguments norm_bound : simpl never.
Local Arguments py_slice : simpl never.
Local Arguments assign_block : simpl never.
Local Arguments mshape : simpl never.
Local Arguments hround : simpl never.
Local Arguments qtrunc : simpl never.
Local Arguments HierExp.qtrunc : simpl never.
Local Arguments enum_from : simpl never.
Local Arguments repeat : simpl never.
Local Arguments v_level : simpl never.
Local Arguments transpose_min : simpl never.
Local Arguments true_cells : simpl never.
Local Arguments as_nvec : simpl never.
Local Arguments mstep : simpl never.
Local Arguments levels_from : simpl never.
Local Arguments Nat.leb : simpl never.
Local Arguments Nat.eqb : simpl never.

Definition hier_sigs2 : list (string * option sigv) := sigs_of (fun_params hier_funs ++ hier_prims).
Local Arguments hier_sigs2 : simpl never.

Section Meet.
Variable argsort : list nat -> list nat.
Variable fuel : nat.
Variable ext : string -> list pv -> out pv.
Variable codes_of : list str -> list nat.          (* util.index_labels(labels)[0] *)
Variable dict_of : list str -> pv.                 (* util.index_labels(labels)[1] *)
Hypothesis Hbounds : forall H, ext "_hierarchy_bounds" [v_hier H] = lift_res v_pairQ (hier_bounds H).
Hypothesis Hround : forall t fs, (0 < fs)%Q -> ext "_round" [VFloat t; VFloat fs] = OK (VFloat (hround t fs)).
Hypothesis Hroundm : forall m fs, (0 < fs)%Q -> ext "_round" [VQMat m; VFloat fs] = OK (VQMat (map (map (fun t => hround t fs)) m)).
Hypothesis Hidx : forall labs, ext "util.index_labels" [VList (map VStr labs); VBool false]
                               = OK (VTup [VList (map zn (codes_of labs)); dict_of labs]).
Hypothesis Hcodes_len : forall labs, length (codes_of labs) = length labs.
Hypothesis Hcodes_agree : forall labs i j, i < length labs -> j < length labs ->
  (nth i (codes_of labs) 0 =? nth j (codes_of labs) 0) = seqb (hlower (nth i labs [])) (hlower (nth j labs [])).
Local Notation runx := (run_fun argsort fuel hier_sigs2 ext).
Local Notation execx := (exec argsort fuel hier_sigs2 ext).

Definition meet_fbody := f_body gen__meet.
Definition meet_names : list string := map fst (f_params gen__meet) ++ f_locals gen__meet.
Definition menv (vs : list pv) : env := combine meet_names vs.
Definition meet_outer_body : list stmt := match nth 4 meet_fbody SPass with SFor _ _ b => b | _ => [] end.
Definition meet_inner_it : exp := match nth 4 meet_outer_body SPass with SFor _ it _ => it | _ => ENone end.
Definition meet_inner_body : list stmt := match nth 4 meet_outer_body SPass with SFor _ _ b => b | _ => [] end.
Definition meet_outer_pre : list stmt := Eval cbv in firstn 4 meet_outer_body.
Definition meet_outer_folded : list stmt :=
  meet_outer_pre ++ [SFor ["seg_i"; "seg_j"]%string meet_inner_it meet_inner_body].
Lemma meet_outer_folded_eq : meet_outer_body = meet_outer_folded. Proof. reflexivity. Qed.
Definition meet_folded : list stmt :=
  firstn 4 meet_fbody ++ [SFor ["level"; "_unpacked_1"]%string
                            (EBuiltin "enumerate" [EBuiltin "zip" [ELoc "intervals_hier"; ELoc "labels_hier"] []; EInt 1] []) meet_outer_body;
                          nth 5 meet_fbody SPass].
Lemma meet_folded_eq : meet_fbody = meet_folded. Proof. reflexivity. Qed.
Lemma sig2_round : lookup_sig hier_sigs2 "_round" = Some [("t"%string, None); ("frame_size"%string, None)]. Proof. reflexivity. Qed.
Lemma sig2_bounds : lookup_sig hier_sigs2 "_hierarchy_bounds" = Some [("intervals_hier"%string, None)]. Proof. reflexivity. Qed.
Lemma sig2_idx : lookup_sig hier_sigs2 "util.index_labels" = Some [("labels"%string, None); ("case_sensitive"%string, Some (VBool false))].
Proof. reflexivity. Qed.
Local Arguments meet_inner_body : simpl never.
Local Arguments meet_inner_it : simpl never.
Local Arguments meet_outer_body : simpl never.
Lemma exec_for2 xs it body en :
  execx (SFor xs it body) en
  = lift_e (eval argsort hier_sigs2 ext en it) (fun v => lift_e (iter_elems v) (fun els =>
      for_loop (for_step (run_block execx) xs body) els en)).
Proof. reflexivity. Qed.
Lemma get_item_zmat rows i : i < length rows -> get_item (VZMat rows) (zn i) = OK (VList (map VInt (nth i rows []))).
Proof. intros H. unfold get_item, zn. rewrite norm_idx_nat by exact H. reflexivity. Qed.

Lemma meet_inner_spec a0 a1 a2 a3 a4 n lev a8 a9 a10 a11 (fsegs : list seg) a17 : forall P M v13 v14 v15 v16,
  length M = n -> snd (mshape M) = n -> (forall i j, In (i, j) P -> i < length fsegs /\ j < length fsegs) ->
  exists w13 w14 w15 w16,
    for_loop (for_step (run_block execx) ["seg_i"; "seg_j"]%string meet_inner_body) (map v_npair P)
      (menv [a0; a1; a2; a3; a4; zn n; VSp M; zn lev; a8; a9; a10; a11; VZMat (map frow fsegs); v13; v14; v15; v16; a17])
    = SNorm (menv [a0; a1; a2; a3; a4; zn n; VSp (fold_left (mstep n lev fsegs dseg) P M); zn lev; a8; a9; a10; a11;
                   VZMat (map frow fsegs); w13; w14; w15; w16; a17]).
Proof.
  induction P as [|[i j] P IH]; intros M v13 v14 v15 v16 HM HC HP.
  - exists v13, v14, v15, v16. reflexivity.
  - destruct (HP i j (or_introl eq_refl)) as [Hi Hj].
    destruct (mstep_shape n lev fsegs dseg M (i, j) HM HC) as [HM' HC'].
    cbn [map]. rewrite for_loop_cons. unfold for_step at 1. unfold meet_inner_body at 1. unfold meet_outer_body. cbn. unfold builtin. cbn.
    do 2 (rewrite get_item_zmat by (rewrite map_length; assumption); cbn;
          rewrite (nth_map_lt frow fsegs _ [] dseg) by assumption; cbn).
    rewrite set_item_sp, HM, HC. cbn. rewrite zeqb_nat.
    destruct (IH (mstep n lev fsegs dseg M (i, j)) (zn i) (zn j)
                 (VSlice (Some (fst (seg_iv (nth i fsegs dseg)))) (Some (snd (seg_iv (nth i fsegs dseg)))))
                 (VSlice (Some (fst (seg_iv (nth j fsegs dseg)))) (Some (snd (seg_iv (nth j fsegs dseg))))) HM' HC')
      as (w13 & w14 & w15 & w16 & E); [intros i' j' H'; apply HP; right; exact H'|].
    exists w13, w14, w15, w16. cbn [fold_left].
    assert (Hm : mstep n lev fsegs dseg M (i, j)
                 = let M1 := assign_block M (norm_bound n (fst (seg_iv (nth i fsegs dseg)))) (norm_bound n (snd (seg_iv (nth i fsegs dseg))))
                                           (norm_bound n (fst (seg_iv (nth j fsegs dseg)))) (norm_bound n (snd (seg_iv (nth j fsegs dseg)))) lev in
                   if i =? j then M1 else
                   assign_block M1 (norm_bound n (fst (seg_iv (nth j fsegs dseg)))) (norm_bound n (snd (seg_iv (nth j fsegs dseg))))
                                   (norm_bound n (fst (seg_iv (nth i fsegs dseg)))) (norm_bound n (snd (seg_iv (nth i fsegs dseg)))) lev).
    { unfold mstep. cbn [fst snd]. cbv zeta. destruct (i =? j); rewrite !assign_slices_eq2; reflexivity. }
    cbv zeta in Hm. destruct (i =? j) eqn:Eij; cbn.
    + rewrite <- Hm. exact E.
    + rewrite set_item_sp, assign_block_length, assign_block_cols, HM, HC. cbn. rewrite <- Hm. exact E.
Qed.
Definition v_labs1 (l : list str) : pv := VList (map VStr l).
Definition fsegs_of (fs : Q) (lvl : list (Q * Q * str)) : list seg := map (fun s => (frame_iv fs (fst s), snd s)) lvl.
Definition velem (lvl : list (Q * Q * str)) : pv := VTup [v_level (map fst lvl); v_labs1 (map snd lvl)].
Lemma meet_inner_it_eval en r c g : lookup "int_agree" en = Some (VBMat r c g) ->
  eval argsort hier_sigs2 ext en meet_inner_it = OK (VList (map v_npair (true_cells r c g))).
Proof.
  intros H. unfold meet_inner_it, meet_outer_body. cbn. unfold read_loc. rewrite H. cbn. unfold builtin. cbn.
  rewrite !map_map. rewrite (transpose2 (fun p => zn (fst p)) (fun p => zn (snd p))), map_map. reflexivity.
Qed.
Lemma frames_rows fs (lvl : list (Q * Q * str)) :
  map (map HierExp.qtrunc) (map (map (fun t => (t / fs)%Q)) (map (map (fun t => hround t fs)) (map (fun p : Q * Q => [fst p; snd p]) (map fst lvl))))
  = map frow (fsegs_of fs lvl).
Proof. unfold fsegs_of. rewrite !map_map. reflexivity. Qed.
Lemma codes_agree_segs fs lvl i j : i < length (fsegs_of fs lvl) -> j < length (fsegs_of fs lvl) ->
  (nth i (codes_of (map snd lvl)) 0 =? nth j (codes_of (map snd lvl)) 0) = lab_agree (nth i (fsegs_of fs lvl) dseg) (nth j (fsegs_of fs lvl) dseg).
Proof.
  intros Hi Hj. unfold fsegs_of in *. rewrite map_length in Hi, Hj. rewrite Hcodes_agree by (rewrite map_length; assumption).
  unfold lab_agree, seg_lab.
  rewrite !(nth_map_lt snd lvl _ [] ((0, 0)%Q, [])) by assumption.
  rewrite !(nth_map_lt (fun s : Q * Q * str => (frame_iv fs (fst s), snd s)) lvl _ dseg ((0, 0)%Q, [])) by assumption.
  reflexivity.
Qed.

Lemma levels_from_cons {X} (step : nat -> mat -> X -> mat) k M x H :
  levels_from step k M (x :: H) = levels_from step (S k) (step k M x) H.
Proof. reflexivity. Qed.
Lemma meet_outer_spec a0 a1 fs a3 a4 n : (0 < fs)%Q -> forall Ls k M v7 v8 v9 v10 v11 v12 v13 v14 v15 v16 v17,
  length M = n -> snd (mshape M) = n ->
  exists w7 w8 w9 w10 w11 w12 w13 w14 w15 w16 w17,
    for_loop (for_step (run_block execx) ["level"; "_unpacked_1"]%string meet_outer_body) (enum_from (Z.of_nat k) (map velem Ls))
      (menv [a0; a1; VFloat fs; a3; a4; zn n; VSp M; v7; v8; v9; v10; v11; v12; v13; v14; v15; v16; v17])
    = SNorm (menv [a0; a1; VFloat fs; a3; a4; zn n; VSp (levels_from (meet_level n) k M (map (fsegs_of fs) Ls));
                   w7; w8; w9; w10; w11; w12; w13; w14; w15; w16; w17]).
Proof.
  intros Hfs. induction Ls as [|lvl Ls IH]; intros k M v7 v8 v9 v10 v11 v12 v13 v14 v15 v16 v17 HM HC.
  - exists v7, v8, v9, v10, v11, v12, v13, v14, v15, v16, v17. reflexivity.
  - set (fsegs := fsegs_of fs lvl). set (codes := codes_of (map snd lvl)).
    set (g := fun i j => (i <=? j) && (nth i codes 0 =? nth j codes 0)).
    assert (Hk : length codes = length fsegs) by (unfold codes, fsegs, fsegs_of; rewrite Hcodes_len, !map_length; reflexivity).
    destruct (meet_inner_spec a0 a1 (VFloat fs) a3 a4 n k (v_level (map fst lvl)) (v_labs1 (map snd lvl)) (VList (map zn codes))
                (VBMat (length codes) (length codes) g) fsegs (velem lvl) (true_cells (length codes) (length codes) g) M v13 v14 v15 v16 HM HC)
      as (u13 & u14 & u15 & u16 & E).
    { intros i j Hij. apply in_true_cells in Hij. lia. }
    set (M' := fold_left (mstep n k fsegs dseg) (true_cells (length codes) (length codes) g) M) in *.
    destruct (fold_mstep_shape n k fsegs dseg (true_cells (length codes) (length codes) g) M HM HC) as [HM' HC'].
    destruct (IH (S k) M' (zn k) (v_level (map fst lvl)) (v_labs1 (map snd lvl)) (VList (map zn codes))
                 (VBMat (length codes) (length codes) g) (VZMat (map frow fsegs)) u13 u14 u15 u16 (velem lvl) HM' HC')
      as (w7 & w8 & w9 & w10 & w11 & w12 & w13 & w14 & w15 & w16 & w17 & E2).
    exists w7, w8, w9, w10, w11, w12, w13, w14, w15, w16, w17.
    assert (HML : meet_level n k M fsegs = M').
    { unfold M'. rewrite (meet_level_cells n k M fsegs dseg codes); [rewrite Hk; reflexivity|].
      intros i j Hi Hj. apply codes_agree_segs; assumption. }
    cbn [map]. rewrite levels_from_cons. fold fsegs. rewrite HML.
    rewrite enum_from_cons, for_loop_cons. unfold for_step at 1. cbn. rewrite meet_outer_folded_eq at 1. unfold meet_outer_folded, meet_outer_pre.
    cbn. unfold call. rewrite sig2_idx. cbn. unfold v_labs1 at 1. rewrite Hidx. cbn. rewrite get_item_tup0. cbn.
    unfold builtin. cbn. rewrite as_nvec_zn. cbn. rewrite sig2_round. unfold v_level. cbn. rewrite (Hroundm _ fs Hfs). cbn.
    unfold bin_op. rewrite (qeqb_pos fs Hfs). cbn. rewrite frames_rows. fold fsegs.
    erewrite meet_inner_it_eval by reflexivity. cbn [lift_e iter_elems].
    match goal with |- context [for_loop ?st (map v_npair ?els) ?en] => replace (for_loop st (map v_npair els) en) with
      (SNorm (menv [a0; a1; VFloat fs; a3; a4; zn n; VSp M'; zn k; v_level (map fst lvl); v_labs1 (map snd lvl); VList (map zn codes);
                    VBMat (length codes) (length codes) g; VZMat (map frow fsegs); u13; u14; u15; u16; velem lvl]))
      by (symmetry; exact E) end.
    cbn [menv]. rewrite zsucc_nat. exact E2.
Qed.
Definition v_labels (LL : list (list str)) : pv := VList (map v_labs1 LL).
Definition lh_labels (L : lhier) : list (list str) := map (map snd) L.

Theorem meet_tie : forall (L : lhier) (fs : Q), (0 < fs)%Q ->
  (forall b, hier_bounds (lh_intervals L) = Ok b -> (0 <= Hierarchy.qtrunc ((hround (snd b) fs - hround (fst b) fs) / fs))%Z) ->
  runx gen__meet [v_hier (lh_intervals L); v_labels (lh_labels L); VFloat fs] = lift_res VSp (meet L fs).
Proof.
  intros L fs Hfs Hn. unfold run_fun. cbn [length f_params gen__meet Nat.eqb].
  change (f_body _) with meet_fbody. rewrite meet_folded_eq. unfold exec_block, meet_folded.
  cbn. unfold builtin. cbn. unfold call. rewrite sig2_bounds. cbn. change (VList (map v_level (lh_intervals L))) with (v_hier (lh_intervals L)).
  rewrite Hbounds.
  unfold meet, n_frames. destruct (hier_bounds (lh_intervals L)) as [[a b]|e] eqn:EB; cbn; [|reflexivity].
  rewrite sig2_round. cbn. rewrite !Hround by exact Hfs. cbn. unfold num_op at 1. cbn. rewrite (qeqb_pos fs Hfs). cbn.
  specialize (Hn (a, b) eq_refl). cbn [fst snd] in Hn.
  set (z := HierExp.qtrunc ((hround b fs - hround a fs) / fs)) in *.
  change (Hierarchy.qtrunc ((hround b fs - hround a fs) / fs)) with z in *.
  replace (0 <=? z)%Z with true by (symmetry; apply Z.leb_le; exact Hn). cbn.
  set (n := Z.to_nat z). replace (VInt z) with (zn n) by (unfold zn, n; rewrite Z2Nat.id by exact Hn; reflexivity).
  unfold lh_intervals, lh_labels. rewrite !map_map.
  rewrite (transpose2 (fun lvl : list (Q * Q * str) => v_level (map fst lvl)) (fun lvl => v_labs1 (map snd lvl))), map_map.
  change 1%Z with (Z.of_nat 1).
  destruct (zeros_shape n) as [HM HC].
  destruct (meet_outer_spec (v_hier (lh_intervals L)) (v_labels (lh_labels L)) fs (VFloat a) (VFloat b) n Hfs L 1 (repeat (repeat 0 n) n)
              VUnbound VUnbound VUnbound VUnbound VUnbound VUnbound VUnbound VUnbound VUnbound VUnbound VUnbound HM HC)
    as (w7 & w8 & w9 & w10 & w11 & w12 & w13 & w14 & w15 & w16 & w17 & E).
  match goal with |- context [for_loop ?st ?els ?en] => replace (for_loop st els en) with
    (SNorm (menv [v_hier (lh_intervals L); v_labels (lh_labels L); VFloat fs; VFloat a; VFloat b; zn n;
                  VSp (levels_from (meet_level n) 1 (repeat (repeat 0 n) n) (map (fsegs_of fs) L));
                  w7; w8; w9; w10; w11; w12; w13; w14; w15; w16; w17]))
    by (symmetry; exact E) end.
  cbn. reflexivity.
Qed.
End Meet.

Check meet_tie.
Print Assumptions meet_tie.
