(* The internals of mir_eval/hierarchy.py tied to the model by TRANSLATION, part 5: _meet.  Header at the end. *)
From Coq Require Import String.
From Coq Require Import List Bool Arith ZArith QArith Lia Lqa.
From ME Require Import Model.Prelude Model.Events Model.Hierarchy Model.HierExp Gen.HierGen.
From ME Require Import Proofs.HierTie Proofs.HierTieCfr Proofs.HierTieGauc Proofs.HierTieLca.
Import ListNotations.
Local Open Scope nat_scope.

(* ================================================================= pure facts ================================= *)
Lemma list_prod_map {A B C D} (f : A -> C) (g : B -> D) a b :
  list_prod (map f a) (map g b) = map (fun p => (f (fst p), g (snd p))) (list_prod a b).
Proof.
  induction a as [|x a IH]; [reflexivity|]. cbn [map list_prod]. rewrite map_app, IH, !map_map. reflexivity.
Qed.
Lemma filter_map_comm {A B} (f : A -> B) (p : B -> bool) l : filter p (map f l) = map f (filter (fun x => p (f x)) l).
Proof. induction l as [|x l IH]; [reflexivity|]. cbn [map filter]. destruct (p (f x)); cbn [map]; rewrite IH; reflexivity. Qed.
Lemma filter_ext_in' {A} (p q : A -> bool) l : (forall x, In x l -> p x = q x) -> filter p l = filter q l.
Proof.
  induction l as [|x l IH]; intros H; [reflexivity|]. cbn [filter]. rewrite (H x (or_introl eq_refl)).
  rewrite IH; [reflexivity|]. intros y Hy. apply H. now right.
Qed.
Lemma combine_seq_nth_from {A} (l : list A) d : forall s,
  combine (seq s (length l)) l = map (fun i => (i, nth (i - s) l d)) (seq s (length l)).
Proof.
  induction l as [|x l IH]; intros s; [reflexivity|]. cbn [length seq combine map]. rewrite Nat.sub_diag. cbn [nth]. f_equal.
  rewrite IH. apply map_ext_in. intros i Hi. apply in_seq in Hi. replace (i - s) with (S (i - S s)) by lia. reflexivity.
Qed.
Lemma combine_seq_nth {A} (l : list A) d : combine (seq 0 (length l)) l = map (fun i => (i, nth i l d)) (seq 0 (length l)).
Proof. rewrite (combine_seq_nth_from l d 0). apply map_ext. intros i. rewrite Nat.sub_0_r. reflexivity. Qed.
Lemma fold_left_map {A B C} (f : A -> B -> A) (g : C -> B) l a : fold_left f (map g l) a = fold_left (fun a x => f a (g x)) l a.
Proof. revert a. induction l as [|x l IH]; intros a; [reflexivity|]. cbn [map fold_left]. apply IH. Qed.
Lemma in_true_cells r c g i j : In (i, j) (true_cells r c g) -> i < r /\ j < c.
Proof. unfold true_cells. intros H. apply filter_In in H. destruct H as [H _]. apply in_prod_iff in H. rewrite !in_seq in H. lia. Qed.

(* one pair (i, j) of agreeing segments: the two block assignments *)
Definition mstep (n level : nat) (segs : list seg) (d : seg) (M : mat) (ij : nat * nat) : mat :=
  let sa := nth (fst ij) segs d in let sb := nth (snd ij) segs d in
  let M1 := Hierarchy.assign_slices n M (seg_iv sa) (seg_iv sb) level in
  if fst ij =? snd ij then M1 else Hierarchy.assign_slices n M1 (seg_iv sb) (seg_iv sa) level.
(* the index pairs the program visits, given label codes that agree exactly on equal lower-cased labels *)
Definition agree_cells (codes : list nat) (k : nat) : list (nat * nat) :=
  true_cells k k (fun i j => (i <=? j) && (nth i codes 0 =? nth j codes 0)).
Lemma meet_level_cells n level M (segs : list seg) d codes :
  (forall i j, i < length segs -> j < length segs ->
     (nth i codes 0 =? nth j codes 0) = lab_agree (nth i segs d) (nth j segs d)) ->
  meet_level n level M segs = fold_left (mstep n level segs d) (agree_cells codes (length segs)) M.
Proof.
  intros Hc. unfold meet_level, agree_pairs. rewrite (combine_seq_nth segs d), list_prod_map, filter_map_comm, fold_left_map. cbn [fst snd].
  unfold agree_cells, true_cells.
  rewrite (filter_ext_in' _ (fun ij => (fst ij <=? snd ij) && (nth (fst ij) codes 0 =? nth (snd ij) codes 0))).
  2:{ intros [i j] Hij. apply in_prod_iff in Hij. rewrite !in_seq in Hij. cbn [fst snd]. rewrite Hc by lia. reflexivity. }
  set (P := filter _ _). clearbody P. revert M. induction P as [|[i j] P IH]; intros M; [reflexivity|].
  cbn [fold_left]. rewrite IH. reflexivity.
Qed.

Definition dseg : seg := ((0, 0)%Z, []).
Definition frow (s : seg) : list Z := [fst (seg_iv s); snd (seg_iv s)].
Lemma assign_slices_eq2 n M (rows cols : Z * Z) v :
  Hierarchy.assign_slices n M rows cols v
  = assign_block M (norm_bound n (fst rows)) (norm_bound n (snd rows)) (norm_bound n (fst cols)) (norm_bound n (snd cols)) v.
Proof. reflexivity. Qed.
Lemma mstep_shape n level segs d M ij : length M = n -> snd (mshape M) = n ->
  length (mstep n level segs d M ij) = n /\ snd (mshape (mstep n level segs d M ij)) = n.
Proof.
  intros HM HC. unfold mstep. cbv zeta. destruct (fst ij =? snd ij); rewrite !assign_slices_eq2, ?assign_block_length, ?assign_block_cols; auto.
Qed.
Lemma fold_mstep_shape n level segs d P : forall M, length M = n -> snd (mshape M) = n ->
  length (fold_left (mstep n level segs d) P M) = n /\ snd (mshape (fold_left (mstep n level segs d) P M)) = n.
Proof.
  induction P as [|ij P IH]; intros M HM HC; [auto|]. cbn [fold_left]. destruct (mstep_shape n level segs d M ij HM HC). apply IH; assumption.
Qed.
Lemma nth_map_lt {A B} (f : A -> B) l i e d : i < length l -> nth i (map f l) e = f (nth i l d).
Proof. intros H. rewrite (nth_indep (map f l) e (f d)) by (rewrite map_length; exact H). apply map_nth. Qed.
Lemma as_nvec_zn c : as_nvec (VList (map zn c)) = Some c.
Proof.
  unfold as_nvec. induction c as [|x c IH]; [reflexivity|]. cbn [map omap zn]. rewrite zltb_nat0, Nat2Z.id, IH. reflexivity.
Qed.
Lemma transpose2 {T} (f1 f2 : T -> pv) l : transpose_min [map f1 l; map f2 l] = map (fun t => [f1 t; f2 t]) l.
Proof. induction l as [|x l IH]; [reflexivity|]. cbn [map transpose_min combine] in *. rewrite IH. reflexivity. Qed.

(* ================================================================= the program ================================= *)
Local Arguments builtin argsort f args kws : simpl nomatch.
Local Arguments read_loc x en : simpl nomatch.
Local Arguments bin_op op a b : simpl nomatch.
Local Arguments num_op op a b : simpl nomatch.
Local Arguments cmp_op op a b : simpl nomatch.
Local Arguments truth v : simpl nomatch.
Local Arguments get_item a i : simpl nomatch.
Local Arguments set_item a i v : simpl nomatch.
Local Arguments iter_elems v : simpl nomatch.
Local Arguments Z.of_nat : simpl never.
Local Arguments Z.to_nat : simpl never.
Local Arguments for_loop : simpl never.
Local Arguments for_step : simpl never.
Local Arguments Qdiv : simpl never.
Local Arguments Qminus : simpl never.
Local Arguments qeqb : simpl never.
Local Arguments qltb : simpl never.
Local Arguments inject_Z : simpl never.
Local Arguments zq : simpl never.
Local Arguments Z.add : simpl never.
Local Arguments Z.ltb : simpl never.
Local Arguments Z.leb : simpl never.
Local Arguments Z.eqb : simpl never.
Local Arguments norm_idx : simpl never.
Local Arguments norm_bound : simpl never.
Local Arguments py_slice : simpl never.
Local Arguments assign_block : simpl never.
Local Arguments mshape : simpl never.
Local Arguments hround : simpl never.
Local Arguments qtrunc : simpl never.
Local Arguments HierExp.qtrunc : simpl never.
Local Arguments enum_from : simpl never.
Local Arguments repeat : simpl never.
Local Arguments v_level : simpl never.
Local Arguments transpose_min : simpl never.
Local Arguments true_cells : simpl never.
Local Arguments as_nvec : simpl never.
Local Arguments mstep : simpl never.
Local Arguments levels_from : simpl never.
Local Arguments Nat.leb : simpl never.
Local Arguments Nat.eqb : simpl never.

Definition hier_sigs2 : list (string * option sigv) := sigs_of (fun_params hier_funs ++ hier_prims).
Local Arguments hier_sigs2 : simpl never.

Section Meet.
Variable argsort : list nat -> list nat.
Variable fuel : nat.
Variable ext : string -> list pv -> out pv.
Variable codes_of : list str -> list nat.          (* util.index_labels(labels)[0] *)
Variable dict_of : list str -> pv.                 (* util.index_labels(labels)[1] *)
Hypothesis Hbounds : forall H, ext "_hierarchy_bounds" [v_hier H] = lift_res v_pairQ (hier_bounds H).
Hypothesis Hround : forall t fs, (0 < fs)%Q -> ext "_round" [VFloat t; VFloat fs] = OK (VFloat (hround t fs)).
Hypothesis Hroundm : forall m fs, (0 < fs)%Q -> ext "_round" [VQMat m; VFloat fs] = OK (VQMat (map (map (fun t => hround t fs)) m)).
Hypothesis Hidx : forall labs, ext "util.index_labels" [VList (map VStr labs); VBool false]
                               = OK (VTup [VList (map zn (codes_of labs)); dict_of labs]).
Hypothesis Hcodes_len : forall labs, length (codes_of labs) = length labs.
Hypothesis Hcodes_agree : forall labs i j, i < length labs -> j < length labs ->
  (nth i (codes_of labs) 0 =? nth j (codes_of labs) 0) = seqb (hlower (nth i labs [])) (hlower (nth j labs [])).
Local Notation runx := (run_fun argsort fuel hier_sigs2 ext).
Local Notation execx := (exec argsort fuel hier_sigs2 ext).

Definition meet_fbody := f_body gen__meet.
Definition meet_names : list string := map fst (f_params gen__meet) ++ f_locals gen__meet.
Definition menv (vs : list pv) : env := combine meet_names vs.
Definition meet_outer_body : list stmt := match nth 4 meet_fbody SPass with SFor _ _ b => b | _ => [] end.
Definition meet_inner_it : exp := match nth 5 meet_outer_body SPass with SFor _ it _ => it | _ => ENone end.
Definition meet_inner_body : list stmt := match nth 5 meet_outer_body SPass with SFor _ _ b => b | _ => [] end.
Definition meet_outer_folded : list stmt :=
  firstn 5 meet_outer_body ++ [SFor ["seg_i"; "seg_j"]%string meet_inner_it meet_inner_body].
Lemma meet_outer_folded_eq : meet_outer_body = meet_outer_folded. Proof. reflexivity. Qed.
Definition meet_folded : list stmt :=
  firstn 4 meet_fbody ++ [SFor ["level"; "_unpacked_1"]%string
                            (EBuiltin "enumerate" [EBuiltin "zip" [ELoc "intervals_hier"; ELoc "labels_hier"] []; EInt 1] []) meet_outer_body;
                          nth 5 meet_fbody SPass].
Lemma meet_folded_eq : meet_fbody = meet_folded. Proof. reflexivity. Qed.
Lemma sig2_round : lookup_sig hier_sigs2 "_round" = Some [("t"%string, None); ("frame_size"%string, None)]. Proof. reflexivity. Qed.
Lemma sig2_bounds : lookup_sig hier_sigs2 "_hierarchy_bounds" = Some [("intervals_hier"%string, None)]. Proof. reflexivity. Qed.
Lemma sig2_idx : lookup_sig hier_sigs2 "util.index_labels" = Some [("labels"%string, None); ("case_sensitive"%string, Some (VBool false))].
Proof. reflexivity. Qed.
Local Arguments meet_inner_body : simpl never.
Local Arguments meet_inner_it : simpl never.
Local Arguments meet_outer_body : simpl never.
Lemma exec_for2 xs it body en :
  execx (SFor xs it body) en
  = lift_e (eval argsort hier_sigs2 ext en it) (fun v => lift_e (iter_elems v) (fun els =>
      for_loop (for_step (run_block execx) xs body) els en)).
Proof. reflexivity. Qed.
Lemma get_item_zmat rows i : i < length rows -> get_item (VZMat rows) (zn i) = OK (VList (map VInt (nth i rows []))).
Proof. intros H. unfold get_item, zn. rewrite norm_idx_nat by exact H. reflexivity. Qed.

Lemma meet_inner_spec a0 a1 a2 a3 a4 n lev a8 a9 a10 a11 (fsegs : list seg) a17 : forall P M v13 v14 v15 v16,
  length M = n -> snd (mshape M) = n -> (forall i j, In (i, j) P -> i < length fsegs /\ j < length fsegs) ->
  exists w13 w14 w15 w16,
    for_loop (for_step (run_block execx) ["seg_i"; "seg_j"]%string meet_inner_body) (map v_npair P)
      (menv [a0; a1; a2; a3; a4; zn n; VSp M; zn lev; a8; a9; a10; a11; VZMat (map frow fsegs); v13; v14; v15; v16; a17])
    = SNorm (menv [a0; a1; a2; a3; a4; zn n; VSp (fold_left (mstep n lev fsegs dseg) P M); zn lev; a8; a9; a10; a11;
                   VZMat (map frow fsegs); w13; w14; w15; w16; a17]).
Proof.
  induction P as [|[i j] P IH]; intros M v13 v14 v15 v16 HM HC HP.
  - exists v13, v14, v15, v16. reflexivity.
  - destruct (HP i j (or_introl eq_refl)) as [Hi Hj].
    destruct (mstep_shape n lev fsegs dseg M (i, j) HM HC) as [HM' HC'].
    cbn [map]. rewrite for_loop_cons. unfold for_step at 1. unfold meet_inner_body at 1. unfold meet_outer_body. cbn. unfold builtin. cbn.
    rewrite !get_item_zmat by (rewrite map_length; assumption). cbn.
    rewrite !(nth_map_lt frow fsegs _ [] dseg) by assumption. cbn. rewrite set_item_sp, HM, HC. cbn. rewrite zeqb_nat.
    Show.
Abort.
End Meet.
