(* Vocabularies of the chord comparison rules (C11): which references a rule ignores. *)
From Coq Require Import ZArith List Bool Lia.
From ME Require Import Model.Prelude Model.ChordParse Model.ChordCmp Gen.ChordTables Proofs.ChordLattice.
Import ListNotations.
Open Scope Z_scope.

Theorem x_always_ignored c e : In c rules -> c (of_enc Xenc) e = -1.
Proof. unfold rules. simpl. intros H.
  repeat (destruct H as [<-|H]; [vm_compute; reflexivity || (unfold thirds, thirds_inv, triads, triads_inv, tetrads, tetrads_inv, root_cmp, mirex, majmin, majmin_inv, sevenths, sevenths_inv; cbv zeta; apply mask_m1; vm_compute; reflexivity)|]).
  destruct H. Qed.

Theorem majmin_ignored_iff r e : majmin r e = -1 <-> mm_in r = false.
Proof. unfold majmin. rewrite mask_m1. apply negb_true_iff. Qed.
Theorem sevenths_ignored_iff r e : sevenths r e = -1 <-> sv_in r = false.
Proof. unfold sevenths. rewrite mask_m1. apply negb_true_iff. Qed.
Theorem majmin_inv_ignored_iff r e : majmin_inv r e = -1 <-> mm_in r = false \/ bad_inv r = true.
Proof. unfold majmin_inv. rewrite mask_m1, orb_true_iff, negb_true_iff. tauto. Qed.
Theorem sevenths_inv_ignored_iff r e : sevenths_inv r e = -1 <-> sv_in r = false \/ bad_inv r = true.
Proof. unfold sevenths_inv. rewrite mask_m1, orb_true_iff, negb_true_iff. tauto. Qed.
Theorem plain_rules_ignore_only_X r e :
  (thirds r e = -1 <-> isX r = true) /\ (triads r e = -1 <-> isX r = true) /\ (tetrads r e = -1 <-> isX r = true) /\
  (root_cmp r e = -1 <-> isX r = true) /\ (thirds_inv r e = -1 <-> isX r = true) /\ (triads_inv r e = -1 <-> isX r = true) /\
  (tetrads_inv r e = -1 <-> isX r = true).
Proof. unfold thirds, triads, tetrads, root_cmp, thirds_inv, triads_inv, tetrads_inv. rewrite !mask_m1. tauto. Qed.

Lemma forallb_zero l : forallb (fun x => x =? 0) l = true <-> Forall (fun x => x = 0) l.
Proof. rewrite forallb_forall, Forall_forall. split; intros H x Hx; [apply Z.eqb_eq|apply Z.eqb_eq]; auto. Qed.

(* majmin keeps maj, min and N references; sevenths keeps those plus 7, maj7, min7 (whole bitmap) *)
Theorem majmin_vocabulary r : mm_in r = true <->
  firstn 8 (bm r) = [1;0;0;0;1;0;0;1] \/ firstn 8 (bm r) = [1;0;0;1;0;0;0;1] \/ (root r < 0 /\ Forall (fun x => x = 0) (bm r)).
Proof. destruct quals_rows as (E1 & E2 & _). unfold mm_in. rewrite E1, E2, !orb_true_iff, andb_true_iff, !leqb_eq, Z.ltb_lt, forallb_zero. tauto. Qed.
Theorem sevenths_vocabulary r : sv_in r = true <->
  In (bm r) [ [1;0;0;0;1;0;0;1;0;0;0;0]; [1;0;0;1;0;0;0;1;0;0;0;0]; [1;0;0;0;1;0;0;1;0;0;0;1];
              [1;0;0;0;1;0;0;1;0;0;1;0]; [1;0;0;1;0;0;0;1;0;0;1;0]; [0;0;0;0;0;0;0;0;0;0;0;0] ].
Proof. destruct quals_rows as (_ & _ & E3 & E4 & E5 & E6 & E7 & E8). unfold sv_in. rewrite E3, E4, E5, E6, E7, E8.
  cbn [existsb In]. rewrite !orb_true_iff, !leqb_eq. intuition congruence. Qed.
(* the *_inv variants additionally require the reference bass to be a chord tone *)
Theorem inv_bass_is_chord_tone r : bad_inv r = false <-> (bass r < 0 \/ nthz (bm r) (Z.to_nat (bass r)) <> 0).
Proof. unfold bad_inv. rewrite andb_false_iff, Z.leb_gt, Z.eqb_neq. tauto. Qed.
