(* The wrapper metric functions translated from the source (Gen/WrapFuncs.v, translator/wrapfuncs.py; meaning:
   Model/WrapExp.v) compute the hand-written models when every function they call is instantiated by the model's
   own function ([model_ext]): the validators, the matchers, util.f_measure, average_overlap_ratio,
   intervals_to_boundaries, and the velocity filter that follows the call of transcription.match_notes in
   transcription_velocity.match_notes. What is proved is the glue: which argument reaches which parameter of which
   callee (Python's binding against the signatures in [callee_sigs], which are read from the source in the same
   run and checked below), the order of the calls, the empty-input returns, the divisions, the order of the
   returned values. The proofs use nothing of the generated text except the names gen_X and callee_sigs. *)
From Coq Require Import String.
From Coq Require Import List Bool Arith ZArith QArith Lia.
From ME Require Import Model.Prelude Model.WrapExp.
From ME Require Model.Events Model.EventMetrics Model.Transcription Model.Multipitch.
From ME Require Import Gen.WrapFuncs.
Import ListNotations.
Open Scope Q_scope.

(* ---------- results ---------- *)
Definition xeq (a b : xval) : Prop :=
  match a, b with Fin x, Fin y => x == y | PInf, PInf | NInf, NInf | NaN, NaN => True | _, _ => False end.
Definition v_x (v : wval) : option xval :=
  match v with WZ z => Some (Fin (inject_Z z)) | WQ q => Some (Fin q) | WX x => Some x | _ => None end.
Definition weq (a b : wval) : Prop :=
  match v_x a, v_x b with Some x, Some y => xeq x y | None, None => a = b | _, _ => False end.
Definition wout_eq (a b : wout (list wval)) : Prop :=
  match a, b with
  | WOK l, WOK m => Forall2 weq l m | WEXN e, WEXN f => e = f | WFUEL, WFUEL => True | _, _ => False end.

(* ---------- the callees, instantiated by the models' own functions ---------- *)
Definition of_oq (o : option Q) : wval := match o with Some q => WQ q | None => WNone end.
Definition to_oq (v : wval) : option (option Q) := match v with WNone => Some None | WQ q => Some (Some q) | _ => None end.
Definition lift_u (r : res unit) : wout wval := match r with Ok _ => WOK WNone | Raise e => WEXN e end.
Definition lift_m (r : res (option (list (nat * nat)))) : wout wval :=
  match r with Ok (Some m) => WOK (WM m) | Ok None => WFUEL | Raise e => WEXN e end.
Definition validate_events2 (r e : list Q) : res unit :=
  _ <- EventMetrics.validate_events EventMetrics.MAX_TIME r ;; EventMetrics.validate_events EventMetrics.MAX_TIME e.
Definition model_ext (f : extfn) (vs : list wval) : wout wval :=
  match f, vs with
  | X_tr_validate, [WIvs a; WPs b; WIvs c; WPs d] => lift_u (Transcription.validate a b c d)
  | X_tr_validate_intervals, [WIvs a; WIvs b] => lift_u (Transcription.validate_intervals2 a b)
  | X_tr_match_notes, [WIvs ri; WPs rp; WIvs ei; WPs ep; WQ ot; WQ pt; r; WQ mt; WB s] =>
      match to_oq r with
      | Some ratio => lift_m (Transcription.match_notes (Transcription.zip_notes ri rp) (Transcription.zip_notes ei ep) ot pt ratio mt s)
      | None => WUNM end
  | X_tr_match_note_onsets, [WIvs r; WIvs e; WQ t; WB s] => lift_m (Transcription.match_note_onsets r e t s)
  | X_tr_match_note_offsets, [WIvs r; WIvs e; WQ ratio; WQ mt; WB s] => lift_m (Transcription.match_note_offsets r e ratio mt s)
  | X_tr_average_overlap_ratio, [WIvs r; WIvs e; WM m] =>
      match Transcription.average_overlap_ratio r e m with Ok x => WOK (WX x) | Raise x => WEXN x end
  | X_tv_validate, [WIvs a; WPs b; WQs v; WIvs c; WPs d; WQs w] => lift_u (Transcription.vel_validate a b v c d w)
  | X_tv_match_notes, [WIvs ri; WPs rp; WQs rv; WIvs ei; WPs ep; WQs ev; WQ ot; WQ pt; r; WQ mt; WB s; WQ vt] =>
      match to_oq r with
      | Some ratio => lift_m (Transcription.vel_match_notes (Transcription.zip_notes ri rp) rv (Transcription.zip_notes ei ep) ev ot pt ratio mt s vt)
      | None => WUNM end
  | X_tv_match_notes_tail, [WQs rv; WQs ev; WQ vt; WM m] =>
      match Transcription.vel_filter rv ev vt m with Ok m' => WOK (WM m') | Raise x => WEXN x end
  | X_util_f_measure, [WQ p; WQ r; WQ b] => WOK (WQ (Events.f_measure p r b))
  | X_util_match_events, [WQs r; WQs e; WQ w; WNone] =>
      match Events.match_events r e w with Some m => WOK (WM m) | None => WFUEL end
  | X_util_intervals_to_boundaries, [WIvs l; WZ 5%Z] => WOK (WQs (EventMetrics.intervals_to_boundaries l))
  | X_onset_validate, [WQs r; WQs e] => lift_u (validate_events2 r e)
  | X_beat_validate, [WQs r; WQs e] => lift_u (validate_events2 r e)
  | X_segment_validate_boundary, [WIvs r; WIvs e; WB _] => lift_u (EventMetrics.validate_boundary r e)
  | X_mp_compute_accuracy, [WZs tp; WZs nr; WZs ne] =>
      let '(p, r, a) := Multipitch.compute_accuracy tp nr ne in WOK (WTup [WQ p; WQ r; WQ a])
  | X_mp_compute_err_score, [WZs tp; WZs nr; WZs ne] =>
      let '(s, m, f, t) := Multipitch.compute_err_score tp nr ne in WOK (WTup [WQ s; WQ m; WQ f; WQ t])
  | _, _ => WUNM
  end.

Definition lift4 (r : res (option (Q * Q * Q * xval))) : wout (list wval) :=
  match r with Ok (Some (p, r, f, a)) => WOK [WQ p; WQ r; WQ f; WX a] | Ok None => WFUEL | Raise e => WEXN e end.
Definition lift3 (r : res (option (Q * Q * Q))) : wout (list wval) :=
  match r with Ok (Some (p, r, f)) => WOK [WQ p; WQ r; WQ f] | Ok None => WFUEL | Raise e => WEXN e end.

Ltac ev_cbv :=
  cbv [run_tree ev ev_list chk wbind ebind ebind2 pure_only ret nth_error app
       w_len w_size w_float w_div w_cmp w_trim w_truth as_q model_ext to_oq of_oq lift_u lift_m].
Ltac start g :=
  unfold wrun;
  (let t := eval vm_compute in (wp_tree callee_sigs g) in change (wp_tree callee_sigs g) with t);
  ev_cbv.

Lemma len0z {A} (l : list A) : (Z.of_nat (length l) =? 0)%Z = (length l =? 0)%nat.
Proof. destruct l; reflexivity. Qed.
Lemma qlen0 {A} (l : list A) : qeqb (inject_Z (Z.of_nat (length l))) 0 = (length l =? 0)%nat.
Proof. destruct l; [reflexivity|]. cbn [length Nat.eqb]. unfold qeqb. destruct (Qeq_bool _ _) eqn:E; [|reflexivity].
  apply Qeq_bool_iff in E. unfold Qeq, inject_Z in E. cbn [Qnum Qden] in E. lia. Qed.
Lemma xeq_refl x : xeq x x. Proof. destruct x; cbn; auto. reflexivity. Qed.
Lemma weq_refl v : weq v v. Proof. unfold weq. destruct (v_x v); [apply xeq_refl|reflexivity]. Qed.
Ltac atom_of c :=
  lazymatch c with
  | match ?a with _ => _ end => atom_of a
  | lift4 ?a => atom_of a
  | lift3 ?a => atom_of a
  | bind ?a _ => atom_of a
  | Transcription.obind ?a _ => atom_of a
  | option_map _ ?a => atom_of a
  | (?a || _)%bool => atom_of a
  | (?a && _)%bool => atom_of a
  | negb ?a => atom_of a
  | _ => c
  end.
Ltac split_atom :=
  match goal with
  | |- context [match ?c with _ => _ end] => let a := atom_of c in destruct a eqn:?
  end.
Ltac simp := cbv beta iota; cbn [bind lift4 lift3 wout_eq option_map Transcription.obind negb andb orb].
Ltac leaf :=
  lazymatch goal with
  | |- Forall2 _ _ _ => repeat (apply Forall2_cons; [first [apply weq_refl | cbv [weq v_x xeq]; first [reflexivity | exact I]] |]); apply Forall2_nil
  | |- @eq exn _ _ => reflexivity
  | |- True => exact I
  end.
Ltac norm := unfold Transcription.pitch, Transcription.ivl, Transcription.note in *; rewrite ?len0z, ?qlen0.
Ltac finish := repeat (split_atom; simp); leaf.


(* the callees have the parameters [model_ext] assumes, in this order *)
Theorem callee_sigs_expected :
  map (fun s => (fst s, map fst (snd s))) callee_sigs =
  [("transcription.validate", ["ref_intervals"; "ref_pitches"; "est_intervals"; "est_pitches"]);
   ("transcription.validate_intervals", ["ref_intervals"; "est_intervals"]);
   ("transcription.match_notes", ["ref_intervals"; "ref_pitches"; "est_intervals"; "est_pitches"; "onset_tolerance";
                                  "pitch_tolerance"; "offset_ratio"; "offset_min_tolerance"; "strict"]);
   ("transcription.match_note_onsets", ["ref_intervals"; "est_intervals"; "onset_tolerance"; "strict"]);
   ("transcription.match_note_offsets", ["ref_intervals"; "est_intervals"; "offset_ratio"; "offset_min_tolerance"; "strict"]);
   ("transcription.average_overlap_ratio", ["ref_intervals"; "est_intervals"; "matching"]);
   ("transcription_velocity.validate", ["ref_intervals"; "ref_pitches"; "ref_velocities"; "est_intervals"; "est_pitches"; "est_velocities"]);
   ("transcription_velocity.match_notes", ["ref_intervals"; "ref_pitches"; "ref_velocities"; "est_intervals"; "est_pitches";
                                           "est_velocities"; "onset_tolerance"; "pitch_tolerance"; "offset_ratio";
                                           "offset_min_tolerance"; "strict"; "velocity_tolerance"]);
   ("util.f_measure", ["precision"; "recall"; "beta"]);
   ("util.match_events", ["ref"; "est"; "window"; "distance"]);
   ("util.intervals_to_boundaries", ["intervals"; "q"]);
   ("onset.validate", ["reference_onsets"; "estimated_onsets"]);
   ("beat.validate", ["reference_beats"; "estimated_beats"]);
   ("segment.validate_boundary", ["reference_intervals"; "estimated_intervals"; "trim"]);
   ("multipitch.compute_accuracy", ["true_positives"; "n_ref"; "n_est"]);
   ("multipitch.compute_err_score", ["true_positives"; "n_ref"; "n_est"]);
   ("transcription_velocity.match_notes#tail", ["ref_velocities"; "est_velocities"; "velocity_tolerance"; "matching"])]%string.
Proof. vm_compute. reflexivity. Qed.

(* ---------- transcription ---------- *)
Theorem tr_precision_recall_f1_overlap_tie : forall ri rp ei ep otol ptol ratio mintol strict beta,
  wout_eq (wrun callee_sigs gen_tr_precision_recall_f1_overlap model_ext
             [WIvs ri; WPs rp; WIvs ei; WPs ep; WQ otol; WQ ptol; of_oq ratio; WQ mintol; WB strict; WQ beta])
          (lift4 (Transcription.precision_recall_f1_overlap ri rp ei ep otol ptol ratio mintol strict beta)).
Proof.
  intros. unfold Transcription.precision_recall_f1_overlap, Transcription.prf_of, Transcription.nQ.
  destruct ratio as [ratio|]; start gen_tr_precision_recall_f1_overlap; norm; finish.
Qed.
Theorem tr_onset_precision_recall_f1_tie : forall r e tol strict beta,
  wout_eq (wrun callee_sigs gen_tr_onset_precision_recall_f1 model_ext [WIvs r; WIvs e; WQ tol; WB strict; WQ beta])
          (lift3 (Transcription.onset_precision_recall_f1 r e tol strict beta)).
Proof.
  intros. unfold Transcription.onset_precision_recall_f1, Transcription.prf_of, Transcription.nQ.
  start gen_tr_onset_precision_recall_f1; norm; finish.
Qed.
Theorem tr_offset_precision_recall_f1_tie : forall r e ratio mintol strict beta,
  wout_eq (wrun callee_sigs gen_tr_offset_precision_recall_f1 model_ext [WIvs r; WIvs e; WQ ratio; WQ mintol; WB strict; WQ beta])
          (lift3 (Transcription.offset_precision_recall_f1 r e ratio mintol strict beta)).
Proof.
  intros. unfold Transcription.offset_precision_recall_f1, Transcription.prf_of, Transcription.nQ.
  start gen_tr_offset_precision_recall_f1; norm; finish.
Qed.

(* ---------- transcription_velocity ---------- *)
Definition lift_ms (r : res (option (list (nat * nat)))) : wout (list wval) :=
  match r with Ok (Some m) => WOK [WM m] | Ok None => WFUEL | Raise e => WEXN e end.
Theorem tv_match_notes_tie : forall ri rp rv ei ep ev otol ptol ratio mintol strict vtol,
  wout_eq (wrun callee_sigs gen_tv_match_notes model_ext
             [WIvs ri; WPs rp; WQs rv; WIvs ei; WPs ep; WQs ev; WQ otol; WQ ptol; of_oq ratio; WQ mintol; WB strict; WQ vtol])
          (lift_ms (Transcription.vel_match_notes (Transcription.zip_notes ri rp) rv (Transcription.zip_notes ei ep) ev
                      otol ptol ratio mintol strict vtol)).
Proof.
  intros. unfold Transcription.vel_match_notes, lift_ms.
  destruct ratio as [ratio|]; start gen_tv_match_notes; norm; finish.
Qed.
Theorem tv_precision_recall_f1_overlap_tie : forall ri rp rv ei ep ev otol ptol ratio mintol strict vtol beta,
  wout_eq (wrun callee_sigs gen_tv_precision_recall_f1_overlap model_ext
             [WIvs ri; WPs rp; WQs rv; WIvs ei; WPs ep; WQs ev; WQ otol; WQ ptol; of_oq ratio; WQ mintol; WB strict; WQ vtol; WQ beta])
          (lift4 (Transcription.vel_precision_recall_f1_overlap ri rp rv ei ep ev otol ptol ratio mintol strict vtol beta)).
Proof.
  intros. unfold Transcription.vel_precision_recall_f1_overlap, Transcription.prf_of, Transcription.nQ.
  destruct ratio as [ratio|]; start gen_tv_precision_recall_f1_overlap; norm; finish.
Qed.

(* ---------- onset, beat, segment ---------- *)
Definition lift_fpr (r : res (option (Q * Q * Q))) : wout (list wval) := lift3 r.
Definition lift1 (r : res (option Q)) : wout (list wval) :=
  match r with Ok (Some f) => WOK [WQ f] | Ok None => WFUEL | Raise e => WEXN e end.
Lemma is_empty0 {A} (l : list A) : EventMetrics.is_empty l = (length l =? 0)%nat. Proof. destruct l; reflexivity. Qed.
Ltac em_unfold :=
  unfold EventMetrics.onset_f_measure_v, EventMetrics.onset_f_measure, EventMetrics.beat_f_measure_v, EventMetrics.beat_f_measure,
         EventMetrics.detection, EventMetrics.detection_b, EventMetrics.nhits, EventMetrics.prf, EventMetrics.qnat,
         validate_events2, lift1, lift_fpr;
  rewrite ?is_empty0.
Theorem onset_f_measure_tie : forall r e w,
  wout_eq (wrun callee_sigs gen_onset_f_measure model_ext [WQs r; WQs e; WQ w])
          (lift_fpr (EventMetrics.onset_f_measure_v r e w)).
Proof. intros. start gen_onset_f_measure. em_unfold. norm. finish. Qed.
Theorem beat_f_measure_tie : forall r e w,
  wout_eq (wrun callee_sigs gen_beat_f_measure model_ext [WQs r; WQs e; WQ w])
          (lift1 (EventMetrics.beat_f_measure_v r e w)).
Proof. intros. start gen_beat_f_measure. em_unfold. norm. finish. Qed.
Theorem segment_detection_tie : forall r e w beta trim,
  wout_eq (wrun callee_sigs gen_segment_detection model_ext [WIvs r; WIvs e; WQ w; WQ beta; WB trim])
          (lift3 (EventMetrics.detection r e w beta trim)).
Proof. intros. start gen_segment_detection. em_unfold. unfold EventMetrics.trimmed, EventMetrics.trim_ends. norm. finish. Qed.

(* ---------- multipitch.metrics: the final assembly ---------- *)
(* the suffix of the body from the first call of compute_accuracy reads exactly these variables of the part before it *)
Theorem mp_metrics_assembly_params :
  wp_params gen_mp_metrics_assembly = ["n_ref"; "n_est"; "true_positives"; "true_positives_chroma"]%string.
Proof. vm_compute. reflexivity. Qed.
Theorem mp_metrics_assembly_tie : forall tp nr ne tpc : list Z,
  wout_eq (wrun callee_sigs gen_mp_metrics_assembly model_ext [WZs nr; WZs ne; WZs tp; WZs tpc])
          (let '(p, r, a) := Multipitch.compute_accuracy tp nr ne in
           let '(s, m, f, t) := Multipitch.compute_err_score tp nr ne in
           let '(pc, rc, ac) := Multipitch.compute_accuracy tpc nr ne in
           let '(sc, mc, fc, tc) := Multipitch.compute_err_score tpc nr ne in
           WOK (map WQ [p; r; a; s; m; f; t; pc; rc; ac; sc; mc; fc; tc])).
Proof.
  intros. start gen_mp_metrics_assembly.
  destruct (Multipitch.compute_accuracy tp nr ne) as [[p r] a].
  destruct (Multipitch.compute_err_score tp nr ne) as [[[s m] f] t].
  destruct (Multipitch.compute_accuracy tpc nr ne) as [[pc rc] ac].
  destruct (Multipitch.compute_err_score tpc nr ne) as [[[sc mc] fc] tc].
  simp. cbn [length Nat.eqb app nth_error map]. simp. leaf.
Qed.
(* the 14 numbers Model.Multipitch.metrics returns for the same count vectors *)
Corollary mp_metrics_assembly_scores : forall tp nr ne tpc : list nat,
  wout_eq (wrun callee_sigs gen_mp_metrics_assembly model_ext
             [WZs (map Z.of_nat nr); WZs (map Z.of_nat ne); WZs (map Z.of_nat tp); WZs (map Z.of_nat tpc)])
          (WOK (map WQ (Multipitch.scores_list (Multipitch.scores_of tp nr ne) ++ Multipitch.scores_list (Multipitch.scores_of tpc nr ne)))).
Proof.
  intros. pose proof (mp_metrics_assembly_tie (map Z.of_nat tp) (map Z.of_nat nr) (map Z.of_nat ne) (map Z.of_nat tpc)) as H.
  unfold Multipitch.scores_of, Multipitch.scores_list.
  destruct (Multipitch.compute_accuracy (map Z.of_nat tp) _ _) as [[p r] a].
  destruct (Multipitch.compute_err_score (map Z.of_nat tp) _ _) as [[[s m] f] t].
  destruct (Multipitch.compute_accuracy (map Z.of_nat tpc) _ _) as [[pc rc] ac].
  destruct (Multipitch.compute_err_score (map Z.of_nat tpc) _ _) as [[[sc mc] fc] tc].
  exact H.
Qed.

Print Assumptions callee_sigs_expected.
Print Assumptions mp_metrics_assembly_tie.
Print Assumptions mp_metrics_assembly_scores.
Print Assumptions tr_precision_recall_f1_overlap_tie.
Print Assumptions tr_onset_precision_recall_f1_tie.
Print Assumptions tr_offset_precision_recall_f1_tie.
Print Assumptions tv_match_notes_tie.
Print Assumptions tv_precision_recall_f1_overlap_tie.
Print Assumptions onset_f_measure_tie.
Print Assumptions beat_f_measure_tie.
Print Assumptions segment_detection_tie.
