(* Properties of the model of mir_eval.transcription / transcription_velocity (Model/Transcription.v). *)
From Coq Require Import List Bool Arith ZArith QArith Qabs Qminmax Qround Qpower Qreduction Lia Lqa Permutation.
From ME Require Import Model.Prelude Model.Dict Model.Matching Model.Events Model.Transcription.
From ME Require Import Proofs.HKRecurse Proofs.HKCorrect Proofs.MaxMatching.
Import ListNotations.
Local Open Scope Q_scope.

(* ================================================================================================ *)
(* A. boolean comparisons and binary64 rounding                                                      *)
(* ================================================================================================ *)
Lemma qleb_iff a b : qleb a b = true <-> a <= b.
Proof. apply Qle_bool_iff. Qed.
Lemma qltb_iff a b : qltb a b = true <-> a < b.
Proof. unfold qltb. rewrite negb_true_iff. split.
  - intros H. apply Qnot_le_lt. intros L. apply Qle_bool_iff in L. congruence.
  - intros H. destruct (Qle_bool b a) eqn:E; [|reflexivity]. apply Qle_bool_iff in E. lra. Qed.
Lemma qeqb_iff a b : qeqb a b = true <-> a == b.
Proof. apply Qeq_bool_iff. Qed.
Lemma qltb_false_iff a b : qltb a b = false <-> b <= a.
Proof. split; intros H.
  - destruct (Qlt_le_dec a b) as [L|L]; [apply qltb_iff in L; congruence|exact L].
  - destruct (qltb a b) eqn:E; [apply qltb_iff in E; lra|reflexivity]. Qed.

Definition cmpP (strict : bool) (a b : Q) : Prop := if strict then a < b else a <= b.
Lemma cmpb_iff strict a b : cmpb strict a b = true <-> cmpP strict a b.
Proof. destruct strict; [apply qltb_iff|apply qleb_iff]. Qed.
Lemma cmpb_mono strict a b b' : b <= b' -> cmpb strict a b = true -> cmpb strict a b' = true.
Proof. rewrite !cmpb_iff. destruct strict; simpl; intros; lra. Qed.
Lemma cmpb_strict_weak a b : cmpb true a b = true -> cmpb false a b = true.
Proof. rewrite !cmpb_iff. simpl. lra. Qed.

(* ---------- round half even ---------- *)
Lemma rhe_cases x : (rhe x = Qfloor x /\ x - inject_Z (Qfloor x) <= 1#2 /\ (x - inject_Z (Qfloor x) == 1#2 -> Z.even (Qfloor x) = true)) \/
                    (rhe x = (Qfloor x + 1)%Z /\ 1#2 <= x - inject_Z (Qfloor x) /\ (x - inject_Z (Qfloor x) == 1#2 -> Z.even (Qfloor x) = false)).
Proof. unfold rhe. cbv zeta. set (f := Qfloor x). set (r := x - inject_Z f).
  destruct (qltb r (1#2)) eqn:E1.
  - apply qltb_iff in E1. left. repeat split; [lra|]. intros; lra.
  - apply qltb_false_iff in E1. destruct (qltb (1#2) r) eqn:E2.
    + apply qltb_iff in E2. right. repeat split; [lra|]. intros; lra.
    + apply qltb_false_iff in E2. destruct (Z.even f) eqn:E3.
      * left. repeat split; auto.
      * right. repeat split; auto. Qed.
Lemma rhe_mono x y : x <= y -> (rhe x <= rhe y)%Z.
Proof. intros H. pose proof (Qfloor_resp_le _ _ H) as Hf.
  pose proof (Qfloor_le y) as Ly. pose proof (Qlt_floor x) as Ux.
  destruct (rhe_cases x) as [(-> & A1 & A2)|(-> & A1 & A2)], (rhe_cases y) as [(-> & B1 & B2)|(-> & B1 & B2)]; try lia.
  destruct (Z.eq_dec (Qfloor x) (Qfloor y)) as [E|NE]; [|lia]. exfalso.
  rewrite E in A1, A2. assert (Hx : x - inject_Z (Qfloor y) == 1#2) by lra. assert (Hy : y - inject_Z (Qfloor y) == 1#2) by lra.
  rewrite (A2 Hx) in B2. specialize (B2 Hy). discriminate. Qed.
Lemma rhe_inject z : rhe (inject_Z z) = z.
Proof. destruct (rhe_cases (inject_Z z)) as [(-> & _)|(_ & A1 & _)]; [apply Qfloor_Z|].
  rewrite Qfloor_Z in A1. lra. Qed.
Lemma rhe_ge z x : inject_Z z <= x -> (z <= rhe x)%Z.
Proof. intros H. rewrite <- (rhe_inject z). now apply rhe_mono. Qed.
Lemma rhe_le z x : x <= inject_Z z -> (rhe x <= z)%Z.
Proof. intros H. rewrite <- (rhe_inject z). now apply rhe_mono. Qed.

(* ---------- powers of two, integer logarithm ---------- *)
Lemma pow2_pos e : 0 < pow2 e.
Proof. apply Qpower_0_lt. reflexivity. Qed.
Lemma pow2_add a b : pow2 (a + b) == pow2 a * pow2 b.
Proof. apply Qpower_plus. discriminate. Qed.
Lemma pow2_le a b : (a <= b)%Z -> pow2 a <= pow2 b.
Proof. intros H. apply Qpower_le_compat_l; [exact H|]. unfold Qle; simpl; lia. Qed.
Lemma pow2_lt a b : (a < b)%Z -> pow2 a < pow2 b.
Proof. intros H. apply Qpower_lt_compat_l; [exact H|reflexivity]. Qed.
Lemma pow2_Z n : (0 <= n)%Z -> pow2 n == inject_Z (2 ^ n).
Proof. intros H. unfold pow2. now rewrite Zpower_Qpower. Qed.

Lemma ilog2_spec x : 0 < x -> pow2 (ilog2 x) <= x /\ x < pow2 (ilog2 x + 1).
Proof. intros Hx. unfold ilog2. destruct x as [n d]. cbn [Qnum Qden].
  assert (Hn : (0 < n)%Z) by (unfold Qlt in Hx; simpl in Hx; lia).
  set (a := Z.log2 n). set (b := Z.log2 (Z.pos d)). set (k := (a - b)%Z).
  assert (Ha : (0 <= a)%Z) by apply Z.log2_nonneg. assert (Hb : (0 <= b)%Z) by apply Z.log2_nonneg.
  destruct (Z.log2_spec n Hn) as (A1 & A2). destruct (Z.log2_spec (Z.pos d) eq_refl) as (B1 & B2). fold a in A1, A2. fold b in B1, B2.
  assert (Hq : n # d == inject_Z n / inject_Z (Z.pos d)) by (rewrite (Qmake_Qdiv n d); reflexivity).
  assert (Hd : 0 < inject_Z (Z.pos d)) by (unfold Qlt; simpl; lia).
  (* 2^(k-1) < n/d < 2^(k+1) *)
  assert (Up : n # d < pow2 (k + 1)).
  { replace (k + 1)%Z with ((a + 1) + - b)%Z by lia. rewrite pow2_add. unfold pow2 at 2. rewrite Qpower_opp. fold (pow2 b).
    rewrite (pow2_Z (a + 1)), (pow2_Z b) by lia. rewrite Hq. unfold Qdiv.
    assert (P : 0 < inject_Z (2 ^ b)) by (rewrite <- pow2_Z by lia; apply pow2_pos).
    assert (L1 : inject_Z n < inject_Z (2 ^ (a + 1))) by (rewrite <- Zlt_Qlt; unfold Z.succ in A2; exact A2).
    assert (L2 : inject_Z (2 ^ b) <= inject_Z (Z.pos d)) by (rewrite <- Zle_Qle; exact B1).
    apply Qlt_shift_div_r; [exact Hd|].
    assert (E : inject_Z (2 ^ (a + 1)) * / inject_Z (2 ^ b) * inject_Z (Z.pos d) == inject_Z (2 ^ (a + 1)) * (inject_Z (Z.pos d) / inject_Z (2 ^ b))) by (field; lra).
    rewrite E. assert (1 <= inject_Z (Z.pos d) / inject_Z (2 ^ b)) by (apply Qle_shift_div_l; [exact P|lra]).
    assert (0 < inject_Z (2 ^ (a + 1))) by (rewrite <- pow2_Z by lia; apply pow2_pos). nra. }
  assert (Lo : pow2 (k - 1) < n # d).
  { replace (k - 1)%Z with (a + - (b + 1))%Z by lia. rewrite pow2_add. unfold pow2 at 2. rewrite Qpower_opp. fold (pow2 (b + 1)).
    rewrite (pow2_Z a), (pow2_Z (b + 1)) by lia. rewrite Hq.
    assert (P : 0 < inject_Z (2 ^ (b + 1))) by (rewrite <- pow2_Z by lia; apply pow2_pos).
    assert (L1 : inject_Z (2 ^ a) <= inject_Z n) by (rewrite <- Zle_Qle; exact A1).
    assert (L2 : inject_Z (Z.pos d) < inject_Z (2 ^ (b + 1))) by (rewrite <- Zlt_Qlt; unfold Z.succ in B2; exact B2).
    apply Qlt_shift_div_l; [exact Hd|].
    assert (E : inject_Z (2 ^ a) * / inject_Z (2 ^ (b + 1)) * inject_Z (Z.pos d) == inject_Z (2 ^ a) * (inject_Z (Z.pos d) / inject_Z (2 ^ (b + 1)))) by (field; lra).
    rewrite E. assert (inject_Z (Z.pos d) / inject_Z (2 ^ (b + 1)) < 1) by (apply Qlt_shift_div_r; [exact P|lra]).
    assert (0 < inject_Z (2 ^ a)) by (rewrite <- pow2_Z by lia; apply pow2_pos). nra. }
  destruct (qleb (pow2 k) (n # d)) eqn:E.
  - apply qleb_iff in E. split; [exact E|exact Up].
  - split; [lra|]. replace (k - 1 + 1)%Z with k by lia.
    destruct (Qlt_le_dec (n # d) (pow2 k)) as [L|L]; [exact L|]. apply qleb_iff in L. congruence. Qed.

Lemma ilog2_mono x y : 0 < x -> x <= y -> (ilog2 x <= ilog2 y)%Z.
Proof. intros Hx Hxy. destruct (ilog2_spec x Hx) as (A1 & A2). destruct (ilog2_spec y) as (B1 & B2); [lra|].
  destruct (Z_le_gt_dec (ilog2 x) (ilog2 y)) as [L|G]; [exact L|]. exfalso.
  assert (pow2 (ilog2 y + 1) <= pow2 (ilog2 x)) by (apply pow2_le; lia). lra. Qed.

(* ---------- fl64 ---------- *)
Lemma fl64_compat x y : x == y -> fl64 x = fl64 y.
Proof. intros H. unfold fl64. now rewrite (Qred_complete _ _ H). Qed.
Lemma fl64_zero x : x == 0 -> fl64 x = 0.
Proof. intros H. rewrite (fl64_compat _ _ H). reflexivity. Qed.
Lemma fl64_pos_bounds x : 0 < x ->
  pow2 (ilog2 x) <= fl64_pos x <= pow2 (ilog2 x + 1).
Proof. intros Hx. destruct (ilog2_spec x Hx) as (A1 & A2). unfold fl64_pos. cbv zeta. set (e := (ilog2 x - 52)%Z).
  pose proof (pow2_pos e) as Pe.
  assert (E1 : pow2 (ilog2 x) == inject_Z (2 ^ 52) * pow2 e).
  { replace (ilog2 x) with (52 + e)%Z at 1 by (unfold e; lia). rewrite pow2_add. now rewrite (pow2_Z 52) by lia. }
  assert (E2 : pow2 (ilog2 x + 1) == inject_Z (2 ^ 53) * pow2 e).
  { replace (ilog2 x + 1)%Z with (53 + e)%Z by (unfold e; lia). rewrite pow2_add. now rewrite (pow2_Z 53) by lia. }
  assert (L : inject_Z (2 ^ 52) <= x / pow2 e) by (apply Qle_shift_div_l; [exact Pe|lra]).
  assert (U : x / pow2 e <= inject_Z (2 ^ 53)) by (apply Qle_shift_div_r; [exact Pe|lra]).
  apply rhe_ge in L. apply rhe_le in U. rewrite Zle_Qle in L, U. rewrite E1, E2. split; nra. Qed.
Lemma fl64_pos_mono x y : 0 < x -> x <= y -> fl64_pos x <= fl64_pos y.
Proof. intros Hx Hxy. pose proof (ilog2_mono x y Hx Hxy) as Hl.
  destruct (Z.eq_dec (ilog2 x) (ilog2 y)) as [E|NE].
  - unfold fl64_pos. cbv zeta. rewrite E. set (e := (ilog2 y - 52)%Z). pose proof (pow2_pos e) as Pe.
    assert (x / pow2 e <= y / pow2 e) by (apply Qle_shift_div_l; [exact Pe|]; unfold Qdiv; rewrite <- Qmult_assoc, (Qmult_comm (/ _)), Qmult_inv_r by lra; lra).
    apply rhe_mono in H. rewrite Zle_Qle in H. nra.
  - destruct (fl64_pos_bounds x Hx) as (_ & U). destruct (fl64_pos_bounds y) as (L & _); [lra|].
    assert (pow2 (ilog2 x + 1) <= pow2 (ilog2 y)) by (apply pow2_le; lia). lra. Qed.
Lemma fl64_pos_gt0 x : 0 < x -> 0 < fl64_pos x.
Proof. intros Hx. destruct (fl64_pos_bounds x Hx) as (L & _). pose proof (pow2_pos (ilog2 x)). lra. Qed.

Lemma fl64_pos_eq x : 0 < x -> fl64 x = fl64_pos (Qred x).
Proof. intros Hx. unfold fl64. cbv zeta. pose proof (Qred_correct x) as Hr.
  destruct (qeqb (Qred x) 0) eqn:E; [apply qeqb_iff in E; lra|].
  destruct (qltb 0 (Qred x)) eqn:E2; [reflexivity|]. apply qltb_false_iff in E2. lra. Qed.
Lemma fl64_nonneg x : 0 <= x -> 0 <= fl64 x.
Proof. intros H. destruct (Qeq_dec x 0) as [Z|NZ]; [rewrite (fl64_zero _ Z); lra|].
  assert (Hx : 0 < x) by (destruct (Qlt_le_dec 0 x); [auto|exfalso; apply NZ; lra]).
  rewrite (fl64_pos_eq x Hx). apply Qlt_le_weak, fl64_pos_gt0. rewrite Qred_correct. exact Hx. Qed.
Theorem fl64_mono x y : 0 <= x -> x <= y -> fl64 x <= fl64 y.
Proof. intros Hx Hxy. destruct (Qeq_dec x 0) as [Z|NZ]; [rewrite (fl64_zero _ Z); apply fl64_nonneg; lra|].
  assert (Hx' : 0 < x) by (destruct (Qlt_le_dec 0 x); [auto|exfalso; apply NZ; lra]).
  rewrite (fl64_pos_eq x Hx'), (fl64_pos_eq y) by lra. apply fl64_pos_mono; rewrite ?Qred_correct; auto. Qed.

(* ================================================================================================ *)
(* B. hits, graph, matching: generic in the hit predicate                                            *)
(* ================================================================================================ *)
Section Generic.
Context {A B : Type}.

Lemma row_hits_spec (q : B -> bool) i est : forall j i' j',
  In (i', j') (row_hits q i j est) <-> i' = i /\ (j <= j')%nat /\ exists e, nth_error est (j' - j) = Some e /\ q e = true.
Proof. induction est as [|e t IH]; intros j i' j'; cbn [row_hits].
  - split; [intros []|]. intros (_ & _ & e & H & _). destruct (j' - j)%nat; discriminate.
  - rewrite in_app_iff, IH. split.
    + intros [H|(-> & Hj & e' & Hn & Hq)].
      * destruct (q e) eqn:Eq; [|destruct H]. destruct H as [[= <- <-]|[]]. split; [reflexivity|]. split; [lia|].
        exists e. rewrite Nat.sub_diag. split; [reflexivity|exact Eq].
      * split; [reflexivity|]. split; [lia|]. exists e'. split; [|exact Hq].
        replace (j' - j)%nat with (S (j' - S j)) by lia. exact Hn.
    + intros (-> & Hj & e' & Hn & Hq). destruct (Nat.eq_dec j j') as [<-|NE].
      * left. rewrite Nat.sub_diag in Hn. injection Hn as <-. rewrite Hq. now left.
      * right. split; [reflexivity|]. split; [lia|]. exists e'. split; [|exact Hq].
        replace (j' - j)%nat with (S (j' - S j)) in Hn by lia. exact Hn. Qed.

Lemma hits_from_spec (p : A -> B -> bool) est ref : forall i i' j',
  In (i', j') (hits_from p i ref est) <->
  (i <= i')%nat /\ exists r e, nth_error ref (i' - i) = Some r /\ nth_error est j' = Some e /\ p r e = true.
Proof. induction ref as [|r t IH]; intros i i' j'; cbn [hits_from].
  - split; [intros []|]. intros (_ & r & e & H & _). destruct (i' - i)%nat; discriminate.
  - rewrite in_app_iff, IH, row_hits_spec. rewrite Nat.sub_0_r. split.
    + intros [(-> & _ & e & Hn & Hq)|(Hi & r' & e & Hr & He & Hp)].
      * split; [lia|]. exists r, e. rewrite Nat.sub_diag. auto.
      * split; [lia|]. exists r', e. replace (i' - i)%nat with (S (i' - S i)) by lia. auto.
    + intros (Hi & r' & e & Hr & He & Hp). destruct (Nat.eq_dec i i') as [<-|NE].
      * left. rewrite Nat.sub_diag in Hr. injection Hr as <-. split; [reflexivity|]. split; [lia|]. eauto.
      * right. split; [lia|]. exists r', e. replace (i' - i)%nat with (S (i' - S i)) in Hr by lia. auto. Qed.

(* est index first, as in MaxMatching.okE; lists hold (ref index, est index) *)
Definition hitrel (p : A -> B -> bool) (ref : list A) (est : list B) (u v : nat) : Prop :=
  exists r e, nth_error ref v = Some r /\ nth_error est u = Some e /\ p r e = true.

Theorem hits_where_spec (p : A -> B -> bool) ref est i j :
  In (i, j) (hits_where p ref est) <-> hitrel p ref est j i.
Proof. unfold hits_where, hitrel. rewrite hits_from_spec, Nat.sub_0_r. split; [intros (_ & H); exact H|intros H; split; [lia|exact H]]. Qed.

Lemma hitrel_bound (p : A -> B -> bool) ref est u v : hitrel p ref est u v -> (u < length est /\ v < length ref)%nat.
Proof. intros (r & e & Hr & He & _). split; apply nth_error_Some; congruence. Qed.
End Generic.

(* ---------- build_graph ---------- *)
Definition bg_step (G : graph) (h : nat * nat) : graph :=
  let '(r, e) := h in match dget G e with Some l => dset G e (l ++ [r]) | None => dset G e [r] end.
Lemma build_graph_fold hits : build_graph hits = fold_left bg_step hits [].
Proof. reflexivity. Qed.
Lemma bg_step_keys G h : NoDup (keys G) -> NoDup (keys (bg_step G h)).
Proof. destruct h as [r e]. unfold bg_step. destruct (dget G e); apply NoDup_keys_dset. Qed.
Lemma bg_step_edge G h u v : edge (bg_step G h) u v <-> edge G u v \/ (v, u) = h.
Proof. destruct h as [r e]. unfold bg_step, edge, nbrs. destruct (Nat.eq_dec u e) as [->|NE].
  - destruct (dget G e) as [l|] eqn:E; rewrite dget_dset_same.
    + rewrite in_app_iff. simpl. split; [intros [H|[<-|[]]]; auto|intros [H|[= -> ]]; auto].
    + simpl. split; [intros [<-|[]]; auto|intros [[]|[= ->]]; auto].
  - assert (Hd : forall L, dget (dset G e L) u = dget G u) by (intros; now apply dget_dset_other).
    destruct (dget G e); rewrite Hd; (split; [auto|intros [H|[= _ ->]]; [exact H|congruence]]). Qed.
Lemma bg_fold_spec hits : forall G, NoDup (keys G) ->
  NoDup (keys (fold_left bg_step hits G)) /\ forall u v, edge (fold_left bg_step hits G) u v <-> edge G u v \/ In (v, u) hits.
Proof. induction hits as [|h t IH]; intros G HG; cbn [fold_left].
  - split; [exact HG|]. intros; simpl; tauto.
  - destruct (IH (bg_step G h) (bg_step_keys G h HG)) as (K & E). split; [exact K|].
    intros u v. rewrite E, bg_step_edge. simpl. split; [intros [[H|H]|H]|intros [H|[H|H]]]; auto. Qed.
Lemma build_graph_spec hits : NoDup (keys (build_graph hits)) /\ forall u v, edge (build_graph hits) u v <-> In (v, u) hits.
Proof. rewrite build_graph_fold. destruct (bg_fold_spec hits [] (NoDup_nil _)) as (K & E). split; [exact K|].
  intros u v. rewrite E. unfold edge, nbrs. simpl. tauto. Qed.

(* ---------- sorted(items) is a permutation ---------- *)
Lemma ins_pair_perm x l : Permutation (ins_pair x l) (x :: l).
Proof. induction l as [|y t IH]; cbn [ins_pair]; [apply Permutation_refl|].
  destruct (pair_ltb x y); [apply Permutation_refl|]. rewrite IH. apply perm_swap. Qed.
Lemma sort_pairs_perm l : Permutation (sort_pairs l) l.
Proof. unfold sort_pairs. assert (H : forall acc, Permutation (fold_left (fun acc x => ins_pair x acc) l acc) (l ++ acc)).
  { induction l as [|x t IH]; intros acc; cbn [fold_left]; [apply Permutation_refl|].
    rewrite IH, ins_pair_perm. simpl. symmetry. apply Permutation_middle. }
  rewrite H. now rewrite app_nil_r. Qed.
Lemma okE_perm (E : nat -> nat -> Prop) l l' : Permutation l l' -> okE E l -> okE E l'.
Proof. intros P (N1 & N2 & H). repeat split.
  - eapply Permutation_NoDup; [|exact N1]. now apply Permutation_map.
  - eapply Permutation_NoDup; [|exact N2]. now apply Permutation_map.
  - intros v u Hin. apply H. eapply Permutation_in; [symmetry; exact P|exact Hin]. Qed.

(* the returned list is a valid one-to-one pairing inside the hit set, and no such pairing is larger *)
Definition is_max_matching (E : nat -> nat -> Prop) (l : list (nat * nat)) : Prop :=
  okE E l /\ forall l', okE E l' -> (length l' <= length l)%nat.
Lemma is_max_matching_size E l : is_max_matching E l -> max_size E (length l).
Proof. intros (O & M). split; [exists l; auto|exact M]. Qed.
Lemma is_max_matching_ext (E E' : nat -> nat -> Prop) l : (forall u v, E u v <-> E' u v) -> is_max_matching E l -> is_max_matching E' l.
Proof. intros H (O & M). split; [eapply okE_mono; [|exact O]; intros; now apply H|].
  intros l' O'. apply M. eapply okE_mono; [|exact O']. intros; now apply H. Qed.

Theorem match_hits_correct hits l : match_hits hits = Some l -> is_max_matching (fun u v => In (v, u) hits) l.
Proof. unfold match_hits. destruct (bipartite_match (build_graph hits)) as [m|] eqn:Em; [|discriminate]. intros [= <-].
  destruct (build_graph_spec hits) as (K & E). destruct (bipartite_match_correct _ _ K Em) as (O & M).
  apply (is_max_matching_ext (edge (build_graph hits))); [exact E|]. split.
  - eapply okE_perm; [symmetry; apply sort_pairs_perm|exact O].
  - intros l' O'. rewrite (Permutation_length (sort_pairs_perm m)). apply M, O'. Qed.

Section Generic2.
Context {A B : Type}.
Theorem match_pred_correct (p : A -> B -> bool) ref est l :
  match_pred p ref est = Some l -> is_max_matching (hitrel p ref est) l.
Proof. intros H. apply match_hits_correct in H. eapply is_max_matching_ext; [|exact H].
  intros u v. apply hits_where_spec. Qed.
Lemma match_pred_size (p : A -> B -> bool) ref est l : match_pred p ref est = Some l -> max_size (hitrel p ref est) (length l).
Proof. intros H. apply is_max_matching_size. now apply match_pred_correct. Qed.
Lemma match_pred_le_min (p : A -> B -> bool) ref est l :
  match_pred p ref est = Some l -> (length l <= Nat.min (length ref) (length est))%nat.
Proof. intros H. apply match_pred_size in H. rewrite Nat.min_comm. eapply max_size_le_min; [|exact H].
  intros u v. apply hitrel_bound. Qed.
Lemma match_pred_mono (p1 p2 : A -> B -> bool) ref est l1 l2 :
  (forall r e, In r ref -> In e est -> p1 r e = true -> p2 r e = true) ->
  match_pred p1 ref est = Some l1 -> match_pred p2 ref est = Some l2 -> (length l1 <= length l2)%nat.
Proof. intros Hp H1 H2. apply match_pred_size in H1, H2. eapply max_size_mono; [|exact H1|exact H2].
  intros u v (r & e & Hr & He & H). exists r, e. repeat split; auto. apply Hp; auto; eapply nth_error_In; eauto. Qed.
End Generic2.

Lemma match_pred_transpose {A B} (p : A -> B -> bool) (p' : B -> A -> bool) ref est l l' :
  (forall r e, p' e r = p r e) ->
  match_pred p ref est = Some l -> match_pred p' est ref = Some l' -> length l = length l'.
Proof. intros Hp H1 H2. apply match_pred_size in H1, H2. apply max_size_transpose in H1.
  eapply max_size_unique; [exact H1|]. destruct H2 as ((w & O & Hw) & M). split.
  - exists w. split; [|exact Hw]. eapply okE_mono; [|exact O]. intros u v (r & e & Hr & He & H). exists e, r. rewrite <- Hp. auto.
  - intros w' O'. apply M. eapply okE_mono; [|exact O']. intros u v (r & e & Hr & He & H). exists e, r. rewrite Hp. auto. Qed.

Lemma match_pred_self {A} (p : A -> A -> bool) (l : list A) m :
  (forall x, In x l -> p x x = true) -> match_pred p l l = Some m -> length m = length l.
Proof. intros Hp H. apply match_pred_size in H. eapply max_size_unique; [exact H|].
  apply max_size_diag; [intros u v Huv; apply hitrel_bound in Huv; tauto|].
  intros i Hi. destruct (nth_error l i) as [x|] eqn:E; [|apply nth_error_None in E; lia].
  exists x, x. repeat split; auto. apply Hp. eapply nth_error_In; eauto. Qed.

(* hits are computed pointwise: maps and extensionality *)
Lemma row_hits_map {B C} (g : C -> B) (q : B -> bool) i est : forall j, row_hits q i j (map g est) = row_hits (fun e => q (g e)) i j est.
Proof. induction est as [|e t IH]; intros j; cbn [map row_hits]; [reflexivity|]. now rewrite IH. Qed.
Lemma hits_where_map {A B C D} (f : C -> A) (g : D -> B) (p : A -> B -> bool) ref est :
  hits_where p (map f ref) (map g est) = hits_where (fun r e => p (f r) (g e)) ref est.
Proof. unfold hits_where. generalize 0%nat. induction ref as [|r t IH]; intros i; cbn [map hits_from]; [reflexivity|].
  now rewrite IH, row_hits_map. Qed.
Lemma row_hits_ext {B} (q q' : B -> bool) i est : (forall e, In e est -> q e = q' e) -> forall j, row_hits q i j est = row_hits q' i j est.
Proof. induction est as [|e t IH]; intros H j; cbn [row_hits]; [reflexivity|].
  rewrite (H e (or_introl eq_refl)), IH; [reflexivity|]. intros; apply H; now right. Qed.
Lemma hits_where_ext {A B} (p p' : A -> B -> bool) ref est :
  (forall r e, In r ref -> In e est -> p r e = p' r e) -> hits_where p ref est = hits_where p' ref est.
Proof. unfold hits_where. generalize 0%nat. induction ref as [|r t IH]; intros i H; cbn [hits_from]; [reflexivity|].
  rewrite IH by (intros; apply H; auto; now right). f_equal. apply row_hits_ext. intros; apply H; auto; now left. Qed.
Lemma match_pred_ext {A B} (p p' : A -> B -> bool) ref est :
  (forall r e, In r ref -> In e est -> p r e = p' r e) -> match_pred p ref est = match_pred p' ref est.
Proof. intros H. unfold match_pred. now rewrite (hits_where_ext p p' ref est H). Qed.
Lemma match_pred_map {A B C D} (f : C -> A) (g : D -> B) (p : A -> B -> bool) ref est :
  match_pred p (map f ref) (map g est) = match_pred (fun r e => p (f r) (g e)) ref est.
Proof. unfold match_pred. now rewrite hits_where_map. Qed.

(* ---------- reordering the notes ---------- *)
Lemma perm_index_maps {A} (l l' : list A) : Permutation l l' ->
  exists f g : nat -> nat, (forall a, g (f a) = a) /\ (forall b, f (g b) = b) /\ forall i, nth_error l' (f i) = nth_error l i.
Proof. induction 1 as [|x l l' P (f & g & F1 & F2 & F3)|x y l|l l' l'' P1 (f1 & g1 & A1 & A2 & A3) P2 (f2 & g2 & B1 & B2 & B3)].
  - exists (fun i => i), (fun i => i). auto.
  - exists (fun i => match i with O => O | S k => S (f k) end), (fun i => match i with O => O | S k => S (g k) end).
    repeat split; [intros [|k]; auto|intros [|k]; auto|intros [|k]; simpl; auto].
  - exists (fun i => match i with O => 1%nat | S O => O | _ => i end), (fun i => match i with O => 1%nat | S O => O | _ => i end).
    repeat split; [intros [|[|k]]; auto|intros [|[|k]]; auto|intros [|[|k]]; simpl; auto].
  - exists (fun i => f2 (f1 i)), (fun i => g1 (g2 i)). repeat split; intros.
    + now rewrite B1, A1. + now rewrite A2, B2. + now rewrite B3, A3. Qed.
Theorem match_pred_perm {A B} (p : A -> B -> bool) ref ref' est est' l l' :
  Permutation ref ref' -> Permutation est est' ->
  match_pred p ref est = Some l -> match_pred p ref' est' = Some l' -> length l = length l'.
Proof. intros Pr Pe H1 H2. apply match_pred_size in H1, H2.
  destruct (perm_index_maps _ _ Pr) as (g & g' & G1 & G2 & G3). destruct (perm_index_maps _ _ Pe) as (f & f' & F1 & F2 & F3).
  eapply max_size_unique; [|exact H2]. eapply (max_size_iso _ _ f f' g g'); eauto.
  intros u v. unfold hitrel. now rewrite G3, F3. Qed.

(* ================================================================================================ *)
(* C. the three matchers                                                                              *)
(* ================================================================================================ *)
(* the stated note predicates (reference note r, estimated note e) *)
Definition onset_hitP (strict : bool) (tol : Q) (r e : ivl) : Prop :=
  cmpP strict (np_around4 (fsub_abs (fst r) (fst e))) tol.
Definition offset_hitP (strict : bool) (ratio mintol : Q) (r e : ivl) : Prop :=
  cmpP strict (np_around4 (fsub_abs (snd r) (snd e))) (Qmax (fl64 (ratio * duration r)) mintol).
Definition pitch_hitP (strict : bool) (ptol : Q) (lr le : Q) : Prop :=
  cmpP strict (fl64 (1200 * fl64 (Qabs (lr - le)))) ptol.
Definition note_hitP (strict : bool) (otol ptol : Q) (ratio : option Q) (mintol : Q) (r e : note) : Prop :=
  onset_hitP strict otol (fst r) (fst e) /\ pitch_hitP strict ptol (snd r) (snd e) /\
  match ratio with Some q => offset_hitP strict q mintol (fst r) (fst e) | None => True end.

Lemma onset_hitb_iff strict tol r e : onset_hitb strict tol r e = true <-> onset_hitP strict tol r e.
Proof. apply cmpb_iff. Qed.
Lemma offset_hitb_iff strict ratio mintol r e : offset_hitb strict ratio mintol r e = true <-> offset_hitP strict ratio mintol r e.
Proof. apply cmpb_iff. Qed.
Lemma pitch_hitb_iff strict ptol lr le : pitch_hitb strict ptol lr le = true <-> pitch_hitP strict ptol lr le.
Proof. apply cmpb_iff. Qed.
Lemma note_hitb_iff strict otol ptol ratio mintol r e :
  note_hitb strict otol ptol ratio mintol r e = true <-> note_hitP strict otol ptol ratio mintol r e.
Proof. unfold note_hitb, note_hitP. rewrite !andb_true_iff, onset_hitb_iff, pitch_hitb_iff.
  destruct ratio as [q|].
  - rewrite offset_hitb_iff. split; [intros ((H1 & H2) & H3)|intros (H1 & H2 & H3)]; auto.
  - split; [intros ((H1 & H2) & _)|intros (H1 & H2 & _)]; auto. Qed.

(* np.where(hit matrix) is exactly the set of index pairs whose notes satisfy the stated predicate *)
Theorem note_hits_spec strict otol ptol ratio mintol (ref est : list note) i j :
  In (i, j) (hits_where (note_hitb strict otol ptol ratio mintol) ref est) <->
  exists r e, nth_error ref i = Some r /\ nth_error est j = Some e /\ note_hitP strict otol ptol ratio mintol r e.
Proof. rewrite hits_where_spec. unfold hitrel. split; intros (r & e & Hr & He & H); exists r, e; (split; [exact Hr|split; [exact He|now apply note_hitb_iff]]). Qed.
Theorem onset_hits_spec strict tol (ref est : list ivl) i j :
  In (i, j) (hits_where (onset_hitb strict tol) ref est) <->
  exists r e, nth_error ref i = Some r /\ nth_error est j = Some e /\ onset_hitP strict tol r e.
Proof. rewrite hits_where_spec. unfold hitrel. split; intros (r & e & Hr & He & H); exists r, e; (split; [exact Hr|split; [exact He|now apply onset_hitb_iff]]). Qed.
Theorem offset_hits_spec strict ratio mintol (ref est : list ivl) i j :
  In (i, j) (hits_where (offset_hitb strict ratio mintol) ref est) <->
  exists r e, nth_error ref i = Some r /\ nth_error est j = Some e /\ offset_hitP strict ratio mintol r e.
Proof. rewrite hits_where_spec. unfold hitrel. split; intros (r & e & Hr & He & H); exists r, e; (split; [exact Hr|split; [exact He|now apply offset_hitb_iff]]). Qed.

(* the relation "reference note v and estimated note u satisfy the predicate" (est index first, as in okE) *)
Definition note_rel strict otol ptol ratio mintol (ref est : list note) (u v : nat) : Prop :=
  exists r e, nth_error ref v = Some r /\ nth_error est u = Some e /\ note_hitP strict otol ptol ratio mintol r e.
Definition onset_rel strict tol (ref est : list ivl) (u v : nat) : Prop :=
  exists r e, nth_error ref v = Some r /\ nth_error est u = Some e /\ onset_hitP strict tol r e.
Definition offset_rel strict ratio mintol (ref est : list ivl) (u v : nat) : Prop :=
  exists r e, nth_error ref v = Some r /\ nth_error est u = Some e /\ offset_hitP strict ratio mintol r e.

Lemma bind_ok {A B} (r : res A) (k : A -> res B) b : (x <- r ;; k x) = Ok b -> exists a, r = Ok a /\ k a = Ok b.
Proof. destruct r; simpl; [eauto|discriminate]. Qed.

Lemma match_notes_inv ref est otol ptol ratio mintol strict l :
  match_notes ref est otol ptol ratio mintol strict = Ok (Some l) ->
  match_pred (note_hitb strict otol ptol ratio mintol) ref est = Some l /\
  match ratio with Some _ => validate_ivs (map fst ref) = Ok tt | None => True end.
Proof. unfold match_notes. intros H. apply bind_ok in H. destruct H as ([] & Hv & [= H]). split; [exact H|]. destruct ratio; auto. Qed.
Lemma match_note_offsets_inv ref est ratio mintol strict l :
  match_note_offsets ref est ratio mintol strict = Ok (Some l) ->
  match_pred (offset_hitb strict ratio mintol) ref est = Some l /\ validate_ivs ref = Ok tt.
Proof. unfold match_note_offsets. intros H. apply bind_ok in H. destruct H as ([] & Hv & [= H]). auto. Qed.
Lemma match_note_onsets_inv ref est tol strict l :
  match_note_onsets ref est tol strict = Ok (Some l) -> match_pred (onset_hitb strict tol) ref est = Some l.
Proof. unfold match_note_onsets. now intros [= H]. Qed.

(* C05: whenever the model returns a list, it is a valid one-to-one pairing, every pair satisfies the predicate,
   and no valid pairing is larger *)
Theorem match_notes_correct ref est otol ptol ratio mintol strict l :
  match_notes ref est otol ptol ratio mintol strict = Ok (Some l) ->
  NoDup (map fst l) /\ NoDup (map snd l) /\
  (forall i j, In (i, j) l -> exists r e, nth_error ref i = Some r /\ nth_error est j = Some e /\ note_hitP strict otol ptol ratio mintol r e) /\
  (forall l', okE (note_rel strict otol ptol ratio mintol ref est) l' -> (length l' <= length l)%nat).
Proof. intros H. apply match_notes_inv in H. destruct H as (H & _). apply match_pred_correct in H.
  apply (is_max_matching_ext _ (note_rel strict otol ptol ratio mintol ref est)) in H.
  - destruct H as ((N1 & N2 & HE) & M). repeat split; auto.
  - intros u v. unfold hitrel, note_rel. split; intros (r & e & Hr & He & Hh); exists r, e; (split; [exact Hr|split; [exact He|now apply note_hitb_iff]]). Qed.
Theorem match_note_onsets_correct ref est tol strict l :
  match_note_onsets ref est tol strict = Ok (Some l) ->
  NoDup (map fst l) /\ NoDup (map snd l) /\
  (forall i j, In (i, j) l -> exists r e, nth_error ref i = Some r /\ nth_error est j = Some e /\ onset_hitP strict tol r e) /\
  (forall l', okE (onset_rel strict tol ref est) l' -> (length l' <= length l)%nat).
Proof. intros H. apply match_note_onsets_inv, match_pred_correct in H.
  apply (is_max_matching_ext _ (onset_rel strict tol ref est)) in H.
  - destruct H as ((N1 & N2 & HE) & M). repeat split; auto.
  - intros u v. unfold hitrel, onset_rel. split; intros (r & e & Hr & He & Hh); exists r, e; (split; [exact Hr|split; [exact He|now apply onset_hitb_iff]]). Qed.
Theorem match_note_offsets_correct ref est ratio mintol strict l :
  match_note_offsets ref est ratio mintol strict = Ok (Some l) ->
  NoDup (map fst l) /\ NoDup (map snd l) /\
  (forall i j, In (i, j) l -> exists r e, nth_error ref i = Some r /\ nth_error est j = Some e /\ offset_hitP strict ratio mintol r e) /\
  (forall l', okE (offset_rel strict ratio mintol ref est) l' -> (length l' <= length l)%nat).
Proof. intros H. apply match_note_offsets_inv in H. destruct H as (H & _). apply match_pred_correct in H.
  apply (is_max_matching_ext _ (offset_rel strict ratio mintol ref est)) in H.
  - destruct H as ((N1 & N2 & HE) & M). repeat split; auto.
  - intros u v. unfold hitrel, offset_rel. split; intros (r & e & Hr & He & Hh); exists r, e; (split; [exact Hr|split; [exact He|now apply offset_hitb_iff]]). Qed.
(* the hypotheses are satisfiable: three mutually close notes; the optimum found is not the identity *)
Example match_notes_correct_sat :
  let n := [((0, 1), 35#4); ((1#8, 9#8), 35#4); ((1#16, 17#16), 35#4)] in
  match_notes n n (1#16) 50 (Some (1#5)) (1#4) false = Ok (Some [(0, 0); (1, 2); (2, 1)]%nat).
Proof. vm_compute. reflexivity. Qed.

(* ================================================================================================ *)
(* D. scores: ranges                                                                                  *)
(* ================================================================================================ *)
Lemma nQ_nonneg n : 0 <= nQ n.
Proof. unfold nQ. replace 0 with (inject_Z 0) by reflexivity. rewrite <- Zle_Qle. lia. Qed.
Lemma nQ_pos n : (0 < n)%nat -> 0 < nQ n.
Proof. intros H. unfold nQ. replace 0 with (inject_Z 0) by reflexivity. rewrite <- Zlt_Qlt. lia. Qed.
Lemma nQ_le a b : (a <= b)%nat -> nQ a <= nQ b.
Proof. intros H. unfold nQ. rewrite <- Zle_Qle. lia. Qed.
Lemma nQ_S n : nQ (S n) == nQ n + 1.
Proof. unfold nQ. rewrite Nat2Z.inj_succ. unfold Z.succ. rewrite inject_Z_plus. reflexivity. Qed.
Lemma Qinv_0 d : d == 0 -> / d == 0.
Proof. intros H. rewrite H. reflexivity. Qed.
Lemma Qdiv_self d : 0 < d -> d / d == 1.
Proof. intros H. field. lra. Qed.

Lemma f_measure_range p r beta : 0 <= p <= 1 -> 0 <= r <= 1 -> 0 <= f_measure p r beta <= 1.
Proof. intros Hp Hr. unfold f_measure. destruct (qeqb p 0 && qeqb r 0); [lra|].
  set (bb := beta * beta). assert (Hb : 0 <= bb) by (unfold bb; nra).
  assert (H1 : 0 <= p * r) by nra. assert (H2 : p * r <= p) by nra. assert (H3 : p * r <= r) by nra.
  assert (H4 : 0 <= bb * (p - p * r)) by nra. assert (H5 : 0 <= bb * (p * r)) by nra.
  assert (HN : 0 <= (1 + bb) * p * r) by nra. assert (HD : (1 + bb) * p * r <= bb * p + r) by nra.
  destruct (Qeq_dec (bb * p + r) 0) as [Z|NZ].
  - unfold Qdiv. rewrite (Qinv_0 _ Z). lra.
  - assert (Dp : 0 < bb * p + r) by (destruct (Qlt_le_dec 0 (bb * p + r)); [auto|exfalso; apply NZ; nra]).
    split; [apply Qle_shift_div_l; [exact Dp|lra]|apply Qle_shift_div_r; [exact Dp|lra]]. Qed.
Lemma f_measure_1 beta : f_measure 1 1 beta == 1.
Proof. unfold f_measure. replace (qeqb 1 0) with false by reflexivity. cbn [andb]. field. nra. Qed.

Lemma prf_of_range m nr ne beta P R F : (m <= nr)%nat -> (m <= ne)%nat -> (0 < nr)%nat -> (0 < ne)%nat ->
  prf_of m nr ne beta = (P, R, F) -> 0 <= P <= 1 /\ 0 <= R <= 1 /\ 0 <= F <= 1.
Proof. intros H1 H2 H3 H4. unfold prf_of. cbv zeta. intros [= <- <- <-].
  pose proof (nQ_nonneg m). pose proof (nQ_pos _ H3). pose proof (nQ_pos _ H4). pose proof (nQ_le _ _ H1). pose proof (nQ_le _ _ H2).
  assert (A1 : 0 <= nQ m / nQ ne <= 1) by (split; [apply Qle_shift_div_l|apply Qle_shift_div_r]; lra).
  assert (A2 : 0 <= nQ m / nQ nr <= 1) by (split; [apply Qle_shift_div_l|apply Qle_shift_div_r]; lra).
  repeat split; try tauto; now apply f_measure_range. Qed.
Lemma prf_of_full n beta P R F : (0 < n)%nat -> prf_of n n n beta = (P, R, F) -> P == 1 /\ R == 1 /\ F == 1.
Proof. intros Hn. unfold prf_of. cbv zeta. intros [= <- <- <-]. pose proof (nQ_pos _ Hn) as Hq.
  pose proof (Qdiv_self _ Hq) as E. repeat split; try exact E.
  unfold f_measure. destruct (qeqb (nQ n / nQ n) 0) eqn:E0; [apply qeqb_iff in E0; lra|]. cbn [andb]. rewrite E. field. nra. Qed.

(* ---------- validation ---------- *)
Definition ivs_valid (l : list ivl) : Prop := forall i, In i l -> 0 <= fst i /\ 0 <= snd i /\ fst i < snd i.
Lemma existsb_false {A} (f : A -> bool) l : existsb f l = false <-> forall x, In x l -> f x = false.
Proof. induction l as [|a t IH]; simpl; [split; [intros _ x []|reflexivity]|].
  rewrite orb_false_iff, IH. split; [intros (H1 & H2) x [<-|H]; auto|intros H; split; [apply H; now left|intros; apply H; now right]]. Qed.
Lemma validate_ivs_ok l : validate_ivs l = Ok tt <-> ivs_valid l.
Proof. unfold validate_ivs, ivs_valid.
  destruct (existsb (fun i => qltb (fst i) 0 || qltb (snd i) 0) l) eqn:E1.
  - split; [discriminate|]. intros H. exfalso. apply existsb_exists in E1. destruct E1 as (i & Hi & E). destruct (H i Hi) as (A1 & A2 & _).
    apply orb_true_iff in E. destruct E as [E|E]; apply qltb_iff in E; lra.
  - destruct (existsb (fun i => qleb (snd i) (fst i)) l) eqn:E2.
    + split; [discriminate|]. intros H. exfalso. apply existsb_exists in E2. destruct E2 as (i & Hi & E). destruct (H i Hi) as (_ & _ & A3).
      apply qleb_iff in E. lra.
    + split; [|reflexivity]. intros _ i Hi. pose proof (proj1 (existsb_false _ _) E1 i Hi) as F1. pose proof (proj1 (existsb_false _ _) E2 i Hi) as F2.
      cbv beta in F1, F2. apply orb_false_iff in F1. destruct F1 as (F1 & F1'). apply qltb_false_iff in F1, F1'.
      repeat split; auto. destruct (Qlt_le_dec (fst i) (snd i)) as [L|L]; [exact L|]. apply qleb_iff in L. congruence. Qed.
Lemma validate_ivs_cases l : validate_ivs l = Ok tt \/ validate_ivs l = Raise ValueError.
Proof. unfold validate_ivs. destruct (existsb (fun i => qltb (fst i) 0 || qltb (snd i) 0) l); [now right|].
  destruct (existsb (fun i => qleb (snd i) (fst i)) l); auto. Qed.
Lemma validate_inv ri rp ei ep u : validate ri rp ei ep = Ok u ->
  ivs_valid ri /\ ivs_valid ei /\ length ri = length rp /\ length ei = length ep /\
  (forall p, In p rp -> 0 < fst p) /\ (forall p, In p ep -> 0 < fst p).
Proof. unfold validate, validate_intervals2. intros H. apply bind_ok in H. destruct H as ([] & Hv & H).
  apply bind_ok in Hv. destruct Hv as ([] & V1 & V2). apply validate_ivs_ok in V1, V2.
  destruct (length ri =? length rp)%nat eqn:L1; [|discriminate]. destruct (length ei =? length ep)%nat eqn:L2; [|discriminate]. cbn [negb] in H.
  destruct (existsb (fun p => qleb (fst p) 0) rp) eqn:E1; [discriminate|]. destruct (existsb (fun p => qleb (fst p) 0) ep) eqn:E2; [discriminate|].
  apply Nat.eqb_eq in L1, L2. split; [exact V1|]. split; [exact V2|]. split; [exact L1|]. split; [exact L2|]. split.
  - intros p Hp. pose proof (proj1 (existsb_false _ _) E1 p Hp) as F. cbv beta in F.
    destruct (Qlt_le_dec 0 (fst p)) as [L|L]; [exact L|]. apply qleb_iff in L. congruence.
  - intros p Hp. pose proof (proj1 (existsb_false _ _) E2 p Hp) as F. cbv beta in F.
    destruct (Qlt_le_dec 0 (fst p)) as [L|L]; [exact L|]. apply qleb_iff in L. congruence. Qed.
Lemma combine_map_length {A B C} (l : list A) (k : list B) (g : B -> C) : length l = length k -> length (combine l (map g k)) = length k.
Proof. intros H. rewrite combine_length, map_length. lia. Qed.
Lemma zip_notes_length ri rp : length ri = length rp -> length (zip_notes ri rp) = length rp.
Proof. intros H. exact (combine_map_length ri rp snd H). Qed.
Lemma zip_notes_fst ri rp : length ri = length rp -> map fst (zip_notes ri rp) = ri.
Proof. unfold zip_notes. revert rp. induction ri as [|i t IH]; intros [|p rp] H; simpl in *; try discriminate; [reflexivity|]. f_equal. apply IH. lia. Qed.

(* ---------- inversion of the score functions ---------- *)
Lemma prf_inv ri rp ei ep otol ptol ratio mintol strict beta P R F A :
  precision_recall_f1_overlap ri rp ei ep otol ptol ratio mintol strict beta = Ok (Some (P, R, F, A)) ->
  validate ri rp ei ep = Ok tt /\
  (((length rp = 0 \/ length ep = 0)%nat /\ (P, R, F, A) = (0, 0, 0, Fin 0)) \/
   ((0 < length rp)%nat /\ (0 < length ep)%nat /\ exists m,
      match_notes (zip_notes ri rp) (zip_notes ei ep) otol ptol ratio mintol strict = Ok (Some m) /\
      average_overlap_ratio ri ei m = Ok A /\ prf_of (length m) (length rp) (length ep) beta = (P, R, F))).
Proof. unfold precision_recall_f1_overlap. intros H. apply bind_ok in H. destruct H as ([] & Hv & H). split; [exact Hv|].
  destruct ((length rp =? 0)%nat || (length ep =? 0)%nat) eqn:E.
  - left. injection H as <- <- <- <-. split; [|reflexivity]. apply orb_true_iff in E. destruct E as [E|E]; apply Nat.eqb_eq in E; auto.
  - right. apply orb_false_iff in E. destruct E as (E1 & E2). apply Nat.eqb_neq in E1, E2. split; [lia|]. split; [lia|].
    apply bind_ok in H. destruct H as ([m|] & Hm & H); [|discriminate]. exists m. split; [exact Hm|].
    apply bind_ok in H. destruct H as (a & Ha & H). destruct (prf_of (length m) (length rp) (length ep) beta) as [[p r] f].
    injection H as <- <- <- <-. auto. Qed.
Lemma onset_prf_inv ref est tol strict beta P R F :
  onset_precision_recall_f1 ref est tol strict beta = Ok (Some (P, R, F)) ->
  ivs_valid ref /\ ivs_valid est /\
  (((length ref = 0 \/ length est = 0)%nat /\ (P, R, F) = (0, 0, 0)) \/
   ((0 < length ref)%nat /\ (0 < length est)%nat /\ exists m,
      match_pred (onset_hitb strict tol) ref est = Some m /\ prf_of (length m) (length ref) (length est) beta = (P, R, F))).
Proof. unfold onset_precision_recall_f1, validate_intervals2. intros H. apply bind_ok in H. destruct H as ([] & Hv & H).
  apply bind_ok in Hv. destruct Hv as ([] & V1 & V2). apply validate_ivs_ok in V1, V2. split; [exact V1|]. split; [exact V2|].
  destruct ((length ref =? 0)%nat || (length est =? 0)%nat) eqn:E.
  - left. injection H as <- <- <-. split; [|reflexivity]. apply orb_true_iff in E. destruct E as [E|E]; apply Nat.eqb_eq in E; auto.
  - right. apply orb_false_iff in E. destruct E as (E1 & E2). apply Nat.eqb_neq in E1, E2. split; [lia|]. split; [lia|].
    unfold match_note_onsets in H. cbn [bind] in H. destruct (match_pred (onset_hitb strict tol) ref est) as [m|]; [|discriminate].
    exists m. split; [reflexivity|]. cbn [option_map] in H. congruence. Qed.
Lemma offset_prf_inv ref est ratio mintol strict beta P R F :
  offset_precision_recall_f1 ref est ratio mintol strict beta = Ok (Some (P, R, F)) ->
  ivs_valid ref /\ ivs_valid est /\
  (((length ref = 0 \/ length est = 0)%nat /\ (P, R, F) = (0, 0, 0)) \/
   ((0 < length ref)%nat /\ (0 < length est)%nat /\ exists m,
      match_pred (offset_hitb strict ratio mintol) ref est = Some m /\ prf_of (length m) (length ref) (length est) beta = (P, R, F))).
Proof. unfold offset_precision_recall_f1, validate_intervals2. intros H. apply bind_ok in H. destruct H as ([] & Hv & H).
  apply bind_ok in Hv. destruct Hv as ([] & V1 & V2). pose proof V1 as V1'. apply validate_ivs_ok in V1, V2. split; [exact V1|]. split; [exact V2|].
  destruct ((length ref =? 0)%nat || (length est =? 0)%nat) eqn:E.
  - left. injection H as <- <- <-. split; [|reflexivity]. apply orb_true_iff in E. destruct E as [E|E]; apply Nat.eqb_eq in E; auto.
  - right. apply orb_false_iff in E. destruct E as (E1 & E2). apply Nat.eqb_neq in E1, E2. split; [lia|]. split; [lia|].
    unfold match_note_offsets in H. rewrite V1' in H. cbn [bind] in H. destruct (match_pred (offset_hitb strict ratio mintol) ref est) as [m|]; [|discriminate].
    exists m. split; [reflexivity|]. cbn [option_map] in H. congruence. Qed.

Lemma zeros_range (P R F : Q) : (P, R, F) = (0, 0, 0) -> 0 <= P <= 1 /\ 0 <= R <= 1 /\ 0 <= F <= 1.
Proof. intros [= -> -> ->]. lra. Qed.

(* C01 *)
Theorem prf_range ri rp ei ep otol ptol ratio mintol strict beta P R F A :
  precision_recall_f1_overlap ri rp ei ep otol ptol ratio mintol strict beta = Ok (Some (P, R, F, A)) ->
  0 <= P <= 1 /\ 0 <= R <= 1 /\ 0 <= F <= 1.
Proof. intros H. apply prf_inv in H. destruct H as (Hv & [(_ & [= -> -> -> _])|(Hr & He & m & Hm & _ & Hp)]); [lra|].
  apply validate_inv in Hv. destruct Hv as (_ & _ & L1 & L2 & _). apply match_notes_inv in Hm. destruct Hm as (Hm & _).
  apply match_pred_le_min in Hm. rewrite !zip_notes_length in Hm by auto. eapply prf_of_range; [| | | |exact Hp]; lia. Qed.
Theorem onset_prf_range ref est tol strict beta P R F :
  onset_precision_recall_f1 ref est tol strict beta = Ok (Some (P, R, F)) -> 0 <= P <= 1 /\ 0 <= R <= 1 /\ 0 <= F <= 1.
Proof. intros H. apply onset_prf_inv in H. destruct H as (_ & _ & [(_ & Hz)|(Hr & He & m & Hm & Hp)]); [now apply zeros_range|].
  apply match_pred_le_min in Hm. eapply prf_of_range; [| | | |exact Hp]; lia. Qed.
Theorem offset_prf_range ref est ratio mintol strict beta P R F :
  offset_precision_recall_f1 ref est ratio mintol strict beta = Ok (Some (P, R, F)) -> 0 <= P <= 1 /\ 0 <= R <= 1 /\ 0 <= F <= 1.
Proof. intros H. apply offset_prf_inv in H. destruct H as (_ & _ & [(_ & Hz)|(Hr & He & m & Hm & Hp)]); [now apply zeros_range|].
  apply match_pred_le_min in Hm. eapply prf_of_range; [| | | |exact Hp]; lia. Qed.

(* ---------- average overlap ratio ---------- *)
Lemma overlap_ratio_range r e : fst r < snd r -> fst e < snd e ->
  exists q, overlap_ratio r e = Fin q /\ -1 < q /\ q <= 1.
Proof. intros Hr He. unfold overlap_ratio, xdiv.
  set (N := Qmin (snd r) (snd e) - Qmax (fst r) (fst e)). set (D := Qmax (snd r) (snd e) - Qmin (fst r) (fst e)).
  assert (HD : 0 < D /\ N <= D /\ - D < N).
  { unfold N, D.
    destruct (Q.max_spec (snd r) (snd e)) as [(A1 & A2)|(A1 & A2)], (Q.min_spec (snd r) (snd e)) as [(B1 & B2)|(B1 & B2)],
             (Q.max_spec (fst r) (fst e)) as [(C1 & C2)|(C1 & C2)], (Q.min_spec (fst r) (fst e)) as [(D1 & D2)|(D1 & D2)];
    repeat split; lra. }
  destruct HD as (H1 & H2 & H3).
  destruct (qeqb D 0) eqn:E; [apply qeqb_iff in E; lra|]. exists (N / D). split; [reflexivity|]. split.
  - apply Qlt_shift_div_l; [exact H1|lra].
  - apply Qle_shift_div_r; [exact H1|lra]. Qed.

Definition fin_in (x : xval) : Prop := exists q, x = Fin q /\ -1 <= q /\ q <= 1.
Lemma ratios_range ref est m : ivs_valid ref -> ivs_valid est -> forall rs, ratios ref est m = Ok rs -> Forall fin_in rs /\ length rs = length m.
Proof. intros Vr Ve. induction m as [|[i j] t IH]; intros rs H; cbn [ratios] in H.
  - injection H as <-. split; [constructor|reflexivity].
  - destruct (nth_error ref i) as [r|] eqn:Er; [|discriminate]. destruct (nth_error est j) as [e|] eqn:Ee; [|discriminate].
    apply bind_ok in H. destruct H as (rs' & H' & [= <-]). destruct (IH _ H') as (F & L). split; [|simpl; now rewrite L].
    constructor; [|exact F]. apply nth_error_In in Er, Ee. destruct (Vr _ Er) as (_ & _ & R3). destruct (Ve _ Ee) as (_ & _ & E3).
    destruct (overlap_ratio_range r e R3 E3) as (q & Hq & Q1 & Q2). exists q. split; [exact Hq|split; lra]. Qed.
Lemma xsum_range rs : Forall fin_in rs -> exists s, fold_right xadd (Fin 0) rs = Fin s /\ - nQ (length rs) <= s /\ s <= nQ (length rs).
Proof. induction 1 as [|x t (q & -> & Q1 & Q2) _ (s & Hs & S1 & S2)]; cbn [fold_right length].
  - exists 0. split; [reflexivity|]. change (nQ 0) with 0. split; lra.
  - rewrite Hs. cbn [xadd]. exists (q + s). split; [reflexivity|]. rewrite nQ_S. split; lra. Qed.
Lemma xmean_range rs : rs <> [] -> Forall fin_in rs -> exists a, xmean rs = Fin a /\ -1 <= a /\ a <= 1.
Proof. intros Hne HF. destruct (xsum_range rs HF) as (s & Hs & S1 & S2). unfold xmean. rewrite Hs.
  assert (Hn : 0 < nQ (length rs)) by (apply nQ_pos; destruct rs; [congruence|simpl; lia]).
  exists (s / nQ (length rs)). split; [reflexivity|]. split; [apply Qle_shift_div_l|apply Qle_shift_div_r]; auto; lra. Qed.
(* C01 for the overlap ratio, on validated intervals; the documented range [0, 1] does not hold (aor_negative_example) *)
Theorem aor_range ref est m A : ivs_valid ref -> ivs_valid est -> average_overlap_ratio ref est m = Ok A ->
  exists a, A = Fin a /\ -1 <= a /\ a <= 1.
Proof. intros Vr Ve H. unfold average_overlap_ratio in H. apply bind_ok in H. destruct H as (rs & Hrs & [= <-]).
  destruct (ratios_range ref est m Vr Ve rs Hrs) as (HF & _). destruct rs as [|x t]; [exists 0; split; [reflexivity|split; lra]|].
  apply xmean_range; [discriminate|exact HF]. Qed.
Theorem aor_le_1 ri rp ei ep otol ptol ratio mintol strict beta P R F A :
  precision_recall_f1_overlap ri rp ei ep otol ptol ratio mintol strict beta = Ok (Some (P, R, F, A)) ->
  exists a, A = Fin a /\ -1 <= a /\ a <= 1.
Proof. intros H. apply prf_inv in H. destruct H as (Hv & [(_ & [= _ _ _ ->])|(_ & _ & m & _ & Ha & _)]); [exists 0; split; [reflexivity|split; lra]|].
  apply validate_inv in Hv. destruct Hv as (V1 & V2 & _). exact (aor_range ri ei m A V1 V2 Ha). Qed.

(* the float literals 0.05, 0.2 (exact values of the doubles) *)
Definition d005 : Q := 3602879701896397 # 72057594037927936.
Definition d02 : Q := 3602879701896397 # 18014398509481984.
(* AOR is documented to lie in [0, 1]; two matched notes that do not overlap give a negative ratio.
   mir_eval: precision_recall_f1_overlap([[0, 1/64]], [440], [[3/64, 4/64]], [440]) = (1.0, 1.0, 1.0, -0.5) *)
Theorem aor_negative_example : exists P R F a,
  precision_recall_f1_overlap [(0, 1#64)] [(440, 35#4)] [(3#64, 4#64)] [(440, 35#4)] d005 50 (Some d02) d005 false 1
    = Ok (Some (P, R, F, Fin a)) /\ P == 1 /\ R == 1 /\ F == 1 /\ a == -(1#2).
Proof. do 4 eexists. split; [vm_compute; reflexivity|]. repeat split; reflexivity. Qed.

(* ================================================================================================ *)
(* E. a perfect estimate (C02)                                                                       *)
(* ================================================================================================ *)
Lemma fsub_abs_self a : fsub_abs a a = 0.
Proof. unfold fsub_abs. apply fl64_zero. assert (H : a - a == 0) by ring. rewrite H. reflexivity. Qed.
Lemma np_around4_0 : np_around4 0 = 0.
Proof. vm_compute. reflexivity. Qed.
Lemma onset_hit_self strict tol r : 0 < tol -> onset_hitb strict tol r r = true.
Proof. intros H. unfold onset_hitb. rewrite fsub_abs_self, np_around4_0. apply cmpb_iff. destruct strict; simpl; lra. Qed.
Lemma pitch_hit_self strict ptol l : 0 < ptol -> pitch_hitb strict ptol l l = true.
Proof. intros H. unfold pitch_hitb. assert (H0 : Qabs (l - l) == 0) by (assert (E : l - l == 0) by ring; rewrite E; reflexivity).
  rewrite (fl64_zero _ H0). assert (H1 : 1200 * 0 == 0) by ring. rewrite (fl64_zero _ H1). apply cmpb_iff. destruct strict; simpl; lra. Qed.
Lemma offset_hit_self strict ratio mintol r : 0 < mintol -> offset_hitb strict ratio mintol r r = true.
Proof. intros H. unfold offset_hitb, offset_tol. rewrite fsub_abs_self, np_around4_0. apply cmpb_iff.
  pose proof (Q.le_max_r (fl64 (ratio * duration r)) mintol). destruct strict; simpl; lra. Qed.
Lemma note_hit_self strict otol ptol ratio mintol n : 0 < otol -> 0 < ptol -> 0 < mintol ->
  note_hitb strict otol ptol ratio mintol n n = true.
Proof. intros H1 H2 H3. unfold note_hitb. rewrite onset_hit_self, pitch_hit_self by auto. destruct ratio; [now rewrite offset_hit_self|reflexivity]. Qed.

(* est = ref: precision = recall = F = 1 for positive tolerances, both values of strict *)
Theorem prf_self ri rp otol ptol ratio mintol strict beta P R F A :
  0 < otol -> 0 < ptol -> 0 < mintol -> (0 < length rp)%nat ->
  precision_recall_f1_overlap ri rp ri rp otol ptol ratio mintol strict beta = Ok (Some (P, R, F, A)) ->
  P == 1 /\ R == 1 /\ F == 1.
Proof. intros H1 H2 H3 Hn H. apply prf_inv in H. destruct H as (Hv & [([E|E] & _)|(_ & _ & m & Hm & _ & Hp)]); try lia.
  apply validate_inv in Hv. destruct Hv as (_ & _ & L & _). apply match_notes_inv in Hm. destruct Hm as (Hm & _).
  apply match_pred_self in Hm; [|intros; now apply note_hit_self]. rewrite zip_notes_length in Hm by auto. rewrite Hm in Hp.
  eapply prf_of_full; eauto. Qed.
Theorem onset_prf_self ref tol strict beta P R F :
  0 < tol -> (0 < length ref)%nat -> onset_precision_recall_f1 ref ref tol strict beta = Ok (Some (P, R, F)) -> P == 1 /\ R == 1 /\ F == 1.
Proof. intros H1 Hn H. apply onset_prf_inv in H. destruct H as (_ & _ & [([E|E] & _)|(_ & _ & m & Hm & Hp)]); try lia.
  apply match_pred_self in Hm; [|intros; now apply onset_hit_self]. rewrite Hm in Hp. eapply prf_of_full; eauto. Qed.
Theorem offset_prf_self ref ratio mintol strict beta P R F :
  0 < mintol -> (0 < length ref)%nat -> offset_precision_recall_f1 ref ref ratio mintol strict beta = Ok (Some (P, R, F)) -> P == 1 /\ R == 1 /\ F == 1.
Proof. intros H1 Hn H. apply offset_prf_inv in H. destruct H as (_ & _ & [([E|E] & _)|(_ & _ & m & Hm & Hp)]); try lia.
  apply match_pred_self in Hm; [|intros; now apply offset_hit_self]. rewrite Hm in Hp. eapply prf_of_full; eauto. Qed.
Example prf_self_sat : exists P R F A,
  precision_recall_f1_overlap [(0, 1); (2, 3)] [(440, 35#4); (220, 31#4)] [(0, 1); (2, 3)] [(440, 35#4); (220, 31#4)] d005 50 (Some d02) d005 true 1
  = Ok (Some (P, R, F, A)).
Proof. do 4 eexists. vm_compute. reflexivity. Qed.

(* ... but the Average Overlap Ratio of a perfect estimate is NOT always 1: the maximum matching that the algorithm
   returns need not be the identity when distinct notes are within tolerance of each other.
   mir_eval: ri = [[0,1],[0.125,1.125],[0.0625,1.0625]], p = [440]*3:
   precision_recall_f1_overlap(ri, p, ri, p, onset_tolerance=0.0625) = (1.0, 1.0, 1.0, 0.9215686274509803);
   with the default parameters ri = [[0,1],[0.1,1.1],[0.05,1.05]] gives AOR = 0.9365079365079364 *)
Theorem prf_self_aor_refuted : exists ri rp otol ptol ratio mintol strict beta P R F a,
  0 < otol /\ 0 < ptol /\ 0 < mintol /\
  precision_recall_f1_overlap ri rp ri rp otol ptol ratio mintol strict beta = Ok (Some (P, R, F, Fin a)) /\
  P == 1 /\ a < 1.
Proof. exists [(0, 1); (1#8, 9#8); (1#16, 17#16)], [(440, 35#4); (440, 35#4); (440, 35#4)], (1#16), 50, (Some d02), d005, false, 1.
  do 4 eexists. split; [reflexivity|]. split; [reflexivity|]. split; [reflexivity|]. split; [vm_compute; reflexivity|]. split; reflexivity. Qed.
Example prf_self_aor_refuted_defaults : exists P R F a,
  let ri := [(0, 1); (3602879701896397 # 36028797018963968, 2476979795053773 # 2251799813685248);
             (3602879701896397 # 72057594037927936, 4728779608739021 # 4503599627370496)] in
  let rp := [(440, 35#4); (440, 35#4); (440, 35#4)] in
  precision_recall_f1_overlap ri rp ri rp d005 50 (Some d02) d005 false 1 = Ok (Some (P, R, F, Fin a)) /\ P == 1 /\ a < 1.
Proof. do 4 eexists. cbv zeta. split; [vm_compute; reflexivity|]. split; reflexivity. Qed.
(* what does hold: pairs matched with themselves have ratio 1 *)
Lemma overlap_ratio_self r : fst r < snd r -> exists q, overlap_ratio r r = Fin q /\ q == 1.
Proof. intros H. unfold overlap_ratio, xdiv.
  destruct (Q.max_spec (snd r) (snd r)) as [(A1 & A2)|(A1 & A2)], (Q.min_spec (snd r) (snd r)) as [(B1 & B2)|(B1 & B2)],
           (Q.max_spec (fst r) (fst r)) as [(C1 & C2)|(C1 & C2)], (Q.min_spec (fst r) (fst r)) as [(D1 & D2)|(D1 & D2)]; try lra.
  destruct (qeqb (Qmax (snd r) (snd r) - Qmin (fst r) (fst r)) 0) eqn:E; [apply qeqb_iff in E; lra|].
  eexists. split; [reflexivity|]. rewrite A2, B2, C2, D2. field. lra. Qed.
Theorem aor_identity_matching ref m A : ivs_valid ref -> m <> [] -> (forall i j, In (i, j) m -> i = j) ->
  average_overlap_ratio ref ref m = Ok A -> exists a, A = Fin a /\ a == 1.
Proof. intros V Hne Hd H. unfold average_overlap_ratio in H. apply bind_ok in H. destruct H as (rs & Hrs & [= <-]).
  assert (HF : Forall (fun x => exists q, x = Fin q /\ q == 1) rs /\ length rs = length m).
  { clear Hne. revert rs Hrs. induction m as [|[i j] t IH]; intros rs Hrs; cbn [ratios] in Hrs.
    - injection Hrs as <-. split; [constructor|reflexivity].
    - assert (i = j) by (apply Hd; now left). subst j. destruct (nth_error ref i) as [r|] eqn:Er; [|discriminate].
      apply bind_ok in Hrs. destruct Hrs as (rs' & H' & [= <-]). destruct (IH (fun a b Hab => Hd a b (or_intror Hab)) _ H') as (F & L).
      split; [|simpl; now rewrite L]. constructor; [|exact F]. apply nth_error_In in Er. destruct (V _ Er) as (_ & _ & R3). now apply overlap_ratio_self. }
  destruct HF as (HF & HL). assert (HS : exists s, fold_right xadd (Fin 0) rs = Fin s /\ s == nQ (length rs)).
  { clear HL Hrs. induction HF as [|x t (q & -> & Hq) _ (s & Hs & Es)]; cbn [fold_right length].
    - exists 0. split; reflexivity.
    - rewrite Hs. cbn [xadd]. exists (q + s). split; [reflexivity|]. rewrite nQ_S. lra. }
  destruct HS as (s & Hs & Es). destruct rs as [|x t]; [destruct m; [congruence|discriminate]|].
  unfold xmean. rewrite Hs. eexists. split; [reflexivity|]. rewrite Es. apply Qdiv_self. apply nQ_pos. simpl; lia. Qed.

(* ================================================================================================ *)
(* F. exchanging reference and estimate (C06)                                                        *)
(* ================================================================================================ *)
Lemma fsub_abs_sym a b : fsub_abs a b = fsub_abs b a.
Proof. unfold fsub_abs. now rewrite Qabs_Qminus. Qed.
Lemma onset_hitb_sym strict tol r e : onset_hitb strict tol e r = onset_hitb strict tol r e.
Proof. unfold onset_hitb. now rewrite fsub_abs_sym. Qed.
Lemma pitch_hitb_sym strict ptol a b : pitch_hitb strict ptol b a = pitch_hitb strict ptol a b.
Proof. unfold pitch_hitb. now rewrite Qabs_Qminus. Qed.
Lemma note_hitb_no_offset_sym strict otol ptol mintol r e :
  note_hitb strict otol ptol None mintol e r = note_hitb strict otol ptol None mintol r e.
Proof. unfold note_hitb. now rewrite onset_hitb_sym, pitch_hitb_sym. Qed.

Lemma f_measure_sym p r beta : beta == 1 -> f_measure p r beta == f_measure r p beta.
Proof. intros Hb. unfold f_measure. rewrite andb_comm. destruct (qeqb r 0 && qeqb p 0); [reflexivity|]. rewrite Hb.
  destruct (Qeq_dec (p + r) 0) as [Z|NZ].
  - unfold Qdiv. rewrite (Qinv_0 (1 * 1 * p + r)), (Qinv_0 (1 * 1 * r + p)) by lra. ring.
  - field. intros Z0; apply NZ; lra. Qed.
Lemma prf_of_swap m nr ne beta P R F P' R' F' :
  prf_of m nr ne beta = (P, R, F) -> prf_of m ne nr beta = (P', R', F') -> P == R' /\ R == P' /\ (beta == 1 -> F == F').
Proof. unfold prf_of. cbv zeta. intros [= <- <- <-] [= <- <- <-]. split; [reflexivity|]. split; [reflexivity|]. apply f_measure_sym. Qed.

(* onset-only matching: swapping the two annotations exchanges precision and recall (F is symmetric for beta = 1) *)
Theorem onset_prf_swap ref est tol strict beta P R F P' R' F' :
  onset_precision_recall_f1 ref est tol strict beta = Ok (Some (P, R, F)) ->
  onset_precision_recall_f1 est ref tol strict beta = Ok (Some (P', R', F')) ->
  P == R' /\ R == P' /\ (beta == 1 -> F == F').
Proof. intros H1 H2. apply onset_prf_inv in H1, H2.
  destruct H1 as (_ & _ & [(E1 & [= -> -> ->])|(A1 & A2 & m & Hm & Hp)]), H2 as (_ & _ & [(E2 & [= -> -> ->])|(B1 & B2 & m' & Hm' & Hp')]);
    try lia; [split; [reflexivity|split; [reflexivity|intros; reflexivity]]|].
  rewrite (match_pred_transpose _ (onset_hitb strict tol) _ _ _ _ (onset_hitb_sym strict tol) Hm Hm') in Hp.
  eapply prf_of_swap; eauto. Qed.
(* note matching without the offset criterion is symmetric as well *)
Theorem prf_no_offset_swap ri rp ei ep otol ptol mintol strict beta P R F A P' R' F' A' :
  precision_recall_f1_overlap ri rp ei ep otol ptol None mintol strict beta = Ok (Some (P, R, F, A)) ->
  precision_recall_f1_overlap ei ep ri rp otol ptol None mintol strict beta = Ok (Some (P', R', F', A')) ->
  P == R' /\ R == P' /\ (beta == 1 -> F == F').
Proof. intros H1 H2. apply prf_inv in H1, H2.
  destruct H1 as (_ & [(E1 & [= -> -> -> _])|(A1 & A2 & m & Hm & _ & Hp)]), H2 as (_ & [(E2 & [= -> -> -> _])|(B1 & B2 & m' & Hm' & _ & Hp')]);
    try lia; [split; [reflexivity|split; [reflexivity|intros; reflexivity]]|].
  apply match_notes_inv in Hm, Hm'. destruct Hm as (Hm & _), Hm' as (Hm' & _).
  rewrite (match_pred_transpose _ (note_hitb strict otol ptol None mintol) _ _ _ _ (note_hitb_no_offset_sym strict otol ptol mintol) Hm Hm') in Hp.
  eapply prf_of_swap; eauto. Qed.
(* the offset criterion uses the duration of the *reference* note, so it is not symmetric:
   ref = [[0, 10]], est = [[9, 11]]: |10 - 11| <= max(0.2 * 10, 0.05) but not <= max(0.2 * 2, 0.05).
   mir_eval: offset_precision_recall_f1([[0,10]], [[9,11]]) = (1.0, 1.0, 1.0), swapped: (0.0, 0.0, 0.0) *)
Theorem offset_swap_counterexample : exists ref est P R F P' R' F',
  offset_precision_recall_f1 ref est d02 d005 false 1 = Ok (Some (P, R, F)) /\
  offset_precision_recall_f1 est ref d02 d005 false 1 = Ok (Some (P', R', F')) /\ P == 1 /\ R' == 0.
Proof. exists [(0, 10)], [(9, 11)]. do 6 eexists. split; [vm_compute; reflexivity|]. split; [vm_compute; reflexivity|]. split; reflexivity. Qed.
Theorem prf_offset_swap_counterexample : exists ri rp ei ep P R F A P' R' F' A',
  precision_recall_f1_overlap ri rp ei ep d005 50 (Some d02) d005 false 1 = Ok (Some (P, R, F, A)) /\
  precision_recall_f1_overlap ei ep ri rp d005 50 (Some d02) d005 false 1 = Ok (Some (P', R', F', A')) /\ P == 1 /\ R' == 0.
Proof. exists [(0, 8)], [(440, 35#4)], [(0, 13#2)], [(440, 35#4)]. do 8 eexists. split; [vm_compute; reflexivity|]. split; [vm_compute; reflexivity|]. split; reflexivity. Qed.

(* ================================================================================================ *)
(* G. monotonicity in the tolerances, strict vs non-strict, with/without offsets (C07)               *)
(* ================================================================================================ *)
Lemma duration_nonneg r : 0 <= duration r.
Proof. unfold duration, fsub_abs. apply fl64_nonneg, Qabs_nonneg. Qed.
Lemma offset_tol_mono ratio ratio' mintol mintol' r : 0 <= ratio -> ratio <= ratio' -> mintol <= mintol' ->
  offset_tol ratio mintol r <= offset_tol ratio' mintol' r.
Proof. intros H0 H1 H2. unfold offset_tol. pose proof (duration_nonneg r) as Hd.
  assert (H : fl64 (ratio * duration r) <= fl64 (ratio' * duration r)) by (apply fl64_mono; nra).
  eapply Qle_trans; [apply Q.max_le_compat_r; exact H|apply Q.max_le_compat_l; exact H2]. Qed.
(* widening: each tolerance may grow; the offset criterion may be widened or dropped *)
Definition ratio_le (a b : option Q) : Prop :=
  match a, b with Some q, Some q' => 0 <= q /\ q <= q' | _, None => True | None, Some _ => False end.
Lemma onset_hitb_mono strict tol tol' r e : tol <= tol' -> onset_hitb strict tol r e = true -> onset_hitb strict tol' r e = true.
Proof. intros H. apply cmpb_mono, H. Qed.
Lemma pitch_hitb_mono strict tol tol' a b : tol <= tol' -> pitch_hitb strict tol a b = true -> pitch_hitb strict tol' a b = true.
Proof. intros H. apply cmpb_mono, H. Qed.
Lemma offset_hitb_mono strict ratio ratio' mintol mintol' r e : 0 <= ratio -> ratio <= ratio' -> mintol <= mintol' ->
  offset_hitb strict ratio mintol r e = true -> offset_hitb strict ratio' mintol' r e = true.
Proof. intros H0 H1 H2. apply cmpb_mono. now apply offset_tol_mono. Qed.
Theorem note_hitb_mono strict otol otol' ptol ptol' ratio ratio' mintol mintol' r e :
  otol <= otol' -> ptol <= ptol' -> mintol <= mintol' -> ratio_le ratio ratio' ->
  note_hitb strict otol ptol ratio mintol r e = true -> note_hitb strict otol' ptol' ratio' mintol' r e = true.
Proof. intros H1 H2 H3 H4. unfold note_hitb. rewrite !andb_true_iff. intros ((A1 & A2) & A3).
  split; [split; [eapply onset_hitb_mono; eauto|eapply pitch_hitb_mono; eauto]|].
  destruct ratio as [q|], ratio' as [q'|]; cbn [ratio_le] in H4.
  - destruct H4. eapply offset_hitb_mono; eauto.
  - reflexivity.
  - destruct H4.
  - reflexivity. Qed.
(* the number of matched notes never decreases when a tolerance is widened (each one separately: take the others equal) *)
Theorem hits_tolerance_mono strict otol otol' ptol ptol' ratio ratio' mintol mintol' ref est l l' :
  otol <= otol' -> ptol <= ptol' -> mintol <= mintol' -> ratio_le ratio ratio' ->
  match_notes ref est otol ptol ratio mintol strict = Ok (Some l) ->
  match_notes ref est otol' ptol' ratio' mintol' strict = Ok (Some l') -> (length l <= length l')%nat.
Proof. intros H1 H2 H3 H4 Hm Hm'. apply match_notes_inv in Hm, Hm'. destruct Hm as (Hm & _), Hm' as (Hm' & _).
  eapply match_pred_mono; [|exact Hm|exact Hm']. intros r e _ _. now apply note_hitb_mono. Qed.
Theorem onset_hits_tolerance_mono strict tol tol' ref est l l' : tol <= tol' ->
  match_note_onsets ref est tol strict = Ok (Some l) -> match_note_onsets ref est tol' strict = Ok (Some l') -> (length l <= length l')%nat.
Proof. intros H Hm Hm'. apply match_note_onsets_inv in Hm, Hm'. eapply match_pred_mono; [|exact Hm|exact Hm']. intros r e _ _. now apply onset_hitb_mono. Qed.
Theorem offset_hits_tolerance_mono strict ratio ratio' mintol mintol' ref est l l' : 0 <= ratio -> ratio <= ratio' -> mintol <= mintol' ->
  match_note_offsets ref est ratio mintol strict = Ok (Some l) -> match_note_offsets ref est ratio' mintol' strict = Ok (Some l') ->
  (length l <= length l')%nat.
Proof. intros H0 H1 H2 Hm Hm'. apply match_note_offsets_inv in Hm, Hm'. destruct Hm as (Hm & _), Hm' as (Hm' & _).
  eapply match_pred_mono; [|exact Hm|exact Hm']. intros r e _ _. now apply offset_hitb_mono. Qed.
Example hits_tolerance_mono_sat :
  let n := [((0, 1), 35#4)] in let e := [((1#16, 1), 35#4)] in
  match_notes n e d005 50 (Some d02) d005 false = Ok (Some []) /\ match_notes n e (1#16) 50 (Some d02) d005 false = Ok (Some [(0, 0)]%nat).
Proof. split; vm_compute; reflexivity. Qed.

(* strict = True hits are hits with strict = False *)
Theorem strict_subset otol ptol ratio mintol r e :
  note_hitb true otol ptol ratio mintol r e = true -> note_hitb false otol ptol ratio mintol r e = true.
Proof. unfold note_hitb. rewrite !andb_true_iff. intros ((A1 & A2) & A3).
  split; [split; apply cmpb_strict_weak; assumption|]. destruct ratio; [apply cmpb_strict_weak; assumption|reflexivity]. Qed.
Theorem strict_subset_count otol ptol ratio mintol ref est l l' :
  match_notes ref est otol ptol ratio mintol true = Ok (Some l) -> match_notes ref est otol ptol ratio mintol false = Ok (Some l') ->
  (length l <= length l')%nat.
Proof. intros Hm Hm'. apply match_notes_inv in Hm, Hm'. destruct Hm as (Hm & _), Hm' as (Hm' & _).
  eapply match_pred_mono; [|exact Hm|exact Hm']. intros r e _ _. apply strict_subset. Qed.
Theorem strict_subset_onsets tol ref est l l' :
  match_note_onsets ref est tol true = Ok (Some l) -> match_note_onsets ref est tol false = Ok (Some l') -> (length l <= length l')%nat.
Proof. intros Hm Hm'. apply match_note_onsets_inv in Hm, Hm'. eapply match_pred_mono; [|exact Hm|exact Hm']. intros r e _ _. apply cmpb_strict_weak. Qed.
Theorem strict_subset_offsets ratio mintol ref est l l' :
  match_note_offsets ref est ratio mintol true = Ok (Some l) -> match_note_offsets ref est ratio mintol false = Ok (Some l') -> (length l <= length l')%nat.
Proof. intros Hm Hm'. apply match_note_offsets_inv in Hm, Hm'. destruct Hm as (Hm & _), Hm' as (Hm' & _).
  eapply match_pred_mono; [|exact Hm|exact Hm']. intros r e _ _. apply cmpb_strict_weak. Qed.

(* matched notes: with offsets <= without offsets <= onsets only *)
Theorem with_offset_le_no_offset_le_onset_only ref est otol ptol q mintol strict l1 l2 l3 :
  match_notes ref est otol ptol (Some q) mintol strict = Ok (Some l1) ->
  match_notes ref est otol ptol None mintol strict = Ok (Some l2) ->
  match_note_onsets (map fst ref) (map fst est) otol strict = Ok (Some l3) ->
  (length l1 <= length l2 <= length l3)%nat.
Proof. intros H1 H2 H3. apply match_notes_inv in H1, H2. destruct H1 as (H1 & _), H2 as (H2 & _). apply match_note_onsets_inv in H3.
  rewrite match_pred_map in H3. split.
  - eapply match_pred_mono; [|exact H1|exact H2]. intros r e _ _. unfold note_hitb. rewrite !andb_true_iff. intros ((A1 & A2) & _); auto.
  - eapply match_pred_mono; [|exact H2|exact H3]. intros r e _ _. unfold note_hitb. rewrite !andb_true_iff. intros ((A1 & _) & _); exact A1. Qed.

(* ================================================================================================ *)
(* H. velocity                                                                                        *)
(* ================================================================================================ *)
Lemma filter2_In {A B} (f : B -> bool) (l : list A) : forall k x, In x (filter2 f l k) -> In x l.
Proof. induction l as [|a t IH]; intros [|b k] x; cbn [filter2 In]; try tauto.
  destruct (f b); cbn [In]; [intros [<-|H]; [now left|right; eauto]|intros H; right; eauto]. Qed.
Lemma filter2_length {A B} (f : B -> bool) (l : list A) : forall k, (length (filter2 f l k) <= length l)%nat.
Proof. induction l as [|a t IH]; intros [|b k]; cbn [filter2 length]; try lia. specialize (IH k). destruct (f b); simpl; lia. Qed.
Lemma filter2_NoDup_map {A B C} (g : A -> C) (f : B -> bool) (l : list A) : forall k, NoDup (map g l) -> NoDup (map g (filter2 f l k)).
Proof. induction l as [|a t IH]; intros [|b k] H; cbn [filter2 map]; try constructor. inversion H as [|? ? Hn Ht]; subst.
  destruct (f b); [|now apply IH]. cbn [map]. constructor; [|now apply IH]. intros Hin. apply Hn.
  apply in_map_iff in Hin. destruct Hin as (x & <- & Hx). apply in_map. eapply filter2_In; eauto. Qed.
Lemma ok_inj {A} (a b : A) : @Ok A a = Ok b -> a = b.
Proof. now intros [=]. Qed.
Lemma vel_filter_sub rv ev vtol m m' : vel_filter rv ev vtol m = Ok m' ->
  incl m' m /\ (length m' <= length m)%nat /\ (NoDup (map fst m) -> NoDup (map fst m')) /\ (NoDup (map snd m) -> NoDup (map snd m')).
Proof. unfold vel_filter. destruct (qmin_list rv); [|discriminate]. destruct (qmax_list rv); [|discriminate].
  destruct m as [|x t]; [intros [= <-]; repeat split; auto; apply incl_refl|].
  intros H. apply bind_ok in H. destruct H as (pairs & _ & H). destruct (lstsq_line pairs) as [slope icpt]. apply ok_inj in H. rewrite <- H.
  repeat split; [intros y Hy; eapply filter2_In; eauto|apply filter2_length|apply filter2_NoDup_map|apply filter2_NoDup_map]. Qed.
Lemma obind_ok {A B} (r : res (option A)) (k : A -> res (option B)) b : obind r k = Ok (Some b) -> exists a, r = Ok (Some a) /\ k a = Ok (Some b).
Proof. unfold obind. intros H. apply bind_ok in H. destruct H as ([a|] & Hr & H); [eauto|discriminate]. Qed.

(* requiring the velocities to agree only removes pairs from the note matching *)
Theorem velocity_le_plain ref rv est ev otol ptol ratio mintol strict vtol l' :
  vel_match_notes ref rv est ev otol ptol ratio mintol strict vtol = Ok (Some l') ->
  exists l, match_notes ref est otol ptol ratio mintol strict = Ok (Some l) /\ incl l' l /\ (length l' <= length l)%nat /\
            NoDup (map fst l') /\ NoDup (map snd l').
Proof. unfold vel_match_notes. intros H. apply obind_ok in H. destruct H as (l & Hl & H). exists l. split; [exact Hl|].
  apply bind_ok in H. destruct H as (m' & Hf & [= <-]). apply vel_filter_sub in Hf. destruct Hf as (I & L & N1 & N2).
  destruct (match_notes_correct _ _ _ _ _ _ _ _ Hl) as (M1 & M2 & _). auto. Qed.

Lemma vel_prf_inv ri rp rv ei ep ev otol ptol ratio mintol strict vtol beta P R F A :
  vel_precision_recall_f1_overlap ri rp rv ei ep ev otol ptol ratio mintol strict vtol beta = Ok (Some (P, R, F, A)) ->
  validate ri rp ei ep = Ok tt /\
  (((length rp = 0 \/ length ep = 0)%nat /\ (P, R, F, A) = (0, 0, 0, Fin 0)) \/
   ((0 < length rp)%nat /\ (0 < length ep)%nat /\ exists m,
      vel_match_notes (zip_notes ri rp) rv (zip_notes ei ep) ev otol ptol ratio mintol strict vtol = Ok (Some m) /\
      average_overlap_ratio ri ei m = Ok A /\ prf_of (length m) (length rp) (length ep) beta = (P, R, F))).
Proof. unfold vel_precision_recall_f1_overlap, vel_validate. intros H. apply bind_ok in H. destruct H as ([] & Hv & H).
  apply bind_ok in Hv. destruct Hv as ([] & Hv & _). split; [exact Hv|].
  destruct ((length rp =? 0)%nat || (length ep =? 0)%nat) eqn:E.
  - left. injection H as <- <- <- <-. split; [|reflexivity]. apply orb_true_iff in E. destruct E as [E|E]; apply Nat.eqb_eq in E; auto.
  - right. apply orb_false_iff in E. destruct E as (E1 & E2). apply Nat.eqb_neq in E1, E2. split; [lia|]. split; [lia|].
    apply obind_ok in H. destruct H as (m & Hm & H). exists m. split; [exact Hm|].
    apply bind_ok in H. destruct H as (a & Ha & H). destruct (prf_of (length m) (length rp) (length ep) beta) as [[p r] f].
    injection H as <- <- <- <-. auto. Qed.
Theorem vel_prf_range ri rp rv ei ep ev otol ptol ratio mintol strict vtol beta P R F A :
  vel_precision_recall_f1_overlap ri rp rv ei ep ev otol ptol ratio mintol strict vtol beta = Ok (Some (P, R, F, A)) ->
  0 <= P <= 1 /\ 0 <= R <= 1 /\ 0 <= F <= 1 /\ exists a, A = Fin a /\ -1 <= a /\ a <= 1.
Proof. intros H. apply vel_prf_inv in H. destruct H as (Hv & [(_ & [= -> -> -> ->])|(Hr & He & m & Hm & Ha & Hp)]).
  - repeat split; try lra. exists 0. split; [reflexivity|split; lra].
  - apply validate_inv in Hv. destruct Hv as (V1 & V2 & L1 & L2 & _). apply velocity_le_plain in Hm. destruct Hm as (l & Hl & _ & Hle & _).
    apply match_notes_inv in Hl. destruct Hl as (Hl & _). apply match_pred_le_min in Hl. rewrite !zip_notes_length in Hl by auto.
    assert (R3 : 0 <= P <= 1 /\ 0 <= R <= 1 /\ 0 <= F <= 1) by (eapply prf_of_range; [| | | |exact Hp]; lia).
    destruct R3 as (R1 & R2 & R3). repeat split; try tauto. exact (aor_range ri ei m A V1 V2 Ha). Qed.
(* precision and recall with velocity <= without *)
Theorem vel_prf_le_plain ri rp rv ei ep ev otol ptol ratio mintol strict vtol beta P R F A P0 R0 F0 A0 :
  vel_precision_recall_f1_overlap ri rp rv ei ep ev otol ptol ratio mintol strict vtol beta = Ok (Some (P, R, F, A)) ->
  precision_recall_f1_overlap ri rp ei ep otol ptol ratio mintol strict beta = Ok (Some (P0, R0, F0, A0)) ->
  P <= P0 /\ R <= R0.
Proof. intros H H0. apply vel_prf_inv in H. apply prf_inv in H0.
  destruct H as (_ & [(E & [= -> -> -> ->])|(Hr & He & m & Hm & _ & Hp)]), H0 as (_ & [(E0 & [= -> -> -> ->])|(Hr0 & He0 & m0 & Hm0 & _ & Hp0)]); try lia; [split; lra|].
  apply velocity_le_plain in Hm. destruct Hm as (l & Hl & _ & Hle & _). rewrite Hm0 in Hl. injection Hl as ->.
  unfold prf_of in Hp, Hp0. cbv zeta in Hp, Hp0. injection Hp as <- <- _. injection Hp0 as <- <- _.
  pose proof (nQ_le _ _ Hle). pose proof (nQ_pos _ Hr). pose proof (nQ_pos _ He). pose proof (nQ_nonneg (length m)).
  split; (apply Qle_shift_div_l; [assumption|]); unfold Qdiv; rewrite <- Qmult_assoc, (Qmult_comm (/ _)), Qmult_inv_r by lra; lra. Qed.
(* C02 fails for the velocity variant: the perfect estimate of three mutually close notes with velocities 30, 60, 90
   is matched as (0,0),(1,2),(2,1), the regression through (30,0),(90,1/2),(60,1) predicts 1/4, 3/4, 1/2 and every
   pair is rejected.  mir_eval: ri = [[0,1],[0.125,1.125],[0.0625,1.0625]], p = [440]*3, v = [30,60,90]:
   transcription_velocity.precision_recall_f1_overlap(ri, p, v, ri, p, v, onset_tolerance=0.0625) = (0.0, 0.0, 0.0, 0)
   (the same with default parameters for ri = [[0,1],[0.1,1.1],[0.05,1.05]]) *)
Theorem vel_prf_self_refuted : exists ri rp rv P R F A,
  vel_precision_recall_f1_overlap ri rp rv ri rp rv (1#16) 50 (Some d02) d005 false (1#10) 1 = Ok (Some (P, R, F, A)) /\ P == 0 /\ R == 0 /\ F == 0.
Proof. exists [(0, 1); (1#8, 9#8); (1#16, 17#16)], [(440, 35#4); (440, 35#4); (440, 35#4)], [30; 60; 90].
  do 4 eexists. split; [vm_compute; reflexivity|]. repeat split; reflexivity. Qed.

(* ================================================================================================ *)
(* I. invariances: time shift, pitch shift, order of the notes (C08, C09)                            *)
(* ================================================================================================ *)
Definition shift_ivl (c : Q) (i : ivl) : ivl := (fst i + c, snd i + c).
Definition shift_note (c : Q) (n : note) : note := (shift_ivl c (fst n), snd n).
Lemma fsub_abs_shift a b c : fsub_abs (a + c) (b + c) = fsub_abs a b.
Proof. unfold fsub_abs. apply fl64_compat, Qabs_wd. ring. Qed.
Lemma duration_shift c i : duration (shift_ivl c i) = duration i.
Proof. unfold duration, shift_ivl. cbn [fst snd]. apply fsub_abs_shift. Qed.
Lemma onset_hitb_shift c strict tol r e : onset_hitb strict tol (shift_ivl c r) (shift_ivl c e) = onset_hitb strict tol r e.
Proof. unfold onset_hitb, shift_ivl. cbn [fst snd]. now rewrite fsub_abs_shift. Qed.
Lemma offset_hitb_shift c strict ratio mintol r e :
  offset_hitb strict ratio mintol (shift_ivl c r) (shift_ivl c e) = offset_hitb strict ratio mintol r e.
Proof. unfold offset_hitb, offset_tol. rewrite duration_shift. unfold shift_ivl. cbn [fst snd]. now rewrite fsub_abs_shift. Qed.
Lemma note_hitb_shift c strict otol ptol ratio mintol r e :
  note_hitb strict otol ptol ratio mintol (shift_note c r) (shift_note c e) = note_hitb strict otol ptol ratio mintol r e.
Proof. unfold note_hitb, shift_note. cbn [fst snd]. rewrite onset_hitb_shift. destruct ratio; [now rewrite offset_hitb_shift|reflexivity]. Qed.

(* adding the same constant to every onset and offset leaves the hit set (as computed, in order) unchanged *)
Theorem note_hits_time_shift c strict otol ptol ratio mintol ref est :
  hits_where (note_hitb strict otol ptol ratio mintol) (map (shift_note c) ref) (map (shift_note c) est)
  = hits_where (note_hitb strict otol ptol ratio mintol) ref est.
Proof. rewrite hits_where_map. apply hits_where_ext. intros; apply note_hitb_shift. Qed.
Theorem onset_hits_time_shift c strict tol ref est :
  hits_where (onset_hitb strict tol) (map (shift_ivl c) ref) (map (shift_ivl c) est) = hits_where (onset_hitb strict tol) ref est.
Proof. rewrite hits_where_map. apply hits_where_ext. intros; apply onset_hitb_shift. Qed.
Theorem offset_hits_time_shift c strict ratio mintol ref est :
  hits_where (offset_hitb strict ratio mintol) (map (shift_ivl c) ref) (map (shift_ivl c) est) = hits_where (offset_hitb strict ratio mintol) ref est.
Proof. rewrite hits_where_map. apply hits_where_ext. intros; apply offset_hitb_shift. Qed.

Lemma ivs_valid_shift c l : 0 <= c -> ivs_valid l -> ivs_valid (map (shift_ivl c) l).
Proof. intros Hc V i Hi. apply in_map_iff in Hi. destruct Hi as (j & <- & Hj). destruct (V j Hj) as (A1 & A2 & A3).
  unfold shift_ivl. cbn [fst snd]. repeat split; lra. Qed.
Lemma validate_ivs_shift c l : 0 <= c -> validate_ivs l = Ok tt -> validate_ivs (map (shift_ivl c) l) = Ok tt.
Proof. intros Hc H. apply validate_ivs_ok. apply ivs_valid_shift; [exact Hc|]. now apply validate_ivs_ok. Qed.
Lemma map_fst_shift c (l : list note) : map fst (map (shift_note c) l) = map (shift_ivl c) (map fst l).
Proof. rewrite !map_map. reflexivity. Qed.
(* the matchers: the same list of pairs (the shift must not make a time negative: the durations are validated) *)
Theorem match_notes_time_shift c ref est otol ptol ratio mintol strict l : 0 <= c ->
  match_notes ref est otol ptol ratio mintol strict = Ok (Some l) ->
  match_notes (map (shift_note c) ref) (map (shift_note c) est) otol ptol ratio mintol strict = Ok (Some l).
Proof. intros Hc H. apply match_notes_inv in H. destruct H as (Hm & Hv). unfold match_notes, match_pred.
  rewrite note_hits_time_shift. fold (match_pred (note_hitb strict otol ptol ratio mintol) ref est). rewrite Hm.
  destruct ratio; [|reflexivity]. rewrite map_fst_shift, (validate_ivs_shift c _ Hc Hv). reflexivity. Qed.
Theorem match_note_onsets_time_shift c ref est tol strict :
  match_note_onsets (map (shift_ivl c) ref) (map (shift_ivl c) est) tol strict = match_note_onsets ref est tol strict.
Proof. unfold match_note_onsets, match_pred. now rewrite onset_hits_time_shift. Qed.
Theorem match_note_offsets_time_shift c ref est ratio mintol strict l : 0 <= c ->
  match_note_offsets ref est ratio mintol strict = Ok (Some l) ->
  match_note_offsets (map (shift_ivl c) ref) (map (shift_ivl c) est) ratio mintol strict = Ok (Some l).
Proof. intros Hc H. apply match_note_offsets_inv in H. destruct H as (Hm & Hv). unfold match_note_offsets, match_pred.
  rewrite offset_hits_time_shift. fold (match_pred (offset_hitb strict ratio mintol) ref est). rewrite Hm, (validate_ivs_shift c _ Hc Hv). reflexivity. Qed.

Lemma combine_map_l {A B C} (f : A -> C) (l : list A) (k : list B) : combine (map f l) k = map (fun x => (f (fst x), snd x)) (combine l k).
Proof. revert k. induction l as [|a t IH]; intros [|b k]; simpl; auto. now rewrite IH. Qed.
Lemma combine_map_r {A B C} (g : B -> C) (l : list A) (k : list B) : combine l (map g k) = map (fun x => (fst x, g (snd x))) (combine l k).
Proof. revert k. induction l as [|a t IH]; intros [|b k]; simpl; auto. now rewrite IH. Qed.
Lemma zip_notes_shift c ri rp : zip_notes (map (shift_ivl c) ri) rp = map (shift_note c) (zip_notes ri rp).
Proof. unfold zip_notes. now rewrite combine_map_l. Qed.
Lemma ratios_map (f g : ivl -> ivl) ref est m rs : ratios ref est m = Ok rs -> exists rs', ratios (map f ref) (map g est) m = Ok rs'.
Proof. revert rs. induction m as [|[i j] t IH]; intros rs H; cbn [ratios] in *; [eauto|].
  rewrite !nth_error_map. destruct (nth_error ref i); [|discriminate]. destruct (nth_error est j); [|discriminate]. cbn [option_map].
  apply bind_ok in H. destruct H as (rs0 & H0 & _). destruct (IH _ H0) as (rs' & ->). cbn [bind]. eauto. Qed.
(* the Average Overlap Ratio is unchanged as well (same value up to == on Q; same non-finite class) *)
Definition xval_equiv (a b : xval) : Prop :=
  match a, b with Fin x, Fin y => x == y | PInf, PInf | NInf, NInf | NaN, NaN => True | _, _ => False end.
Lemma xdiv_equiv a b a' b' : a == a' -> b == b' -> xval_equiv (xdiv a b) (xdiv a' b').
Proof. intros Ha Hb. unfold xdiv. assert (E1 : qeqb b 0 = qeqb b' 0) by (unfold qeqb; now rewrite Hb).
  assert (E2 : qeqb a 0 = qeqb a' 0) by (unfold qeqb; now rewrite Ha).
  assert (E3 : qltb 0 a = qltb 0 a') by (unfold qltb; now rewrite Ha). rewrite E1, E2, E3.
  destruct (qeqb b' 0); [destruct (qeqb a' 0); [exact I|destruct (qltb 0 a'); exact I]|]. simpl. now rewrite Ha, Hb. Qed.
Lemma overlap_ratio_shift c r e : xval_equiv (overlap_ratio (shift_ivl c r) (shift_ivl c e)) (overlap_ratio r e).
Proof. unfold overlap_ratio, shift_ivl. cbn [fst snd]. apply xdiv_equiv.
  - rewrite Q.plus_min_distr_r, Q.plus_max_distr_r. ring.
  - rewrite Q.plus_min_distr_r, Q.plus_max_distr_r. ring. Qed.
Lemma xadd_equiv a b a' b' : xval_equiv a a' -> xval_equiv b b' -> xval_equiv (xadd a b) (xadd a' b').
Proof. destruct a, a', b, b'; simpl; try tauto. intros H1 H2. now rewrite H1, H2. Qed.
Lemma ratios_shift c ref est m rs : ratios ref est m = Ok rs ->
  exists rs', ratios (map (shift_ivl c) ref) (map (shift_ivl c) est) m = Ok rs' /\ Forall2 xval_equiv rs' rs.
Proof. revert rs. induction m as [|[i j] t IH]; intros rs H; cbn [ratios] in *.
  - injection H as <-. exists []. split; [reflexivity|constructor].
  - rewrite !nth_error_map. destruct (nth_error ref i) as [r|]; [|discriminate]. destruct (nth_error est j) as [e|]; [|discriminate]. cbn [option_map].
    apply bind_ok in H. destruct H as (rs0 & H0 & [= <-]). destruct (IH _ H0) as (rs' & -> & HF). cbn [bind].
    eexists. split; [reflexivity|]. constructor; [apply overlap_ratio_shift|exact HF]. Qed.
Lemma xsum_equiv l l' : Forall2 xval_equiv l l' -> xval_equiv (fold_right xadd (Fin 0) l) (fold_right xadd (Fin 0) l').
Proof. induction 1; cbn [fold_right]; [simpl; reflexivity|]. now apply xadd_equiv. Qed.
Lemma Forall2_len {A B} (R : A -> B -> Prop) l l' : Forall2 R l l' -> length l = length l'.
Proof. induction 1; simpl; congruence. Qed.
Theorem aor_time_shift c ref est m A : average_overlap_ratio ref est m = Ok A ->
  exists A', average_overlap_ratio (map (shift_ivl c) ref) (map (shift_ivl c) est) m = Ok A' /\ xval_equiv A' A.
Proof. unfold average_overlap_ratio. intros H. apply bind_ok in H. destruct H as (rs & Hrs & [= <-]).
  destruct (ratios_shift c _ _ _ _ Hrs) as (rs' & -> & HF). cbn [bind]. eexists. split; [reflexivity|].
  pose proof (Forall2_len _ _ _ HF) as HL. pose proof (xsum_equiv _ _ HF) as HS.
  destruct HF as [|x y l l' Hxy HF]; [simpl; reflexivity|]. unfold xmean. rewrite HL.
  destruct (fold_right xadd (Fin 0) (x :: l)), (fold_right xadd (Fin 0) (y :: l')); simpl in HS |- *; try tauto. now rewrite HS. Qed.

(* precision, recall, F-measure and AOR are unchanged by a common (non-negative, see above) time shift *)
Theorem prf_time_shift c ri rp ei ep otol ptol ratio mintol strict beta P R F A : 0 <= c ->
  precision_recall_f1_overlap ri rp ei ep otol ptol ratio mintol strict beta = Ok (Some (P, R, F, A)) ->
  exists A', precision_recall_f1_overlap (map (shift_ivl c) ri) rp (map (shift_ivl c) ei) ep otol ptol ratio mintol strict beta = Ok (Some (P, R, F, A'))
             /\ xval_equiv A' A.
Proof. intros Hc H. apply prf_inv in H. destruct H as (Hv & Hcase).
  assert (Hv' : validate (map (shift_ivl c) ri) rp (map (shift_ivl c) ei) ep = Ok tt).
  { revert Hv. unfold validate, validate_intervals2. intros H. apply bind_ok in H. destruct H as ([] & Hi & H).
    apply bind_ok in Hi. destruct Hi as ([] & V1 & V2). rewrite (validate_ivs_shift c _ Hc V1), (validate_ivs_shift c _ Hc V2). cbn [bind].
    now rewrite !map_length. }
  unfold precision_recall_f1_overlap. rewrite Hv'. cbn [bind].
  destruct Hcase as [(E & [= -> -> -> ->])|(Hr & He & m & Hm & Ha & Hp)].
  - exists (Fin 0). split; [|simpl; reflexivity]. destruct E as [E|E]; rewrite E; [reflexivity|]. now rewrite orb_true_r.
  - destruct (length rp) as [|nr] eqn:Er; [lia|]. destruct (length ep) as [|ne] eqn:Ee; [lia|]. cbn [Nat.eqb orb].
    rewrite !zip_notes_shift, (match_notes_time_shift c _ _ _ _ _ _ _ _ Hc Hm). cbn [bind].
    destruct (aor_time_shift c _ _ _ _ Ha) as (A' & -> & HE). cbn [bind]. rewrite Hp. exists A'. split; [reflexivity|exact HE]. Qed.
Theorem onset_prf_time_shift c ref est tol strict beta x : 0 <= c ->
  onset_precision_recall_f1 ref est tol strict beta = Ok x ->
  onset_precision_recall_f1 (map (shift_ivl c) ref) (map (shift_ivl c) est) tol strict beta = Ok x.
Proof. intros Hc. unfold onset_precision_recall_f1, validate_intervals2. intros H. apply bind_ok in H. destruct H as ([] & Hi & H).
  apply bind_ok in Hi. destruct Hi as ([] & V1 & V2). rewrite (validate_ivs_shift c _ Hc V1), (validate_ivs_shift c _ Hc V2). cbn [bind].
  now rewrite !map_length, match_note_onsets_time_shift. Qed.

(* ---------- pitch ---------- *)
(* the matcher reads log2(f): multiplying every frequency by k adds log2 k to every log-frequency *)
Definition shift_pitch (c : Q) (n : note) : note := (fst n, snd n + c).
Lemma pitch_hitb_shift c strict ptol a b : pitch_hitb strict ptol (a + c) (b + c) = pitch_hitb strict ptol a b.
Proof. unfold pitch_hitb. assert (H : Qabs (a + c - (b + c)) == Qabs (a - b)) by (apply Qabs_wd; ring). now rewrite (fl64_compat _ _ H). Qed.
Lemma note_hitb_pitch_shift c strict otol ptol ratio mintol r e :
  note_hitb strict otol ptol ratio mintol (shift_pitch c r) (shift_pitch c e) = note_hitb strict otol ptol ratio mintol r e.
Proof. unfold note_hitb, shift_pitch. cbn [fst snd]. now rewrite pitch_hitb_shift. Qed.
Theorem note_hits_pitch_shift c strict otol ptol ratio mintol ref est :
  hits_where (note_hitb strict otol ptol ratio mintol) (map (shift_pitch c) ref) (map (shift_pitch c) est)
  = hits_where (note_hitb strict otol ptol ratio mintol) ref est.
Proof. rewrite hits_where_map. apply hits_where_ext. intros; apply note_hitb_pitch_shift. Qed.
Theorem match_notes_pitch_shift c ref est otol ptol ratio mintol strict :
  match_notes (map (shift_pitch c) ref) (map (shift_pitch c) est) otol ptol ratio mintol strict = match_notes ref est otol ptol ratio mintol strict.
Proof. unfold match_notes, match_pred. rewrite note_hits_pitch_shift. rewrite !map_map. reflexivity. Qed.
(* on the (Hz, log2 Hz) pairs: frequencies times k > 0, log-frequencies plus c *)
Definition scale_pitch (k c : Q) (p : pitch) : pitch := (k * fst p, snd p + c).
Lemma existsb_ext_in {A} (f g : A -> bool) l : (forall x, In x l -> f x = g x) -> existsb f l = existsb g l.
Proof. induction l as [|a t IH]; intros H; simpl; [reflexivity|]. rewrite (H a (or_introl eq_refl)), IH; [reflexivity|]. intros; apply H; now right. Qed.
Lemma existsb_map_alt {A B} (f : B -> bool) (g : A -> B) l : existsb f (map g l) = existsb (fun x => f (g x)) l.
Proof. induction l as [|a t IH]; simpl; [reflexivity|]. now rewrite IH. Qed.
Lemma nonpos_scale k (l : list pitch) c : 0 < k ->
  existsb (fun p => qleb (fst p) 0) (map (scale_pitch k c) l) = existsb (fun p => qleb (fst p) 0) l.
Proof. intros Hk. rewrite existsb_map_alt. apply existsb_ext_in. intros p _. unfold scale_pitch. cbn [fst].
  destruct (qleb (fst p) 0) eqn:E.
  - apply qleb_iff in E. apply qleb_iff. nra.
  - destruct (qleb (k * fst p) 0) eqn:E'; [|reflexivity]. apply qleb_iff in E'. assert (fst p <= 0) by nra. apply qleb_iff in H. congruence. Qed.
Theorem prf_pitch_shift k c ri rp ei ep otol ptol ratio mintol strict beta : 0 < k ->
  precision_recall_f1_overlap ri (map (scale_pitch k c) rp) ei (map (scale_pitch k c) ep) otol ptol ratio mintol strict beta
  = precision_recall_f1_overlap ri rp ei ep otol ptol ratio mintol strict beta.
Proof. intros Hk. unfold precision_recall_f1_overlap, validate. rewrite !map_length, !(nonpos_scale k _ c Hk).
  assert (Z : forall ii pp, zip_notes ii (map (scale_pitch k c) pp) = map (shift_pitch c) (zip_notes ii pp)).
  { unfold zip_notes. induction ii as [|i t IH]; intros [|p pp]; simpl; auto. now rewrite IH. }
  rewrite !Z, match_notes_pitch_shift. reflexivity. Qed.

(* ---------- the order of the notes ---------- *)
Theorem hits_perm_invariant ref ref' est est' otol ptol ratio mintol strict l l' :
  Permutation ref ref' -> Permutation est est' ->
  match_notes ref est otol ptol ratio mintol strict = Ok (Some l) ->
  match_notes ref' est' otol ptol ratio mintol strict = Ok (Some l') -> length l = length l'.
Proof. intros Pr Pe H H'. apply match_notes_inv in H, H'. destruct H as (H & _), H' as (H' & _). exact (match_pred_perm _ _ _ _ _ _ _ Pr Pe H H'). Qed.
Theorem onset_hits_perm_invariant ref ref' est est' tol strict l l' :
  Permutation ref ref' -> Permutation est est' ->
  match_note_onsets ref est tol strict = Ok (Some l) -> match_note_onsets ref' est' tol strict = Ok (Some l') -> length l = length l'.
Proof. intros Pr Pe H H'. apply match_note_onsets_inv in H, H'. exact (match_pred_perm _ _ _ _ _ _ _ Pr Pe H H'). Qed.
Theorem offset_hits_perm_invariant ref ref' est est' ratio mintol strict l l' :
  Permutation ref ref' -> Permutation est est' ->
  match_note_offsets ref est ratio mintol strict = Ok (Some l) -> match_note_offsets ref' est' ratio mintol strict = Ok (Some l') -> length l = length l'.
Proof. intros Pr Pe H H'. apply match_note_offsets_inv in H, H'. destruct H as (H & _), H' as (H' & _). exact (match_pred_perm _ _ _ _ _ _ _ Pr Pe H H'). Qed.

Lemma zip_notes_perm ri rp ri' rp' : Permutation (combine ri rp) (combine ri' rp') -> Permutation (zip_notes ri rp) (zip_notes ri' rp').
Proof. intros P. unfold zip_notes. rewrite !combine_map_r. now apply Permutation_map. Qed.
Lemma combine_length_eq {A B} (l : list A) (k : list B) : length l = length k -> length (combine l k) = length k.
Proof. intros H. rewrite combine_length. lia. Qed.
(* reordering the reference notes (intervals together with their pitches) and the estimated notes: same P, R, F *)
Theorem prf_perm_invariant ri rp ei ep ri' rp' ei' ep' otol ptol ratio mintol strict beta P R F A P' R' F' A' :
  Permutation (combine ri rp) (combine ri' rp') -> Permutation (combine ei ep) (combine ei' ep') ->
  precision_recall_f1_overlap ri rp ei ep otol ptol ratio mintol strict beta = Ok (Some (P, R, F, A)) ->
  precision_recall_f1_overlap ri' rp' ei' ep' otol ptol ratio mintol strict beta = Ok (Some (P', R', F', A')) ->
  P = P' /\ R = R' /\ F = F'.
Proof. intros Pr Pe H H'. apply prf_inv in H, H'. destruct H as (Hv & Hc), H' as (Hv' & Hc').
  apply validate_inv in Hv, Hv'. destruct Hv as (_ & _ & L1 & L2 & _), Hv' as (_ & _ & L1' & L2' & _).
  pose proof (Permutation_length Pr) as Er. pose proof (Permutation_length Pe) as Ee.
  rewrite !combine_length_eq in Er, Ee by auto.
  destruct Hc as [(E & [= -> -> -> _])|(Hr & He & m & Hm & _ & Hp)], Hc' as [(E' & [= -> -> -> _])|(Hr' & He' & m' & Hm' & _ & Hp')]; try lia; [auto|].
  rewrite (hits_perm_invariant _ _ _ _ _ _ _ _ _ _ _ (zip_notes_perm _ _ _ _ Pr) (zip_notes_perm _ _ _ _ Pe) Hm Hm'), Er, Ee in Hp.
  rewrite Hp in Hp'. injection Hp' as -> -> ->. auto. Qed.
Theorem onset_prf_perm_invariant ref ref' est est' tol strict beta x x' :
  Permutation ref ref' -> Permutation est est' ->
  onset_precision_recall_f1 ref est tol strict beta = Ok (Some x) -> onset_precision_recall_f1 ref' est' tol strict beta = Ok (Some x') -> x = x'.
Proof. intros Pr Pe H H'. destruct x as [[P R] F], x' as [[P' R'] F']. apply onset_prf_inv in H, H'.
  pose proof (Permutation_length Pr) as Er. pose proof (Permutation_length Pe) as Ee.
  destruct H as (_ & _ & [(E & [= -> -> ->])|(Hr & He & m & Hm & Hp)]), H' as (_ & _ & [(E' & [= -> -> ->])|(Hr' & He' & m' & Hm' & Hp')]); try lia; [reflexivity|].
  rewrite (match_pred_perm _ _ _ _ _ _ _ Pr Pe Hm Hm'), Er, Ee in Hp. congruence. Qed.
Theorem offset_prf_perm_invariant ref ref' est est' ratio mintol strict beta x x' :
  Permutation ref ref' -> Permutation est est' ->
  offset_precision_recall_f1 ref est ratio mintol strict beta = Ok (Some x) -> offset_precision_recall_f1 ref' est' ratio mintol strict beta = Ok (Some x') -> x = x'.
Proof. intros Pr Pe H H'. destruct x as [[P R] F], x' as [[P' R'] F']. apply offset_prf_inv in H, H'.
  pose proof (Permutation_length Pr) as Er. pose proof (Permutation_length Pe) as Ee.
  destruct H as (_ & _ & [(E & [= -> -> ->])|(Hr & He & m & Hm & Hp)]), H' as (_ & _ & [(E' & [= -> -> ->])|(Hr' & He' & m' & Hm' & Hp')]); try lia; [reflexivity|].
  rewrite (match_pred_perm _ _ _ _ _ _ _ Pr Pe Hm Hm'), Er, Ee in Hp. congruence. Qed.
(* the hypotheses are satisfiable; the matched pairs themselves do depend on the order *)
Example hits_perm_invariant_sat :
  let a := ((0, 1), 35#4) in let b := ((1#32, 1), 35#4) in let c := ((2, 3), 35#4) in
  match_notes [a; b; c] [b; a] d005 50 (Some d02) d005 false = Ok (Some [(0, 0); (1, 1)]%nat) /\
  match_notes [c; b; a] [a; b] d005 50 (Some d02) d005 false = Ok (Some [(1, 0); (2, 1)]%nat).
Proof. split; vm_compute; reflexivity. Qed.

(* ... but what depends on WHICH maximum matching is returned does depend on the order (C08 fails there):
   the Average Overlap Ratio, and every score of the velocity variant.  Same three notes, second and third exchanged
   (in both annotations).  mir_eval, p = [440]*3, onset_tolerance=0.0625:
     ri = [[0,1],[0.125,1.125],[0.0625,1.0625]], v = [30,60,90]:
        transcription.precision_recall_f1_overlap(ri,p,ri,p)              = (1.0, 1.0, 1.0, 0.9215686274509803)
        transcription_velocity.precision_recall_f1_overlap(ri,p,v,ri,p,v) = (0.0, 0.0, 0.0, 0)
     ri = [[0,1],[0.0625,1.0625],[0.125,1.125]], v = [30,90,60]:          (1.0, 1.0, 1.0, 1.0) for both *)
Theorem aor_perm_refuted : exists ri rp ri' rp' P R F a P' R' F' a',
  Permutation (combine ri rp) (combine ri' rp') /\
  precision_recall_f1_overlap ri rp ri rp (1#16) 50 (Some d02) d005 false 1 = Ok (Some (P, R, F, Fin a)) /\
  precision_recall_f1_overlap ri' rp' ri' rp' (1#16) 50 (Some d02) d005 false 1 = Ok (Some (P', R', F', Fin a')) /\
  a < 1 /\ a' == 1.
Proof. exists [(0, 1); (1#8, 9#8); (1#16, 17#16)], [(440, 35#4); (440, 35#4); (440, 35#4)],
              [(0, 1); (1#16, 17#16); (1#8, 9#8)], [(440, 35#4); (440, 35#4); (440, 35#4)].
  do 8 eexists. split; [apply perm_skip, perm_swap|]. split; [vm_compute; reflexivity|]. split; [vm_compute; reflexivity|]. split; reflexivity. Qed.
Theorem vel_prf_perm_refuted : exists ri rp rv ri' rp' rv' P R F A P' R' F' A',
  Permutation (combine ri (combine rp rv)) (combine ri' (combine rp' rv')) /\
  vel_precision_recall_f1_overlap ri rp rv ri rp rv (1#16) 50 (Some d02) d005 false (1#10) 1 = Ok (Some (P, R, F, A)) /\
  vel_precision_recall_f1_overlap ri' rp' rv' ri' rp' rv' (1#16) 50 (Some d02) d005 false (1#10) 1 = Ok (Some (P', R', F', A')) /\
  P == 0 /\ P' == 1.
Proof. exists [(0, 1); (1#8, 9#8); (1#16, 17#16)], [(440, 35#4); (440, 35#4); (440, 35#4)], [30; 60; 90],
              [(0, 1); (1#16, 17#16); (1#8, 9#8)], [(440, 35#4); (440, 35#4); (440, 35#4)], [30; 90; 60].
  do 8 eexists. split; [apply perm_skip, perm_swap|]. split; [vm_compute; reflexivity|]. split; [vm_compute; reflexivity|]. split; reflexivity. Qed.

(* ---------- the hypotheses of the conditional theorems above are satisfiable ---------- *)
Example onset_prf_swap_sat : exists x x',
  onset_precision_recall_f1 [(0, 1); (2, 3)] [(1#32, 1)] d005 false 1 = Ok (Some x) /\
  onset_precision_recall_f1 [(1#32, 1)] [(0, 1); (2, 3)] d005 false 1 = Ok (Some x').
Proof. do 2 eexists. split; vm_compute; reflexivity. Qed.
Example prf_no_offset_swap_sat : exists x x',
  precision_recall_f1_overlap [(0, 1); (2, 3)] [(440, 35#4); (440, 35#4)] [(1#32, 5)] [(440, 35#4)] d005 50 None d005 false 1 = Ok (Some x) /\
  precision_recall_f1_overlap [(1#32, 5)] [(440, 35#4)] [(0, 1); (2, 3)] [(440, 35#4); (440, 35#4)] d005 50 None d005 false 1 = Ok (Some x').
Proof. do 2 eexists. split; vm_compute; reflexivity. Qed.
Example velocity_le_plain_sat :
  let n := [((0, 1), 35#4); ((2, 3), 35#4); ((4, 5), 35#4)] in
  vel_match_notes n [10; 60; 110] n [10; 60; 60] d005 50 (Some d02) d005 false (1#10) = Ok (Some [(0, 0)]%nat) /\
  match_notes n n d005 50 (Some d02) d005 false = Ok (Some [(0, 0); (1, 1); (2, 2)]%nat).
Proof. split; vm_compute; reflexivity. Qed.
Example with_offset_chain_sat :
  let r := [((0, 1), 35#4); ((2, 3), 35#4); ((4, 5), 35#4)] in let e := [((0, 1), 35#4); ((2, 7#2), 35#4); ((4, 5), 9)] in
  match_notes r e d005 50 (Some d02) d005 false = Ok (Some [(0, 0)]%nat) /\
  match_notes r e d005 50 None d005 false = Ok (Some [(0, 0); (1, 1)]%nat) /\
  match_note_onsets (map fst r) (map fst e) d005 false = Ok (Some [(0, 0); (1, 1); (2, 2)]%nat).
Proof. repeat split; vm_compute; reflexivity. Qed.
Example strict_subset_sat :
  let r := [((0, 1), 35#4)] in let e := [((1#16, 1), 35#4)] in
  match_notes r e (1#16) 50 (Some d02) d005 true = Ok (Some []) /\ match_notes r e (1#16) 50 (Some d02) d005 false = Ok (Some [(0, 0)]%nat).
Proof. split; vm_compute; reflexivity. Qed.
(* the rounding at 4 decimals and the binary64 value of the tolerance: |1.05004 - 1| is rounded to the double 0.05,
   which is <= but not < the double 0.05, although the exact rational 1/20 is < the exact value of the double 0.05 *)
Example round_then_compare :
  let a := 1182239938181029 # 1125899906842624 (* the double 1.05004 *) in
  onset_hitb false d005 (1, 2) (a, 2) = true /\ onset_hitb true d005 (1, 2) (a, 2) = false /\ (1#20) < d005.
Proof. repeat split; vm_compute; reflexivity. Qed.

(* ================================================================================================ *)
Print Assumptions note_hits_spec.
Print Assumptions match_notes_correct.
Print Assumptions match_note_onsets_correct.
Print Assumptions match_note_offsets_correct.
Print Assumptions prf_range.
Print Assumptions onset_prf_range.
Print Assumptions offset_prf_range.
Print Assumptions vel_prf_range.
Print Assumptions aor_le_1.
Print Assumptions aor_negative_example.
Print Assumptions prf_self.
Print Assumptions prf_self_aor_refuted.
Print Assumptions aor_identity_matching.
Print Assumptions vel_prf_self_refuted.
Print Assumptions onset_prf_swap.
Print Assumptions prf_no_offset_swap.
Print Assumptions offset_swap_counterexample.
Print Assumptions prf_offset_swap_counterexample.
Print Assumptions hits_tolerance_mono.
Print Assumptions onset_hits_tolerance_mono.
Print Assumptions offset_hits_tolerance_mono.
Print Assumptions strict_subset.
Print Assumptions strict_subset_count.
Print Assumptions with_offset_le_no_offset_le_onset_only.
Print Assumptions velocity_le_plain.
Print Assumptions vel_prf_le_plain.
Print Assumptions note_hits_time_shift.
Print Assumptions match_notes_time_shift.
Print Assumptions prf_time_shift.
Print Assumptions aor_time_shift.
Print Assumptions note_hits_pitch_shift.
Print Assumptions prf_pitch_shift.
Print Assumptions hits_perm_invariant.
Print Assumptions prf_perm_invariant.
Print Assumptions aor_perm_refuted.
Print Assumptions vel_prf_perm_refuted.
Print Assumptions onset_prf_self.
Print Assumptions offset_prf_self.
Print Assumptions aor_range.
Print Assumptions onset_prf_perm_invariant.
Print Assumptions offset_prf_perm_invariant.
Print Assumptions onset_prf_time_shift.
Print Assumptions fl64_mono.
